#!/usr/bin/env python3
"""Regenerates MANIFEST.json from the table below (kept in one place so the file is always valid)."""
import json, os
HERE = os.path.dirname(os.path.dirname(os.path.abspath(__file__)))
ALL = [f"C{i:02d}" for i in range(1, 21)]

TB = ("Trusted: Lean 4.33 kernel; axioms propext/Classical.choice/Quot.sound only (audited every run by #print axioms; "
      "sorry/axiom/native_decide/bv_decide grep); the hand-written Lean model's faithfulness is CHECKED by the differential "
      "correspondence run against the real code (compat build of /repo's working tree), not proved; harness generators, "
      "canonicalisation and reference oracles; JAX/XLA/TFP are modelled, not verified. ")

CHECKS = {
    "C16": dict(
        text="Lean theorems (all selections, paths, choice maps): Boolean-algebra laws of `selected`, str/tuple/dict laws, "
             "filter partition for the specification filter, and `Fn.filter`-as-written = specification filter under the decidable "
             "premise flagSound (+ proved counterexamples outside it). Tie to the code: exhaustive differential run of "
             "Selection.match chains (all expressions of depth<=1 x all paths<=3) and Fn.filter/merge against the compiled Lean "
             "model, independent reference semantics, and regenerate/filter agreement on a real trace.",
        note=TB + "C16: choice-map leaves are opaque payloads; vectorised and Cond-merged leaves are covered by the correspondence run only.",
        technique="Lean 4 proof (structural/functional induction) + exhaustive differential correspondence with the implementation",
        design="§3 C16"),
    "C01": dict(
        text="Lean theorems over the deep-embedded modelling language (every program incl. Vmap/Scan/Cond, every argument list, "
             "arbitrary primitive densities/samplers, weights in any additive commutative group): every trace simulate builds is structurally "
             "coherent; a coherent trace reports score = -assess(its choices) and the same return value - every program, Cond at any depth "
             "(hypothesis: get_choices() does not raise, characterised exactly by the program's static skeleton). THE SAMPLING HALF: with every site drawing from a finite distribution (simD, which collapses to simulate for point masses and whose density assessP is exp of assess), the probability that simulate's choice map is x "
             "equals the product of the site masses assess computes, the return value is assess's, total mass 1 - for every program incl. Cond whose branches have the same static shape "
             "(proved counterexample for branches of different shape = open finding cond-mixed-shape-law). Tie: random typed programs executed on the real genjax (seed(simulate), assess) and on the compiled "
             "Lean model with exact-rational probe distributions, plus an independent reference semantics.",
        note=TB + "C01: the law theorem is about finite-support primitives; that each real primitive sampler draws from its logpdf is the sampler contract (C13/C07), checked "
             "by chi-square on discrete programs (incl. Scan followed by further sites and a second Scan); probe samplers are deterministic so the model can predict every draw; "
             "kwargs are modelled as positional arguments, checked by keyword/positional twin programs; open findings vmap-kwargs-raise, cond-mixed-shape-law.",
        technique="Lean 4 proof (mutual structural induction on programs) + differential correspondence on generated programs",
        design="§3 C01"),
    "C02": dict(
        text="Lean theorems: generate returns a coherent trace for every constraint map; weight 0 without constraints; weight = minus the scores "
             "of exactly the constrained leaves (GF.cw) for every program; score = -assess(choices) for every program incl. Cond; every constrained address holds the constrained value and every other value is the sampler's draw for the parameters computed from the trace; generate with a covering constraint IS assess; in the finite-distribution "
             "semantics generate is properly weighted outcome by outcome and against every function of the observable trace, E[weight] = marginal likelihood of the constraints = sum over completions "
             "of the joint mass, and generate never raises on a completable constraint - every program incl. Cond with same-shape branches (counterexamples proved for mixed shapes and for test functions of the hidden branch). Tie: generate on the real code for "
             "all/none/partial constraint subsets of generated programs vs the Lean model and the reference semantics.",
        note=TB + "C02: the expected-weight theorems are about finite-support primitives (normalised, for programs with Cond); kwargs are modelled as positional arguments, checked by twin programs.",
        technique="Lean 4 proof + differential correspondence over constraint subsets",
        design="§3 C02"),
    "C03": dict(
        text="Lean theorems: update returns a coherent trace under the new args; weight = score(old) - score(new) for every program incl. Cond branch "
             "switches (repaired code = spec variant) and for the pre-repair variant when no Cond switches; in assess terms (w = log p(new) - log p(old)) "
             "for every program incl. Cond switches; VALUES: constrained addresses hold the new values, every other address keeps its old visible value - also across a "
             "branch switch (repaired Cond.update; the pre-repair behaviour is characterised and shown to expose the hidden branch's stale value), the discard is leaf for leaf the old "
             "visible choice map, and updating back with the discard and the old arguments restores the original choices with the negated weight. "
             "Tie: update sequences with arg changes / constraint subsets / discard round trip on the real code vs model and reference.",
        note=TB + "C03: the round-trip theorem takes definedness of the second update as a hypothesis; open finding vmap-trace-no-wrapper (trace.update on a top-level Vmap trace); kwargs by twin programs.",
        technique="Lean 4 proof + differential correspondence incl. round trips",
        design="§3 C03"),
    "C04": dict(
        text="Lean theorems: regenerate returns a coherent trace; weight formula (change of joint minus change of selected prior) when no Cond "
             "switches; empty selection + same args => weight 0 and the identical trace (canonical traces; all ops produce canonical traces); all "
             "selected => weight 0; proved counterexamples for the dropped hypotheses; pre-repair Scan.regenerate undefined; in the linear-domain probabilistic semantics the weight is (joint-density ratio) / (selected-density ratio) (Cond-free); VALUES: every unselected address is unchanged, every selected leaf holds the sampler's draw for the parameters of the NEW trace, the discard holds exactly the old values of the selected addresses. Tie: regenerate with "
             "generated selection expressions on the real code (incl. definedness) vs model and reference.",
        note=TB + "C04: 'fresh draw' is stated for the deterministic probe sampler (P.draw); distributional freshness is the sampler contract; open finding kwarg-name-collision.",
        technique="Lean 4 proof + differential correspondence over selections",
        design="§3 C04"),
    "C05": dict(
        text="Lean theorems: coherence is preserved by any finite history of update/regenerate steps (induction over the op list) and by the "
             "kernels' accept/reject select (whole-trace and lane-wise) and by particle gathering with ancestor indices when every field INCLUDING the per-particle arguments is gathered (proved counterexample when the arguments are not), by induction over histories mixing update / regenerate / gather / lane-select / vmapped kernels; update weights telescope; after any history score = -assess(choices; recorded args) for every program incl. Cond. Tie: random op histories on the real code, every intermediate trace "
             "compared with the Lean model and re-assessed by the reference semantics.",
        note=TB + "C05: kernels (mh/mala/hmc), lane indexing and jit round trips are covered by the correspondence run on a real-distribution model.",
        technique="Lean 4 proof (invariant by induction over histories) + differential correspondence on op sequences",
        design="§3 C05"),
    "C12": dict(
        text="Lean theorems over any linearly ordered floor field, all weight vectors (non-negative, positive sum), all N, all offsets u in (0,1): "
             "ancestor indices valid, copies sum to N, floor/ceil bound, closed-form copy count, estimate invariance of resample, faithful copy, "
             "diagnostic weights; over the reals: the copy count is integrable in the offset and its integral over u in [0,1] is N*w_i (systematic "
             "resampling unbiased); categorical/multinomial resampling: normalised law over ancestor vectors and E[copies_i] = N*w_i (any field); the resampled particle collection is a coherent TRACE for the gathered arguments (each particle = its ancestor with the ancestor's arguments), counterexample when the arguments are not gathered. Tie: seed(resample) on rational weight vectors, offset recovered from the key, indices vs the Lean model; "
             "copy-consistency of every trace leaf; calibrated expectation test for both methods. Also every particle count in 10..130 (260 thorough) plus round numbers up to 1024: exactly N ancestors, floor/ceil bound, ordered.",
        note=TB + "C12: the categorical theorem is about the finite-distribution model of categorical.sample; the draws themselves are TFP's (trusted), checked statistically at z=5.5.",
        technique="Lean 4 + Mathlib proof + differential correspondence with recovered randomness",
        design="§3 C12"),
    "C18": dict(
        text="Lean theorems for every kernel / initial state / n_steps / burn_in / thinning>=1: the retained states are the kernel iterates "
             "after steps burn_in + i*thinning, accept flags aligned with exactly those steps, count = ceil((n-b)/k), acceptance count = "
             "number of retained accepted steps, and chain(b,k) is that slice of chain(0,1); acceptance_rate is the mean of the RETURNED flags (a genuine quotient, in [0,1]); multi-chain runs: lane c of every stacked field is the single-chain run of lane c's kernel, leading axis = n_chains, reported rate = mean of per-chain rates = mean of all returned flags; n_chains = 1 has no chain axis; seeded view: application j uses fold(j). Tie: seed(chain(kernel)) over a grid of "
             "(kernel, n, b, k, chains) with the same key vs its un-thinned run, vs manual iteration of the seeded kernel with the "
             "per-iteration keys, and vs the Lean model (Chain.runChain, single and multi-chain) fed the recorded un-thinned runs: every field incl. the rates.",
        note=TB + "C18: 'independent randomness across chains' rests on C07/C08; multi-chain runs are checked for the chain axis and distinct chains only.",
        technique="Lean 4 proof + differential correspondence (same-key slice identity)",
        design="§3 C18"),
    "C19": dict(
        text="Lean theorems about the State-interpreter model (every store, path, iteration/lane context, lane count, scan length>=1): later write wins "
             "and is local, a named save lands under its enclosing namespaces, vmapped saves are batched per lane, scan-body saves are stacked along "
             "the iteration axis under the enclosing namespaces; REFINEMENT for every program (any nesting of scans, vmaps, namespaces, overwrites, leaf "
             "saves): the collected store equals the later-write-wins replay of the program's save events (same failures, entries, order), nothing else is "
             "collected, the last save at a path is what is collected; the pre-repair code refines the same spec exactly on programs without a namespace "
             "open around a scan / name clashes with scan bodies (up to entry order); proved counterexamples for the pre-repair root merge. Tie: generated placements "
             "(namespaces, nested scans, vmap/modular_vmap, overwrites, leaf mode, nested jax.jit / jax.checkpoint helpers as transparent blocks - a repaired defect: their saves were dropped) run eagerly, under jit and under seed: result vs unwrapped function, "
             "collected dict vs an independent reference and vs the compiled Lean model.",
        note=TB + "C19: transparency of the wrapper and the batching of tag/namespace primitives under jax.vmap are runtime behaviour, checked by the correspondence only; nested jit / checkpoint blocks are spliced into the enclosing block for the Lean model (no call construct there); save inside cond branches is outside the claim; open finding state-dropped-in-uninterpreted-call (custom_jvp / custom_vjp / while_loop bodies).",
        technique="Lean 4 proof + differential correspondence on generated placements (eager/jit/seed)",
        design="§3 C19"),
    "C20": dict(
        text="Lean theorems (any commutative semiring/field; all K, M, T>=1, zeros allowed): the forward recursion's last message and marginal "
             "equal brute-force summation over all state sequences; the filter is normalised; backward sampling returns a sequence with "
             "probability joint/marginal. Kalman: the MATRIX update (any dimensions, d_obs != d_state) is exact Bayesian conditioning - covariance forms (Joseph, symmetric), precision form P'^-1 = P^-1 + C^T R^-1 C with the natural-parameter and gain identities, completing the square for every x, det P det R = det S det P', pointwise N(x;m,P) N(y;Cx,R) = N(y-Cm;0,S) N(x;m',P') and its log form (= the log-marginal increment), positive (semi)definiteness along the whole run (every inv is a genuine inverse), reduction to the executable scalar model, and the RTS "
             "smoother step as the same conditioning with (C,R,y) := (A,Q,x_{t+1}). Tie: rational "
             "HMMs on forward_filter / compute_sequence_log_prob / iterated discrete_hmm vs the exact-rational Lean model and float64 brute "
             "force; backward_sample law by chi-square; kalman_filter/smoother and iterated linear_gaussian vs conditioning the dense joint "
             "Gaussian (d_obs != d_state included).",
        note=TB + "C20: the matrix Kalman definitions are noncomputable (Mathlib inverse): they mirror the code line by line and reduce to the executable scalar model, the code itself is tied by the numpy float64 dense-Gaussian oracle; the T-step marginal likelihood as an integral of the joint is not formalised (one-step Bayes identity + invariants along the run are); log/exp and float32 rounding are compared with tolerances.",
        technique="Lean 4 + Mathlib proof (HMM full, Kalman scalar) + differential correspondence with brute-force / dense-Gaussian oracles",
        design="§3 C20"),
    "C06": dict(
        text="Partial. Lean: the key each site receives is a function of program position and root key only, lies strictly below the root key, "
             "and distinct positions get distinct keys (free algebra of split/fold_in); the STAGING CACHES of seed (stage keyed on function / tree / avals incl. weak types / keyword names / statics; the flat-sampler slot) are modelled: a cache whose key refines what staging depends on never changes the result of any call in any history, the coded keys do refine it, eager / jit / vmap / jit(vmap) present the same call to the caches (assumption: tracers keep weak types, stated); witnesses for keys that forget keyword names, weak types or avals. The purity claim itself lives in the runtime and is "
             "carried by the correspondence: generated seeded programs run fresh / after unseeded sampling / after other seeded programs / "
             "under jit / vmap over keys / jit(vmap), each compared bit-for-bit with the model's key paths evaluated by jax.random; call histories over long-lived samplers that differ only in keyword names / weak vs strong scalars / shapes / static values, in several orders and modes, each result vs a fresh evaluation and vs the cache model's prediction of shared entries; argument kinds (reduced precision, narrow integers, pytrees); ADEV sites under seed.",
        note=TB + "C06 (partial): absence of other hidden state in JAX/XLA/TFP cannot be exhibited by the model; 'distinct keys give distinct draws' rests on threefry. Sites nested at depth 1-3 inside re-bound primitives (checkpoint, custom_jvp): eager and jit must both refuse or both return equal key-dependent values.",
        technique="Lean 4 proof of the key-path model + differential correspondence over call histories and transformations",
        design="§3 C06"),
    "C07": dict(
        text="Partial. Lean theorem for every program shape (sequences, nested scans, cond in scan, scan in cond, any lengths): the keys handed "
             "to the sample sites of one seeded run are pairwise distinct and none is derived from another; a vectorised site (any nest of modular_vmaps, batched or not) makes ONE sampler call with one key and sample_shape = unbatched lanes ++ own shape, every lane reads its own distinct entries of that one joint draw, and all scalar draws of a run have distinct (key, position) coordinates. Tie: keys observed through a "
             "key-revealing probe sampler = the model's key paths; real-distribution programs with equal parameters never return equal "
             "values; correlation/marginal tests over key batches. Also distinctness at LARGE counts (scans, loops and maps of 300 and 70000 occurrences of one site): the model's key derivation is over unbounded indices, a narrow counter in the code repeats keys only there.",
        note=TB + "C07 (partial): statistical independence of distinct threefry keys and per-site distributional correctness are the PRNG/TFP contract (trusted, calibrated tests only).",
        technique="Lean 4 proof (prefix-freeness invariant of the threaded key) + differential correspondence",
        design="§3 C07"),
    "C14": dict(
        text="Partial. Lean theorems about a decision model of JAX+pjax (placements of every depth): in the specification variant every site under a "
             "compiling construct raises the lowering (or batch) error, plain vmap raises, seed yields a function of the key or raises; the code as it "
             "is agrees with the specification on all placements without grad and without unbatched plain vmap; proved counterexamples for those two. "
             "The construct alphabet includes the higher-order primitives neither Seed nor modular_vmap interprets (jax.checkpoint; custom_jvp / custom_vjp, whose rule runs in place of the call below a grad - `relocate`): seed of a placement containing one raises (theorem, spec and - without grad / unbatched vmap - as-is), after two repairs of the code (Seed and modular_vmap re-bound such equations unchanged: key ignored / one draw for all lanes). "
             "Tie: every placement over {jit, scan, while, fori static/dynamic, cond, switch, grad, vmap batched/unbatched, modular_vmap, checkpoint, custom_jvp} up to depth 1 + sampled depth 2-3 (quick) / exhaustively to depth 3 (thorough), a fixed custom_vjp family, plain and ADEV site, executed on "
             "real JAX with and without seed and compared with the model and with the property's requirement; vmap over keys (traced key) for 13 placements. "
             "SECOND MODEL (Model/Interp.lean: a Jaxpr interpreter that interprets / inlines / re-binds higher-order equations): for every Jaxpr the guarded Seed returns only after giving a key to every site once, in order, and raises exactly when a re-bound equation holds a site; the unguarded code let a site escape exactly there. Tie: the real jaxprs JAX stages for random nestings are translated into the model's terms; the code's sub-jaxpr walker vs the model's on every higher-order equation, seed raising vs the model.",
        note=TB + "C14 (partial): the model's rules are assumptions about JAX's tracing/lowering, re-validated by the enumeration only up to depth 3; two open known findings (grad inlines the sampler; unbatched plain vmap replicates); an EAGER jax.checkpoint(f) of an unseeded f re-evaluates JAX's cached jaxpr (same draw every call) - nothing is compiled, so it is outside the statement and not judged.",
        technique="Lean 4 proof over a decision model + exhaustive bounded differential enumeration against real JAX",
        design="§3 C14"),
    "C09": dict(
        text="Partial. Lean theorems (any ordered field / dimension / force field): MH accept rule = detailed balance; leapfrog^n followed by a momentum "
             "flip is an involution; rejection returns the input; the log acceptance ratios AS THE CODE COMPUTES THEM are in the model (malaLogAlpha, hmcLogAlpha): mala's is the log MH ratio of the Langevin kernel (normalisers cancel in every dimension), antisymmetric, hence pi*q*min(1,e^alpha) satisfies detailed balance; hmc's is the energy difference, negated on the reversed trajectory, zero for an energy-conserving run, hence detailed balance for exp(-H). MH ON GENERATIVE-FUNCTION PROGRAMS (finite-distribution semantics, Cond-free programs): the regenerate proposal has probability = product of the selected sites' masses under the new values (0 if an unselected address differs), its weight is the MH ratio in cross-multiplied form w * pi(x) * q(x->x') = pi(x') * q(x'->x), and pi(x) q(x->x') min(1,w) = pi(x') q(x'->x) min(1,w') - detailed balance of mh for the program's joint density; FROM DETAILED BALANCE TO INVARIANCE (Proofs/McmcInvariance.lean, every finite state set): the kernel of the mh form - accepted proposals off the diagonal, the rejection mass on the diagonal since a rejected move returns the input - has unit row sums, is reversible when its off-diagonal part is, and leaves pi invariant after any number n of steps (C09_rejection_kernel_invariant); instantiated for the textbook MH kernel with non-negative masses (stochastic matrix, C09_mh_kernel_invariant) and for mh on Cond-free GFI programs over any finite set of choice maps (C09_mh_gfi_invariant_partial); the model collapses to GF.regenerate for point masses (every program). Tie: one kernel step of mh / mala / hmc with scripted internal randomness "
             "(noise, momentum, accept uniform) on scalar, array-valued, Vmap-, Scan- and Cond-addressed targets incl. the mixture-indicator move: "
             "proposal, log acceptance ratio, accept decision, resulting trace, untouched unselected choices vs an independent JAX/scipy "
             "implementation of the MH rule for the stated proposals AND vs the Lean model run by the driver on the same state/noise (targets expressed as exact quadratic forms), with accept/reject bracketing of the implementation's decision around the model's log alpha; mh's proposal = seeded regenerate under the same key. Also the proposal LAW of mh on every target: from two different current traces under one key the proposed values of the selected addresses coincide (all their parents are selected).",
        note=TB + "C09 (partial): leapfrog volume preservation and the Gaussian proposal density formula are cited mathematics; invariance of the posterior from detailed balance is PROVED for finite state sets (incl. the diagonal rejection mass) and cited for continuous ones; statistical invariance tests are not part of the quick tier.",
        technique="Lean 4 + Mathlib proof of the kernel cores + differential correspondence with scripted randomness",
        design="§3 C09"),
    "C10": dict(
        text="Lean theorems over finite-support models (exact expectations, any field): importance weights are unbiased; extend/init is properly "
             "weighting; rejuvenation keeps weights; (adaptive) multinomial resampling preserves every estimate-weighted average; and the full "
             "induction: for every pipeline of extend/resample/rejuvenate steps, every N>=1 and every test function, E[acc*(1/N) sum w_i phi(x_i)] "
             "is the pulled-back target integral - with phi=1, E[exp(log_marginal_likelihood)] = evidence; init / extend AS smc.py COMPUTES THEM on generative-function programs (generate weight, custom proposal trace, merge order, weight + proposal score): properly weighted for the default proposal and for a custom proposal over ANY subset of the latents under domination, with the weight formula w = p(y) / (q(z) * prior mass of the sites generate fills), proved counterexamples (the regression formula p(y)/q(z); a proposal overlapping the observations; no domination), and the abstract unbiasedness theorem instantiated with these GFI steps (E[lml] = marginal likelihood of the whole observation sequence). Tie: init/extend/resample/rejuvenate "
             "pipelines and rejuvenation_smc on the real code: per-particle log weights vs scipy densities minus proposal densities, flat and "
             "nested address layouts, default and custom proposals, N in {1..8}; seeded mean of exp(lml) vs exact evidence; Lean exact run of a "
             "tiny system. Also estimate with scalar, vector, matrix, rank-3, pytree, bool and int valued test functions vs the float64 weighted mean (a repaired defect: matrix-valued test functions).",
        note=TB + "C10: the theorem is for multinomial resampling and finite support; systematic resampling's unbiasedness is C12's count formula; rejuvenation kernels are assumed normalised (their invariance is C09).",
        technique="Lean 4 + Mathlib proof (finite-distribution monad, induction over pipelines) + differential correspondence",
        design="§3 C10"),
    "C11": dict(
        text="Lean theorems (any field, every parameter in the open domain, every continuation): flip_enum exact (value and derivative); REINFORCE "
             "and measure-valued flip estimators unbiased; REINFORCE over any finite distribution; estimators affine in the continuation (tower "
             "property); a mixed two-site composition unbiased with cross terms; GENERAL composition: for every discrete ADEV program (outcome tree: any number "
             "of sites, any mix of flip_enum / flip_enum_parallel / flip_reinforce / flip_mvd / categorical_enum_parallel / finite REINFORCE, later parameters "
             "and control flow depending on earlier outcomes) the interpreter's dual averages to the exact value and exact derivative (induction on the program, "
             "MVD modelled with its second, forward-sampled continuation run); categorical/flip parallel enumeration exact; softmax duals normalised; truncated "
             "geometric REINFORCE unbiased; the driver's program report (what the harness compares) is proved to have total mass 1 and mean = exact whenever it prints its guards as true. Tie: expectation programs with 1-3 sites run on the real code with "
             "the primitives' internal Bernoulli sampler replaced by an oracle that exhaustively explores every internal outcome (weights = the "
             "probabilities actually used): weighted mean of value and tangent vs closed forms; per-outcome duals vs the Lean model; seeded "
             "Monte-Carlo for programs whose continuations sample on their own; categorical/parallel enumeration, batched sites, pathwise identity; multi-site programs written ONCE and run both as genjax functions (every internal draw answered by an exhaustive oracle) and as terms of the Lean program model: the full distribution of (probability, value, tangent) outcomes and its mean are compared; sites inside nested jax.jit / jax.checkpoint helpers (a repaired defect: they lost their estimator semantics and ignored the key) vs the same program without the nested call under the same key and vs closed forms.",
        note=TB + "C11: reparameterised primitives = JAX's pathwise JVP (trusted); continuous score-function sites are checked by calibrated means only; a site inside a cond branch followed by a non-linear computation was biased until fix b0f97e1 (Lean witness C11_asis_cond_branch_cex; now checked with exact values and gradients) - the model's outcome-tree programs put the whole rest of the program under each outcome, which is what the property demands; open finding adev-site-in-uninterpreted-call (sites in scan / while_loop bodies and custom_jvp functions are sampled once instead of estimated); the model has no call construct (a nested call is the program it wraps).",
        technique="Lean 4 + Mathlib proof + differential correspondence with exhaustive enumeration of the estimators' internal randomness",
        design="§3 C11"),
    "C15": dict(
        text="Partial. Lean theorem: for every straight-line deterministic program (const/add/sub/mul/neg/cond) and environment, the ADEV "
             "continuation-passing interpreter with the identity (or any final) continuation equals the forward-mode fold; second model (AdevDet2) of the interpreter's default branch: float / discrete values, symbolic-zero (float0) tangents, the zero-tangent fast path, multi-output equations with mixed outputs, call (pjit), fori/scan with mixed carries, cond: for every program and every lawful primitive table the interpreter (CPS or direct) returns the primal and tangent of forward mode; discrete outputs always carry the symbolic zero; fori = n-fold iteration; proved witnesses that the WRONG fast-path conditions (any input zero; any discrete output) give wrong tangents. Tie: a corpus of "
             "deterministic JAX programs (indexing, reductions, dot/transpose, int/bool/complex intermediates, casts, cond, scan/fori) over scalar, "
             "array and pytree arguments: jvp_estimate / grad_estimate / estimate vs jax.jvp / jax.grad / f; JAX library functions that carry their own derivative rule or wrap a sub-jaxpr (jax.nn.relu / relu6 / softplus / softmax, logsumexp, jax.checkpoint, user custom_jvp and custom_vjp with non-standard rules, also inside cond / scan) - a repaired defect: every custom_jvp_call raised NotImplementedError; random straight-line programs vs the "
             "Lean interpreter; random programs of the richer language (mixed-output helpers, scans with mixed carries, conds, zero-tangent and integer inputs) built both as JAX functions and as driver terms: jvp_estimate vs the model, vs jax.jvp, and the proved witnesses replayed on the implementation.",
        note=TB + "C15 (partial): the per-primitive JVP rules are assumed lawful (Prim.Lawful, checked against jax.jvp on every generated case); tangent shapes, complex values and dtype conversions are covered only by the corpus; three interpreter limits found with the model (multi-output cond branches, literal cond operands, integer outputs of jitted helpers) were repaired (c02ba82, 00a3509, 3a42c1e) and are hard checks now. Array-valued symbolic-zero tangents (round/floor/sign/stop_gradient consumed by dot/transpose/slice, single-array results: shape, dtype, value vs jax.jvp) are part of the quick tier.",
        technique="Lean 4 proof of the interpreter skeleton + differential corpus against jax.jvp / jax.grad",
        design="§3 C15"),
    "C17": dict(
        text="Lean theorems: the ELBO draw equals log p(x) at the exact posterior (field identity); E_q[log p - log q] <= log sum p over finite "
             "support (Gibbs, real logs); the optimiser returns n iterates, iterate i = i+1 ascent steps, each step params + lr*grad; the objective AS vi.py EVALUATES IT is in the GFI model (family trace, merge with the constraint - the family wins on a shared address, assess of the target, plus the family score): per draw it equals log p(x,z) - log q(z) and nothing else makes it defined; E_q[p(x,z)/q(z)] = evidence under domination; E_q[log ratio] = sum q (log p - log q) <= log evidence; every draw equals p(x) at the exact posterior. Tie: "
             "conjugate Gaussian targets, mean-field / full-covariance / structured score-function families on the real code: per-draw tightness, "
             "mean ELBO and mean gradient vs closed forms, optimize_vi history vs the Lean optimiser on rational gradients; discrete flip/categorical target-family pairs: exp(elbo.estimate) per enumerated draw vs the exact rational model ratio, sum q*ratio = evidence.",
        note=TB + "C17: unbiasedness of the gradient rests on C11; continuous expectations are compared statistically (CLT band z<5.5) with closed forms obtained from exact Gaussian integrals of quadratic integrands.",
        technique="Lean 4 + Mathlib proof + differential correspondence on conjugate targets",
        design="§3 C17"),
    "C08": dict(
        text="Lean theorems: lane i of a Vmap trace is a coherent callee trace on lane i's arguments and score/retval are per-lane sums/stacks "
             "(corollaries of the GFI invariants, every callee / lane count / axes); layout of a vectorised sampling site: the repaired rule "
             "puts the lane axis first for every sample_shape and lane count, the pre-repair rule only for empty sample_shape (proved "
             "counterexample); VALUE-LEVEL model of the sample batching rule (arrays, numpy broadcasting, positional / keyword binding, moving the mapped axes, one sampler call): for every signature, positional/keyword mix, in_axes, sample_shape and axis size, when the mapped parameters have the maximal per-lane rank lane i of the result IS what the un-mapped site draws from lane i's parameter slices at lane-specific, pairwise distinct positions of that one call; proved counterexamples for the two repaired defects (keyword rebound positionally; in_axes != 0 not moved) and for the OPEN differing-rank finding (silent mis-pairing / broadcast error); nests of maps agree with the one-level rule. Tie: modular_vmap(f) vs stacking f(slice_i) and vs jax.vmap for deterministic, log-density and sampling "
             "functions (parameter-revealing probe sampler) over in_axes {0,1,-1,2,None,tuples,pytrees}, axis_size given/inferred, sample_shape "
             "sites, nested maps, scan/cond inside (also at control-flow depth 2, reverse scans); per-lane independence with real normals; sites wrapped in jax.checkpoint / custom_jvp / custom_vjp (top level, scan step, cond branch, with and without seed) must give independent lanes or raise - never one shared draw (a repaired defect); Vmap/repeat combinator sums incl. keyword parameters; a structured probe sampler whose every entry reveals its position in the call and the parameter values it was drawn from, compared entry by entry with the Lean rule model for fixed and random sites (one level and nests) and with the un-mapped site.",
        note=TB + "C08: open finding vmap-differing-rank (per-lane parameter shapes of differing rank raise or mis-pair); independence of lanes' draws is the sampler contract.",
        technique="Lean 4 proof (combinator corollaries + layout model) + differential correspondence against per-slice evaluation",
        design="§3 C08"),
    "C13": dict(
        text="Lean + Mathlib theorems: for ALL 24 exported distributions the documented closed-form density / mass function (parameters in "
             "documented order: flip takes a probability, bernoulli and categorical logits, geometric counts failures, exponential and gamma a rate, "
             "laplace / weibull / inverse_gamma a scale, negative_binomial counts successes before total_count failures, multivariate_normal a "
             "covariance, ...) is non-negative and normalises to 1 over its support for every parameter value in the documented domain (any "
             "dimension for categorical / multinomial / dirichlet / multivariate_normal), plus parameter-pinning lemmas (gamma(a,r)(x) = r*gamma(a,1)(r x), "
             "chi2(k) = gamma(k/2,1/2), half_normal = 2*normal on x>=0, log_normal via log, student_t(1) = cauchy, mvn(diag sigma^2) = product of normals, ...). "
             "Each density is also given as a closed term of an executable expression AST (Model/DistExpr.lean) whose real denotation is PROVED equal to that density "
             "(24 theorems C13_spec_<name>_denotes; vector distributions at fixed dimension 3 / 2). TRANSLATOR tie: the table (genjax name -> TFP class, which argument feeds which "
             "TFP parameter) is REGENERATED from the current source of distributions.py on every run and Lean re-checks it against the documented table (implTable_is_documented). Correspondence tie: the compiled model driver prints those terms, the "
             "harness evaluates them in float64 and compares with dist.logpdf on parameter x support grids for all 24 distributions; also vs scipy, numeric "
             "normalisation, seeded draws (scalar, sample_shape, vectorised) vs reference CDF/PMF (KS / chi-square, alpha=1e-6), shapes and dtypes, "
             "extreme logit spreads, user-wrapped tfp_distribution / distribution. Also joint independence of the components when ONE parameter is batched (direct call and mapped by modular_vmap), all scalar-event families.",
        note=TB + "C13 (partial): that dist.logpdf equals the Lean spec term is established numerically on grids by the correspondence run (float64 evaluation of "
             "the printed term, Mathlib totalisations reproduced), and sampler<->density agreement is statistical evidence; TFP's log_prob and samplers are trusted.",
        technique="Lean 4 + Mathlib proof (normalisation of the spec densities, all 24) + differential/statistical correspondence for all 24 distributions",
        design="§3 C13"),
}

NOT_YET = "check not built yet in this session (planned, see DESIGN.md §3/§6); not claimed"

def main():
    checks = []
    for pid in ALL:
        if pid not in CHECKS:
            continue
        c = CHECKS[pid]
        checks.append({
            "property_id": pid,
            "quick_cmd": f"./check {pid} --tier quick",
            "thorough_cmd": f"./check {pid} --tier thorough",
            "evidence_file": f"evidence/{pid}.json",
            "replay_cmd_template": f"./check {pid} --replay {{path}}",
            "engine": "lean4-model+correspondence",
            "level_claimed": {"category": "proof", "text": c["text"], "design_ref": c["design"]},
            "level_note": c["note"],
            "technique": c["technique"],
        })
    m = {
        "version": 1,
        "setup_cmd": "cd lean && lake build GenjaxModel driver",
        "hooks": {
            "guard": "GENJAX_VERIF_COMPAT",
            "enable": "no source hooks in /repo: every check copies /repo/src/genjax (current working tree) to a scratch dir, "
                      "applies the mechanical JAX-0.7->0.11 call-vocabulary rewrites of harness/compat.py and imports that copy; /repo is never modified",
            "baseline_off_cmd": "cd /repo && /venv/bin/python -m pytest -ra -q -p no:cacheprovider --timeout=900 --continue-on-collection-errors",
            "source_commits": [],
            "add_only": True,
        },
        "engines": [{
            "name": "lean4-model+correspondence", "path": "lean/ + harness/",
            "serves_properties": [c["property_id"] for c in checks],
            "kind_free_text": "hand-written executable Lean 4 model with machine-checked theorems (lean/GenjaxModel), tied to the code on every run by a "
                              "differential correspondence check (harness/) that runs the real genjax and the compiled model driver on the same generated cases; "
                              "independent property monitors provide the failing-input search",
        }],
        "checks": checks,
        "not_applicable": [{"property_id": p, "reason": NOT_YET} for p in ALL if p not in CHECKS],
        "notes": "Known findings (genuine defects of the unchanged tree) are listed in known_findings.jsonl; checks print KNOWN-FINDING lines for them and exit 0.",
    }
    json.dump(m, open(os.path.join(HERE, "MANIFEST.json"), "w"), indent=1)

if __name__ == "__main__":
    main()
