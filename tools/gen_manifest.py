#!/usr/bin/env python3
"""Regenerates MANIFEST.json from the table below (kept in one place so the file is always valid)."""
import json, os
HERE = os.path.dirname(os.path.dirname(os.path.abspath(__file__)))
ALL = [f"C{i:02d}" for i in range(1, 21)]

TB = ("Trusted: Lean 4.33 kernel; axioms propext/Classical.choice/Quot.sound only (audited every run by #print axioms; "
      "sorry/axiom/native_decide/bv_decide grep); the hand-written Lean model's faithfulness is CHECKED by the differential "
      "correspondence run against the real code (compat build of /repo's working tree), not proved; harness generators, "
      "canonicalisation and reference oracles; JAX/XLA/TFP are modelled, not verified. ")

CHECKS = {
    "C16": dict(
        text="Lean theorems (all selections, paths, choice maps): Boolean-algebra laws of `selected`, str/tuple/dict laws, "
             "filter partition for the specification filter, and `Fn.filter`-as-written = specification filter under the decidable "
             "premise flagSound (+ proved counterexamples outside it). Tie to the code: exhaustive differential run of "
             "Selection.match chains (all expressions of depth<=1 x all paths<=3) and Fn.filter/merge against the compiled Lean "
             "model, independent reference semantics, and regenerate/filter agreement on a real trace.",
        note=TB + "C16: choice-map leaves are opaque payloads; vectorised and Cond-merged leaves are covered by the correspondence run only.",
        technique="Lean 4 proof (structural/functional induction) + exhaustive differential correspondence with the implementation",
        design="§3 C16"),
}

NOT_YET = "check not built yet in this session (planned, see DESIGN.md §3/§6); not claimed"

def main():
    checks = []
    for pid in ALL:
        if pid not in CHECKS:
            continue
        c = CHECKS[pid]
        checks.append({
            "property_id": pid,
            "quick_cmd": f"./check {pid} --tier quick",
            "thorough_cmd": f"./check {pid} --tier thorough",
            "evidence_file": f"evidence/{pid}.json",
            "replay_cmd_template": f"./check {pid} --replay {{path}}",
            "engine": "lean4-model+correspondence",
            "level_claimed": {"category": "proof", "text": c["text"], "design_ref": c["design"]},
            "level_note": c["note"],
            "technique": c["technique"],
        })
    m = {
        "version": 1,
        "setup_cmd": "cd lean && lake build GenjaxModel driver",
        "hooks": {
            "guard": "GENJAX_VERIF_COMPAT",
            "enable": "no source hooks in /repo: every check copies /repo/src/genjax (current working tree) to a scratch dir, "
                      "applies the mechanical JAX-0.7->0.11 call-vocabulary rewrites of harness/compat.py and imports that copy; /repo is never modified",
            "baseline_off_cmd": "cd /repo && /venv/bin/python -m pytest -ra -q -p no:cacheprovider --timeout=900 --continue-on-collection-errors",
            "source_commits": [],
            "add_only": True,
        },
        "engines": [{
            "name": "lean4-model+correspondence", "path": "lean/ + harness/",
            "serves_properties": [c["property_id"] for c in checks],
            "kind_free_text": "hand-written executable Lean 4 model with machine-checked theorems (lean/GenjaxModel), tied to the code on every run by a "
                              "differential correspondence check (harness/) that runs the real genjax and the compiled model driver on the same generated cases; "
                              "independent property monitors provide the failing-input search",
        }],
        "checks": checks,
        "not_applicable": [{"property_id": p, "reason": NOT_YET} for p in ALL if p not in CHECKS],
        "notes": "Known findings (genuine defects of the unchanged tree) are listed in known_findings.jsonl; checks print KNOWN-FINDING lines for them and exit 0.",
    }
    json.dump(m, open(os.path.join(HERE, "MANIFEST.json"), "w"), indent=1)

if __name__ == "__main__":
    main()
