#!/bin/bash
# usage: run_baseline.sh <tree>   -- runs the 41 pinned baseline tests (BASELINE.json stable_pass) of <tree>, importing <tree>/src
T=${1:-/repo}
IDS=$(/venv/bin/python - <<'PY'
import json,re
b=json.load(open('/root/.vp/BASELINE.json'))
out=[]
for n in b['stable_pass']:
    mod,_,rest=n.partition('::')
    parts=mod.split('.')
    # tests.test_core.TestX::test_y  |  tests.test_core::test_y
    if parts[-1].startswith('Test'):
        path='/'.join(parts[:-1])+'.py::'+parts[-1]+'::'+rest
    else:
        path='/'.join(parts)+'.py::'+rest
    out.append(path)
print(' '.join(out))
PY
)
cd "$T" && PYTHONPATH="$T/src" /venv/bin/python -m pytest -q -p no:cacheprovider --timeout=900 $IDS 2>&1 | tail -3 > /tmp/val/baseline_$$.log
P=$(grep -oE '[0-9]+ passed' /tmp/val/baseline_$$.log | grep -oE '[0-9]+')
echo "baseline tests passing: ${P:-0}/41"
cat /tmp/val/baseline_$$.log; rm -f /tmp/val/baseline_$$.log
