#!/usr/bin/env python3
"""Run every kept seeded change (seeded/<id>/patch.diff) against its property's quick check, in scratch worktrees of /repo HEAD
(VERIF_REPO), and record which are reported. Writes tools/seeded_matrix.json. /repo itself is never modified."""
import concurrent.futures as cf
import json
import os
import re
import subprocess
import sys

V = os.path.dirname(os.path.dirname(os.path.abspath(__file__)))
EXTRA = {"C01_1": ["C07"], "C04_1": ["C16"], "C13_1": ["C08"], "C05_1": ["C01"], "C03_1": ["C05"], "C07_2p": ["C08"],
         "C03_3": ["C05"], "C05_3": ["C04", "C09"], "C16_3": ["C04"], "C08_3": ["C07"], "C01_3": ["C07"], "C07_3": ["C06"],
         "C13_3": ["C17"], "C12_3": ["C10"], "C10_3": ["C12"], "C17_3": ["C11"],
         "C04_4": ["C16"], "C06_4": ["C11"], "C10_4": ["C12"], "C12_4": ["C10"], "C08_4": ["C13"], "C05_4": ["C04"],
         "C03_5": ["C05", "C04"], "C04_5": ["C03"], "C05_5": ["C03"], "C07_5": ["C01"], "C08_5": ["C13"], "C11_5": ["C17"], "C13_5": ["C01"], "C09_5": ["C05"], "C10_5": ["C12"], "C07_6": ["C06"], "C14_6": ["C06"], "C08_6": ["C14"], "C11_6": ["C17"], "C02_7": ["C01", "C08", "C13"], "C09_7": ["C04", "C05"], "C13_7": ["C08", "C07"], "C12_7": ["C10"], "C10_7": ["C12"], "C16_7": ["C04"],
         "C11_8": ["C07", "C06"], "C06_8": ["C14"], "C14_8": ["C06", "C08"], "C05_8": ["C04"], "C07_8": ["C06"], "C15_8": ["C11"]}


def run(name):
    d = os.path.join(V, "seeded", name)
    prop = name.split("_")[0]
    wt = f"/tmp/val/mx_{name}"
    subprocess.run(["git", "-C", "/repo", "worktree", "prune"], capture_output=True)
    subprocess.run(["rm", "-rf", wt])
    if subprocess.run(["git", "-C", "/repo", "worktree", "add", "--detach", wt, "HEAD", "-q"], capture_output=True).returncode:
        return name, {"error": "worktree"}
    res = {}
    try:
        if subprocess.run(["git", "-C", wt, "apply", os.path.join(d, "patch.diff")], capture_output=True).returncode:
            return name, {"error": "patch does not apply to current HEAD"}
        for c in [prop] + EXTRA.get(name, []):
            p = subprocess.run(["./check", c, "--tier", "quick"], cwd=V, env={**os.environ, "VERIF_REPO": wt}, capture_output=True, text=True, timeout=3000)
            viol = [l for l in p.stdout.splitlines() if l.startswith("VIOLATION")]
            res[c] = {"exit": p.returncode, "violation": bool(viol), "no_failing_input_found": any("no-failing-input-found" in l for l in viol)}
    finally:
        subprocess.run(["git", "-C", "/repo", "worktree", "remove", "--force", wt], capture_output=True)
    return name, res


def main():
    names = sorted(n for n in os.listdir(os.path.join(V, "seeded")) if os.path.isdir(os.path.join(V, "seeded", n)))
    # changes that a later fix: commit made harmless (re-validated: the demo passes on the changed tree) are kept for the record only
    names = [n for n in names if "obsolete_since" not in json.load(open(os.path.join(V, "seeded", n, "meta.json")))]
    if len(sys.argv) > 1:
        names = [n for n in names if n in sys.argv[1:]]
    out = {}
    path = os.path.join(V, "tools", "seeded_matrix.json")
    if os.path.exists(path) and len(sys.argv) > 1:
        out = json.load(open(path))
    with cf.ThreadPoolExecutor(3) as ex:
        for name, res in ex.map(run, names):
            out[name] = res
            print(name, res, flush=True)
    json.dump(out, open(path, "w"), indent=1, sort_keys=True)


if __name__ == "__main__":
    main()
