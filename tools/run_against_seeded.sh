#!/bin/bash
# usage: run_against_seeded.sh <seeded dir (patch.diff)> <name> <check ids...>
# Applies the seeded change to a scratch worktree of /repo HEAD and runs the named checks against it
# (VERIF_REPO points the harness at the worktree; /repo itself is never touched).
SRC=$1; NAME=$2; shift 2
WT=/tmp/val/run_$NAME
rm -rf "$WT"; git -C /repo worktree prune
git -C /repo worktree add --detach "$WT" HEAD -q || exit 2
if ! git -C "$WT" apply "$SRC/patch.diff" 2>/tmp/val/$NAME.apply.err; then
  echo "$NAME: PATCH DOES NOT APPLY to current HEAD: $(head -2 /tmp/val/$NAME.apply.err | tr '\n' ' ')"
  git -C /repo worktree remove --force "$WT"; exit 3
fi
for c in "$@"; do
  OUT=$(cd /verif && VERIF_REPO="$WT" timeout 3000 ./check $c --tier ${TIER:-quick} 2>&1 | grep -E "^VIOLATION|^KNOWN-FINDING|^\[C|INFRA" | cut -c1-220)
  echo "$NAME vs $c: $OUT"
done
git -C /repo worktree remove --force "$WT"
