#!/bin/bash
# usage: validate_seeded.sh <dir with patch.diff + demo.py> <name>
# Confirms a candidate seeded change: applies to a clean scratch worktree, 41 baseline tests pass,
# demo exits 0 on the clean tree and non-zero on the patched tree.  Prints a JSON summary.
SRC=$1; NAME=$2
WT=/tmp/val/wt_$NAME
rm -rf "$WT"; git -C /repo worktree prune
git -C /repo worktree add --detach "$WT" HEAD -q || exit 2
cd "$WT"
CLEAN=$(VERIF_SCRATCH=/tmp/val /venv/bin/python /verif/harness/compat.py "$WT")
PYTHONPATH=$CLEAN timeout 1800 /venv/bin/python "$SRC/demo.py" > /tmp/val/$NAME.clean.log 2>&1; RC_CLEAN=$?
if ! git apply "$SRC/patch.diff"; then echo "{\"name\":\"$NAME\",\"applies\":false}"; git -C /repo worktree remove --force "$WT"; rm -rf "$CLEAN"; exit 1; fi
PATCHED=$(VERIF_SCRATCH=/tmp/val /venv/bin/python /verif/harness/compat.py "$WT")
PYTHONPATH=$PATCHED timeout 1800 /venv/bin/python "$SRC/demo.py" > /tmp/val/$NAME.patched.log 2>&1; RC_PATCHED=$?
BASE=$(/verif/tools/run_baseline.sh "$WT" | head -1)
echo "{\"name\":\"$NAME\",\"applies\":true,\"demo_clean_rc\":$RC_CLEAN,\"demo_patched_rc\":$RC_PATCHED,\"baseline\":\"$BASE\"}"
rm -rf "$CLEAN" "$PATCHED"
git -C /repo worktree remove --force "$WT"
