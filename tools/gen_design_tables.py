#!/usr/bin/env python3
"""Regenerates the machine-written blocks of DESIGN.md:
   <!-- INVENTORY:BEGIN --> ... <!-- INVENTORY:END -->   theorem inventory per property, read from lean/GenjaxModel/Props/*.lean
   <!-- SEEDED:BEGIN --> ... <!-- SEEDED:END -->         seeded-change detection matrix, read from seeded/*/meta.json + tools/seeded_matrix.json"""
import json, os, re
V = os.path.dirname(os.path.dirname(os.path.abspath(__file__)))


def inventory():
    out = []
    for i in range(1, 21):
        pid = f"C{i:02d}"
        src = open(os.path.join(V, "lean", "GenjaxModel", "Props", pid + ".lean")).read()
        names = []
        for m in re.finditer(r"(?:/--(.*?)-/\s*)?^theorem\s+(" + pid + r"_\w+)", src, flags=re.S | re.M):
            doc = (m.group(1) or "").strip().replace("\n", " ")
            doc = re.sub(r"\s+", " ", doc)
            # a docstring far above belongs to something else
            names.append((m.group(2), doc[:160] + ("…" if len(doc) > 160 else "")))
        # docstrings matched lazily may span previous theorems; keep only the last /-- ... -/ directly before
        fixed = []
        for name, _ in names:
            mm = re.search(r"/--((?:(?!/--).)*?)-/\s*(?:open[^\n]*\n\s*)?theorem\s+" + name + r"\b", src, flags=re.S)
            doc = re.sub(r"\s+", " ", mm.group(1).strip()) if mm else ""
            fixed.append((name, doc[:170] + ("…" if len(doc) > 170 else "")))
        out.append(f"**{pid}** ({len(fixed)} theorems)\n")
        for name, doc in fixed:
            out.append(f"* `{name}`" + (f" — {doc}" if doc else ""))
        out.append("")
    return "\n".join(out)


def seeded():
    mpath = os.path.join(V, "tools", "seeded_matrix.json")
    mx = json.load(open(mpath)) if os.path.exists(mpath) else {}
    rows = ["| change | breaks | needs, in order to manifest | reported by (quick tier) |", "|---|---|---|---|"]
    n = caught = 0
    for d in sorted(os.listdir(os.path.join(V, "seeded"))):
        mp = os.path.join(V, "seeded", d, "meta.json")
        if not os.path.exists(mp):
            continue
        meta = json.load(open(mp))
        title = open(os.path.join(V, "seeded", d, "notes.md")).readline().strip().lstrip("# ").strip()
        title = re.sub(r"^" + re.escape(d) + r"\s*[-—:]+\s*", "", title)
        res = mx.get(d, {})
        if "obsolete_since" in meta:
            det = f"obsolete since fix {meta['obsolete_since']['repo_commit']} (no longer breaks the property; not counted)"
        elif "error" in res:
            det = "n/a: " + res["error"]
        elif res:
            hits = [f"{c}" + (" (no-failing-input-found)" if r.get("no_failing_input_found") else "") for c, r in res.items() if r.get("violation")]
            miss = [c for c, r in res.items() if not r.get("violation")]
            det = (", ".join(hits) if hits else "**not reported**") + (f"; silent: {', '.join(miss)}" if miss and hits else "")
            n += 1
            caught += bool(hits)
        else:
            det = "not yet run"
        rows.append(f"| {d} | {meta['property']} | {title[:110]} — {meta['needs_to_manifest'][:150]} | {det} |")
    rows.append("")
    rows.append(f"{caught} of {n} seeded changes that were run are reported by at least one check (quick tier, VERIF_SEED=0).")
    return "\n".join(rows)


def main():
    p = os.path.join(V, "DESIGN.md")
    s = open(p).read()
    for tag, fn in (("INVENTORY", inventory), ("SEEDED", seeded)):
        b, e = f"<!-- {tag}:BEGIN -->", f"<!-- {tag}:END -->"
        if b in s and e in s:
            s = s[: s.index(b) + len(b)] + "\n" + fn() + "\n" + s[s.index(e):]
    open(p, "w").write(s)


if __name__ == "__main__":
    main()
