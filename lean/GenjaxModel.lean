import GenjaxModel.Model.Sel
import GenjaxModel.Model.SExp
import GenjaxModel.Model.SelIO
import GenjaxModel.Proofs.Sel
import GenjaxModel.Props.C16
