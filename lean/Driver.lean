import GenjaxModel.Model.SelIO
import GenjaxModel.Model.GfiIO
import GenjaxModel.Model.ResampleIO
import GenjaxModel.Model.ChainIO
import GenjaxModel.Model.StateIO
import GenjaxModel.Model.HmmIO
import GenjaxModel.Model.SeedIO
import GenjaxModel.Model.LoweringIO
import GenjaxModel.Model.McmcIO
import GenjaxModel.Model.SmcIO
import GenjaxModel.Model.AdevIO
import GenjaxModel.Model.VmapIO
import GenjaxModel.Model.DistExprIO
import GenjaxModel.Model.McmcKernelsIO
import GenjaxModel.Model.ChainMultiIO
import GenjaxModel.Model.SeedVecIO
import GenjaxModel.Model.ViElboIO
import GenjaxModel.Model.AdevProgIO
import GenjaxModel.Model.AdevDet2IO
import GenjaxModel.Model.SeedCacheIO
import GenjaxModel.Model.VmapRuleIO
import GenjaxModel.Model.InterpIO
/-! Line-protocol driver: one S-expression per input line, one per output line. -/
open Genjax

def dispatch (e : SExp) : SExp :=
  match stepSel e with
  | some r => r
  | none =>
  match stepGfi e with
  | some r => r
  | none =>
  match stepResample e with
  | some r => r
  | none =>
  match stepChain e with
  | some r => r
  | none =>
  match stepState e with
  | some r => r
  | none =>
  match stepHmm e with
  | some r => r
  | none =>
  match stepKalman e with
  | some r => r
  | none =>
  match stepSeed e with
  | some r => r
  | none =>
  match stepLowering e with
  | some r => r
  | none =>
  match stepMcmc e with
  | some r => r
  | none =>
  match stepSmc e with
  | some r => r
  | none =>
  match stepAdev e with
  | some r => r
  | none =>
  match stepVmap e with
  | some r => r
  | none =>
  match stepDistSpec e with
  | some r => r
  | none =>
  match stepMcmcKernels e with
  | some r => r
  | none =>
  match stepChainMulti e with
  | some r => r
  | none =>
  match stepSeedVec e with
  | some r => r
  | none =>
  match stepViElbo e with
  | some r => r
  | none =>
  match stepAdevProg e with
  | some r => r
  | none =>
  match Adev2.stepAdevDet2 e with
  | some r => r
  | none =>
  match stepSeedCache e with
  | some r => r
  | none =>
  match stepVmapRule e with
  | some r => r
  | none =>
  match stepInterp e with
  | some r => r
  | none => .list [.atom "bad-op"]

partial def loop (h : IO.FS.Stream) (out : IO.FS.Stream) : IO Unit := do
  let line ← h.getLine
  if line.isEmpty then return ()
  let r := match SExp.parse line with
    | some e => dispatch e
    | none => .list [.atom "parse-error"]
  out.putStrLn (toString r)
  loop h out

def main : IO Unit := do
  let out ← IO.getStdout
  loop (← IO.getStdin) out
  out.flush
