import GenjaxModel.Proofs.GfiRegen
import Mathlib.Algebra.Group.Int.Defs
/-!
  Particle gathering (`resample_vectorized_trace`: `tree_map (leaf ↦ leaf[indices]) trace`) and
  the kernels' per-lane accept/reject (`tree_map (where accept new old)`) preserve the coherence of
  a vectorised (Vmap) trace — properties C05 / C12.

  SMC (src/genjax/inference/smc.py) keeps the N particles as ONE Vmap trace `Tr.vec lanes`.
  `resample` gathers every leaf of that trace pytree with the ancestor vector `idx`; the pytree
  includes the arguments recorded with the trace, so the mapped (per-particle) arguments are gathered
  too, the unmapped (broadcast) ones have no particle axis and stay as they are.

  * `gatherL`, `TrL.gather`, `Val.gather`, `gatherArgs`   — the gather, on lanes and on arguments
  * `vmap_gather_coherent`                                — gathered trace coherent for gathered args
  * `vmap_gather_args_needed`                             — …and NOT for the ungathered args
  * `selectL`, `TrL.select`, `select_lanes_coherent`      — lane-wise accept/reject
  * `Op'`, `applyOps'`, `OpsOk`, `history_with_gather_coherent` — histories with these moves
-/
namespace Genjax
variable {R : Type}

/-- the junk lane used to totalise an out-of-range gather (never reached under the guards
    `∀ i ∈ idx, i < n` of the theorems) -/
instance instInhabitedTr : Inhabited (Tr R) := ⟨.vec .nil⟩

/-- `l[idx]`: element `j` of the result is element `idx[j]` of the input -/
def gatherL {α : Type} [Inhabited α] (idx : List Nat) (l : List α) : List α :=
  idx.map fun i => l.getD i default

/-- gather the lanes of a vectorised trace (keys of lanes are ignored by the model) -/
def TrL.gather (idx : List Nat) (l : TrL R) : TrL R := TrL.ofList (gatherL idx l.toList)

/-- gather a value along its leading (lane) axis -/
def Val.gather (idx : List Nat) (v : Val) : Val := Val.ofList (idx.map v.nth)

/-- gather the arguments recorded with a Vmap trace: mapped arguments (`axes[j] = true`) along the
    lane axis, unmapped ones unchanged (same recursion as `laneArgs`) -/
def gatherArgs : List Bool → List Nat → List Val → List Val
  | b :: bs, idx, a :: as => (if b then a.gather idx else a) :: gatherArgs bs idx as
  | [], _, as => as
  | _ :: _, _, [] => []

/-- `resample_vectorized_trace` on a trace: every leaf of a Vmap trace is indexed with `idx` -/
def Tr.gatherVec (idx : List Nat) : Tr R → Tr R
  | .vec lanes => .vec (lanes.gather idx)
  | t => t

/-! ### elementary facts -/

theorem gatherL_length {α : Type} [Inhabited α] (idx : List Nat) (l : List α) :
    (gatherL idx l).length = idx.length := by simp [gatherL]

theorem gatherL_getElem? {α : Type} [Inhabited α] (idx : List Nat) (l : List α) (j : Nat) :
    (gatherL idx l)[j]? = (idx[j]?).map fun i => l.getD i default := by
  simp [gatherL]

theorem Val.nth_ofList : ∀ (l : List Val) (j : Nat), (Val.ofList l).nth j = l.getD j .nil
  | [], j => by cases j <;> rfl
  | x :: xs, 0 => rfl
  | x :: xs, j + 1 => by
    simp only [Val.ofList, Val.nth, List.getD_cons_succ]; exact Val.nth_ofList xs j

theorem Val.toList_ofList : ∀ (l : List Val), (Val.ofList l).toList = l
  | [] => rfl
  | x :: xs => by simp [Val.ofList, Val.toList, Val.toList_ofList xs]

/-- lane `j` of a gathered value is lane `idx[j]` of the input -/
theorem Val.nth_gather (idx : List Nat) (v : Val) (j i : Nat) (h : idx[j]? = some i) :
    (v.gather idx).nth j = v.nth i := by
  simp [Val.gather, Val.nth_ofList, List.getD, h]

/-- **lane `j` of the gathered arguments = lane `idx[j]` of the arguments** -/
theorem laneArgs_gatherArgs (idx : List Nat) (j i : Nat) (h : idx[j]? = some i) :
    ∀ (axes : List Bool) (args : List Val),
      laneArgs axes (gatherArgs axes idx args) j = laneArgs axes args i
  | [], args => by simp [gatherArgs, laneArgs]
  | _ :: _, [] => by simp [gatherArgs, laneArgs]
  | b :: bs, a :: as => by
    simp only [gatherArgs, laneArgs, laneArgs_gatherArgs idx j i h bs as]
    cases b
    · simp
    · simp [Val.nth_gather idx a j i h]

theorem gatherArgs_length : ∀ (axes : List Bool) (idx : List Nat) (args : List Val),
    (gatherArgs axes idx args).length = args.length
  | [], _, args => by simp [gatherArgs]
  | _ :: _, _, [] => by simp [gatherArgs]
  | b :: bs, idx, a :: as => by simp [gatherArgs, gatherArgs_length bs idx as]

/-- unmapped arguments are untouched -/
theorem gatherArgs_unmapped (idx : List Nat) (args : List Val) :
    ∀ (axes : List Bool), (axes.all fun b => !b) = true → gatherArgs axes idx args = args := by
  induction args with
  | nil => intro axes _; cases axes <;> rfl
  | cons a as ih =>
    intro axes h
    cases axes with
    | nil => rfl
    | cons b bs =>
      simp only [List.all_cons, Bool.and_eq_true, Bool.not_eq_true'] at h
      simp [gatherArgs, h.1, ih bs h.2]

/-- `lanesCoh` is a pointwise statement -/
theorem lanesCoh_iff (coh : List Val → Tr R → Prop) (axes : List Bool) (args : List Val) :
    ∀ (l : List (Tr R)) (s : Nat),
      lanesCoh coh axes args s l ↔ ∀ k t, l[k]? = some t → coh (laneArgs axes args (s + k)) t
  | [], s => by simp [lanesCoh]
  | x :: xs, s => by
    simp only [lanesCoh, lanesCoh_iff coh axes args xs (s + 1)]
    constructor
    · rintro ⟨h0, h1⟩ k t hk
      cases k with
      | zero => simp at hk; subst hk; simpa using h0
      | succ k =>
        have := h1 k t (by simpa using hk)
        rwa [show s + 1 + k = s + (k + 1) by omega] at this
    · intro h
      refine ⟨by simpa using h 0 x rfl, fun k t hk => ?_⟩
      have := h (k + 1) t (by simpa using hk)
      rwa [show s + (k + 1) = s + 1 + k by omega] at this

theorem retvals_ofList_gather (ts : List (Tr R)) :
    (TrL.ofList ts).retvals = Val.ofList (ts.map Tr.retval) := by
  induction ts with
  | nil => rfl
  | cons t ts ih => simp [TrL.ofList, TrL.retvals, Val.ofList, ih]

theorem scoreSum_ofList_gather [Zero R] [Add R] : ∀ (ts : List (Tr R)),
    (TrL.ofList ts).scoreSum = sumR (ts.map Tr.score)
  | [] => rfl
  | t :: ts => by simp only [TrL.ofList, TrL.scoreSum, List.map_cons, sumR, scoreSum_ofList_gather ts]

theorem retvals_eq_toList : ∀ (l : TrL R), l.retvals = Val.ofList (l.toList.map Tr.retval)
  | .nil => rfl
  | .cons _ t rest => by simp [TrL.retvals, TrL.toList, Val.ofList, retvals_eq_toList rest]

theorem toList_ofList_gather (ts : List (Tr R)) : (TrL.ofList ts).toList = ts := by
  induction ts with
  | nil => rfl
  | cons t ts ih => simp [TrL.ofList, TrL.toList, ih]

theorem TrL.gather_toList (idx : List Nat) (l : TrL R) :
    (l.gather idx).toList = gatherL idx l.toList := toList_ofList_gather _

/-! ### 2. gathering a coherent Vmap trace -/

section Coh
variable [Zero R] [Add R] [Neg R] (P : Prims R)

/-- lane-wise form: under the guard, lane `j` of the gathered trace is the lane `idx[j]` of the input
    and is a coherent callee trace on lane `idx[j]`'s arguments -/
theorem vmap_gather_lane (g : GF) (axes : List Bool) (n : Nat) (args : List Val) (lanes : TrL R)
    (idx : List Nat) (h : (GF.vmap g axes n).Coh P args (.vec lanes)) (hidx : ∀ i ∈ idx, i < n)
    (j i : Nat) (hj : idx[j]? = some i) :
    ∃ t, lanes.toList[i]? = some t ∧ (lanes.gather idx).toList[j]? = some t ∧
      g.Coh P (laneArgs axes args i) t := by
  simp only [GF.Coh] at h
  obtain ⟨hlen, hl⟩ := h
  have hi : i < lanes.toList.length := by
    rw [hlen]; exact hidx i (List.mem_of_getElem? hj)
  refine ⟨lanes.toList[i], by simp [hi], ?_, ?_⟩
  · simp [TrL.gather_toList, gatherL_getElem?, hj, List.getD, hi]
  · have := (lanesCoh_iff _ axes args lanes.toList 0).1 hl i lanes.toList[i] (by simp [hi])
    simpa using this

/-- **2. `vmap_gather_coherent`**: gathering the lanes AND the mapped arguments of a coherent Vmap
    trace with in-range ancestor indices gives a coherent Vmap trace (of `idx.length` lanes) -/
theorem vmap_gather_coherent (g : GF) (axes : List Bool) (n : Nat) (args : List Val) (lanes : TrL R)
    (idx : List Nat) (h : (GF.vmap g axes n).Coh P args (.vec lanes)) (hidx : ∀ i ∈ idx, i < n) :
    (GF.vmap g axes idx.length).Coh P (gatherArgs axes idx args) (.vec (lanes.gather idx)) := by
  simp only [GF.Coh]
  refine ⟨by simp [TrL.gather_toList, gatherL_length], ?_⟩
  rw [lanesCoh_iff]
  intro k t hk
  rw [TrL.gather_toList, gatherL_getElem?] at hk
  cases hik : idx[k]? with
  | none => simp [hik] at hk
  | some i =>
    obtain ⟨t', _, h2, h3⟩ := vmap_gather_lane P g axes n args lanes idx h hidx k i hik
    rw [TrL.gather_toList, gatherL_getElem?] at h2
    rw [hk] at h2
    cases h2
    rw [Nat.zero_add, laneArgs_gatherArgs idx k i hik]
    exact h3

omit [Neg R] in
/-- the score of the gathered trace is the sum of the scores of the ancestors -/
theorem vmap_gather_score (lanes : TrL R) (idx : List Nat) :
    (Tr.vec (lanes.gather idx)).score = sumR (idx.map fun i => (lanes.toList.getD i default).score) := by
  simp only [Tr.score, TrL.gather, scoreSum_ofList_gather, gatherL, List.map_map]
  rfl

omit [Zero R] [Add R] [Neg R] in
/-- the return values are gathered (guarded: every index designates a lane) -/
theorem vmap_gather_retval (lanes : TrL R) (idx : List Nat) (hidx : ∀ i ∈ idx, i < lanes.toList.length) :
    (Tr.vec (lanes.gather idx)).retval = (Tr.vec lanes).retval.gather idx := by
  simp only [Tr.retval, TrL.gather, retvals_ofList_gather, gatherL, List.map_map, Val.gather,
    retvals_eq_toList lanes]
  congr 1
  apply List.map_congr_left
  intro i hi
  have := hidx i hi
  simp [Val.nth_ofList, List.getD, this]

end Coh

/-! ### 4. lane-wise accept / reject -/

/-- `where(mask, a, b)` lane by lane -/
def selectL {α : Type} : List Bool → List α → List α → List α
  | m :: ms, a :: as, b :: bs => (if m then a else b) :: selectL ms as bs
  | _, _, _ => []

/-- `tree_map (where accept new old)` on the lanes of two vectorised traces -/
def TrL.select (mask : List Bool) (new old : TrL R) : TrL R :=
  TrL.ofList (selectL mask new.toList old.toList)

/-- on whole traces (only Vmap traces have lanes) -/
def Tr.selectVec (mask : List Bool) : Tr R → Tr R → Tr R
  | .vec new, .vec old => .vec (TrL.select mask new old)
  | _, old => old

theorem selectL_length {α : Type} : ∀ (mask : List Bool) (a b : List α) (n : Nat),
    mask.length = n → a.length = n → b.length = n → (selectL mask a b).length = n
  | [], [], [], n, h, _, _ => by simpa [selectL] using h
  | m :: ms, x :: xs, y :: ys, n, h1, h2, h3 => by
    cases n with
    | zero => simp at h1
    | succ n =>
      simp only [selectL, List.length_cons, Nat.add_right_cancel_iff] at h1 h2 h3 ⊢
      exact selectL_length ms xs ys n h1 h2 h3
  | [], _ :: _, _, n, h1, h2, _ => by simp at h1 h2; omega
  | [], [], _ :: _, n, h1, _, h3 => by simp at h1 h3; omega
  | _ :: _, [], _, n, h1, h2, _ => by simp at h1 h2; omega
  | _ :: _, _ :: _, [], n, h1, _, h3 => by simp at h1 h3; omega

theorem selectL_map {α β : Type} (f : α → β) : ∀ (mask : List Bool) (a b : List α),
    (selectL mask a b).map f = selectL mask (a.map f) (b.map f)
  | [], _, _ => by simp [selectL]
  | _ :: _, [], _ => by simp [selectL]
  | _ :: _, _ :: _, [] => by simp [selectL]
  | m :: ms, x :: xs, y :: ys => by
    cases m <;> simp [selectL, selectL_map f ms xs ys]

theorem lanesCoh_selectL (coh : List Val → Tr R → Prop) (axes : List Bool) (args : List Val) :
    ∀ (mask : List Bool) (a b : List (Tr R)) (s : Nat),
      lanesCoh coh axes args s a → lanesCoh coh axes args s b →
      lanesCoh coh axes args s (selectL mask a b)
  | [], _, _, _, _, _ => by simp [selectL, lanesCoh]
  | _ :: _, [], _, _, _, _ => by simp [selectL, lanesCoh]
  | _ :: _, _ :: _, [], _, _, _ => by simp [selectL, lanesCoh]
  | m :: ms, x :: xs, y :: ys, s, ha, hb => by
    simp only [lanesCoh, selectL] at ha hb ⊢
    exact ⟨by cases m <;> simp [ha.1, hb.1], lanesCoh_selectL coh axes args ms xs ys (s + 1) ha.2 hb.2⟩

section Sel
variable [Zero R] [Add R] [Neg R] (P : Prims R)

/-- **4. `select_lanes_coherent`**: the lane-wise accept/reject of two Vmap traces that are coherent
    for the same arguments is coherent for these arguments (`mask` has one entry per lane) -/
theorem select_lanes_coherent (g : GF) (axes : List Bool) (n : Nat) (args : List Val)
    (new old : TrL R) (mask : List Bool) (hm : mask.length = n)
    (h1 : (GF.vmap g axes n).Coh P args (.vec new)) (h2 : (GF.vmap g axes n).Coh P args (.vec old)) :
    (GF.vmap g axes n).Coh P args (.vec (TrL.select mask new old)) := by
  simp only [GF.Coh] at h1 h2 ⊢
  simp only [TrL.select, toList_ofList_gather]
  exact ⟨selectL_length mask _ _ n hm h1.1 h2.1, lanesCoh_selectL _ axes args mask _ _ 0 h1.2 h2.2⟩

omit [Neg R] in
/-- its score is the lane-wise selected sum of scores -/
theorem select_lanes_score (new old : TrL R) (mask : List Bool) :
    (Tr.vec (TrL.select mask new old)).score =
      sumR (selectL mask (new.toList.map Tr.score) (old.toList.map Tr.score)) := by
  simp only [Tr.score, TrL.select, scoreSum_ofList_gather, selectL_map]

omit [Zero R] [Add R] [Neg R] in
/-- its return value is the lane-wise selected return value -/
theorem select_lanes_retval (new old : TrL R) (mask : List Bool) :
    (Tr.vec (TrL.select mask new old)).retval =
      Val.ofList (selectL mask (new.toList.map Tr.retval) (old.toList.map Tr.retval)) := by
  simp only [Tr.retval, TrL.select, retvals_ofList_gather, selectL_map]

end Sel

/-! ### 5. histories with gather and lane-wise selection (particle collections) -/

section History
variable [AddCommGroup R] (P : Prims R) (cfg : Cfg)

/-- the arguments an `Op` records -/
def Op.args : Op → List Val
  | .update _ a => a
  | .regenerate _ a => a

/-- moves on a particle collection (a trace of `Vmap g axes n`): the moves of `Op`, plus
    * `gather idx`            — `resample`: index every leaf of the trace (arguments included) with `idx`;
    * `laneSelect mask other` — `where(mask_j, other_j, current_j)` against a trace supplied from outside;
    * `kernel mask op`        — an MCMC kernel vmapped over the particles: propose with `op` (an update
                                 or a regenerate of the whole collection), then accept/reject per lane. -/
inductive Op' (R : Type) where
  | base (op : Op)
  | gather (idx : List Nat)
  | laneSelect (mask : List Bool) (other : Tr R)
  | kernel (mask : List Bool) (op : Op)

/-- one move; the state is (number of lanes, trace, recorded arguments) -/
def applyOp' (g : GF) (axes : List Bool) (n : Nat) (t : Tr R) (a : List Val) :
    Op' R → Option (Nat × Tr R × List Val)
  | .base op => (applyOp P cfg (.vmap g axes n) t op).map fun r => (n, r.1, r.2.1)
  | .gather idx => some (idx.length, t.gatherVec idx, gatherArgs axes idx a)
  | .laneSelect mask other => some (n, Tr.selectVec mask other t, a)
  | .kernel mask op =>
      (applyOp P cfg (.vmap g axes n) t op).map fun r => (n, Tr.selectVec mask r.1 t, a)

def applyOps' (g : GF) (axes : List Bool) :
    Nat → Tr R → List Val → List (Op' R) → Option (Nat × Tr R × List Val)
  | n, t, a, [] => some (n, t, a)
  | n, t, a, op :: ops =>
    match applyOp' P cfg g axes n t a op with
    | some (n', t', a') => applyOps' g axes n' t' a' ops
    | none => none

/-- side conditions of a history (they depend on the lane count and the recorded arguments only,
    which evolve independently of the trace):
    * ancestor indices designate existing lanes;
    * a mask has one entry per lane;
    * a trace supplied from outside is coherent for the arguments recorded at that moment;
    * a kernel proposes under the arguments recorded at that moment (the selection `where` is then
      between two traces recorded with the same arguments). -/
def OpsOk (g : GF) (axes : List Bool) : Nat → List Val → List (Op' R) → Prop
  | _, _, [] => True
  | n, _, .base op :: r => OpsOk g axes n op.args r
  | n, a, .gather idx :: r => (∀ i ∈ idx, i < n) ∧ OpsOk g axes idx.length (gatherArgs axes idx a) r
  | n, a, .laneSelect mask other :: r =>
      mask.length = n ∧ (GF.vmap g axes n).Coh P a other ∧ OpsOk g axes n a r
  | n, a, .kernel mask op :: r => mask.length = n ∧ op.args = a ∧ OpsOk g axes n a r

omit [AddCommGroup R] in
theorem vmap_coh_vec [Zero R] [Add R] [Neg R] {g : GF} {axes : List Bool} {n : Nat} {a : List Val}
    {t : Tr R} (h : (GF.vmap g axes n).Coh P a t) : ∃ lanes, t = .vec lanes := by
  cases t <;> simp [GF.Coh] at h
  exact ⟨_, rfl⟩

/-- one base op keeps coherence, under the op's arguments -/
theorem applyOp_coh (g : GF) (t : Tr R) (op : Op) (t' : Tr R) (a' : List Val) (w : R)
    (h : applyOp P cfg g t op = some (t', a', w)) : g.Coh P a' t' ∧ a' = op.args := by
  cases op with
  | update x args =>
    simp only [applyOp, Option.map_eq_some_iff, Prod.mk.injEq] at h
    obtain ⟨⟨t2, w2, d2⟩, hu, rfl, rfl, _⟩ := h
    exact ⟨update_coh P cfg g t x _ _ _ _ hu, rfl⟩
  | regenerate s args =>
    simp only [applyOp, Option.map_eq_some_iff, Prod.mk.injEq] at h
    obtain ⟨⟨t2, w2, d2⟩, hu, rfl, rfl, _⟩ := h
    exact ⟨regenerate_coh P cfg g t s _ _ _ _ hu, rfl⟩

/-- one move of `Op'` keeps a particle collection coherent -/
theorem applyOp'_coh (g : GF) (axes : List Bool) (n : Nat) (t : Tr R) (a : List Val)
    (ht : (GF.vmap g axes n).Coh P a t) (op : Op' R) (rest : List (Op' R))
    (hok : OpsOk P g axes n a (op :: rest)) (n' : Nat) (t' : Tr R) (a' : List Val)
    (h : applyOp' P cfg g axes n t a op = some (n', t', a')) :
    (GF.vmap g axes n').Coh P a' t' ∧ OpsOk P g axes n' a' rest := by
  cases op with
  | base op =>
    simp only [applyOp', Option.map_eq_some_iff, Prod.mk.injEq] at h
    obtain ⟨⟨t2, a2, w2⟩, hu, rfl, rfl, rfl⟩ := h
    obtain ⟨hc, rfl⟩ := applyOp_coh P cfg _ t op _ _ _ hu
    exact ⟨hc, hok⟩
  | gather idx =>
    simp only [applyOp', Option.some.injEq, Prod.mk.injEq] at h
    obtain ⟨rfl, rfl, rfl⟩ := h
    obtain ⟨lanes, rfl⟩ := vmap_coh_vec P ht
    exact ⟨vmap_gather_coherent P g axes n a lanes idx ht hok.1, hok.2⟩
  | laneSelect mask other =>
    simp only [applyOp', Option.some.injEq, Prod.mk.injEq] at h
    obtain ⟨rfl, rfl, rfl⟩ := h
    obtain ⟨hm, ho, hr⟩ := hok
    obtain ⟨lanes, rfl⟩ := vmap_coh_vec P ht
    obtain ⟨lanes', rfl⟩ := vmap_coh_vec P ho
    exact ⟨select_lanes_coherent P g axes _ a lanes' lanes mask hm ho ht, hr⟩
  | kernel mask op =>
    simp only [applyOp', Option.map_eq_some_iff, Prod.mk.injEq] at h
    obtain ⟨⟨t2, a2, w2⟩, hu, rfl, rfl, rfl⟩ := h
    obtain ⟨hm, ha, hr⟩ := hok
    obtain ⟨hc, rfl⟩ := applyOp_coh P cfg _ t op _ _ _ hu
    rw [ha] at hc
    obtain ⟨lanes, rfl⟩ := vmap_coh_vec P ht
    obtain ⟨lanes', rfl⟩ := vmap_coh_vec P hc
    exact ⟨select_lanes_coherent P g axes _ _ lanes' lanes mask hm hc ht, hr⟩

/-- **5. `history_with_gather_coherent`**: a particle collection (trace of a top-level Vmap) stays
    coherent — for the lane count and the arguments recorded by the last move — under any finite
    history of update / regenerate / resample-gather / lane-wise accept-reject / vmapped kernel moves -/
theorem history_with_gather_coherent (g : GF) (axes : List Bool) (n : Nat) (t : Tr R) (a : List Val)
    (ht : (GF.vmap g axes n).Coh P a t) (ops : List (Op' R)) (hok : OpsOk P g axes n a ops)
    (n' : Nat) (t' : Tr R) (a' : List Val)
    (h : applyOps' P cfg g axes n t a ops = some (n', t', a')) :
    (GF.vmap g axes n').Coh P a' t' := by
  induction ops generalizing n t a with
  | nil =>
    simp only [applyOps', Option.some.injEq, Prod.mk.injEq] at h
    obtain ⟨rfl, rfl, rfl⟩ := h; exact ht
  | cons op ops ih =>
    simp only [applyOps'] at h
    split at h
    · rename_i n1 t1 a1 hop
      obtain ⟨hc, hr⟩ := applyOp'_coh P cfg g axes n t a ht op ops hok n1 t1 a1 hop
      exact ih n1 t1 a1 hc hr h
    · exact absurd h (by simp)

/-- histories of plain `Op`s embed (same result as `applyOps`) -/
theorem applyOps'_base (g : GF) (axes : List Bool) (n : Nat) (t : Tr R) (a : List Val) (ops : List Op) :
    applyOps' P cfg g axes n t a (ops.map .base) =
      (applyOps P cfg (.vmap g axes n) t a ops).map fun r => (n, r.1, r.2) := by
  induction ops generalizing t a with
  | nil => simp [applyOps', applyOps]
  | cons op ops ih =>
    simp only [List.map_cons, applyOps', applyOps, applyOp']
    cases hop : applyOp P cfg (.vmap g axes n) t op with
    | none => simp
    | some r => obtain ⟨t1, a1, w1⟩ := r; simp [ih]

end History

/-! ### 3. a concrete 3-lane program: mapped + unmapped argument, `idx = [2,0,0]` -/

deriving instance DecidableEq for Tr, TrL

/-- integer log densities that DEPEND on the arguments (both of them) -/
def gatherExP : Prims ℤ where
  lp := fun d a v => (d : ℤ) + (a.getD 0 .nil).toRat.num + 7 * (a.getD 1 .nil).toRat.num + 2 * v.toRat.num
  draw := fun d a => .num ((d : Rat) + (a.getD 0 .nil).toRat)

/-- callee of the particle Vmap: `x ~ d1(a, b); return x + b` -/
def gatherExG : GF := .fn (.call "x" (.dist 1) [.var 0, .var 1] (.ret (.add (.var 2) (.var 1))))

/-- `a` mapped over the particle axis (10, 20, 30), `b = 5` broadcast: `in_axes = (0, None)` -/
def gatherExArgs : List Val := [Val.ofList [.num 10, .num 20, .num 30], .num 5]

def gatherExLane (v : Rat) (s : ℤ) (r : Rat) : Tr ℤ :=
  .fn (.cons "x" (.leaf (.num v) s) .nil) (.num r) s

/-- the three particles `simulate` builds -/
def gatherExLanes : TrL ℤ :=
  TrL.ofList [gatherExLane 11 (-68) 16, gatherExLane 21 (-98) 26, gatherExLane 31 (-128) 36]

theorem gatherEx_simulate :
    (GF.vmap gatherExG [true, false] 3).simulate gatherExP gatherExArgs = some (.vec gatherExLanes) := by
  decide +kernel

theorem gatherEx_coh : (GF.vmap gatherExG [true, false] 3).Coh gatherExP gatherExArgs (.vec gatherExLanes) :=
  simulate_coh gatherExP _ _ _ gatherEx_simulate

theorem gatherEx_gather : gatherExLanes.gather [2, 0, 0] =
    TrL.ofList [gatherExLane 31 (-128) 36, gatherExLane 11 (-68) 16, gatherExLane 11 (-68) 16] := by
  decide +kernel

theorem gatherEx_gatherArgs : gatherArgs [true, false] [2, 0, 0] gatherExArgs =
    [Val.ofList [.num 30, .num 10, .num 10], .num 5] := by decide +kernel

/-- **3. `vmap_gather_args_needed`** (the seeded regression C12_3): gathering choices, scores and
    return values of the particles but NOT the mapped arguments recorded with the trace yields an
    INCOHERENT trace — lane 0 then holds the choices of old lane 2 (`x = 31`, score `-128`) next to
    the argument `a = 10` of old lane 0, for which the score of `x = 31` is `-108`.
    (All other hypotheses of `vmap_gather_coherent` hold; with the gathered arguments the same trace
    is coherent.) -/
theorem vmap_gather_args_needed :
    ∃ (P : Prims ℤ) (g : GF) (axes : List Bool) (n : Nat) (args : List Val) (lanes : TrL ℤ)
      (idx : List Nat),
      (GF.vmap g axes n).Coh P args (.vec lanes) ∧ (∀ i ∈ idx, i < n) ∧ idx.length = n ∧
      (GF.vmap g axes idx.length).Coh P (gatherArgs axes idx args) (.vec (lanes.gather idx)) ∧
      ¬ (GF.vmap g axes idx.length).Coh P args (.vec (lanes.gather idx)) := by
  refine ⟨gatherExP, gatherExG, [true, false], 3, gatherExArgs, gatherExLanes, [2, 0, 0],
    gatherEx_coh, by decide, rfl,
    vmap_gather_coherent gatherExP _ _ _ _ _ _ gatherEx_coh (by decide), ?_⟩
  rw [gatherEx_gather]
  simp [GF.Coh, lanesCoh, TrL.ofList, TrL.toList, gatherExLane, gatherExG, Body.Coh, TrL.find?,
    gatherExArgs, laneArgs, Val.ofList, Val.nth, Expr.eval, gatherExP, Body.addrs, Val.toRat]

end Genjax
