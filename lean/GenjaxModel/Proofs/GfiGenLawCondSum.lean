import GenjaxModel.Proofs.GfiGenLawCond
/-!
  C02 for programs WITH Cond, the aggregated forms (work package c02lawcond), all derived from the
  pointwise law `genlaw_gf` (Proofs/GfiGenLawCond.lean) and the law of `simulate` (`simD_law`):

  * `generateD_law_obs`: proper weighting against every test function of the OBSERVABLE trace
    (choice map and return value): `E_gen[w · F(choices, retval)] = E_sim[1{agrees} · F(choices, retval)]`.
    (Against arbitrary functions of the trace the statement is false for Cond: the hidden branch's
    constrained sites hold the constrained values, not draws from the branch's own distribution —
    see `C02_generate_hidden_branch_not_prior` in Props/C02.lean.)
  * `generateD_unbiased_cond`: `E[w] = P_simulate(the trace agrees with the constraints)`,
  * `generateD_unbiased_sum_cond`: `E[w] = Σ over the completions y ⊇ x of assessP y`.

  For the simulate side we need that on the traces of a `condOK` program agreement with a constraint
  is a function of the choice map (`Tr.agS_of_choices_cs`): both branch traces of every Cond node
  have choice maps of the same shape (`Tr.CondSame`), so the merged map is the visible branch's.
-/
namespace Genjax
open Smc Smc.FinDist

/-! ## `condOK` programs have a static skeleton -/

theorem skelLanes_isSome (s : CM) : ∀ n, (skelLanes n (some s)).isSome
  | 0 => rfl
  | n + 1 => by
      obtain ⟨r, hr⟩ := Option.isSome_iff_exists.mp (skelLanes_isSome s n)
      simp [skelLanes, hr]

mutual
  theorem condOK_skel_gf : (g : GF) → g.condOK = true → g.skel.isSome
    | .dist _, _ => rfl
    | .fn body, h => by
        simp only [GF.condOK] at h
        simp only [GF.skel, Option.isSome_map]
        exact condOK_skel_body body h
    | .vmap g _ n, h => by
        simp only [GF.condOK] at h
        obtain ⟨s, hs⟩ := Option.isSome_iff_exists.mp (condOK_skel_gf g h)
        simp only [GF.skel, Option.isSome_map, hs]
        exact skelLanes_isSome s n
    | .scan g n, h => by
        simp only [GF.condOK] at h
        obtain ⟨s, hs⟩ := Option.isSome_iff_exists.mp (condOK_skel_gf g h)
        simp only [GF.skel, Option.isSome_map, hs]
        exact skelLanes_isSome s n
    | .cond t f, h => by
        simp only [GF.condOK, Bool.and_eq_true, decide_eq_true_eq] at h
        obtain ⟨⟨⟨⟨hct, _⟩, hsk⟩, _⟩, _⟩ := h
        obtain ⟨s, hs⟩ := Option.isSome_iff_exists.mp (condOK_skel_gf t hct)
        simp only [GF.skel, ← hsk, hs, Option.bind_eq_bind, Option.bind_some,
          CM.mergeCheck_same true s s rfl]
        rfl
  theorem condOK_skel_body : (b : Body) → b.condOK = true → b.skel.isSome
    | .ret _, _ => rfl
    | .call _ g _ rest, h => by
        simp only [Body.condOK, Bool.and_eq_true] at h
        obtain ⟨s, hs⟩ := Option.isSome_iff_exists.mp (condOK_skel_gf g h.1)
        obtain ⟨r, hr⟩ := Option.isSome_iff_exists.mp (condOK_skel_body rest h.2)
        simp [Body.skel, hs, hr]
end

/-! ## traces whose Cond nodes hold two branch traces of the same shape -/

section CondSame
variable {R : Type}

mutual
  /-- at every Cond node of the trace the two branch traces have choice maps of the same shape -/
  def Tr.CondSame : Tr R → Prop
    | .leaf _ _ => True
    | .fn subs _ _ => subs.CondSame
    | .vec lanes => lanes.CondSame
    | .scan steps _ => steps.CondSame
    | .cond _ a b => a.CondSame ∧ b.CondSame ∧ a.choices.map CM.skel = b.choices.map CM.skel
  def TrL.CondSame : TrL R → Prop
    | .nil => True
    | .cons _ t rest => t.CondSame ∧ rest.CondSame
end

theorem TrL.condSame_ofList (ts : List (Tr R)) (h : ∀ t ∈ ts, t.CondSame) :
    (TrL.ofList ts).CondSame := by
  induction ts with
  | nil => trivial
  | cons t ts ih =>
    simp only [TrL.ofList, TrL.CondSame]
    exact ⟨h t (by simp), ih (fun t' ht' => h t' (by simp [ht']))⟩

theorem TrL.condSame_snoc : (l : TrL R) → (k : String) → (t : Tr R) →
    l.CondSame → t.CondSame → (l.snoc k t).CondSame
  | .nil, k, t, _, ht => by simp only [TrL.snoc, TrL.CondSame]; exact ⟨ht, trivial⟩
  | .cons k' t' rest, k, t, hl, ht => by
      simp only [TrL.CondSame] at hl
      simp only [TrL.snoc, TrL.CondSame]
      exact ⟨hl.1, TrL.condSame_snoc rest k t hl.2 ht⟩

variable {K : Type} [Field K]

mutual
  /-- on such a trace, agreement with a constraint is a function of the trace's choice map
      (the Cond-free `Tr.agS_of_choices` extended to Cond nodes) -/
  theorem Tr.agS_of_choices_cs : (t : Tr R) → t.CondSame → ∀ (x y : CM),
      t.choices = some y → t.agS (K := K) x = if y.agreeWith x then 1 else 0
    | .leaf v' s, _, x, y, h => by
        simp only [Tr.choices, Option.some.injEq] at h
        subst h
        cases x <;> simp [Tr.agS, CM.agreeWith]
    | .fn subs r s, hc, x, y, h => by
        simp only [Tr.CondSame] at hc
        simp only [Tr.choices, Option.map_eq_some_iff] at h
        obtain ⟨ys, hys, rfl⟩ := h
        cases x with
        | node xs =>
          simp only [Tr.agS, CM.agreeWith]
          exact TrL.agreeAll_of_choices_cs subs hc xs ys hys
        | leaf v => simp [Tr.agS, CM.agreeWith]
        | lanes xs => simp [Tr.agS, CM.agreeWith]
    | .vec lanes, hc, x, y, h => by
        simp only [Tr.CondSame] at hc
        simp only [Tr.choices, Option.map_eq_some_iff] at h
        obtain ⟨ys, hys, rfl⟩ := h
        cases x with
        | lanes xs =>
          simp only [Tr.agS, CM.agreeWith]
          exact TrL.agreePos_of_choices_cs lanes hc xs ys hys
        | leaf v => simp [Tr.agS, CM.agreeWith]
        | node xs => simp [Tr.agS, CM.agreeWith]
    | .scan steps c, hc, x, y, h => by
        simp only [Tr.CondSame] at hc
        simp only [Tr.choices, Option.map_eq_some_iff] at h
        obtain ⟨ys, hys, rfl⟩ := h
        cases x with
        | lanes xs =>
          simp only [Tr.agS, CM.agreeWith]
          exact TrL.agreePos_of_choices_cs steps hc xs ys hys
        | leaf v => simp [Tr.agS, CM.agreeWith]
        | node xs => simp [Tr.agS, CM.agreeWith]
    | .cond c a b, hc, x, y, h => by
        simp only [Tr.CondSame] at hc
        obtain ⟨hca, hcb, hsk⟩ := hc
        simp only [Tr.choices, Option.bind_eq_bind, Option.bind_eq_some_iff] at h
        obtain ⟨ya, hya, yb, hyb, hm⟩ := h
        rw [hya, hyb] at hsk
        simp only [Option.map_some, Option.some.injEq] at hsk
        rw [CM.mergeCheck_same c ya yb hsk] at hm
        cases c with
        | true =>
          simp only [if_true, Option.some.injEq] at hm
          subst hm
          simp only [Tr.agS, if_true]
          exact Tr.agS_of_choices_cs a hca x ya hya
        | false =>
          simp only [Bool.false_eq_true, if_false, Option.some.injEq] at hm
          subst hm
          simp only [Tr.agS, Bool.false_eq_true, if_false]
          exact Tr.agS_of_choices_cs b hcb x yb hyb
  theorem TrL.agreeAll_of_choices_cs : (l : TrL R) → l.CondSame → ∀ (xs ys : CML),
      l.choices = some ys → l.agreeAll (K := K) xs = if ys.agreeAllWith xs then 1 else 0
    | .nil, _, xs, ys, h => by
        simp only [TrL.choices, Option.some.injEq] at h
        subst h
        simp [TrL.agreeAll, CML.agreeAllWith]
    | .cons k t rest, hc, xs, ys, h => by
        simp only [TrL.CondSame] at hc
        simp only [TrL.choices, Option.bind_eq_bind, Option.pure_def, Option.bind_eq_some_iff,
          Option.some.injEq] at h
        obtain ⟨c, hcx, r, hr, rfl⟩ := h
        simp only [TrL.agreeAll, CML.agreeAllWith]
        rw [TrL.agreeAll_of_choices_cs rest hc.2 xs r hr]
        exact agree_find_aux (xs.find? k) (fun x => t.agS x) (fun x => c.agreeWith x) _
          (fun x => Tr.agS_of_choices_cs t hc.1 x c hcx)
  theorem TrL.agreePos_of_choices_cs : (l : TrL R) → l.CondSame → ∀ (xs ys : CML),
      l.choices = some ys → l.agreePos (K := K) xs = if ys.agreePosWith xs then 1 else 0
    | .nil, _, xs, ys, h => by
        simp only [TrL.choices, Option.some.injEq] at h
        subst h
        cases xs <;> simp [TrL.agreePos, CML.agreePosWith]
    | .cons k t rest, hc, xs, ys, h => by
        simp only [TrL.CondSame] at hc
        simp only [TrL.choices, Option.bind_eq_bind, Option.pure_def, Option.bind_eq_some_iff,
          Option.some.injEq] at h
        obtain ⟨c, hcx, r, hr, rfl⟩ := h
        cases xs with
        | nil => simp [TrL.agreePos, CML.agreePosWith]
        | cons k' x xr =>
          simp only [TrL.agreePos, CML.agreePosWith]
          rw [Tr.agS_of_choices_cs t hc.1 x c hcx, TrL.agreePos_of_choices_cs rest hc.2 xr r hr]
          exact ite_mul_ite_fd _ _
end

end CondSame

/-! ## the traces of a `condOK` program are `CondSame` -/

section SimCS
variable {K : Type} [Field K] {R : Type} [AddCommGroup R] (pd : PD K) (P : Prims R)

mutual
  theorem simD_condSame_gf : (g : GF) → g.condOK = true → ∀ (args : List Val) (t : Tr R),
      some t ∈ supp (g.simD pd P args) → t.CondSame
    | .dist d, _, args, t, h => by
        simp only [GF.simD, supp, List.map_map, List.mem_map, Function.comp, Option.some.injEq] at h
        obtain ⟨v, _, rfl⟩ := h
        trivial
    | .fn body, hg, args, t, h => by
        simp only [GF.condOK] at hg
        simp only [GF.simD] at h
        obtain ⟨r, hr, h⟩ := mem_supp_bindO h
        cases mem_supp_pureO h
        simp only [Tr.CondSame]
        exact simD_condSame_body body hg args .nil 0 r (by simp only [TrL.CondSame]) hr
    | .vmap g axes n, hg, args, t, h => by
        simp only [GF.condOK] at hg
        simp only [GF.simD] at h
        obtain ⟨ts, hts, h⟩ := mem_supp_bindO h
        cases mem_supp_pureO h
        simp only [Tr.CondSame]
        exact TrL.condSame_ofList _ (forLanesD_forall_fd _ (fun t => t.CondSame)
          (fun i _ b hb => simD_condSame_gf g hg _ b hb) _ _ _ hts)
    | .scan g n, hg, args, t, h => by
        simp only [GF.condOK] at hg
        simp only [GF.simD] at h
        obtain ⟨r, hr, h⟩ := mem_supp_bindO h
        cases mem_supp_pureO h
        simp only [Tr.CondSame]
        refine TrL.condSame_ofList _ (forStepsD_forall_fd _ (fun t => t.CondSame)
          (fun c i _ p hp => ?_) _ _ _ _ hr)
        obtain ⟨t, ht, hp⟩ := mem_supp_bindO hp
        cases mem_supp_pureO hp
        exact simD_condSame_gf g hg _ _ ht
    | .cond t f, hg, args, tr, h => by
        simp only [GF.condOK, Bool.and_eq_true, decide_eq_true_eq] at hg
        obtain ⟨⟨⟨⟨hct, hcf⟩, hsk⟩, _⟩, _⟩ := hg
        simp only [GF.simD] at h
        obtain ⟨a, ha, h⟩ := mem_supp_bindO h
        obtain ⟨b, hb, h⟩ := mem_supp_bindO h
        cases mem_supp_pureO h
        simp only [Tr.CondSame]
        refine ⟨simD_condSame_gf t hct _ _ ha, simD_condSame_gf f hcf _ _ hb, ?_⟩
        rw [simD_choices_skel pd P t _ a ha, simD_choices_skel pd P f _ b hb, hsk]
  theorem simD_condSame_body : (b : Body) → b.condOK = true → ∀ (env : List Val) (subs : TrL R)
      (s : R) (r : TrL R × Val × R), subs.CondSame →
      some r ∈ supp (b.simD pd P env subs s) → r.1.CondSame
    | .ret e, _, env, subs, s, r, hs, h => by
        simp only [Body.simD] at h
        cases mem_supp_pureO h
        exact hs
    | .call addr g es rest, hb, env, subs, s, r, hs, h => by
        simp only [Body.condOK, Bool.and_eq_true] at hb
        simp only [Body.simD] at h
        split at h
        · cases mem_supp_failO h
        · obtain ⟨t, ht, h⟩ := mem_supp_bindO h
          exact simD_condSame_body rest hb.2 _ _ _ r
            (TrL.condSame_snoc _ _ _ hs (simD_condSame_gf g hb.1 _ _ ht)) h
end

end SimCS

/-! ## splitting an expectation over a finite set of keys -/

section Split
variable {K : Type} [Field K]

theorem exists_nodup_mem {γ : Type} [DecidableEq γ] :
    ∀ cs : List γ, ∃ Y : List γ, Y.Nodup ∧ ∀ y, y ∈ Y ↔ y ∈ cs
  | [] => ⟨[], List.nodup_nil, fun _ => Iff.rfl⟩
  | c :: cs => by
      obtain ⟨Y, hnd, hm⟩ := exists_nodup_mem cs
      by_cases h : c ∈ Y
      · refine ⟨Y, hnd, fun y => ?_⟩
        rw [hm y, List.mem_cons]
        constructor
        · exact Or.inr
        · rintro (rfl | h')
          · exact (hm y).mp h
          · exact h'
      · refine ⟨c :: Y, List.nodup_cons.mpr ⟨h, hnd⟩, fun y => ?_⟩
        rw [List.mem_cons, List.mem_cons, hm y]

/-- an expectation splits over the (finitely many, distinct) keys the outcomes can have -/
theorem E_split_key {β γ : Type} [DecidableEq γ] (d : FinDist K (Option β)) (key : β → Option γ)
    (f : β → K) (ys : List γ) (hnd : ys.Nodup)
    (hcov : ∀ b, some b ∈ supp d → ∃ y ∈ ys, key b = some y) :
    E d (optK f)
      = sumK (ys.map fun y => E d (optK fun b => if key b = some y then f b else 0)) := by
  induction d with
  | nil =>
    simp only [E_nil]
    exact (sumK_zeros_fd ys).symm
  | cons op d ih =>
    obtain ⟨o, p⟩ := op
    have ih' := ih (fun b hb => hcov b (by
      simp only [supp, List.map_cons, List.mem_cons] at hb ⊢
      exact Or.inr hb))
    simp only [E_cons]
    rw [sumK_map_add, sumK_map_mul_left, ← ih']
    congr 2
    cases o with
    | none =>
      simp only [optK_none]
      exact (sumK_zeros_fd ys).symm
    | some b =>
      obtain ⟨y0, hy0, hb⟩ := hcov b (by simp [supp])
      simp only [optK_some, hb, Option.some.injEq]
      exact (sumK_ite_eq_fd ys hnd y0 hy0 (f b)).symm

end Split

/-! ## the aggregated forms -/

section Main
variable {K : Type} [Field K] {R : Type} [AddCommGroup R]
variable (pd : PD K) (P : Prims R) (cfg : Cfg)

/-- a function of the OBSERVABLE trace: choice map (`get_choices()`) and return value -/
def obsF (F : CM → Val → K) (t : Tr R) : K :=
  match t.choices with
  | some y => F y t.retval
  | none => 0

omit [AddCommGroup R] in
theorem obsF_of_choices (F : CM → Val → K) {t : Tr R} {y : CM} (h : t.choices = some y) :
    obsF F t = F y t.retval := by
  simp only [obsF, h]

/-- the simulate side, outcome by outcome: the probability that `simulate` produces the choice map
    `y` AND agrees with the constraints is `assessP y` if `y` is a completion of them, else 0 -/
theorem simD_agree_pointwise_cond (hpd : pd.WF) (hnorm : pd.Normalised) (g : GF)
    (hc : g.condOK = true) (ox : Option CM) (y : CM) (args : List Val) (ψ : Val → K)
    (hs : g.skel = some y.skel) :
    E (g.simD pd P args) (optK fun t => t.agT ox * choicesAre y ψ t)
      = agO ox y * massOf (g.assessP pd y args) ψ := by
  rw [← simD_law pd P hpd hnorm g hc args y ψ hs, ← E_optK_mul_left]
  apply E_optK_congr
  intro t ht
  simp only [choicesAre]
  split
  · rename_i hy
    congr 1
    cases ox with
    | none => rfl
    | some x => exact Tr.agS_of_choices_cs t (simD_condSame_gf pd P g hc args t ht) x y hy
  · simp only [mul_zero]

/-- **Proper weighting against observable test functions** (programs with Cond): for every
    function `F` of the choice map and the return value,
    `E_{(t,w) ∼ generate}[w · F(choices t, retval t)]
       = E_{t ∼ simulate}[1{t agrees with the constraints} · F(choices t, retval t)]`. -/
theorem generateD_law_obs (hpd : pd.WF) (hnorm : pd.Normalised) (g : GF) (hc : g.condOK = true)
    (hv : g.vmapOK cfg = true) (ox : Option CM) (args : List Val) (F : CM → Val → K) :
    E (g.generateD pd P cfg ox args) (optK fun tw => tw.2 * obsF F tw.1)
      = E (g.simD pd P args) (optK fun t => t.agT ox * obsF F t) := by
  obtain ⟨sk, hsk⟩ := Option.isSome_iff_exists.mp (condOK_skel_gf g hc)
  -- the finitely many choice maps either side can produce
  obtain ⟨Y, hnd, hY⟩ := exists_nodup_mem
    ((supp (g.generateD pd P cfg ox args)).filterMap (fun o => o.bind fun tw => tw.1.choices)
      ++ (supp (g.simD pd P args)).filterMap (fun o => o.bind Tr.choices))
  have hchG : ∀ tw, some tw ∈ supp (g.generateD pd P cfg ox args) →
      ∃ y, tw.1.choices = some y ∧ g.skel = some y.skel := by
    intro tw htw
    have h := generateD_choices_skel pd P cfg g ox args tw htw
    obtain ⟨y, hy⟩ := choices_of_skel h (by rw [hsk]; rfl)
    rw [hy] at h
    exact ⟨y, hy, h.symm⟩
  have hchS : ∀ t, some t ∈ supp (g.simD pd P args) →
      ∃ y, t.choices = some y ∧ g.skel = some y.skel := by
    intro t ht
    have h := simD_choices_skel pd P g args t ht
    obtain ⟨y, hy⟩ := choices_of_skel h (by rw [hsk]; rfl)
    rw [hy] at h
    exact ⟨y, hy, h.symm⟩
  have hcovG : ∀ tw, some tw ∈ supp (g.generateD pd P cfg ox args) →
      ∃ y ∈ Y, tw.1.choices = some y := by
    intro tw htw
    obtain ⟨y, hy, _⟩ := hchG tw htw
    refine ⟨y, (hY y).mpr (List.mem_append_left _ ?_), hy⟩
    exact List.mem_filterMap.mpr ⟨some tw, htw, by simp [hy]⟩
  have hcovS : ∀ t, some t ∈ supp (g.simD pd P args) → ∃ y ∈ Y, t.choices = some y := by
    intro t ht
    obtain ⟨y, hy, _⟩ := hchS t ht
    refine ⟨y, (hY y).mpr (List.mem_append_right _ ?_), hy⟩
    exact List.mem_filterMap.mpr ⟨some t, ht, by simp [hy]⟩
  have hshape : ∀ y ∈ Y, g.skel = some y.skel := by
    intro y hy
    rcases List.mem_append.mp ((hY y).mp hy) with h | h
    · obtain ⟨o, ho, hoy⟩ := List.mem_filterMap.mp h
      cases o with
      | none => simp at hoy
      | some tw =>
        obtain ⟨y', hy', hs'⟩ := hchG tw ho
        simp only [Option.bind_some, hy', Option.some.injEq] at hoy
        exact hoy ▸ hs'
    · obtain ⟨o, ho, hoy⟩ := List.mem_filterMap.mp h
      cases o with
      | none => simp at hoy
      | some t =>
        obtain ⟨y', hy', hs'⟩ := hchS t ho
        simp only [Option.bind_some, hy', Option.some.injEq] at hoy
        exact hoy ▸ hs'
  rw [E_split_key _ (fun tw : Tr R × K => tw.1.choices) _ Y hnd hcovG,
    E_split_key _ (fun t : Tr R => t.choices) _ Y hnd hcovS]
  congr 1
  apply List.map_congr_left
  intro y hy
  have h1 : E (g.generateD pd P cfg ox args)
        (optK fun tw => if tw.1.choices = some y then tw.2 * obsF F tw.1 else 0)
      = E (g.generateD pd P cfg ox args) (optK fun tw => tw.2 * choicesAre y (F y) tw.1) := by
    congr 1
    funext o
    cases o with
    | none => rfl
    | some tw =>
      simp only [optK_some, choicesAre]
      split
      · rename_i h; rw [obsF_of_choices F h]
      · rw [mul_zero]
  have h2 : E (g.simD pd P args)
        (optK fun t => if t.choices = some y then t.agT ox * obsF F t else 0)
      = E (g.simD pd P args) (optK fun t => t.agT ox * choicesAre y (F y) t) := by
    congr 1
    funext o
    cases o with
    | none => rfl
    | some t =>
      simp only [optK_some, choicesAre]
      split
      · rename_i h; rw [obsF_of_choices F h]
      · rw [mul_zero]
  rw [h1, h2, genlaw_gf pd P cfg hpd hnorm g hc hv ox args y (F y) (hshape y hy),
    simD_agree_pointwise_cond pd P hpd hnorm g hc ox y args (F y) (hshape y hy)]

/-- **E[weight] = marginal likelihood of the constraints** (programs with Cond): the expected
    importance weight is the probability, under the program's own distribution, that the trace
    takes the constrained values. -/
theorem generateD_unbiased_cond (hpd : pd.WF) (hnorm : pd.Normalised) (g : GF)
    (hc : g.condOK = true) (hv : g.vmapOK cfg = true) (x : CM) (args : List Val) :
    E (g.generateD pd P cfg (some x) args) (optK fun tw => tw.2)
      = E (g.simD pd P args) (optK fun t => t.agS x) := by
  obtain ⟨sk, hsk⟩ := Option.isSome_iff_exists.mp (condOK_skel_gf g hc)
  have h := generateD_law_obs pd P cfg hpd hnorm g hc hv (some x) args (fun _ _ => 1)
  have h1 : E (g.generateD pd P cfg (some x) args) (optK fun tw => tw.2 * obsF (fun _ _ => 1) tw.1)
      = E (g.generateD pd P cfg (some x) args) (optK fun tw => tw.2) := by
    apply E_optK_congr
    intro tw htw
    have hs := generateD_choices_skel pd P cfg g (some x) args tw htw
    obtain ⟨y, hy⟩ := choices_of_skel hs (by rw [hsk]; rfl)
    rw [obsF_of_choices _ hy, mul_one]
  have h2 : E (g.simD pd P args) (optK fun t => t.agT (some x) * obsF (fun _ _ => 1) t)
      = E (g.simD pd P args) (optK fun t => t.agS x) := by
    apply E_optK_congr
    intro t ht
    have hs := simD_choices_skel pd P g args t ht
    obtain ⟨y, hy⟩ := choices_of_skel hs (by rw [hsk]; rfl)
    rw [obsF_of_choices _ hy, mul_one]
    rfl
  rw [← h1, h, h2]

/-- each complete choice map `y` of the program's shape contributes to the marginal likelihood of
    the constraints its density `assessP y` if it is a completion of `x`, and nothing otherwise -/
theorem simD_completion_mass_cond (hpd : pd.WF) (hnorm : pd.Normalised) (g : GF)
    (hc : g.condOK = true) (x y : CM) (args : List Val) (hs : g.skel = some y.skel) :
    E (g.simD pd P args) (optK fun t => if t.choices = some y then t.agS x else 0)
      = if y.agreeWith x then pmassOf (g.assessP pd y args) else 0 := by
  have h := simD_agree_pointwise_cond pd P hpd hnorm g hc (some x) y args (fun _ => 1) hs
  rw [massOf_one] at h
  have h1 : E (g.simD pd P args) (optK fun t => if t.choices = some y then t.agS x else 0)
      = E (g.simD pd P args) (optK fun t => t.agT (some x) * choicesAre y (fun _ => 1) t) := by
    congr 1
    funext o
    cases o with
    | none => rfl
    | some t =>
      simp only [optK_some, choicesAre, Tr.agT]
      split
      · rw [mul_one]
      · rw [mul_zero]
  rw [h1, h]
  simp only [agO]
  split
  · rw [one_mul]
  · rw [zero_mul]

/-- **E[w] = Σ over the completions `y ⊇ x` of `assessP y`** (programs with Cond), for any list `ys`
    of distinct choice maps of the program's shape containing every choice map `simulate` can
    produce. -/
theorem generateD_unbiased_sum_cond (hpd : pd.WF) (hnorm : pd.Normalised) (g : GF)
    (hc : g.condOK = true) (hv : g.vmapOK cfg = true) (x : CM) (args : List Val) (ys : List CM)
    (hnd : ys.Nodup)
    (hcov : ∀ t, some t ∈ supp (g.simD pd P args) → ∃ y ∈ ys, t.choices = some y)
    (hshape : ∀ y ∈ ys, g.skel = some y.skel) :
    E (g.generateD pd P cfg (some x) args) (optK fun tw => tw.2)
      = sumK (ys.map fun y => if y.agreeWith x then pmassOf (g.assessP pd y args) else 0) := by
  rw [generateD_unbiased_cond pd P cfg hpd hnorm g hc hv x args, E_split_choices _ _ ys hnd hcov]
  congr 1
  apply List.map_congr_left
  intro y hy
  exact simD_completion_mass_cond pd P hpd hnorm g hc x y args (hshape y hy)

end Main

end Genjax
