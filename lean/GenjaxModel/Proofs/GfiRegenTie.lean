import GenjaxModel.Model.GfiRegenDist
import GenjaxModel.Proofs.GfiGenTie
/-!
  TIE of `GF.regenerateD` (Model/GfiRegenDist.lean) to the executable `GF.regenerate`
  (Model/Gfi.lean): when every primitive has the one-point support `[P.draw d a]` and the masses
  are the exponentials of the log densities, `regenerateD` has a single outcome, namely what
  `GF.regenerate` returns (same trace, same discard, or "raises" when it raises), with the weight
  pushed through the exponential (`regenerateD_point`).
-/
namespace Genjax
open Smc Smc.FinDist

section Tie
variable {K : Type} [Field K] {R : Type} [Zero R] [Add R] [Neg R]
variable (e : R → K) (he0 : e 0 = 1) (hadd : ∀ a b, e (a + b) = e a * e b)
variable (pd : PD K) (P : Prims R) (cfg : Cfg)
variable (hsupp : ∀ d a, pd.support d a = [P.draw d a])
variable (hpm : ∀ d a v, pd.pm d a v = e (P.lp d a v))

/-- the weight of a `regenerate` result is pushed through the exponential -/
def umap (r : Upd R) : UpdK R K := (r.1, e r.2.1, r.2.2)

omit [Field K] [Zero R] [Add R] [Neg R] in
theorem map_umap_fst (rs : List (Upd R)) : (rs.map (umap e)).map (·.1) = rs.map (·.1) := by
  rw [List.map_map]; rfl

omit [Field K] [Zero R] [Add R] [Neg R] in
theorem map_umap_disc (rs : List (Upd R)) : (rs.map (umap e)).map (·.2.2) = rs.map (·.2.2) := by
  rw [List.map_map]; rfl

include he0 hadd in
omit [Neg R] in
theorem prodK_umap (rs : List (Upd R)) :
    prodK ((rs.map (umap e)).map (·.2.1)) = e (sumR (rs.map (·.2.1))) := by
  rw [← prodK_map_exp e he0 hadd, List.map_map, List.map_map]; rfl

include hadd in
omit [Zero R] [Neg R] in
/-- the weight of `Cond.regenerate`, linear domain vs. log domain -/
theorem cond_weight (c1 c2 : Bool) (w w' x : R) :
    (if c1 = true then (if c2 = true then e w else e w') * e x
      else if c2 = true then e w else e w')
      = e (if c1 = true then (if c2 = true then w else w') + x
        else if c2 = true then w else w') := by
  cases c1 <;> cases c2 <;> simp [hadd]

set_option linter.unusedSectionVars false in
include he0 hadd hsupp hpm in
mutual
  theorem regen_point_gf : (g : GF) → ∀ (t : Tr R) (s : Sel) (args : List Val),
      IsPoint (g.regenerateD e pd P cfg t s args) ((g.regenerate P cfg t s args).map (umap e))
    | .dist d, .leaf vOld sOld, s, args => by
        simp only [GF.regenerateD, GF.regenerate]
        split
        · simp only [hsupp, List.map_cons, List.map_nil, Option.map_some, umap, he0]
          exact ⟨_, rfl⟩
        · simp only [Option.map_some, umap, hadd, hpm]
          exact IsPoint.pure _
    | .dist d, .fn _ _ _, s, args => IsPoint.pure _
    | .dist d, .vec _, s, args => IsPoint.pure _
    | .dist d, .scan _ _, s, args => IsPoint.pure _
    | .dist d, .cond _ _ _, s, args => IsPoint.pure _
    | .fn body, .fn old _ _, s, args => by
        simp only [GF.regenerateD, GF.regenerate]
        have hb := regen_point_body body old s args .nil 0 0 .nil
        rw [he0] at hb
        refine (IsPoint.bindO (h := fun r => some (Tr.fn r.1 r.2.1 r.2.2.1, r.2.2.2.1,
          some (CM.node r.2.2.2.2))) hb fun r _ => IsPoint.pure _).congr ?_
        cases body.regenerate P cfg old s args .nil 0 0 .nil <;> rfl
    | .fn body, .leaf _ _, s, args => IsPoint.pure _
    | .fn body, .vec _, s, args => IsPoint.pure _
    | .fn body, .scan _ _, s, args => IsPoint.pure _
    | .fn body, .cond _ _ _, s, args => IsPoint.pure _
    | .vmap g axes n, .vec old, s, args => by
        simp only [GF.regenerateD, GF.regenerate, lenIs]
        split
        · have hl := forLanesD_point
            (fun i (t : Tr R) => g.regenerateD e pd P cfg t s (laneArgs axes args i))
            (fun i (t : Tr R) => (g.regenerate P cfg t s (laneArgs axes args i)).map (umap e))
            (fun i t => regen_point_gf g t s _) old.toList 0
          rw [forLanes_map_fd] at hl
          refine (IsPoint.bindO (h := fun rs => some (Tr.vec (TrL.ofList (rs.map (·.1))),
            prodK (rs.map (·.2.1)), lanesDiscard (rs.map (·.2.2)))) hl
            fun rs _ => IsPoint.pure _).congr ?_
          cases forLanes (fun i (t : Tr R) => g.regenerate P cfg t s (laneArgs axes args i)) 0
            old.toList with
          | none => rfl
          | some rs =>
            simp only [Option.map_some, Option.bind_some, Option.bind_eq_bind, Option.pure_def,
              map_umap_fst, map_umap_disc, prodK_umap e he0 hadd, umap]
        · exact IsPoint.pure _
    | .vmap g axes n, .leaf _ _, s, args => IsPoint.pure _
    | .vmap g axes n, .fn _ _ _, s, args => IsPoint.pure _
    | .vmap g axes n, .scan _ _, s, args => IsPoint.pure _
    | .vmap g axes n, .cond _ _ _, s, args => IsPoint.pure _
    | .scan g n, .scan old _, s, args => by
        simp only [GF.regenerateD, GF.regenerate, lenIs]
        split
        · exact IsPoint.pure _
        · split
          · have hl := forStepsD_point
              (fun c i (t : Tr R) =>
                bindO (g.regenerateD e pd P cfg t s [c, (args.getD 1 .nil).nth i])
                  fun r => pureO (r, r.1.retval.fst))
              (fun c i (t : Tr R) => ((g.regenerate P cfg t s [c, (args.getD 1 .nil).nth i]).bind
                fun r => some (r, r.1.retval.fst)).map fun p => (umap e p.1, p.2))
              (fun c i t => (IsPoint.bindO (h := fun r => some (r, r.1.retval.fst))
                (regen_point_gf g t s _) fun r _ => IsPoint.pure _).congr (by
                  cases g.regenerate P cfg t s [c, (args.getD 1 .nil).nth i] <;> rfl))
              old.toList (args.getD 0 .nil) 0
            rw [forSteps_map_fd] at hl
            refine (IsPoint.bindO (h := fun q => some (Tr.scan (TrL.ofList (q.1.map (·.1))) q.2,
              prodK (q.1.map (·.2.1)), lanesDiscard (q.1.map (·.2.2)))) hl
              fun q _ => IsPoint.pure _).congr ?_
            simp only [Option.bind_eq_bind, Option.pure_def, Option.bind_some]
            cases forSteps (fun c i (t : Tr R) =>
                (g.regenerate P cfg t s [c, (args.getD 1 .nil).nth i]).bind
                  fun r => some (r, r.1.retval.fst)) (args.getD 0 .nil) 0 old.toList with
            | none => rfl
            | some q =>
              simp only [Option.map_some, Option.bind_some, map_umap_fst, map_umap_disc,
                prodK_umap e he0 hadd, umap]
          · exact IsPoint.pure _
    | .scan g n, .leaf _ _, s, args => IsPoint.pure _
    | .scan g n, .fn _ _ _, s, args => IsPoint.pure _
    | .scan g n, .vec _, s, args => IsPoint.pure _
    | .scan g n, .cond _ _ _, s, args => IsPoint.pure _
    | .cond t f, .cond cOld a b, s, args => by
        simp only [GF.regenerateD, GF.regenerate]
        refine (IsPoint.bindO (h := fun ra =>
            ((f.regenerate P cfg b s (args.drop 1)).map (umap e)).bind fun rb =>
              (condRegenDiscard cfg cOld ra.2.2 rb.2.2).map fun disc =>
                (Tr.cond (args.getD 0 .nil).truthy ra.1 rb.1,
                  (if cfg.condSwitchCorrection
                   then (if (args.getD 0 .nil).truthy then ra.2.1 else rb.2.1)
                     * e ((if cOld then a.score else b.score)
                          + -(if (args.getD 0 .nil).truthy then a.score else b.score))
                   else (if (args.getD 0 .nil).truthy then ra.2.1 else rb.2.1)),
                  disc))
          (regen_point_gf t a s _) fun ra _ =>
          IsPoint.bindO (regen_point_gf f b s _) fun rb _ => by
            cases condRegenDiscard cfg cOld ra.2.2 rb.2.2 <;> exact IsPoint.pure _).congr ?_
        cases t.regenerate P cfg a s (args.drop 1) with
        | none => rfl
        | some ra =>
          cases f.regenerate P cfg b s (args.drop 1) with
          | none => rfl
          | some rb =>
            obtain ⟨a', w, d⟩ := ra
            obtain ⟨b', w', d'⟩ := rb
            cases d <;> cases d' <;>
              simp only [Option.map_some, Option.bind_some, Option.bind_eq_bind, Option.pure_def,
                umap, condRegenDiscard, cond_weight e hadd]
            generalize (if cfg.condDiscardVisible = true then _ else _ : Option (Option CM)) = o
            cases o with
            | none => rfl
            | some disc => simp only [Option.map_some, Option.bind_some, umap]
    | .cond t f, .leaf _ _, s, args => IsPoint.pure _
    | .cond t f, .fn _ _ _, s, args => IsPoint.pure _
    | .cond t f, .vec _, s, args => IsPoint.pure _
    | .cond t f, .scan _ _, s, args => IsPoint.pure _
  theorem regen_point_body : (b : Body) → ∀ (old : TrL R) (s : Sel) (env : List Val)
      (subs : TrL R) (sc w : R) (d : CML),
      IsPoint (b.regenerateD e pd P cfg old s env subs sc (e w) d)
        ((b.regenerate P cfg old s env subs sc w d).map
          fun r => (r.1, r.2.1, r.2.2.1, e r.2.2.2.1, r.2.2.2.2))
    | .ret ex, old, s, env, subs, sc, w, d => IsPoint.pure _
    | .call addr g es rest, old, s, env, subs, sc, w, d => by
        simp only [Body.regenerateD, Body.regenerate]
        split
        · exact IsPoint.pure _
        · cases hfind : old.find? addr with
          | none => exact IsPoint.pure _
          | some sub =>
            simp only []
            have hg := regen_point_gf g sub (s.matchAddr addr).2 (es.map (·.eval env))
            cases hreg : g.regenerate P cfg sub (s.matchAddr addr).2 (es.map (·.eval env)) with
            | none =>
              rw [hreg] at hg
              exact (IsPoint.bindO (h := fun _ => none) hg fun a ha => by cases ha).congr rfl
            | some r =>
              rw [hreg] at hg
              refine (IsPoint.bindO (h := fun _ => (rest.regenerate P cfg old s
                (env ++ [r.1.retval]) (subs.snoc addr r.1) (sc + r.1.score) (w + r.2.1)
                (match r.2.2 with | some c => d.snoc addr c | none => d)).map
                  fun r => (r.1, r.2.1, r.2.2.1, e r.2.2.2.1, r.2.2.2.2)) hg fun a ha => ?_).congr rfl
              simp only [Option.map_some, Option.some.injEq] at ha
              subst ha
              simp only [umap]
              rw [← hadd]
              exact regen_point_body rest old s _ _ _ _ _
end

include he0 hadd hsupp hpm in
/-- **Tie of `regenerateD` to `GF.regenerate`**: when every primitive has the one-point support
    `[P.draw d a]` and the masses are the exponentials of the log densities, `regenerateD` has a
    single outcome: the result of `GF.regenerate` (same trace and discard, or "raises" when it
    raises) with the weight pushed through the exponential. -/
theorem regenerateD_point (g : GF) (t : Tr R) (s : Sel) (args : List Val) :
    ∃ q, g.regenerateD e pd P cfg t s args
      = [((g.regenerate P cfg t s args).map fun r => (r.1, e r.2.1, r.2.2), q)] :=
  regen_point_gf e he0 hadd pd P cfg hsupp hpm g t s args

end Tie

/-- non-vacuity of the hypotheses of the tie: integer log densities, base-2 exponential, a site of
    mass 1/2 -/
example : ∃ (e : ℤ → ℚ) (P : Prims ℤ) (pd : PD ℚ), e 0 = 1 ∧ (∀ a b, e (a + b) = e a * e b) ∧
    (∀ d a, pd.support d a = [P.draw d a]) ∧ (∀ d a v, pd.pm d a v = e (P.lp d a v)) ∧
    e (P.lp 0 [] (.num 1)) = 1 / 2 :=
  ⟨fun n => (2 : ℚ) ^ n, ⟨fun _ _ _ => -1, fun _ _ => .num 0⟩,
    ⟨fun _ _ => [.num 0], fun _ _ _ => (2 : ℚ) ^ (-1 : ℤ)⟩,
    by simp, fun a b => zpow_add₀ (by norm_num) a b, fun _ _ => rfl, fun _ _ _ => rfl, by norm_num⟩

end Genjax
