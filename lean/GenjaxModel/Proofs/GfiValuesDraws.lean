import GenjaxModel.Proofs.GfiValuesRegen
import GenjaxModel.Proofs.GfiValuesGenerate
/-!
  C02 / C04: which values are fresh draws.

  `GF.siteAt g args t p` is the Distribution whose sample is visible at path `p` of the trace `t`,
  together with the PARAMETERS the program computes for it from the trace's own values (the
  arguments are threaded exactly as `GF.Coh` threads them: Fn environments grow by the return values
  of the preceding call sites, Scan steps receive the carry of the preceding steps, a Cond shows the
  taken branch where both have the address).  "The value at `p` is a draw from its conditional
  prior given the values it depends on" is `v = P.draw d params` for `siteAt … p = some (d, params)`.
-/
namespace Genjax

/-- leafwise `where` with one-sided entries kept (as `mergeLeaf`, any payload) -/
def mergeOpt {α : Type} (c : Bool) : Option α → Option α → Option α
  | some a, some b => some (if c then a else b)
  | some a, none => some a
  | none, o => o

theorem mergeOpt_isSome {α : Type} (c : Bool) (a b : Option α) :
    (mergeOpt c a b).isSome = (a.isSome || b.isSome) := by
  cases a <;> cases b <;> rfl

section Defs
variable {R : Type} [Zero R] [Add R]

mutual
  /-- the Distribution visible at path `p` of trace `t` and the parameters computed for it from the
      trace's own values -/
  def GF.siteAt : GF → List Val → Tr R → Path → Option (Nat × List Val)
    | .dist d, args, .leaf _ _, [] => some (d, args)
    | .fn body, args, .fn subs _ _, .key a :: p => body.siteAt args subs a p
    | .vmap g axes _, args, .vec lanes, .idx i :: p =>
      match lanes.toList[i]? with
      | some t => g.siteAt (laneArgs axes args i) t p
      | none => none
    | .scan g _, args, .scan steps _, .idx i :: p =>
      match steps.toList[i]? with
      | some t => g.siteAt [carryAt (args.getD 0 .nil) steps.toList i, (args.getD 1 .nil).nth i] t p
      | none => none
    | .cond tg fg, args, .cond c a b, p =>
      mergeOpt c (tg.siteAt (args.drop 1) a p) (fg.siteAt (args.drop 1) b p)
    | _, _, _, _ => none
  def Body.siteAt : Body → List Val → TrL R → String → Path → Option (Nat × List Val)
    | .ret _, _, _, _, _ => none
    | .call addr g es rest, env, subs, a, p =>
      match subs.find? addr with
      | some t =>
        if a = addr then g.siteAt (es.map (·.eval env)) t p
        else rest.siteAt (env ++ [t.retval]) subs a p
      | none => none
end

theorem Body.siteAt_site_none : (b : Body) → (env : List Val) → (subs : TrL R) → (a : String) →
    (p : Path) → b.site a = none → b.siteAt env subs a p = none
  | .ret _, _, _, _, _, _ => rfl
  | .call addr g es rest, env, subs, a, p, h => by
      simp only [Body.site] at h
      split at h
      · simp at h
      rename_i hne
      simp only [Body.siteAt, hne, if_false]
      split
      · exact Body.siteAt_site_none rest _ subs a p h
      · rfl

end Defs

section Coh
variable {R : Type} [Zero R] [Add R] [Neg R] (P : Prims R)

/-- in a coherent Fn trace the call site at `a` has a coherent sub-trace for the arguments evaluated
    in `Body.envAt`, and `Body.siteAt` looks through it -/
theorem Body.coh_site : (b : Body) → (env : List Val) → (subs : TrL R) → b.Coh P env subs →
    ∀ a g es, b.site a = some (g, es) →
      ∃ t, subs.find? a = some t ∧ g.Coh P (es.map (·.eval (b.envAt env subs a))) t ∧
        ∀ p, b.siteAt env subs a p = g.siteAt (es.map (·.eval (b.envAt env subs a))) t p
  | .ret _, env, subs, _, a, g, es, h => by simp [Body.site] at h
  | .call addr g0 es0 rest, env, subs, hc, a, g, es, h => by
      simp only [Body.Coh] at hc
      obtain ⟨_, t, hft, hg, hrc⟩ := hc
      simp only [Body.site] at h
      split at h
      · rename_i he
        subst he
        simp only [Option.some.injEq, Prod.mk.injEq] at h
        obtain ⟨rfl, rfl⟩ := h
        refine ⟨t, hft, by simpa [Body.envAt] using hg, fun p => ?_⟩
        simp [Body.siteAt, hft, Body.envAt]
      · rename_i hne
        obtain ⟨t1, h1, h2, h3⟩ := Body.coh_site rest _ subs hrc a g es h
        refine ⟨t1, h1, by simpa [Body.envAt, hne, hft] using h2, fun p => ?_⟩
        simp only [Body.siteAt, hft, hne, if_false, Body.envAt]
        exact h3 p

omit [Neg R] in
theorem lanesCoh_get (coh : List Val → Tr R → Prop) (axes : List Bool) (args : List Val) :
    ∀ (l : List (Tr R)) (j : Nat), lanesCoh coh axes args j l →
      ∀ (i : Nat) (t : Tr R), l[i]? = some t → coh (laneArgs axes args (j + i)) t
  | [], j, _, i, t, h => by simp at h
  | t0 :: l, j, hc, i, t, h => by
      simp only [lanesCoh] at hc
      cases i with
      | zero =>
        simp only [List.getElem?_cons_zero, Option.some.injEq] at h
        subst h; exact hc.1
      | succ i =>
        simp only [List.getElem?_cons_succ] at h
        have := lanesCoh_get coh axes args l (j + 1) hc.2 i t h
        have e : j + 1 + i = j + (i + 1) := by omega
        rw [e] at this
        exact this

omit [Neg R] in
theorem stepsCoh_get (coh : List Val → Tr R → Prop) (xs : Val) :
    ∀ (l : List (Tr R)) (c : Val) (j : Nat) (cF : Val), stepsCoh coh xs c j l cF →
      ∀ (i : Nat) (t : Tr R), l[i]? = some t → coh [carryAt c l i, xs.nth (j + i)] t
  | [], c, j, cF, _, i, t, h => by simp at h
  | t0 :: l, c, j, cF, hc, i, t, h => by
      simp only [stepsCoh] at hc
      cases i with
      | zero =>
        simp only [List.getElem?_cons_zero, Option.some.injEq] at h
        subst h; exact hc.1
      | succ i =>
        simp only [List.getElem?_cons_succ] at h
        have := stepsCoh_get coh xs l _ (j + 1) cF hc.2 i t h
        have e : j + 1 + i = j + (i + 1) := by omega
        rw [e] at this
        simpa only [carryAt] using this

/-- `siteAt` is defined exactly at the leaves of the choice map (canonical coherent traces) -/
def AlignOK (g : GF) : Prop :=
  ∀ (args : List Val) (t : Tr R), g.Canon t → g.Coh P args t → ∀ y, t.choices = some y →
    ∀ p, (g.siteAt args t p).isSome = (y.leafAt p).isSome

theorem alignOK_all : ∀ g, AlignOK P g := by
  refine GF.induct_sites _ ?_ ?_ ?_ ?_ ?_
  · -- dist
    intro d0 args t hcan hcoh y hy p
    cases t <;> simp only [GF.Coh] at hcoh
    simp only [Tr.choices, Option.some.injEq] at hy
    subst hy
    cases p <;> simp [GF.siteAt, CM.leafAt]
  · -- fn
    intro body ih args t hcan hcoh y hy p
    cases t <;> simp only [GF.Coh] at hcoh
    rename_i subs r s
    simp only [GF.Canon] at hcan
    simp only [Tr.choices, Option.map_eq_some_iff] at hy
    obtain ⟨xl, hxl, rfl⟩ := hy
    match p with
    | [] => simp [GF.siteAt, CM.leafAt]
    | .idx i :: p => simp [GF.siteAt, CM.leafAt]
    | .key a :: p =>
      rw [fn_leafAt subs xl hxl]
      simp only [GF.siteAt]
      cases hsite : body.site a with
      | none =>
        rw [Body.siteAt_site_none body _ _ _ _ hsite, Body.canonL_site_none body subs hcan a hsite]
        rfl
      | some ge =>
        obtain ⟨g, es⟩ := ge
        obtain ⟨t1, h1, h2, h3⟩ := Body.coh_site P body args subs hcoh.1 a g es hsite
        obtain ⟨t0, ht0, hg⟩ := Body.canonL_site_some body subs hcan a g es hsite
        rw [h1] at ht0
        cases ht0
        obtain ⟨c1, hc1, _⟩ := TrL.choices_find subs xl hxl a t1 h1
        rw [h3 p, h1]
        simp only [Option.bind_some, hc1, CM.leafAt?]
        exact ih a g es hsite _ t1 hg h2 c1 hc1 p
  · -- vmap
    intro g axes n ih args t hcan hcoh y hy p
    cases t <;> simp only [GF.Coh] at hcoh
    rename_i lanes
    simp only [GF.Canon] at hcan
    simp only [Tr.choices, Option.map_eq_some_iff] at hy
    obtain ⟨xl, hxl, rfl⟩ := hy
    match p with
    | [] => simp [GF.siteAt, CM.leafAt]
    | .key a :: p => simp [GF.siteAt, CM.leafAt]
    | .idx i :: p =>
      rw [lanes_leafAt lanes xl hxl]
      simp only [GF.siteAt]
      cases hti : lanes.toList[i]? with
      | none => rfl
      | some ti =>
        obtain ⟨ci, hci, _⟩ := TrL.choices_get_some lanes xl hxl i ti hti
        simp only [Option.bind_some, hci, CM.leafAt?]
        have := lanesCoh_get _ axes args _ 0 hcoh.2 i ti hti
        simp only [Nat.zero_add] at this
        exact ih _ ti (lanesCanon_get _ lanes hcan i ti hti) this ci hci p
  · -- scan
    intro g n ih args t hcan hcoh y hy p
    cases t <;> simp only [GF.Coh] at hcoh
    rename_i steps c
    simp only [GF.Canon] at hcan
    simp only [Tr.choices, Option.map_eq_some_iff] at hy
    obtain ⟨xl, hxl, rfl⟩ := hy
    match p with
    | [] => simp [GF.siteAt, CM.leafAt]
    | .key a :: p => simp [GF.siteAt, CM.leafAt]
    | .idx i :: p =>
      rw [lanes_leafAt steps xl hxl]
      simp only [GF.siteAt]
      cases hti : steps.toList[i]? with
      | none => rfl
      | some ti =>
        obtain ⟨ci, hci, _⟩ := TrL.choices_get_some steps xl hxl i ti hti
        simp only [Option.bind_some, hci, CM.leafAt?]
        have := stepsCoh_get _ (args.getD 1 .nil) _ _ 0 c hcoh.2 i ti hti
        simp only [Nat.zero_add] at this
        exact ih _ ti (lanesCanon_get _ steps hcan i ti hti) this ci hci p
  · -- cond
    intro tg fg iht ihf args t hcan hcoh y hy p
    cases t <;> simp only [GF.Coh] at hcoh
    rename_i c a b
    simp only [GF.Canon] at hcan
    simp only [Tr.choices, Option.bind_eq_bind, Option.bind_eq_some_iff] at hy
    obtain ⟨ya, hya, yb, hyb, hm⟩ := hy
    simp only [GF.siteAt]
    rw [CM.mergeCheck_leafAt _ _ _ _ hm p, mergeOpt_isSome, mergeLeaf_isSome,
      iht _ a hcan.1 hcoh.2.1 ya hya p, ihf _ b hcan.2 hcoh.2.2 yb hyb p]

/-- merging two "is a draw" facts along a Cond -/
theorem draw_merge (c : Bool) {sa sb : Option (Nat × List Val)} {va vb : Option Val}
    (ha : sa.isSome = va.isSome) (hb : sb.isSome = vb.isSome)
    (ea : ∀ v, va = some v → ∃ d ps, sa = some (d, ps) ∧ v = P.draw d ps)
    (eb : ∀ v, vb = some v → ∃ d ps, sb = some (d, ps) ∧ v = P.draw d ps) :
    ∀ v, mergeLeaf c va vb = some v → ∃ d ps, mergeOpt c sa sb = some (d, ps) ∧ v = P.draw d ps := by
  intro v hv
  cases va with
  | none =>
    cases sa with
    | some x => simp at ha
    | none =>
      simp only [mergeLeaf_none_left] at hv
      simpa [mergeOpt] using eb v hv
  | some a =>
    obtain ⟨da, pa, rfl, ra⟩ := ea a rfl
    cases vb with
    | none =>
      cases sb with
      | some x => simp at hb
      | none =>
        simp only [mergeLeaf_none_right, Option.some.injEq] at hv
        subst hv
        exact ⟨da, pa, rfl, ra⟩
    | some b =>
      obtain ⟨db, pb, rfl, rb⟩ := eb b rfl
      simp only [mergeLeaf, Option.some.injEq] at hv
      subst hv
      cases c
      · exact ⟨db, pb, rfl, rb⟩
      · exact ⟨da, pa, rfl, ra⟩

end Coh

/-! ## regenerate: every selected address holds a fresh draw -/

section Regen
variable {R : Type} [AddCommGroup R] (P : Prims R) (cfg : Cfg)

def RegenDrawOK (g : GF) : Prop :=
  ∀ (t : Tr R) (s : Sel) (args : List Val) (t' : Tr R) (w : R) (d : Option CM),
    g.regenerate P cfg t s args = some (t', w, d) →
    ∀ y', t'.choices = some y' → ∀ p, s.selectedPath p = true → ∀ v, y'.leafAt p = some v →
      ∃ d0 ps, g.siteAt args t' p = some (d0, ps) ∧ v = P.draw d0 ps

theorem regenDraw_lanes (g : GF) (IH : RegenDrawOK P cfg g) {old : TrL R} {s : Sel}
    {rs : List (Upd R)} {A : Nat → List Val} (hL : LanesRegen P cfg g s old rs A)
    (xl' : CML) (hxl' : (TrL.ofList (rs.map (·.1))).choices = some xl')
    (site : Path → Option (Nat × List Val))
    (hsite : ∀ (i : Nat) ti' p, (rs.map (·.1))[i]? = some ti' →
      site (.idx i :: p) = g.siteAt (A i) ti' p) :
    ∀ p, s.selectedPath p = true → ∀ v, (CM.lanes xl').leafAt p = some v →
      ∃ d0 ps, site p = some (d0, ps) ∧ v = P.draw d0 ps := by
  intro p hsel v hv
  match p with
  | [] => simp [CM.leafAt] at hv
  | .key k :: p => simp [CM.leafAt] at hv
  | .idx i :: p =>
    rw [lanes_leafAt _ xl' hxl', TrL.toList_ofList] at hv
    cases hri : (rs.map (·.1))[i]? with
    | none => rw [hri] at hv; simp [CM.leafAt?] at hv
    | some ti' =>
      rw [hsite i ti' p hri]
      rw [hri] at hv
      have hi : i < old.toList.length := by
        have := (List.getElem?_eq_some_iff.mp hri).1
        simpa [hL.1] using this
      obtain ⟨b, hb, hu⟩ := hL.2 i old.toList[i] (by simp [hi])
      rw [List.getElem?_map, hb] at hri
      simp only [Option.map_some, Option.some.injEq] at hri
      subst hri
      simp only [Option.bind_some] at hv
      cases hc : b.1.choices with
      | none => rw [hc] at hv; simp [CM.leafAt?] at hv
      | some ci' =>
        rw [hc] at hv
        exact IH _ s (A i) b.1 b.2.1 b.2.2 hu ci' hc p hsel v hv

theorem regenDrawOK_all : ∀ g, RegenDrawOK P cfg g := by
  refine GF.induct_sites _ ?_ ?_ ?_ ?_ ?_
  · -- dist
    intro d0 t s args t' w d h y' hy' p hsel v hv
    obtain ⟨vOld, sOld, vNew, sNew, rfl, rfl, hcase⟩ := rg_dist_inv P cfg h
    simp only [Tr.choices, Option.some.injEq] at hy'
    subst hy'
    match p with
    | [] =>
      rw [Sel.selectedPath_nil] at hsel
      simp only [CM.leafAt, Option.some.injEq] at hv
      subst hv
      rcases hcase with ⟨_, rfl, _⟩ | ⟨hl, _, _⟩
      · exact ⟨d0, args, rfl, rfl⟩
      · rw [hl] at hsel; cases hsel
    | _ :: _ => simp [CM.leafAt] at hv
  · -- fn
    intro body ih t s args t' w d h y' hy' p hsel v hv
    have hcoh := regenerate_coh P cfg _ _ _ _ _ _ _ h
    obtain ⟨old, r0, s0, subs, r, sc, d', rfl, hb, rfl, rfl⟩ := rg_fn_inv P cfg h
    simp only [GF.Coh] at hcoh
    simp only [Tr.choices, Option.map_eq_some_iff] at hy'
    obtain ⟨xl', hxl', rfl⟩ := hy'
    match p with
    | [] => simp [CM.leafAt] at hv
    | .idx i :: p => simp [CM.leafAt] at hv
    | .key a :: p =>
      rw [fn_leafAt subs xl' hxl'] at hv
      rw [Sel.selectedPath_key] at hsel
      obtain ⟨hs1, hs2⟩ := Body.regenerate_sites_top P cfg hb
      cases hsite : body.site a with
      | none =>
        rw [(hs1 a hsite).1] at hv
        simp [CM.leafAt?] at hv
      | some ge =>
        obtain ⟨g, es⟩ := ge
        obtain ⟨sub, t1, w1, d1, hsub, hu, hfF, hdF⟩ := hs2 a g es hsite
        obtain ⟨t1', h1, _, h3⟩ := Body.coh_site P body args subs hcoh.1 a g es hsite
        rw [hfF] at h1
        cases h1
        rw [hfF] at hv
        simp only [Option.bind_some] at hv
        cases hc : t1.choices with
        | none => rw [hc] at hv; simp [CM.leafAt?] at hv
        | some c1 =>
          rw [hc] at hv
          simp only [GF.siteAt]
          rw [h3 p]
          exact ih a g es hsite _ _ _ _ _ _ hu c1 hc p hsel v hv
  · -- vmap
    intro g axes n ih t s args t' w d h y' hy' p hsel v hv
    obtain ⟨old, rs, rfl, hL, rfl, rfl⟩ := rg_vmap_inv P cfg h
    simp only [Tr.choices, Option.map_eq_some_iff] at hy'
    obtain ⟨xl', hxl', rfl⟩ := hy'
    refine regenDraw_lanes P cfg g ih hL xl' hxl' _ ?_ p hsel v hv
    intro i ti' p hri
    simp only [GF.siteAt, TrL.toList_ofList, hri]
  · -- scan
    intro g n ih t s args t' w d h y' hy' p hsel v hv
    obtain ⟨old, c0, rs, c, rfl, hL, rfl, rfl⟩ := rg_scan_inv P cfg h
    simp only [Tr.choices, Option.map_eq_some_iff] at hy'
    obtain ⟨xl', hxl', rfl⟩ := hy'
    refine regenDraw_lanes P cfg g ih hL xl' hxl' _ ?_ p hsel v hv
    intro i ti' p hri
    simp only [GF.siteAt, TrL.toList_ofList, hri]
  · -- cond
    intro tg fg iht ihf t s args t' w d h y' hy' p hsel v hv
    obtain ⟨cOld, a, b, a', wa, da, b', wb, db, rfl, ha, hb, rfl, _⟩ := rg_cond_inv P cfg h
    simp only [Tr.choices, Option.bind_eq_bind, Option.bind_eq_some_iff] at hy'
    obtain ⟨ya', hya', yb', hyb', hm'⟩ := hy'
    rw [CM.mergeCheck_leafAt _ _ _ _ hm' p] at hv
    simp only [GF.siteAt]
    exact draw_merge P _
      (alignOK_all P tg _ a' (regenerate_canon P cfg tg _ _ _ _ _ _ ha)
        (regenerate_coh P cfg tg _ _ _ _ _ _ ha) ya' hya' p)
      (alignOK_all P fg _ b' (regenerate_canon P cfg fg _ _ _ _ _ _ hb)
        (regenerate_coh P cfg fg _ _ _ _ _ _ hb) yb' hyb' p)
      (fun v hv => iht _ _ _ _ _ _ ha ya' hya' p hsel v hv)
      (fun v hv => ihf _ _ _ _ _ _ hb yb' hyb' p hsel v hv) v hv

/-- C04: every value visible at a selected address of the regenerated trace is the sampler's draw
    `P.draw d params` for the Distribution `d` at that address and the parameters `params` that the
    program computes from the NEW trace's own values under the new arguments (`GF.siteAt`) — a fresh
    draw from the conditional prior given the new parent values.  Every program (Cond at any depth,
    also across branch switches), every selection, arguments, `cfg`. -/
theorem regenerate_selected_are_draws (g : GF) (t : Tr R) (s : Sel) (args : List Val)
    (t' : Tr R) (w : R) (d : Option CM) (h : g.regenerate P cfg t s args = some (t', w, d))
    (y' : CM) (hy' : t'.choices = some y') (p : Path) (hp : s.selectedPath p = true)
    (v : Val) (hv : y'.leafAt p = some v) :
    ∃ d0 ps, g.siteAt args t' p = some (d0, ps) ∧ v = P.draw d0 ps :=
  regenDrawOK_all P cfg g t s args t' w d h y' hy' p hp v hv

end Regen

/-! ## simulate and generate: every unconstrained address holds a fresh draw -/

section Loops
variable {α β : Type}

theorem forLanes_get_out (f : Nat → α → Option β) (l : List α) (i : Nat) (bs : List β)
    (h : forLanes f i l = some bs) (j : Nat) (b : β) (hb : bs[j]? = some b) :
    ∃ a, l[j]? = some a ∧ f (i + j) a = some b := by
  have hj : j < l.length := by
    rw [← forLanes_length f l i bs h]; exact (List.getElem?_eq_some_iff.mp hb).1
  obtain ⟨b', hb', hf⟩ := forLanes_get f l i bs h j l[j] (by simp [hj])
  rw [hb] at hb'
  cases hb'
  exact ⟨l[j], by simp [hj], hf⟩

theorem forSteps_get_carry_out (f : Val → Nat → α → Option (β × Val)) (nxt : β → Val)
    (hf : ∀ c i a b c', f c i a = some (b, c') → c' = nxt b)
    (l : List α) (c : Val) (i : Nat) (bs : List β) (c' : Val)
    (h : forSteps f c i l = some (bs, c')) (j : Nat) (b : β) (hb : bs[j]? = some b) :
    ∃ a cj', l[j]? = some a ∧ f (carryG nxt c bs j) (i + j) a = some (b, cj') := by
  have hj : j < l.length := by
    rw [← forSteps_length f l c i bs c' h]; exact (List.getElem?_eq_some_iff.mp hb).1
  obtain ⟨b', cj', hb', hf'⟩ := forSteps_get_carry f nxt hf l c i bs c' h j l[j] (by simp [hj])
  rw [hb] at hb'
  cases hb'
  exact ⟨l[j], cj', by simp [hj], hf'⟩

end Loops

section SimGen
variable {R : Type} [AddCommGroup R] (P : Prims R) (cfg : Cfg)

/-- lanes / steps, generic: if every lane's visible values at the paths `ok i ·` are draws, so are
    the vectorised trace's -/
theorem draw_lanes (g : GF) (ts : List (Tr R)) (xl : CML)
    (hxl : (TrL.ofList ts).choices = some xl) (site : Path → Option (Nat × List Val))
    (A : Nat → List Val)
    (hsite : ∀ (i : Nat) ti p, ts[i]? = some ti → site (.idx i :: p) = g.siteAt (A i) ti p)
    (ok : Nat → Path → Prop)
    (hlane : ∀ (i : Nat) ti ci, ts[i]? = some ti → ti.choices = some ci → ∀ p, ok i p →
      ∀ v, ci.leafAt p = some v → ∃ d0 ps, g.siteAt (A i) ti p = some (d0, ps) ∧ v = P.draw d0 ps) :
    ∀ (i : Nat) p, ok i p → ∀ v, (CM.lanes xl).leafAt (.idx i :: p) = some v →
      ∃ d0 ps, site (.idx i :: p) = some (d0, ps) ∧ v = P.draw d0 ps := by
  intro i p hok v hv
  rw [lanes_leafAt _ xl hxl, TrL.toList_ofList] at hv
  cases hti : ts[i]? with
  | none => rw [hti] at hv; simp [CM.leafAt?] at hv
  | some ti =>
    rw [hti] at hv
    simp only [Option.bind_some] at hv
    rw [hsite i ti p hti]
    cases hc : ti.choices with
    | none => rw [hc] at hv; simp [CM.leafAt?] at hv
    | some ci =>
      rw [hc] at hv
      exact hlane i ti ci hti hc p hok v hv

/-! ### simulate -/

def SimSite (a : String) (g : GF) (es : List Expr) (subsF : TrL R) (env' : List Val) : Prop :=
  ∃ t1, g.simulate P (es.map (·.eval env')) = some t1 ∧ subsF.find? a = some t1

theorem Body.simulate_sites : ∀ (b : Body) (env : List Val) (subs : TrL R) (s : R)
    (subsF : TrL R) (r : Val) (sF : R),
    b.simulate P env subs s = some (subsF, r, sF) →
    (∀ a, subs.find? a = none → b.site a = none → subsF.find? a = none) ∧
    (∀ a g es, subs.find? a = none → b.site a = some (g, es) →
      SimSite P a g es subsF (b.envAt env subsF a))
  | .ret e, env, subs, s, subsF, r, sF, h => by
      simp only [Body.simulate, Option.some.injEq, Prod.mk.injEq] at h
      obtain ⟨rfl, _⟩ := h
      refine ⟨fun a ha _ => ha, fun a g es _ hs => ?_⟩
      simp [Body.site] at hs
  | .call addr g0 es0 rest, env, subs, s, subsF, r, sF, h => by
      have hmono := (body_simulate_inv P _ _ _ _ _ _ _ h).1
      simp only [Body.simulate] at h
      split at h
      · exact absurd h (by simp)
      rename_i hn
      have hn' : subs.find? addr = none := by simpa using hn
      simp only [Option.bind_eq_bind, Option.bind_eq_some_iff] at h
      obtain ⟨t1, h1, h2⟩ := h
      obtain ⟨ih2, ih3⟩ := Body.simulate_sites rest _ _ _ _ _ _ h2
      have hself : (subs.snoc addr t1).find? addr = some t1 := TrL.find?_snoc_self hn'
      have hfa : subsF.find? addr = some t1 :=
        (body_simulate_inv P _ _ _ _ _ _ _ h2).1 addr t1 hself
      refine ⟨?_, ?_⟩
      · intro a ha hs
        simp only [Body.site] at hs
        split at hs
        · simp at hs
        rename_i hne
        exact ih2 a (by rw [TrL.find?_snoc_ne _ _ _ _ hne]; exact ha) hs
      · intro a g es ha hs
        simp only [Body.site] at hs
        split at hs
        · rename_i he
          subst he
          simp only [Option.some.injEq, Prod.mk.injEq] at hs
          obtain ⟨rfl, rfl⟩ := hs
          simp only [Body.envAt, if_true]
          exact ⟨t1, h1, hfa⟩
        · rename_i hne
          simp only [Body.envAt, hne, if_false, hfa]
          exact ih3 a g es (by rw [TrL.find?_snoc_ne _ _ _ _ hne]; exact ha) hs

def SimDrawOK (g : GF) : Prop :=
  ∀ (args : List Val) (t : Tr R), g.simulate P args = some t →
    ∀ y, t.choices = some y → ∀ p v, y.leafAt p = some v →
      ∃ d0 ps, g.siteAt args t p = some (d0, ps) ∧ v = P.draw d0 ps

theorem simDrawOK_all : ∀ g, SimDrawOK P g := by
  refine GF.induct_sites _ ?_ ?_ ?_ ?_ ?_
  · -- dist
    intro d0 args t h y hy p v hv
    simp only [GF.simulate, Option.some.injEq] at h
    subst h
    simp only [Tr.choices, Option.some.injEq] at hy
    subst hy
    match p with
    | [] =>
      simp only [CM.leafAt, Option.some.injEq] at hv
      exact ⟨d0, args, rfl, hv.symm⟩
    | _ :: _ => simp [CM.leafAt] at hv
  · -- fn
    intro body ih args t h y hy p v hv
    have hcoh := simulate_coh P _ _ _ h
    simp only [GF.simulate, Option.bind_eq_bind, Option.bind_eq_some_iff, Option.pure_def,
      Option.some.injEq] at h
    obtain ⟨⟨subs, r, s⟩, hb, rfl⟩ := h
    simp only [GF.Coh] at hcoh
    simp only [Tr.choices, Option.map_eq_some_iff] at hy
    obtain ⟨xl, hxl, rfl⟩ := hy
    match p with
    | [] => simp [CM.leafAt] at hv
    | .idx i :: p => simp [CM.leafAt] at hv
    | .key a :: p =>
      rw [fn_leafAt subs xl hxl] at hv
      obtain ⟨hs1, hs2⟩ := Body.simulate_sites P body _ _ _ _ _ _ hb
      cases hsite : body.site a with
      | none =>
        rw [hs1 a rfl hsite] at hv
        simp [CM.leafAt?] at hv
      | some ge =>
        obtain ⟨g, es⟩ := ge
        obtain ⟨t1, hu, hfF⟩ := hs2 a g es rfl hsite
        obtain ⟨t1', h1, _, h3⟩ := Body.coh_site P body args subs hcoh.1 a g es hsite
        rw [hfF] at h1
        cases h1
        rw [hfF] at hv
        simp only [Option.bind_some] at hv
        cases hc : t1.choices with
        | none => rw [hc] at hv; simp [CM.leafAt?] at hv
        | some c1 =>
          rw [hc] at hv
          simp only [GF.siteAt]
          rw [h3 p]
          exact ih a g es hsite _ _ hu c1 hc p v hv
  · -- vmap
    intro g axes n ih args t h y hy p v hv
    simp only [GF.simulate, Option.bind_eq_bind, Option.bind_eq_some_iff, Option.pure_def,
      Option.some.injEq] at h
    obtain ⟨ts, hts, rfl⟩ := h
    simp only [Tr.choices, Option.map_eq_some_iff] at hy
    obtain ⟨xl, hxl, rfl⟩ := hy
    match p with
    | [] => simp [CM.leafAt] at hv
    | .key k :: p => simp [CM.leafAt] at hv
    | .idx i :: p =>
      refine draw_lanes P g ts xl hxl _ (fun i => laneArgs axes args i) ?_ (fun _ _ => True) ?_
        i p trivial v hv
      · intro i ti p hti
        simp only [GF.siteAt, TrL.toList_ofList, hti]
      · intro i ti ci hti hci p _ v hv
        obtain ⟨_, _, hf⟩ := forLanes_get_out _ _ _ _ hts i ti hti
        simp only [Nat.zero_add] at hf
        exact ih _ _ hf ci hci p v hv
  · -- scan
    intro g n ih args t h y hy p v hv
    simp only [GF.simulate, Option.bind_eq_bind, Option.bind_eq_some_iff, Option.pure_def,
      Option.some.injEq] at h
    obtain ⟨⟨ts, c⟩, hts, rfl⟩ := h
    simp only [Tr.choices, Option.map_eq_some_iff] at hy
    obtain ⟨xl, hxl, rfl⟩ := hy
    match p with
    | [] => simp [CM.leafAt] at hv
    | .key k :: p => simp [CM.leafAt] at hv
    | .idx i :: p =>
      refine draw_lanes P g ts xl hxl _
        (fun i => [carryAt (args.getD 0 .nil) ts i, (args.getD 1 .nil).nth i]) ?_
        (fun _ _ => True) ?_ i p trivial v hv
      · intro i ti p hti
        simp only [GF.siteAt, TrL.toList_ofList, hti]
      · intro i ti ci hti hci p _ v hv
        obtain ⟨_, cj', _, hf⟩ := forSteps_get_carry_out _ (fun t : Tr R => t.retval.fst) (by
          intro c i a b c' hf
          simp only [Option.bind_eq_bind, Option.bind_eq_some_iff, Option.pure_def,
            Option.some.injEq, Prod.mk.injEq] at hf
          obtain ⟨t1, _, rfl, rfl⟩ := hf
          rfl) _ _ _ _ _ hts i ti hti
        simp only [Option.bind_eq_bind, Option.bind_eq_some_iff, Option.pure_def,
          Option.some.injEq, Prod.mk.injEq, Nat.zero_add] at hf
        obtain ⟨t1, h1, rfl, _⟩ := hf
        have hc := carryG_eq_carryAt (fun t : Tr R => t) ts (args.getD 0 .nil) i
        simp only [List.map_id'] at hc
        rw [hc] at h1
        exact ih _ _ h1 ci hci p v hv
  · -- cond
    intro tg fg iht ihf args t h y hy p v hv
    simp only [GF.simulate, Option.bind_eq_bind, Option.bind_eq_some_iff, Option.pure_def,
      Option.some.injEq] at h
    obtain ⟨a, ha, b, hb, rfl⟩ := h
    simp only [Tr.choices, Option.bind_eq_bind, Option.bind_eq_some_iff] at hy
    obtain ⟨ya, hya, yb, hyb, hm⟩ := hy
    rw [CM.mergeCheck_leafAt _ _ _ _ hm p] at hv
    simp only [GF.siteAt]
    exact draw_merge P _
      (alignOK_all P tg _ a (simulate_canon P tg _ _ ha) (simulate_coh P tg _ _ ha) ya hya p)
      (alignOK_all P fg _ b (simulate_canon P fg _ _ hb) (simulate_coh P fg _ _ hb) yb hyb p)
      (fun v hv => iht _ _ ha ya hya p v hv) (fun v hv => ihf _ _ hb yb hyb p v hv) v hv

/-- C01 / C02: every value of a simulated trace's choice map is the sampler's draw for the
    parameters the program computes from the trace's own values — every program. -/
theorem simulate_are_draws (g : GF) (args : List Val) (t : Tr R) (h : g.simulate P args = some t)
    (y : CM) (hy : t.choices = some y) (p : Path) (v : Val) (hv : y.leafAt p = some v) :
    ∃ d0 ps, g.siteAt args t p = some (d0, ps) ∧ v = P.draw d0 ps :=
  simDrawOK_all P g args t h y hy p v hv

/-! ### generate -/

def GenDrawOK (g : GF) : Prop :=
  ∀ (x : Option CM) (args : List Val) (t : Tr R) (w : R),
    g.generate P cfg x args = some (t, w) →
    ∀ y, t.choices = some y → ∀ p, CM.leafAt? x p = none → ∀ v, y.leafAt p = some v →
      ∃ d0 ps, g.siteAt args t p = some (d0, ps) ∧ v = P.draw d0 ps

theorem getElem?_map_fst {α β : Type} (ts : List (α × β)) (i : Nat) (a : α)
    (h : (ts.map (·.1))[i]? = some a) : ∃ b, ts[i]? = some b ∧ b.1 = a := by
  rw [List.getElem?_map] at h
  cases hb : ts[i]? with
  | none => rw [hb] at h; simp at h
  | some b => rw [hb] at h; exact ⟨b, rfl, by simpa using h⟩

theorem genDrawOK_all : ∀ g, GenDrawOK P cfg g := by
  refine GF.induct_sites _ ?_ ?_ ?_ ?_ ?_
  · -- dist
    intro d0 x args t w h y hy p hx v hv
    cases x with
    | none =>
      simp only [GF.generate, Option.some.injEq, Prod.mk.injEq] at h
      obtain ⟨rfl, _⟩ := h
      simp only [Tr.choices, Option.some.injEq] at hy
      subst hy
      match p with
      | [] =>
        simp only [CM.leafAt, Option.some.injEq] at hv
        exact ⟨d0, args, rfl, hv.symm⟩
      | _ :: _ => simp [CM.leafAt] at hv
    | some c =>
      obtain ⟨v0, s0, rfl, rfl⟩ := gen_dist_inv P cfg h
      simp only [Tr.choices, Option.some.injEq] at hy
      subst hy
      match p with
      | [] => simp [CM.leafAt?, CM.leafAt] at hx
      | _ :: _ => simp [CM.leafAt] at hv
  · -- fn
    intro body ih x args t w h y hy p hx v hv
    cases x with
    | none =>
      simp only [GF.generate, Option.bind_eq_bind, Option.bind_eq_some_iff, Option.pure_def,
        Option.some.injEq, Prod.mk.injEq] at h
      obtain ⟨⟨subs, r, s⟩, hb, rfl, _⟩ := h
      exact simulate_are_draws P (.fn body) args _ (by simp [GF.simulate, hb]) y hy p v hv
    | some c =>
      have hcoh := generate_coh P cfg _ _ _ _ _ h
      obtain ⟨kids, subs, r, s, rfl, hb, rfl⟩ := gen_fn_inv P cfg h
      simp only [GF.Coh] at hcoh
      simp only [Tr.choices, Option.map_eq_some_iff] at hy
      obtain ⟨xl, hxl, rfl⟩ := hy
      match p with
      | [] => simp [CM.leafAt] at hv
      | .idx i :: p => simp [CM.leafAt] at hv
      | .key a :: p =>
        rw [fn_leafAt subs xl hxl] at hv
        simp only [CM.leafAt?, CM.leafAt_node_key] at hx
        obtain ⟨hs1, hs2⟩ := Body.generate_sites P cfg body _ _ _ _ _ _ _ _ _ hb
        cases hsite : body.site a with
        | none =>
          rw [hs1 a rfl hsite] at hv
          simp [CM.leafAt?] at hv
        | some ge =>
          obtain ⟨g, es⟩ := ge
          obtain ⟨t1, w1, hu, hfF⟩ := hs2 a g es rfl hsite
          obtain ⟨t1', h1, _, h3⟩ := Body.coh_site P body args subs hcoh.1 a g es hsite
          rw [hfF] at h1
          cases h1
          rw [hfF] at hv
          simp only [Option.bind_some] at hv
          cases hc : t1.choices with
          | none => rw [hc] at hv; simp [CM.leafAt?] at hv
          | some c1 =>
            rw [hc] at hv
            simp only [GF.siteAt]
            rw [h3 p]
            refine ih a g es hsite _ _ _ _ hu c1 hc p ?_ v hv
            cases hk : kids.find? a with
            | none => rfl
            | some ck => rw [hk] at hx; simpa [CM.leafAt?] using hx
  · -- vmap
    intro g axes n ih x args t w h y hy p hx v hv
    have key : ∀ (ts : List (Tr R × R)) (l : List (Option CM)),
        (∀ (i : Nat) b, ts[i]? = some b →
          g.generate P cfg ((l[i]?).getD none) (laneArgs axes args i) = some b) →
        (∀ (i : Nat) p, CM.leafAt? x (.idx i :: p) = CM.leafAt? ((l[i]?).getD none) p) →
        t = .vec (TrL.ofList (ts.map (·.1))) →
        ∃ d0 ps, (GF.vmap g axes n).siteAt args t p = some (d0, ps) ∧ v = P.draw d0 ps := by
      intro ts l hget hxl rfl
      simp only [Tr.choices, Option.map_eq_some_iff] at hy
      obtain ⟨xl, hxl', rfl⟩ := hy
      match p with
      | [] => simp [CM.leafAt] at hv
      | .key k :: p => simp [CM.leafAt] at hv
      | .idx i :: p =>
        refine draw_lanes P g (ts.map (·.1)) xl hxl' _ (fun i => laneArgs axes args i) ?_
          (fun i p => CM.leafAt? ((l[i]?).getD none) p = none) ?_ i p
          (by rw [← hxl i p]; exact hx) v hv
        · intro i ti p hti
          simp only [GF.siteAt, TrL.toList_ofList, hti]
        · intro i ti ci hti hci p hok v hv
          obtain ⟨b, hb, rfl⟩ := getElem?_map_fst ts i ti hti
          exact ih _ _ _ _ (hget i b hb) ci hci p hok v hv
    cases x with
    | none =>
      simp only [GF.generate] at h
      split at h
      · simp only [Option.bind_eq_bind, Option.bind_eq_some_iff, Option.pure_def,
          Option.some.injEq, Prod.mk.injEq] at h
        obtain ⟨ts, hts, rfl, _⟩ := h
        refine key ts [] ?_ (fun i p => by simp [CM.leafAt?]) rfl
        intro i b hb
        obtain ⟨_, _, hf⟩ := forLanes_get_out _ _ _ _ hts i b hb
        simpa using hf
      · exact absurd h (by simp)
    | some c =>
      cases c with
      | lanes l =>
        simp only [GF.generate, Option.bind_eq_bind, Option.bind_eq_some_iff, Option.pure_def,
          Option.some.injEq, Prod.mk.injEq] at h
        obtain ⟨u, hlen, ts, hts, rfl, _⟩ := h
        refine key ts (l.toList.map some) ?_ (fun i p => ?_) rfl
        · intro i b hb
          obtain ⟨xi, hxi, hf⟩ := forLanes_get_out _ _ _ _ hts i b hb
          simpa [hxi] using hf
        · simp only [CM.leafAt?, CM.leafAt_lanes_idx, List.getElem?_map]
          cases l.toList[i]? <;> rfl
      | _ => simp [GF.generate] at h
  · -- scan
    intro g n ih x args t w h y hy p hx v hv
    have key : ∀ (ts : List (Tr R × R)) (l : List (Option CM)) (cF : Val),
        (∀ (i : Nat) b, ts[i]? = some b →
          g.generate P cfg ((l[i]?).getD none)
            [carryAt (args.getD 0 .nil) (ts.map (·.1)) i, (args.getD 1 .nil).nth i] = some b) →
        (∀ (i : Nat) p, CM.leafAt? x (.idx i :: p) = CM.leafAt? ((l[i]?).getD none) p) →
        t = .scan (TrL.ofList (ts.map (·.1))) cF →
        ∃ d0 ps, (GF.scan g n).siteAt args t p = some (d0, ps) ∧ v = P.draw d0 ps := by
      intro ts l cF hget hxl rfl
      simp only [Tr.choices, Option.map_eq_some_iff] at hy
      obtain ⟨xl, hxl', rfl⟩ := hy
      match p with
      | [] => simp [CM.leafAt] at hv
      | .key k :: p => simp [CM.leafAt] at hv
      | .idx i :: p =>
        refine draw_lanes P g (ts.map (·.1)) xl hxl' _
          (fun i => [carryAt (args.getD 0 .nil) (ts.map (·.1)) i, (args.getD 1 .nil).nth i]) ?_
          (fun i p => CM.leafAt? ((l[i]?).getD none) p = none) ?_ i p
          (by rw [← hxl i p]; exact hx) v hv
        · intro i ti p hti
          simp only [GF.siteAt, TrL.toList_ofList, hti]
        · intro i ti ci hti hci p hok v hv
          obtain ⟨b, hb, rfl⟩ := getElem?_map_fst ts i ti hti
          exact ih _ _ _ _ (hget i b hb) ci hci p hok v hv
    have hnxt : ∀ (xo : Nat → Option CM) (c : Val) (i : Nat) (b : Tr R × R) (c' : Val),
        (do let (t, w) ← g.generate P cfg (xo i) [c, (args.getD 1 .nil).nth i]
            pure ((t, w), t.retval.fst) : Option ((Tr R × R) × Val)) = some (b, c') →
        c' = b.1.retval.fst ∧ g.generate P cfg (xo i) [c, (args.getD 1 .nil).nth i] = some b := by
      intro xo c i b c' hf
      simp only [Option.bind_eq_bind, Option.bind_eq_some_iff, Option.pure_def,
        Option.some.injEq, Prod.mk.injEq] at hf
      obtain ⟨⟨t1, w1⟩, h1, rfl, rfl⟩ := hf
      exact ⟨rfl, h1⟩
    cases x with
    | none =>
      simp only [GF.generate, Option.bind_eq_bind, Option.bind_eq_some_iff, Option.pure_def,
        Option.some.injEq, Prod.mk.injEq] at h
      obtain ⟨⟨ts, cF⟩, hts, rfl, _⟩ := h
      refine key ts [] cF ?_ (fun i p => by simp [CM.leafAt?]) rfl
      intro i b hb
      obtain ⟨_, cj', _, hf⟩ := forSteps_get_carry_out _ (fun b : Tr R × R => b.1.retval.fst)
        (fun c i a b c' hf => (hnxt (fun _ => none) c i b c' hf).1) _ _ _ _ _ hts i b hb
      have := (hnxt (fun _ => none) _ _ b cj' hf).2
      rw [carryG_eq_carryAt (fun b : Tr R × R => b.1)] at this
      simpa using this
    | some c =>
      cases c with
      | lanes l =>
        simp only [GF.generate, Option.bind_eq_bind, Option.bind_eq_some_iff, Option.pure_def,
          Option.some.injEq, Prod.mk.injEq] at h
        obtain ⟨u, hlen, ⟨ts, cF⟩, hts, rfl, _⟩ := h
        refine key ts (l.toList.map some) cF ?_ (fun i p => ?_) rfl
        · intro i b hb
          obtain ⟨xi, cj', hxi, hf⟩ := forSteps_get_carry_out _
            (fun b : Tr R × R => b.1.retval.fst) (by
              intro c i a b c' hf
              simp only [Option.bind_eq_bind, Option.bind_eq_some_iff, Option.pure_def,
                Option.some.injEq, Prod.mk.injEq] at hf
              obtain ⟨⟨t1, w1⟩, _, rfl, rfl⟩ := hf
              rfl) _ _ _ _ _ hts i b hb
          simp only [Option.bind_eq_bind, Option.bind_eq_some_iff, Option.pure_def,
            Option.some.injEq, Prod.mk.injEq, Nat.zero_add] at hf
          obtain ⟨⟨t1, w1⟩, h1, rfl, _⟩ := hf
          have hc := carryG_eq_carryAt (fun b : Tr R × R => b.1) ts (args.getD 0 .nil) i
          rw [hc] at h1
          simpa [hxi] using h1
        · simp only [CM.leafAt?, CM.leafAt_lanes_idx, List.getElem?_map]
          cases l.toList[i]? <;> rfl
      | _ => simp [GF.generate] at h
  · -- cond
    intro tg fg iht ihf x args t w h y hy p hx v hv
    cases x with
    | none =>
      simp only [GF.generate, Option.bind_eq_bind, Option.bind_eq_some_iff, Option.pure_def,
        Option.some.injEq, Prod.mk.injEq] at h
      obtain ⟨a, ha, b, hb, rfl, _⟩ := h
      exact simulate_are_draws P (.cond tg fg) args _ (by simp only [GF.simulate, ha, hb]; rfl) y hy p v hv
    | some c =>
      obtain ⟨a, wa, b, wb, ha, hb, rfl, _⟩ := gen_cond_inv P cfg h
      simp only [Tr.choices, Option.bind_eq_bind, Option.bind_eq_some_iff] at hy
      obtain ⟨ya, hya, yb, hyb, hm⟩ := hy
      rw [CM.mergeCheck_leafAt _ _ _ _ hm p] at hv
      simp only [GF.siteAt]
      exact draw_merge P _
        (alignOK_all P tg _ a (generate_canon P cfg tg _ _ _ _ ha)
          (generate_coh P cfg tg _ _ _ _ ha) ya hya p)
        (alignOK_all P fg _ b (generate_canon P cfg fg _ _ _ _ hb)
          (generate_coh P cfg fg _ _ _ _ hb) yb hyb p)
        (fun v hv => iht _ _ _ _ ha ya hya p hx v hv)
        (fun v hv => ihf _ _ _ _ hb yb hyb p hx v hv) v hv

/-- C02: every value of the generated trace's choice map at an address the constraint does not
    mention is the sampler's draw `P.draw d params` for the Distribution `d` at that address and the
    parameters the program computes from the trace's own values (`GF.siteAt`) — a draw from the
    conditional prior given the values it depends on.  EVERY program (Cond at any depth: not just
    the Cond-free `_partial` version), every constraint map, arguments, `cfg`. -/
theorem generate_unconstrained_are_draws (g : GF) (x : Option CM) (args : List Val) (t : Tr R)
    (w : R) (h : g.generate P cfg x args = some (t, w)) (y : CM) (hy : t.choices = some y)
    (p : Path) (hx : CM.leafAt? x p = none) (v : Val) (hv : y.leafAt p = some v) :
    ∃ d0 ps, g.siteAt args t p = some (d0, ps) ∧ v = P.draw d0 ps :=
  genDrawOK_all P cfg g x args t w h y hy p hx v hv

end SimGen

end Genjax
