import GenjaxModel.Model.AdevProg
import GenjaxModel.Proofs.Adev
import GenjaxModel.Proofs.Smc
import Mathlib.Data.List.GetD
/-!
  C11, compositions: the estimator `Prog.est` the ADEV interpreter computes for a discrete program
  with ANY number of sites and ANY mix of strategies is unbiased for `Prog.exact` (value and
  derivative).  Induction on the program; the step is the tower property (`E_bind`) plus the fact
  that every primitive is affine in each continuation estimate it consumes.
-/

set_option linter.unusedSectionVars false
set_option linter.unusedVariables false
set_option linter.unusedSimpArgs false

namespace Genjax.Adev
open Genjax.Smc.FinDist (E mass pure bind)
open Genjax.Smc (FinDist E_bind E_pure E_cons E_nil E_add E_mul_left E_mul_right E_const
  E_congr_supp mass_sequence supp)

variable {K : Type} [Field K]

/-! ### more algebra of `E` -/

theorem E_neg {α : Type} (d : FinDist K α) (f : α → K) : E d (fun a => -f a) = -E d f := by
  have := E_mul_left d (-1) f
  simpa only [neg_mul, one_mul] using this

theorem E_sub {α : Type} (d : FinDist K α) (f g : α → K) :
    E d (fun a => f a - g a) = E d f - E d g := by
  simp only [sub_eq_add_neg, E_add, E_neg]

theorem mass_pure {α : Type} (a : α) : mass (pure a : FinDist K α) = 1 := by
  simp only [mass, E_pure]

theorem mass_bind {α β : Type} (d : FinDist K α) (f : α → FinDist K β) :
    mass (bind d f) = E d (fun a => mass (f a)) := by
  simp only [mass, E_bind]

theorem mass_bind_one {α β : Type} (d : FinDist K α) (f : α → FinDist K β) (hd : mass d = 1)
    (hf : ∀ a ∈ supp d, mass (f a) = 1) : mass (bind d f) = 1 := by
  rw [mass_bind, E_congr_supp d _ (fun _ => 1) hf, E_const, hd, one_mul]

/-- the mean (value, tangent) of a distribution over duals -/
def meanD (d : FinDist K (Dual K)) : Dual K := ⟨E d (fun k => k.v), E d (fun k => k.d)⟩

theorem meanD_v (d : FinDist K (Dual K)) : E d (fun k => k.v) = (meanD d).v := rfl
theorem meanD_d (d : FinDist K (Dual K)) : E d (fun k => k.d) = (meanD d).d := rfl

/-- REINFORCE is linear in the continuation estimate -/
theorem E_reinforce_v (pb : Dual K) (d : FinDist K (Dual K)) :
    E d (fun k => (reinforce pb k).v) = (reinforce pb (meanD d)).v := rfl

theorem E_reinforce_d (pb : Dual K) (d : FinDist K (Dual K)) :
    E d (fun k => (reinforce pb k).d) = (reinforce pb (meanD d)).d := by
  simp only [reinforce, E_add, E_mul_right, meanD]

/-! ### the two site distributions -/

theorem E_flipDist (q : K) (g : Bool → K) : E (flipDist q) g = Eflip q (g true) (g false) := by
  simp only [flipDist, E_cons, E_nil, Eflip, add_zero]

theorem mass_flipDist (q : K) : mass (flipDist q) = 1 := by
  simp only [mass, E_flipDist, Eflip]; ring

theorem smc_sumK_eq (l : List K) : Genjax.Smc.sumK l = sumK l := by
  induction l with
  | nil => rfl
  | cons x xs ih => simp only [Genjax.Smc.sumK, sumK, ih]

theorem map_range_getD_zipWith {α β γ : Type} (l : List α) (d : α) (f : Nat → β) (h : α → β → γ) :
    (List.range l.length).map (fun i => h (l.getD i d) (f i))
      = List.zipWith h l ((List.range l.length).map f) := by
  apply List.ext_getElem
  · simp
  · intro i h1 h2
    have hi : i < l.length := by simpa using h1
    simp only [List.getElem_map, List.getElem_range, List.getElem_zipWith]
    rw [List.getD_eq_getElem _ _ hi]

/-- expectation under the categorical site distribution, as a sum over indices -/
theorem E_catDist (ps : List (Dual K)) (g : Nat → K) :
    E (catDist ps) g = sumK ((List.range ps.length).map fun i => (ps.getD i ⟨0, 0⟩).v * g i) := by
  simp only [E, catDist, List.map_map, Function.comp_def, smc_sumK_eq]

theorem supp_catDist (ps : List (Dual K)) : supp (catDist ps) = List.range ps.length := by
  simp only [supp, catDist, List.map_map, Function.comp_def, List.map_id']

theorem enumAll_v (ps ks : List (Dual K)) :
    (enumAll ps ks).v = sumK (List.zipWith (fun p k => p.v * k.v) ps ks) := by
  induction ps generalizing ks with
  | nil => simp [enumAll, sumD, sumK]
  | cons p ps ih =>
    cases ks with
    | nil => simp [enumAll, sumD, sumK]
    | cons k ks =>
      have := ih ks
      simp only [enumAll] at this ⊢
      simp only [List.zipWith_cons_cons, sumD, sumK, Dual.add, Dual.mul, this]

theorem enumAll_d (ps ks : List (Dual K)) :
    (enumAll ps ks).d = sumK (List.zipWith (fun p k => p.d * k.v + p.v * k.d) ps ks) := by
  induction ps generalizing ks with
  | nil => simp [enumAll, sumD, sumK]
  | cons p ps ih =>
    cases ks with
    | nil => simp [enumAll, sumD, sumK]
    | cons k ks =>
      have := ih ks
      simp only [enumAll] at this ⊢
      simp only [List.zipWith_cons_cons, sumD, sumK, Dual.add, Dual.mul, this]

theorem enumAll_range_v (ps : List (Dual K)) (f : Nat → Dual K) :
    (enumAll ps ((List.range ps.length).map f)).v
      = sumK ((List.range ps.length).map fun i => (ps.getD i ⟨0, 0⟩).v * (f i).v) := by
  rw [enumAll_v, map_range_getD_zipWith ps ⟨0, 0⟩ f (fun p k => p.v * k.v)]

theorem enumAll_range_d (ps : List (Dual K)) (f : Nat → Dual K) :
    (enumAll ps ((List.range ps.length).map f)).d
      = sumK ((List.range ps.length).map fun i =>
          (ps.getD i ⟨0, 0⟩).d * (f i).v + (ps.getD i ⟨0, 0⟩).v * (f i).d) := by
  rw [enumAll_d, map_range_getD_zipWith ps ⟨0, 0⟩ f (fun p k => p.d * k.v + p.v * k.d)]

theorem reinforceExpectedTangent_range (ps : List (Dual K)) (f : Nat → Dual K) :
    reinforceExpectedTangent ps ((List.range ps.length).map f)
      = sumK ((List.range ps.length).map fun i =>
          (ps.getD i ⟨0, 0⟩).v * (reinforce (ps.getD i ⟨0, 0⟩) (f i)).d) := by
  rw [reinforceExpectedTangent,
    map_range_getD_zipWith ps ⟨0, 0⟩ f (fun p k => p.v * (reinforce p k).d)]

theorem sumD_v (ps : List (Dual K)) : (sumD ps).v = sumK (ps.map fun p => p.v) := by
  induction ps with
  | nil => rfl
  | cons p ps ih => simp only [sumD, Dual.add, List.map_cons, sumK, ih]

theorem sumD_d (ps : List (Dual K)) : (sumD ps).d = sumK (ps.map fun p => p.d) := by
  induction ps with
  | nil => rfl
  | cons p ps ih => simp only [sumD, Dual.add, List.map_cons, sumK, ih]

theorem map_getD_range' {α β : Type} (l : List α) (d : α) (h : α → β) :
    (List.range l.length).map (fun i => h (l.getD i d)) = l.map h := by
  apply List.ext_getElem
  · simp
  · intro i h1 h2
    have hi : i < l.length := by simpa using h1
    simp only [List.getElem_map, List.getElem_range]
    rw [List.getD_eq_getElem _ _ hi]

theorem mass_catDist (ps : List (Dual K)) : mass (catDist ps) = (sumD ps).v := by
  simp only [mass, E_catDist, mul_one, sumD_v]
  rw [map_getD_range' ps ⟨0, 0⟩ (fun p => p.v)]

theorem sumK_congr_range (n : Nat) (f g : Nat → K) (h : ∀ i, i < n → f i = g i) :
    sumK ((List.range n).map f) = sumK ((List.range n).map g) := by
  congr 1
  apply List.map_congr_left
  intro i hi
  exact h i (List.mem_range.mp hi)

/-! ### enumeration over independent continuation estimates -/

/-- `enumAll` commutes with averaging independent, normalised continuation estimates -/
theorem meanD_sequence_enumAll (ps : List (Dual K)) (ds : List (FinDist K (Dual K)))
    (hm : ∀ d ∈ ds, mass d = 1) :
    E (FinDist.sequence ds) (fun ks => (enumAll ps ks).v) = (enumAll ps (ds.map meanD)).v ∧
    E (FinDist.sequence ds) (fun ks => (enumAll ps ks).d) = (enumAll ps (ds.map meanD)).d := by
  induction ds generalizing ps with
  | nil =>
    cases ps <;> simp [FinDist.sequence, E_pure, enumAll, sumD]
  | cons d ds ih =>
    have hm' : ∀ d' ∈ ds, mass d' = 1 := fun d' hd' => hm d' (List.mem_cons_of_mem _ hd')
    have h2 : mass d = 1 := hm d List.mem_cons_self
    have h3 : mass (FinDist.sequence ds) = 1 := mass_sequence ds hm'
    cases ps with
    | nil =>
      simp only [enumAll, List.zipWith_nil_left, sumD, E_const, mass_sequence (d :: ds) hm, one_mul,
        and_self]
    | cons p ps =>
      obtain ⟨ihv, ihd⟩ := ih ps hm'
      have hv : ∀ k ks, (enumAll (p :: ps) (k :: ks)).v = p.v * k.v + (enumAll ps ks).v := by
        intro k ks; simp only [enumAll, List.zipWith_cons_cons, sumD, Dual.add, Dual.mul]
      have hd : ∀ k ks, (enumAll (p :: ps) (k :: ks)).d
          = (p.d * k.v + p.v * k.d) + (enumAll ps ks).d := by
        intro k ks; simp only [enumAll, List.zipWith_cons_cons, sumD, Dual.add, Dual.mul]
      constructor
      · simp only [FinDist.sequence, E_bind, E_pure, hv, List.map_cons, E_add, E_const, E_mul_left, h2, h3,
          ihv, one_mul]
        rfl
      · simp only [FinDist.sequence, E_bind, E_pure, hd, List.map_cons, E_add, E_const, E_mul_left, h2, h3,
          ihd, one_mul]
        rfl

/-! ### well-formedness of a program and the main theorem -/

/-- the guards of the unbiasedness theorem: every categorical site is normalised (its
    probabilities' values sum to one; for a flip this holds by construction), and every outcome
    probability of a score-function (REINFORCE) site is non-zero.  Quantified over EVERY outcome
    of every site (enumeration and MVD evaluate the continuation also on outcomes of probability
    zero). -/
def Prog.OK : Prog K → Prop
  | .ret _ => True
  | .flip e p k => (e = .reinforce → p.v ≠ 0 ∧ 1 - p.v ≠ 0) ∧ ∀ b, OK (k b)
  | .cat e ps k =>
      (sumD ps).v = 1 ∧ (e = .reinforce → ∀ q ∈ ps, q.v ≠ 0) ∧ ∀ i, i < ps.length → OK (k i)

namespace Prog

/-- a forward-sampling run (`kpure`) is normalised -/
theorem mass_run (p : Prog K) (h : p.OK) : mass (run p) = 1 := by
  induction p with
  | ret r => simp only [run, mass_pure]
  | flip e p k ih =>
    simp only [run]
    exact mass_bind_one _ _ (mass_flipDist _) (fun b _ => ih b (h.2 b))
  | cat e ps k ih =>
    simp only [run]
    refine mass_bind_one _ _ ((mass_catDist ps).trans h.1) (fun i hi => ?_)
    rw [supp_catDist] at hi
    exact ih i (h.2.2 i (List.mem_range.mp hi))

/-- the expected value of a forward-sampling run is the exact value (no guard needed) -/
theorem E_run (p : Prog K) : E (run p) (fun o => o) = (exact p).v := by
  induction p with
  | ret r => simp only [run, E_pure, exact]
  | flip e p k ih =>
    simp only [run, E_bind, E_flipDist, ih, exact]
    exact (flipEnum_exact p _ _).1.symm
  | cat e ps k ih =>
    simp only [run, E_bind, ih, exact, E_catDist, enumAll_range_v]

/-- the interpreter's estimate (`kdual`) is a normalised distribution -/
theorem mass_est (p : Prog K) (h : p.OK) : mass (est p) = 1 := by
  induction p with
  | ret r => simp only [est, mass_pure]
  | flip e p k ih =>
    have hT := ih true (h.2 true)
    have hF := ih false (h.2 false)
    cases e with
    | enum =>
      simp only [est]
      exact mass_bind_one _ _ hT fun _ _ => mass_bind_one _ _ hF fun _ _ => mass_pure _
    | enumPar =>
      simp only [est]
      refine mass_bind_one _ _ (mass_sequence _ ?_) fun _ _ => mass_pure _
      intro d hd
      simp only [List.mem_cons, List.not_mem_nil, or_false] at hd
      rcases hd with rfl | rfl <;> assumption
    | reinforce =>
      simp only [est]
      exact mass_bind_one _ _ (mass_flipDist _) fun b _ =>
        mass_bind_one _ _ (ih b (h.2 b)) fun _ _ => mass_pure _
    | mvd =>
      simp only [est]
      exact mass_bind_one _ _ (mass_flipDist _) fun b _ =>
        mass_bind_one _ _ (ih b (h.2 b)) fun _ _ =>
          mass_bind_one _ _ (mass_run _ (h.2 (!b))) fun _ _ => mass_pure _
  | cat e ps k ih =>
    cases e with
    | enumPar =>
      simp only [est]
      refine mass_bind_one _ _ (mass_sequence _ ?_) fun _ _ => mass_pure _
      intro d hd
      obtain ⟨i, hi, rfl⟩ := List.mem_map.mp hd
      exact ih i (h.2.2 i (List.mem_range.mp hi))
    | reinforce =>
      simp only [est]
      refine mass_bind_one _ _ ((mass_catDist ps).trans h.1) fun i hi => ?_
      rw [supp_catDist] at hi
      exact mass_bind_one _ _ (ih i (h.2.2 i (List.mem_range.mp hi))) fun _ _ => mass_pure _

theorem meanD_eq (d : FinDist K (Dual K)) (x : Dual K) (hv : E d (fun k => k.v) = x.v)
    (hd : E d (fun k => k.d) = x.d) : meanD d = x := by
  cases x
  simp only [meanD] at *
  rw [hv, hd]

/-- THE THEOREM: for every discrete ADEV program - any number of sites, any mix of enumeration,
    parallel enumeration, REINFORCE and measure-valued estimators, arbitrary dependence of later
    sites on earlier outcomes - the expectation of the Dual the interpreter returns is the exact
    expectation of the program (value part) and its exact derivative (tangent part). -/
theorem est_unbiased (p : Prog K) (h : p.OK) :
    E (est p) (fun r => r.v) = (exact p).v ∧ E (est p) (fun r => r.d) = (exact p).d := by
  induction p with
  | ret r => simp only [est, E_pure, exact, and_self]
  | flip e p k ih =>
    have mT := mass_est (k true) (h.2 true)
    have mF := mass_est (k false) (h.2 false)
    obtain ⟨vT, dT⟩ := ih true (h.2 true)
    obtain ⟨vF, dF⟩ := ih false (h.2 false)
    cases e with
    | enum =>
      constructor
      · simp only [est, exact, E_bind, E_pure, flipEnum, Dual.add, Dual.mul, Dual.sub, Dual.const,
          E_add, E_sub, E_mul_left, E_mul_right, E_const, mT, mF, vT, vF, dT, dF]
        ring
      · simp only [est, exact, E_bind, E_pure, flipEnum, Dual.add, Dual.mul, Dual.sub, Dual.const,
          E_add, E_sub, E_mul_left, E_mul_right, E_const, mT, mF, vT, vF, dT, dF]
        ring
    | enumPar =>
      have hm : ∀ d ∈ [est (k true), est (k false)], mass d = 1 := by
        intro d hd
        simp only [List.mem_cons, List.not_mem_nil, or_false] at hd
        rcases hd with rfl | rfl <;> assumption
      obtain ⟨hv, hd⟩ := meanD_sequence_enumAll [p, Dual.sub (Dual.const 1) p] _ hm
      simp only [est, exact, E_bind, E_pure, hv, hd, List.map_cons, List.map_nil,
        meanD_eq _ _ vT dT, meanD_eq _ _ vF dF]
      constructor
      · simp only [enumAll, List.zipWith_cons_cons, List.zipWith_nil_left, sumD, flipEnum, Dual.add,
          Dual.mul, Dual.sub, Dual.const]
        ring
      · simp only [enumAll, List.zipWith_cons_cons, List.zipWith_nil_left, sumD, flipEnum, Dual.add,
          Dual.mul, Dual.sub, Dual.const]
        ring
    | reinforce =>
      obtain ⟨h1, h2⟩ := h.1 rfl
      obtain ⟨uv, ud⟩ := reinforce_flip_unbiased p (exact (k true)) (exact (k false)) h1 h2
      simp only [est, exact, E_bind, E_pure, E_flipDist, E_reinforce_v, E_reinforce_d,
        meanD_eq _ _ vT dT, meanD_eq _ _ vF dF]
      exact ⟨uv, ud⟩
    | mvd =>
      have rT := mass_run (k true) (h.2 true)
      have rF := mass_run (k false) (h.2 false)
      constructor
      · simp only [est, exact, E_bind, E_pure, E_flipDist, mvd, if_true, Bool.false_eq_true,
          if_false, Bool.not_true, Bool.not_false, E_const, rT, rF, one_mul, vT, vF]
        exact (flipEnum_exact p _ _).1.symm
      · simp only [est, exact, E_bind, E_pure, E_flipDist, mvd, if_true, Bool.false_eq_true,
          if_false, Bool.not_true, Bool.not_false, E_add, E_sub, E_neg, E_mul_right, E_const, rT, rF,
          mT, mF, one_mul, E_run, vT, vF, dT, dF]
        simp only [Eflip, flipEnum, Dual.add, Dual.mul, Dual.sub, Dual.const]
        ring
  | cat e ps k ih =>
    have hk : ∀ i, i < ps.length → E (est (k i)) (fun r => r.v) = (exact (k i)).v ∧
        E (est (k i)) (fun r => r.d) = (exact (k i)).d := fun i hi => ih i (h.2.2 i hi)
    cases e with
    | enumPar =>
      have hm : ∀ d ∈ (List.range ps.length).map (fun i => est (k i)), mass d = 1 := by
        intro d hd
        obtain ⟨i, hi, rfl⟩ := List.mem_map.mp hd
        exact mass_est (k i) (h.2.2 i (List.mem_range.mp hi))
      obtain ⟨hv, hd⟩ := meanD_sequence_enumAll ps _ hm
      have hmap : ((List.range ps.length).map fun i => est (k i)).map meanD
          = (List.range ps.length).map fun i => exact (k i) := by
        rw [List.map_map]
        apply List.map_congr_left
        intro i hi
        obtain ⟨a, b⟩ := hk i (List.mem_range.mp hi)
        exact meanD_eq _ _ a b
      simp only [est, exact, E_bind, E_pure, hv, hd, hmap, and_self]
    | reinforce =>
      have hp : ∀ q ∈ ps, q.v ≠ 0 := h.2.1 rfl
      have hu := reinforce_finite_unbiased ps ((List.range ps.length).map fun i => exact (k i))
        (by simp) hp
      simp only [est, exact, E_bind, E_pure, E_catDist, E_reinforce_v, E_reinforce_d]
      rw [← hu, reinforceExpectedTangent_range, enumAll_range_v]
      constructor
      · exact sumK_congr_range _ _ _ fun i hi => by
          rw [meanD_eq _ _ (hk i hi).1 (hk i hi).2]; rfl
      · exact sumK_congr_range _ _ _ fun i hi => by
          rw [meanD_eq _ _ (hk i hi).1 (hk i hi).2]

/-- the same statement as one equation between duals -/
theorem meanD_est (p : Prog K) (h : p.OK) : meanD (est p) = exact p :=
  meanD_eq _ _ (est_unbiased p h).1 (est_unbiased p h).2

end Prog

/-! ### straight-line programs -/

/-- the guards of `Prog.OK` spelled out for a straight-line program that has already recorded the
    outcomes `outs` -/
def SProg.OK : SProg K → List Outcome → Prop
  | .ret _, _ => True
  | .flip e p rest, outs =>
      (e = .reinforce → (p outs).v ≠ 0 ∧ 1 - (p outs).v ≠ 0) ∧
      ∀ b : Bool, OK rest (outs ++ [b.toNat])
  | .cat e ps rest, outs =>
      (sumD (ps outs)).v = 1 ∧ (e = .reinforce → ∀ q ∈ ps outs, q.v ≠ 0) ∧
      ∀ i, i < (ps outs).length → OK rest (outs ++ [i])

theorem SProg.OK_toProg (sp : SProg K) (outs : List Outcome) :
    (sp.toProg outs).OK ↔ sp.OK outs := by
  induction sp generalizing outs with
  | ret f => simp only [SProg.toProg, Prog.OK, SProg.OK]
  | flip e p rest ih => simp only [SProg.toProg, Prog.OK, SProg.OK, ih]
  | cat e ps rest ih => simp only [SProg.toProg, Prog.OK, SProg.OK, ih]

/-- the main theorem for straight-line programs with any number of sites -/
theorem SProg.est_unbiased (sp : SProg K) (outs : List Outcome) (h : sp.OK outs) :
    E (sp.toProg outs).est (fun r => r.v) = (sp.toProg outs).exact.v ∧
    E (sp.toProg outs).est (fun r => r.d) = (sp.toProg outs).exact.d :=
  Prog.est_unbiased _ ((SProg.OK_toProg sp outs).mpr h)

/-! ### primitives: parallel enumeration, truncated geometric, softmax probabilities, baseline -/

/-- flip_enum_parallel computes the same Dual as flip_enum -/
theorem flipEnumPar_eq (p kT kF : Dual K) :
    enumAll [p, Dual.sub (Dual.const 1) p] [kT, kF] = flipEnum p kT kF := by
  simp only [enumAll, List.zipWith_cons_cons, List.zipWith_nil_left, sumD, flipEnum, Dual.add,
    Dual.mul, Dual.sub, Dual.const, Dual.mk.injEq]
  constructor <;> ring

/-- enumeration of a constant continuation under NORMALISED probability duals (values sum to one,
    tangents sum to zero) returns that constant: no spurious gradient -/
theorem enumAll_const (ps : List (Dual K)) (c : Dual K) (h : sumD ps = ⟨1, 0⟩) :
    enumAll ps (List.replicate ps.length c) = c := by
  have hv : sumK (ps.map fun p => p.v) = 1 := by rw [← sumD_v, h]
  have hd : sumK (ps.map fun p => p.d) = 0 := by rw [← sumD_d, h]
  have e1 : ∀ (l : List (Dual K)), sumK (List.zipWith (fun p k => p.v * k.v) l
      (List.replicate l.length c)) = sumK (l.map fun p => p.v) * c.v := by
    intro l
    induction l with
    | nil => simp [sumK]
    | cons p l ih => simp only [List.length_cons, List.replicate_succ, List.zipWith_cons_cons, sumK,
        List.map_cons, ih]; ring
  have e2 : ∀ (l : List (Dual K)), sumK (List.zipWith (fun p k => p.d * k.v + p.v * k.d) l
      (List.replicate l.length c))
        = sumK (l.map fun p => p.d) * c.v + sumK (l.map fun p => p.v) * c.d := by
    intro l
    induction l with
    | nil => simp [sumK]
    | cons p l ih => simp only [List.length_cons, List.replicate_succ, List.zipWith_cons_cons, sumK,
        List.map_cons, ih]; ring
  have hv' := enumAll_v ps (List.replicate ps.length c)
  have hd' := enumAll_d ps (List.replicate ps.length c)
  rw [e1, hv, one_mul] at hv'
  rw [e2, hv, hd, zero_mul, one_mul, zero_add] at hd'
  cases c
  cases hx : enumAll ps (List.replicate ps.length _)
  rw [hx] at hv' hd'
  simp only at hv' hd'
  rw [hv', hd']

theorem Dual.pow_v (a : Dual K) (n : Nat) : (Dual.pow a n).v = a.v ^ n := by
  induction n with
  | zero => simp only [Dual.pow, Dual.const, pow_zero]
  | succ n ih => simp only [Dual.pow, Dual.mul, ih, pow_succ]

theorem geomProbs_length (p : Dual K) (n : Nat) : (geomProbs p n).length = n := by
  simp only [geomProbs, List.length_map, List.length_range]

theorem geomProbs_ne_zero (p : Dual K) (n : Nat) (h1 : p.v ≠ 0) (h2 : 1 - p.v ≠ 0) :
    ∀ q ∈ geomProbs p n, q.v ≠ 0 := by
  intro q hq
  obtain ⟨i, -, rfl⟩ := List.mem_map.mp hq
  simp only [Dual.mul, Dual.pow_v, Dual.sub, Dual.const]
  exact mul_ne_zero (pow_ne_zero _ h2) h1

/-- geometric_reinforce on the truncated support {0..n-1}: the outcome-average of the REINFORCE
    tangents is the derivative of the truncated sum Σ_{i<n} (1−p)^i p · k_i (for every n, hence
    also in the limit) -/
theorem reinforce_geometric_unbiased (p : Dual K) (n : Nat) (ks : List (Dual K))
    (hl : ks.length = n) (h1 : p.v ≠ 0) (h2 : 1 - p.v ≠ 0) :
    reinforceExpectedTangent (geomProbs p n) ks = (enumAll (geomProbs p n) ks).d :=
  reinforce_finite_unbiased _ _ (by rw [geomProbs_length, hl]) (geomProbs_ne_zero p n h1 h2)

theorem sumK_map_mul_left' {α : Type} (l : List α) (c : K) (f : α → K) :
    sumK (l.map fun a => c * f a) = c * sumK (l.map f) := by
  rw [← smc_sumK_eq, ← smc_sumK_eq, Genjax.Smc.sumK_map_mul_left]

theorem sumK_map_add' {α : Type} (l : List α) (f g : α → K) :
    sumK (l.map fun a => f a + g a) = sumK (l.map f) + sumK (l.map g) := by
  rw [← smc_sumK_eq, ← smc_sumK_eq, ← smc_sumK_eq, Genjax.Smc.sumK_map_add]

theorem sumK_map_div' {α : Type} (l : List α) (c : K) (f : α → K) :
    sumK (l.map fun a => f a / c) = sumK (l.map f) / c := by
  rw [← smc_sumK_eq, ← smc_sumK_eq, Genjax.Smc.sumK_map_div]

/-- the softmax probability duals are normalised: values sum to one, tangents to zero (whatever
    the logits and their tangents, provided the normaliser Σ e_i is non-zero) -/
theorem softmaxD_normalised (ex : K → K) (ls : List (Dual K))
    (hS : sumK (ls.map fun l => ex l.v) ≠ 0) : sumD (softmaxD ex ls) = ⟨1, 0⟩ := by
  have hv : (sumD (softmaxD ex ls)).v = 1 := by
    simp only [sumD_v, softmaxD, List.map_map, Function.comp_def]
    rw [sumK_map_div' ls _ (fun l => ex l.v), div_self hS]
  have hd : (sumD (softmaxD ex ls)).d = 0 := by
    simp only [sumD_d, softmaxD, List.map_map, Function.comp_def]
    set S := sumK (ls.map fun l => ex l.v) with hSdef
    set m := sumK (ls.map fun l => ex l.v / S * l.d) with hm
    have : ∀ l : Dual K, ex l.v / S * (l.d - m) = ex l.v / S * l.d + (-m) * (ex l.v / S) := by
      intro l; ring
    simp only [this]
    rw [sumK_map_add', sumK_map_mul_left' ls (-m) (fun l => ex l.v / S),
      sumK_map_div' ls S (fun l => ex l.v), ← hSdef, div_self hS, ← hm]
    ring
  cases hx : sumD (softmaxD ex ls)
  rw [hx] at hv hd
  simp only at hv hd
  rw [hv, hd]

/-- REINFORCE with a constant baseline b, `k.d + (k.v − b)·p'/p`, stays unbiased when the
    probability tangents sum to zero.  NOTE: the genjax REINFORCE primitive (1034-1126) has NO
    baseline argument; this lemma is recorded only as the mathematical fact behind the usual
    variance-reduction extension and is not a statement about existing code. -/
theorem reinforce_baseline_unbiased (ps ks : List (Dual K)) (b : K) (hl : ps.length = ks.length)
    (hp : ∀ p ∈ ps, p.v ≠ 0) (h0 : (sumD ps).d = 0) :
    sumK (List.zipWith (fun p k => p.v * (k.d + (k.v - b) * (p.d / p.v))) ps ks)
      = (enumAll ps ks).d := by
  have key : ∀ (ps ks : List (Dual K)), ps.length = ks.length → (∀ p ∈ ps, p.v ≠ 0) →
      sumK (List.zipWith (fun p k => p.v * (k.d + (k.v - b) * (p.d / p.v))) ps ks)
        = reinforceExpectedTangent ps ks - b * (sumD ps).d := by
    intro ps
    induction ps with
    | nil => intro ks _ _; simp [reinforceExpectedTangent, sumK, sumD]
    | cons p ps ih =>
      intro ks hl hp
      cases ks with
      | nil => simp at hl
      | cons k ks =>
        have hp0 : p.v ≠ 0 := hp p (by simp)
        have ih' := ih ks (by simpa using hl) (fun q hq => hp q (by simp [hq]))
        simp only [reinforceExpectedTangent] at ih' ⊢
        simp only [List.zipWith_cons_cons, sumK, sumD, Dual.add, ih', reinforce]
        field_simp
        ring
  rw [key ps ks hl hp, h0, mul_zero, sub_zero, reinforce_finite_unbiased ps ks hl hp]

end Genjax.Adev
