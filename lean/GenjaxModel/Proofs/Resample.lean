import GenjaxModel.Model.Resample
import Mathlib.Algebra.Order.Floor.Ring
import Mathlib.Algebra.Order.Field.Basic
import Mathlib.Tactic.Ring
import Mathlib.Tactic.Linarith
import Mathlib.Tactic.FieldSimp
import Mathlib.Data.List.GetD
/-!
  C12: systematic resampling gives every particle ⌊N w_i⌋ or ⌈N w_i⌉ copies for every offset
  u ∈ (0,1); the copies sum to N; `resample` keeps exp(log_marginal_likelihood) unchanged,
  copies faithfully and keeps the pre-resampling normalised weights.
-/

set_option linter.unusedSectionVars false
set_option linter.unusedVariables false

namespace Genjax.Resample
variable {K : Type} [Field K] [LinearOrder K] [IsStrictOrderedRing K] [FloorRing K]

/-! ### basic list facts -/

theorem sum_nonneg' (l : List K) (hl : ∀ x ∈ l, 0 ≤ x) : 0 ≤ sum l := by
  induction l with
  | nil => simp [sum]
  | cons x xs ih =>
    simp only [sum]
    have h1 : 0 ≤ x := hl x (by simp)
    have h2 : 0 ≤ sum xs := ih (fun y hy => hl y (by simp [hy]))
    linarith

theorem sum_map_div (l : List K) (s : K) : sum (l.map (· / s)) = sum l / s := by
  induction l with
  | nil => simp [sum]
  | cons x xs ih => simp only [List.map_cons, sum, ih]; ring

theorem sum_map_one {β : Type} (l : List β) : sum (l.map fun _ => (1 : K)) = (l.length : K) := by
  induction l with
  | nil => simp [sum]
  | cons x xs ih => simp only [List.map_cons, sum, ih, List.length_cons]; push_cast; ring

theorem cumsumFrom_length (acc : K) (l : List K) : (cumsumFrom acc l).length = l.length := by
  induction l generalizing acc with
  | nil => simp [cumsumFrom]
  | cons x xs ih => simp [cumsumFrom, ih]

theorem cumsumFrom_mem (acc : K) (l : List K) (hl : ∀ x ∈ l, 0 ≤ x) :
    ∀ y ∈ cumsumFrom acc l, acc ≤ y ∧ y ≤ acc + sum l := by
  induction l generalizing acc with
  | nil => simp [cumsumFrom]
  | cons x xs ih =>
    have h1 : 0 ≤ x := hl x (by simp)
    have h2 : 0 ≤ sum xs := sum_nonneg' xs (fun y hy => hl y (by simp [hy]))
    intro y hy
    simp only [cumsumFrom, List.mem_cons] at hy
    simp only [sum]
    rcases hy with rfl | hy
    · constructor <;> linarith
    · have := ih (acc + x) (fun y hy => hl y (by simp [hy])) y hy
      constructor <;> linarith [this.1, this.2]

theorem cumsumFrom_sorted (acc : K) (l : List K) (hl : ∀ x ∈ l, 0 ≤ x) :
    (cumsumFrom acc l).Pairwise (· ≤ ·) := by
  induction l generalizing acc with
  | nil => simp [cumsumFrom]
  | cons x xs ih =>
    simp only [cumsumFrom, List.pairwise_cons]
    refine ⟨fun y hy => ?_, ih _ (fun y hy => hl y (by simp [hy]))⟩
    exact (cumsumFrom_mem (acc + x) xs (fun y hy => hl y (by simp [hy])) y hy).1

/-- last entry of the cumulative sums -/
theorem cumsumFrom_last (acc : K) (l : List K) (h : l ≠ []) :
    (cumsumFrom acc l).getD (l.length - 1) 0 = acc + sum l := by
  induction l generalizing acc with
  | nil => exact absurd rfl h
  | cons x xs ih =>
    cases xs with
    | nil => simp [cumsumFrom, sum]
    | cons y ys =>
      have := ih (acc + x) (by simp)
      simp only [List.length_cons, Nat.add_sub_cancel] at this ⊢
      simp only [cumsumFrom, List.getD_cons_succ, sum] at this ⊢
      rw [this]; ring

/-- step relation of the cumulative sums -/
theorem cumsumFrom_getD_zero (acc : K) (l : List K) (h : 0 < l.length) :
    (cumsumFrom acc l).getD 0 0 = acc + l.getD 0 0 := by
  cases l with
  | nil => simp at h
  | cons x xs => simp [cumsumFrom]

theorem cumsumFrom_getD_succ (acc : K) (l : List K) (i : Nat) (h : i + 1 < l.length) :
    (cumsumFrom acc l).getD (i + 1) 0 = (cumsumFrom acc l).getD i 0 + l.getD (i + 1) 0 := by
  induction l generalizing acc i with
  | nil => simp at h
  | cons x xs ih =>
    cases i with
    | zero =>
      simp only [cumsumFrom, List.getD_cons_succ, List.getD_cons_zero]
      exact cumsumFrom_getD_zero _ _ (by simpa using h)
    | succ i =>
      simp only [cumsumFrom, List.getD_cons_succ]
      exact ih _ _ (by simpa using h)

/-! ### searchsorted on sorted lists -/

theorem ss_gt (c : List K) (hc : c.Pairwise (· ≤ ·)) (v : K) (i : Nat) (hi : i < c.length)
    (h : c.getD i 0 < v) : i < searchsorted c v := by
  unfold searchsorted
  induction c generalizing i with
  | nil => simp at hi
  | cons x xs ih =>
    rw [List.pairwise_cons] at hc
    cases i with
    | zero =>
      simp only [List.getD_cons_zero] at h
      simp [h]
    | succ i =>
      simp only [List.getD_cons_succ] at h
      have hi' : i < xs.length := by simpa using hi
      have hx : x < v := by
        have : xs.getD i 0 ∈ xs := by
          rw [List.getD_eq_getElem _ _ hi']; exact List.getElem_mem _
        exact lt_of_le_of_lt (hc.1 _ this) h
      have := ih hc.2 i hi' h
      simp only [List.filter_cons, hx, decide_true, if_true, List.length_cons]
      omega

theorem ss_le (c : List K) (hc : c.Pairwise (· ≤ ·)) (v : K) (i : Nat) (hi : i < c.length)
    (h : v ≤ c.getD i 0) : searchsorted c v ≤ i := by
  unfold searchsorted
  induction c generalizing i with
  | nil => simp at hi
  | cons x xs ih =>
    rw [List.pairwise_cons] at hc
    cases i with
    | zero =>
      simp only [List.getD_cons_zero] at h
      have : (x :: xs).filter (fun c => decide (c < v)) = [] := by
        rw [List.filter_eq_nil_iff]
        intro y hy
        simp only [List.mem_cons] at hy
        simp only [decide_eq_true_eq, not_lt]
        rcases hy with rfl | hy
        · exact h
        · exact le_trans h (hc.1 y hy)
      simp [this]
    | succ i =>
      simp only [List.getD_cons_succ] at h
      have hi' : i < xs.length := by simpa using hi
      have := ih hc.2 i hi' h
      have h2 := List.length_filter_le (fun c => decide (c < v)) [x]
      rw [show x :: xs = [x] ++ xs from rfl, List.filter_append, List.length_append]
      simp only [List.length_singleton] at h2
      omega

theorem ss_eq_iff (c : List K) (hc : c.Pairwise (· ≤ ·)) (v : K) (i : Nat) (hi : i < c.length) :
    searchsorted c v = i ↔ (i = 0 ∨ c.getD (i - 1) 0 < v) ∧ v ≤ c.getD i 0 := by
  constructor
  · intro h
    constructor
    · rcases Nat.eq_zero_or_pos i with h0 | h0
      · exact Or.inl h0
      · right
        by_contra hcon
        have := ss_le c hc v (i - 1) (by omega) (not_lt.mp hcon)
        omega
    · by_contra hcon
      have := ss_gt c hc v i hi (not_le.mp hcon)
      omega
  · rintro ⟨h1, h2⟩
    have hle := ss_le c hc v i hi h2
    rcases h1 with h0 | h1
    · omega
    · rcases Nat.eq_zero_or_pos i with h0 | h0
      · omega
      · have := ss_gt c hc v (i - 1) (by omega) h1
        omega

/-! ### counting integers in an interval -/

theorem countP_range_Ioc (p q : Int) (n : Nat) :
    (List.range n).countP (fun j : Nat => decide (p < (j : Int) ∧ (j : Int) ≤ q)) =
      (min q ((n : Int) - 1) - max p (-1)).toNat := by
  induction n with
  | zero => simp; omega
  | succ n ih =>
    rw [List.range_succ, List.countP_append, ih]
    simp only [List.countP_singleton]
    split_ifs with h <;> simp only [decide_eq_true_eq] at h <;> omega

/-! ### main theorems -/

theorem systematic_length (w : List K) (n : Nat) (u : K) : (systematic w n u).length = n := by
  simp [systematic]

theorem normalize_nonneg (w : List K) (hw : ∀ x ∈ w, 0 ≤ x) (hs : 0 < sum w) :
    ∀ x ∈ normalize w, 0 ≤ x := by
  intro x hx
  simp only [normalize, List.mem_map] at hx
  obtain ⟨y, hy, rfl⟩ := hx
  exact div_nonneg (hw y hy) hs.le

theorem sum_normalize (w : List K) (hs : 0 < sum w) : sum (normalize w) = 1 := by
  rw [normalize, sum_map_div, div_self hs.ne']

theorem w_ne_nil (w : List K) (hs : 0 < sum w) : w ≠ [] := by
  rintro rfl; simp [sum] at hs

theorem cumsum_length (w : List K) : (cumsum (normalize w)).length = w.length := by
  simp [cumsum, cumsumFrom_length, normalize]

theorem cumsum_sorted (w : List K) (hw : ∀ x ∈ w, 0 ≤ x) (hs : 0 < sum w) :
    (cumsum (normalize w)).Pairwise (· ≤ ·) :=
  cumsumFrom_sorted 0 _ (normalize_nonneg w hw hs)

theorem cumsum_getD_bounds (w : List K) (hw : ∀ x ∈ w, 0 ≤ x) (hs : 0 < sum w)
    (i : Nat) (hi : i < w.length) :
    0 ≤ (cumsum (normalize w)).getD i 0 ∧ (cumsum (normalize w)).getD i 0 ≤ 1 := by
  have hi' : i < (cumsum (normalize w)).length := by rw [cumsum_length]; exact hi
  have hm : (cumsum (normalize w)).getD i 0 ∈ cumsum (normalize w) := by
    rw [List.getD_eq_getElem _ _ hi']; exact List.getElem_mem _
  have := cumsumFrom_mem 0 _ (normalize_nonneg w hw hs) _ hm
  rw [sum_normalize w hs] at this
  constructor <;> linarith [this.1, this.2]

theorem normalize_getD (w : List K) (i : Nat) (hi : i < w.length) :
    (normalize w).getD i 0 = w.getD i 0 / sum w := by
  simp [normalize, hi]

theorem position_lt_one (n j : Nat) (hj : j < n) (u : K) (hu1 : u < 1) :
    ((j : K) + u) / (n : K) < 1 := by
  have hn : (0 : K) < (n : K) := by exact_mod_cast (by omega : 0 < n)
  rw [div_lt_one hn]
  have : ((j + 1 : Nat) : K) ≤ (n : K) := by exact_mod_cast hj
  push_cast at this
  linarith

/-- every ancestor index is a valid particle index -/
theorem systematic_index_lt (w : List K) (n : Nat) (u : K)
    (hw : ∀ x ∈ w, 0 ≤ x) (hs : 0 < sum w) (hu0 : 0 < u) (hu1 : u < 1) :
    ∀ i ∈ systematic w n u, i < w.length := by
  intro i hi
  simp only [systematic, List.mem_map, List.mem_range] at hi
  obtain ⟨j, hj, rfl⟩ := hi
  have hne := w_ne_nil w hs
  have hpos : 0 < w.length := List.length_pos_iff.mpr hne
  have hlast : (cumsum (normalize w)).getD (w.length - 1) 0 = 1 := by
    have := cumsumFrom_last (0 : K) (normalize w) (by simpa [normalize] using hne)
    rw [sum_normalize w hs] at this
    simpa [normalize, cumsum] using this
  have := ss_le (cumsum (normalize w)) (cumsum_sorted w hw hs) (((j : K) + u) / (n : K))
    (w.length - 1) (by rw [cumsum_length]; omega)
    (by rw [hlast]; exact (position_lt_one n j hj u hu1).le)
  omega

theorem count_eq_length_of_lt (l : List Nat) (m : Nat) (h : ∀ i ∈ l, i < m) :
    ((List.range m).map (fun i => l.count i)).sum = l.length := by
  induction l with
  | nil => simp
  | cons x xs ih =>
    have hx : x < m := h x (by simp)
    have ih' := ih (fun i hi => h i (by simp [hi]))
    have : ∀ i, (x :: xs).count i = xs.count i + (if i = x then 1 else 0) := by
      intro i
      rw [List.count_cons]
      by_cases hxi : i = x
      · subst hxi; simp
      · have hxi' : ¬ x = i := fun h => hxi h.symm
        simp [hxi, hxi']
    simp only [this, List.length_cons]
    rw [List.sum_map_add, ih']
    congr 1
    clear ih ih' this h
    induction m with
    | zero => omega
    | succ m ihm =>
      rw [List.range_succ, List.map_append, List.sum_append]
      by_cases hxm : x = m
      · subst hxm
        have : ((List.range x).map fun i => if i = x then 1 else 0) = (List.range x).map fun _ => 0 := by
          apply List.map_congr_left
          intro i hi
          have := List.mem_range.mp hi
          simp; omega
        rw [this]; simp
      · rw [ihm (by omega)]; simp; omega

/-- the copies add up to N -/
theorem systematic_total (w : List K) (n : Nat) (u : K)
    (hw : ∀ x ∈ w, 0 ≤ x) (hs : 0 < sum w) (hu0 : 0 < u) (hu1 : u < 1) :
    ((List.range w.length).map (copies (systematic w n u))).sum = n := by
  have := count_eq_length_of_lt (systematic w n u) w.length
    (systematic_index_lt w n u hw hs hu0 hu1)
  rw [systematic_length] at this
  exact this

/-- C_{i-1} = C_i - w_i/S -/
theorem cumsum_prev (w : List K) (i : Nat) (hi : i < w.length) :
    (cumsum (normalize w)).getD i 0 - w.getD i 0 / sum w =
      if i = 0 then 0 else (cumsum (normalize w)).getD (i - 1) 0 := by
  have hl : (normalize w).length = w.length := by simp [normalize]
  rw [← normalize_getD w i hi]
  cases i with
  | zero =>
    simp only [cumsum, if_true]
    rw [cumsumFrom_getD_zero _ _ (by omega)]; ring
  | succ i =>
    simp only [cumsum, Nat.add_sub_cancel, Nat.succ_ne_zero, if_false]
    rw [cumsumFrom_getD_succ _ _ i (by omega)]; ring

/-- level sets of the copy count in the offset: particle i gets the larger count
    exactly when the fractional part of (N·C_i − u) is below the fractional part of N·w_i,
    an event of length fract(N·w_i) in u — hence E_u[copies_i] = N·w_i. -/
theorem systematic_count_formula (w : List K) (n : Nat) (u : K)
    (hw : ∀ x ∈ w, 0 ≤ x) (hs : 0 < sum w) (hu0 : 0 < u) (hu1 : u < 1)
    (i : Nat) (hi : i < w.length) :
    (copies (systematic w n u) i : Int) =
      ⌊(n : K) * ((cumsum (normalize w)).getD i 0) - u⌋ -
      ⌊(n : K) * ((cumsum (normalize w)).getD i 0) - u - (n : K) * (w.getD i 0 / sum w)⌋ := by
  set C := (cumsum (normalize w)).getD i 0 with hC
  set d := w.getD i 0 / sum w with hd
  have hprev := cumsum_prev w i hi
  rw [← hC, ← hd] at hprev
  have hCb := cumsum_getD_bounds w hw hs i hi
  rw [← hC] at hCb
  have hd0 : 0 ≤ d := by
    have : w.getD i 0 ∈ w := by rw [List.getD_eq_getElem _ _ hi]; exact List.getElem_mem _
    exact div_nonneg (hw _ this) hs.le
  have hprev0 : 0 ≤ C - d := by
    rw [hprev]
    split_ifs with h0
    · exact le_rfl
    · exact (cumsum_getD_bounds w hw hs (i - 1) (by omega)).1
  have hn0 : (0 : K) ≤ (n : K) := Nat.cast_nonneg n
  set q := ⌊(n : K) * C - u⌋ with hq
  set p := ⌊(n : K) * C - u - (n : K) * d⌋ with hp
  -- the count
  have hcount : copies (systematic w n u) i =
      (List.range n).countP (fun j : Nat => decide (p < (j : Int) ∧ (j : Int) ≤ q)) := by
    simp only [copies, systematic, List.count_eq_countP, List.countP_map]
    apply List.countP_congr
    intro j hj
    have hj := List.mem_range.mp hj
    have hn : (0 : K) < (n : K) := by exact_mod_cast (by omega : 0 < n)
    have hpospos : 0 < ((j : K) + u) / (n : K) :=
      div_pos (by have : (0 : K) ≤ (j : K) := Nat.cast_nonneg j; linarith) hn
    simp only [Function.comp, beq_iff_eq, decide_eq_true_eq]
    rw [ss_eq_iff _ (cumsum_sorted w hw hs) _ i (by rw [cumsum_length]; exact hi), ← hC]
    have h1 : (i = 0 ∨ (cumsum (normalize w)).getD (i - 1) 0 < ((j : K) + u) / (n : K)) ↔
        C - d < ((j : K) + u) / (n : K) := by
      rw [hprev]
      split_ifs with h0
      · simp [h0, hpospos]
      · simp [h0]
    rw [h1, hp, hq, Int.floor_lt, Int.le_floor, lt_div_iff₀ hn, div_le_iff₀ hn]
    simp only [Int.cast_natCast]
    constructor
    · rintro ⟨a, b⟩; constructor <;> linarith
    · rintro ⟨a, b⟩; constructor <;> linarith
  rw [hcount, countP_range_Ioc]
  have hpm1 : -1 ≤ p := by
    rw [hp, Int.le_floor]; push_cast
    have : 0 ≤ (n : K) * (C - d) := mul_nonneg hn0 hprev0
    linarith
  have hqn : q < (n : Int) := by
    rw [hq, Int.floor_lt]; push_cast
    have : (n : K) * C ≤ (n : K) * 1 := mul_le_mul_of_nonneg_left hCb.2 hn0
    linarith
  have hpq : p ≤ q := by
    rw [hp, hq]; apply Int.floor_le_floor
    have : 0 ≤ (n : K) * d := mul_nonneg hn0 hd0
    linarith
  omega

/-- floor/ceil bound, for every offset u ∈ (0,1) -/
theorem systematic_floor_ceil (w : List K) (n : Nat) (u : K)
    (hw : ∀ x ∈ w, 0 ≤ x) (hs : 0 < sum w) (hu0 : 0 < u) (hu1 : u < 1)
    (i : Nat) (hi : i < w.length) :
    ⌊(n : K) * (w.getD i 0 / sum w)⌋ ≤ (copies (systematic w n u) i : Int) ∧
    (copies (systematic w n u) i : Int) ≤ ⌈(n : K) * (w.getD i 0 / sum w)⌉ := by
  rw [systematic_count_formula w n u hw hs hu0 hu1 i hi]
  set y := (n : K) * ((cumsum (normalize w)).getD i 0) - u
  set d := (n : K) * (w.getD i 0 / sum w)
  constructor
  · have h1 : ((⌊y - d⌋ + ⌊d⌋ : Int) : K) ≤ y := by
      push_cast
      linarith [Int.floor_le (y - d), Int.floor_le d]
    have := Int.le_floor.mpr h1
    omega
  · have h1 : y < ((⌊y - d⌋ + 1 + ⌈d⌉ : Int) : K) := by
      push_cast
      linarith [Int.lt_floor_add_one (y - d), Int.le_ceil d]
    have := Int.floor_lt.mpr h1
    omega

/-- resampling leaves exp(log_marginal_likelihood) exactly unchanged -/
theorem resample_lml {α : Type} [Inhabited α] (c : Coll K α) (idx : List Nat)
    (hn : c.w.length ≠ 0) (hl : idx.length = c.w.length) :
    (c.resample idx).lml = c.lml := by
  have hne : (c.w.length : K) ≠ 0 := Nat.cast_ne_zero.mpr hn
  simp only [Coll.lml, Coll.resample, List.length_map, sum_map_one, hl]
  rw [div_self hne, mul_one]

/-- every field of particle j of the result is particle idx[j] of the input; weights are reset -/
theorem resample_copy {α : Type} [Inhabited α] (c : Coll K α) (idx : List Nat) (j : Nat)
    (hj : j < idx.length) :
    (c.resample idx).particles.getD j default = c.particles.getD (idx.getD j 0) default ∧
    (c.resample idx).w.getD j 0 = 1 := by
  simp [Coll.resample, hj]

theorem resample_diag {α : Type} [Inhabited α] (c : Coll K α) (idx : List Nat) :
    (c.resample idx).diag = normalize c.w ∧ (c.resample idx).particles.length = idx.length := by
  simp [Coll.resample]

end Genjax.Resample
