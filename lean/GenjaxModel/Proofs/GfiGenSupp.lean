import GenjaxModel.Proofs.GfiGenSum
/-!
  What can come out of `GF.generateD` (work package c02lawcond; the `generateD` analogue of
  `Proofs/GfiDistSupp.lean`):

  * `generateD_mass`: total mass 1 (outcome "raises" included) when the primitives are normalised,
  * `generateD_coh_canon`: every trace in the support is coherent and canonical — hence has the
    program's choice-map skeleton (`generateD_choices_skel`),
  * `generateD_nofail`: on a program without address collisions whose Conds have branches of equal
    shape and whose Vmaps accept an empty constraint, `generate` never raises when the constraint
    map is compatible with the program, i.e. when some complete choice map `y` of the program's
    shape is a completion of it,
  * `generateD_mass_some`: together — under such a constraint the successful outcomes carry all the
    mass.  This is what proper weighting needs of the HIDDEN branch of a Cond (`Cond.generate`
    runs both branches under the constraint and throws the hidden branch's weight away).
-/
namespace Genjax
open Smc Smc.FinDist

/-- Boolean form of `agO`: no constraint, or `y` is a completion of the constraint -/
def agOb (ox : Option CM) (y : CM) : Bool :=
  match ox with
  | none => true
  | some x => y.agreeWith x

theorem agO_eq_agOb {K : Type} [Field K] (ox : Option CM) (y : CM) :
    agO (K := K) ox y = if agOb ox y then 1 else 0 := by
  cases ox with
  | none => simp [agO, agOb]
  | some x => rfl

/-! ## total mass -/

section Mass
variable {K : Type} [Field K] {R : Type} [Zero R] [Add R] [Neg R]
variable (pd : PD K) (P : Prims R) (cfg : Cfg)

mutual
  theorem generateD_mass_gf (hn : pd.Normalised) : (g : GF) → ∀ (ox : Option CM) (args : List Val),
      mass (g.generateD pd P cfg ox args) = 1
    | .dist d, none, args => by
        have := hn d args
        simp only [GF.generateD, mass, E, List.map_map]
        refine Eq.trans ?_ this
        congr 1
        apply List.map_congr_left
        intro v _
        simp only [Function.comp, mul_one]
    | .dist d, some (.leaf v), args => mass_pureO _
    | .dist d, some (.node _), args => mass_failO
    | .dist d, some (.lanes _), args => mass_failO
    | .fn body, none, args => by
        simp only [GF.generateD]
        exact mass_bindO _ _ (simD_mass_body pd P hn body _ _ _) fun r => mass_pureO _
    | .fn body, some (.node xs), args => by
        simp only [GF.generateD]
        exact mass_bindO _ _ (generateD_mass_body hn body _ _ _ _ _) fun r => mass_pureO _
    | .fn body, some (.leaf _), args => mass_failO
    | .fn body, some (.lanes _), args => mass_failO
    | .vmap g axes n, none, args => by
        simp only [GF.generateD]
        split
        · exact mass_bindO _ _ (forLanesD_mass _ (fun i _ => generateD_mass_gf hn g _ _) _ _)
            fun ts => mass_pureO _
        · exact mass_failO
    | .vmap g axes n, some (.lanes xs), args => by
        simp only [GF.generateD]
        split
        · exact mass_bindO _ _ (forLanesD_mass _ (fun i _ => generateD_mass_gf hn g _ _) _ _)
            fun ts => mass_pureO _
        · exact mass_failO
    | .vmap g axes n, some (.leaf _), args => mass_failO
    | .vmap g axes n, some (.node _), args => mass_failO
    | .scan g n, none, args => by
        simp only [GF.generateD]
        refine mass_bindO _ _ (forStepsD_mass _ (fun c i _ => ?_) _ _ _) fun r => mass_pureO _
        exact mass_bindO _ _ (generateD_mass_gf hn g _ _) fun t => mass_pureO _
    | .scan g n, some (.lanes xs), args => by
        simp only [GF.generateD]
        split
        · refine mass_bindO _ _ (forStepsD_mass _ (fun c i _ => ?_) _ _ _) fun r => mass_pureO _
          exact mass_bindO _ _ (generateD_mass_gf hn g _ _) fun t => mass_pureO _
        · exact mass_failO
    | .scan g n, some (.leaf _), args => mass_failO
    | .scan g n, some (.node _), args => mass_failO
    | .cond t f, none, args => by
        simp only [GF.generateD]
        exact mass_bindO _ _ (simD_mass_gf pd P hn t _) fun a =>
          mass_bindO _ _ (simD_mass_gf pd P hn f _) fun b => mass_pureO _
    | .cond t f, some x, args => by
        simp only [GF.generateD]
        exact mass_bindO _ _ (generateD_mass_gf hn t _ _) fun a =>
          mass_bindO _ _ (generateD_mass_gf hn f _ _) fun b => mass_pureO _
  theorem generateD_mass_body (hn : pd.Normalised) : (b : Body) → ∀ (xs : CML) (env : List Val)
      (subs : TrL R) (s : R) (w : K), mass (b.generateD pd P cfg xs env subs s w) = 1
    | .ret e, xs, env, subs, s, w => mass_pureO _
    | .call addr g es rest, xs, env, subs, s, w => by
        simp only [Body.generateD]
        split
        · exact mass_failO
        · exact mass_bindO _ _ (generateD_mass_gf hn g _ _) fun t =>
            generateD_mass_body hn rest _ _ _ _ _
end

/-- **Total mass 1** (every program, every constraint map): with normalised primitives
    `generateD g ox args` is a probability distribution over outcomes (an outcome being a weighted
    trace or "the code raised"). -/
theorem generateD_mass (hn : pd.Normalised) (g : GF) (ox : Option CM) (args : List Val) :
    mass (g.generateD pd P cfg ox args) = 1 :=
  generateD_mass_gf pd P cfg hn g ox args

end Mass

/-! ## the support: coherent, canonical traces -/

section Coh
variable {K : Type} [Field K] {R : Type} [AddCommGroup R]
variable (pd : PD K) (P : Prims R) (cfg : Cfg)

mutual
  theorem generateD_cc_gf : (g : GF) → ∀ (ox : Option CM) (args : List Val) (tw : Tr R × K),
      some tw ∈ supp (g.generateD pd P cfg ox args) → g.Coh P args tw.1 ∧ g.Canon tw.1
    | .dist d, none, args, tw, h => by
        simp only [GF.generateD, supp, List.map_map, List.mem_map, Function.comp,
          Option.some.injEq] at h
        obtain ⟨v, _, rfl⟩ := h
        simp [GF.Coh, GF.Canon]
    | .dist d, some (.leaf v), args, tw, h => by
        simp only [GF.generateD] at h
        cases mem_supp_pureO h
        simp [GF.Coh, GF.Canon]
    | .dist d, some (.node _), args, tw, h => by
        simp only [GF.generateD] at h
        cases mem_supp_failO h
    | .dist d, some (.lanes _), args, tw, h => by
        simp only [GF.generateD] at h
        cases mem_supp_failO h
    | .fn body, none, args, tw, h => by
        simp only [GF.generateD] at h
        obtain ⟨r, hr, h⟩ := mem_supp_bindO h
        cases mem_supp_pureO h
        simp only [GF.Coh, GF.Canon]
        exact ⟨BodyInv.final P (simD_inv_body pd P body _ _ _ _ hr),
          (simD_canon_body pd P body _ _ _ _ hr).final⟩
    | .fn body, some (.node xs), args, tw, h => by
        simp only [GF.generateD] at h
        obtain ⟨r, hr, h⟩ := mem_supp_bindO h
        cases mem_supp_pureO h
        simp only [GF.Coh, GF.Canon]
        have := generateD_cc_body body _ _ _ _ _ _ hr
        exact ⟨BodyInv.final P this.1, this.2.final⟩
    | .fn body, some (.leaf _), args, tw, h => by
        simp only [GF.generateD] at h
        cases mem_supp_failO h
    | .fn body, some (.lanes _), args, tw, h => by
        simp only [GF.generateD] at h
        cases mem_supp_failO h
    | .vmap g axes n, none, args, tw, h => by
        simp only [GF.generateD] at h
        split at h
        · obtain ⟨ts, hts, h⟩ := mem_supp_bindO h
          cases mem_supp_pureO h
          simp only [GF.Coh, GF.Canon, TrL.toList_ofList]
          have := forLanesD_lanesCoh _ (·.1) (fun a t => g.Coh P a t) axes args
            (fun j _ b hb => (generateD_cc_gf g _ _ _ hb).1) _ _ _ hts
          refine ⟨by simpa using this, lanesCanon_map _ _ _ ?_⟩
          exact forLanesD_forall_fd _ (fun p : Tr R × K => g.Canon p.1)
            (fun i _ b hb => (generateD_cc_gf g _ _ _ hb).2) _ _ _ hts
        · cases mem_supp_failO h
    | .vmap g axes n, some (.lanes xs), args, tw, h => by
        simp only [GF.generateD] at h
        split at h
        · rename_i hlen
          obtain ⟨ts, hts, h⟩ := mem_supp_bindO h
          cases mem_supp_pureO h
          simp only [GF.Coh, GF.Canon, TrL.toList_ofList]
          have := forLanesD_lanesCoh _ (·.1) (fun a t => g.Coh P a t) axes args
            (fun j _ b hb => (generateD_cc_gf g _ _ _ hb).1) _ _ _ hts
          refine ⟨by simpa [hlen] using this, lanesCanon_map _ _ _ ?_⟩
          exact forLanesD_forall_fd _ (fun p : Tr R × K => g.Canon p.1)
            (fun i _ b hb => (generateD_cc_gf g _ _ _ hb).2) _ _ _ hts
        · cases mem_supp_failO h
    | .vmap g axes n, some (.leaf _), args, tw, h => by
        simp only [GF.generateD] at h
        cases mem_supp_failO h
    | .vmap g axes n, some (.node _), args, tw, h => by
        simp only [GF.generateD] at h
        cases mem_supp_failO h
    | .scan g n, none, args, tw, h => by
        simp only [GF.generateD] at h
        obtain ⟨r, hr, h⟩ := mem_supp_bindO h
        cases mem_supp_pureO h
        simp only [GF.Coh, GF.Canon, TrL.toList_ofList]
        have := forStepsD_stepsCoh _ (·.1) (fun a t => g.Coh P a t) (args.getD 1 .nil)
          (fun c j _ p hp => by
            obtain ⟨t, ht, hp⟩ := mem_supp_bindO hp
            cases mem_supp_pureO hp
            exact ⟨(generateD_cc_gf g _ _ _ ht).1, rfl⟩) _ _ _ _ hr
        refine ⟨by simpa using this, lanesCanon_map _ _ _ ?_⟩
        refine forStepsD_forall_fd _ (fun p : Tr R × K => g.Canon p.1) (fun c i _ p hp => ?_) _ _ _ _ hr
        obtain ⟨t, ht, hp⟩ := mem_supp_bindO hp
        cases mem_supp_pureO hp
        exact (generateD_cc_gf g _ _ _ ht).2
    | .scan g n, some (.lanes xs), args, tw, h => by
        simp only [GF.generateD] at h
        split at h
        · rename_i hlen
          obtain ⟨r, hr, h⟩ := mem_supp_bindO h
          cases mem_supp_pureO h
          simp only [GF.Coh, GF.Canon, TrL.toList_ofList]
          have := forStepsD_stepsCoh _ (·.1) (fun a t => g.Coh P a t) (args.getD 1 .nil)
            (fun c j _ p hp => by
              obtain ⟨t, ht, hp⟩ := mem_supp_bindO hp
              cases mem_supp_pureO hp
              exact ⟨(generateD_cc_gf g _ _ _ ht).1, rfl⟩) _ _ _ _ hr
          refine ⟨by simpa [hlen] using this, lanesCanon_map _ _ _ ?_⟩
          refine forStepsD_forall_fd _ (fun p : Tr R × K => g.Canon p.1) (fun c i _ p hp => ?_)
            _ _ _ _ hr
          obtain ⟨t, ht, hp⟩ := mem_supp_bindO hp
          cases mem_supp_pureO hp
          exact (generateD_cc_gf g _ _ _ ht).2
        · cases mem_supp_failO h
    | .scan g n, some (.leaf _), args, tw, h => by
        simp only [GF.generateD] at h
        cases mem_supp_failO h
    | .scan g n, some (.node _), args, tw, h => by
        simp only [GF.generateD] at h
        cases mem_supp_failO h
    | .cond t f, none, args, tw, h => by
        simp only [GF.generateD] at h
        obtain ⟨a, ha, h⟩ := mem_supp_bindO h
        obtain ⟨b, hb, h⟩ := mem_supp_bindO h
        cases mem_supp_pureO h
        simp only [GF.Coh, GF.Canon]
        exact ⟨⟨trivial, simD_coh_gf pd P t _ _ ha, simD_coh_gf pd P f _ _ hb⟩,
          simD_canon_gf pd P t _ _ ha, simD_canon_gf pd P f _ _ hb⟩
    | .cond t f, some x, args, tw, h => by
        simp only [GF.generateD] at h
        obtain ⟨a, ha, h⟩ := mem_supp_bindO h
        obtain ⟨b, hb, h⟩ := mem_supp_bindO h
        cases mem_supp_pureO h
        simp only [GF.Coh, GF.Canon]
        have h1 := generateD_cc_gf t _ _ _ ha
        have h2 := generateD_cc_gf f _ _ _ hb
        exact ⟨⟨trivial, h1.1, h2.1⟩, h1.2, h2.2⟩
  theorem generateD_cc_body : (b : Body) → ∀ (xs : CML) (env : List Val) (subs : TrL R) (s : R)
      (w : K) (r : TrL R × Val × R × K), some r ∈ supp (b.generateD pd P cfg xs env subs s w) →
      BodyInv P b env subs s r.1 r.2.1 r.2.2.1 ∧ BodyCanonInv b subs r.1
    | .ret e, xs, env, subs, s, w, r, h => by
        simp only [Body.generateD] at h
        cases mem_supp_pureO h
        exact ⟨BodyInv.ret P e env subs s, BodyCanonInv.ret e subs⟩
    | .call addr g es rest, xs, env, subs, s, w, r, h => by
        simp only [Body.generateD] at h
        split at h
        · cases mem_supp_failO h
        · rename_i hn
          obtain ⟨tw, ht, hrest⟩ := mem_supp_bindO h
          have h1 := generateD_cc_gf g _ _ _ ht
          have h2 := generateD_cc_body rest _ _ _ _ _ _ hrest
          exact ⟨BodyInv.call P (by simpa using hn) h1.1 h2.1, BodyCanonInv.call h1.2 h2.2⟩
end

/-- every trace `generateD` can produce is coherent and of the shape the operations build -/
theorem generateD_coh_canon (g : GF) (ox : Option CM) (args : List Val) (tw : Tr R × K)
    (h : some tw ∈ supp (g.generateD pd P cfg ox args)) : g.Coh P args tw.1 ∧ g.Canon tw.1 :=
  generateD_cc_gf pd P cfg g ox args tw h

/-- the choice map of every trace `generateD` can produce has the program's static skeleton -/
theorem generateD_choices_skel (g : GF) (ox : Option CM) (args : List Val) (tw : Tr R × K)
    (h : some tw ∈ supp (g.generateD pd P cfg ox args)) : tw.1.choices.map CM.skel = g.skel :=
  canon_choices_skel P g args tw.1 (generateD_cc_gf pd P cfg g ox args tw h).2
    (generateD_cc_gf pd P cfg g ox args tw h).1

end Coh

/-! ## never raising under a compatible constraint -/

section NoFailAux
variable {K : Type} [Field K] {β : Type}

theorem CML.agreePosWith_length : ∀ (l xs : CML), l.agreePosWith xs = true →
    xs.toList.length = l.toList.length
  | .nil, .nil, _ => rfl
  | .nil, .cons _ _ _, h => by simp [CML.agreePosWith] at h
  | .cons _ _ _, .nil, h => by simp [CML.agreePosWith] at h
  | .cons _ y rest, .cons _ x xr, h => by
      simp only [CML.agreePosWith, Bool.and_eq_true] at h
      simp [CML.toList, CML.agreePosWith_length rest xr h.2]

theorem forLanesD_nofail_mem {α : Type} (f : Nat → α → FinDist K (Option β)) :
    ∀ (l : List α) (i : Nat), (∀ j, ∀ a ∈ l, none ∉ supp (f j a)) → none ∉ supp (forLanesD f i l)
  | [], i, _ => none_not_mem_supp_pureO _
  | a :: as, i, hf => by
      simp only [forLanesD]
      intro h
      rcases none_mem_supp_bindO h with h | ⟨b, _, h⟩
      · exact hf _ _ List.mem_cons_self h
      · rcases none_mem_supp_bindO h with h | ⟨bs, _, h⟩
        · exact forLanesD_nofail_mem f as (i + 1) (fun j a ha => hf j a (List.mem_cons_of_mem _ ha)) h
        · exact none_not_mem_supp_pureO _ h

theorem forStepsD_nofail_mem {α : Type} (f : Val → Nat → α → FinDist K (Option (β × Val))) :
    ∀ (l : List α) (c : Val) (i : Nat), (∀ c j, ∀ a ∈ l, none ∉ supp (f c j a)) →
      none ∉ supp (forStepsD f c i l)
  | [], c, i, _ => none_not_mem_supp_pureO _
  | a :: as, c, i, hf => by
      simp only [forStepsD]
      intro h
      rcases none_mem_supp_bindO h with h | ⟨p, _, h⟩
      · exact hf _ _ _ List.mem_cons_self h
      · rcases none_mem_supp_bindO h with h | ⟨q, _, h⟩
        · exact forStepsD_nofail_mem f as p.2 (i + 1)
            (fun c j a ha => hf c j a (List.mem_cons_of_mem _ ha)) h
        · exact none_not_mem_supp_pureO _ h

/-- positional version: lane `j` runs under the constraint `xs[j]`, of which `l[j]` is a completion -/
theorem forLanesD_nofail_pos (f : Nat → CM → FinDist K (Option β)) :
    ∀ (xs l : CML) (i : Nat), l.agreePosWith xs = true →
      (∀ j x y, y ∈ l.toList → y.agreeWith x = true → none ∉ supp (f j x)) →
      none ∉ supp (forLanesD f i xs.toList)
  | .nil, _, i, _, _ => none_not_mem_supp_pureO _
  | .cons _ x xr, .nil, i, h, _ => by simp [CML.agreePosWith] at h
  | .cons _ x xr, .cons _ y rest, i, h, hf => by
      simp only [CML.agreePosWith, Bool.and_eq_true] at h
      simp only [CML.toList, forLanesD]
      intro hn
      rcases none_mem_supp_bindO hn with hn | ⟨b, _, hn⟩
      · exact hf i x y (by simp [CML.toList]) h.1 hn
      · rcases none_mem_supp_bindO hn with hn | ⟨bs, _, hn⟩
        · exact forLanesD_nofail_pos f xr rest (i + 1) h.2
            (fun j x' y' hy' => hf j x' y' (by simp [CML.toList, hy'])) hn
        · exact none_not_mem_supp_pureO _ hn

theorem forStepsD_nofail_pos (f : Val → Nat → CM → FinDist K (Option (β × Val))) :
    ∀ (xs l : CML) (c : Val) (i : Nat), l.agreePosWith xs = true →
      (∀ c j x y, y ∈ l.toList → y.agreeWith x = true → none ∉ supp (f c j x)) →
      none ∉ supp (forStepsD f c i xs.toList)
  | .nil, _, c, i, _, _ => none_not_mem_supp_pureO _
  | .cons _ x xr, .nil, c, i, h, _ => by simp [CML.agreePosWith] at h
  | .cons _ x xr, .cons _ y rest, c, i, h, hf => by
      simp only [CML.agreePosWith, Bool.and_eq_true] at h
      simp only [CML.toList, forStepsD]
      intro hn
      rcases none_mem_supp_bindO hn with hn | ⟨p, _, hn⟩
      · exact hf c i x y (by simp [CML.toList]) h.1 hn
      · rcases none_mem_supp_bindO hn with hn | ⟨q, _, hn⟩
        · exact forStepsD_nofail_pos f xr rest p.2 (i + 1) h.2
            (fun c j x' y' hy' => hf c j x' y' (by simp [CML.toList, hy'])) hn
        · exact none_not_mem_supp_pureO _ hn

/-- both branches of a Cond with equal branch skeletons have the Cond's skeleton -/
theorem cond_skel_branches {t f : GF} (hsk : t.skel = f.skel) {y : CM}
    (hs : (GF.cond t f).skel = some y.skel) : t.skel = some y.skel ∧ f.skel = some y.skel := by
  have hts : t.skel = some y.skel := by
    simp only [GF.skel, Option.bind_eq_bind, Option.bind_eq_some_iff] at hs
    obtain ⟨a, ha, b, hb, hm⟩ := hs
    rw [hsk, hb] at ha
    cases ha
    rw [CM.mergeCheck_same true a a rfl] at hm
    simp only [if_true, Option.some.injEq] at hm
    rw [hsk, hb, hm]
  exact ⟨hts, hsk ▸ hts⟩

end NoFailAux

section NoFail
variable {K : Type} [Field K] {R : Type} [AddCommGroup R]
variable (pd : PD K) (P : Prims R) (cfg : Cfg)

mutual
  theorem generateD_nofail_gf : (g : GF) → g.noCollide = true → g.condOK = true →
      g.vmapOK cfg = true → ∀ (ox : Option CM) (y : CM) (args : List Val),
      g.skel = some y.skel → agOb ox y = true → none ∉ supp (g.generateD pd P cfg ox args)
    | .dist d, _, _, _, none, y, args, _, _ => by
        simp [GF.generateD, supp]
    | .dist d, _, _, _, some x, y, args, hs, ha => by
        simp only [GF.skel, Option.some.injEq] at hs
        obtain ⟨v0, rfl⟩ := CM.skel_leaf hs
        cases x with
        | leaf v => simp only [GF.generateD]; exact none_not_mem_supp_pureO _
        | node xs => simp [agOb, CM.agreeWith] at ha
        | lanes xs => simp [agOb, CM.agreeWith] at ha
    | .fn body, hn, _, _, none, y, args, _, _ => by
        simp only [GF.noCollide, Bool.and_eq_true, decide_eq_true_eq] at hn
        simp only [GF.generateD]
        intro h
        rcases none_mem_supp_bindO h with h | ⟨r, _, h⟩
        · exact simD_nofail_body pd P body hn.2 hn.1 _ _ _ (fun a _ => rfl) h
        · exact none_not_mem_supp_pureO _ h
    | .fn body, hn, hc, hv, some x, y, args, hs, ha => by
        simp only [GF.noCollide, Bool.and_eq_true, decide_eq_true_eq] at hn
        simp only [GF.condOK] at hc
        simp only [GF.vmapOK] at hv
        simp only [GF.skel, Option.map_eq_some_iff] at hs
        obtain ⟨s, hbs, hs⟩ := hs
        obtain ⟨X, rfl, rfl⟩ := CM.skel_node hs
        cases x with
        | leaf v => simp [agOb, CM.agreeWith] at ha
        | lanes xs => simp [agOb, CM.agreeWith] at ha
        | node xs =>
          simp only [agOb, CM.agreeWith] at ha
          simp only [GF.generateD]
          intro h
          rcases none_mem_supp_bindO h with h | ⟨r, _, h⟩
          · exact generateD_nofail_body body hn.2 hc hv hn.1 xs X _ _ _ _ hbs ha (fun a _ => rfl) h
          · exact none_not_mem_supp_pureO _ h
    | .vmap g axes n, hn, hc, hv, none, y, args, hs, _ => by
        simp only [GF.noCollide] at hn
        simp only [GF.condOK] at hc
        simp only [GF.vmapOK, Bool.and_eq_true] at hv
        simp only [GF.skel, Option.map_eq_some_iff] at hs
        obtain ⟨s, hls, hs⟩ := hs
        obtain ⟨l, rfl, rfl⟩ := CM.skel_lanes hs
        obtain ⟨hl1, hl2, hl3⟩ := skelLanes_eq hls
        simp only [GF.generateD, hv.1, if_true]
        intro h
        rcases none_mem_supp_bindO h with h | ⟨r, _, h⟩
        · refine forLanesD_nofail_mem _ _ _ (fun j a ha => ?_) h
          have hpos : 0 < l.toList.length := by
            rw [hl2]
            cases n with
            | zero => simp at ha
            | succ m => exact Nat.succ_pos m
          obtain ⟨y0, hy0⟩ := List.exists_mem_of_length_pos hpos
          exact generateD_nofail_gf g hn hc hv.2 none y0 _ (hl3 y0 hy0) rfl
        · exact none_not_mem_supp_pureO _ h
    | .vmap g axes n, hn, hc, hv, some x, y, args, hs, ha => by
        simp only [GF.noCollide] at hn
        simp only [GF.condOK] at hc
        simp only [GF.vmapOK, Bool.and_eq_true] at hv
        simp only [GF.skel, Option.map_eq_some_iff] at hs
        obtain ⟨s, hls, hs⟩ := hs
        obtain ⟨l, rfl, rfl⟩ := CM.skel_lanes hs
        obtain ⟨hl1, hl2, hl3⟩ := skelLanes_eq hls
        cases x with
        | leaf v => simp [agOb, CM.agreeWith] at ha
        | node xs => simp [agOb, CM.agreeWith] at ha
        | lanes xs =>
          simp only [agOb, CM.agreeWith] at ha
          have hlen : xs.toList.length = n := (CML.agreePosWith_length l xs ha).trans hl2
          simp only [GF.generateD, hlen, if_true]
          intro h
          rcases none_mem_supp_bindO h with h | ⟨r, _, h⟩
          · exact forLanesD_nofail_pos _ xs l 0 ha
              (fun j x' y' hy' hag =>
                generateD_nofail_gf g hn hc hv.2 (some x') y' _ (hl3 y' hy') hag) h
          · exact none_not_mem_supp_pureO _ h
    | .scan g n, hn, hc, hv, none, y, args, hs, _ => by
        simp only [GF.noCollide] at hn
        simp only [GF.condOK] at hc
        simp only [GF.vmapOK] at hv
        simp only [GF.skel, Option.map_eq_some_iff] at hs
        obtain ⟨s, hls, hs⟩ := hs
        obtain ⟨l, rfl, rfl⟩ := CM.skel_lanes hs
        obtain ⟨hl1, hl2, hl3⟩ := skelLanes_eq hls
        simp only [GF.generateD]
        intro h
        rcases none_mem_supp_bindO h with h | ⟨r, _, h⟩
        · refine forStepsD_nofail_mem _ _ _ _ (fun c j a ha h' => ?_) h
          have hpos : 0 < l.toList.length := by
            rw [hl2]
            cases n with
            | zero => simp at ha
            | succ m => exact Nat.succ_pos m
          obtain ⟨y0, hy0⟩ := List.exists_mem_of_length_pos hpos
          rcases none_mem_supp_bindO h' with h' | ⟨t, _, h'⟩
          · exact generateD_nofail_gf g hn hc hv none y0 _ (hl3 y0 hy0) rfl h'
          · exact none_not_mem_supp_pureO _ h'
        · exact none_not_mem_supp_pureO _ h
    | .scan g n, hn, hc, hv, some x, y, args, hs, ha => by
        simp only [GF.noCollide] at hn
        simp only [GF.condOK] at hc
        simp only [GF.vmapOK] at hv
        simp only [GF.skel, Option.map_eq_some_iff] at hs
        obtain ⟨s, hls, hs⟩ := hs
        obtain ⟨l, rfl, rfl⟩ := CM.skel_lanes hs
        obtain ⟨hl1, hl2, hl3⟩ := skelLanes_eq hls
        cases x with
        | leaf v => simp [agOb, CM.agreeWith] at ha
        | node xs => simp [agOb, CM.agreeWith] at ha
        | lanes xs =>
          simp only [agOb, CM.agreeWith] at ha
          have hlen : xs.toList.length = n := (CML.agreePosWith_length l xs ha).trans hl2
          simp only [GF.generateD, hlen, if_true]
          intro h
          rcases none_mem_supp_bindO h with h | ⟨r, _, h⟩
          · refine forStepsD_nofail_pos _ xs l _ 0 ha (fun c j x' y' hy' hag h' => ?_) h
            rcases none_mem_supp_bindO h' with h' | ⟨t, _, h'⟩
            · exact generateD_nofail_gf g hn hc hv (some x') y' _ (hl3 y' hy') hag h'
            · exact none_not_mem_supp_pureO _ h'
          · exact none_not_mem_supp_pureO _ h
    | .cond t f, hn, _, _, none, y, args, _, _ => by
        simp only [GF.noCollide, Bool.and_eq_true] at hn
        simp only [GF.generateD]
        intro h
        rcases none_mem_supp_bindO h with h | ⟨a, _, h⟩
        · exact simD_nofail_gf pd P t hn.1 _ h
        · rcases none_mem_supp_bindO h with h | ⟨b, _, h⟩
          · exact simD_nofail_gf pd P f hn.2 _ h
          · exact none_not_mem_supp_pureO _ h
    | .cond t f, hn, hc, hv, some x, y, args, hs, ha => by
        simp only [GF.noCollide, Bool.and_eq_true] at hn
        simp only [GF.condOK, Bool.and_eq_true, decide_eq_true_eq] at hc
        obtain ⟨⟨⟨⟨hct, hcf⟩, hsk⟩, _⟩, _⟩ := hc
        simp only [GF.vmapOK, Bool.and_eq_true] at hv
        obtain ⟨hts, hfs⟩ := cond_skel_branches hsk hs
        simp only [GF.generateD]
        intro h
        rcases none_mem_supp_bindO h with h | ⟨a, _, h⟩
        · exact generateD_nofail_gf t hn.1 hct hv.1 (some x) y _ hts ha h
        · rcases none_mem_supp_bindO h with h | ⟨b, _, h⟩
          · exact generateD_nofail_gf f hn.2 hcf hv.2 (some x) y _ hfs ha h
          · exact none_not_mem_supp_pureO _ h
  theorem generateD_nofail_body : (b : Body) → b.noCollide = true → b.condOK = true →
      b.vmapOK cfg = true → b.addrs.Nodup → ∀ (xs rem : CML) (env : List Val) (subs : TrL R)
      (s : R) (w : K), b.skel = some rem.skel → rem.agreeAllWith xs = true →
      (∀ a ∈ b.addrs, subs.find? a = none) → none ∉ supp (b.generateD pd P cfg xs env subs s w)
    | .ret e, _, _, _, _, xs, rem, env, subs, s, w, _, _, _ => none_not_mem_supp_pureO _
    | .call addr g es rest, hn, hc, hv, hnd, xs, rem, env, subs, s, w, hs, ha, hfresh => by
        simp only [Body.noCollide, Bool.and_eq_true] at hn
        simp only [Body.condOK, Bool.and_eq_true] at hc
        simp only [Body.vmapOK, Bool.and_eq_true] at hv
        simp only [Body.addrs, List.nodup_cons] at hnd
        simp only [Body.skel, Option.bind_eq_bind, Option.pure_def, Option.bind_eq_some_iff,
          Option.some.injEq] at hs
        obtain ⟨gs, hgs, rs, hrs, hs⟩ := hs
        obtain ⟨c, rem', rfl, rfl, rfl⟩ := CML.skel_eq_cons hs.symm
        simp only [CML.agreeAllWith, Bool.and_eq_true] at ha
        simp only [Body.generateD, hfresh addr (by simp [Body.addrs]), Option.isSome_none,
          Bool.false_eq_true, if_false]
        intro h
        rcases none_mem_supp_bindO h with h | ⟨tw, _, h⟩
        · refine generateD_nofail_gf g hn.1 hc.1 hv.1 (xs.find? addr) c _ hgs ?_ h
          cases hx : xs.find? addr with
          | none => rfl
          | some x => rw [hx] at ha; exact ha.1
        · refine generateD_nofail_body rest hn.2 hc.2 hv.2 hnd.2 xs rem' _ _ _ _ hrs ha.2
            (fun a ha' => ?_) h
          refine TrL.find?_snoc_none (hfresh a (by simp [Body.addrs, ha'])) ?_
          rintro rfl
          exact hnd.1 ha'
end

/-- **`generate` never raises under a compatible constraint**: program without address collisions,
    Conds with branches of equal shape, Vmaps accepting an empty constraint, and the constraint map
    has a completion `y` of the program's shape (or there is no constraint). -/
theorem generateD_nofail (g : GF) (hn : g.noCollide = true) (hc : g.condOK = true)
    (hv : g.vmapOK cfg = true) (ox : Option CM) (y : CM) (args : List Val)
    (hs : g.skel = some y.skel) (ha : agOb ox y = true) :
    none ∉ supp (g.generateD pd P cfg ox args) :=
  generateD_nofail_gf pd P cfg g hn hc hv ox y args hs ha

/-- under such a constraint the successful outcomes of `generate` carry all the mass -/
theorem generateD_mass_some (hnorm : pd.Normalised) (g : GF) (hn : g.noCollide = true)
    (hc : g.condOK = true) (hv : g.vmapOK cfg = true) (ox : Option CM) (y : CM) (args : List Val)
    (hs : g.skel = some y.skel) (ha : agOb ox y = true) :
    E (g.generateD pd P cfg ox args) (optK fun _ => (1 : K)) = 1 := by
  have h1 := generateD_mass pd P cfg hnorm g ox args
  unfold mass at h1
  refine Eq.trans ?_ h1
  apply E_congr_supp
  intro o ho
  cases o with
  | none => exact absurd ho (generateD_nofail pd P cfg g hn hc hv ox y args hs ha)
  | some t => rfl

theorem generateD_const (hnorm : pd.Normalised) (g : GF) (hn : g.noCollide = true)
    (hc : g.condOK = true) (hv : g.vmapOK cfg = true) (ox : Option CM) (y : CM) (args : List Val)
    (hs : g.skel = some y.skel) (ha : agOb ox y = true) (C : K) :
    E (g.generateD pd P cfg ox args) (optK fun _ => C) = C := by
  have := E_optK_mul_left (g.generateD pd P cfg ox args) C (fun _ => 1)
  simp only [mul_one] at this
  rw [this, generateD_mass_some pd P cfg hnorm g hn hc hv ox y args hs ha, mul_one]

end NoFail

end Genjax
