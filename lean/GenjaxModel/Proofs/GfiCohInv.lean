import GenjaxModel.Proofs.GfiDefs
/-! Coherence is an invariant of every GFI operation of the model (L1–L4). -/
namespace Genjax
variable {R : Type} [AddCommGroup R] (P : Prims R) (cfg : Cfg)

/-! ### helpers -/

omit [AddCommGroup R] in
theorem TrL.find?_snoc_of_some {subs : TrL R} {a k : String} {t t' : Tr R}
    (h : subs.find? a = some t) : (subs.snoc k t').find? a = some t := by
  fun_induction TrL.snoc subs k t' with
  | case1 => simp [TrL.find?] at h
  | case2 k' t'' rest k t' ih =>
    simp only [TrL.find?] at h ⊢
    split
    · simp_all
    · simp_all

omit [AddCommGroup R] in
theorem TrL.find?_snoc_self {subs : TrL R} {k : String} {t : Tr R}
    (h : subs.find? k = none) : (subs.snoc k t).find? k = some t := by
  fun_induction TrL.snoc subs k t with
  | case1 => simp [TrL.find?]
  | case2 k' t'' rest k t ih =>
    simp only [TrL.find?] at h ⊢
    split
    · simp_all
    · simp_all

omit [AddCommGroup R] in
theorem TrL.toList_ofList (ts : List (Tr R)) : (TrL.ofList ts).toList = ts := by
  induction ts with
  | nil => rfl
  | cons t ts ih => simp [TrL.ofList, TrL.toList, ih]

/-- invariant of the body handler loops -/
def BodyInv (b : Body) (env : List Val) (subs : TrL R) (s : R) (subs' : TrL R) (r : Val) (s' : R) : Prop :=
  (∀ a t, subs.find? a = some t → subs'.find? a = some t) ∧
  (∀ a, (subs.find? a).isSome → a ∉ b.addrs) ∧
  b.Coh P env subs' ∧ r = b.retOf env subs' ∧ s' = s + b.scoreOf subs'

theorem BodyInv.ret (e : Expr) (env : List Val) (subs : TrL R) (s : R) :
    BodyInv P (.ret e) env subs s subs (e.eval env) s := by
  refine ⟨fun _ _ h => h, ?_, ?_, ?_, ?_⟩ <;> simp [Body.addrs, Body.Coh, Body.retOf, Body.scoreOf]

theorem BodyInv.call {addr : String} {g : GF} {es : List Expr} {rest : Body} {env : List Val}
    {subs : TrL R} {s : R} {t : Tr R} {subs' : TrL R} {r : Val} {s' : R}
    (hn : (subs.find? addr).isSome = false)
    (hg : g.Coh P (es.map (·.eval env)) t)
    (h : BodyInv P rest (env ++ [t.retval]) (subs.snoc addr t) (s + t.score) subs' r s') :
    BodyInv P (.call addr g es rest) env subs s subs' r s' := by
  obtain ⟨hmono, hfresh, hcoh, hr, hs⟩ := h
  have hn' : subs.find? addr = none := by simpa using hn
  have hself : subs'.find? addr = some t := hmono _ _ (TrL.find?_snoc_self hn')
  refine ⟨fun a u h => hmono _ _ (TrL.find?_snoc_of_some h), ?_, ?_, ?_, ?_⟩
  · intro a ha
    simp only [Body.addrs, List.mem_cons, not_or]
    constructor
    · rintro rfl; simp [hn'] at ha
    · apply hfresh
      obtain ⟨u, hu⟩ := Option.isSome_iff_exists.mp ha
      simp [TrL.find?_snoc_of_some hu]
  · simp only [Body.Coh]
    refine ⟨?_, t, hself, hg, hcoh⟩
    apply hfresh
    simp [TrL.find?_snoc_self hn']
  · simp only [Body.retOf, hself]; exact hr
  · simp only [Body.scoreOf, hself]; rw [hs]; abel

theorem BodyInv.final {b : Body} {env : List Val} {subs : TrL R} {r : Val} {s : R}
    (h : BodyInv P b env .nil 0 subs r s) :
    b.Coh P env subs ∧ r = b.retOf env subs ∧ s = b.scoreOf subs := by
  obtain ⟨_, _, hcoh, hr, hs⟩ := h
  exact ⟨hcoh, hr, by simpa using hs⟩

omit [AddCommGroup R] in
theorem forLanes_lanesCoh {α β : Type} (f : Nat → α → Option β) (proj : β → Tr R)
    (coh : List Val → Tr R → Prop) (axes : List Bool) (args : List Val)
    (hf : ∀ j a b, f j a = some b → coh (laneArgs axes args j) (proj b)) :
    ∀ (l : List α) (i : Nat) (bs : List β), forLanes f i l = some bs →
      bs.length = l.length ∧ lanesCoh coh axes args i (bs.map proj) := by
  intro l
  induction l with
  | nil => intro i bs h; simp [forLanes] at h; subst h; simp [lanesCoh]
  | cons a as ih =>
    intro i bs h
    simp only [forLanes, Option.bind_eq_bind, Option.bind_eq_some_iff, Option.pure_def, Option.some.injEq] at h
    obtain ⟨b, hb, bs', hbs, rfl⟩ := h
    obtain ⟨hl, hc⟩ := ih _ _ hbs
    exact ⟨by simp [hl], by simp only [List.map_cons, lanesCoh]; exact ⟨hf _ _ _ hb, hc⟩⟩

omit [AddCommGroup R] in
theorem forSteps_stepsCoh {α β : Type} (f : Val → Nat → α → Option (β × Val)) (proj : β → Tr R)
    (coh : List Val → Tr R → Prop) (xs : Val)
    (hf : ∀ c j a b c2, f c j a = some (b, c2) → coh [c, xs.nth j] (proj b) ∧ c2 = (proj b).retval.fst) :
    ∀ (l : List α) (c : Val) (i : Nat) (bs : List β) (c' : Val), forSteps f c i l = some (bs, c') →
      bs.length = l.length ∧ stepsCoh coh xs c i (bs.map proj) c' := by
  intro l
  induction l with
  | nil => intro c i bs c' h; simp [forSteps] at h; obtain ⟨rfl, rfl⟩ := h; simp [stepsCoh]
  | cons a as ih =>
    intro c i bs c' h
    simp only [forSteps, Option.bind_eq_bind, Option.bind_eq_some_iff, Option.pure_def, Option.some.injEq] at h
    obtain ⟨⟨b, c2⟩, hb, ⟨bs', c3⟩, hbs, heq⟩ := h
    simp only [Prod.mk.injEq] at heq
    obtain ⟨rfl, rfl⟩ := heq
    obtain ⟨hl, hc⟩ := ih _ _ _ _ hbs
    obtain ⟨h1, rfl⟩ := hf _ _ _ _ _ hb
    exact ⟨by simp [hl], by simp only [List.map_cons, stepsCoh]; exact ⟨h1, hc⟩⟩


mutual
theorem simulate_coh' : ∀ (g : GF) (args : List Val) (t : Tr R),
    g.simulate P args = some t → g.Coh P args t
  | .dist d, args, t, h => by
    simp only [GF.simulate, Option.some.injEq] at h
    subst h; simp [GF.Coh]
  | .fn body, args, t, h => by
    simp only [GF.simulate, Option.bind_eq_bind, Option.bind_eq_some_iff, Option.pure_def, Option.some.injEq] at h
    obtain ⟨⟨subs, r, s⟩, hb, rfl⟩ := h
    simp only [GF.Coh]
    exact BodyInv.final P (body_simulate_inv body _ _ _ _ _ _ hb)
  | .vmap g axes n, args, t, h => by
    simp only [GF.simulate, Option.bind_eq_bind, Option.bind_eq_some_iff, Option.pure_def, Option.some.injEq] at h
    obtain ⟨ts, hts, rfl⟩ := h
    simp only [GF.Coh, TrL.toList_ofList]
    have := forLanes_lanesCoh _ id (fun a t => g.Coh P a t) axes args
      (fun j _ b hb => simulate_coh' g _ _ hb) _ _ _ hts
    simpa using this
  | .scan g n, args, t, h => by
    simp only [GF.simulate, Option.bind_eq_bind, Option.bind_eq_some_iff, Option.pure_def, Option.some.injEq] at h
    obtain ⟨⟨ts, c⟩, hts, rfl⟩ := h
    simp only [GF.Coh, TrL.toList_ofList]
    have := forSteps_stepsCoh _ id (fun a t => g.Coh P a t) (args.getD 1 .nil)
      (fun c j _ b c2 hb => by
        simp only [Option.bind_eq_some_iff, Option.some.injEq, Prod.mk.injEq] at hb
        obtain ⟨t, ht, rfl, rfl⟩ := hb
        exact ⟨simulate_coh' g _ _ ht, rfl⟩) _ _ _ _ _ hts
    simpa using this
  | .cond t f, args, tr, h => by
    simp only [GF.simulate, Option.bind_eq_bind, Option.bind_eq_some_iff, Option.pure_def, Option.some.injEq] at h
    obtain ⟨a, ha, b, hb, rfl⟩ := h
    simp only [GF.Coh]
    exact ⟨trivial, simulate_coh' t _ _ ha, simulate_coh' f _ _ hb⟩
theorem body_simulate_inv : ∀ (b : Body) (env : List Val) (subs : TrL R) (s : R) (subs' : TrL R) (r : Val) (s' : R),
    b.simulate P env subs s = some (subs', r, s') → BodyInv P b env subs s subs' r s'
  | .ret e, env, subs, s, subs', r, s', h => by
    simp only [Body.simulate, Option.some.injEq, Prod.mk.injEq] at h
    obtain ⟨rfl, rfl, rfl⟩ := h
    exact BodyInv.ret P e env subs s
  | .call addr g es rest, env, subs, s, subs', r, s', h => by
    simp only [Body.simulate] at h
    split at h
    · simp at h
    · rename_i hn
      simp only [Option.bind_eq_bind, Option.bind_eq_some_iff] at h
      obtain ⟨t, ht, hrest⟩ := h
      exact BodyInv.call P (by simpa using hn) (simulate_coh' g _ _ ht) (body_simulate_inv rest _ _ _ _ _ _ hrest)
end

theorem lenIs_eq_some {α : Type} {l : List α} {n : Nat} {u : Unit} (h : lenIs l n = some u) : l.length = n := by
  unfold lenIs at h; split at h <;> simp_all

mutual
theorem generate_coh' : ∀ (g : GF) (x : Option CM) (args : List Val) (t : Tr R) (w : R),
    g.generate P cfg x args = some (t, w) → g.Coh P args t
  | .dist d, none, args, t, w, h => by
    simp only [GF.generate, Option.some.injEq, Prod.mk.injEq] at h
    obtain ⟨rfl, rfl⟩ := h; simp [GF.Coh]
  | .dist d, some (.leaf v), args, t, w, h => by
    simp only [GF.generate, Option.some.injEq, Prod.mk.injEq] at h
    obtain ⟨rfl, rfl⟩ := h; simp [GF.Coh]
  | .dist d, some (.node _), args, t, w, h => by simp [GF.generate] at h
  | .dist d, some (.lanes _), args, t, w, h => by simp [GF.generate] at h
  | .fn body, none, args, t, w, h => by
    simp only [GF.generate, Option.bind_eq_bind, Option.bind_eq_some_iff, Option.pure_def, Option.some.injEq, Prod.mk.injEq] at h
    obtain ⟨⟨subs, r, s⟩, hb, rfl, rfl⟩ := h
    simp only [GF.Coh]
    exact BodyInv.final P (body_simulate_inv P body _ _ _ _ _ _ hb)
  | .fn body, some (.node x), args, t, w, h => by
    simp only [GF.generate, Option.bind_eq_bind, Option.bind_eq_some_iff, Option.pure_def, Option.some.injEq, Prod.mk.injEq] at h
    obtain ⟨⟨subs, r, s, w'⟩, hb, rfl, rfl⟩ := h
    simp only [GF.Coh]
    exact BodyInv.final P (body_generate_inv body _ _ _ _ _ _ _ _ _ hb)
  | .fn body, some (.leaf _), args, t, w, h => by simp [GF.generate] at h
  | .fn body, some (.lanes _), args, t, w, h => by simp [GF.generate] at h
  | .vmap g axes n, none, args, t, w, h => by
    simp only [GF.generate] at h
    split at h
    · simp only [Option.bind_eq_bind, Option.bind_eq_some_iff, Option.pure_def, Option.some.injEq, Prod.mk.injEq] at h
      obtain ⟨ts, hts, rfl, rfl⟩ := h
      simp only [GF.Coh, TrL.toList_ofList]
      have := forLanes_lanesCoh _ (·.1) (fun a t => g.Coh P a t) axes args
        (fun j _ b hb => generate_coh' g _ _ _ _ hb) _ _ _ hts
      simpa using this
    · simp at h
  | .vmap g axes n, some (.lanes xs), args, t, w, h => by
    simp only [GF.generate, Option.bind_eq_bind, Option.bind_eq_some_iff, Option.pure_def, Option.some.injEq, Prod.mk.injEq] at h
    obtain ⟨u, hlen, ts, hts, rfl, rfl⟩ := h
    have hlen := lenIs_eq_some hlen
    simp only [GF.Coh, TrL.toList_ofList]
    have := forLanes_lanesCoh _ (·.1) (fun a t => g.Coh P a t) axes args
      (fun j xi b hb => generate_coh' g _ _ _ _ hb) _ _ _ hts
    simpa [hlen] using this
  | .vmap g axes n, some (.leaf _), args, t, w, h => by simp [GF.generate] at h
  | .vmap g axes n, some (.node _), args, t, w, h => by simp [GF.generate] at h
  | .scan g n, none, args, t, w, h => by
    simp only [GF.generate, Option.bind_eq_bind, Option.bind_eq_some_iff, Option.pure_def, Option.some.injEq, Prod.mk.injEq] at h
    obtain ⟨⟨ts, c⟩, hts, rfl, rfl⟩ := h
    simp only [GF.Coh, TrL.toList_ofList]
    have := forSteps_stepsCoh _ (·.1) (fun a t => g.Coh P a t) (args.getD 1 .nil)
      (fun c j _ b c2 hb => by
        simp only [Option.bind_eq_some_iff, Option.some.injEq, Prod.mk.injEq] at hb
        obtain ⟨⟨t, w⟩, ht, rfl, rfl⟩ := hb
        exact ⟨generate_coh' g _ _ _ _ ht, rfl⟩) _ _ _ _ _ hts
    simpa using this
  | .scan g n, some (.lanes xs), args, t, w, h => by
    simp only [GF.generate, Option.bind_eq_bind, Option.bind_eq_some_iff, Option.pure_def, Option.some.injEq, Prod.mk.injEq] at h
    obtain ⟨u, hlen, ⟨ts, c⟩, hts, rfl, rfl⟩ := h
    have hlen := lenIs_eq_some hlen
    simp only [GF.Coh, TrL.toList_ofList]
    have := forSteps_stepsCoh _ (·.1) (fun a t => g.Coh P a t) (args.getD 1 .nil)
      (fun c j _ b c2 hb => by
        simp only [Option.bind_eq_some_iff, Option.some.injEq, Prod.mk.injEq] at hb
        obtain ⟨⟨t, w⟩, ht, rfl, rfl⟩ := hb
        exact ⟨generate_coh' g _ _ _ _ ht, rfl⟩) _ _ _ _ _ hts
    simpa [hlen] using this
  | .scan g n, some (.leaf _), args, t, w, h => by simp [GF.generate] at h
  | .scan g n, some (.node _), args, t, w, h => by simp [GF.generate] at h
  | .cond t f, none, args, tr, w, h => by
    simp only [GF.generate, Option.bind_eq_bind, Option.bind_eq_some_iff, Option.pure_def, Option.some.injEq, Prod.mk.injEq] at h
    obtain ⟨a, ha, b, hb, rfl, rfl⟩ := h
    simp only [GF.Coh]
    exact ⟨trivial, simulate_coh' P t _ _ ha, simulate_coh' P f _ _ hb⟩
  | .cond t f, some x, args, tr, w, h => by
    simp only [GF.generate, Option.bind_eq_bind, Option.bind_eq_some_iff, Option.pure_def, Option.some.injEq, Prod.mk.injEq] at h
    obtain ⟨⟨a, wa⟩, ha, ⟨b, wb⟩, hb, rfl, rfl⟩ := h
    simp only [GF.Coh]
    exact ⟨trivial, generate_coh' t _ _ _ _ ha, generate_coh' f _ _ _ _ hb⟩
theorem body_generate_inv : ∀ (b : Body) (x : CML) (env : List Val) (subs : TrL R) (s w : R) (subs' : TrL R) (r : Val) (s' w' : R),
    b.generate P cfg x env subs s w = some (subs', r, s', w') → BodyInv P b env subs s subs' r s'
  | .ret e, x, env, subs, s, w, subs', r, s', w', h => by
    simp only [Body.generate, Option.some.injEq, Prod.mk.injEq] at h
    obtain ⟨rfl, rfl, rfl, rfl⟩ := h
    exact BodyInv.ret P e env subs s
  | .call addr g es rest, x, env, subs, s, w, subs', r, s', w', h => by
    simp only [Body.generate] at h
    split at h
    · simp at h
    · rename_i hn
      simp only [Option.bind_eq_bind, Option.bind_eq_some_iff] at h
      obtain ⟨⟨t, wt⟩, ht, hrest⟩ := h
      exact BodyInv.call P (by simpa using hn) (generate_coh' g _ _ _ _ ht) (body_generate_inv rest _ _ _ _ _ _ _ _ _ hrest)
end

mutual
theorem update_coh' : ∀ (g : GF) (t : Tr R) (x : Option CM) (args : List Val) (t' : Tr R) (w : R)
    (d : Option CM), g.update P cfg t x args = some (t', w, d) → g.Coh P args t'
  | .dist d, tr, x, args, t', w, dd, h => by
    cases tr with
    | leaf vOld sOld =>
      simp only [GF.update] at h
      split at h
      · simp only [Option.some.injEq, Prod.mk.injEq] at h
        obtain ⟨rfl, -, -⟩ := h; simp [GF.Coh]
      · simp only [Option.some.injEq, Prod.mk.injEq] at h
        obtain ⟨rfl, -, -⟩ := h; simp [GF.Coh]
      · simp at h
    | _ => simp [GF.update] at h
  | .fn body, tr, x, args, t', w, dd, h => by
    cases tr with
    | fn old r0 s0 =>
      simp only [GF.update] at h
      split at h
      · simp at h
      · simp only [Option.bind_eq_bind, Option.bind_eq_some_iff, Option.pure_def, Option.some.injEq, Prod.mk.injEq] at h
        obtain ⟨⟨subs, r, s, w', d'⟩, hb, rfl, -, -⟩ := h
        simp only [GF.Coh]
        exact BodyInv.final P (body_update_inv body _ _ _ _ _ _ _ _ _ _ _ _ hb)
    | _ => simp [GF.update] at h
  | .vmap g axes n, tr, x, args, t', w, dd, h => by
    cases tr with
    | vec old =>
      simp only [GF.update, Option.bind_eq_bind, Option.bind_eq_some_iff, Option.pure_def, Option.some.injEq, Prod.mk.injEq] at h
      obtain ⟨u, hlen, xs, hxs, rs, hrs, rfl, -, -⟩ := h
      have hlen := lenIs_eq_some hlen
      have hxl : xs.length = n := by
        split at hxs
        · simp at hxs; subst hxs; simp
        · split at hxs
          · simp at hxs; subst hxs; simpa
          · simp at hxs
        · simp at hxs
      simp only [GF.Coh, TrL.toList_ofList]
      have := forLanes_lanesCoh _ (·.1) (fun a t => g.Coh P a t) axes args
        (fun j p b hb => update_coh' g _ _ _ _ _ _ hb) _ _ _ hrs
      simpa [hlen, hxl] using this
    | _ => simp [GF.update] at h
  | .scan g n, tr, x, args, t', w, dd, h => by
    cases tr with
    | scan old c0 =>
      simp only [GF.update, Option.bind_eq_bind, Option.bind_eq_some_iff, Option.pure_def, Option.some.injEq, Prod.mk.injEq] at h
      obtain ⟨u, hlen, xs, hxs, ⟨rs, c⟩, hrs, rfl, -, -⟩ := h
      have hlen := lenIs_eq_some hlen
      have hxl : xs.length = n := by
        split at hxs
        · simp at hxs; subst hxs; simp
        · split at hxs
          · simp at hxs; subst hxs; simpa
          · simp at hxs
        · simp at hxs
      simp only [GF.Coh, TrL.toList_ofList]
      have := forSteps_stepsCoh _ (·.1) (fun a t => g.Coh P a t) (args.getD 1 .nil)
        (fun c j p b c2 hb => by
          simp only [Option.bind_eq_some_iff, Option.some.injEq, Prod.mk.injEq] at hb
          obtain ⟨⟨t, w, d⟩, ht, rfl, rfl⟩ := hb
          exact ⟨update_coh' g _ _ _ _ _ _ ht, rfl⟩) _ _ _ _ _ hrs
      simpa [hlen, hxl] using this
    | _ => simp [GF.update] at h
  | .cond t f, tr, x, args, t', w, dd, h => by
    cases tr with
    | cond cOld a b =>
      simp only [GF.update, Option.bind_eq_bind, Option.bind_eq_some_iff, Option.pure_def, Option.some.injEq, Prod.mk.injEq] at h
      obtain ⟨xq, -, ⟨a', wa, da⟩, ha, ⟨b', wb, db⟩, hb, disc, -, rfl, -, -⟩ := h
      simp only [GF.Coh]
      exact ⟨trivial, update_coh' t _ _ _ _ _ _ ha, update_coh' f _ _ _ _ _ _ hb⟩
    | _ => simp [GF.update] at h
theorem body_update_inv : ∀ (b : Body) (old : TrL R) (x : CML) (env : List Val) (subs : TrL R) (s w : R) (d : CML)
    (subs' : TrL R) (r : Val) (s' w' : R) (d' : CML),
    b.update P cfg old x env subs s w d = some (subs', r, s', w', d') → BodyInv P b env subs s subs' r s'
  | .ret e, old, x, env, subs, s, w, d, subs', r, s', w', d', h => by
    simp only [Body.update, Option.some.injEq, Prod.mk.injEq] at h
    obtain ⟨rfl, rfl, rfl, -, -⟩ := h
    exact BodyInv.ret P e env subs s
  | .call addr g es rest, old, x, env, subs, s, w, d, subs', r, s', w', d', h => by
    simp only [Body.update] at h
    split at h
    · simp at h
    · rename_i hn
      split at h
      · simp at h
      · simp only [Option.bind_eq_bind, Option.bind_eq_some_iff] at h
        obtain ⟨xsub, -, ⟨t, wt, dsub⟩, ht, hrest⟩ := h
        exact BodyInv.call P (by simpa using hn) (update_coh' g _ _ _ _ _ _ ht)
          (body_update_inv rest _ _ _ _ _ _ _ _ _ _ _ _ hrest)
end

mutual
theorem regenerate_coh' : ∀ (g : GF) (t : Tr R) (sel : Sel) (args : List Val) (t' : Tr R) (w : R)
    (d : Option CM), g.regenerate P cfg t sel args = some (t', w, d) → g.Coh P args t'
  | .dist d, tr, sel, args, t', w, dd, h => by
    cases tr with
    | leaf vOld sOld =>
      simp only [GF.regenerate] at h
      split at h
      · simp only [Option.some.injEq, Prod.mk.injEq] at h
        obtain ⟨rfl, -, -⟩ := h; simp [GF.Coh]
      · simp only [Option.some.injEq, Prod.mk.injEq] at h
        obtain ⟨rfl, -, -⟩ := h; simp [GF.Coh]
    | _ => simp [GF.regenerate] at h
  | .fn body, tr, sel, args, t', w, dd, h => by
    cases tr with
    | fn old r0 s0 =>
      simp only [GF.regenerate, Option.bind_eq_bind, Option.bind_eq_some_iff, Option.pure_def, Option.some.injEq, Prod.mk.injEq] at h
      obtain ⟨⟨subs, r, s, w', d'⟩, hb, rfl, -, -⟩ := h
      simp only [GF.Coh]
      exact BodyInv.final P (body_regenerate_inv body _ _ _ _ _ _ _ _ _ _ _ _ hb)
    | _ => simp [GF.regenerate] at h
  | .vmap g axes n, tr, sel, args, t', w, dd, h => by
    cases tr with
    | vec old =>
      simp only [GF.regenerate, Option.bind_eq_bind, Option.bind_eq_some_iff, Option.pure_def, Option.some.injEq, Prod.mk.injEq] at h
      obtain ⟨u, hlen, rs, hrs, rfl, -, -⟩ := h
      have hlen := lenIs_eq_some hlen
      simp only [GF.Coh, TrL.toList_ofList]
      have := forLanes_lanesCoh _ (·.1) (fun a t => g.Coh P a t) axes args
        (fun j p b hb => regenerate_coh' g _ _ _ _ _ _ hb) _ _ _ hrs
      simpa [hlen] using this
    | _ => simp [GF.regenerate] at h
  | .scan g n, tr, sel, args, t', w, dd, h => by
    cases tr with
    | scan old c0 =>
      simp only [GF.regenerate] at h
      split at h
      · simp at h
      · simp only [Option.bind_eq_bind, Option.bind_eq_some_iff, Option.pure_def, Option.some.injEq, Prod.mk.injEq] at h
        obtain ⟨u, hlen, ⟨rs, c⟩, hrs, rfl, -, -⟩ := h
        have hlen := lenIs_eq_some hlen
        simp only [GF.Coh, TrL.toList_ofList]
        have := forSteps_stepsCoh _ (·.1) (fun a t => g.Coh P a t) (args.getD 1 .nil)
          (fun c j p b c2 hb => by
            simp only [Option.bind_eq_some_iff, Option.some.injEq, Prod.mk.injEq] at hb
            obtain ⟨⟨t, w, d⟩, ht, rfl, rfl⟩ := hb
            exact ⟨regenerate_coh' g _ _ _ _ _ _ ht, rfl⟩) _ _ _ _ _ hrs
        simpa [hlen] using this
    | _ => simp [GF.regenerate] at h
  | .cond t f, tr, sel, args, t', w, dd, h => by
    cases tr with
    | cond cOld a b =>
      simp only [GF.regenerate, Option.bind_eq_bind, Option.bind_eq_some_iff, Option.pure_def, Option.some.injEq, Prod.mk.injEq] at h
      obtain ⟨⟨a', wa, da⟩, ha, ⟨b', wb, db⟩, hb, disc, -, rfl, -, -⟩ := h
      simp only [GF.Coh]
      exact ⟨trivial, regenerate_coh' t _ _ _ _ _ _ ha, regenerate_coh' f _ _ _ _ _ _ hb⟩
    | _ => simp [GF.regenerate] at h
theorem body_regenerate_inv : ∀ (b : Body) (old : TrL R) (sel : Sel) (env : List Val) (subs : TrL R) (s w : R) (d : CML)
    (subs' : TrL R) (r : Val) (s' w' : R) (d' : CML),
    b.regenerate P cfg old sel env subs s w d = some (subs', r, s', w', d') → BodyInv P b env subs s subs' r s'
  | .ret e, old, x, env, subs, s, w, d, subs', r, s', w', d', h => by
    simp only [Body.regenerate, Option.some.injEq, Prod.mk.injEq] at h
    obtain ⟨rfl, rfl, rfl, -, -⟩ := h
    exact BodyInv.ret P e env subs s
  | .call addr g es rest, old, x, env, subs, s, w, d, subs', r, s', w', d', h => by
    simp only [Body.regenerate] at h
    split at h
    · simp at h
    · rename_i hn
      split at h
      · simp at h
      · simp only [Option.bind_eq_bind, Option.bind_eq_some_iff] at h
        obtain ⟨⟨t, wt, dsub⟩, ht, hrest⟩ := h
        exact BodyInv.call P (by simpa using hn) (regenerate_coh' g _ _ _ _ _ _ ht)
          (body_regenerate_inv rest _ _ _ _ _ _ _ _ _ _ _ _ hrest)
end

/-- L1: every trace built by `simulate` is coherent -/
theorem simulate_coh (g : GF) (args : List Val) (t : Tr R)
    (h : g.simulate P args = some t) : g.Coh P args t :=
  simulate_coh' P g args t h

/-- L2: every trace built by `generate` (any constraint map, including `none`) is coherent -/
theorem generate_coh (g : GF) (x : Option CM) (args : List Val) (t : Tr R) (w : R)
    (h : g.generate P cfg x args = some (t, w)) : g.Coh P args t :=
  generate_coh' P cfg g x args t w h

/-- L3: `update` returns a coherent trace under the new arguments (whatever the old trace was) -/
theorem update_coh (g : GF) (t : Tr R) (x : Option CM) (args : List Val) (t' : Tr R) (w : R)
    (d : Option CM) (h : g.update P cfg t x args = some (t', w, d)) : g.Coh P args t' :=
  update_coh' P cfg g t x args t' w d h

/-- L4: `regenerate` returns a coherent trace under the new arguments -/
theorem regenerate_coh (g : GF) (t : Tr R) (s : Sel) (args : List Val) (t' : Tr R) (w : R)
    (d : Option CM) (h : g.regenerate P cfg t s args = some (t', w, d)) : g.Coh P args t' :=
  regenerate_coh' P cfg g t s args t' w d h

end Genjax
