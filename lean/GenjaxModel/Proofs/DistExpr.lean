import GenjaxModel.Model.DistExpr
import GenjaxModel.Proofs.DistSpec
import GenjaxModel.Proofs.DistSpec2
import GenjaxModel.Proofs.DistSpec3
import GenjaxModel.Proofs.DistSpec4
import GenjaxModel.Proofs.DistSpec5
/-!
# C13 — denotation of the executable density terms of `Model/DistExpr.lean`

`DE.denoteV ps xs e` is the real number denoted by the term `e` at parameters `ps` and point `xs`
(Mathlib's totalised real operations); `DE.denote e ps x = DE.denoteV ps [x] e` for scalar points.
For every entry of `DistExpr.specTable` the theorem `spec_<name>_denotes` says that the term's
denotation is — for ALL real parameter values and ALL points, inside the documented domain or not —
the density / mass function `<name>Pdf` / `<name>Pmf` of `Proofs/DistSpec*.lean` whose total mass
is proved to be one there.  Discrete points are embedded as `(k : ℝ)` / `boolPt b`.
(The vector-argument entries are in `Proofs/DistExprVec.lean`.)
-/

namespace Genjax
open Real

namespace DE

/-- real-valued denotation of a `DE` term at parameters `ps` and the (vector) point `xs` -/
noncomputable def denoteV (ps xs : List ℝ) : DE → ℝ
  | const q => (q : ℝ)
  | x => xs.getD 0 0
  | xi i => xs.getD i 0
  | param i => ps.getD i 0
  | add a b => denoteV ps xs a + denoteV ps xs b
  | sub a b => denoteV ps xs a - denoteV ps xs b
  | mul a b => denoteV ps xs a * denoteV ps xs b
  | div a b => denoteV ps xs a / denoteV ps xs b
  | neg a => -denoteV ps xs a
  | inv a => (denoteV ps xs a)⁻¹
  | npow a n => denoteV ps xs a ^ n
  | exp a => Real.exp (denoteV ps xs a)
  | log a => Real.log (denoteV ps xs a)
  | sqrt a => Real.sqrt (denoteV ps xs a)
  | pi => π
  | rpow a b => denoteV ps xs a ^ denoteV ps xs b
  | gamma a => Real.Gamma (denoteV ps xs a)
  | abs a => |denoteV ps xs a|
  | natFact a => ((⌊denoteV ps xs a⌋₊).factorial : ℝ)
  | chooseR a k => Ring.choose (denoteV ps xs a) ⌊denoteV ps xs k⌋₊
  | ifLt a b t e => if denoteV ps xs a < denoteV ps xs b then denoteV ps xs t else denoteV ps xs e
  | ifLe a b t e => if denoteV ps xs a ≤ denoteV ps xs b then denoteV ps xs t else denoteV ps xs e
  | zeta a => (riemannZeta ((denoteV ps xs a : ℝ) : ℂ)).re

/-- denotation at a scalar point -/
noncomputable def denote (e : DE) (ps : List ℝ) (x : ℝ) : ℝ := denoteV ps [x] e

end DE

namespace DistSpec
open DE DistExpr

/-- a Boolean outcome as a real point -/
def boolPt (b : Bool) : ℝ := if b then 1 else 0

theorem spec_bernoulli_denotes (l : ℝ) (b : Bool) :
    spec_bernoulli.denote [l] (boolPt b) = bernoulliLogitsPmf l b := by
  cases b <;> simp [spec_bernoulli, denote, denoteV, bernoulliLogitsPmf, boolPt]

theorem spec_flip_denotes (p : ℝ) (b : Bool) : spec_flip.denote [p] (boolPt b) = flipPmf p b := by
  cases b <;> simp [spec_flip, denote, denoteV, flipPmf, boolPt]

theorem spec_beta_denotes (a b x : ℝ) : spec_beta.denote [a, b] x = betaPdf a b x := by
  by_cases h0 : 0 < x <;> by_cases h1 : x < 1 <;>
    simp [spec_beta, denote, denoteV, betaPdf, h0, h1]

theorem spec_geometric_denotes (p : ℝ) (k : ℕ) :
    spec_geometric.denote [p] (k : ℝ) = geometricPmf p k := by
  simp [spec_geometric, denote, denoteV, geometricPmf]

theorem spec_normal_denotes (μ σ x : ℝ) : spec_normal.denote [μ, σ] x = normalPdf μ σ x := by
  simp [spec_normal, denote, denoteV, normalPdf]

theorem spec_uniform_denotes (a b x : ℝ) : spec_uniform.denote [a, b] x = uniformPdf a b x := by
  by_cases h0 : a ≤ x <;> by_cases h1 : x ≤ b <;>
    simp [spec_uniform, denote, denoteV, uniformPdf, h0, h1]

theorem spec_exponential_denotes (r x : ℝ) :
    spec_exponential.denote [r] x = exponentialPdf r x := by
  simp [spec_exponential, denote, denoteV, exponentialPdf]

theorem spec_poisson_denotes (r : ℝ) (k : ℕ) :
    spec_poisson.denote [r] (k : ℝ) = poissonPmf r k := by
  simp [spec_poisson, denote, denoteV, poissonPmf]

theorem spec_binomial_denotes (n : ℕ) (p : ℝ) (k : ℕ) :
    spec_binomial.denote [(n : ℝ), p] (k : ℝ) = binomialPmf n p k := by
  by_cases h : k ≤ n
  · have h' : ((n : ℝ) - (k : ℝ)) = ((n - k : ℕ) : ℝ) := by rw [Nat.cast_sub h]
    have h3 : (1 - p) ^ ((n : ℝ) - (k : ℝ)) = (1 - p) ^ (n - k) := by
      rw [h', Real.rpow_natCast]
    simp only [spec_binomial, denote, denoteV, binomialPmf, List.getD_cons_zero,
      List.getD_cons_succ, Nat.cast_le, h, if_true, Nat.floor_natCast, Ring.choose_natCast,
      Real.rpow_natCast, Rat.cast_one, h3]
  · have h2 : n.choose k = 0 := Nat.choose_eq_zero_of_lt (by omega)
    simp [spec_binomial, denote, denoteV, binomialPmf, h, h2]

theorem spec_gamma_denotes (a r x : ℝ) : spec_gamma.denote [a, r] x = gammaPdf a r x := by
  simp [spec_gamma, denote, denoteV, gammaPdf]

theorem spec_log_normal_denotes (μ σ x : ℝ) :
    spec_log_normal.denote [μ, σ] x = logNormalPdf μ σ x := by
  simp [spec_log_normal, denote, denoteV, logNormalPdf]

theorem spec_student_t_denotes (ν μ σ x : ℝ) :
    spec_student_t.denote [ν, μ, σ] x = studentTPdf ν μ σ x := by
  simp [spec_student_t, denote, denoteV, studentTPdf]

theorem spec_laplace_denotes (μ b x : ℝ) : spec_laplace.denote [μ, b] x = laplacePdf μ b x := by
  simp [spec_laplace, denote, denoteV, laplacePdf]

theorem spec_half_normal_denotes (σ x : ℝ) :
    spec_half_normal.denote [σ] x = halfNormalPdf σ x := by
  simp [spec_half_normal, denote, denoteV, halfNormalPdf]

theorem spec_inverse_gamma_denotes (a b x : ℝ) :
    spec_inverse_gamma.denote [a, b] x = inverseGammaPdf a b x := by
  simp [spec_inverse_gamma, denote, denoteV, inverseGammaPdf]

theorem spec_weibull_denotes (k l x : ℝ) : spec_weibull.denote [k, l] x = weibullPdf k l x := by
  simp [spec_weibull, denote, denoteV, weibullPdf]

theorem spec_cauchy_denotes (x₀ γ x : ℝ) : spec_cauchy.denote [x₀, γ] x = cauchyPdf x₀ γ x := by
  simp [spec_cauchy, denote, denoteV, cauchyPdf]

theorem spec_chi2_denotes (k x : ℝ) : spec_chi2.denote [k] x = chi2Pdf k x := by
  simp [spec_chi2, denote, denoteV, chi2Pdf]

theorem spec_negative_binomial_denotes (r p : ℝ) (k : ℕ) :
    spec_negative_binomial.denote [r, p] (k : ℝ) = negativeBinomialPmf r p k := by
  simp [spec_negative_binomial, denote, denoteV, negativeBinomialPmf]

theorem spec_zipf_denotes (s : ℝ) (k : ℕ) : spec_zipf.denote [s] (k : ℝ) = zipfPmf s k := by
  simp [spec_zipf, denote, denoteV, zipfPmf]

end DistSpec
end Genjax
