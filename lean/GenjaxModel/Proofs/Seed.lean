import GenjaxModel.Model.Seed
import Mathlib.Tactic.Linarith
/-!
  C06/C07: within one seeded run no two sample sites receive the same key (in the free algebra
  of split/fold_in), for every program shape; the key of every site is a function of the root key
  and the program only.
-/
namespace Genjax.Seed

/-! ### basic facts about the free algebra of key paths -/

/-- structural depth of a key path -/
def KP.depth : KP → Nat
  | .root => 0
  | .L k => k.depth + 1
  | .R k => k.depth + 1
  | .fold k _ => k.depth + 1

theorem KP.under_refl (k : KP) : KP.under k k = true := by
  cases k <;> simp [KP.under]

theorem KP.under_L (a k : KP) (h : KP.under a k = true) : KP.under a (.L k) = true := by
  simp [KP.under, h]

theorem KP.under_R (a k : KP) (h : KP.under a k = true) : KP.under a (.R k) = true := by
  simp [KP.under, h]

theorem KP.under_fold (a k : KP) (j : Nat) (h : KP.under a k = true) :
    KP.under a (.fold k j) = true := by
  simp [KP.under, h]

theorem KP.under_eq_or_lt {a b : KP} (h : KP.under a b = true) : a = b ∨ a.depth < b.depth := by
  induction b with
  | root => left; simpa [KP.under] using h
  | L k ih =>
    simp only [KP.under, Bool.or_eq_true, beq_iff_eq] at h
    rcases h with h | h
    · exact Or.inl h
    · right; rcases ih h with h' | h'
      · subst h'; simp [KP.depth]
      · simp only [KP.depth]; omega
  | R k ih =>
    simp only [KP.under, Bool.or_eq_true, beq_iff_eq] at h
    rcases h with h | h
    · exact Or.inl h
    · right; rcases ih h with h' | h'
      · subst h'; simp [KP.depth]
      · simp only [KP.depth]; omega
  | fold k j ih =>
    simp only [KP.under, Bool.or_eq_true, beq_iff_eq] at h
    rcases h with h | h
    · exact Or.inl h
    · right; rcases ih h with h' | h'
      · subst h'; simp [KP.depth]
      · simp only [KP.depth]; omega

theorem KP.under_depth_le {a b : KP} (h : KP.under a b = true) : a.depth ≤ b.depth := by
  rcases KP.under_eq_or_lt h with h' | h'
  · subst h'; exact Nat.le_refl _
  · omega

theorem KP.not_under_of_depth_lt {a b : KP} (h : b.depth < a.depth) : KP.under a b = false := by
  cases hu : KP.under a b with
  | false => rfl
  | true => have := KP.under_depth_le hu; omega

theorem KP.under_antisymm {a b : KP} (h1 : KP.under a b = true) (h2 : KP.under b a = true) :
    a = b := by
  rcases KP.under_eq_or_lt h1 with h | h
  · exact h
  · have := KP.under_depth_le h2; omega

theorem KP.under_trans {a b c : KP} (h1 : KP.under a b = true) (h2 : KP.under b c = true) :
    KP.under a c = true := by
  induction c with
  | root =>
    have : b = .root := by simpa [KP.under] using h2
    subst this; exact h1
  | L k ih =>
    simp only [KP.under, Bool.or_eq_true, beq_iff_eq] at h2
    rcases h2 with h | h
    · subst h; exact h1
    · exact KP.under_L _ _ (ih h)
  | R k ih =>
    simp only [KP.under, Bool.or_eq_true, beq_iff_eq] at h2
    rcases h2 with h | h
    · subst h; exact h1
    · exact KP.under_R _ _ (ih h)
  | fold k j ih =>
    simp only [KP.under, Bool.or_eq_true, beq_iff_eq] at h2
    rcases h2 with h | h
    · subst h; exact h1
    · exact KP.under_fold _ _ _ (ih h)

/-- two ancestors of a common node are comparable -/
theorem KP.under_comparable {a b x : KP} (ha : KP.under a x = true) (hb : KP.under b x = true) :
    KP.under a b = true ∨ KP.under b a = true := by
  induction x with
  | root =>
    have h1 : a = .root := by simpa [KP.under] using ha
    have h2 : b = .root := by simpa [KP.under] using hb
    subst h1 h2; left; rfl
  | L k ih =>
    simp only [KP.under, Bool.or_eq_true, beq_iff_eq] at ha hb
    rcases ha with ha | ha <;> rcases hb with hb | hb
    · subst ha hb; exact Or.inl (KP.under_refl _)
    · subst ha; exact Or.inr (KP.under_L _ _ hb)
    · subst hb; exact Or.inl (KP.under_L _ _ ha)
    · exact ih ha hb
  | R k ih =>
    simp only [KP.under, Bool.or_eq_true, beq_iff_eq] at ha hb
    rcases ha with ha | ha <;> rcases hb with hb | hb
    · subst ha hb; exact Or.inl (KP.under_refl _)
    · subst ha; exact Or.inr (KP.under_R _ _ hb)
    · subst hb; exact Or.inl (KP.under_R _ _ ha)
    · exact ih ha hb
  | fold k j ih =>
    simp only [KP.under, Bool.or_eq_true, beq_iff_eq] at ha hb
    rcases ha with ha | ha <;> rcases hb with hb | hb
    · subst ha hb; exact Or.inl (KP.under_refl _)
    · subst ha; exact Or.inr (KP.under_fold _ _ _ hb)
    · subst hb; exact Or.inl (KP.under_fold _ _ _ ha)
    · exact ih ha hb

/-- neither key is an ancestor of (or equal to) the other: the two subtrees are disjoint -/
def Incomp (a b : KP) : Prop := KP.under a b = false ∧ KP.under b a = false

theorem Incomp.symm {a b : KP} (h : Incomp a b) : Incomp b a := ⟨h.2, h.1⟩

theorem Incomp.ne {a b : KP} (h : Incomp a b) : a ≠ b := by
  intro e; subst e; have := h.1; rw [KP.under_refl] at this; exact Bool.noConfusion this

/-- disjoint subtrees: descendants of incomparable nodes are incomparable -/
theorem Incomp.mono {a b e f : KP} (h : Incomp a b) (he : KP.under a e = true)
    (hf : KP.under b f = true) : Incomp e f := by
  constructor
  · cases hu : KP.under e f with
    | false => rfl
    | true =>
      exfalso
      rcases KP.under_comparable (KP.under_trans he hu) hf with h' | h'
      · rw [h.1] at h'; exact Bool.noConfusion h'
      · rw [h.2] at h'; exact Bool.noConfusion h'
  · cases hu : KP.under f e with
    | false => rfl
    | true =>
      exfalso
      rcases KP.under_comparable he (KP.under_trans hf hu) with h' | h'
      · rw [h.1] at h'; exact Bool.noConfusion h'
      · rw [h.2] at h'; exact Bool.noConfusion h'

theorem incomp_R_L (k : KP) : Incomp (.R k) (.L k) := by
  constructor
  · have : KP.under (.R k) k = false := KP.not_under_of_depth_lt (by simp [KP.depth])
    simp [KP.under, this]
  · have : KP.under (.L k) k = false := KP.not_under_of_depth_lt (by simp [KP.depth])
    simp [KP.under, this]

theorem incomp_fold (k : KP) {j j' : Nat} (h : j ≠ j') : Incomp (.fold k j) (.fold k j') := by
  constructor
  · have : KP.under (.fold k j) k = false := KP.not_under_of_depth_lt (by simp [KP.depth])
    simp [KP.under, this, h]
  · have : KP.under (.fold k j') k = false := KP.not_under_of_depth_lt (by simp [KP.depth])
    simp [KP.under, this, Ne.symm h]

/-! ### the invariant of the key-threading interpreter -/

/-- invariant of a run started at running key `k` with result `r = (handed-out keys, final key)` -/
structure Inv (k : KP) (r : List (Nat × List Nat × KP) × KP) : Prop where
  /-- the final running key is below the initial one -/
  fin : KP.under k r.2 = true
  /-- every handed-out key is strictly below the initial running key -/
  below : ∀ e ∈ r.1, KP.under k e.2.2 = true ∧ e.2.2 ≠ k
  /-- every handed-out key is incomparable with the final running key -/
  sep : ∀ e ∈ r.1, Incomp e.2.2 r.2
  /-- handed-out keys are pairwise incomparable -/
  pw : r.1.Pairwise fun e f => Incomp e.2.2 f.2.2

theorem ne_of_under_R {k e : KP} (h : KP.under (.R k) e = true) : e ≠ k := by
  intro he; subst he
  have := KP.under_depth_le h
  simp [KP.depth] at this

mutual
  theorem Stmt.inv : ∀ (s : Stmt) (k : KP) (it : List Nat), Inv k (s.keys k it)
    | .site id, k, it => by
      simp only [Stmt.keys]
      refine ⟨KP.under_L _ _ (KP.under_refl k), ?_, ?_, ?_⟩
      · intro e he
        simp only [List.mem_singleton] at he
        subst he
        exact ⟨KP.under_R _ _ (KP.under_refl k), ne_of_under_R (KP.under_refl _)⟩
      · intro e he
        simp only [List.mem_singleton] at he
        subst he
        exact incomp_R_L k
      · simp
    | .cond taken, k, it => by
      have ih := Prog.inv taken (.R k) it
      simp only [Stmt.keys]
      refine ⟨KP.under_L _ _ (KP.under_refl k), ?_, ?_, ih.pw⟩
      · intro e he
        have h := (ih.below e he).1
        exact ⟨KP.under_trans (KP.under_R _ _ (KP.under_refl k)) h, ne_of_under_R h⟩
      · intro e he
        exact (incomp_R_L k).mono (ih.below e he).1 (KP.under_refl _)
    | .scan body n, k, it => by
      have ih := fun j => Prog.inv body (.fold (.R k) j) (it ++ [j])
      have hb : ∀ j, ∀ e ∈ (body.keys (.fold (.R k) j) (it ++ [j])).1,
          KP.under (.fold (.R k) j) e.2.2 = true := fun j e he => ((ih j).below e he).1
      have hR : ∀ j, ∀ e ∈ (body.keys (.fold (.R k) j) (it ++ [j])).1,
          KP.under (.R k) e.2.2 = true := fun j e he =>
        KP.under_trans (KP.under_fold _ _ _ (KP.under_refl _)) (hb j e he)
      simp only [Stmt.keys]
      refine ⟨KP.under_L _ _ (KP.under_refl k), ?_, ?_, ?_⟩
      · intro e he
        simp only [List.mem_flatMap, List.mem_range] at he
        obtain ⟨j, _, he⟩ := he
        have h := hR j e he
        exact ⟨KP.under_trans (KP.under_R _ _ (KP.under_refl k)) h, ne_of_under_R h⟩
      · intro e he
        simp only [List.mem_flatMap, List.mem_range] at he
        obtain ⟨j, _, he⟩ := he
        exact (incomp_R_L k).mono (hR j e he) (KP.under_refl _)
      · rw [List.pairwise_flatMap]
        refine ⟨fun j _ => (ih j).pw, ?_⟩
        refine List.Pairwise.imp ?_ (List.pairwise_lt_range (n := n))
        intro j j' hlt e he f hf
        exact (incomp_fold (.R k) (Nat.ne_of_lt hlt)).mono (hb j e he) (hb j' f hf)
    | .other, k, it => by
      simp only [Stmt.keys]
      exact ⟨KP.under_refl k, by simp, by simp, by simp⟩
  theorem Prog.inv : ∀ (p : Prog) (k : KP) (it : List Nat), Inv k (p.keys k it)
    | .nil, k, it => by
      simp only [Prog.keys]
      exact ⟨KP.under_refl k, by simp, by simp, by simp⟩
    | .cons s rest, k, it => by
      have ih1 := Stmt.inv s k it
      have ih2 := Prog.inv rest (s.keys k it).2 it
      simp only [Prog.keys]
      refine ⟨KP.under_trans ih1.fin ih2.fin, ?_, ?_, ?_⟩
      · intro e he
        simp only [List.mem_append] at he
        rcases he with he | he
        · exact ih1.below e he
        · obtain ⟨h1, h2⟩ := ih2.below e he
          refine ⟨KP.under_trans ih1.fin h1, ?_⟩
          intro hk
          apply h2
          rw [hk] at h1 ⊢
          exact KP.under_antisymm ih1.fin h1
      · intro e he
        simp only [List.mem_append] at he
        rcases he with he | he
        · exact (ih1.sep e he).mono (KP.under_refl _) ih2.fin
        · exact ih2.sep e he
      · rw [List.pairwise_append]
        refine ⟨ih1.pw, ih2.pw, ?_⟩
        intro e he f hf
        exact (ih1.sep e he).mono (KP.under_refl _) (ih2.below f hf).1
end

/-- members of a pairwise-incomparable list with different keys are incomparable -/
theorem incomp_of_pairwise {l : List (Nat × List Nat × KP)}
    (h : l.Pairwise fun e f => Incomp e.2.2 f.2.2) :
    ∀ a ∈ l, ∀ b ∈ l, a.2.2 ≠ b.2.2 → Incomp a.2.2 b.2.2 := by
  induction h with
  | nil => intro a ha; simp at ha
  | cons hx _ ih =>
    intro a ha b hb hne
    simp only [List.mem_cons] at ha hb
    rcases ha with ha | ha <;> rcases hb with hb | hb
    · subst ha hb; exact absurd rfl hne
    · subst ha; exact hx b hb
    · subst hb; exact (hx a ha).symm
    · exact ih a ha b hb hne

/-! ### the theorems -/

/-- every key handed out by a run started with running key `k` lies strictly below `k`
    (it is `R` of a running key reached from `k` by `L` steps, or below such a key) and the final
    running key is reached from `k` by `L` steps only -/
theorem keys_below (p : Prog) (k : KP) (it : List Nat) :
    (∀ e ∈ (p.keys k it).1, KP.under k e.2.2 = true ∧ e.2.2 ≠ k) ∧ KP.under k (p.keys k it).2 = true :=
  ⟨(Prog.inv p k it).below, (Prog.inv p k it).fin⟩

/-- C07: all sites of one run get pairwise distinct keys — sequences, nested scans, cond inside
    scan, scan inside cond, any depth, any scan lengths -/
theorem siteKeys_nodup (p : Prog) : ((siteKeys p).map fun e => e.2.2).Nodup := by
  unfold siteKeys List.Nodup
  rw [List.pairwise_map]
  exact (Prog.inv p .root []).pw.imp fun h => h.ne

/-- stronger: no site key is an ancestor of another site key (so no site's stream is derived from
    another site's key by further splitting) -/
theorem siteKeys_no_ancestor (p : Prog) (a b : Nat × List Nat × KP)
    (ha : a ∈ siteKeys p) (hb : b ∈ siteKeys p) (hne : a.2.2 ≠ b.2.2) :
    KP.under a.2.2 b.2.2 = false :=
  (incomp_of_pairwise (Prog.inv p .root []).pw a ha b hb hne).1

/-- the number of keys handed out = number of site executions -/
theorem scan_site_count (id n : Nat) :
    (siteKeys (.cons (.scan (.cons (.site id) .nil) n) .nil)).length = n := by
  have h : ∀ (f : Nat → List (Nat × List Nat × KP)), (∀ j, (f j).length = 1) →
      ((List.range n).flatMap f).length = n := by
    intro f hf
    induction n with
    | zero => rfl
    | succ m ih => rw [List.range_succ, List.flatMap_append, List.length_append, ih]; simp [hf]
  simp only [siteKeys, Prog.keys, Stmt.keys, List.append_nil]
  exact h _ (fun j => rfl)

end Genjax.Seed
#print axioms Genjax.Seed.keys_below
#print axioms Genjax.Seed.siteKeys_nodup
#print axioms Genjax.Seed.siteKeys_no_ancestor
#print axioms Genjax.Seed.scan_site_count
