import GenjaxModel.Model.Seed
import Mathlib.Tactic.Linarith
/-!
  C06/C07: within one seeded run no two sample sites receive the same key (in the free algebra
  of split/fold_in), for every program shape; the key of every site is a function of the root key
  and the program only.
-/
namespace Genjax.Seed

/-- every key handed out by a run started with running key `k` lies strictly below `k`
    (it is `R` of a running key reached from `k` by `L` steps, or below such a key) and the final
    running key is reached from `k` by `L` steps only -/
theorem keys_below (p : Prog) (k : KP) (it : List Nat) :
    (∀ e ∈ (p.keys k it).1, KP.under k e.2.2 = true ∧ e.2.2 ≠ k) ∧ KP.under k (p.keys k it).2 = true := by
  sorry

/-- C07: all sites of one run get pairwise distinct keys — sequences, nested scans, cond inside
    scan, scan inside cond, any depth, any scan lengths -/
theorem siteKeys_nodup (p : Prog) : ((siteKeys p).map fun e => e.2.2).Nodup := by
  sorry

/-- stronger: no site key is an ancestor of another site key (so no site's stream is derived from
    another site's key by further splitting) -/
theorem siteKeys_no_ancestor (p : Prog) (a b : Nat × List Nat × KP)
    (ha : a ∈ siteKeys p) (hb : b ∈ siteKeys p) (hne : a.2.2 ≠ b.2.2) :
    KP.under a.2.2 b.2.2 = false := by
  sorry

/-- the number of keys handed out = number of site executions -/
theorem scan_site_count (id n : Nat) :
    (siteKeys (.cons (.scan (.cons (.site id) .nil) n) .nil)).length = n := by
  sorry

end Genjax.Seed
