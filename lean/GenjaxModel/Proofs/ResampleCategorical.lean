import GenjaxModel.Proofs.Resample
import GenjaxModel.Proofs.Smc
/-!
  C12, categorical ("multinomial") resampling: `categorical.sample(log_weights, sample_shape=(N,))`
  (src/genjax/inference/smc.py:160-162) draws N ancestor indices i.i.d. with P(index = i) = w_i/Σw.
  In the finite-expectation vocabulary of `Model/Smc.lean` (`FinDist`, `E`) the expected number of
  copies of particle `i` is `N · w_i / Σ w`.

  New definitions (executable, Mathlib-free in content): `categoricalDist`, `multinomial`.
-/

set_option linter.unusedSectionVars false
set_option linter.unusedVariables false

namespace Genjax.Resample
open Genjax.Smc Genjax.Smc.FinDist

section defs
variable {K : Type} [Zero K] [One K] [Add K] [Mul K] [Div K]

/-- `categorical(logits = log w)`: index `i < len w` with probability `w_i / Σ w` -/
def categoricalDist (w : List K) : FinDist K Nat :=
  (List.range w.length).map fun i => (i, w.getD i 0 / sum w)

/-- `sample_shape = (n,)`: the ancestor vector of `n` independent categorical draws -/
def multinomial (w : List K) (n : Nat) : FinDist K (List Nat) :=
  FinDist.sequence (List.replicate n (categoricalDist w))

end defs

variable {K : Type} [Field K]

/-- the two list sums of the models coincide -/
theorem sum_eq_sumK (l : List K) : sum l = sumK l := by
  induction l with
  | nil => rfl
  | cons x xs ih => simp only [sum, sumK_cons, ih]

theorem map_getD_range (l : List K) (d : K) :
    (List.range l.length).map (fun i => l.getD i d) = l := by
  apply List.ext_getElem
  · simp
  · intro i h1 h2
    simp only [List.getElem_map, List.getElem_range]
    exact List.getD_eq_getElem _ _ h2

theorem sumK_replicate (n : Nat) (c : K) : sumK (List.replicate n c) = (n : K) * c := by
  induction n with
  | zero => simp only [List.replicate_zero, sumK_nil, Nat.cast_zero, zero_mul]
  | succ n ih => simp only [List.replicate_succ, sumK_cons, ih, Nat.cast_succ]; ring

/-- the categorical distribution is normalised as soon as the total weight is non-zero -/
theorem mass_categoricalDist (w : List K) (hs : sum w ≠ 0) : mass (categoricalDist w) = 1 := by
  simp only [mass, E, categoricalDist, List.map_map, Function.comp_def, mul_one]
  rw [sumK_map_div (List.range w.length) (sum w) (fun i => w.getD i 0), map_getD_range,
    ← sum_eq_sumK, div_self hs]

/-- Σ_{j<m} p_j·[j = i] = p_i if i < m, else 0 -/
theorem sumK_range_indicator (p : Nat → K) (i m : Nat) :
    sumK ((List.range m).map fun j => p j * (if j = i then 1 else 0)) =
      if i < m then p i else 0 := by
  induction m with
  | zero => simp only [List.range_zero, List.map_nil, sumK_nil, Nat.not_lt_zero, if_false]
  | succ m ih =>
    rw [List.range_succ, List.map_append, sumK_append, ih]
    simp only [List.map_cons, List.map_nil, sumK_cons, sumK_nil, add_zero]
    by_cases h1 : i < m
    · have h2 : m ≠ i := by omega
      have h3 : i < m + 1 := by omega
      simp only [h1, h2, h3, if_true, if_false, mul_zero, add_zero]
    · by_cases h2 : m = i
      · subst h2
        simp only [h1, if_true, if_false, mul_one, zero_add, Nat.lt_succ_self]
      · have h3 : ¬ i < m + 1 := by omega
        simp only [h1, h2, h3, if_false, mul_zero, add_zero]

/-- P(index = i) = w_i / Σ w -/
theorem E_categoricalDist_indicator (w : List K) (i : Nat) (hi : i < w.length) :
    E (categoricalDist w) (fun j => if j = i then (1 : K) else 0) = w.getD i 0 / sum w := by
  simp only [E, categoricalDist, List.map_map, Function.comp_def]
  rw [sumK_range_indicator (fun j => w.getD j 0 / sum w) i w.length, if_pos hi]

/-- the copy count is a sum of indicators -/
theorem copies_eq_sumK (idx : List Nat) (i : Nat) :
    ((copies idx i : Nat) : K) = sumK (idx.map fun j => if j = i then (1 : K) else 0) := by
  induction idx with
  | nil => simp only [copies, List.count_nil, Nat.cast_zero, List.map_nil, sumK_nil]
  | cons x xs ih =>
    simp only [copies] at ih
    simp only [copies, List.count_cons, List.map_cons, sumK_cons, ← ih, beq_iff_eq]
    by_cases h : x = i
    · simp only [h, if_true]; push_cast; ring
    · simp only [h, if_false]; push_cast; ring

/-- every outcome of `multinomial w n` is a vector of `n` ancestor indices, each `< len w` -/
theorem multinomial_length (w : List K) (n : Nat) (idx : List Nat)
    (h : idx ∈ supp (multinomial w n)) : idx.length = n := by
  rw [multinomial] at h
  rw [length_of_mem_supp_sequence _ _ h, List.length_replicate]

theorem mass_multinomial (w : List K) (n : Nat) (hs : sum w ≠ 0) : mass (multinomial w n) = 1 :=
  mass_sequence _ fun d hd => by
    rw [List.eq_of_mem_replicate hd]; exact mass_categoricalDist w hs

/-- **categorical resampling is unbiased**: E[copies_i] = N · w_i / Σ w -/
theorem multinomial_unbiased (w : List K) (n : Nat) (hs : sum w ≠ 0) (i : Nat) (hi : i < w.length) :
    E (multinomial w n) (fun idx => ((copies idx i : Nat) : K)) = (n : K) * (w.getD i 0 / sum w) := by
  have hfun : (fun idx : List Nat => ((copies idx i : Nat) : K)) =
      fun idx => sumK (idx.map fun j => if j = i then (1 : K) else 0) :=
    funext fun idx => copies_eq_sumK idx i
  rw [hfun, multinomial, E_sequence_sum _ (fun d hd => by
    rw [List.eq_of_mem_replicate hd]; exact mass_categoricalDist w hs), List.map_replicate,
    sumK_replicate, E_categoricalDist_indicator w i hi]

/-! ### the same statement for `Smc.resampleStep` (the resampling move used in the C10 proofs) -/

/-- For the multinomial resampling move of `Model/Smc.lean` and any particle value `x`:
    the expected number of resampled particles equal to `x` is `N · (Σ_{j : x_j = x} w_j) / Σ w`. -/
theorem resampleStep_unbiased {X : Type} [DecidableEq X] (s : Sys K X)
    (ht : sumK (s.parts.map (·.2)) ≠ 0) (x : X) :
    E (resampleStep s)
        (fun s' => sumK (s'.parts.map fun (yw : X × K) => if yw.1 = x then (1 : K) else 0))
      = (s.parts.length : K) *
        (sumK (s.parts.map fun (yw : X × K) => if yw.1 = x then yw.2 else 0) /
          sumK (s.parts.map (·.2))) := by
  have hmass : mass (s.parts.map fun (yw : X × K) =>
      ((yw.1, (1 : K)), yw.2 / sumK (s.parts.map (fun y : X × K => y.2)))) = 1 := by
    simp only [mass, E, List.map_map, Function.comp_def, mul_one]
    rw [sumK_map_div s.parts _ (fun yw : X × K => yw.2), div_self ht]
  have hE : E (s.parts.map fun (yw : X × K) =>
      ((yw.1, (1 : K)), yw.2 / sumK (s.parts.map (fun y : X × K => y.2))))
        (fun (yw : X × K) => if yw.1 = x then (1 : K) else 0)
      = sumK (s.parts.map fun (yw : X × K) => if yw.1 = x then yw.2 else 0) /
          sumK (s.parts.map (·.2)) := by
    simp only [E, List.map_map, Function.comp_def]
    rw [← sumK_map_div]
    congr 1
    apply List.map_congr_left
    rintro ⟨y, v⟩ -
    by_cases h : y = x
    · simp only [h, if_true, mul_one]
    · simp only [h, if_false, mul_zero, zero_div]
  simp only [resampleStep, E_bind, E_pure]
  rw [E_sequence_sum _ (fun d hd => by
    simp only [List.mem_map] at hd
    obtain ⟨_, -, rfl⟩ := hd
    exact hmass), List.map_map]
  simp only [Function.comp_def]
  rw [sumK_map_const, hE]

end Genjax.Resample
