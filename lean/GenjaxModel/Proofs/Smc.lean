import GenjaxModel.Model.Smc
import Mathlib.Algebra.Field.Basic
import Mathlib.Tactic.Ring
import Mathlib.Tactic.FieldSimp
/-!
  C10: proper weighting of SMC particle systems and unbiasedness of the evidence estimate, for
  finite-support models (exact expectations).  γ(φ) denotes the unnormalised target integral; one
  SMC move turns "E[est φ] = γ(φ) for all φ" into the same statement for the next target.
-/
namespace Genjax.Smc
open FinDist

variable {K : Type} [Field K] {X : Type}


/-! ### algebra of `sumK` -/

theorem sumK_nil : sumK ([] : List K) = 0 := rfl
theorem sumK_cons (x : K) (xs : List K) : sumK (x :: xs) = x + sumK xs := rfl

theorem sumK_append (xs ys : List K) : sumK (xs ++ ys) = sumK xs + sumK ys := by
  induction xs with
  | nil => simp only [List.nil_append, sumK_nil, zero_add]
  | cons x xs ih => simp only [List.cons_append, sumK_cons, ih, add_assoc]

theorem sumK_map_mul_left {α : Type} (l : List α) (c : K) (f : α → K) :
    sumK (l.map fun a => c * f a) = c * sumK (l.map f) := by
  induction l with
  | nil => simp only [List.map_nil, sumK_nil, mul_zero]
  | cons a l ih => simp only [List.map_cons, sumK_cons, ih, mul_add]

theorem sumK_map_add {α : Type} (l : List α) (f g : α → K) :
    sumK (l.map fun a => f a + g a) = sumK (l.map f) + sumK (l.map g) := by
  induction l with
  | nil => simp only [List.map_nil, sumK_nil, add_zero]
  | cons a l ih => simp only [List.map_cons, sumK_cons, ih]; ring

theorem sumK_map_const {α : Type} (l : List α) (c : K) :
    sumK (l.map fun _ => c) = (l.length : K) * c := by
  induction l with
  | nil => simp only [List.map_nil, sumK_nil, List.length_nil, Nat.cast_zero, zero_mul]
  | cons a l ih =>
    simp only [List.map_cons, sumK_cons, ih, List.length_cons, Nat.cast_succ]; ring

theorem sumK_map_div {α : Type} (l : List α) (c : K) (f : α → K) :
    sumK (l.map fun a => f a / c) = sumK (l.map f) / c := by
  induction l with
  | nil => simp only [List.map_nil, sumK_nil, zero_div]
  | cons a l ih => simp only [List.map_cons, sumK_cons, ih, add_div]

/-! ### algebra of `E` -/

theorem E_nil {α : Type} (f : α → K) : E ([] : FinDist K α) f = 0 := rfl
theorem E_cons {α : Type} (a : α) (p : K) (d : FinDist K α) (f : α → K) :
    E ((a, p) :: d) f = p * f a + E d f := rfl

theorem E_append {α : Type} (d₁ d₂ : FinDist K α) (f : α → K) :
    E (d₁ ++ d₂) f = E d₁ f + E d₂ f := by
  simp only [E, List.map_append, sumK_append]

theorem E_mul_left {α : Type} (d : FinDist K α) (c : K) (f : α → K) :
    E d (fun a => c * f a) = c * E d f := by
  induction d with
  | nil => simp only [E_nil, mul_zero]
  | cons x d ih => obtain ⟨a, p⟩ := x; simp only [E_cons, ih]; ring

theorem E_mul_right {α : Type} (d : FinDist K α) (c : K) (f : α → K) :
    E d (fun a => f a * c) = E d f * c := by
  induction d with
  | nil => simp only [E_nil, zero_mul]
  | cons x d ih => obtain ⟨a, p⟩ := x; simp only [E_cons, ih]; ring

theorem E_add {α : Type} (d : FinDist K α) (f g : α → K) :
    E d (fun a => f a + g a) = E d f + E d g := by
  induction d with
  | nil => simp only [E_nil, add_zero]
  | cons x d ih => obtain ⟨a, p⟩ := x; simp only [E_cons, ih]; ring

theorem E_const {α : Type} (d : FinDist K α) (c : K) : E d (fun _ => c) = mass d * c := by
  have := E_mul_left d c (fun _ => 1)
  simp only [mul_one] at this
  rw [this, mass, mul_comm]

theorem E_map_scale {β : Type} (d : FinDist K β) (p : K) (g : β → K) :
    E (d.map fun (b, q) => (b, p * q)) g = p * E d g := by
  induction d with
  | nil => simp only [List.map_nil, E_nil, mul_zero]
  | cons x d ih => obtain ⟨b, q⟩ := x; simp only [List.map_cons, E_cons, ih]; ring

theorem E_map_fst {α β : Type} (d : FinDist K α) (h : α → β) (g : β → K) :
    E (d.map fun (a, p) => (h a, p)) g = E d (fun a => g (h a)) := by
  induction d with
  | nil => simp only [List.map_nil, E_nil]
  | cons x d ih => obtain ⟨a, p⟩ := x; simp only [List.map_cons, E_cons, ih]

/-- the support (with multiplicity) of a weighted list -/
def supp {α : Type} (d : FinDist K α) : List α := d.map Prod.fst

theorem E_congr_supp {α : Type} (d : FinDist K α) (f g : α → K)
    (h : ∀ a ∈ supp d, f a = g a) : E d f = E d g := by
  induction d with
  | nil => rfl
  | cons x d ih =>
    obtain ⟨a, p⟩ := x
    simp only [E_cons]
    rw [h a (by simp [supp]), ih (fun b hb => h b (by simp only [supp, List.map_cons, List.mem_cons]; exact Or.inr hb))]

theorem bind_cons {α β : Type} (a : α) (p : K) (d : FinDist K α) (f : α → FinDist K β) :
    FinDist.bind ((a, p) :: d) f
      = ((f a).map fun (b, q) => (b, p * q)) ++ FinDist.bind d f := by
  simp only [FinDist.bind, List.flatMap_cons]

theorem mem_supp_pure {α : Type} (a b : α) (h : b ∈ supp (FinDist.pure a : FinDist K α)) :
    b = a := by
  simpa [supp, FinDist.pure] using h

theorem mem_supp_bind {α β : Type} (d : FinDist K α) (f : α → FinDist K β) (b : β)
    (h : b ∈ supp (FinDist.bind d f)) : ∃ a ∈ supp d, b ∈ supp (f a) := by
  induction d with
  | nil => simp [supp, FinDist.bind] at h
  | cons x d ih =>
    obtain ⟨a, p⟩ := x
    rw [bind_cons] at h
    simp only [supp, List.map_append, List.mem_append, List.map_map] at h
    rcases h with h | h
    · refine ⟨a, by simp [supp], ?_⟩
      simp only [supp]
      convert h using 2
      funext x; rfl
    · obtain ⟨a', ha', hb⟩ := ih h
      exact ⟨a', by simp only [supp, List.map_cons, List.mem_cons]; exact Or.inr ha', hb⟩

theorem length_of_mem_supp_sequence {α : Type} (ds : List (FinDist K α)) (as : List α)
    (h : as ∈ supp (sequence ds)) : as.length = ds.length := by
  induction ds generalizing as with
  | nil =>
    have := mem_supp_pure _ _ h
    subst this; rfl
  | cons d ds ih =>
    obtain ⟨a, -, h1⟩ := mem_supp_bind _ _ _ h
    obtain ⟨as', h2, h3⟩ := mem_supp_bind _ _ _ h1
    have := mem_supp_pure _ _ h3
    subst this
    simp only [List.length_cons, ih as' h2]

/-- expectation of a bind is the iterated expectation (tower property) -/
theorem E_bind {α β : Type} (d : FinDist K α) (f : α → FinDist K β) (g : β → K) :
    E (bind d f) g = E d (fun a => E (f a) g) := by
  induction d with
  | nil => rfl
  | cons x d ih =>
    obtain ⟨a, p⟩ := x
    rw [bind_cons, E_append, E_map_scale, ih, E_cons]

theorem E_pure {α : Type} (a : α) (g : α → K) : E (pure a : FinDist K α) g = g a := by
  simp only [FinDist.pure, E_cons, E_nil, one_mul, add_zero]

/-- one importance-sampling step is unbiased: E_q[p/q] = Σ p, whenever q > 0 on the support -/
theorem is_unbiased (xs : List X) (p q : X → K) (hq : ∀ x ∈ xs, q x ≠ 0) :
    E (xs.map fun x => (x, q x)) (fun x => p x / q x) = sumK (xs.map p) := by
  induction xs with
  | nil => rfl
  | cons x xs ih =>
    simp only [List.map_cons, E_cons, sumK_cons]
    rw [ih (fun y hy => hq y (List.mem_cons_of_mem _ hy)),
      mul_div_cancel₀ _ (hq x List.mem_cons_self)]

theorem mass_sequence {α : Type} (ds : List (FinDist K α)) (hm : ∀ d ∈ ds, mass d = 1) :
    mass (sequence ds) = 1 := by
  induction ds with
  | nil => simp only [sequence, mass, E_pure]
  | cons d ds ih =>
    have h1 := ih (fun d' hd' => hm d' (List.mem_cons_of_mem _ hd'))
    have h2 := hm d List.mem_cons_self
    simp only [mass] at h1 h2 ⊢
    simp only [sequence, E_bind, E_pure, h1, h2]

/-- under an independent product of NORMALISED distributions, the expectation of a sum of
    per-coordinate functions is the sum of the coordinate expectations -/
theorem E_sequence_sum {α : Type} (ds : List (FinDist K α)) (hm : ∀ d ∈ ds, mass d = 1)
    (f : α → K) :
    E (sequence ds) (fun as => sumK (as.map f)) = sumK (ds.map fun d => E d f) := by
  induction ds with
  | nil => simp only [sequence, E_pure, List.map_nil]
  | cons d ds ih =>
    have hm' : ∀ d' ∈ ds, mass d' = 1 := fun d' hd' => hm d' (List.mem_cons_of_mem _ hd')
    have h1 := ih hm'
    have h2 := hm d List.mem_cons_self
    have h3 := mass_sequence ds hm'
    simp only [sequence, E_bind, E_pure, List.map_cons, sumK_cons, E_add, E_const, h1, h2, h3,
      one_mul]

/-- lengths are preserved by the product -/
theorem E_sequence_length {α : Type} (ds : List (FinDist K α)) (hm : ∀ d ∈ ds, mass d = 1)
    (g : Nat → K) :
    E (sequence ds) (fun as => g as.length) = g ds.length := by
  rw [E_congr_supp _ _ (fun _ => g ds.length)
    (fun as h => by rw [length_of_mem_supp_sequence ds as h]), E_const, mass_sequence ds hm, one_mul]

theorem E_div {α : Type} (d : FinDist K α) (c : K) (f : α → K) :
    E d (fun a => f a / c) = E d f / c := by
  simp only [div_eq_mul_inv, E_mul_right]

theorem mass_map_fst {α β : Type} (d : FinDist K α) (h : α → β) :
    mass (d.map fun (a, p) => (h a, p)) = mass d := by
  simp only [mass, E_map_fst]

/-- expectation of the estimate of a system whose particles are drawn independently -/
theorem E_sequence_est (ds : List (FinDist K (X × K))) (hm : ∀ d ∈ ds, mass d = 1) (acc : K)
    (φ : X → K) :
    E (sequence ds) (fun parts' => Sys.est { parts := parts', acc := acc } φ)
      = acc * (sumK (ds.map fun d => E d (fun (x, w) => w * φ x)) / (ds.length : K)) := by
  rw [E_congr_supp _ _
    (fun parts' => acc * (sumK (parts'.map fun (x, w) => w * φ x) / (ds.length : K)))
    (fun as h => by simp only [Sys.est, length_of_mem_supp_sequence ds as h]),
    E_mul_left, E_div, E_sequence_sum ds hm]

theorem supp_sequence_step {ds : List (FinDist K (X × K))} {acc : K} {s' : Sys K X}
    (h : s' ∈ supp (FinDist.bind (sequence ds)
      fun parts' => FinDist.pure { parts := parts', acc := acc })) :
    s'.parts.length = ds.length := by
  obtain ⟨as, h1, h2⟩ := mem_supp_bind _ _ _ h
  have := mem_supp_pure _ _ h2
  subst this
  exact length_of_mem_supp_sequence ds as h1

/-- extend (and init) step: E[est φ after the step] = est (Kφ) before it, where
    (Kφ)(x) = Σ_x' q(x'|x)·G(x,x')·φ(x') is the incremental target kernel applied to φ.
    Hypothesis: every proposal q(·|x) is normalised. -/
theorem extend_est (q : X → FinDist K X) (G : X → X → K) (s : Sys K X)
    (hq : ∀ x, mass (q x) = 1) (φ : X → K) :
    E (extendStep q G s) (fun s' => s'.est φ) = s.est (fun x => E (q x) (fun x' => G x x' * φ x')) := by
  simp only [extendStep, E_bind, E_pure]
  rw [E_sequence_est]
  · simp only [Sys.est, List.map_map, List.length_map]
    congr 3
    apply List.map_congr_left
    rintro ⟨x, w⟩ -
    simp only [Function.comp]
    rw [E_map_fst (q x) (fun x' => (x', w * G x x')), ← E_mul_left]
    congr 1; funext x'; ring
  · intro d hd
    simp only [List.mem_map] at hd
    obtain ⟨⟨x, w⟩, -, rfl⟩ := hd
    rw [mass_map_fst (q x) (fun x' => (x', w * G x x'))]; exact hq x

theorem extend_length (q : X → FinDist K X) (G : X → X → K) (s s' : Sys K X)
    (h : s' ∈ supp (extendStep q G s)) : s'.parts.length = s.parts.length := by
  rw [supp_sequence_step h, List.length_map]

/-- rejuvenation leaves weights and the accumulated estimate untouched: E[est φ] = est (kφ) -/
theorem rejuvenate_est (k : X → FinDist K X) (s : Sys K X) (hk : ∀ x, mass (k x) = 1) (φ : X → K) :
    E (rejuvenateStep k s) (fun s' => s'.est φ) = s.est (fun x => E (k x) φ) := by
  simp only [rejuvenateStep, E_bind, E_pure]
  rw [E_sequence_est]
  · simp only [Sys.est, List.map_map, List.length_map]
    congr 3
    apply List.map_congr_left
    rintro ⟨x, w⟩ -
    simp only [Function.comp]
    rw [E_map_fst (k x) (fun x' => (x', w)), ← E_mul_left]
  · intro d hd
    simp only [List.mem_map] at hd
    obtain ⟨⟨x, w⟩, -, rfl⟩ := hd
    rw [mass_map_fst (k x) (fun x' => (x', w))]; exact hk x

theorem rejuvenate_length (k : X → FinDist K X) (s s' : Sys K X)
    (h : s' ∈ supp (rejuvenateStep k s)) : s'.parts.length = s.parts.length := by
  rw [supp_sequence_step h, List.length_map]

theorem resample_aux {α : Type} (l : List α) (acc : K) (one : FinDist K (X × K))
    (hmass : mass one = 1) (φ : X → K) :
    E (FinDist.bind (sequence (l.map fun _ => one))
        fun parts' => FinDist.pure ({ parts := parts', acc := acc } : Sys K X))
        (fun s' : Sys K X => s'.est φ)
      = acc * ((l.length : K) * E one (fun (x, w) => w * φ x) / (l.length : K)) := by
  simp only [E_bind, E_pure]
  rw [E_sequence_est]
  · rw [List.map_map, List.length_map]
    congr 2
    exact sumK_map_const l _
  · intro d hd
    simp only [List.mem_map] at hd
    obtain ⟨_, -, rfl⟩ := hd
    exact hmass

/-- multinomial resampling preserves every estimate-weighted average in expectation, for every
    particle count N ≥ 1 and every weight vector with non-zero total -/
theorem resample_est (s : Sys K X) (hn : (s.parts.length : K) ≠ 0)
    (ht : sumK (s.parts.map (·.2)) ≠ 0) (φ : X → K) :
    E (resampleStep s) (fun s' => s'.est φ) = s.est φ := by
  have hmass : mass (s.parts.map fun (x, w) =>
      ((x, (1 : K)), w / sumK (s.parts.map (fun y : X × K => y.2)))) = 1 := by
    simp only [mass, E, List.map_map, mul_one]
    rw [← div_self ht, ← sumK_map_div]
    rfl
  have hE : E (s.parts.map fun (x, w) =>
      ((x, (1 : K)), w / sumK (s.parts.map (fun y : X × K => y.2)))) (fun (x, w) => w * φ x)
      = sumK (s.parts.map fun (x, w) => w * φ x) / sumK (s.parts.map (·.2)) := by
    simp only [E, List.map_map]
    rw [← sumK_map_div]
    congr 1
    apply List.map_congr_left
    rintro ⟨x, w⟩ -
    simp only [Function.comp]
    ring
  refine (resample_aux s.parts _ _ hmass φ).trans ?_
  rw [hE]
  simp only [Sys.est]
  field_simp

theorem resample_length (s s' : Sys K X) (h : s' ∈ supp (resampleStep s)) :
    s'.parts.length = s.parts.length := by
  simp only [resampleStep] at h
  rw [supp_sequence_step h, List.length_map]

/-- hence so does adaptive resampling, for an arbitrary trigger computed from the weights -/
theorem maybeResample_est (trigger : List K → Bool) (s : Sys K X) (hn : (s.parts.length : K) ≠ 0)
    (ht : sumK (s.parts.map (·.2)) ≠ 0) (φ : X → K) :
    E (maybeResample trigger s) (fun s' => s'.est φ) = s.est φ := by
  unfold maybeResample
  split
  · exact resample_est s hn ht φ
  · exact E_pure s _

theorem maybeResample_length (trigger : List K → Bool) (s s' : Sys K X)
    (h : s' ∈ supp (maybeResample trigger s)) : s'.parts.length = s.parts.length := by
  unfold maybeResample at h
  split at h
  · exact resample_length s s' h
  · rw [mem_supp_pure _ _ h]

/-- one step of `rejuvenation_smc` / a hand-composed pipeline: extend with proposal q and incremental
    weight G, adaptive resampling, optional rejuvenation by a kernel k -/
structure Step (K : Type) (X : Type) where
  q : X → FinDist K X
  G : X → X → K
  trigger : List K → Bool
  k : X → FinDist K X

def runSteps : List (Step K X) → Sys K X → FinDist K (Sys K X)
  | [], s => pure s
  | st :: rest, s =>
    bind (extendStep st.q st.G s) fun s1 =>
    bind (maybeResample st.trigger s1) fun s2 =>
    bind (rejuvenateStep st.k s2) fun s3 => runSteps rest s3

/-- the target functional pulled back through the steps:
    φ ↦ K₁(k₁(K₂(k₂(… φ))))  with (K_t ψ)(x) = Σ_x' q_t(x'|x) G_t(x,x') ψ(x') -/
def pull : List (Step K X) → (X → K) → X → K
  | [], φ => φ
  | st :: rest, φ => fun x => E (st.q x) (fun x' => st.G x x' * E (st.k x') (pull rest φ))

/-- **Unbiasedness of SMC** (finite support): for every pipeline of extend / adaptive-resample /
    rejuvenate steps, every particle count N with (N : K) ≠ 0, and every test function φ,
    E[ acc·(1/N)·Σ w_i φ(x_i) ] after the pipeline equals the same estimator of the pulled-back
    function before it. With φ = 1 and the initial system (N copies of a start state, weights 1,
    acc 1) this is E[exp(log_marginal_likelihood())] = marginal likelihood. Hypotheses: proposals
    and kernels are normalised; a resampling trigger never fires on a weight vector of total 0. -/
theorem smc_unbiased (steps : List (Step K X)) (s : Sys K X)
    (hN : (s.parts.length : K) ≠ 0)
    (hq : ∀ st ∈ steps, ∀ x, mass (st.q x) = 1) (hk : ∀ st ∈ steps, ∀ x, mass (st.k x) = 1)
    (htrig : ∀ st ∈ steps, ∀ ws, st.trigger ws = true → sumK ws ≠ 0) (φ : X → K) :
    E (runSteps steps s) (fun s' => s'.est φ) = s.est (pull steps φ) := by
  induction steps generalizing s with
  | nil => simp only [runSteps, pull, E_pure]
  | cons st rest ih =>
    have hq' : ∀ st' ∈ rest, ∀ x, mass (st'.q x) = 1 :=
      fun st' h => hq st' (List.mem_cons_of_mem _ h)
    have hk' : ∀ st' ∈ rest, ∀ x, mass (st'.k x) = 1 :=
      fun st' h => hk st' (List.mem_cons_of_mem _ h)
    have htrig' : ∀ st' ∈ rest, ∀ ws, st'.trigger ws = true → sumK ws ≠ 0 :=
      fun st' h => htrig st' (List.mem_cons_of_mem _ h)
    simp only [runSteps, pull, E_bind]
    rw [← extend_est st.q st.G s (hq st List.mem_cons_self)]
    apply E_congr_supp
    intro s1 h1
    have l1 : s1.parts.length = s.parts.length := extend_length _ _ _ _ h1
    have hN1 : (s1.parts.length : K) ≠ 0 := by rw [l1]; exact hN
    -- the adaptive-resampling layer
    have hres : E (maybeResample st.trigger s1)
        (fun s2 => s2.est (fun x => E (st.k x) (pull rest φ)))
        = s1.est (fun x => E (st.k x) (pull rest φ)) := by
      unfold maybeResample
      split
      · next htr => exact resample_est s1 hN1 (htrig st List.mem_cons_self _ htr) _
      · exact E_pure s1 _
    rw [← hres]
    apply E_congr_supp
    intro s2 h2
    have l2 : s2.parts.length = s1.parts.length := maybeResample_length _ _ _ h2
    rw [← rejuvenate_est st.k s2 (hk st List.mem_cons_self)]
    apply E_congr_supp
    intro s3 h3
    have l3 : s3.parts.length = s2.parts.length := rejuvenate_length _ _ _ h3
    exact ih s3 (by rw [l3, l2]; exact hN1) hq' hk' htrig'

end Genjax.Smc

#print axioms Genjax.Smc.E_bind
#print axioms Genjax.Smc.E_pure
#print axioms Genjax.Smc.is_unbiased
#print axioms Genjax.Smc.E_sequence_sum
#print axioms Genjax.Smc.E_sequence_length
#print axioms Genjax.Smc.extend_est
#print axioms Genjax.Smc.rejuvenate_est
#print axioms Genjax.Smc.resample_est
#print axioms Genjax.Smc.maybeResample_est
#print axioms Genjax.Smc.smc_unbiased

