import GenjaxModel.Model.Kalman
import Mathlib.LinearAlgebra.Matrix.NonsingularInverse
import Mathlib.LinearAlgebra.Matrix.Notation
import Mathlib.Tactic.FinCases
import Mathlib.LinearAlgebra.Matrix.SchurComplement
import Mathlib.LinearAlgebra.Matrix.Symmetric
import Mathlib.Tactic.Abel
import Mathlib.Tactic.Ring
import Mathlib.Tactic.NormNum
import Mathlib.Tactic.LinearCombination
/-!
  C20 (Kalman, MATRIX case): the update step of `kalman_filter`
  (src/genjax/extras/state_space.py:434-530) is exact Bayesian conditioning, for every state
  dimension `n`, every observation dimension `p` (index types are arbitrary finite types) and every
  commutative ring / field of scalars.  All invertibility assumptions are explicit hypotheses
  `IsUnit (det _)`; no statement relies on the junk value `A⁻¹ = 0` of Mathlib's totalised inverse.

  The definitions mirror the code line by line:

      innovation      = observations[t] - C @ predicted_mean                 `innov`
      innovation_cov  = C @ predicted_cov @ C.T + R                          `innovCov`
      kalman_gain     = predicted_cov @ C.T @ inv(innovation_cov)            `gain`
      filtered_mean   = predicted_mean + kalman_gain @ innovation            `updMean`
      filtered_cov    = predicted_cov - kalman_gain @ C @ predicted_cov      `updCov`
      predicted_mean  = A @ prev_filtered_mean                               `predMean`
      predicted_cov   = A @ prev_filtered_cov @ A.T + Q                      `predCov`
      smoother_gain   = filtered_covs[t] @ A.T @ inv(predicted_cov)          `smGain`
      smoothed_mean   = filtered_means[t] + smoother_gain @ (next_smoothed_mean - predicted_mean)
                                                                             `smMean`
      smoothed_cov    = filtered_covs[t]
                        + smoother_gain @ (next_smoothed_cov - predicted_cov) @ smoother_gain.T
                                                                             `smCov`
-/
set_option linter.unusedSectionVars false
noncomputable section
namespace Genjax.KalmanMatrix
open Matrix

variable {n p 𝕜 : Type*} [Fintype n] [DecidableEq n] [Fintype p] [DecidableEq p] [CommRing 𝕜]

/-! ## The code, line by line -/

/-- `innovation = y - C @ m` -/
def innov (C : Matrix p n 𝕜) (m : n → 𝕜) (y : p → 𝕜) : p → 𝕜 := y - C *ᵥ m

/-- `innovation_cov = C @ P @ C.T + R` -/
def innovCov (C : Matrix p n 𝕜) (P : Matrix n n 𝕜) (R : Matrix p p 𝕜) : Matrix p p 𝕜 :=
  C * P * Cᵀ + R

/-- `kalman_gain = P @ C.T @ inv(innovation_cov)` -/
def gain (C : Matrix p n 𝕜) (P : Matrix n n 𝕜) (R : Matrix p p 𝕜) : Matrix n p 𝕜 :=
  P * Cᵀ * (innovCov C P R)⁻¹

/-- `filtered_mean = m + kalman_gain @ innovation` -/
def updMean (C : Matrix p n 𝕜) (P : Matrix n n 𝕜) (R : Matrix p p 𝕜) (m : n → 𝕜) (y : p → 𝕜) :
    n → 𝕜 := m + gain C P R *ᵥ innov C m y

/-- `filtered_cov = P - kalman_gain @ C @ P` -/
def updCov (C : Matrix p n 𝕜) (P : Matrix n n 𝕜) (R : Matrix p p 𝕜) : Matrix n n 𝕜 :=
  P - gain C P R * C * P

/-- `predicted_mean = A @ m` -/
def predMean (A : Matrix n n 𝕜) (m : n → 𝕜) : n → 𝕜 := A *ᵥ m

/-- `predicted_cov = A @ P @ A.T + Q` -/
def predCov (A P Q : Matrix n n 𝕜) : Matrix n n 𝕜 := A * P * Aᵀ + Q

/-- `smoother_gain = P_t @ A.T @ inv(predicted_cov)` -/
def smGain (A P Q : Matrix n n 𝕜) : Matrix n n 𝕜 := P * Aᵀ * (predCov A P Q)⁻¹

/-- `smoothed_mean = m_t + smoother_gain @ (next_smoothed_mean - predicted_mean)` -/
def smMean (A P Q : Matrix n n 𝕜) (m ms : n → 𝕜) : n → 𝕜 :=
  m + smGain A P Q *ᵥ (ms - predMean A m)

/-- `smoothed_cov = P_t + smoother_gain @ (next_smoothed_cov - predicted_cov) @ smoother_gain.T` -/
def smCov (A P Q Ps : Matrix n n 𝕜) : Matrix n n 𝕜 :=
  P + smGain A P Q * (Ps - predCov A P Q) * (smGain A P Q)ᵀ

/-- the quadratic form `vᵀ M v` (the exponent of a Gaussian density is `-½ · qf Σ⁻¹ (x - μ)`) -/
def qf {ι : Type*} [Fintype ι] (M : Matrix ι ι 𝕜) (v : ι → 𝕜) : 𝕜 := v ⬝ᵥ M *ᵥ v

/-! ## Basic algebra of the gain -/

section basic
variable (C : Matrix p n 𝕜) (P : Matrix n n 𝕜) (R : Matrix p p 𝕜)

theorem innovCov_isSymm (hP : P.IsSymm) (hR : R.IsSymm) : (innovCov C P R).IsSymm := by
  unfold innovCov
  refine IsSymm.add ?_ hR
  unfold IsSymm
  rw [transpose_mul, transpose_mul, transpose_transpose, hP.eq, Matrix.mul_assoc]

/-- `K S = P Cᵀ` -/
theorem gain_mul_innovCov (hS : IsUnit (innovCov C P R).det) :
    gain C P R * innovCov C P R = P * Cᵀ := by
  unfold gain
  rw [nonsing_inv_mul_cancel_right _ _ hS]

/-- `C K = 1 - R S⁻¹` -/
theorem mul_gain (hS : IsUnit (innovCov C P R).det) :
    C * gain C P R = 1 - R * (innovCov C P R)⁻¹ := by
  have h : C * P * Cᵀ = innovCov C P R - R := by unfold innovCov; abel
  unfold gain
  rw [← Matrix.mul_assoc, ← Matrix.mul_assoc, h, Matrix.sub_mul, mul_nonsing_inv _ hS]

/-- `P' = (1 - K C) P` -/
theorem updCov_eq_one_sub_mul : updCov C P R = (1 - gain C P R * C) * P := by
  unfold updCov
  rw [Matrix.sub_mul, Matrix.one_mul]

/-- `K S Kᵀ = P Cᵀ Kᵀ` -/
theorem gain_innovCov_gainT (hS : IsUnit (innovCov C P R).det) :
    gain C P R * innovCov C P R * (gain C P R)ᵀ = P * Cᵀ * (gain C P R)ᵀ := by
  rw [gain_mul_innovCov C P R hS]

/-- the JOSEPH form of the covariance update (needs only `S` invertible, no symmetry):
    `P' = (1 - K C) P (1 - K C)ᵀ + K R Kᵀ` -/
theorem updCov_joseph (hS : IsUnit (innovCov C P R).det) :
    updCov C P R =
      (1 - gain C P R * C) * P * (1 - gain C P R * C)ᵀ + gain C P R * R * (gain C P R)ᵀ := by
  have hR : R = innovCov C P R - C * P * Cᵀ := by unfold innovCov; abel
  have hK := gain_mul_innovCov C P R hS
  set K := gain C P R with hKdef
  have e1 : K * R * Kᵀ = P * Cᵀ * Kᵀ - K * C * P * Cᵀ * Kᵀ := by
    conv_lhs => rw [hR]
    rw [Matrix.mul_sub, Matrix.sub_mul, hK]
    simp only [Matrix.mul_assoc]
  rw [e1, updCov_eq_one_sub_mul, ← hKdef]
  simp only [transpose_sub, transpose_one, transpose_mul, Matrix.mul_sub, Matrix.sub_mul,
    Matrix.mul_one, Matrix.one_mul, Matrix.mul_assoc]
  abel

/-- the transposed gain when `P`, `R` are symmetric: `Kᵀ = S⁻¹ C P` -/
theorem gain_transpose (hP : P.IsSymm) (hR : R.IsSymm) :
    (gain C P R)ᵀ = (innovCov C P R)⁻¹ * C * P := by
  unfold gain
  rw [transpose_mul, transpose_mul, transpose_transpose, hP.eq,
    (innovCov_isSymm C P R hP hR).inv.eq, Matrix.mul_assoc]

/-- symmetric form of the covariance update: `P' = P - K S Kᵀ` -/
theorem updCov_eq_sub_gain_innovCov_gainT (hP : P.IsSymm) (hR : R.IsSymm)
    (hS : IsUnit (innovCov C P R).det) :
    updCov C P R = P - gain C P R * innovCov C P R * (gain C P R)ᵀ := by
  rw [gain_innovCov_gainT C P R hS, gain_transpose C P R hP hR]
  unfold updCov gain
  simp only [Matrix.mul_assoc]

/-- the filtered covariance is symmetric when `P` and `R` are -/
theorem updCov_isSymm (hP : P.IsSymm) (hR : R.IsSymm) : (updCov C P R).IsSymm := by
  unfold updCov
  refine IsSymm.sub hP ?_
  unfold IsSymm
  rw [transpose_mul, transpose_mul, gain_transpose C P R hP hR, hP.eq]
  unfold gain
  simp only [Matrix.mul_assoc]

/-- `K = P' Cᵀ R⁻¹` : the gain expressed through the posterior covariance -/
theorem gain_eq_updCov_mul (hR : IsUnit R.det) (hS : IsUnit (innovCov C P R).det) :
    gain C P R = updCov C P R * Cᵀ * R⁻¹ := by
  have h : C * P * Cᵀ = innovCov C P R - R := by unfold innovCov; abel
  have hK := gain_mul_innovCov C P R hS
  unfold updCov
  rw [Matrix.sub_mul, Matrix.sub_mul]
  have e : gain C P R * C * P * Cᵀ = P * Cᵀ - gain C P R * R := by
    rw [Matrix.mul_assoc, Matrix.mul_assoc, ← Matrix.mul_assoc C, h, Matrix.mul_sub, hK]
  rw [e, Matrix.sub_mul, mul_nonsing_inv_cancel_right _ _ hR]
  abel

end basic

/-! ## 2. Precision (information) form: posterior precision = prior precision + Cᵀ R⁻¹ C -/

section precision
variable (C : Matrix p n 𝕜) (P : Matrix n n 𝕜) (R : Matrix p p 𝕜)

/-- the information matrix `P⁻¹ + Cᵀ R⁻¹ C` of "prior × likelihood" -/
def info (C : Matrix p n 𝕜) (P : Matrix n n 𝕜) (R : Matrix p p 𝕜) : Matrix n n 𝕜 :=
  P⁻¹ + Cᵀ * R⁻¹ * C

/-- Woodbury, proved directly: `(P⁻¹ + Cᵀ R⁻¹ C) (P - K C P) = 1` -/
theorem info_mul_updCov (hP : IsUnit P.det) (hR : IsUnit R.det)
    (hS : IsUnit (innovCov C P R).det) : info C P R * updCov C P R = 1 := by
  have hCK := mul_gain C P R hS
  set K := gain C P R with hKdef
  set S := innovCov C P R with hSdef
  -- P⁻¹ K = Cᵀ S⁻¹
  have h1 : P⁻¹ * K = Cᵀ * S⁻¹ := by
    rw [hKdef]; unfold gain
    rw [← Matrix.mul_assoc, ← Matrix.mul_assoc, nonsing_inv_mul _ hP, Matrix.one_mul]
  -- Cᵀ R⁻¹ C K = Cᵀ R⁻¹ - Cᵀ S⁻¹
  have h2 : Cᵀ * R⁻¹ * C * K = Cᵀ * R⁻¹ - Cᵀ * S⁻¹ := by
    rw [Matrix.mul_assoc, hCK, Matrix.mul_sub, Matrix.mul_one, Matrix.mul_assoc Cᵀ R⁻¹,
      nonsing_inv_mul_cancel_left _ _ hR]
  unfold info updCov
  rw [Matrix.add_mul, Matrix.mul_sub, Matrix.mul_sub, nonsing_inv_mul _ hP,
    ← Matrix.mul_assoc P⁻¹, ← Matrix.mul_assoc P⁻¹, h1,
    ← Matrix.mul_assoc (Cᵀ * R⁻¹ * C), ← Matrix.mul_assoc (Cᵀ * R⁻¹ * C), h2]
  simp only [Matrix.sub_mul, Matrix.mul_assoc]
  abel

/-- the filtered covariance is invertible -/
theorem updCov_det_isUnit (hP : IsUnit P.det) (hR : IsUnit R.det)
    (hS : IsUnit (innovCov C P R).det) : IsUnit (updCov C P R).det :=
  isUnit_det_of_left_inverse (info_mul_updCov C P R hP hR hS)

/-- PRECISION FORM: `P'⁻¹ = P⁻¹ + Cᵀ R⁻¹ C` -/
theorem updCov_inv (hP : IsUnit P.det) (hR : IsUnit R.det)
    (hS : IsUnit (innovCov C P R).det) : (updCov C P R)⁻¹ = P⁻¹ + Cᵀ * R⁻¹ * C :=
  inv_eq_left_inv (info_mul_updCov C P R hP hR hS)

/-- `P'⁻¹ K = Cᵀ R⁻¹` -/
theorem updCov_inv_mul_gain (hP : IsUnit P.det) (hR : IsUnit R.det)
    (hS : IsUnit (innovCov C P R).det) : (updCov C P R)⁻¹ * gain C P R = Cᵀ * R⁻¹ := by
  conv_lhs => rw [gain_eq_updCov_mul C P R hR hS]
  rw [Matrix.mul_assoc, nonsing_inv_mul_cancel_left _ _ (updCov_det_isUnit C P R hP hR hS)]

/-- information-form mean update: `P'⁻¹ m' = P⁻¹ m + Cᵀ R⁻¹ y` -/
theorem updCov_inv_mulVec_updMean (hP : IsUnit P.det) (hR : IsUnit R.det)
    (hS : IsUnit (innovCov C P R).det) (m : n → 𝕜) (y : p → 𝕜) :
    (updCov C P R)⁻¹ *ᵥ updMean C P R m y = P⁻¹ *ᵥ m + (Cᵀ * R⁻¹) *ᵥ y := by
  unfold updMean innov
  rw [mulVec_add, mulVec_mulVec, updCov_inv_mul_gain C P R hP hR hS, updCov_inv C P R hP hR hS,
    mulVec_sub, add_mulVec, mulVec_mulVec, Matrix.mul_assoc]
  abel

end precision

/-! ## 3. Completing the square -/

section square
variable (C : Matrix p n 𝕜) (P : Matrix n n 𝕜) (R : Matrix p p 𝕜)

theorem mulVec_dotProduct' {a b : Type*} [Fintype a] [Fintype b] (G : Matrix a b 𝕜) (e : b → 𝕜)
    (x : a → 𝕜) : (G *ᵥ e) ⬝ᵥ x = e ⬝ᵥ Gᵀ *ᵥ x := by
  rw [dotProduct_mulVec, vecMul_transpose]

/-- expansion of a shifted quadratic form -/
theorem qf_sub_mulVec {a b : Type*} [Fintype a] [Fintype b] (Λ : Matrix a a 𝕜) (G : Matrix a b 𝕜)
    (d : a → 𝕜) (e : b → 𝕜) :
    qf Λ (d - G *ᵥ e) =
      qf Λ d - d ⬝ᵥ (Λ * G) *ᵥ e - e ⬝ᵥ (Gᵀ * Λ) *ᵥ d + qf (Gᵀ * Λ * G) e := by
  unfold qf
  simp only [mulVec_sub, sub_dotProduct, dotProduct_sub, mulVec_mulVec, mulVec_dotProduct',
    Matrix.mul_assoc]
  ring

/-- `Kᵀ P'⁻¹ = R⁻¹ C` (symmetric case) -/
theorem gainT_mul_updCov_inv (hPs : P.IsSymm) (hRs : R.IsSymm) (hP : IsUnit P.det)
    (hR : IsUnit R.det) (hS : IsUnit (innovCov C P R).det) :
    (gain C P R)ᵀ * (updCov C P R)⁻¹ = R⁻¹ * C := by
  have h := congrArg transpose (updCov_inv_mul_gain C P R hP hR hS)
  rw [transpose_mul, transpose_mul, transpose_transpose, (updCov_isSymm C P R hPs hRs).inv.eq,
    hRs.inv.eq] at h
  exact h

/-- `Kᵀ P'⁻¹ K = R⁻¹ - S⁻¹` (symmetric case) -/
theorem gainT_mul_updCov_inv_mul_gain (hPs : P.IsSymm) (hRs : R.IsSymm) (hP : IsUnit P.det)
    (hR : IsUnit R.det) (hS : IsUnit (innovCov C P R).det) :
    (gain C P R)ᵀ * (updCov C P R)⁻¹ * gain C P R = R⁻¹ - (innovCov C P R)⁻¹ := by
  rw [gainT_mul_updCov_inv C P R hPs hRs hP hR hS, Matrix.mul_assoc, mul_gain C P R hS,
    Matrix.mul_sub, Matrix.mul_one, nonsing_inv_mul_cancel_left _ _ hR]

/-- COMPLETING THE SQUARE, matrix form.  For every state `x`:
    `(x-m)ᵀ P⁻¹ (x-m) + (y-Cx)ᵀ R⁻¹ (y-Cx) = (x-m')ᵀ P'⁻¹ (x-m') + (y-Cm)ᵀ S⁻¹ (y-Cm)`,
    i.e. −2·log of `prior(x) · lik(y|x)` and of `post(x) · marg(y)` agree up to the constants
    treated in `det_mul_det`. -/
theorem update_completes_square (hPs : P.IsSymm) (hRs : R.IsSymm) (hP : IsUnit P.det)
    (hR : IsUnit R.det) (hS : IsUnit (innovCov C P R).det) (m x : n → 𝕜) (y : p → 𝕜) :
    qf P⁻¹ (x - m) + qf R⁻¹ (y - C *ᵥ x) =
      qf (updCov C P R)⁻¹ (x - updMean C P R m y) + qf (innovCov C P R)⁻¹ (innov C m y) := by
  have e1 : y - C *ᵥ x = innov C m y - C *ᵥ (x - m) := by
    unfold innov; rw [mulVec_sub]; abel
  have e2 : x - updMean C P R m y = (x - m) - gain C P R *ᵥ innov C m y := by
    unfold updMean; abel
  rw [e1, e2]
  generalize x - m = d
  generalize innov C m y = e
  have e3 : qf R⁻¹ (e - C *ᵥ d) =
      qf R⁻¹ e - e ⬝ᵥ (R⁻¹ * C) *ᵥ d - d ⬝ᵥ (Cᵀ * R⁻¹) *ᵥ e + qf (Cᵀ * R⁻¹ * C) d := by
    rw [qf_sub_mulVec]
  have e4 : qf (updCov C P R)⁻¹ (d - gain C P R *ᵥ e) =
      qf (P⁻¹ + Cᵀ * R⁻¹ * C) d - d ⬝ᵥ (Cᵀ * R⁻¹) *ᵥ e - e ⬝ᵥ (R⁻¹ * C) *ᵥ d +
        qf (R⁻¹ - (innovCov C P R)⁻¹) e := by
    rw [qf_sub_mulVec, gainT_mul_updCov_inv_mul_gain C P R hPs hRs hP hR hS,
      updCov_inv_mul_gain C P R hP hR hS, gainT_mul_updCov_inv C P R hPs hRs hP hR hS,
      updCov_inv C P R hP hR hS]
  rw [e3, e4]
  unfold qf
  simp only [add_mulVec, sub_mulVec, dotProduct_add, dotProduct_sub]
  ring

end square

/-! ## 4. Determinants / normalising constants -/

section det
variable (C : Matrix p n 𝕜) (P : Matrix n n 𝕜) (R : Matrix p p 𝕜)

/-- NORMALISER: `det P · det R = det S · det P'` (only `S` invertible is needed).  Together with
    `update_completes_square` this is `N(x; m, P) · N(y; C x, R) = N(y; C m, S) · N(x; m', P')`. -/
theorem det_mul_det (hS : IsUnit (innovCov C P R).det) :
    P.det * R.det = (innovCov C P R).det * (updCov C P R).det := by
  rw [updCov_eq_one_sub_mul, det_mul, det_one_sub_mul_comm, mul_gain C P R hS]
  rw [sub_sub_cancel, det_mul]
  have h := det_nonsing_inv_mul_det _ hS
  linear_combination (-(P.det * R.det)) * h

end det

/-! ## 5. Predict step -/

section predict
variable (A P Q : Matrix n n 𝕜)

theorem predCov_isSymm (hP : P.IsSymm) (hQ : Q.IsSymm) : (predCov A P Q).IsSymm :=
  innovCov_isSymm A P Q hP hQ

/-- the predict step is the marginalisation `x' = A x + w`: the innovation covariance of the
    "observation" `x'` of `x` through `(A, Q)` is exactly `predCov` -/
theorem predCov_eq_innovCov : predCov A P Q = innovCov A P Q := rfl

/-- quadratic form of the predicted covariance: `vᵀ (A P Aᵀ + Q) v = (Aᵀ v)ᵀ P (Aᵀ v) + vᵀ Q v`
    (so `predCov` is positive semidefinite whenever `P` and `Q` are, over any ordered field) -/
theorem qf_predCov (v : n → 𝕜) : qf (predCov A P Q) v = qf P (Aᵀ *ᵥ v) + qf Q v := by
  unfold qf predCov
  rw [add_mulVec, dotProduct_add, ← mulVec_mulVec, ← mulVec_mulVec, mulVec_dotProduct',
    transpose_transpose]

end predict

/-! ## 5b. `d_state = d_obs = 1`: the matrix definitions reduce to the executable scalar model
     `Model/Kalman.lean` (which the driver runs and the correspondence harness compares with the code) -/

section scalar
variable {F : Type} [Field F]

/-- a scalar as a 1×1 matrix -/
def sc (a : F) : Matrix (Fin 1) (Fin 1) F := of fun _ _ => a
/-- a scalar as a vector of length 1 -/
def sv (a : F) : Fin 1 → F := fun _ => a

theorem sc_eq (a : F) : sc a = !![a] := by ext i j; fin_cases i; fin_cases j; rfl
theorem sv_eq (a : F) : sv a = ![a] := by ext i; fin_cases i; rfl
theorem sc_mul (a b : F) : sc a * sc b = sc (a * b) := by ext i j; simp [sc, Matrix.mul_apply]
theorem sc_add (a b : F) : sc a + sc b = sc (a + b) := by ext i j; simp [sc]
theorem sc_sub (a b : F) : sc a - sc b = sc (a - b) := by ext i j; simp [sc]
theorem sc_transpose (a : F) : (sc a)ᵀ = sc a := by ext i j; simp [sc]
theorem sc_inv (a : F) : (sc a)⁻¹ = sc a⁻¹ := by
  rw [inv_subsingleton]; ext i j; simp [sc, diagonal, Subsingleton.elim i j]
theorem sc_det (a : F) : (sc a).det = a := by simp [sc]
theorem sc_mulVec (a b : F) : sc a *ᵥ sv b = sv (a * b) := by
  ext i; simp [sc, sv, mulVec, dotProduct]
theorem sv_add (a b : F) : sv a + sv b = sv (a + b) := by ext i; simp [sv]
theorem sv_sub (a b : F) : sv a - sv b = sv (a - b) := by ext i; simp [sv]
theorem qf_sc (a v : F) : qf (sc a) (sv v) = a * v ^ 2 := by
  simp [qf, sc, sv, mulVec, dotProduct]; ring

theorem innovCov_one (c P r m : F) :
    innovCov (sc c) (sc P) (sc r) = sc (Kalman.innovCov c r ⟨m, P⟩) := by
  simp only [innovCov, Kalman.innovCov, sc_mul, sc_add, sc_transpose]

theorem updCov_one (c P r m y : F) :
    updCov (sc c) (sc P) (sc r) = sc (Kalman.update c r y ⟨m, P⟩).P := by
  simp only [updCov, gain, innovCov, Kalman.update, Kalman.innovCov, sc_mul, sc_add, sc_sub,
    sc_transpose, sc_inv, div_eq_mul_inv]

theorem updMean_one (c P r m y : F) :
    updMean (sc c) (sc P) (sc r) (sv m) (sv y) = sv (Kalman.update c r y ⟨m, P⟩).m := by
  simp only [updMean, innov, gain, innovCov, Kalman.update, Kalman.innovCov, sc_mul, sc_add,
    sc_transpose, sc_inv, div_eq_mul_inv, sc_mulVec, sv_add, sv_sub]

theorem predMean_one (a q m P : F) :
    predMean (sc a) (sv m) = sv (Kalman.predict a q ⟨m, P⟩).m := by
  simp only [predMean, Kalman.predict, sc_mulVec]

theorem predCov_one (a q m P : F) :
    predCov (sc a) (sc P) (sc q) = sc (Kalman.predict a q ⟨m, P⟩).P := by
  simp only [predCov, Kalman.predict, sc_mul, sc_add, sc_transpose]

/-- consistency check: the matrix completing-the-square theorem at `n = p = 1` IS the scalar
    identity about the executable model `Kalman.update` -/
theorem scalar_completes_square_of_matrix (c r y x : F) (s : Kalman.Gauss F)
    (hP : s.P ≠ 0) (hr : r ≠ 0) (hS : Kalman.innovCov c r s ≠ 0) :
    s.P⁻¹ * (x - s.m) ^ 2 + r⁻¹ * (y - c * x) ^ 2 =
      (Kalman.update c r y s).P⁻¹ * (x - (Kalman.update c r y s).m) ^ 2 +
        (Kalman.innovCov c r s)⁻¹ * (y - c * s.m) ^ 2 := by
  obtain ⟨m, P⟩ := s
  have h := update_completes_square (sc c) (sc P) (sc r) (sc_transpose P) (sc_transpose r)
    (by rw [sc_det]; exact hP.isUnit) (by rw [sc_det]; exact hr.isUnit)
    (by rw [innovCov_one c P r m, sc_det]; exact hS.isUnit) (sv m) (sv x) (sv y)
  rw [updCov_one c P r m y, updMean_one, innovCov_one c P r m] at h
  simpa only [innov, sc_inv, sc_mulVec, sv_sub, qf_sc] using h

end scalar

/-! ## 6. RTS smoother step = the same conditioning step with `(C, R, y) := (A, Q, x_{t+1})` -/

section smoother
variable (A P Q : Matrix n n 𝕜)

/-- the smoother gain IS the Kalman gain of "observing" `x_{t+1} = A x_t + w` -/
theorem smGain_eq_gain : smGain A P Q = gain A P Q := rfl

/-- the smoothed mean is the filtered mean of that observation model evaluated at the smoothed
    mean of `x_{t+1}` (tower property: `E[x_t | y_{1:T}] = E[ E[x_t | x_{t+1}, y_{1:t}] | y_{1:T}]`
    and the inner conditional mean `updMean A P Q m z` is affine in `z`) -/
theorem smMean_eq_updMean (m ms : n → 𝕜) : smMean A P Q m ms = updMean A P Q m ms := rfl

/-- law of total covariance: `Pˢ_t = (P_t - G A P_t) + G Pˢ_{t+1} Gᵀ`, i.e. (covariance of
    `x_t | x_{t+1}, y_{1:t}`) + (covariance of the conditional mean) -/
theorem smCov_eq_updCov_add (hP : P.IsSymm) (hQ : Q.IsSymm) (hS : IsUnit (predCov A P Q).det)
    (Ps : Matrix n n 𝕜) :
    smCov A P Q Ps = updCov A P Q + smGain A P Q * Ps * (smGain A P Q)ᵀ := by
  have h := updCov_eq_sub_gain_innovCov_gainT A P Q hP hQ hS
  unfold smCov
  rw [smGain_eq_gain, h, predCov_eq_innovCov, Matrix.mul_sub, Matrix.sub_mul]
  abel

/-- backward kernel: for all `x_t = x`, `x_{t+1} = z`
    `N(x; m, P) · N(z; A x, Q) = N(z; A m, P⁻) · N(x; m + G (z - A m), P - G A P)` (exponents) -/
theorem smoother_completes_square (hPs : P.IsSymm) (hQs : Q.IsSymm) (hP : IsUnit P.det)
    (hQ : IsUnit Q.det) (hS : IsUnit (predCov A P Q).det) (m x z : n → 𝕜) :
    qf P⁻¹ (x - m) + qf Q⁻¹ (z - A *ᵥ x) =
      qf (P - smGain A P Q * A * P)⁻¹ (x - smMean A P Q m z) +
        qf (predCov A P Q)⁻¹ (z - predMean A m) :=
  update_completes_square A P Q hPs hQs hP hQ hS m x z

/-- … and the normalisers: `det P · det Q = det P⁻ · det (P - G A P)` -/
theorem smoother_det_mul_det (hS : IsUnit (predCov A P Q).det) :
    P.det * Q.det = (predCov A P Q).det * (P - smGain A P Q * A * P).det :=
  det_mul_det A P Q hS

theorem smCov_isSymm (hP : P.IsSymm) (hQ : Q.IsSymm) {Ps : Matrix n n 𝕜} (hPs : Ps.IsSymm) :
    (smCov A P Q Ps).IsSymm := by
  unfold smCov
  refine IsSymm.add hP ?_
  unfold IsSymm
  rw [transpose_mul, transpose_mul, transpose_transpose, (hPs.sub (predCov_isSymm A P Q hP hQ)).eq,
    Matrix.mul_assoc]

/-- no information from the future ⇒ the smoother returns the filtered moments -/
theorem smCov_self : smCov A P Q (predCov A P Q) = P := by
  unfold smCov; rw [sub_self, Matrix.mul_zero, Matrix.zero_mul, add_zero]

theorem smMean_self (m : n → 𝕜) : smMean A P Q m (predMean A m) = m := by
  unfold smMean; rw [sub_self, mulVec_zero, add_zero]

end smoother

/-! ## 7. The whole recursion (`kalman_filter`'s initial step followed by `lax.scan(scan_step)`) -/

section recursion
variable (A Q : Matrix n n 𝕜) (C : Matrix p n 𝕜) (R : Matrix p p 𝕜)

/-- one `scan_step`: predict, then update with observation `y`; state = (filtered mean, cov) -/
def filterStep (s : (n → 𝕜) × Matrix n n 𝕜) (y : p → 𝕜) : (n → 𝕜) × Matrix n n 𝕜 :=
  (updMean C (predCov A s.2 Q) R (predMean A s.1) y, updCov C (predCov A s.2 Q) R)

/-- `lax.scan(scan_step, carry, …)`: the list of filtered moments for `t = 1, …, T-1` -/
def scanFilter : (n → 𝕜) × Matrix n n 𝕜 → List (p → 𝕜) → List ((n → 𝕜) × Matrix n n 𝕜)
  | _, [] => []
  | s, y :: ys => filterStep A Q C R s y :: scanFilter (filterStep A Q C R s y) ys

/-- `kalman_filter(observations, m0, P0, A, Q, C, R)`: `(filtered_means[t], filtered_covs[t])` -/
def kalmanFilter (m0 : n → 𝕜) (P0 : Matrix n n 𝕜) : List (p → 𝕜) → List ((n → 𝕜) × Matrix n n 𝕜)
  | [] => []
  | y :: ys => (updMean C P0 R m0 y, updCov C P0 R) ::
      scanFilter A Q C R (updMean C P0 R m0 y, updCov C P0 R) ys

theorem scanFilter_length (s : (n → 𝕜) × Matrix n n 𝕜) (ys : List (p → 𝕜)) :
    (scanFilter A Q C R s ys).length = ys.length := by
  induction ys generalizing s with
  | nil => rfl
  | cons y ys ih => simp [scanFilter, ih]

theorem kalmanFilter_length (m0 : n → 𝕜) (P0 : Matrix n n 𝕜) (ys : List (p → 𝕜)) :
    (kalmanFilter A Q C R m0 P0 ys).length = ys.length := by
  cases ys with
  | nil => rfl
  | cons y ys => simp [kalmanFilter, scanFilter_length]

/-- a property of covariances that is preserved by predict and by update holds along the whole
    run of the filter -/
theorem kalmanFilter_invariant (I : Matrix n n 𝕜 → Prop)
    (hpred : ∀ P, I P → I (predCov A P Q)) (hupd : ∀ P, I P → I (updCov C P R))
    (m0 : n → 𝕜) (P0 : Matrix n n 𝕜) (h0 : I P0) (ys : List (p → 𝕜)) :
    ∀ s ∈ kalmanFilter A Q C R m0 P0 ys, I s.2 := by
  have hscan : ∀ (ys : List (p → 𝕜)) (s : (n → 𝕜) × Matrix n n 𝕜), I s.2 →
      ∀ s' ∈ scanFilter A Q C R s ys, I s'.2 := by
    intro ys
    induction ys with
    | nil => intro s _ s' hs'; simp [scanFilter] at hs'
    | cons y ys ih =>
      intro s hs s' hs'
      have hstep : I (filterStep A Q C R s y).2 := hupd _ (hpred _ hs)
      simp only [scanFilter, List.mem_cons] at hs'
      rcases hs' with rfl | hs'
      · exact hstep
      · exact ih _ hstep s' hs'
  cases ys with
  | nil => intro s hs; simp [kalmanFilter] at hs
  | cons y ys =>
    intro s hs
    simp only [kalmanFilter, List.mem_cons] at hs
    rcases hs with rfl | hs
    · exact hupd _ h0
    · exact hscan ys _ (hupd _ h0) s hs

end recursion

/-! ## A concrete instance (non-vacuity): 2 states, 1 observation, rational entries -/

namespace Example

/-- prior covariance -/
def P : Matrix (Fin 2) (Fin 2) ℚ := !![2, 1; 1, 2]
/-- observation matrix (`d_obs = 1 ≠ d_state = 2`) -/
def C : Matrix (Fin 1) (Fin 2) ℚ := !![1, 0]
/-- observation noise -/
def R : Matrix (Fin 1) (Fin 1) ℚ := !![1]

theorem innovCov_eq : innovCov C P R = !![3] := by
  ext i j; fin_cases i; fin_cases j
  simp only [innovCov, Matrix.add_apply, Matrix.mul_apply, Fin.sum_univ_two, transpose_apply]
  simp [C, P, R]
  norm_num

theorem P_isSymm : P.IsSymm := by ext i j; fin_cases i <;> fin_cases j <;> rfl
theorem R_isSymm : R.IsSymm := by ext i j; fin_cases i; fin_cases j; rfl
theorem P_det : P.det = 3 := by norm_num [P, Matrix.det_fin_two]
theorem R_det : R.det = 1 := by simp [R]
theorem S_det : (innovCov C P R).det = 3 := by rw [innovCov_eq]; simp

/-- all hypotheses of the update theorems hold on this instance -/
theorem hyps : P.IsSymm ∧ R.IsSymm ∧ P.det ≠ 0 ∧ R.det ≠ 0 ∧ (innovCov C P R).det ≠ 0 := by
  refine ⟨P_isSymm, R_isSymm, ?_, ?_, ?_⟩
  · rw [P_det]; norm_num
  · rw [R_det]; norm_num
  · rw [S_det]; norm_num

end Example

end Genjax.KalmanMatrix
