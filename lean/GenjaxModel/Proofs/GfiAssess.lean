import GenjaxModel.Proofs.GfiDefs
/-! A coherent trace reports `score = -assess(its choices)` and the program's return value (L6). -/
namespace Genjax

section Obs
variable {R : Type} [Zero R] [Add R]

private theorem TrL.scoreSum_eq : (l : TrL R) → l.scoreSum = sumR (l.toList.map Tr.score)
  | .nil => by simp [TrL.scoreSum, TrL.toList, sumR]
  | .cons k t rest => by simp [TrL.scoreSum, TrL.toList, sumR, TrL.scoreSum_eq rest]

end Obs

section Choices
variable {R : Type}

private theorem TrL.retvals_eq : (l : TrL R) → l.retvals = Val.ofList (l.toList.map Tr.retval)
  | .nil => by simp [TrL.retvals, TrL.toList, Val.ofList]
  | .cons k t rest => by simp [TrL.retvals, TrL.toList, Val.ofList, TrL.retvals_eq rest]

private theorem TrL.outs_eq : (l : TrL R) → l.outs = Val.ofList (l.toList.map (fun t => t.retval.snd))
  | .nil => by simp [TrL.outs, TrL.toList, Val.ofList]
  | .cons k t rest => by simp [TrL.outs, TrL.toList, Val.ofList, TrL.outs_eq rest]

private theorem forall2_length {α β : Type} {r : α → β → Prop} {a : List α} {b : List β}
    (h : List.Forall₂ r a b) : a.length = b.length := by
  induction h with
  | nil => rfl
  | cons _ _ ih => simp [ih]

theorem TrL.choices_toList : (l : TrL R) → (xl : CML) → l.choices = some xl →
    List.Forall₂ (fun t c => t.choices = some c) l.toList xl.toList
  | .nil, xl, h => by
      simp [TrL.choices] at h; subst h; simp [TrL.toList, CML.toList]
  | .cons k t rest, xl, h => by
      simp [TrL.choices, Option.bind_eq_some_iff] at h
      obtain ⟨c, hc, r, hr, rfl⟩ := h
      simp [TrL.toList, CML.toList]
      exact ⟨hc, TrL.choices_toList rest r hr⟩

theorem TrL.choices_find : (l : TrL R) → (xl : CML) → l.choices = some xl →
    ∀ a t, l.find? a = some t → ∃ c, t.choices = some c ∧ xl.find? a = some c
  | .nil, xl, h, a, t, hf => by simp [TrL.find?] at hf
  | .cons k t' rest, xl, h, a, t, hf => by
      simp [TrL.choices, Option.bind_eq_some_iff] at h
      obtain ⟨c, hc, r, hr, rfl⟩ := h
      simp only [TrL.find?] at hf
      simp only [CML.find?]
      split at hf
      · simp at hf; subst hf; simp [*]
      · simp [*]; exact TrL.choices_find rest r hr a t hf

end Choices

variable {R : Type} [AddCommGroup R] (P : Prims R)

omit P in
private theorem sumR_neg (l : List R) : sumR (l.map (fun r => -r)) = - sumR l := by
  induction l with
  | nil => simp [sumR]
  | cons a l ih => simp [sumR, ih]; abel


private theorem lanes_assess (coh : List Val → Tr R → Prop) (axes : List Bool) (args : List Val)
    (f : Nat → CM → Option (R × Val))
    (hf : ∀ i t c, coh (laneArgs axes args i) t → t.choices = some c →
      f i c = some (-t.score, t.retval)) :
    ∀ (ts : List (Tr R)) (xs : List CM) (i : Nat),
      List.Forall₂ (fun t c => t.choices = some c) ts xs →
      lanesCoh coh axes args i ts →
      forLanes f i xs = some (ts.map fun t => (-t.score, t.retval)) := by
  intro ts
  induction ts with
  | nil => intro xs i h _; cases h; simp [forLanes]
  | cons t ts ih =>
    intro xs i h hc
    cases h with
    | cons h1 h2 =>
      obtain ⟨hc1, hc2⟩ := hc
      simp [forLanes, hf i t _ hc1 h1, ih _ _ h2 hc2]

private theorem steps_assess (coh : List Val → Tr R → Prop) (xsv : Val)
    (f : Val → Nat → CM → Option ((R × Val) × Val))
    (hf : ∀ c i t x, coh [c, xsv.nth i] t → t.choices = some x →
      f c i x = some ((-t.score, t.retval.snd), t.retval.fst)) :
    ∀ (ts : List (Tr R)) (xs : List CM) (c : Val) (i : Nat) (c' : Val),
      List.Forall₂ (fun t c => t.choices = some c) ts xs →
      stepsCoh coh xsv c i ts c' →
      forSteps f c i xs = some (ts.map (fun t => (-t.score, t.retval.snd)), c') := by
  intro ts
  induction ts with
  | nil => intro xs c i c' h hc; cases h; simp [stepsCoh] at hc; simp [forSteps, hc]
  | cons t ts ih =>
    intro xs c i c' h hc
    cases h with
    | cons h1 h2 =>
      obtain ⟨hc1, hc2⟩ := hc
      simp [forSteps, hf c i t _ hc1 h1, ih _ _ _ _ h2 hc2]

mutual
  theorem coh_assess_gf : (g : GF) → g.condFree = true → ∀ (args : List Val) (t : Tr R) (x : CM),
      g.Coh P args t → t.choices = some x → g.assess P x args = some (-t.score, t.retval)
    | .dist d, _, args, t, x, h, hx => by
        cases t <;> simp only [GF.Coh] at h
        simp only [Tr.choices, Option.some.injEq] at hx
        subst hx h
        simp [GF.assess, Tr.score, Tr.retval]
    | .fn body, hg, args, t, x, h, hx => by
        cases t <;> simp only [GF.Coh] at h
        rename_i subs r s
        obtain ⟨hb, rfl, rfl⟩ := h
        simp only [Tr.choices, Option.map_eq_some_iff] at hx
        obtain ⟨xl, hxl, rfl⟩ := hx
        simp only [GF.condFree] at hg
        simp only [GF.assess, Tr.score, Tr.retval]
        exact coh_assess_body body hg args subs xl [] hb hxl (by simp)
    | .vmap g axes n, hg, args, t, x, h, hx => by
        cases t <;> simp only [GF.Coh] at h
        rename_i lanes
        obtain ⟨hlen, hl⟩ := h
        simp only [Tr.choices, Option.map_eq_some_iff] at hx
        obtain ⟨xl, hxl, rfl⟩ := hx
        simp only [GF.condFree] at hg
        have hF := TrL.choices_toList lanes xl hxl
        have := lanes_assess (fun a t => g.Coh P a t) axes args
          (fun i xi => g.assess P xi (laneArgs axes args i))
          (fun i t c hc hch => coh_assess_gf g hg _ t c hc hch) _ _ 0 hF hl
        have hlen' : xl.toList.length = n := by rw [← forall2_length hF, hlen]
        simp only [GF.assess, this, lenIs, hlen']
        simp [Tr.score, Tr.retval, TrL.scoreSum_eq, TrL.retvals_eq, ← sumR_neg, Function.comp_def]
    | .scan g n, hg, args, t, x, h, hx => by
        cases t <;> simp only [GF.Coh] at h
        rename_i steps c
        obtain ⟨hlen, hl⟩ := h
        simp only [Tr.choices, Option.map_eq_some_iff] at hx
        obtain ⟨xl, hxl, rfl⟩ := hx
        simp only [GF.condFree] at hg
        have hF := TrL.choices_toList steps xl hxl
        have := steps_assess (fun a t => g.Coh P a t) (args.getD 1 .nil)
          (fun c i xi => do
              let __x ← GF.assess P g xi [c, (args.getD 1 Val.nil).nth i]
              pure ((__x.1, __x.2.snd), __x.2.fst))
          (fun c i t x hc hch => by
            have := coh_assess_gf g hg _ t x hc hch
            simp only [this]; rfl) _ _ _ 0 _ hF hl
        have hlen' : xl.toList.length = n := by rw [← forall2_length hF, hlen]
        simp only [GF.assess, this, lenIs, hlen']
        simp [Tr.score, Tr.retval, TrL.scoreSum_eq, TrL.outs_eq, ← sumR_neg, Function.comp_def]
    | .cond _ _, hg, _, _, _, _, _ => by simp [GF.condFree] at hg
  theorem coh_assess_body : (b : Body) → b.condFree = true →
      ∀ (env : List Val) (subs : TrL R) (xl : CML) (seen : List String),
      b.Coh P env subs → subs.choices = some xl → (∀ a ∈ b.addrs, a ∉ seen) →
      b.assess P xl env seen = some (-(b.scoreOf subs), b.retOf env subs)
    | .ret e, _, env, subs, xl, seen, _, _, _ => by
        simp [Body.assess, Body.scoreOf, Body.retOf]
    | .call addr g es rest, hb, env, subs, xl, seen, h, hx, hseen => by
        simp only [Body.Coh] at h
        obtain ⟨hnot, t, hft, hgc, hrc⟩ := h
        simp only [Body.condFree, Bool.and_eq_true] at hb
        obtain ⟨c, hc, hfc⟩ := TrL.choices_find subs xl hx addr t hft
        have h1 := coh_assess_gf g hb.1 _ t c hgc hc
        have h2 := coh_assess_body rest hb.2 (env ++ [t.retval]) subs xl (addr :: seen) hrc hx (by
          intro a ha
          simp only [List.mem_cons, not_or]
          refine ⟨?_, hseen a (by simp [Body.addrs, ha])⟩
          rintro rfl; exact hnot ha)
        have h3 : seen.contains addr = false := by
          simpa using hseen addr (by simp [Body.addrs])
        simp only [Body.assess, h3, hfc, h1, Body.scoreOf, Body.retOf, hft]
        simp [h2]
        abel
end

section TrCF
variable {R : Type}

mutual
  /-- traces without Cond nodes (anywhere, including unreferenced entries) -/
  def Tr.condFree : Tr R → Bool
    | .leaf _ _ => true
    | .fn subs _ _ => subs.condFree
    | .vec lanes => lanes.condFree
    | .scan steps _ => steps.condFree
    | .cond _ _ _ => false
  def TrL.condFree : TrL R → Bool
    | .nil => true
    | .cons _ t rest => t.condFree && rest.condFree
end

mutual
  theorem Tr.condFree_choices : (t : Tr R) → t.condFree = true → ∃ x, t.choices = some x
    | .leaf v _, _ => ⟨_, rfl⟩
    | .fn subs _ _, h => by
        simp only [Tr.condFree] at h
        obtain ⟨x, hx⟩ := TrL.condFree_choices subs h
        exact ⟨_, by simp only [Tr.choices, hx]; rfl⟩
    | .vec l, h => by
        simp only [Tr.condFree] at h
        obtain ⟨x, hx⟩ := TrL.condFree_choices l h
        exact ⟨_, by simp only [Tr.choices, hx]; rfl⟩
    | .scan l _, h => by
        simp only [Tr.condFree] at h
        obtain ⟨x, hx⟩ := TrL.condFree_choices l h
        exact ⟨_, by simp only [Tr.choices, hx]; rfl⟩
    | .cond _ _ _, h => by simp [Tr.condFree] at h
  theorem TrL.condFree_choices : (l : TrL R) → l.condFree = true → ∃ x, l.choices = some x
    | .nil, _ => ⟨_, rfl⟩
    | .cons k t rest, h => by
        simp only [TrL.condFree, Bool.and_eq_true] at h
        obtain ⟨x, hx⟩ := Tr.condFree_choices t h.1
        obtain ⟨y, hy⟩ := TrL.condFree_choices rest h.2
        exact ⟨_, by simp only [TrL.choices, hx, hy]; rfl⟩
end

theorem TrL.condFree_ofList (ts : List (Tr R)) (h : ∀ t ∈ ts, t.condFree = true) :
    (TrL.ofList ts).condFree = true := by
  induction ts with
  | nil => rfl
  | cons t ts ih =>
    simp only [TrL.ofList, TrL.condFree, Bool.and_eq_true]
    exact ⟨h t (by simp), ih (fun t' ht' => h t' (by simp [ht']))⟩

theorem TrL.condFree_snoc : (l : TrL R) → (k : String) → (t : Tr R) →
    l.condFree = true → t.condFree = true → (l.snoc k t).condFree = true
  | .nil, k, t, _, ht => by simp [TrL.snoc, TrL.condFree, ht]
  | .cons k' t' rest, k, t, hl, ht => by
      simp only [TrL.condFree, Bool.and_eq_true] at hl
      simp only [TrL.snoc, TrL.condFree, Bool.and_eq_true]
      exact ⟨hl.1, TrL.condFree_snoc rest k t hl.2 ht⟩

private theorem forLanes_all {α β : Type} (f : Nat → α → Option β) (Q : β → Prop)
    (hf : ∀ i a b, f i a = some b → Q b) :
    ∀ (as : List α) (i : Nat) (bs : List β), forLanes f i as = some bs → ∀ b ∈ bs, Q b := by
  intro as
  induction as with
  | nil => intro i bs h; simp [forLanes] at h; subst h; simp
  | cons a as ih =>
    intro i bs h
    simp only [forLanes, Option.bind_eq_bind, Option.bind_eq_some_iff, Option.pure_def,
      Option.some.injEq] at h
    obtain ⟨b, hb, bs', hbs', rfl⟩ := h
    intro b' hb'
    simp only [List.mem_cons] at hb'
    rcases hb' with rfl | hb'
    · exact hf _ _ _ hb
    · exact ih _ _ hbs' _ hb'

private theorem forSteps_all {α β : Type} (f : Val → Nat → α → Option (β × Val)) (Q : β → Prop)
    (hf : ∀ c i a b c', f c i a = some (b, c') → Q b) :
    ∀ (as : List α) (c : Val) (i : Nat) (bs : List β) (c' : Val),
      forSteps f c i as = some (bs, c') → ∀ b ∈ bs, Q b := by
  intro as
  induction as with
  | nil => intro c i bs c' h; simp [forSteps] at h; obtain ⟨rfl, _⟩ := h; simp
  | cons a as ih =>
    intro c i bs c' h
    simp only [forSteps, Option.bind_eq_bind, Option.bind_eq_some_iff, Option.pure_def,
      Option.some.injEq] at h
    obtain ⟨⟨b, c1⟩, hb, ⟨bs', c2⟩, hbs', h⟩ := h
    simp only [Prod.mk.injEq] at h
    obtain ⟨rfl, rfl⟩ := h
    intro b' hb'
    simp only [List.mem_cons] at hb'
    rcases hb' with rfl | hb'
    · exact hf _ _ _ _ _ hb
    · exact ih _ _ _ _ hbs' _ hb'
end TrCF

section OpsCF
variable {R : Type} [AddCommGroup R] (P : Prims R) (cfg : Cfg)

mutual
  theorem simulate_condFree : (g : GF) → g.condFree = true → ∀ (args : List Val) (t : Tr R),
      g.simulate P args = some t → t.condFree = true
    | .dist d, _, args, t, h => by
        simp only [GF.simulate, Option.some.injEq] at h; subst h; rfl
    | .fn body, hg, args, t, h => by
        simp only [GF.condFree] at hg
        simp only [GF.simulate, Option.bind_eq_bind, Option.bind_eq_some_iff, Option.pure_def,
          Option.some.injEq] at h
        obtain ⟨⟨subs, r, s⟩, hb, rfl⟩ := h
        exact simulate_condFree_body body hg _ _ _ _ _ _ rfl hb
    | .vmap g axes n, hg, args, t, h => by
        simp only [GF.condFree] at hg
        simp only [GF.simulate, Option.bind_eq_bind, Option.bind_eq_some_iff, Option.pure_def,
          Option.some.injEq] at h
        obtain ⟨ts, hts, rfl⟩ := h
        exact TrL.condFree_ofList _ (forLanes_all _ (fun t => t.condFree = true)
          (fun i _ b hb => simulate_condFree g hg _ b hb) _ _ _ hts)
    | .scan g n, hg, args, t, h => by
        simp only [GF.condFree] at hg
        simp only [GF.simulate, Option.bind_eq_bind, Option.bind_eq_some_iff, Option.pure_def,
          Option.some.injEq] at h
        obtain ⟨⟨ts, c⟩, hts, rfl⟩ := h
        refine TrL.condFree_ofList _ (forSteps_all _ (fun t => t.condFree = true)
          (fun c i _ b c' hb => ?_) _ _ _ _ _ hts)
        simp only [Option.bind_eq_some_iff, Option.some.injEq, Prod.mk.injEq] at hb
        obtain ⟨t, ht, rfl, _⟩ := hb
        exact simulate_condFree g hg _ _ ht
    | .cond _ _, hg, _, _, _ => by simp [GF.condFree] at hg
  theorem simulate_condFree_body : (b : Body) → b.condFree = true →
      ∀ (env : List Val) (subs : TrL R) (s : R) (subs' : TrL R) (r : Val) (s' : R),
      subs.condFree = true → b.simulate P env subs s = some (subs', r, s') → subs'.condFree = true
    | .ret e, _, env, subs, s, subs', r, s', hs, h => by
        simp only [Body.simulate, Option.some.injEq, Prod.mk.injEq] at h
        obtain ⟨rfl, _⟩ := h; exact hs
    | .call addr g es rest, hb, env, subs, s, subs', r, s', hs, h => by
        simp only [Body.condFree, Bool.and_eq_true] at hb
        simp only [Body.simulate] at h
        split at h
        · simp at h
        · simp only [Option.bind_eq_bind, Option.bind_eq_some_iff] at h
          obtain ⟨t, ht, h⟩ := h
          exact simulate_condFree_body rest hb.2 _ _ _ _ _ _
            (TrL.condFree_snoc _ _ _ hs (simulate_condFree g hb.1 _ _ ht)) h
end

mutual
  theorem generate_condFree : (g : GF) → g.condFree = true →
      ∀ (x : Option CM) (args : List Val) (t : Tr R) (w : R),
      g.generate P cfg x args = some (t, w) → t.condFree = true
    | .dist d, _, x, args, t, w, h => by
        rcases x with _ | (v | kids | kids) <;>
          simp only [GF.generate, Option.some.injEq, Prod.mk.injEq, reduceCtorEq] at h
        all_goals (obtain ⟨rfl, _⟩ := h; rfl)
    | .fn body, hg, x, args, t, w, h => by
        simp only [GF.condFree] at hg
        rcases x with _ | (v | kids | kids) <;>
          simp only [GF.generate, Option.bind_eq_bind, Option.bind_eq_some_iff, Option.pure_def,
            Option.some.injEq, Prod.mk.injEq, reduceCtorEq] at h
        · obtain ⟨⟨subs, r, s⟩, hb, rfl, _⟩ := h
          exact simulate_condFree_body P body hg _ _ _ _ _ _ rfl hb
        · obtain ⟨⟨subs, r, s, w'⟩, hb, rfl, _⟩ := h
          exact generate_condFree_body body hg _ _ _ _ _ _ _ _ _ rfl hb
    | .vmap g axes n, hg, x, args, t, w, h => by
        simp only [GF.condFree] at hg
        rcases x with _ | (v | kids | kids) <;>
          simp only [GF.generate, Option.bind_eq_bind, Option.bind_eq_some_iff, Option.pure_def,
            Option.some.injEq, Prod.mk.injEq, reduceCtorEq] at h
        · split at h
          · simp only [Option.bind_eq_some_iff,
              Option.some.injEq, Prod.mk.injEq] at h
            obtain ⟨ts, hts, rfl, _⟩ := h
            refine TrL.condFree_ofList _ ?_
            intro t ht
            simp only [List.mem_map] at ht
            obtain ⟨p, hp, rfl⟩ := ht
            exact forLanes_all _ (fun p : Tr R × R => p.1.condFree = true)
              (fun i _ b hb => generate_condFree g hg _ _ b.1 b.2 hb) _ _ _ hts p hp
          · simp at h
        · obtain ⟨_, _, ts, hts, rfl, _⟩ := h
          refine TrL.condFree_ofList _ ?_
          intro t ht
          simp only [List.mem_map] at ht
          obtain ⟨p, hp, rfl⟩ := ht
          exact forLanes_all _ (fun p : Tr R × R => p.1.condFree = true)
            (fun i _ b hb => generate_condFree g hg _ _ b.1 b.2 hb) _ _ _ hts p hp
    | .scan g n, hg, x, args, t, w, h => by
        simp only [GF.condFree] at hg
        have key : ∀ (xo : Option CM) (c : Val) (a : List Val) (b : Tr R × R) (c' : Val),
            (do let (t, w) ← g.generate P cfg xo a; pure ((t, w), t.retval.fst) :
              Option ((Tr R × R) × Val)) = some (b, c') → b.1.condFree = true := by
          intro xo c a b c' hb
          simp only [Option.bind_eq_bind, Option.bind_eq_some_iff, Option.pure_def,
            Option.some.injEq, Prod.mk.injEq] at hb
          obtain ⟨⟨t, w⟩, ht, rfl, _⟩ := hb
          exact generate_condFree g hg _ _ _ _ ht
        rcases x with _ | (v | kids | kids) <;>
          simp only [GF.generate, Option.bind_eq_bind, Option.bind_eq_some_iff, Option.pure_def,
            Option.some.injEq, Prod.mk.injEq, reduceCtorEq] at h
        · obtain ⟨⟨ts, c⟩, hts, rfl, _⟩ := h
          refine TrL.condFree_ofList _ ?_
          intro t ht
          simp only [List.mem_map] at ht
          obtain ⟨p, hp, rfl⟩ := ht
          exact forSteps_all _ (fun p : Tr R × R => p.1.condFree = true)
            (fun c i _ b c' hb => key none c _ b c' hb) _ _ _ _ _ hts p hp
        · obtain ⟨_, _, ⟨ts, c⟩, hts, rfl, _⟩ := h
          refine TrL.condFree_ofList _ ?_
          intro t ht
          simp only [List.mem_map] at ht
          obtain ⟨p, hp, rfl⟩ := ht
          exact forSteps_all _ (fun p : Tr R × R => p.1.condFree = true)
            (fun c i xi b c' hb => key (some xi) c _ b c' hb) _ _ _ _ _ hts p hp
    | .cond _ _, hg, _, _, _, _, _ => by simp [GF.condFree] at hg
  theorem generate_condFree_body : (b : Body) → b.condFree = true →
      ∀ (x : CML) (env : List Val) (subs : TrL R) (s w : R) (subs' : TrL R) (r : Val) (s' w' : R),
      subs.condFree = true → b.generate P cfg x env subs s w = some (subs', r, s', w') →
      subs'.condFree = true
    | .ret e, _, x, env, subs, s, w, subs', r, s', w', hs, h => by
        simp only [Body.generate, Option.some.injEq, Prod.mk.injEq] at h
        obtain ⟨rfl, _⟩ := h; exact hs
    | .call addr g es rest, hb, x, env, subs, s, w, subs', r, s', w', hs, h => by
        simp only [Body.condFree, Bool.and_eq_true] at hb
        simp only [Body.generate] at h
        split at h
        · simp at h
        · simp only [Option.bind_eq_bind, Option.bind_eq_some_iff] at h
          obtain ⟨⟨t, w1⟩, ht, h⟩ := h
          exact generate_condFree_body rest hb.2 _ _ _ _ _ _ _ _ _
            (TrL.condFree_snoc _ _ _ hs (generate_condFree g hb.1 _ _ _ _ ht)) h
end

mutual
  theorem update_condFree : (g : GF) → g.condFree = true →
      ∀ (t : Tr R) (x : Option CM) (args : List Val) (t' : Tr R) (w : R) (d : Option CM),
      g.update P cfg t x args = some (t', w, d) → t'.condFree = true
    | .dist dd, _, t, x, args, t', w, d, h => by
        cases t <;> simp only [GF.update, reduceCtorEq] at h
        split at h <;> simp only [Option.some.injEq, Prod.mk.injEq, reduceCtorEq] at h
        all_goals (obtain ⟨rfl, _⟩ := h; rfl)
    | .fn body, hg, t, x, args, t', w, d, h => by
        simp only [GF.condFree] at hg
        cases t <;> simp only [GF.update, reduceCtorEq] at h
        split at h
        · simp at h
        · simp only [Option.bind_eq_bind, Option.bind_eq_some_iff, Option.pure_def,
            Option.some.injEq, Prod.mk.injEq] at h
          obtain ⟨⟨subs, r, s, w', d'⟩, hb, rfl, _⟩ := h
          exact update_condFree_body body hg _ _ _ _ _ _ _ _ _ _ _ _ rfl hb
    | .vmap g axes n, hg, t, x, args, t', w, d, h => by
        simp only [GF.condFree] at hg
        cases t <;> simp only [GF.update, reduceCtorEq] at h
        simp only [Option.bind_eq_bind, Option.bind_eq_some_iff, Option.pure_def,
            Option.some.injEq, Prod.mk.injEq] at h
        obtain ⟨_, _, xs, _, rs, hrs, rfl, _⟩ := h
        refine TrL.condFree_ofList _ ?_
        intro t ht
        simp only [List.mem_map] at ht
        obtain ⟨p, hp, rfl⟩ := ht
        exact forLanes_all _ (fun p : Upd R => p.1.condFree = true)
          (fun i a b hb => update_condFree g hg _ _ _ b.1 b.2.1 b.2.2 hb) _ _ _ hrs p hp
    | .scan g n, hg, t, x, args, t', w, d, h => by
        simp only [GF.condFree] at hg
        cases t <;> simp only [GF.update, reduceCtorEq] at h
        simp only [Option.bind_eq_bind, Option.bind_eq_some_iff, Option.pure_def,
            Option.some.injEq, Prod.mk.injEq] at h
        obtain ⟨_, _, xs, _, ⟨rs, c⟩, hrs, rfl, _⟩ := h
        refine TrL.condFree_ofList _ ?_
        intro t ht
        simp only [List.mem_map] at ht
        obtain ⟨p, hp, rfl⟩ := ht
        refine forSteps_all _ (fun p : Upd R => p.1.condFree = true)
          (fun c i a b c' hb => ?_) _ _ _ _ _ hrs p hp
        simp only [Option.bind_eq_some_iff,
            Option.some.injEq, Prod.mk.injEq] at hb
        obtain ⟨⟨t, w, d⟩, ht, rfl, _⟩ := hb
        exact update_condFree g hg _ _ _ _ _ _ ht
    | .cond _ _, hg, _, _, _, _, _, _, _ => by simp [GF.condFree] at hg
  theorem update_condFree_body : (b : Body) → b.condFree = true →
      ∀ (old : TrL R) (x : CML) (env : List Val) (subs : TrL R) (s w : R) (d : CML)
        (subs' : TrL R) (r : Val) (s' w' : R) (d' : CML),
      subs.condFree = true → b.update P cfg old x env subs s w d = some (subs', r, s', w', d') →
      subs'.condFree = true
    | .ret e, _, old, x, env, subs, s, w, d, subs', r, s', w', d', hs, h => by
        simp only [Body.update, Option.some.injEq, Prod.mk.injEq] at h
        obtain ⟨rfl, _⟩ := h; exact hs
    | .call addr g es rest, hb, old, x, env, subs, s, w, d, subs', r, s', w', d', hs, h => by
        simp only [Body.condFree, Bool.and_eq_true] at hb
        simp only [Body.update] at h
        split at h
        · simp at h
        · split at h
          · simp at h
          · simp only [Option.bind_eq_bind, Option.bind_eq_some_iff] at h
            obtain ⟨xsub, _, ⟨t, w1, dsub⟩, ht, h⟩ := h
            exact update_condFree_body rest hb.2 _ _ _ _ _ _ _ _ _ _ _ _
              (TrL.condFree_snoc _ _ _ hs (update_condFree g hb.1 _ _ _ _ _ _ ht)) h
end

mutual
  theorem regenerate_condFree : (g : GF) → g.condFree = true →
      ∀ (t : Tr R) (sel : Sel) (args : List Val) (t' : Tr R) (w : R) (d : Option CM),
      g.regenerate P cfg t sel args = some (t', w, d) → t'.condFree = true
    | .dist dd, _, t, sel, args, t', w, d, h => by
        cases t <;> simp only [GF.regenerate, reduceCtorEq] at h
        split at h <;> simp only [Option.some.injEq, Prod.mk.injEq] at h
        all_goals (obtain ⟨rfl, _⟩ := h; rfl)
    | .fn body, hg, t, sel, args, t', w, d, h => by
        simp only [GF.condFree] at hg
        cases t <;> simp only [GF.regenerate, reduceCtorEq] at h
        simp only [Option.bind_eq_bind, Option.bind_eq_some_iff, Option.pure_def,
            Option.some.injEq, Prod.mk.injEq] at h
        obtain ⟨⟨subs, r, s, w', d'⟩, hb, rfl, _⟩ := h
        exact regenerate_condFree_body body hg _ _ _ _ _ _ _ _ _ _ _ _ rfl hb
    | .vmap g axes n, hg, t, sel, args, t', w, d, h => by
        simp only [GF.condFree] at hg
        cases t <;> simp only [GF.regenerate, reduceCtorEq] at h
        simp only [Option.bind_eq_bind, Option.bind_eq_some_iff, Option.pure_def,
            Option.some.injEq, Prod.mk.injEq] at h
        obtain ⟨_, _, rs, hrs, rfl, _⟩ := h
        refine TrL.condFree_ofList _ ?_
        intro t ht
        simp only [List.mem_map] at ht
        obtain ⟨p, hp, rfl⟩ := ht
        exact forLanes_all _ (fun p : Upd R => p.1.condFree = true)
          (fun i a b hb => regenerate_condFree g hg _ _ _ b.1 b.2.1 b.2.2 hb) _ _ _ hrs p hp
    | .scan g n, hg, t, sel, args, t', w, d, h => by
        simp only [GF.condFree] at hg
        cases t <;> simp only [GF.regenerate, reduceCtorEq] at h
        split at h
        · simp at h
        simp only [Option.bind_eq_bind, Option.bind_eq_some_iff, Option.pure_def,
            Option.some.injEq, Prod.mk.injEq] at h
        obtain ⟨_, _, ⟨rs, c⟩, hrs, rfl, _⟩ := h
        refine TrL.condFree_ofList _ ?_
        intro t ht
        simp only [List.mem_map] at ht
        obtain ⟨p, hp, rfl⟩ := ht
        refine forSteps_all _ (fun p : Upd R => p.1.condFree = true)
          (fun c i a b c' hb => ?_) _ _ _ _ _ hrs p hp
        simp only [Option.bind_eq_some_iff,
            Option.some.injEq, Prod.mk.injEq] at hb
        obtain ⟨⟨t, w, d⟩, ht, rfl, _⟩ := hb
        exact regenerate_condFree g hg _ _ _ _ _ _ ht
    | .cond _ _, hg, _, _, _, _, _, _, _ => by simp [GF.condFree] at hg
  theorem regenerate_condFree_body : (b : Body) → b.condFree = true →
      ∀ (old : TrL R) (sel : Sel) (env : List Val) (subs : TrL R) (s w : R) (d : CML)
        (subs' : TrL R) (r : Val) (s' w' : R) (d' : CML),
      subs.condFree = true →
      b.regenerate P cfg old sel env subs s w d = some (subs', r, s', w', d') →
      subs'.condFree = true
    | .ret e, _, old, sel, env, subs, s, w, d, subs', r, s', w', d', hs, h => by
        simp only [Body.regenerate, Option.some.injEq, Prod.mk.injEq] at h
        obtain ⟨rfl, _⟩ := h; exact hs
    | .call addr g es rest, hb, old, sel, env, subs, s, w, d, subs', r, s', w', d', hs, h => by
        simp only [Body.condFree, Bool.and_eq_true] at hb
        simp only [Body.regenerate] at h
        split at h
        · simp at h
        · split at h
          · simp at h
          · simp only [Option.bind_eq_bind, Option.bind_eq_some_iff] at h
            obtain ⟨⟨t, w1, dsub⟩, ht, h⟩ := h
            exact regenerate_condFree_body rest hb.2 _ _ _ _ _ _ _ _ _ _ _ _
              (TrL.condFree_snoc _ _ _ hs (regenerate_condFree g hb.1 _ _ _ _ _ _ ht)) h
end

end OpsCF

section Main
variable {R : Type} [AddCommGroup R] (P : Prims R) (cfg : Cfg)

/-
  ORIGINAL STATEMENT (L6) -- FALSE as stated, kept for reference:

  theorem coh_assess (g : GF) (hg : g.condFree = true) (args : List Val) (t : Tr R)
      (h : g.Coh P args t) :
      ∃ x, t.choices = some x ∧ g.assess P x args = some (-t.score, t.retval)

  Reason: `Body.Coh` only constrains the sub-traces that the body looks up by address, so the
  `subs` of a coherent `Fn` trace may hold an unreferenced ("junk") entry, and such an entry can be
  a `Cond` trace whose two branch choice maps do not merge (`CM.mergeCheck` of a leaf and a node
  raises), in which case `t.choices = none`.  See `coh_assess_counterexample` below.
  What does hold: `coh_assess_partial` (extra hypothesis `t.choices = some x`) and
  `coh_assess_condFree` (extra hypothesis `t.condFree`, original conclusion); the extra hypothesis is
  discharged for every trace produced by the model's operations on Cond-free programs
  (`simulate_choices_some`, `generate_choices_some`, `update_choices_some`, `regenerate_choices_some`).
-/

/-- L6 (Cond-free programs), corrected: if a coherent trace has a choice map `x`, `assess` accepts `x`
    under the recorded arguments and returns `(-score, retval)`. -/
theorem coh_assess_partial (g : GF) (hg : g.condFree = true) (args : List Val) (t : Tr R)
    (h : g.Coh P args t) (x : CM) (hx : t.choices = some x) :
    g.assess P x args = some (-t.score, t.retval) :=
  coh_assess_gf P g hg args t x h hx

/-- L6 with the original conclusion, for traces without Cond nodes. -/
theorem coh_assess_condFree (g : GF) (hg : g.condFree = true) (args : List Val) (t : Tr R)
    (h : g.Coh P args t) (ht : t.condFree = true) :
    ∃ x, t.choices = some x ∧ g.assess P x args = some (-t.score, t.retval) := by
  obtain ⟨x, hx⟩ := Tr.condFree_choices t ht
  exact ⟨x, hx, coh_assess_partial P g hg args t h x hx⟩

/-- The original `coh_assess` statement is false: a Cond-free program with a coherent trace that has
    no choice map (junk entry `"junk"` holds a Cond trace with unmergeable branches). -/
theorem coh_assess_counterexample :
    ∃ (g : GF) (args : List Val) (t : Tr R), g.condFree = true ∧ g.Coh P args t ∧
      ¬ ∃ x, t.choices = some x ∧ g.assess P x args = some (-t.score, t.retval) := by
  refine ⟨.fn (.ret (.const 0)), [],
    .fn (.cons "junk" (.cond true (.leaf .nil 0) (.fn .nil .nil 0)) .nil) (.num 0) 0, rfl, ?_, ?_⟩
  · simp [GF.Coh, Body.Coh, Body.retOf, Body.scoreOf, Expr.eval]
  · simp [Tr.choices, TrL.choices, CM.mergeCheck]

/-- traces built by `simulate` on a Cond-free program have a choice map -/
theorem simulate_choices_some (g : GF) (hg : g.condFree = true) (args : List Val) (t : Tr R)
    (h : g.simulate P args = some t) : ∃ x, t.choices = some x :=
  Tr.condFree_choices t (simulate_condFree P g hg args t h)

/-- traces built by `generate` (any constraint) on a Cond-free program have a choice map -/
theorem generate_choices_some (g : GF) (hg : g.condFree = true) (x : Option CM) (args : List Val)
    (t : Tr R) (w : R) (h : g.generate P cfg x args = some (t, w)) : ∃ x', t.choices = some x' :=
  Tr.condFree_choices t (generate_condFree P cfg g hg x args t w h)

/-- traces returned by `update` on a Cond-free program have a choice map (whatever the old trace) -/
theorem update_choices_some (g : GF) (hg : g.condFree = true) (t : Tr R) (x : Option CM)
    (args : List Val) (t' : Tr R) (w : R) (d : Option CM)
    (h : g.update P cfg t x args = some (t', w, d)) : ∃ x', t'.choices = some x' :=
  Tr.condFree_choices t' (update_condFree P cfg g hg t x args t' w d h)

/-- traces returned by `regenerate` on a Cond-free program have a choice map -/
theorem regenerate_choices_some (g : GF) (hg : g.condFree = true) (t : Tr R) (s : Sel)
    (args : List Val) (t' : Tr R) (w : R) (d : Option CM)
    (h : g.regenerate P cfg t s args = some (t', w, d)) : ∃ x', t'.choices = some x' :=
  Tr.condFree_choices t' (regenerate_condFree P cfg g hg t s args t' w d h)

end Main

end Genjax
