import GenjaxModel.Model.SeedCache
/-!
# The staging caches of `seed` are transparent when the cache key refines what staging depends on

`Model/SeedCache.lean` models `cached_stage_dynamic` (`@lu.cache`) and `FlatSamplerCache`.  Here:

* `cache_transparent`      one cache, any history, any initial cache satisfying the invariant;
* `transparent`            the two nested caches of a seeded call (flat samplers are fetched while `f` is traced and are
                           baked into the cached jaxpr of `f`), histories interleaving seeded and unseeded calls;
* `key_refines_relevant`   a configuration with every component in the key refines `relevant`;
* `flatAsis_refines_on`    the flat-sampler signature of the code refines `relevant` only on sets of calls in which
                           a binder's (number of positional arguments, keyword names) determines tree, avals and statics;
* closed counterexamples   for a key without keyword names (C06_2), without weak types, and for the code's own flat key;
* `present_mode_irrelevant` eager / jit / vmap-over-keys / jit∘vmap present the same call (C06_3 breaks the premise).
-/
namespace Genjax.SeedCache

/-- equal keys ⇒ equal relevant projections, for calls in `P` -/
def KeyRefinesOn (P : Call → Prop) (cfg : Cfg) : Prop :=
  ∀ c c', P c → P c' → keyOf cfg c = keyOf cfg c' → relevant c = relevant c'

def KeyRefines (cfg : Cfg) : Prop := ∀ c c', keyOf cfg c = keyOf cfg c' → relevant c = relevant c'

/-- `f` depends on a call only through its relevant projection -/
def DependsOnRelevant (f : Call → β) : Prop := ∀ c c', relevant c = relevant c' → f c = f c'

/-- cache invariant: an entry is the staging of EVERY call (in `P`) that maps to its key -/
def CacheOk (P : Call → Prop) (cfg : Cfg) (stageOf : Call → Prog) (cache : Cache Prog) : Prop :=
  ∀ k p, (k, p) ∈ cache → ∀ c, P c → keyOf cfg c = k → p = stageOf c

theorem KeyRefines.on {cfg : Cfg} (h : KeyRefines cfg) (P : Call → Prop) : KeyRefinesOn P cfg :=
  fun c c' _ _ hk => h c c' hk

theorem lookup_mem {k : Key} {p : Prog} : ∀ {cache : Cache Prog}, lookup k cache = some p → (k, p) ∈ cache
  | [], h => by simp [lookup] at h
  | (k', p') :: rest, h => by
      unfold lookup at h
      by_cases hk : k = k'
      · simp [hk] at h; subst h; subst hk; exact List.mem_cons_self
      · simp [hk] at h; exact List.mem_cons_of_mem _ (lookup_mem h)

theorem mem_trim {cap : Option Nat} {l : List α} {x : α} (h : x ∈ trim cap l) : x ∈ l := by
  cases cap with
  | none => exact h
  | some n => exact List.mem_of_mem_take h

theorem CacheOk.nil {P : Call → Prop} {cfg : Cfg} {stageOf : Call → Prog} : CacheOk P cfg stageOf [] := by
  intro k p h; simp at h

/-- one lookup-or-stage step returns the staging of the call and keeps the invariant -/
theorem getProg_spec {P : Call → Prop} {cfg : Cfg} {stageOf : Call → Prog}
    (hkey : KeyRefinesOn P cfg) (hdep : DependsOnRelevant stageOf)
    {cache : Cache Prog} (hok : CacheOk P cfg stageOf cache) {c : Call} (hc : P c) :
    (getProg cfg stageOf cache c).1 = stageOf c ∧ CacheOk P cfg stageOf (getProg cfg stageOf cache c).2 := by
  unfold getProg
  cases hl : lookup (keyOf cfg c) cache with
  | some p => exact ⟨hok _ _ (lookup_mem hl) c hc rfl, hok⟩
  | none =>
      refine ⟨rfl, ?_⟩
      intro k p hm c' hc' hk
      have hm' := mem_trim hm
      rcases List.mem_cons.mp hm' with h | h
      · cases h
        exact hdep _ _ (hkey c c' hc hc' hk.symm)
      · exact hok k p h c' hc' hk

/-- **cache transparency, one cache.**  If the key refines the relevant projection (on the calls `P` that occur) and staging
    depends only on the relevant projection, then from any cache satisfying the invariant (in particular the empty one)
    every call of every history returns what it returns without a cache, whatever the capacity / eviction. -/
theorem cache_transparent_on {P : Call → Prop} {cfg : Cfg} {stageOf : Call → Prog} (exec : Prog → Call → Res)
    (hkey : KeyRefinesOn P cfg) (hdep : DependsOnRelevant stageOf) :
    ∀ (h : List Call) (cache : Cache Prog), CacheOk P cfg stageOf cache → (∀ c ∈ h, P c) →
      runHistory cfg stageOf exec cache h = runUncached stageOf exec h
  | [], _, _, _ => rfl
  | c :: rest, cache, hok, hP => by
      have hs := getProg_spec hkey hdep hok (hP c List.mem_cons_self)
      have ih := cache_transparent_on exec hkey hdep rest _ hs.2 (fun c' hc' => hP c' (List.mem_cons_of_mem _ hc'))
      simp only [runHistory, runCached, runUncached, List.map_cons] at ih ⊢
      rw [hs.1, ih]

theorem cache_transparent {cfg : Cfg} {stageOf : Call → Prog} (exec : Prog → Call → Res)
    (hkey : KeyRefines cfg) (hdep : DependsOnRelevant stageOf) (h : List Call) :
    runHistory cfg stageOf exec [] h = runUncached stageOf exec h :=
  cache_transparent_on (P := fun _ => True) exec (hkey.on _) hdep h [] CacheOk.nil (fun _ _ => trivial)

/-! ## keys -/

theorem avals_eq_of_maps : ∀ {l l' : List AVal},
    l.map (fun a => (a.shape, a.dtype)) = l'.map (fun a => (a.shape, a.dtype)) →
    l.map (·.weak) = l'.map (·.weak) → l = l'
  | [], [], _, _ => rfl
  | [], _ :: _, h, _ => by simp at h
  | _ :: _, [], h, _ => by simp at h
  | a :: l, a' :: l', h, hw => by
      simp only [List.map_cons, List.cons.injEq, Prod.mk.injEq] at h hw
      have := avals_eq_of_maps h.2 hw.2
      cases a; cases a'
      simp_all

/-- a key with every component refines the relevant projection (any capacity) -/
theorem key_refines_relevant {cfg : Cfg} (hfull : cfg.full = true) : KeyRefines cfg := by
  intro c c' hk
  simp only [Cfg.full, Bool.and_eq_true] at hfull
  obtain ⟨⟨⟨⟨⟨h1, h2⟩, h3⟩, h4⟩, h5⟩, h6⟩ := hfull
  simp only [keyOf, sel, h1, h2, h3, h4, h5, h6, if_true, Key.mk.injEq, Option.some.injEq] at hk
  obtain ⟨hfn, -, -, htree, hsd, hw, hkw, hst⟩ := hk
  simp only [relevant, Rel.mk.injEq]
  exact ⟨hfn, htree, avals_eq_of_maps hsd hw, hkw, hst⟩

theorem key_refines_relevant_code : KeyRefines Cfg.code := key_refines_relevant rfl
theorem key_refines_relevant_flatSpec : KeyRefines Cfg.flatSpec := key_refines_relevant rfl

/-- within `P`, a binder's call signature (number of positional arguments, keyword names) determines the rest -/
def SigDetermines (P : Call → Prop) : Prop :=
  ∀ c c', P c → P c' → c.fn = c'.fn → c.argTree.arity = c'.argTree.arity → c.kwNames = c'.kwNames →
    c.argTree = c'.argTree ∧ c.avals = c'.avals ∧ c.statics = c'.statics

/-- the flat-sampler signature of the code refines `relevant` exactly as far as the signature determines the avals -/
theorem flatAsis_refines_on {P : Call → Prop} (hP : SigDetermines P) : KeyRefinesOn P Cfg.flatAsis := by
  intro c c' hc hc' hk
  simp only [keyOf, sel, Cfg.flatAsis, if_true, Key.mk.injEq, Option.some.injEq] at hk
  obtain ⟨hfn, hn, -, -, -, -, hkw, -⟩ := hk
  obtain ⟨h1, h2, h3⟩ := hP c c' hc hc' hfn hn hkw
  simp only [relevant, Rel.mk.injEq]
  exact ⟨hfn, h1, h2, hkw, h3⟩

/-! ## the two caches of a seeded call -/

section TwoLevel
variable {FProg OProg Res : Type}

/-- the jaxpr a seeded call of `c` has when nothing is cached -/
def fullStage (w : World FProg OProg Res) (c : Call) : OProg := w.stageOuter c ((w.body c).map w.stageFlat)

theorem fullStage_depends {w : World FProg OProg Res} (hb : DependsOnRelevant w.body)
    (ho : ∀ ps, DependsOnRelevant (fun c => w.stageOuter c ps)) : DependsOnRelevant (fullStage w) := by
  intro c c' h
  unfold fullStage
  rw [hb c c' h]
  exact ho _ c c' h

def FlatOk (PF : Call → Prop) (cfgF : Cfg) (w : World FProg OProg Res) (fl : Nat → Cache FProg) : Prop :=
  ∀ b, CacheOk PF cfgF w.stageFlat (fl b)

def StateOk (PO PF : Call → Prop) (cfgO cfgF : Cfg) (w : World FProg OProg Res) (st : State FProg OProg) : Prop :=
  CacheOk PO cfgO (fullStage w) st.outer ∧ FlatOk PF cfgF w st.flat

theorem StateOk.empty {PO PF : Call → Prop} {cfgO cfgF : Cfg} {w : World FProg OProg Res} :
    StateOk PO PF cfgO cfgF w State.empty :=
  ⟨CacheOk.nil, fun _ => CacheOk.nil⟩

theorem siteProg_spec {PF : Call → Prop} {cfgF : Cfg} {w : World FProg OProg Res}
    (hkey : KeyRefinesOn PF cfgF) (hdep : DependsOnRelevant w.stageFlat)
    {fl : Nat → Cache FProg} (hok : FlatOk PF cfgF w fl) {s : Call} (hs : PF s) :
    (siteProg w cfgF fl s).1 = w.stageFlat s ∧ FlatOk PF cfgF w (siteProg w cfgF fl s).2 := by
  have h := getProg_spec hkey hdep (hok s.fn) hs
  refine ⟨h.1, ?_⟩
  intro b
  simp only [siteProg]
  by_cases hb : b = s.fn
  · simp only [hb, if_true]; exact h.2
  · simp only [hb, if_false]; exact hok b

theorem traceSites_spec {PF : Call → Prop} {cfgF : Cfg} {w : World FProg OProg Res}
    (hkey : KeyRefinesOn PF cfgF) (hdep : DependsOnRelevant w.stageFlat) :
    ∀ (sites : List Call) (fl : Nat → Cache FProg), FlatOk PF cfgF w fl → (∀ s ∈ sites, PF s) →
      (traceSites w cfgF fl sites).1 = sites.map w.stageFlat ∧ FlatOk PF cfgF w (traceSites w cfgF fl sites).2
  | [], _, hok, _ => ⟨rfl, hok⟩
  | s :: rest, fl, hok, hP => by
      have h1 := siteProg_spec hkey hdep hok (hP s List.mem_cons_self)
      have h2 := traceSites_spec hkey hdep rest _ h1.2 (fun s' hs' => hP s' (List.mem_cons_of_mem _ hs'))
      simp only [traceSites, List.map_cons]
      exact ⟨by rw [h1.1, h2.1], h2.2⟩

/-- the calls of an event are admissible: the seeded call for the `stage` cache, its sites for the flat caches -/
def EventIn (PO PF : Call → Prop) (w : World FProg OProg Res) : Event → Prop
  | .seeded c => PO c ∧ ∀ s ∈ w.body c, PF s
  | .unseeded s => PF s

theorem seededCall_spec {PO PF : Call → Prop} {cfgO cfgF : Cfg} {w : World FProg OProg Res}
    (hkO : KeyRefinesOn PO cfgO) (hkF : KeyRefinesOn PF cfgF)
    (hdF : DependsOnRelevant w.stageFlat) (hdO : DependsOnRelevant (fullStage w))
    {st : State FProg OProg} (hok : StateOk PO PF cfgO cfgF w st) {c : Call} (hc : PO c) (hs : ∀ s ∈ w.body c, PF s) :
    (seededCall w cfgO cfgF st c).1 = fresh w c ∧ StateOk PO PF cfgO cfgF w (seededCall w cfgO cfgF st c).2 := by
  unfold seededCall
  cases hl : lookup (keyOf cfgO c) st.outer with
  | some p =>
      have : p = fullStage w c := hok.1 _ _ (lookup_mem hl) c hc rfl
      exact ⟨by simp only [this, fresh, fullStage], hok⟩
  | none =>
      have ht := traceSites_spec hkF hdF (w.body c) st.flat hok.2 hs
      refine ⟨by simp only [ht.1, fresh], ?_, ht.2⟩
      intro k p hm c' hc' hk
      rcases List.mem_cons.mp (mem_trim hm) with h | h
      · cases h
        rw [ht.1]
        exact hdO _ _ (hkO c c' hc hc' hk.symm)
      · exact hok.1 k p h c' hc' hk

/-- **cache transparency, the two caches of `seed`.**  If both keys refine the relevant projection on the calls that occur,
    and the body, the flat staging and the outer staging depend on a call only through its relevant projection, then in
    every history interleaving seeded calls and unseeded sampler calls, from any state satisfying the invariant, every
    seeded call returns what it returns in a fresh process. -/
theorem transparent_on {PO PF : Call → Prop} {cfgO cfgF : Cfg} {w : World FProg OProg Res}
    (hkO : KeyRefinesOn PO cfgO) (hkF : KeyRefinesOn PF cfgF)
    (hdF : DependsOnRelevant w.stageFlat) (hdO : DependsOnRelevant (fullStage w)) :
    ∀ (h : List Event) (st : State FProg OProg), StateOk PO PF cfgO cfgF w st → (∀ e ∈ h, EventIn PO PF w e) →
      run w cfgO cfgF st h = runFresh w h
  | [], _, _, _ => rfl
  | .seeded c :: rest, st, hok, hP => by
      have he := hP _ List.mem_cons_self
      have h1 := seededCall_spec hkO hkF hdF hdO hok he.1 he.2
      have ih := transparent_on hkO hkF hdF hdO rest _ h1.2 (fun e he' => hP e (List.mem_cons_of_mem _ he'))
      simp only [run, step, runFresh]
      rw [h1.1, ih]
  | .unseeded s :: rest, st, hok, hP => by
      have he : PF s := hP _ List.mem_cons_self
      have h1 := siteProg_spec hkF hdF hok.2 he
      have ih := transparent_on hkO hkF hdF hdO rest { st with flat := (siteProg w cfgF st.flat s).2 } ⟨hok.1, h1.2⟩
        (fun e he' => hP e (List.mem_cons_of_mem _ he'))
      simp only [run, step, runFresh]
      rw [ih]

theorem transparent {cfgO cfgF : Cfg} {w : World FProg OProg Res}
    (hkO : KeyRefines cfgO) (hkF : KeyRefines cfgF)
    (hdF : DependsOnRelevant w.stageFlat) (hdO : DependsOnRelevant (fullStage w)) (h : List Event) :
    run w cfgO cfgF State.empty h = runFresh w h :=
  transparent_on (PO := fun _ => True) (PF := fun _ => True) (hkO.on _) (hkF.on _) hdF hdO h State.empty StateOk.empty
    (fun e _ => by cases e <;> simp [EventIn])

/-- the free interpretation satisfies the dependency assumptions as soon as the body does -/
theorem free_depends {body : Call → List Call} (hb : DependsOnRelevant body) :
    DependsOnRelevant (World.free body).stageFlat ∧ DependsOnRelevant (fullStage (World.free body)) := by
  refine ⟨fun c c' h => h, fullStage_depends hb ?_⟩
  intro ps c c' h
  simp only [World.free, h]

end TwoLevel

/-! ## eager / jit / vmap present the same call -/

/-- with weak types preserved on both routes (genjax's `get_shaped_aval` for Python scalars, JAX's tracers) the call that
    reaches `stage` does not depend on the transformation under which the user-level call is made -/
theorem present_mode_irrelevant {j : JaxCfg} (h1 : j.stageScalarWeak = true) (h2 : j.tracerKeepsWeak = true)
    (m m' : Mode) (u : UCall) : present j m u = present j m' u := by
  have : ∀ a, avalOf j m a = avalOf j m' a := by
    intro a; cases a <;> simp [avalOf, h1, h2]
  simp only [present, Call.mk.injEq, true_and, and_true]
  exact List.map_congr_left (fun a _ => this a)

/-- a history as the user writes it: seeded calls under some transformation, unseeded sampler calls -/
inductive UEvent where
  | seeded (m : Mode) (u : UCall)
  | unseeded (u : UCall)

def UEvent.present (j : JaxCfg) : UEvent → Event
  | .seeded m u => .seeded (SeedCache.present j m u)
  | .unseeded u => .unseeded (SeedCache.present j .eager u)

/-- what each event returns when it is the first thing a fresh process does, EAGERLY -/
def UEvent.freshEager (w : World FProg OProg Res) (j : JaxCfg) : UEvent → Option Res
  | .seeded _ u => some (fresh w (SeedCache.present j .eager u))
  | .unseeded _ => none

theorem runFresh_present (w : World FProg OProg Res) {j : JaxCfg} (h1 : j.stageScalarWeak = true)
    (h2 : j.tracerKeepsWeak = true) : ∀ h : List UEvent,
    runFresh w (h.map (UEvent.present j)) = h.map (UEvent.freshEager w j)
  | [] => rfl
  | .seeded m u :: rest => by
      simp only [List.map_cons, UEvent.present, runFresh, UEvent.freshEager, runFresh_present w h1 h2 rest,
        present_mode_irrelevant h1 h2 m .eager u]
  | .unseeded u :: rest => by
      simp only [List.map_cons, UEvent.present, runFresh, UEvent.freshEager, runFresh_present w h1 h2 rest]

/-- transparency across transformations: every seeded call of a history made eagerly, under jit, under vmap over keys or
    under jit∘vmap returns what the same call returns eagerly in a fresh process -/
theorem transparent_modes {cfgO cfgF : Cfg} {w : World FProg OProg Res}
    (hkO : KeyRefines cfgO) (hkF : KeyRefines cfgF)
    (hdF : DependsOnRelevant w.stageFlat) (hdO : DependsOnRelevant (fullStage w))
    {j : JaxCfg} (h1 : j.stageScalarWeak = true) (h2 : j.tracerKeepsWeak = true) (h : List UEvent) :
    run w cfgO cfgF State.empty (h.map (UEvent.present j)) = h.map (UEvent.freshEager w j) := by
  rw [transparent hkO hkF hdF hdO, runFresh_present w h1 h2]

/-! ## closed counterexamples (free interpretation) -/

namespace Cex

def f32w : AVal := ⟨[], "float32", true⟩
def f32 : AVal := ⟨[], "float32", false⟩
def i32w : AVal := ⟨[], "int32", true⟩
def i32 : AVal := ⟨[], "int32", false⟩
def f32v3 : AVal := ⟨[3], "float32", false⟩

/-- the long-lived sampler `binder` (id 7) of harness/props/c06.py called as `binder(lo=v)` / `binder(hi=v)` -/
def siteLo : Call := ⟨7, .node [], [f32w], ["lo"], [], [1]⟩
def siteHi : Call := ⟨7, .node [], [f32w], ["hi"], [], [1]⟩
/-- `lambda v: binder(lo=v)` and `lambda v: binder(hi=v)`: two function objects, same argument types -/
def callLo : Call := ⟨1, .node [.leaf], [f32w], [], [], [1]⟩
def callHi : Call := ⟨2, .node [.leaf], [f32w], [], [], [1]⟩
def bodyKw (c : Call) : List Call := if c.fn = 1 then [siteLo] else if c.fn = 2 then [siteHi] else []
def histKw : List Event := [.seeded callLo, .seeded callHi]

/-- one function object called with a Python int (weak) and with an int32 array (strong) -/
def callWeak : Call := ⟨1, .node [.leaf], [i32w], [], [], [100]⟩
def callStrong : Call := ⟨1, .node [.leaf], [i32], [], [], [100]⟩
def histWeak : List Event := [.seeded callWeak, .seeded callStrong]

/-- the long-lived sampler called positionally with a scalar and with a vector: `binder(x)` -/
def siteScalar : Call := ⟨7, .node [.leaf], [f32], [], [], [1]⟩
def siteVector : Call := ⟨7, .node [.leaf], [f32v3], [], [], [0, 0, 0]⟩
def callScalar : Call := ⟨1, .node [.leaf], [f32], [], [], [1]⟩
def callVector : Call := ⟨2, .node [.leaf], [f32v3], [], [], [0, 0, 0]⟩
def bodyShape (c : Call) : List Call := if c.fn = 1 then [siteScalar] else if c.fn = 2 then [siteVector] else []
def histShape : List Event := [.seeded callScalar, .seeded callVector]

/-- the long-lived sampler called with a Python int and with an int32 array -/
def siteW : Call := ⟨7, .node [.leaf], [i32w], [], [], [100]⟩
def siteS : Call := ⟨7, .node [.leaf], [i32], [], [], [100]⟩
def callW : Call := ⟨1, .node [.leaf], [i32w], [], [], [100]⟩
def callS : Call := ⟨2, .node [.leaf], [i32], [], [], [100]⟩
def bodyWS (c : Call) : List Call := if c.fn = 1 then [siteW] else if c.fn = 2 then [siteS] else []
def histWS : List Event := [.seeded callW, .seeded callS]

/-- `f(100)` as a user-level call -/
def uPyInt : UCall := ⟨1, .node [.leaf], [.py "int32"], [], [], [100]⟩
/-- seeded change C06_3: `get_shaped_aval` forgets the weak type of Python scalars -/
def JaxCfg.c06_3 : JaxCfg := ⟨false, true⟩

end Cex

open Cex in
/-- C06_2 in the model: without the keyword names in the flat-sampler signature the second call of the history
    `seed(λv. binder(lo=v))(k, 1.0); seed(λv. binder(hi=v))(k, 1.0)` runs the sampler staged for `lo=` — its result differs
    from the fresh one; with the code's signature (names included) the same history is transparent -/
theorem kwnames_cex :
    (run (World.free bodyKw) Cfg.code Cfg.flatNoKwNames State.empty histKw)[1]? ≠ (runFresh (World.free bodyKw) histKw)[1]?
    ∧ run (World.free bodyKw) Cfg.code Cfg.flatAsis State.empty histKw = runFresh (World.free bodyKw) histKw := by
  decide

open Cex in
/-- a `stage` key without the weak-type bit: `seed(f)(k, 100)` then `seed(f)(k, int32(100))` — the second call is served the
    jaxpr traced for a weakly typed argument; with the code's key the history is transparent -/
theorem weaktype_cex :
    (run (World.free fun _ => []) Cfg.codeNoWeak Cfg.flatAsis State.empty histWeak)[1]?
      ≠ (runFresh (World.free fun _ => []) histWeak)[1]?
    ∧ run (World.free fun _ => []) Cfg.code Cfg.flatAsis State.empty histWeak = runFresh (World.free fun _ => []) histWeak := by
  decide

open Cex in
/-- C06_3 in the model: when `get_shaped_aval` gives Python scalars a strong type, the eager call and the jitted call of
    `seed(f)(k, 100)` reach `stage` as different calls and (fresh, nothing cached) run different programs -/
theorem strong_scalar_cex :
    present JaxCfg.c06_3 .eager uPyInt ≠ present JaxCfg.c06_3 .jit uPyInt
    ∧ fresh (World.free fun _ => []) (present JaxCfg.c06_3 .eager uPyInt)
        ≠ fresh (World.free fun _ => []) (present JaxCfg.c06_3 .jit uPyInt)
    ∧ present JaxCfg.c06_3 .vmapKeys uPyInt ≠ present JaxCfg.c06_3 .jitVmap uPyInt := by
  decide

open Cex in
/-- the code's own flat-sampler signature (OPEN finding `flat-sampler-cache-avals`): a long-lived sampler called with a
    scalar and then with a vector (or with a Python int and then an int32 array) serves the second site the sampler staged
    for the first; with avals in the signature (`Cfg.flatSpec`) both histories are transparent -/
theorem flatAsis_avals_cex :
    (run (World.free bodyShape) Cfg.code Cfg.flatAsis State.empty histShape)[1]? ≠ (runFresh (World.free bodyShape) histShape)[1]?
    ∧ (run (World.free bodyWS) Cfg.code Cfg.flatAsis State.empty histWS)[1]? ≠ (runFresh (World.free bodyWS) histWS)[1]?
    ∧ run (World.free bodyShape) Cfg.code Cfg.flatSpec State.empty histShape = runFresh (World.free bodyShape) histShape
    ∧ run (World.free bodyWS) Cfg.code Cfg.flatSpec State.empty histWS = runFresh (World.free bodyWS) histWS :=
  ⟨by decide, by decide, by decide, by decide⟩

end Genjax.SeedCache
