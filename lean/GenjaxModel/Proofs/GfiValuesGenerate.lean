import GenjaxModel.Proofs.GfiValuesUpdate
/-!
  Value-level theorems for `generate` (C02): constrained addresses hold the constrained values.
-/
namespace Genjax
variable {R : Type} [AddCommGroup R] (P : Prims R) (cfg : Cfg)

/-! ## inversion of `GF.generate` on a constraint map -/

theorem gen_dist_inv {d0 : Nat} {c : CM} {args : List Val} {t : Tr R} {w : R}
    (h : (GF.dist d0).generate P cfg (some c) args = some (t, w)) :
    ∃ v s, c = .leaf v ∧ t = .leaf v s := by
  cases c with
  | leaf v =>
    simp only [GF.generate, Option.some.injEq, Prod.mk.injEq] at h
    exact ⟨v, _, rfl, h.1.symm⟩
  | _ => simp [GF.generate] at h

theorem gen_fn_inv {body : Body} {c : CM} {args : List Val} {t : Tr R} {w : R}
    (h : (GF.fn body).generate P cfg (some c) args = some (t, w)) :
    ∃ kids subs r s, c = .node kids ∧
      body.generate P cfg kids args .nil 0 0 = some (subs, r, s, w) ∧ t = .fn subs r s := by
  cases c with
  | node kids =>
    simp only [GF.generate, Option.bind_eq_bind, Option.bind_eq_some_iff, Option.pure_def,
      Option.some.injEq, Prod.mk.injEq] at h
    obtain ⟨⟨subs, r, s, w'⟩, hb, rfl, rfl⟩ := h
    exact ⟨kids, subs, r, s, rfl, hb, rfl⟩
  | _ => simp [GF.generate] at h

/-- what Vmap.generate and Scan.generate do lane by lane / step by step on a constraint map -/
def LanesGen (g : GF) (l : CML) (ts : List (Tr R × R)) : Prop :=
  ts.length = l.toList.length ∧
  ∀ (i : Nat) (xi : CM), l.toList[i]? = some xi →
    ∃ b argsi, ts[i]? = some b ∧ g.generate P cfg (some xi) argsi = some b

theorem gen_vmap_inv {g : GF} {axes : List Bool} {n : Nat} {c : CM} {args : List Val} {t : Tr R}
    {w : R} (h : (GF.vmap g axes n).generate P cfg (some c) args = some (t, w)) :
    ∃ l ts, c = .lanes l ∧ LanesGen P cfg g l ts ∧ t = .vec (TrL.ofList (ts.map (·.1))) := by
  cases c with
  | lanes l =>
    simp only [GF.generate, Option.bind_eq_bind, Option.bind_eq_some_iff, Option.pure_def,
      Option.some.injEq, Prod.mk.injEq] at h
    obtain ⟨u, hlen, ts, hts, rfl, _⟩ := h
    refine ⟨l, ts, rfl, ⟨forLanes_length _ _ _ _ hts, ?_⟩, rfl⟩
    intro i xi hxi
    obtain ⟨b, hb, hf⟩ := forLanes_get _ _ _ _ hts i xi hxi
    exact ⟨b, _, hb, hf⟩
  | _ => simp [GF.generate] at h

theorem gen_scan_inv {g : GF} {n : Nat} {c : CM} {args : List Val} {t : Tr R}
    {w : R} (h : (GF.scan g n).generate P cfg (some c) args = some (t, w)) :
    ∃ l ts cF, c = .lanes l ∧ LanesGen P cfg g l ts ∧
      t = .scan (TrL.ofList (ts.map (·.1))) cF := by
  cases c with
  | lanes l =>
    simp only [GF.generate, Option.bind_eq_bind, Option.bind_eq_some_iff, Option.pure_def,
      Option.some.injEq, Prod.mk.injEq] at h
    obtain ⟨u, hlen, ⟨ts, cF⟩, hts, rfl, _⟩ := h
    refine ⟨l, ts, cF, rfl, ⟨forSteps_length _ _ _ _ _ _ hts, ?_⟩, rfl⟩
    intro i xi hxi
    obtain ⟨b, cj, cj', hb, hf⟩ := forSteps_get _ _ _ _ _ _ hts i xi hxi
    simp only [Option.bind_eq_bind, Option.bind_eq_some_iff, Option.pure_def, Option.some.injEq,
      Prod.mk.injEq] at hf
    obtain ⟨⟨t1, w1⟩, h1, rfl, _⟩ := hf
    exact ⟨_, _, hb, h1⟩
  | _ => simp [GF.generate] at h

theorem gen_cond_inv {tg fg : GF} {c : CM} {args : List Val} {t : Tr R} {w : R}
    (h : (GF.cond tg fg).generate P cfg (some c) args = some (t, w)) :
    ∃ a wa b wb, tg.generate P cfg (some c) (args.drop 1) = some (a, wa) ∧
      fg.generate P cfg (some c) (args.drop 1) = some (b, wb) ∧
      t = .cond (args.getD 0 .nil).truthy a b ∧
      w = if (args.getD 0 .nil).truthy then wa else wb := by
  simp only [GF.generate, Option.bind_eq_bind, Option.bind_eq_some_iff, Option.pure_def,
    Option.some.injEq, Prod.mk.injEq] at h
  obtain ⟨⟨a, wa⟩, ha, ⟨b, wb⟩, hb, rfl, rfl⟩ := h
  exact ⟨a, wa, b, wb, ha, hb, rfl, rfl⟩

/-! ## what the Generate handler does at each call site -/

def GenSite (x : CML) (a : String) (g : GF) (es : List Expr) (subsF : TrL R)
    (env' : List Val) : Prop :=
  ∃ t1 w1, g.generate P cfg (x.find? a) (es.map (·.eval env')) = some (t1, w1) ∧
    subsF.find? a = some t1

theorem Body.generate_sites : ∀ (b : Body) (x : CML) (env : List Val) (subs : TrL R)
    (s w : R) (subsF : TrL R) (r : Val) (sF wF : R),
    b.generate P cfg x env subs s w = some (subsF, r, sF, wF) →
    (∀ a, subs.find? a = none → b.site a = none → subsF.find? a = none) ∧
    (∀ a g es, subs.find? a = none → b.site a = some (g, es) →
      GenSite P cfg x a g es subsF (b.envAt env subsF a))
  | .ret e, x, env, subs, s, w, subsF, r, sF, wF, h => by
      simp only [Body.generate, Option.some.injEq, Prod.mk.injEq] at h
      obtain ⟨rfl, _⟩ := h
      refine ⟨fun a ha _ => ha, fun a g es _ hs => ?_⟩
      simp [Body.site] at hs
  | .call addr g0 es0 rest, x, env, subs, s, w, subsF, r, sF, wF, h => by
      simp only [Body.generate] at h
      split at h
      · exact absurd h (by simp)
      rename_i hn
      have hn' : subs.find? addr = none := by simpa using hn
      simp only [Option.bind_eq_bind, Option.bind_eq_some_iff] at h
      obtain ⟨⟨t1, w1⟩, h1, h2⟩ := h
      dsimp only at h2
      obtain ⟨ih2, ih3⟩ := Body.generate_sites rest _ _ _ _ _ _ _ _ _ h2
      have hself : (subs.snoc addr t1).find? addr = some t1 := TrL.find?_snoc_self hn'
      refine ⟨?_, ?_⟩
      · intro a ha hs
        simp only [Body.site] at hs
        split at hs
        · simp at hs
        rename_i hne
        exact ih2 a (by rw [TrL.find?_snoc_ne _ _ _ _ hne]; exact ha) hs
      · intro a g es ha hs
        simp only [Body.site] at hs
        split at hs
        · rename_i he
          subst he
          simp only [Option.some.injEq, Prod.mk.injEq] at hs
          obtain ⟨rfl, rfl⟩ := hs
          simp only [Body.envAt, if_true]
          exact ⟨t1, w1, h1, Body.generate_find P cfg rest _ _ _ _ _ _ _ _ _ h2 a t1 hself⟩
        · rename_i hne
          have hfa : subsF.find? addr = some t1 :=
            Body.generate_find P cfg rest _ _ _ _ _ _ _ _ _ h2 addr t1 hself
          simp only [Body.envAt, hne, if_false, hfa]
          exact ih3 a g es (by rw [TrL.find?_snoc_ne _ _ _ _ hne]; exact ha) hs

/-! ## constrained addresses hold the constrained values -/

def GenConOK (g : GF) : Prop :=
  ∀ (x : Option CM) (args : List Val) (t : Tr R) (w : R),
    g.generate P cfg x args = some (t, w) →
    ∀ y, t.choices = some y → ∀ p v, CM.leafAt? x p = some v →
      ∀ v', y.leafAt p = some v' → v' = v

theorem genCon_lanes (g : GF) (IH : GenConOK P cfg g) {l : CML} {ts : List (Tr R × R)}
    (hL : LanesGen P cfg g l ts) (xl : CML)
    (hxl : (TrL.ofList (ts.map (·.1))).choices = some xl) :
    ∀ p v, (CM.lanes l).leafAt p = some v → ∀ v', (CM.lanes xl).leafAt p = some v' → v' = v := by
  intro p v hv v' hv'
  match p with
  | [] => simp [CM.leafAt] at hv
  | .key k :: p => simp [CM.leafAt] at hv
  | .idx i :: p =>
    rw [CM.leafAt_lanes_idx] at hv
    rw [lanes_leafAt _ xl hxl, TrL.toList_ofList] at hv'
    cases hxi : l.toList[i]? with
    | none => rw [hxi] at hv; simp at hv
    | some xi =>
      rw [hxi] at hv
      simp only [Option.bind_some] at hv
      obtain ⟨b, argsi, hb, hu⟩ := hL.2 i xi hxi
      have h1 : (ts.map (·.1))[i]? = some b.1 := by simp [hb]
      rw [h1] at hv'
      simp only [Option.bind_some] at hv'
      cases hc : b.1.choices with
      | none => rw [hc] at hv'; simp [CM.leafAt?] at hv'
      | some ci =>
        rw [hc] at hv'
        exact IH (some xi) argsi b.1 b.2 hu ci hc p v (by simpa [CM.leafAt?] using hv) v' hv'

theorem genConOK_all : ∀ g, GenConOK P cfg g := by
  refine GF.induct_sites _ ?_ ?_ ?_ ?_ ?_
  · -- dist
    intro d0 x args t w h y hy p v hv v' hv'
    cases x with
    | none => simp [CM.leafAt?] at hv
    | some c =>
      obtain ⟨v0, s0, rfl, rfl⟩ := gen_dist_inv P cfg h
      simp only [Tr.choices, Option.some.injEq] at hy
      subst hy
      simp only [CM.leafAt?] at hv
      rw [hv] at hv'
      exact (Option.some.inj hv').symm
  · -- fn
    intro body ih x args t w h y hy p v hv v' hv'
    cases x with
    | none => simp [CM.leafAt?] at hv
    | some c =>
      obtain ⟨kids, subs, r, s, rfl, hb, rfl⟩ := gen_fn_inv P cfg h
      simp only [Tr.choices, Option.map_eq_some_iff] at hy
      obtain ⟨xl, hxl, rfl⟩ := hy
      simp only [CM.leafAt?] at hv
      match p with
      | [] => simp [CM.leafAt] at hv
      | .idx i :: p => simp [CM.leafAt] at hv
      | .key a :: p =>
        rw [CM.leafAt_node_key] at hv
        rw [fn_leafAt subs xl hxl] at hv'
        obtain ⟨hs1, hs2⟩ := Body.generate_sites P cfg body _ _ _ _ _ _ _ _ _ hb
        cases hsite : body.site a with
        | none =>
          rw [hs1 a rfl hsite] at hv'
          simp [CM.leafAt?] at hv'
        | some ge =>
          obtain ⟨g, es⟩ := ge
          obtain ⟨t1, w1, hu, hfF⟩ := hs2 a g es rfl hsite
          rw [hfF] at hv'
          simp only [Option.bind_some] at hv'
          cases hc : t1.choices with
          | none => rw [hc] at hv'; simp [CM.leafAt?] at hv'
          | some c1 =>
            rw [hc] at hv'
            refine ih a g es hsite _ _ _ _ hu c1 hc p v ?_ v' hv'
            cases hk : kids.find? a with
            | none => rw [hk] at hv; simp at hv
            | some ck => rw [hk] at hv; simpa [CM.leafAt?] using hv
  · -- vmap
    intro g axes n ih x args t w h y hy p v hv v' hv'
    cases x with
    | none => simp [CM.leafAt?] at hv
    | some c =>
      obtain ⟨l, ts, rfl, hL, rfl⟩ := gen_vmap_inv P cfg h
      simp only [Tr.choices, Option.map_eq_some_iff] at hy
      obtain ⟨xl, hxl, rfl⟩ := hy
      exact genCon_lanes P cfg g ih hL xl hxl p v hv v' hv'
  · -- scan
    intro g n ih x args t w h y hy p v hv v' hv'
    cases x with
    | none => simp [CM.leafAt?] at hv
    | some c =>
      obtain ⟨l, ts, cF, rfl, hL, rfl⟩ := gen_scan_inv P cfg h
      simp only [Tr.choices, Option.map_eq_some_iff] at hy
      obtain ⟨xl, hxl, rfl⟩ := hy
      exact genCon_lanes P cfg g ih hL xl hxl p v hv v' hv'
  · -- cond
    intro tg fg iht ihf x args t w h y hy p v hv v' hv'
    cases x with
    | none => simp [CM.leafAt?] at hv
    | some c =>
      obtain ⟨a, wa, b, wb, ha, hb, rfl, _⟩ := gen_cond_inv P cfg h
      simp only [Tr.choices, Option.bind_eq_bind, Option.bind_eq_some_iff] at hy
      obtain ⟨ya, hya, yb, hyb, hm⟩ := hy
      rw [CM.mergeCheck_leafAt _ _ _ _ hm p] at hv'
      have e1 := iht _ _ _ _ ha ya hya p v hv
      have e2 := ihf _ _ _ _ hb yb hyb p v hv
      cases h1 : ya.leafAt p with
      | none =>
        rw [h1] at hv'
        simp only [mergeLeaf_none_left] at hv'
        exact e2 v' hv'
      | some u1 =>
        cases h2 : yb.leafAt p with
        | none =>
          rw [h1, h2] at hv'
          simp only [mergeLeaf_none_right, Option.some.injEq] at hv'
          subst hv'
          exact e1 _ h1
        | some u2 =>
          rw [h1, h2] at hv'
          simp only [mergeLeaf, Option.some.injEq] at hv'
          have := e1 _ h1
          have := e2 _ h2
          subst_vars
          simp

/-- C02: every constrained address that exists in the generated trace's choice map holds the
    constrained value — every program (Cond at any depth: the constraint is handed to both
    branches), every `cfg`. -/
theorem generate_keeps_constraints (g : GF) (x : Option CM) (args : List Val) (t : Tr R) (w : R)
    (h : g.generate P cfg x args = some (t, w)) (y : CM) (hy : t.choices = some y)
    (p : Path) (v : Val) (hv : CM.leafAt? x p = some v) (v' : Val) (hv' : y.leafAt p = some v') :
    v' = v :=
  genConOK_all P cfg g x args t w h y hy p v hv v' hv'

end Genjax
