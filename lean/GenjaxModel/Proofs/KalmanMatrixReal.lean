import GenjaxModel.Proofs.KalmanMatrix
import Mathlib.Analysis.Matrix.PosDef
import Mathlib.Algebra.Order.Star.Real
import Mathlib.Analysis.Real.Sqrt
import Mathlib.Analysis.SpecialFunctions.Exp
import Mathlib.Analysis.SpecialFunctions.Log.Basic
import Mathlib.Analysis.SpecialFunctions.Trigonometric.Basic
/-!
  C20 (Kalman, matrix case) over ℝ: positive (semi)definiteness is preserved by every step, the
  invertibility hypotheses of `Proofs/KalmanMatrix.lean` hold automatically for positive definite
  `P`, `R`, and the update is Bayes' rule for multivariate normal DENSITIES (not only exponents):

      N(x; m, P) · N(y; C x, R) = N(y − C m; 0, S) · N(x; m', P')          for all x, y.

  `logGaussPdf` is `jax.scipy.stats.multivariate_normal.logpdf`, the term the code adds to
  `log_marginal`.
-/
set_option linter.unusedSectionVars false
noncomputable section
namespace Genjax.KalmanMatrix
open Matrix

variable {n p : Type*} [Fintype n] [DecidableEq n] [Fintype p] [DecidableEq p]

/-! ## positive (semi)definiteness -/

section psd
variable (C : Matrix p n ℝ) (P : Matrix n n ℝ) (R : Matrix p p ℝ)

theorem posSemidef_mul_mul_transpose {P : Matrix n n ℝ} (hP : P.PosSemidef) (B : Matrix p n ℝ) :
    (B * P * Bᵀ).PosSemidef := by
  simpa [conjTranspose_eq_transpose_of_trivial] using hP.mul_mul_conjTranspose_same B

theorem innovCov_posSemidef (hP : P.PosSemidef) (hR : R.PosSemidef) :
    (innovCov C P R).PosSemidef :=
  (posSemidef_mul_mul_transpose hP C).add hR

/-- `S = C P Cᵀ + R` is positive definite (hence invertible) as soon as `R` is -/
theorem innovCov_posDef (hP : P.PosSemidef) (hR : R.PosDef) : (innovCov C P R).PosDef :=
  PosDef.posSemidef_add (posSemidef_mul_mul_transpose hP C) hR

theorem predCov_posSemidef (A P Q : Matrix n n ℝ) (hP : P.PosSemidef) (hQ : Q.PosSemidef) :
    (predCov A P Q).PosSemidef := innovCov_posSemidef A P Q hP hQ

theorem predCov_posDef (A P Q : Matrix n n ℝ) (hP : P.PosSemidef) (hQ : Q.PosDef) :
    (predCov A P Q).PosDef := innovCov_posDef A P Q hP hQ

theorem posDef_isUnit_det {ι : Type*} [Fintype ι] [DecidableEq ι] {M : Matrix ι ι ℝ}
    (h : M.PosDef) : IsUnit M.det := h.det_pos.ne'.isUnit

theorem posSemidef_isSymm {ι : Type*} [Fintype ι] {M : Matrix ι ι ℝ} (h : M.PosSemidef) :
    M.IsSymm := isHermitian_iff_isSymm.mp h.isHermitian

/-- the filtered covariance is positive semidefinite (Joseph form) -/
theorem updCov_posSemidef (hP : P.PosSemidef) (hR : R.PosSemidef)
    (hS : IsUnit (innovCov C P R).det) : (updCov C P R).PosSemidef := by
  rw [updCov_joseph C P R hS]
  exact (posSemidef_mul_mul_transpose hP _).add (posSemidef_mul_mul_transpose hR _)

/-- the filtered covariance is positive definite when `P`, `R` are (precision form) -/
theorem updCov_posDef (hP : P.PosDef) (hR : R.PosDef) : (updCov C P R).PosDef := by
  have hS := posDef_isUnit_det (innovCov_posDef C P R hP.posSemidef hR)
  have hinv := updCov_inv C P R (posDef_isUnit_det hP) (posDef_isUnit_det hR) hS
  have h1 : (P⁻¹ + Cᵀ * R⁻¹ * C).PosDef := by
    refine PosDef.add_posSemidef hP.inv ?_
    simpa using posSemidef_mul_mul_transpose hR.inv.posSemidef Cᵀ
  rw [← hinv] at h1
  exact posDef_inv_iff.mp h1

theorem smCov_posSemidef (A P Q Ps : Matrix n n ℝ) (hP : P.PosSemidef) (hQ : Q.PosSemidef)
    (hS : IsUnit (predCov A P Q).det) (hPs : Ps.PosSemidef) : (smCov A P Q Ps).PosSemidef := by
  rw [smCov_eq_updCov_add A P Q (posSemidef_isSymm hP) (posSemidef_isSymm hQ) hS]
  exact (updCov_posSemidef A P Q hP hQ hS).add (posSemidef_mul_mul_transpose hPs _)

end psd

/-! ## multivariate normal densities -/

section density

/-- density of `N(μ, Σ)` at `x` -/
def gaussPdf {ι : Type*} [Fintype ι] [DecidableEq ι] (μ : ι → ℝ) (Sig : Matrix ι ι ℝ)
    (x : ι → ℝ) : ℝ :=
  Real.exp (-(1 / 2) * qf Sig⁻¹ (x - μ)) / Real.sqrt ((2 * Real.pi) ^ Fintype.card ι * Sig.det)

/-- `multivariate_normal.logpdf(x, μ, Σ) = -½ (d log 2π + log det Σ + (x-μ)ᵀ Σ⁻¹ (x-μ))` -/
def logGaussPdf {ι : Type*} [Fintype ι] [DecidableEq ι] (μ : ι → ℝ) (Sig : Matrix ι ι ℝ)
    (x : ι → ℝ) : ℝ :=
  -(1 / 2) * (Fintype.card ι * Real.log (2 * Real.pi) + Real.log Sig.det + qf Sig⁻¹ (x - μ))

theorem log_gaussPdf {ι : Type*} [Fintype ι] [DecidableEq ι] (μ : ι → ℝ) (Sig : Matrix ι ι ℝ)
    (x : ι → ℝ) (h : 0 < Sig.det) : Real.log (gaussPdf μ Sig x) = logGaussPdf μ Sig x := by
  have h2 : (0 : ℝ) < (2 * Real.pi) ^ Fintype.card ι := pow_pos (by positivity) _
  unfold gaussPdf logGaussPdf
  rw [Real.log_div (Real.exp_pos _).ne' (Real.sqrt_pos.mpr (mul_pos h2 h)).ne', Real.log_exp,
    Real.log_sqrt (mul_pos h2 h).le, Real.log_mul h2.ne' h.ne', Real.log_pow]
  ring

variable (C : Matrix p n ℝ) (P : Matrix n n ℝ) (R : Matrix p p ℝ)

/-- BAYES' RULE FOR THE DENSITIES, explicit hypotheses -/
theorem update_bayes_density (hPs : P.IsSymm) (hRs : R.IsSymm) (hP : 0 < P.det) (hR : 0 < R.det)
    (hS : 0 < (innovCov C P R).det) (m x : n → ℝ) (y : p → ℝ) :
    gaussPdf m P x * gaussPdf (C *ᵥ x) R y =
      gaussPdf 0 (innovCov C P R) (innov C m y) *
        gaussPdf (updMean C P R m y) (updCov C P R) x := by
  have hsq := update_completes_square C P R hPs hRs hP.ne'.isUnit hR.ne'.isUnit hS.ne'.isUnit m x y
  have hdet := det_mul_det C P R hS.ne'.isUnit
  have hn : (0 : ℝ) ≤ (2 * Real.pi) ^ Fintype.card n := by positivity
  have hp : (0 : ℝ) ≤ (2 * Real.pi) ^ Fintype.card p := by positivity
  unfold gaussPdf
  rw [div_mul_div_comm, div_mul_div_comm, ← Real.exp_add, ← Real.exp_add,
    ← Real.sqrt_mul (mul_nonneg hn hP.le), ← Real.sqrt_mul (mul_nonneg hp hS.le), sub_zero]
  congr 2
  · linear_combination (-(1 / 2 : ℝ)) * hsq
  · linear_combination ((2 * Real.pi) ^ Fintype.card n * (2 * Real.pi) ^ Fintype.card p) * hdet

/-- the same in log form: this is why `log_marginal += logpdf(innovation, 0, S)` accumulates the
    exact log marginal likelihood `log p(y_t | y_{1:t-1})` -/
theorem update_bayes_logpdf (hPs : P.IsSymm) (hRs : R.IsSymm) (hP : 0 < P.det) (hR : 0 < R.det)
    (hS : 0 < (innovCov C P R).det) (m x : n → ℝ) (y : p → ℝ) :
    logGaussPdf m P x + logGaussPdf (C *ᵥ x) R y =
      logGaussPdf 0 (innovCov C P R) (innov C m y) +
        logGaussPdf (updMean C P R m y) (updCov C P R) x := by
  have hsq := update_completes_square C P R hPs hRs hP.ne'.isUnit hR.ne'.isUnit hS.ne'.isUnit m x y
  have hdet := det_mul_det C P R hS.ne'.isUnit
  have hP' : 0 < (updCov C P R).det := by
    have : 0 < (innovCov C P R).det * (updCov C P R).det := hdet ▸ mul_pos hP hR
    exact (pos_iff_pos_of_mul_pos this).mp hS
  have hlog := congrArg Real.log hdet
  rw [Real.log_mul hP.ne' hR.ne', Real.log_mul hS.ne' hP'.ne'] at hlog
  unfold logGaussPdf
  rw [sub_zero]
  linear_combination (-(1 / 2 : ℝ)) * hsq + (-(1 / 2 : ℝ)) * hlog

/-- BAYES' RULE FOR THE DENSITIES, for positive definite covariances (all hypotheses discharged) -/
theorem update_bayes_density_posDef (hP : P.PosDef) (hR : R.PosDef) (m x : n → ℝ) (y : p → ℝ) :
    gaussPdf m P x * gaussPdf (C *ᵥ x) R y =
      gaussPdf 0 (innovCov C P R) (innov C m y) *
        gaussPdf (updMean C P R m y) (updCov C P R) x :=
  update_bayes_density C P R (posSemidef_isSymm hP.posSemidef) (posSemidef_isSymm hR.posSemidef) hP.det_pos hR.det_pos
    (innovCov_posDef C P R hP.posSemidef hR).det_pos m x y

end density

/-! ## the whole run of the filter -/

section run
variable (A Q : Matrix n n ℝ) (C : Matrix p n ℝ) (R : Matrix p p ℝ)

/-- For `P0`, `Q` positive semidefinite and `R` positive definite, every filtered covariance
    returned by `kalman_filter` is positive semidefinite and every innovation covariance the code
    inverts (the first one and the one of each later step) is positive definite, so each `inv` is a
    genuine inverse and each step is covered by the conditioning theorems. -/
theorem kalmanFilter_posSemidef (hQ : Q.PosSemidef) (hR : R.PosDef) (m0 : n → ℝ)
    (P0 : Matrix n n ℝ) (h0 : P0.PosSemidef) (ys : List (p → ℝ)) :
    (innovCov C P0 R).PosDef ∧
    ∀ s ∈ kalmanFilter A Q C R m0 P0 ys,
      s.2.PosSemidef ∧ (innovCov C (predCov A s.2 Q) R).PosDef := by
  refine ⟨innovCov_posDef C P0 R h0 hR, fun s hs => ?_⟩
  have h := kalmanFilter_invariant A Q C R Matrix.PosSemidef
    (fun P hP => predCov_posSemidef A P Q hP hQ)
    (fun P hP => updCov_posSemidef C P R hP hR.posSemidef
      (posDef_isUnit_det (innovCov_posDef C P R hP hR))) m0 P0 h0 ys s hs
  exact ⟨h, innovCov_posDef C _ R (predCov_posSemidef A _ Q h hQ) hR⟩

/-- with `P0`, `Q`, `R` positive definite every filtered covariance is positive definite -/
theorem kalmanFilter_posDef (hQ : Q.PosDef) (hR : R.PosDef) (m0 : n → ℝ)
    (P0 : Matrix n n ℝ) (h0 : P0.PosDef) (ys : List (p → ℝ)) :
    ∀ s ∈ kalmanFilter A Q C R m0 P0 ys, s.2.PosDef :=
  kalmanFilter_invariant A Q C R Matrix.PosDef
    (fun P hP => predCov_posDef A P Q hP.posSemidef hQ)
    (fun P hP => updCov_posDef C P R hP hR) m0 P0 h0 ys

end run

/-! ## A concrete real instance (non-vacuity of the positive-definite theorems) -/

namespace ExampleReal

def P : Matrix (Fin 2) (Fin 2) ℝ := diagonal ![2, 3]
def C : Matrix (Fin 1) (Fin 2) ℝ := !![1, 1]
def R : Matrix (Fin 1) (Fin 1) ℝ := 1

theorem P_posDef : P.PosDef := by
  unfold P
  rw [posDef_diagonal_iff]
  intro i; fin_cases i <;> simp

theorem R_posDef : R.PosDef := PosDef.one

end ExampleReal

end Genjax.KalmanMatrix
