import GenjaxModel.Proofs.GfiValuesUpdate
/-!
  C03: the round trip `update` → `update` back with the discard and the old arguments restores the
  original choices with the negated weight (specification variant of `Cond.update`).

  Ingredients: the discard holds the old value of every address (`update_discard_eq_old`), constrained
  addresses hold the constraint (`update_constrained_hold_new`), the leaf domain is preserved
  (`update_leaf_domain`), and extensionality of choice maps: two maps with the same skeleton and the
  same value at every path are equal, provided no dictionary binds an address twice (`CM.ext_leafAt`);
  the choice map of every canonical coherent trace has that property (`canon_coh_nodup`).
-/
namespace Genjax

/-! ## choice maps without duplicate bindings, and extensionality -/

mutual
  /-- no dictionary of the map binds an address twice -/
  def CM.nodup : CM → Prop
    | .leaf _ => True
    | .node l => l.nodupN
    | .lanes l => l.nodupL
  def CML.nodupN : CML → Prop
    | .nil => True
    | .cons k v rest => rest.find? k = none ∧ v.nodup ∧ rest.nodupN
  def CML.nodupL : CML → Prop
    | .nil => True
    | .cons _ v rest => v.nodup ∧ rest.nodupL
end

theorem CML.find?_none_of_skel {a b : CML} (h : a.skel = b.skel) (k : String)
    (ha : a.find? k = none) : b.find? k = none := by
  have h1 := CML.find?_skel a k
  have h2 := CML.find?_skel b k
  rw [h, h2, ha] at h1
  simpa using h1

mutual
  /-- extensionality: same skeleton, same value at every path, no duplicate bindings -/
  theorem CM.ext_leafAt : (x y : CM) → x.skel = y.skel → x.nodup →
      (∀ p, x.leafAt p = y.leafAt p) → x = y
    | .leaf v, y, hs, _, h => by
        cases y <;> simp only [CM.skel, reduceCtorEq] at hs
        have := h []
        simp only [CM.leafAt, Option.some.injEq] at this
        rw [this]
    | .node a, y, hs, hn, h => by
        cases y <;> simp only [CM.skel, reduceCtorEq, CM.node.injEq] at hs
        rename_i b
        simp only [CM.nodup] at hn
        rw [CML.extN a b hs hn (fun k p => by simpa only [CM.leafAt] using h (.key k :: p))]
    | .lanes a, y, hs, hn, h => by
        cases y <;> simp only [CM.skel, reduceCtorEq, CM.lanes.injEq] at hs
        rename_i b
        simp only [CM.nodup] at hn
        rw [CML.extL a b hs hn (fun i p => by simpa only [CM.leafAt] using h (.idx i :: p))]
  theorem CML.extN : (a b : CML) → a.skel = b.skel → a.nodupN →
      (∀ k p, a.leafAtKey k p = b.leafAtKey k p) → a = b
    | .nil, b, hs, _, _ => by
        cases b <;> simp only [CML.skel, reduceCtorEq] at hs
        rfl
    | .cons k v rest, b, hs, hn, h => by
        cases b <;> simp only [CML.skel, reduceCtorEq, CML.cons.injEq] at hs
        rename_i k' v' rest'
        obtain ⟨rfl, hv, hr⟩ := hs
        simp only [CML.nodupN] at hn
        obtain ⟨hk, hnv, hnr⟩ := hn
        have e1 : v = v' := CM.ext_leafAt v v' hv hnv (fun p => by
          have := h k p
          simpa only [CML.leafAtKey, if_true] using this)
        have e2 : rest = rest' := CML.extN rest rest' hr hnr (fun k2 p => by
          by_cases hk2 : k2 = k
          · subst hk2
            rw [CML.leafAtKey_eq, CML.leafAtKey_eq, hk, CML.find?_none_of_skel hr k2 hk]
          · have := h k2 p
            simpa only [CML.leafAtKey, hk2, if_false] using this)
        rw [e1, e2]
  theorem CML.extL : (a b : CML) → a.skel = b.skel → a.nodupL →
      (∀ i p, a.leafAtIdx i p = b.leafAtIdx i p) → a = b
    | .nil, b, hs, _, _ => by
        cases b <;> simp only [CML.skel, reduceCtorEq] at hs
        rfl
    | .cons k v rest, b, hs, hn, h => by
        cases b <;> simp only [CML.skel, reduceCtorEq, CML.cons.injEq] at hs
        rename_i k' v' rest'
        obtain ⟨rfl, hv, hr⟩ := hs
        simp only [CML.nodupL] at hn
        obtain ⟨hnv, hnr⟩ := hn
        have e1 : v = v' := CM.ext_leafAt v v' hv hnv (fun p => by
          simpa only [CML.leafAtIdx] using h 0 p)
        have e2 : rest = rest' := CML.extL rest rest' hr hnr (fun i p => by
          simpa only [CML.leafAtIdx] using h (i + 1) p)
        rw [e1, e2]
end

/-! ## merging preserves the absence of duplicate bindings -/

theorem CML.find?_erase_self_none : (b : CML) → (k : String) → b.nodupN →
    (b.erase k).find? k = none
  | .nil, k, _ => by simp [CML.erase, CML.find?]
  | .cons k0 v rest, k, hn => by
      simp only [CML.nodupN] at hn
      simp only [CML.erase]
      split
      · rename_i he; subst he; exact hn.1
      · rename_i hne
        simp only [CML.find?, hne, if_false]
        exact CML.find?_erase_self_none rest k hn.2.2

theorem CML.find?_erase_none : (b : CML) → (k k' : String) → b.find? k' = none →
    (b.erase k).find? k' = none
  | .nil, k, k', _ => by simp [CML.erase, CML.find?]
  | .cons k0 v rest, k, k', h => by
      simp only [CML.find?] at h
      split at h
      · simp at h
      rename_i hne
      simp only [CML.erase]
      split
      · exact h
      · simp only [CML.find?, hne, if_false]
        exact CML.find?_erase_none rest k k' h

theorem CML.erase_nodupN : (b : CML) → (k : String) → b.nodupN → (b.erase k).nodupN
  | .nil, k, _ => by simp [CML.erase, CML.nodupN]
  | .cons k0 v rest, k, hn => by
      simp only [CML.nodupN] at hn
      simp only [CML.erase]
      split
      · exact hn.2.2
      · simp only [CML.nodupN]
        exact ⟨CML.find?_erase_none rest k k0 hn.1, hn.2.1, CML.erase_nodupN rest k hn.2.2⟩

theorem CML.find?_nodup : (b : CML) → (k : String) → (v : CM) → b.nodupN → b.find? k = some v →
    v.nodup
  | .nil, k, v, _, h => by simp [CML.find?] at h
  | .cons k0 v0 rest, k, v, hn, h => by
      simp only [CML.nodupN] at hn
      simp only [CML.find?] at h
      split at h
      · simp only [Option.some.injEq] at h; subst h; exact hn.2.1
      · exact CML.find?_nodup rest k v hn.2.2 h

theorem CML.mergeCheck_find_none (c : Bool) : (a b m : CML) → CML.mergeCheck c a b = some m →
    ∀ k, a.find? k = none → b.find? k = none → m.find? k = none
  | .nil, b, m, h, k, _, hb => by
      simp only [CML.mergeCheck, Option.some.injEq] at h
      subst h; exact hb
  | .cons k0 v rest, b, m, h, k, ha, hb => by
      simp only [CML.find?] at ha
      split at ha
      · simp at ha
      rename_i hne
      simp only [CML.mergeCheck] at h
      split at h
      · simp only [Option.bind_eq_bind, Option.bind_eq_some_iff, Option.pure_def,
          Option.some.injEq] at h
        obtain ⟨mv, _, r, hr, rfl⟩ := h
        simp only [CML.find?, hne, if_false]
        exact CML.mergeCheck_find_none c rest _ r hr k ha (CML.find?_erase_none b k0 k hb)
      · simp only [Option.bind_eq_bind, Option.bind_eq_some_iff, Option.pure_def,
          Option.some.injEq] at h
        obtain ⟨r, hr, rfl⟩ := h
        simp only [CML.find?, hne, if_false]
        exact CML.mergeCheck_find_none c rest b r hr k ha hb

mutual
  theorem CM.mergeCheck_nodup (c : Bool) : (a b m : CM) → CM.mergeCheck c a b = some m →
      a.nodup → b.nodup → m.nodup
    | .leaf va, b, m, h, _, _ => by
        cases b <;> simp only [CM.mergeCheck, Option.some.injEq, reduceCtorEq] at h
        subst h; simp only [CM.nodup]
    | .node a, b, m, h, ha, hb => by
        cases b <;> simp only [CM.mergeCheck, Option.map_eq_some_iff, reduceCtorEq] at h
        obtain ⟨m', hm', rfl⟩ := h
        simp only [CM.nodup] at ha hb ⊢
        exact CML.mergeCheck_nodup c a _ m' hm' ha hb
    | .lanes a, b, m, h, ha, hb => by
        cases b <;> simp only [CM.mergeCheck, Option.map_eq_some_iff, reduceCtorEq] at h
        obtain ⟨m', hm', rfl⟩ := h
        simp only [CM.nodup] at ha hb ⊢
        exact CML.mergeLanes_nodup c a _ m' hm' ha hb
  theorem CML.mergeCheck_nodup (c : Bool) : (a b m : CML) → CML.mergeCheck c a b = some m →
      a.nodupN → b.nodupN → m.nodupN
    | .nil, b, m, h, _, hb => by
        simp only [CML.mergeCheck, Option.some.injEq] at h
        subst h; exact hb
    | .cons k v rest, b, m, h, ha, hb => by
        simp only [CML.nodupN] at ha
        obtain ⟨hk, hv, hr⟩ := ha
        simp only [CML.mergeCheck] at h
        split at h
        · rename_i v' hv'
          simp only [Option.bind_eq_bind, Option.bind_eq_some_iff, Option.pure_def,
            Option.some.injEq] at h
          obtain ⟨mv, hmv, r, hrr, rfl⟩ := h
          simp only [CML.nodupN]
          exact ⟨CML.mergeCheck_find_none c rest _ r hrr k hk (CML.find?_erase_self_none b k hb),
            CM.mergeCheck_nodup c v v' mv hmv hv (CML.find?_nodup b k v' hb hv'),
            CML.mergeCheck_nodup c rest _ r hrr hr (CML.erase_nodupN b k hb)⟩
        · rename_i hv'
          simp only [Option.bind_eq_bind, Option.bind_eq_some_iff, Option.pure_def,
            Option.some.injEq] at h
          obtain ⟨r, hrr, rfl⟩ := h
          simp only [CML.nodupN]
          exact ⟨CML.mergeCheck_find_none c rest b r hrr k hk hv', hv,
            CML.mergeCheck_nodup c rest b r hrr hr hb⟩
  theorem CML.mergeLanes_nodup (c : Bool) : (a b m : CML) → CML.mergeLanes c a b = some m →
      a.nodupL → b.nodupL → m.nodupL
    | .nil, b, m, h, _, _ => by
        cases b <;> simp only [CML.mergeLanes, Option.some.injEq, reduceCtorEq] at h
        subst h; simp only [CML.nodupL]
    | .cons k v rest, b, m, h, ha, hb => by
        cases b with
        | nil => simp [CML.mergeLanes] at h
        | cons k' v' rest' =>
          simp only [CML.mergeLanes, Option.bind_eq_bind, Option.bind_eq_some_iff, Option.pure_def,
            Option.some.injEq] at h
          obtain ⟨mv, hmv, r, hr, rfl⟩ := h
          simp only [CML.nodupL] at ha hb ⊢
          exact ⟨CM.mergeCheck_nodup c v v' mv hmv ha.1 hb.1,
            CML.mergeLanes_nodup c rest rest' r hr ha.2 hb.2⟩
end

/-! ## the choice map of a canonical coherent trace binds no address twice -/

section Nodup
variable {R : Type} [Zero R] [Add R] [Neg R] (P : Prims R)

theorem Body.site_none_of_not_mem : (b : Body) → (a : String) → a ∉ b.addrs → b.site a = none
  | .ret _, _, _ => rfl
  | .call addr g es rest, a, h => by
      simp only [Body.addrs, List.mem_cons, not_or] at h
      simp only [Body.site, h.1, if_false]
      exact Body.site_none_of_not_mem rest a h.2

omit [Zero R] [Add R] [Neg R] in
private theorem lanes_nodup (p : Tr R → Prop) (coh : List Val → Tr R → Prop)
    (axes : List Bool) (args : List Val)
    (h : ∀ a t, p t → coh a t → ∀ y, t.choices = some y → y.nodup) :
    ∀ (l : TrL R) (i : Nat), lanesCanon p l → lanesCoh coh axes args i l.toList →
      ∀ xl, l.choices = some xl → xl.nodupL
  | .nil, i, _, _, xl, hx => by
      simp only [TrL.choices, Option.some.injEq] at hx
      subst hx; simp only [CML.nodupL]
  | .cons k t rest, i, hc, hl, xl, hx => by
      simp only [lanesCanon] at hc
      simp only [TrL.toList, lanesCoh] at hl
      simp only [TrL.choices, Option.bind_eq_bind, Option.bind_eq_some_iff, Option.pure_def,
        Option.some.injEq] at hx
      obtain ⟨c, hcc, r, hr, rfl⟩ := hx
      simp only [CML.nodupL]
      exact ⟨h _ t hc.2.1 hl.1 c hcc, lanes_nodup p coh axes args h rest (i + 1) hc.2.2 hl.2 r hr⟩

omit [Zero R] [Add R] [Neg R] in
private theorem steps_nodup (p : Tr R → Prop) (coh : List Val → Tr R → Prop) (xs : Val)
    (h : ∀ a t, p t → coh a t → ∀ y, t.choices = some y → y.nodup) :
    ∀ (l : TrL R) (c : Val) (i : Nat) (c' : Val), lanesCanon p l →
      stepsCoh coh xs c i l.toList c' → ∀ xl, l.choices = some xl → xl.nodupL
  | .nil, c, i, c', _, _, xl, hx => by
      simp only [TrL.choices, Option.some.injEq] at hx
      subst hx; simp only [CML.nodupL]
  | .cons k t rest, c, i, c', hc, hl, xl, hx => by
      simp only [lanesCanon] at hc
      simp only [TrL.toList, stepsCoh] at hl
      simp only [TrL.choices, Option.bind_eq_bind, Option.bind_eq_some_iff, Option.pure_def,
        Option.some.injEq] at hx
      obtain ⟨cc, hcc, r, hr, rfl⟩ := hx
      simp only [CML.nodupL]
      exact ⟨h _ t hc.2.1 hl.1 cc hcc,
        steps_nodup p coh xs h rest _ (i + 1) c' hc.2.2 hl.2 r hr⟩

mutual
  theorem canon_coh_nodup_gf : (g : GF) → ∀ (args : List Val) (t : Tr R),
      g.Canon t → g.Coh P args t → ∀ y, t.choices = some y → y.nodup
    | .dist d, args, t, hc, h, y, hy => by
        cases t <;> simp only [GF.Coh] at h
        simp only [Tr.choices, Option.some.injEq] at hy
        subst hy; simp only [CM.nodup]
    | .fn body, args, t, hc, h, y, hy => by
        cases t <;> simp only [GF.Coh] at h
        rename_i subs r s
        simp only [GF.Canon] at hc
        simp only [Tr.choices, Option.map_eq_some_iff] at hy
        obtain ⟨xl, hxl, rfl⟩ := hy
        simp only [CM.nodup]
        exact canon_coh_nodup_body body args subs subs hc h.1 (fun _ _ => rfl) xl hxl
    | .vmap g axes n, args, t, hc, h, y, hy => by
        cases t <;> simp only [GF.Coh] at h
        rename_i lanes
        simp only [GF.Canon] at hc
        simp only [Tr.choices, Option.map_eq_some_iff] at hy
        obtain ⟨xl, hxl, rfl⟩ := hy
        simp only [CM.nodup]
        exact lanes_nodup (fun t => g.Canon t) (fun a t => g.Coh P a t) axes args
          (fun a t hp hq => canon_coh_nodup_gf g a t hp hq) lanes 0 hc h.2 xl hxl
    | .scan g n, args, t, hc, h, y, hy => by
        cases t <;> simp only [GF.Coh] at h
        rename_i steps c
        simp only [GF.Canon] at hc
        simp only [Tr.choices, Option.map_eq_some_iff] at hy
        obtain ⟨xl, hxl, rfl⟩ := hy
        simp only [CM.nodup]
        exact steps_nodup (fun t => g.Canon t) (fun a t => g.Coh P a t) (args.getD 1 .nil)
          (fun a t hp hq => canon_coh_nodup_gf g a t hp hq) steps _ 0 c hc h.2 xl hxl
    | .cond tg fg, args, t, hc, h, y, hy => by
        cases t <;> simp only [GF.Coh] at h
        rename_i c a b
        simp only [GF.Canon] at hc
        simp only [Tr.choices, Option.bind_eq_bind, Option.bind_eq_some_iff] at hy
        obtain ⟨ya, hya, yb, hyb, hm⟩ := hy
        exact CM.mergeCheck_nodup c ya yb y hm
          (canon_coh_nodup_gf tg _ a hc.1 h.2.1 ya hya)
          (canon_coh_nodup_gf fg _ b hc.2 h.2.2 yb hyb)
  theorem canon_coh_nodup_body : (b : Body) → ∀ (env : List Val) (full tl : TrL R),
      b.CanonL tl → b.Coh P env full → (∀ a ∈ b.addrs, full.find? a = tl.find? a) →
      ∀ xl, tl.choices = some xl → xl.nodupN
    | .ret e, env, full, tl, hc, h, hf, xl, hx => by
        cases tl <;> simp only [Body.CanonL] at hc
        simp only [TrL.choices, Option.some.injEq] at hx
        subst hx; simp only [CML.nodupN]
    | .call addr g es rest, env, full, tl, hc, h, hf, xl, hx => by
        cases tl <;> simp only [Body.CanonL] at hc
        rename_i k t tl'
        obtain ⟨rfl, hgc, hrc⟩ := hc
        simp only [Body.Coh] at h
        obtain ⟨hnot, t', hft, hgh, hrh⟩ := h
        have : full.find? k = some t := by
          rw [hf k (by simp [Body.addrs])]; simp [TrL.find?]
        rw [this] at hft
        cases hft
        simp only [TrL.choices, Option.bind_eq_bind, Option.bind_eq_some_iff, Option.pure_def,
          Option.some.injEq] at hx
        obtain ⟨c, hcc, r, hr, rfl⟩ := hx
        simp only [CML.nodupN]
        refine ⟨?_, canon_coh_nodup_gf g _ t hgc hgh c hcc, ?_⟩
        · rw [TrL.choices_find_eq tl' r hr k,
            Body.canonL_site_none rest tl' hrc k (Body.site_none_of_not_mem rest k hnot)]
          rfl
        · exact canon_coh_nodup_body rest _ full tl' hrc hrh (by
            intro a ha
            rw [hf a (by simp [Body.addrs, ha])]
            have : a ≠ k := by rintro rfl; exact hnot ha
            simp [TrL.find?, this]) r hr
end

/-- the choice map of a canonical coherent trace binds no address twice -/
theorem canon_coh_nodup (g : GF) (args : List Val) (t : Tr R) (hc : g.Canon t)
    (h : g.Coh P args t) (y : CM) (hy : t.choices = some y) : y.nodup :=
  canon_coh_nodup_gf P g args t hc h y hy

end Nodup

/-! ## the round trip -/

section Roundtrip
variable {R : Type} [AddCommGroup R] (P : Prims R) (cfg : Cfg)

/-- C03 (specification variant of `Cond.update`: branch-switch correction and visible discard):
    update with any constraint and any new arguments, then update the result with the returned
    discard and the old arguments: the final trace has the ORIGINAL choice map and the second weight
    is the negated first weight — every program (Cond at any depth, also across branch switches),
    every canonical coherent trace that has a choice map. -/
theorem update_roundtrip (hsw : cfg.condSwitchCorrection = true)
    (hdv : cfg.condDiscardVisible = true)
    (g : GF) (args0 : List Val) (t : Tr R) (hcan : g.Canon t) (hcoh : g.Coh P args0 t)
    (y : CM) (hy : t.choices = some y)
    (x : Option CM) (args : List Val) (t' : Tr R) (w : R) (d : Option CM)
    (h1 : g.update P cfg t x args = some (t', w, d))
    (t'' : Tr R) (w2 : R) (d2 : Option CM)
    (h2 : g.update P cfg t' d args0 = some (t'', w2, d2)) :
    t''.choices = some y ∧ w2 = -w := by
  have hsk : t.choices.map CM.skel = g.skel := canon_choices_skel P g args0 t hcan hcoh
  have hsk' := update_choices_skel P cfg g t x args t' w d h1
  have hsk'' := update_choices_skel P cfg g t' d args0 t'' w2 d2 h2
  rw [hy] at hsk
  obtain ⟨y', hy'⟩ := choices_of_skel hsk' (by rw [← hsk]; rfl)
  obtain ⟨y'', hy''⟩ := choices_of_skel hsk'' (by rw [← hsk]; rfl)
  have hcan' := update_canon P cfg g t x args t' w d h1
  have hcan'' := update_canon P cfg g t' d args0 t'' w2 d2 h2
  have hcoh' := update_coh P cfg g t x args t' w d h1
  have hcoh'' := update_coh P cfg g t' d args0 t'' w2 d2 h2
  have hleaf : ∀ p, y''.leafAt p = y.leafAt p := by
    intro p
    have hd := update_discard_eq_old P cfg hdv g t x args t' w d h1 hcan y y' hy hy' p
    have dom1 := update_leaf_domain P cfg g t x args t' w d h1 hcan y y' hy hy' p
    have dom2 := update_leaf_domain P cfg g t' d args0 t'' w2 d2 h2 hcan' y' y'' hy' hy'' p
    cases e0 : y.leafAt p with
    | none =>
      rw [e0] at dom1
      rw [dom1] at dom2
      cases e2 : y''.leafAt p with
      | none => rfl
      | some v => rw [e2] at dom2; simp at dom2
    | some v =>
      rw [e0] at dom1 hd
      rw [dom1] at dom2
      cases e2 : y''.leafAt p with
      | none => rw [e2] at dom2; simp at dom2
      | some v2 =>
        rw [update_constrained_hold_new P cfg g t' d args0 t'' w2 d2 h2 y'' hy'' p v hd v2 e2]
  have hskel : y''.skel = y.skel := by
    rw [hy''] at hsk''
    simp only [Option.map_some] at hsk hsk''
    rw [← hsk] at hsk''
    exact Option.some.inj hsk''
  have hyy : y'' = y := CM.ext_leafAt y'' y hskel
    (canon_coh_nodup P g args0 t'' hcan'' hcoh'' y'' hy'') hleaf
  subst hyy
  refine ⟨hy'', ?_⟩
  have e1 := update_weight_spec P cfg hsw g args0 t hcoh x args t' w d h1
  have e2 := update_weight_spec P cfg hsw g args t' hcoh' d args0 t'' w2 d2 h2
  have a1 := coh_assess P g args0 t hcoh y'' hy
  have a2 := coh_assess P g args0 t'' hcoh'' y'' hy''
  rw [a1] at a2
  simp only [Option.some.injEq, Prod.mk.injEq] at a2
  have hs : t.score = t''.score := neg_injective a2.1
  rw [e1, e2, hs]; abel

end Roundtrip

end Genjax
