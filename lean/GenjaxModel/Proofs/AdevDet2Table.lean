import GenjaxModel.Proofs.AdevDet2Main
import GenjaxModel.Model.AdevDet2IO
/-!
  C15, richer language: every entry of the standard primitive table is lawful (for every choice of
  the abstract functions), hence "ADEV = forward-mode AD" holds for every program over the table
  without hypotheses on the primitives; Lean witnesses of the seeded regressions.
-/
set_option linter.unusedSectionVars false
namespace Genjax.Adev2
variable {K : Type} [Field K] [LinearOrder K]

theorem getD_mat (ts : List (Tan K)) (i : Nat) : (ts.getD i .zero).mat = (ts.map Tan.mat).getD i 0 := by
  simp only [List.getD_eq_getElem?_getD, List.getElem?_map]
  cases ts[i]? <;> rfl

theorem getD_zero_of_all (ds : List K) (h : ∀ d ∈ ds, d = 0) (i : Nat) : ds.getD i 0 = 0 := by
  simp only [List.getD_eq_getElem?_getD]
  cases hi : ds[i]? with
  | none => rfl
  | some y => simpa using h y (List.mem_of_getElem? hi)

/-- a table entry whose tangent rule computes - reading symbolic zeros as 0 - a function `lin` of the
    materialised tangents that maps zeros to zeros is lawful -/
theorem mk'_lawful (val : List (Val K) → List (Val K)) (rule : List (Val K) → List (Tan K) → List (Tan K))
    (lin : List (Val K) → List K → List K)
    (h1 : ∀ vs ts, (rule vs ts).map Tan.mat = lin vs (ts.map Tan.mat))
    (h2 : ∀ vs ds, (∀ d ∈ ds, d = 0) → ∀ x ∈ lin vs ds, x = 0)
    (h3 : ∀ vs ds, (lin vs ds).length = (val vs).length)
    (h4 : ∀ vs ts, ∀ x ∈ List.zip (val vs) (rule vs ts), x.1.isDis = true → x.2 = Tan.zero) :
    (Prim.mk' val rule).Lawful where
  primal _ _ _ := rfl
  len vs ts _ := by
    have := congrArg List.length (h1 vs ts)
    simp only [List.length_map] at this
    simp only [Prim.mk', this, h3]
  zeroOk vs ts _ := by
    simp only [Prim.mk']
    rw [h1, h1, map_tan_mat]
  zeroLin vs ts _ hz t ht := by
    simp only [Prim.mk'] at ht
    have hm : t.mat ∈ lin vs (ts.map Tan.mat) := by
      rw [← h1]; exact List.mem_map_of_mem ht
    refine h2 vs _ ?_ _ hm
    intro d hd
    simp only [List.mem_map] at hd
    obtain ⟨t', ht', rfl⟩ := hd
    exact hz t' ht'
  disZero vs ts _ := h4 vs ts

theorem zip_flt_not_dis (v : K) (l : List (Tan K)) :
    ∀ x ∈ List.zip [Val.flt v] l, x.1.isDis = true → x.2 = Tan.zero := by
  intro x hx hd
  cases l with
  | nil => simp at hx
  | cons t l =>
    simp only [List.zip_cons_cons, List.zip_nil_left, List.mem_singleton] at hx
    subst hx
    simp [Val.isDis] at hd

theorem zip_zero (vs : List (Val K)) :
    ∀ x ∈ List.zip vs [Tan.zero (K := K)], x.1.isDis = true → x.2 = Tan.zero := by
  intro x hx _
  cases vs with
  | nil => simp at hx
  | cons v vs =>
    simp only [List.zip_cons_cons, List.zip_nil_right, List.mem_singleton] at hx
    subst hx; rfl

theorem Tan.mat_select (c : Bool) (a b : Tan K) : (Tan.select c a b).mat = if c then a.mat else b.mat := by
  cases a <;> cases b <;> simp [Tan.select]

/-- the zero-derivative entries: rule `[zero]`, one output -/
theorem mk'_zero_lawful (f : List (Val K) → Val K) :
    (Prim.mk' (fun vs => [f vs]) (fun _ _ => [Tan.zero (K := K)])).Lawful :=
  mk'_lawful _ _ (fun _ _ => [0]) (fun _ _ => rfl) (fun _ _ _ x hx => by simpa using hx)
    (fun _ _ => rfl) (fun vs _ => zip_zero _)

/-- the standard table is lawful, whatever the abstract functions are -/
theorem Op.prim_lawful (T : Table K) : ∀ o : Op K, (Op.prim T o).Lawful
  | .const c => mk'_zero_lawful _
  | .iconst n => mk'_zero_lawful _
  | .step i => mk'_zero_lawful _
  | .gt => mk'_zero_lawful _
  | .disc i => mk'_zero_lawful _
  | .iadd => mk'_zero_lawful _
  | .isub => mk'_zero_lawful _
  | .imul => mk'_zero_lawful _
  | .igt => mk'_zero_lawful _
  | .toFloat => mk'_zero_lawful _
  | .add => mk'_lawful _ _ (fun _ ds => [ds.getD 0 0 + ds.getD 1 0])
      (fun vs ts => by simp only [List.map_cons, List.map_nil, Tan.mat_add, getD_mat])
      (fun vs ds h x hx => by
        simp only [List.mem_singleton] at hx; subst hx; simp only [getD_zero_of_all ds h]; simp)
      (fun _ _ => rfl) (fun vs ts => zip_flt_not_dis _ _)
  | .sub => mk'_lawful _ _ (fun _ ds => [ds.getD 0 0 + -ds.getD 1 0])
      (fun vs ts => by simp only [List.map_cons, List.map_nil, Tan.mat_add, Tan.mat_neg, getD_mat])
      (fun vs ds h x hx => by
        simp only [List.mem_singleton] at hx; subst hx; simp only [getD_zero_of_all ds h]; simp)
      (fun _ _ => rfl) (fun vs ts => zip_flt_not_dis _ _)
  | .mul => mk'_lawful _ _
      (fun vs ds => [(vs.getD 1 default).num * ds.getD 0 0 + (vs.getD 0 default).num * ds.getD 1 0])
      (fun vs ts => by simp only [List.map_cons, List.map_nil, Tan.mat_add, Tan.mat_scale, getD_mat])
      (fun vs ds h x hx => by
        simp only [List.mem_singleton] at hx; subst hx; simp only [getD_zero_of_all ds h]; simp)
      (fun _ _ => rfl) (fun vs ts => zip_flt_not_dis _ _)
  | .div => mk'_lawful _ _
      (fun vs ds => [1 / (vs.getD 1 default).num * ds.getD 0 0 +
          -((vs.getD 0 default).num / ((vs.getD 1 default).num * (vs.getD 1 default).num)) * ds.getD 1 0])
      (fun vs ts => by simp only [List.map_cons, List.map_nil, Tan.mat_add, Tan.mat_scale, getD_mat])
      (fun vs ds h x hx => by
        simp only [List.mem_singleton] at hx; subst hx; simp only [getD_zero_of_all ds h]; simp)
      (fun _ _ => rfl) (fun vs ts => zip_flt_not_dis _ _)
  | .neg => mk'_lawful _ _ (fun _ ds => [-ds.getD 0 0])
      (fun vs ts => by simp only [List.map_cons, List.map_nil, Tan.mat_neg, getD_mat])
      (fun vs ds h x hx => by
        simp only [List.mem_singleton] at hx; subst hx; simp only [getD_zero_of_all ds h]; simp)
      (fun _ _ => rfl) (fun vs ts => zip_flt_not_dis _ _)
  | .un i => mk'_lawful _ _ (fun vs ds => [T.un' i (vs.getD 0 default).num * ds.getD 0 0])
      (fun vs ts => by simp only [List.map_cons, List.map_nil, Tan.mat_scale, getD_mat])
      (fun vs ds h x hx => by
        simp only [List.mem_singleton] at hx; subst hx; simp only [getD_zero_of_all ds h]; simp)
      (fun _ _ => rfl) (fun vs ts => zip_flt_not_dis _ _)
  | .select => mk'_lawful _ _
      (fun vs ds => [if truthy (vs.getD 0 default) then ds.getD 1 0 else ds.getD 2 0])
      (fun vs ts => by simp only [List.map_cons, List.map_nil, Tan.mat_select, getD_mat])
      (fun vs ds h x hx => by
        simp only [List.mem_singleton] at hx; subst hx; simp only [getD_zero_of_all ds h]; simp)
      (fun _ _ => rfl) (fun vs ts => zip_flt_not_dis _ _)
  | .mixed i => mk'_lawful _ _ (fun vs ds => [0, T.mixF' i (vs.getD 0 default).num * ds.getD 0 0])
      (fun vs ts => by simp only [List.map_cons, List.map_nil, Tan.mat_scale, Tan.mat_zero, getD_mat])
      (fun vs ds h x hx => by
        simp only [List.mem_cons, List.not_mem_nil, or_false] at hx
        rcases hx with rfl | rfl
        · rfl
        · simp only [getD_zero_of_all ds h]; simp)
      (fun _ _ => rfl)
      (fun vs ts x hx hd => by
        simp only [List.zip_cons_cons, List.zip_nil_left, List.mem_cons, List.not_mem_nil, or_false] at hx
        rcases hx with rfl | rfl
        · rfl
        · simp [Val.isDis] at hd)

/-- **ADEV = forward-mode AD for every program over the standard table** (arithmetic, division,
    abstract smooth / piecewise-constant / discretising functions, select, comparisons, integer
    arithmetic, int→float conversion, mixed two-output primitives, `call`, `fori`, `cond`), for every
    choice of the abstract functions, with no hypothesis on the primitives -/
theorem adev2_eq_jvp_table (T : Table K) (cfg : Cfg) (hc : cfg.Good) (p : Prog (Op K)) (out : Nat)
    (env : List (DV K)) (h : WFJ (env.map DV.toRD)) :
    (adevRun cfg (Op.prim T) p out env).toRD = jvpRun (Op.prim T) p out (env.map DV.toRD) :=
  adev2_eq_jvp cfg hc (Op.prim T) (Op.prim_lawful T) p out env h

theorem discrete_outputs_have_zero_tangent_table (T : Table K) (cfg : Cfg) (p : Prog (Op K)) (out : Nat)
    (env : List (DV K)) (h : WFA env) :
    WFA (runAProg cfg (Op.prim T) p env) ∧
      ((adevRun cfg (Op.prim T) p out env).p.isDis = true → (adevRun cfg (Op.prim T) p out env).t = Tan.zero) :=
  discrete_outputs_have_zero_tangent cfg (Op.prim T) (Op.prim_lawful T) p out env h

/-! ### Lean witnesses of the seeded regressions (over `Rat`, the driver's table) -/

/-- `where(x > y, x * y, x - y)`: one `select_n` equation with a discrete and two float operands -/
def whereProg : Prog (Op Rat) := .ofList
  [.prim .gt [0, 1], .prim .mul [0, 1], .prim .sub [0, 1], .prim .select [2, 3, 4]]
def whereEnv : List (DV Rat) := [⟨.flt (3/2), .tan 1⟩, ⟨.flt (3/4), .tan 1⟩]

/-- `fori_loop(0, 3, lambda i, a: a * x + i, 1.0)`: ONE scan equation with carry `(counter, value)` -/
def counterLoopProg : Prog (Op Rat) := .ofList
  [.prim (.iconst 0) [], .prim (.const 1) [],
   .fori 3 [0] [1, 2]
     (.ofList [.prim (.iconst 1) [], .prim .iadd [1, 3], .prim .mul [2, 0], .prim .toFloat [1], .prim .add [5, 6]])
     [4, 7]]
def counterLoopEnv : List (DV Rat) := [⟨.flt (3/2), .tan 1⟩]

/-- a two-output primitive `(floor x, x * x)` (a jitted helper returning `(index, value)`), then
    `value * float(index)` -/
def mixedProg : Prog (Op Rat) := .ofList [.prim (.mixed 1) [0], .prim .toFloat [1], .prim .mul [2, 3]]
def mixedEnv : List (DV Rat) := [⟨.flt (5/2), .tan 1⟩]

/-- seeded C15_2 / C11_1 ("ANY input tangent is a symbolic zero ⇒ primal only"): the interpreter
    returns the right value 9/8 but tangent 0 instead of 9/4 -/
theorem fast_path_any_cex :
    (adevRun Cfg.anyZero (Op.prim Table.rat) whereProg 5 whereEnv).toRD = ⟨.flt (9/8), 0⟩ ∧
    jvpRun (Op.prim Table.rat) whereProg 5 (whereEnv.map DV.toRD) = ⟨.flt (9/8), 9/4⟩ ∧
    (adevRun Cfg.anyZero (Op.prim Table.rat) whereProg 5 whereEnv).toRD ≠
      jvpRun (Op.prim Table.rat) whereProg 5 (whereEnv.map DV.toRD) := by
  decide +kernel

/-- … while the code's condition (ALL inputs) is right on the same program -/
example : (adevRun Cfg.code (Op.prim Table.rat) whereProg 5 whereEnv).toRD = ⟨.flt (9/8), 9/4⟩ := by
  decide +kernel

/-- seeded C15_3 ("any discrete OUTPUT ⇒ primal only"): a loop with carry `(counter, value)` and a
    two-output primitive `(index, value)` lose the tangents of their float outputs -/
theorem mixed_output_primal_only_cex :
    ((adevRun Cfg.discreteOut (Op.prim Table.rat) counterLoopProg 4 counterLoopEnv).toRD = ⟨.flt (55/8), 0⟩ ∧
     jvpRun (Op.prim Table.rat) counterLoopProg 4 (counterLoopEnv.map DV.toRD) = ⟨.flt (55/8), 31/4⟩) ∧
    ((adevRun Cfg.discreteOut (Op.prim Table.rat) mixedProg 4 mixedEnv).toRD = ⟨.flt (25/2), 0⟩ ∧
     jvpRun (Op.prim Table.rat) mixedProg 4 (mixedEnv.map DV.toRD) = ⟨.flt (25/2), 10⟩) := by
  decide +kernel

example : (adevRun Cfg.code (Op.prim Table.rat) counterLoopProg 4 counterLoopEnv).toRD = ⟨.flt (55/8), 31/4⟩ ∧
    (adevRun Cfg.code (Op.prim Table.rat) mixedProg 4 mixedEnv).toRD = ⟨.flt (25/2), 10⟩ := by
  decide +kernel

/-- the seeded ANY-condition also breaks the loop (the counter's tangent is a symbolic zero) -/
theorem fast_path_any_loop_cex :
    (adevRun Cfg.anyZero (Op.prim Table.rat) counterLoopProg 4 counterLoopEnv).toRD = ⟨.flt (55/8), 0⟩ := by
  decide +kernel

/-- the hypotheses of the main theorem hold on these instances -/
example : Cfg.code.Good ∧ Cfg.noFastPath.Good ∧ ¬ Cfg.anyZero.Good ∧ ¬ Cfg.discreteOut.Good := by decide
example : WFJ (whereEnv.map DV.toRD) := by
  intro x hx hd; simp [whereEnv, DV.toRD] at hx; rcases hx with rfl | rfl <;> simp [Val.isDis] at hd
example : WFA counterLoopEnv := by
  intro x hx hd; simp [counterLoopEnv] at hx; subst hx; simp [Val.isDis] at hd

/-- `zeroLin` cannot be dropped from `Prim.Lawful`: a "rule" that returns tangent 1 on zero input
    tangents makes the fast path disagree with the rule -/
def badPrim : Prim Rat := ⟨fun _ => [.flt 0], fun _ _ => ([.flt 0], [.tan 1])⟩
theorem lawful_needed_cex :
    (adevRun Cfg.code (fun _ : Unit => badPrim) (.ofList [.prim () [0]]) 1 [⟨.dis 3, .zero⟩]).toRD ≠
      jvpRun (fun _ : Unit => badPrim) (.ofList [.prim () [0]]) 1 [⟨.dis 3, 0⟩] := by
  decide +kernel

end Genjax.Adev2
