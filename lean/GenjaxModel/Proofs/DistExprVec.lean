import GenjaxModel.Proofs.DistExpr
/-!
# C13 — the vector-argument entries of the spec table (fixed small dimension)

`spec_categorical3`, `spec_multinomial3`, `spec_dirichlet3`, `spec_multivariate_normal2` denote the
general-dimension densities of `Proofs/DistSpec.lean`, `DistSpec3..5.lean` instantiated at
dimension 3 (resp. 2); parameters and point coordinates are flattened in the documented order.
-/
namespace Genjax.DistSpec
open Real DE DistExpr Matrix

theorem spec_categorical3_denotes (θ : Fin 3 → ℝ) (k : Fin 3) :
    spec_categorical3.denote [θ 0, θ 1, θ 2] ((k : ℕ) : ℝ) = categoricalPmf θ k := by
  fin_cases k <;>
    simp [spec_categorical3, denote, denoteV, categoricalPmf, Fin.sum_univ_three]

theorem spec_multinomial3_denotes (n : ℕ) (p : Fin 3 → ℝ) (k : Fin 3 → ℕ) :
    spec_multinomial3.denoteV [(n : ℝ), p 0, p 1, p 2] [(k 0 : ℝ), (k 1 : ℝ), (k 2 : ℝ)] =
      multinomialPmf n p k := by
  have hc : ((k 0 : ℝ) + (k 1 : ℝ) + (k 2 : ℝ)) = ((k 0 + k 1 + k 2 : ℕ) : ℝ) := by push_cast; ring
  by_cases h : k 0 + k 1 + k 2 = n
  · simp only [spec_multinomial3, denoteV, multinomialPmf, Fin.sum_univ_three, Fin.prod_univ_three,
      List.getD_cons_zero, List.getD_cons_succ, hc, h, le_refl, if_true,
      Nat.floor_natCast, Real.rpow_natCast]
  · simp only [spec_multinomial3, denoteV, multinomialPmf, Fin.sum_univ_three,
      List.getD_cons_zero, List.getD_cons_succ, hc, Nat.cast_le, h, if_false, Rat.cast_zero]
    split_ifs with h1 h2
    · exact absurd (le_antisymm h1 h2) h
    · rfl
    · rfl

theorem spec_dirichlet3_denotes (α x : Fin 3 → ℝ) :
    spec_dirichlet3.denoteV [α 0, α 1, α 2] [x 0, x 1, x 2] = dirichletPdf α x := by
  simp [spec_dirichlet3, denoteV, dirichletPdf, Fin.sum_univ_three, Fin.prod_univ_three]

theorem mvn2_quadform (μ x : Fin 2 → ℝ) (S : Matrix (Fin 2) (Fin 2) ℝ) :
    (x - μ) ⬝ᵥ (S⁻¹ *ᵥ (x - μ)) =
      ((x 0 - μ 0) * (S 1 1 * (x 0 - μ 0) - S 0 1 * (x 1 - μ 1)) +
        (x 1 - μ 1) * (S 0 0 * (x 1 - μ 1) - S 1 0 * (x 0 - μ 0))) /
        (S 0 0 * S 1 1 - S 0 1 * S 1 0) := by
  rw [Matrix.inv_def, Ring.inverse_eq_inv', Matrix.det_fin_two, Matrix.adjugate_fin_two]
  simp [dotProduct, mulVec, Fin.sum_univ_two]
  ring

theorem spec_multivariate_normal2_denotes (μ x : Fin 2 → ℝ) (S : Matrix (Fin 2) (Fin 2) ℝ) :
    spec_multivariate_normal2.denoteV [μ 0, μ 1, S 0 0, S 0 1, S 1 0, S 1 1] [x 0, x 1] =
      multivariateNormalPdf μ S x := by
  rw [multivariateNormalPdf, mvn2_quadform, Matrix.det_fin_two]
  simp [spec_multivariate_normal2, mvn2_det, denoteV]

end Genjax.DistSpec
