import GenjaxModel.Proofs.DistSpec2
import Mathlib.MeasureTheory.Constructions.Pi
import Mathlib.MeasureTheory.Measure.Prod
/-!
  C13, part 5: dirichlet(concentration) — documented density Γ(Σα)/∏Γ(α_i) ∏ x_i^{α_i−1} on the
  probability simplex, total mass one in the chart by the first k−1 coordinates.
  Proof: the scaled integral  J_n(α, β, c) = ∫_{y>0, Σy<c} ∏ y_i^{α_i−1} (c−Σy)^{β−1} dy
  = c^{Σα+β−1} ∏Γ(α_i) Γ(β) / Γ(Σα+β)  by induction on n (Fubini on the first coordinate, inner
  integral by the induction hypothesis with c − t, outer integral a scaled Beta integral).
-/
open Real MeasureTheory ProbabilityTheory
open scoped ENNReal

namespace Genjax.DistSpec


/-- scaled Beta integral on (0, c) -/
theorem lintegral_scaled_beta (a b c : ℝ) (ha : 0 < a) (hb : 0 < b) (hc : 0 < c) :
    ∫⁻ t : ℝ, (if 0 < t ∧ t < c then ENNReal.ofReal (t ^ (a - 1) * (c - t) ^ (b - 1)) else 0) =
      ENNReal.ofReal (c ^ (a + b - 1) * (Real.Gamma a * Real.Gamma b / Real.Gamma (a + b))) := by
  have hGa := Real.Gamma_pos_of_pos ha
  have hGb := Real.Gamma_pos_of_pos hb
  have hGab := Real.Gamma_pos_of_pos (add_pos ha hb)
  have haff := lintegral_affine (fun s : ℝ => ENNReal.ofReal (betaPdf a b s)) 0 c hc
  rw [beta_normalised a b ha hb] at haff
  set K : ℝ := c ^ (a + b - 1) * (Real.Gamma a * Real.Gamma b / Real.Gamma (a + b)) with hK
  have hKpos : 0 < K := by
    have := Real.rpow_pos_of_pos hc (a + b - 1)
    positivity
  calc ∫⁻ t : ℝ, (if 0 < t ∧ t < c then ENNReal.ofReal (t ^ (a - 1) * (c - t) ^ (b - 1)) else 0)
      = ∫⁻ t : ℝ, ENNReal.ofReal K *
          (ENNReal.ofReal (1 / c) * ENNReal.ofReal (betaPdf a b ((t - 0) / c))) := by
        refine lintegral_congr (fun t => ?_)
        rw [sub_zero]
        by_cases h : 0 < t ∧ t < c
        · have h' : 0 < t / c ∧ t / c < 1 := ⟨div_pos h.1 hc, (div_lt_one hc).mpr h.2⟩
          rw [if_pos h, ← ENNReal.ofReal_mul (by positivity), ← ENNReal.ofReal_mul hKpos.le]
          congr 1
          simp only [betaPdf, if_pos h']
          have e1 : (t / c) ^ (a - 1) = t ^ (a - 1) / c ^ (a - 1) := Real.div_rpow h.1.le hc.le _
          have e2 : (1 - t / c) ^ (b - 1) = (c - t) ^ (b - 1) / c ^ (b - 1) := by
            have : 1 - t / c = (c - t) / c := by field_simp
            rw [this, Real.div_rpow (by linarith [h.2]) hc.le]
          have e3 : c ^ (a + b - 1) = c ^ (a - 1) * c ^ (b - 1) * c := by
            rw [← Real.rpow_add hc, ← Real.rpow_add_one hc.ne']
            congr 1; ring
          have h1 := Real.rpow_pos_of_pos hc (a - 1)
          have h2 := Real.rpow_pos_of_pos hc (b - 1)
          rw [hK, e1, e2, e3]
          field_simp
        · have h' : ¬ (0 < t / c ∧ t / c < 1) := fun h' =>
            h ⟨by have := h'.1; rwa [div_pos_iff_of_pos_right hc] at this, (div_lt_one hc).mp h'.2⟩
          rw [if_neg h]
          simp only [betaPdf, if_neg h', ENNReal.ofReal_zero, mul_zero]
    _ = ENNReal.ofReal K := by
        rw [lintegral_const_mul' _ _ ENNReal.ofReal_ne_top, haff, mul_one]


/-- integrand of the (unnormalised, scaled) Dirichlet integral over `{y > 0, Σ y < c}` -/
noncomputable def simplexIntegrand (n : ℕ) (α : Fin n → ℝ) (β c : ℝ) (y : Fin n → ℝ) : ℝ≥0∞ :=
  if (∀ i, 0 < y i) ∧ ∑ i, y i < c then
    ENNReal.ofReal ((∏ i, y i ^ (α i - 1)) * (c - ∑ i, y i) ^ (β - 1)) else 0

theorem measurableSet_openSimplex (n : ℕ) (c : ℝ) :
    MeasurableSet {y : Fin n → ℝ | (∀ i, 0 < y i) ∧ ∑ i, y i < c} := by
  have h1 : MeasurableSet {y : Fin n → ℝ | ∀ i, 0 < y i} := by
    have : {y : Fin n → ℝ | ∀ i, 0 < y i} = ⋂ i, {y | 0 < y i} := by ext; simp
    rw [this]
    exact MeasurableSet.iInter (fun i => measurableSet_lt measurable_const (measurable_pi_apply i))
  have h2 : MeasurableSet {y : Fin n → ℝ | ∑ i, y i < c} :=
    measurableSet_lt (Finset.measurable_sum _ (fun i _ => measurable_pi_apply i)) measurable_const
  exact h1.inter h2

theorem measurable_simplexIntegrand (n : ℕ) (α : Fin n → ℝ) (β c : ℝ) :
    Measurable (simplexIntegrand n α β c) := by
  unfold simplexIntegrand
  refine Measurable.ite (measurableSet_openSimplex n c) ?_ measurable_const
  · apply ENNReal.measurable_ofReal.comp
    apply Measurable.mul
    · exact Finset.measurable_prod _ (fun i _ => (measurable_pi_apply i).pow_const _)
    · exact (measurable_const.sub (Finset.measurable_sum _ (fun i _ => measurable_pi_apply i))).pow_const _

theorem lintegral_fin_succ {n : ℕ} (F : (Fin (n + 1) → ℝ) → ℝ≥0∞) (hF : Measurable F) :
    ∫⁻ y, F y = ∫⁻ t : ℝ, ∫⁻ y' : Fin n → ℝ, F (Fin.cons t y') := by
  have hmp := (volume_preserving_piFinSuccAbove (fun _ : Fin (n + 1) => ℝ) 0).symm
  rw [← hmp.lintegral_comp hF, Measure.volume_eq_prod,
    lintegral_prod (fun a => F ((MeasurableEquiv.piFinSuccAbove (fun _ : Fin (n + 1) => ℝ) 0).symm a))
      (hF.comp hmp.measurable).aemeasurable]
  refine lintegral_congr (fun t => lintegral_congr (fun y' => ?_))
  simp [MeasurableEquiv.piFinSuccAbove_symm_apply, Fin.insertNthEquiv, Fin.insertNth_zero']


theorem simplexIntegrand_of_nonpos (n : ℕ) (α : Fin n → ℝ) (β c : ℝ) (hc : c ≤ 0) (y : Fin n → ℝ) :
    simplexIntegrand n α β c y = 0 := by
  unfold simplexIntegrand
  rw [if_neg]
  rintro ⟨hpos, hlt⟩
  have : 0 ≤ ∑ i, y i := Finset.sum_nonneg (fun i _ => (hpos i).le)
  linarith

theorem simplexIntegrand_cons {n : ℕ} (α : Fin (n + 1) → ℝ) (β c t : ℝ) (y' : Fin n → ℝ) :
    simplexIntegrand (n + 1) α β c (Fin.cons t y') =
      if 0 < t then ENNReal.ofReal (t ^ (α 0 - 1)) * simplexIntegrand n (Fin.tail α) β (c - t) y'
      else 0 := by
  unfold simplexIntegrand
  simp only [Fin.forall_fin_succ, Fin.cons_zero, Fin.cons_succ, Fin.sum_univ_succ,
    Fin.prod_univ_succ, Fin.tail]
  by_cases ht : 0 < t
  · rw [if_pos ht]
    by_cases hy : (∀ i, 0 < y' i) ∧ ∑ i, y' i < c - t
    · have hy' : (0 < t ∧ ∀ i, 0 < y' i) ∧ t + ∑ i, y' i < c := ⟨⟨ht, hy.1⟩, by linarith [hy.2]⟩
      rw [if_pos hy, if_pos hy', ← ENNReal.ofReal_mul (by positivity)]
      congr 1
      have : c - (t + ∑ i, y' i) = c - t - ∑ i, y' i := by ring
      rw [this]; ring
    · have hy' : ¬ ((0 < t ∧ ∀ i, 0 < y' i) ∧ t + ∑ i, y' i < c) :=
        fun h => hy ⟨h.1.2, by linarith [h.2]⟩
      rw [if_neg hy, if_neg hy', mul_zero]
  · have hy' : ¬ ((0 < t ∧ ∀ i, 0 < y' i) ∧ t + ∑ i, y' i < c) := fun h => ht h.1.1
    rw [if_neg ht, if_neg hy']

theorem simplex_integral : ∀ (n : ℕ) (α : Fin n → ℝ) (β c : ℝ), (∀ i, 0 < α i) → 0 < β → 0 < c →
    ∫⁻ y, simplexIntegrand n α β c y =
      ENNReal.ofReal (c ^ (∑ i, α i + β - 1) *
        ((∏ i, Real.Gamma (α i)) * Real.Gamma β / Real.Gamma (∑ i, α i + β))) := by
  intro n
  induction n with
  | zero =>
    intro α β c _ hβ hc
    have hG := Real.Gamma_pos_of_pos hβ
    rw [Measure.volume_pi_eq_dirac, lintegral_dirac' _ (measurable_simplexIntegrand 0 α β c)]
    simp [simplexIntegrand, hc, hG.ne']
  | succ n ih =>
    intro α β c hα hβ hc
    set A : ℝ := ∑ i, Fin.tail α i + β with hA
    have hApos : 0 < A := by
      have : 0 ≤ ∑ i, Fin.tail α i := Finset.sum_nonneg (fun i _ => (hα i.succ).le)
      linarith
    set K' : ℝ := (∏ i, Real.Gamma (Fin.tail α i)) * Real.Gamma β / Real.Gamma A with hK'
    have hK'pos : 0 < K' := by
      have h1 : 0 < ∏ i, Real.Gamma (Fin.tail α i) :=
        Finset.prod_pos (fun i _ => Real.Gamma_pos_of_pos (hα i.succ))
      have h2 := Real.Gamma_pos_of_pos hβ
      have h3 := Real.Gamma_pos_of_pos hApos
      positivity
    rw [lintegral_fin_succ _ (measurable_simplexIntegrand (n + 1) α β c)]
    simp_rw [simplexIntegrand_cons]
    have inner : ∀ t : ℝ,
        ∫⁻ y' : Fin n → ℝ, (if 0 < t then
          ENNReal.ofReal (t ^ (α 0 - 1)) * simplexIntegrand n (Fin.tail α) β (c - t) y' else 0) =
        (if 0 < t ∧ t < c then ENNReal.ofReal (t ^ (α 0 - 1) * (c - t) ^ (A - 1)) else 0) *
          ENNReal.ofReal K' := by
      intro t
      by_cases ht : 0 < t
      · simp only [if_pos ht]
        by_cases htc : t < c
        · rw [if_pos ⟨ht, htc⟩, lintegral_const_mul _ (measurable_simplexIntegrand n _ β (c - t)),
            ih (Fin.tail α) β (c - t) (fun i => hα i.succ) hβ (by linarith),
            ← ENNReal.ofReal_mul (by positivity), ← ENNReal.ofReal_mul (by
              have := Real.rpow_nonneg (by linarith : 0 ≤ c - t) (A - 1)
              positivity)]
          congr 1
          rw [hK', hA]; ring
        · have : ¬ (0 < t ∧ t < c) := fun h => htc h.2
          rw [if_neg this, zero_mul]
          simp only [simplexIntegrand_of_nonpos n _ β (c - t) (by linarith), mul_zero,
            lintegral_zero]
      · have : ¬ (0 < t ∧ t < c) := fun h => ht h.1
        simp only [if_neg ht, if_neg this, zero_mul, lintegral_zero]
    simp_rw [inner]
    rw [lintegral_mul_const' _ _ ENNReal.ofReal_ne_top,
      lintegral_scaled_beta (α 0) A c (hα 0) hApos hc, ← ENNReal.ofReal_mul (by
        have := Real.rpow_pos_of_pos hc (α 0 + A - 1)
        have := Real.Gamma_pos_of_pos (hα 0)
        have := Real.Gamma_pos_of_pos hApos
        have := Real.Gamma_pos_of_pos (add_pos (hα 0) hApos)
        positivity)]
    congr 1
    have hGA := (Real.Gamma_pos_of_pos hApos).ne'
    have e1 : ∑ i, α i + β = α 0 + A := by rw [Fin.sum_univ_succ, hA]; simp only [Fin.tail]; ring
    have e2 : ∏ i, Real.Gamma (α i) = Real.Gamma (α 0) * ∏ i, Real.Gamma (Fin.tail α i) := by
      rw [Fin.prod_univ_succ]; rfl
    rw [e1, e2, hK']
    field_simp


/-- dirichlet(concentration α) at a point `x` of the probability simplex -/
noncomputable def dirichletPdf {k : ℕ} (α x : Fin k → ℝ) : ℝ :=
  Real.Gamma (∑ i, α i) / (∏ i, Real.Gamma (α i)) * ∏ i, x i ^ (α i - 1)

/-- total mass one: the simplex `{x ≥ 0, Σ x = 1} ⊆ ℝ^{n+1}` is charted by its first `n`
coordinates `y` (last coordinate `1 − Σ y`) and carries Lebesgue measure in that chart (the
convention of TFP / scipy) -/
theorem dirichlet_normalised {n : ℕ} (α : Fin (n + 1) → ℝ) (hα : ∀ i, 0 < α i) :
    ∫⁻ y in {y : Fin n → ℝ | (∀ i, 0 < y i) ∧ ∑ i, y i < 1},
      ENNReal.ofReal (dirichletPdf α (Fin.snoc y (1 - ∑ i, y i))) = 1 := by
  have hGs : 0 < Real.Gamma (∑ i, α i) :=
    Real.Gamma_pos_of_pos (Finset.sum_pos (fun i _ => hα i) Finset.univ_nonempty)
  have hGp : 0 < ∏ i, Real.Gamma (α i) := Finset.prod_pos (fun i _ => Real.Gamma_pos_of_pos (hα i))
  set C : ℝ := Real.Gamma (∑ i, α i) / (∏ i, Real.Gamma (α i)) with hC
  have hCpos : 0 < C := by positivity
  rw [← lintegral_indicator (measurableSet_openSimplex n 1)]
  have hpt : ∀ y : Fin n → ℝ,
      Set.indicator {y : Fin n → ℝ | (∀ i, 0 < y i) ∧ ∑ i, y i < 1}
        (fun y => ENNReal.ofReal (dirichletPdf α (Fin.snoc y (1 - ∑ i, y i)))) y =
      ENNReal.ofReal C * simplexIntegrand n (Fin.init α) (α (Fin.last n)) 1 y := by
    intro y
    by_cases hy : (∀ i, 0 < y i) ∧ ∑ i, y i < 1
    · rw [Set.indicator_of_mem (by exact hy)]
      simp only [simplexIntegrand, if_pos hy]
      rw [← ENNReal.ofReal_mul hCpos.le]
      congr 1
      simp only [dirichletPdf, Fin.prod_univ_castSucc, Fin.snoc_castSucc, Fin.snoc_last, Fin.init]
      rw [hC, Fin.prod_univ_castSucc (fun i => Real.Gamma (α i))]
    · rw [Set.indicator_of_notMem (by exact hy)]
      simp only [simplexIntegrand, if_neg hy, mul_zero]
  simp_rw [hpt]
  rw [lintegral_const_mul _ (measurable_simplexIntegrand n _ _ 1),
    simplex_integral n (Fin.init α) (α (Fin.last n)) 1 (fun i => hα _) (hα _) one_pos,
    ← ENNReal.ofReal_mul hCpos.le, Real.one_rpow, one_mul]
  have e1 : ∑ i, Fin.init α i + α (Fin.last n) = ∑ i, α i := by
    rw [Fin.sum_univ_castSucc]; rfl
  have e2 : (∏ i, Real.Gamma (Fin.init α i)) * Real.Gamma (α (Fin.last n)) =
      ∏ i, Real.Gamma (α i) := by
    rw [Fin.prod_univ_castSucc]; rfl
  rw [e1, e2, hC]
  have : Real.Gamma (∑ i, α i) / (∏ i, Real.Gamma (α i)) *
      ((∏ i, Real.Gamma (α i)) / Real.Gamma (∑ i, α i)) = 1 := by
    field_simp
  rw [this, ENNReal.ofReal_one]

/-- two components: dirichlet(a, b) at (t, 1 − t) is beta(concentration1 a, concentration0 b) at t -/
theorem dirichlet_two_eq_beta (a b t : ℝ) (ht : 0 < t ∧ t < 1) :
    dirichletPdf ![a, b] ![t, 1 - t] = betaPdf a b t := by
  simp [dirichletPdf, betaPdf, if_pos ht, Fin.sum_univ_two, Fin.prod_univ_two]
  ring

theorem dirichletPdf_nonneg {k : ℕ} (α x : Fin k → ℝ) (hα : ∀ i, 0 < α i) (hx : ∀ i, 0 ≤ x i) :
    0 ≤ dirichletPdf α x := by
  have hGp : 0 < ∏ i, Real.Gamma (α i) := Finset.prod_pos (fun i _ => Real.Gamma_pos_of_pos (hα i))
  have hp : 0 ≤ ∏ i, x i ^ (α i - 1) := Finset.prod_nonneg (fun i _ => Real.rpow_nonneg (hx i) _)
  simp only [dirichletPdf]
  rcases Nat.eq_zero_or_pos k with hk | hk
  · subst hk; simp [Real.Gamma_zero]
  · have : Nonempty (Fin k) := ⟨⟨0, hk⟩⟩
    have hGs : 0 < Real.Gamma (∑ i, α i) :=
      Real.Gamma_pos_of_pos (Finset.sum_pos (fun i _ => hα i) Finset.univ_nonempty)
    positivity


end Genjax.DistSpec
