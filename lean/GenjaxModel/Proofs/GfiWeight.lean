import GenjaxModel.Proofs.GfiDefs
/-! Weight algebra of `update` (L5, L5'): the weight is the difference of scores. -/
namespace Genjax
variable {R : Type} [AddCommGroup R] (P : Prims R) (cfg : Cfg)

/-! ### helper lemmas -/

omit [AddCommGroup R] in
theorem TrL.find?_snoc : ∀ (subs : TrL R) (k : String) (t : Tr R) (a : String),
    (subs.snoc k t).find? a =
      match subs.find? a with
      | some v => some v
      | none => if a = k then some t else none
  | .nil, k, t, a => by simp only [TrL.snoc, TrL.find?]
  | .cons k' t' rest, k, t, a => by
    simp only [TrL.snoc, TrL.find?]
    split
    · rfl
    · exact TrL.find?_snoc rest k t a

omit [AddCommGroup R] in
theorem TrL.sameChecks_find : ∀ (old b : TrL R) (_ : Tr.sameChecks.TrL.sameChecks old b)
    (k : String) (t : Tr R) (_ : old.find? k = some t),
    match b.find? k with | some t' => Tr.sameChecks t t' | none => True
  | .nil, b, h, k, t, hf => by simp [TrL.find?] at hf
  | .cons k' t' rest, b, h, k, t, hf => by
    rw [Tr.sameChecks.TrL.sameChecks.eq_2] at h
    simp only [TrL.find?] at hf
    split at hf
    · subst_vars
      simp only [Option.some.injEq] at hf
      subst hf
      exact h.1
    · exact TrL.sameChecks_find rest b h.2 k t hf

theorem Body.update_find : ∀ (b : Body) (old : TrL R) (x : CML) (env : List Val) (subs : TrL R) (s w : R) (d : CML)
    (subsF : TrL R) (r : Val) (sF wF : R) (dF : CML),
    b.update P cfg old x env subs s w d = some (subsF, r, sF, wF, dF) →
    ∀ k t, subs.find? k = some t → subsF.find? k = some t
  | .ret e, old, x, env, subs, s, w, d, subsF, r, sF, wF, dF, h, k, t, hk => by
      simp only [Body.update, Option.some.injEq, Prod.mk.injEq] at h
      obtain ⟨rfl, _⟩ := h
      exact hk
  | .call addr g es rest, old, x, env, subs, s, w, d, subsF, r, sF, wF, dF, h, k, t, hk => by
      simp only [Body.update] at h
      split at h
      · exact absurd h (by simp)
      · split at h
        · exact absurd h (by simp)
        · simp only [Option.bind_eq_bind, Option.bind_eq_some_iff] at h
          obtain ⟨xsub, _, ⟨t1, w1, d1⟩, _, h3⟩ := h
          refine Body.update_find rest _ _ _ _ _ _ _ _ _ _ _ _ h3 k t ?_
          rw [TrL.find?_snoc, hk]

theorem TrL.scoreSum_ofList : ∀ (l : List (Tr R)), (TrL.ofList l).scoreSum = sumR (l.map Tr.score)
  | [] => by simp only [TrL.ofList, TrL.scoreSum, List.map_nil, sumR]
  | t :: ts => by simp only [TrL.ofList, TrL.scoreSum, List.map_cons, sumR, TrL.scoreSum_ofList ts]



/-- the statement proved by induction on the program -/
def WeightOK (g : GF) : Prop :=
  ∀ (args0 : List Val) (t : Tr R), g.Coh P args0 t →
    ∀ (x : Option CM) (args : List Val) (t' : Tr R) (w : R) (d : Option CM),
      g.update P cfg t x args = some (t', w, d) →
      (cfg.condSwitchCorrection = true ∨ Tr.sameChecks t t') → w = t.score + -t'.score

theorem vmap_aux (g : GF) (axes : List Bool) (args0 args : List Val) (IH : WeightOK P cfg g) :
    ∀ (old : TrL R) (xs : List (Option CM)) (i j : Nat) (rs : List (Upd R)),
      old.toList.length = xs.length →
      lanesCoh (fun a t => g.Coh P a t) axes args0 j old.toList →
      forLanes (fun i (p : Tr R × Option CM) => g.update P cfg p.1 p.2 (laneArgs axes args i)) i
        (old.toList.zip xs) = some rs →
      (cfg.condSwitchCorrection = true ∨
        Tr.sameChecks.TrL.sameChecksPos old (TrL.ofList (rs.map (·.1)))) →
      sumR (rs.map (·.2.1)) = old.scoreSum + -(TrL.ofList (rs.map (·.1))).scoreSum
  | .nil, xs, i, j, rs, hl, hcoh, h, hs => by
      simp only [TrL.toList, List.zip_nil_left, forLanes, Option.some.injEq] at h
      subst h
      simp [sumR, TrL.ofList, TrL.scoreSum]
  | .cons k t rest, [], i, j, rs, hl, hcoh, h, hs => by
      simp [TrL.toList] at hl
  | .cons k t rest, x :: xs, i, j, rs, hl, hcoh, h, hs => by
      simp only [TrL.toList, List.zip_cons_cons, forLanes, Option.bind_eq_bind, Option.bind_eq_some_iff,
        Option.pure_def, Option.some.injEq] at h
      obtain ⟨⟨t1, w1, d1⟩, h1, bs, h2, rfl⟩ := h
      simp only [TrL.toList, lanesCoh] at hcoh
      simp only [TrL.toList, List.length_cons, Nat.add_right_cancel_iff] at hl
      simp only [List.map_cons, TrL.ofList, Tr.sameChecks.TrL.sameChecksPos] at hs
      have e1 := IH _ t hcoh.1 _ _ _ _ _ h1 (hs.imp id (·.1))
      have e2 := vmap_aux g axes args0 args IH rest xs (i+1) (j+1) bs hl hcoh.2 h2 (hs.imp id (·.2))
      simp only [List.map_cons, sumR, TrL.ofList, TrL.scoreSum, e1, e2]
      abel

theorem scan_aux (g : GF) (xv : Val) (args : List Val) (IH : WeightOK P cfg g) :
    ∀ (old : TrL R) (xs : List (Option CM)) (c : Val) (i : Nat) (c0 : Val) (j : Nat) (cF : Val)
      (rs : List (Upd R)) (cN : Val),
      old.toList.length = xs.length →
      stepsCoh (fun a t => g.Coh P a t) xv c0 j old.toList cF →
      forSteps (fun c i (p : Tr R × Option CM) => do
            let (t, w, d) ← g.update P cfg p.1 p.2 [c, (args.getD 1 .nil).nth i]
            pure ((t, w, d), t.retval.fst)) c i (old.toList.zip xs) = some (rs, cN) →
      (cfg.condSwitchCorrection = true ∨
        Tr.sameChecks.TrL.sameChecksPos old (TrL.ofList (rs.map (·.1)))) →
      sumR (rs.map (·.2.1)) = old.scoreSum + -(TrL.ofList (rs.map (·.1))).scoreSum
  | .nil, xs, c, i, c0, j, cF, rs, cN, hl, hcoh, h, hs => by
      simp only [TrL.toList, List.zip_nil_left, forSteps, Option.some.injEq, Prod.mk.injEq] at h
      obtain ⟨rfl, _⟩ := h
      simp [sumR, TrL.ofList, TrL.scoreSum]
  | .cons k t rest, [], c, i, c0, j, cF, rs, cN, hl, hcoh, h, hs => by
      simp [TrL.toList] at hl
  | .cons k t rest, x :: xs, c, i, c0, j, cF, rs, cN, hl, hcoh, h, hs => by
      simp only [TrL.toList, List.zip_cons_cons, forSteps, Option.bind_eq_bind, Option.bind_eq_some_iff,
        Option.pure_def, Option.some.injEq, Prod.mk.injEq] at h
      obtain ⟨⟨b, c1⟩, ⟨⟨t1, w1, d1⟩, h1, hb⟩, ⟨bs, c2⟩, h2, rfl, rfl⟩ := h
      simp only [Prod.mk.injEq] at hb
      obtain ⟨rfl, rfl⟩ := hb
      simp only [TrL.toList, stepsCoh] at hcoh
      simp only [TrL.toList, List.length_cons, Nat.add_right_cancel_iff] at hl
      simp only [List.map_cons, TrL.ofList, Tr.sameChecks.TrL.sameChecksPos] at hs
      have e1 := IH _ t hcoh.1 _ _ _ _ _ h1 (hs.imp id (·.1))
      have e2 := scan_aux g xv args IH rest xs _ (i+1) _ (j+1) cF bs _ hl hcoh.2 h2 (hs.imp id (·.2))
      simp only [List.map_cons, sumR, TrL.ofList, TrL.scoreSum, e1, e2]
      abel


/-- invariant of the Update handler loop -/
def BodyOK (b : Body) : Prop :=
  ∀ (env0 : List Val) (old : TrL R), b.Coh P env0 old →
    ∀ (x : CML) (env : List Val) (subs : TrL R) (s w : R) (d : CML)
      (subsF : TrL R) (r : Val) (sF wF : R) (dF : CML),
      b.update P cfg old x env subs s w d = some (subsF, r, sF, wF, dF) →
      (cfg.condSwitchCorrection = true ∨ Tr.sameChecks.TrL.sameChecks old subsF) →
      wF + sF = w + s + b.scoreOf old

theorem weightOK_all (g : GF) : WeightOK P cfg g := by
  refine GF.rec (motive_1 := fun g => WeightOK P cfg g) (motive_2 := fun b => BodyOK P cfg b)
    ?_ ?_ ?_ ?_ ?_ ?_ ?_ g
  · -- dist
    intro d args0 t ht x args t' w dd h hs
    cases t with
    | leaf vOld sOld =>
      simp only [GF.update] at h
      split at h
      · simp only [Option.some.injEq, Prod.mk.injEq] at h
        obtain ⟨rfl, rfl, _⟩ := h
        simp only [Tr.score]; abel
      · simp only [Option.some.injEq, Prod.mk.injEq] at h
        obtain ⟨rfl, rfl, _⟩ := h
        simp only [Tr.score]; abel
      · exact absurd h (by simp)
    | _ => simp [GF.Coh] at ht
  · -- fn
    intro body ihb args0 t ht x args t' w dd h hs
    cases t with
    | fn old r0 s0 =>
      simp only [GF.Coh] at ht
      obtain ⟨hcoh, _, rfl⟩ := ht
      simp only [GF.update] at h
      split at h
      · exact absurd h (by simp)
      · simp only [Option.bind_eq_bind, Option.bind_eq_some_iff, Option.pure_def, Option.some.injEq,
          Prod.mk.injEq] at h
        obtain ⟨⟨subs, r, s, w1, d1⟩, hb, rfl, rfl, _⟩ := h
        have hs' : cfg.condSwitchCorrection = true ∨ Tr.sameChecks.TrL.sameChecks old subs := by
          rcases hs with hs | hs
          · exact Or.inl hs
          · rw [Tr.sameChecks.eq_2] at hs; exact Or.inr hs
        have e := ihb _ old hcoh _ _ _ _ _ _ _ _ _ _ _ hb hs'
        simp only [Tr.score]
        have : w1 = (0 + 0 + body.scoreOf old) + -s := by rw [← e]; abel
        rw [this]; abel
    | _ => simp [GF.Coh] at ht
  · -- vmap
    intro g axes n ih args0 t ht x args t' w dd h hs
    cases t with
    | vec old =>
      simp only [GF.Coh] at ht
      simp only [GF.update, Option.bind_eq_bind, Option.bind_eq_some_iff, Option.pure_def, Option.some.injEq,
          Prod.mk.injEq] at h
      obtain ⟨_, hlen, xs, hxs, rs, hrs, rfl, rfl, _⟩ := h
      have hl : old.toList.length = xs.length := by
        rw [ht.1]
        split at hxs
        · simp only [Option.some.injEq] at hxs; subst hxs; simp
        · split at hxs
          · simp only [Option.some.injEq] at hxs; subst hxs; simp [*]
          · exact absurd hxs (by simp)
        · exact absurd hxs (by simp)
      have hs' : cfg.condSwitchCorrection = true ∨
          Tr.sameChecks.TrL.sameChecksPos old (TrL.ofList (rs.map (·.1))) := by
        rcases hs with hs | hs
        · exact Or.inl hs
        · rw [Tr.sameChecks.eq_3] at hs; exact Or.inr hs
      simp only [Tr.score]
      exact vmap_aux P cfg g axes args0 args ih old xs 0 0 rs hl ht.2 hrs hs'
    | _ => simp [GF.Coh] at ht
  · -- scan
    intro g n ih args0 t ht x args t' w dd h hs
    cases t with
    | scan old c0 =>
      simp only [GF.Coh] at ht
      simp only [GF.update, Option.bind_eq_bind, Option.bind_eq_some_iff, Option.pure_def, Option.some.injEq,
          Prod.mk.injEq] at h
      obtain ⟨_, hlen, xs, hxs, ⟨rs, cN⟩, hrs, rfl, rfl, _⟩ := h
      have hl : old.toList.length = xs.length := by
        rw [ht.1]
        split at hxs
        · simp only [Option.some.injEq] at hxs; subst hxs; simp
        · split at hxs
          · simp only [Option.some.injEq] at hxs; subst hxs; simp [*]
          · exact absurd hxs (by simp)
        · exact absurd hxs (by simp)
      have hs' : cfg.condSwitchCorrection = true ∨
          Tr.sameChecks.TrL.sameChecksPos old (TrL.ofList (rs.map (·.1))) := by
        rcases hs with hs | hs
        · exact Or.inl hs
        · rw [Tr.sameChecks.eq_4] at hs; exact Or.inr hs
      simp only [Tr.score]
      exact scan_aux P cfg g _ args ih old xs _ 0 _ 0 _ rs cN hl ht.2 hrs hs'
    | _ => simp [GF.Coh] at ht
  · -- cond
    intro tg fg iht ihf args0 t ht x args t' w dd h hs
    cases t with
    | cond cOld a b =>
      simp only [GF.Coh] at ht
      obtain ⟨_, hca, hcb⟩ := ht
      simp only [GF.update, Option.bind_eq_bind, Option.bind_eq_some_iff, Option.pure_def, Option.some.injEq,
          Prod.mk.injEq] at h
      obtain ⟨xq, _, ⟨a', wa, da⟩, ha, ⟨b', wb, db⟩, hb, disc, _, rfl, rfl, _⟩ := h
      have hsa : cfg.condSwitchCorrection = true ∨ Tr.sameChecks a a' := by
        rcases hs with hs | hs
        · exact Or.inl hs
        · rw [Tr.sameChecks.eq_5] at hs; exact Or.inr hs.2.1
      have hsb : cfg.condSwitchCorrection = true ∨ Tr.sameChecks b b' := by
        rcases hs with hs | hs
        · exact Or.inl hs
        · rw [Tr.sameChecks.eq_5] at hs; exact Or.inr hs.2.2
      have ea := iht _ a hca _ _ _ _ _ ha hsa
      have eb := ihf _ b hcb _ _ _ _ _ hb hsb
      subst ea eb
      simp only [Tr.score]
      by_cases hcc : cfg.condSwitchCorrection = true
      · simp only [hcc, if_true]
        cases cOld <;> cases (args.getD 0 Val.nil).truthy <;> simp only [Bool.false_eq_true, if_true, if_false] <;> abel
      · have hcf : cfg.condSwitchCorrection = false := by simpa using hcc
        rcases hs with hs | hs
        · exact absurd hs hcc
        · rw [Tr.sameChecks.eq_5] at hs
          obtain ⟨rfl, _, _⟩ := hs
          simp only [hcf]
          cases (args.getD 0 Val.nil).truthy <;> simp only [Bool.false_eq_true, if_true, if_false]
    | _ => simp [GF.Coh] at ht
  · -- ret
    intro e env0 old _ x env subs s w d subsF r sF wF dF h _
    simp only [Body.update, Option.some.injEq, Prod.mk.injEq] at h
    obtain ⟨_, _, rfl, rfl, _⟩ := h
    simp only [Body.scoreOf]; abel
  · -- call
    intro addr g es rest ihg ihr env0 old hcoh x env subs s w d subsF r sF wF dF h hs
    simp only [Body.Coh] at hcoh
    obtain ⟨_, t0, hfind, hg, hrest⟩ := hcoh
    simp only [Body.update] at h
    split at h
    · exact absurd h (by simp)
    · rename_i hnone
      rw [hfind] at h
      simp only [Option.bind_eq_bind, Option.bind_eq_some_iff] at h
      obtain ⟨xsub, _, ⟨t1, w1, d1⟩, h1, h2⟩ := h
      have hfF : subsF.find? addr = some t1 := by
        refine Body.update_find P cfg rest _ _ _ _ _ _ _ _ _ _ _ _ h2 addr t1 ?_
        rw [TrL.find?_snoc]
        have : subs.find? addr = none := by simpa using hnone
        simp [this]
      have hs1 : cfg.condSwitchCorrection = true ∨ Tr.sameChecks t0 t1 := by
        rcases hs with hs | hs
        · exact Or.inl hs
        · have := TrL.sameChecks_find old subsF hs addr t0 hfind
          rw [hfF] at this
          exact Or.inr this
      have e1 := ihg _ t0 hg _ _ _ _ _ h1 hs1
      have e2 := ihr _ old hrest _ _ _ _ _ _ _ _ _ _ _ h2 hs
      simp only at e2
      simp only [Body.scoreOf, hfind]
      rw [e2, e1]; abel


/-- L5 (specification variant of Cond.update/regenerate, `condSwitchCorrection = true`):
    the update weight is `score old - score new`, also across a Cond branch switch. -/
theorem update_weight_spec (hc : cfg.condSwitchCorrection = true)
    (g : GF) (args0 : List Val) (t : Tr R) (ht : g.Coh P args0 t)
    (x : Option CM) (args : List Val) (t' : Tr R) (w : R) (d : Option CM)
    (h : g.update P cfg t x args = some (t', w, d)) : w = t.score + -t'.score :=
  weightOK_all P cfg g args0 t ht x args t' w d h (Or.inl hc)

/-- L5' (any variant, in particular the code as it is): same statement when no Cond switches -/
theorem update_weight_noswitch
    (g : GF) (args0 : List Val) (t : Tr R) (ht : g.Coh P args0 t)
    (x : Option CM) (args : List Val) (t' : Tr R) (w : R) (d : Option CM)
    (h : g.update P cfg t x args = some (t', w, d)) (hs : Tr.sameChecks t t') :
    w = t.score + -t'.score :=
  weightOK_all P cfg g args0 t ht x args t' w d h (Or.inr hs)

theorem forLanes_sum_zero {α β : Type} (f : Nat → α → Option (β × R))
    (hf : ∀ i a b, f i a = some b → b.2 = 0) :
    ∀ (l : List α) (i : Nat) (rs : List (β × R)), forLanes f i l = some rs → sumR (rs.map (·.2)) = 0
  | [], i, rs, h => by
      simp only [forLanes, Option.some.injEq] at h
      subst h; rfl
  | a :: as, i, rs, h => by
      simp only [forLanes, Option.bind_eq_bind, Option.bind_eq_some_iff, Option.pure_def, Option.some.injEq] at h
      obtain ⟨b, hb, bs, hbs, rfl⟩ := h
      have := forLanes_sum_zero f hf as (i+1) bs hbs
      simp only [List.map_cons, sumR, this, hf i a b hb, add_zero]

theorem forSteps_sum_zero {α β : Type} (f : Val → Nat → α → Option ((β × R) × Val))
    (hf : ∀ c i a b, f c i a = some b → b.1.2 = 0) :
    ∀ (l : List α) (c : Val) (i : Nat) (rs : List (β × R)) (c' : Val),
      forSteps f c i l = some (rs, c') → sumR (rs.map (·.2)) = 0
  | [], c, i, rs, c', h => by
      simp only [forSteps, Option.some.injEq, Prod.mk.injEq] at h
      obtain ⟨rfl, _⟩ := h; rfl
  | a :: as, c, i, rs, c', h => by
      simp only [forSteps, Option.bind_eq_bind, Option.bind_eq_some_iff, Option.pure_def, Option.some.injEq,
        Prod.mk.injEq] at h
      obtain ⟨⟨b, c1⟩, hb, ⟨bs, c2⟩, hbs, rfl, rfl⟩ := h
      have := forSteps_sum_zero f hf as c1 (i+1) bs c2 hbs
      have h2 := hf c i a _ hb
      simp only at h2
      simp only [List.map_cons, sumR, this, h2, add_zero]

/-- `generate` with no constraints has weight 0 -/
theorem generate_none_weight (g : GF) (args : List Val) (t : Tr R) (w : R)
    (h : g.generate P cfg none args = some (t, w)) : w = 0 := by
  revert args t w
  refine GF.rec (motive_1 := fun g => ∀ (args : List Val) (t : Tr R) (w : R),
      g.generate P cfg none args = some (t, w) → w = 0) (motive_2 := fun _ => True)
    ?_ ?_ ?_ ?_ ?_ ?_ ?_ g
  · intro d args t w h
    simp only [GF.generate, Option.some.injEq, Prod.mk.injEq] at h
    exact h.2.symm
  · intro body _ args t w h
    simp only [GF.generate, Option.bind_eq_bind, Option.bind_eq_some_iff, Option.pure_def, Option.some.injEq,
      Prod.mk.injEq] at h
    obtain ⟨_, _, _, rfl⟩ := h; rfl
  · intro g axes n ih args t w h
    simp only [GF.generate] at h
    split at h
    · simp only [Option.bind_eq_bind, Option.bind_eq_some_iff, Option.pure_def, Option.some.injEq,
        Prod.mk.injEq] at h
      obtain ⟨ts, hts, _, rfl⟩ := h
      exact forLanes_sum_zero _ (fun i _ b hb => ih _ b.1 b.2 hb) _ _ _ hts
    · exact absurd h (by simp)
  · intro g n ih args t w h
    simp only [GF.generate, Option.bind_eq_bind, Option.bind_eq_some_iff, Option.pure_def, Option.some.injEq,
        Prod.mk.injEq] at h
    obtain ⟨⟨ts, c⟩, hts, _, rfl⟩ := h
    refine forSteps_sum_zero _ ?_ _ _ _ _ _ hts
    intro c i a b hb
    simp only [Option.bind_eq_some_iff, Option.some.injEq] at hb
    obtain ⟨⟨t1, w1⟩, h1, rfl⟩ := hb
    exact ih _ _ _ h1
  · intro t f _ _ args tr w h
    simp only [GF.generate, Option.bind_eq_bind, Option.bind_eq_some_iff, Option.pure_def, Option.some.injEq,
      Prod.mk.injEq] at h
    obtain ⟨_, _, _, _, _, rfl⟩ := h; rfl
  · intro _; trivial
  · intros; trivial

end Genjax
