import GenjaxModel.Proofs.GfiValuesBase
import GenjaxModel.Proofs.GfiValuesFill
/-!
  Value-level theorems for `update` (C03): which values the new trace and the discard hold.
-/
namespace Genjax
variable {R : Type} [AddCommGroup R] (P : Prims R) (cfg : Cfg)

/-! ## inversion of `GF.update` -/

theorem CML.find?_snoc : ∀ (l : CML) (k : String) (c : CM) (a : String),
    (l.snoc k c).find? a =
      match l.find? a with
      | some v => some v
      | none => if a = k then some c else none
  | .nil, k, c, a => by simp only [CML.snoc, CML.find?]
  | .cons k' c' rest, k, c, a => by
    simp only [CML.snoc, CML.find?]
    split
    · rfl
    · exact CML.find?_snoc rest k c a

theorem CML.find?_snoc_ne (l : CML) (k : String) (c : CM) (a : String) (h : a ≠ k) :
    (l.snoc k c).find? a = l.find? a := by
  rw [CML.find?_snoc]
  cases l.find? a <;> simp [h]

theorem CML.find?_snoc_self (l : CML) (k : String) (c : CM) (h : l.find? k = none) :
    (l.snoc k c).find? k = some c := by
  rw [CML.find?_snoc, h]; simp

omit [AddCommGroup R] in
theorem TrL.find?_snoc_ne (l : TrL R) (k : String) (t : Tr R) (a : String) (h : a ≠ k) :
    (l.snoc k t).find? a = l.find? a := by
  rw [TrL.find?_snoc]
  cases l.find? a <;> simp [h]

theorem upd_dist_inv {d0 : Nat} {t : Tr R} {x : Option CM} {args : List Val} {t' : Tr R} {w : R}
    {dd : Option CM} (h : (GF.dist d0).update P cfg t x args = some (t', w, dd)) :
    ∃ vOld sOld vNew sNew, t = .leaf vOld sOld ∧ t' = .leaf vNew sNew ∧ dd = some (.leaf vOld) ∧
      ((x = none ∧ vNew = vOld) ∨ x = some (.leaf vNew)) := by
  cases t with
  | leaf vOld sOld =>
    simp only [GF.update] at h
    split at h
    · simp only [Option.some.injEq, Prod.mk.injEq] at h
      obtain ⟨rfl, _, rfl⟩ := h
      exact ⟨_, _, _, _, rfl, rfl, rfl, .inl ⟨rfl, rfl⟩⟩
    · simp only [Option.some.injEq, Prod.mk.injEq] at h
      obtain ⟨rfl, _, rfl⟩ := h
      exact ⟨_, _, _, _, rfl, rfl, rfl, .inr rfl⟩
    · exact absurd h (by simp)
  | _ => simp [GF.update] at h

theorem upd_fn_inv {body : Body} {t : Tr R} {x : Option CM} {args : List Val} {t' : Tr R} {w : R}
    {dd : Option CM} (h : (GF.fn body).update P cfg t x args = some (t', w, dd)) :
    ∃ old r0 s0 kids subs r s d, t = .fn old r0 s0 ∧
      ((x = none ∧ kids = .nil) ∨ x = some (.node kids)) ∧
      body.update P cfg old kids args .nil 0 0 .nil = some (subs, r, s, w, d) ∧
      t' = .fn subs r s ∧ dd = some (.node d) := by
  cases t with
  | fn old r0 s0 =>
    simp only [GF.update] at h
    split at h
    · exact absurd h (by simp)
    · rename_i kids hk
      simp only [Option.bind_eq_bind, Option.bind_eq_some_iff, Option.pure_def, Option.some.injEq,
        Prod.mk.injEq] at h
      obtain ⟨⟨subs, r, s, w1, d1⟩, hb, rfl, rfl, rfl⟩ := h
      refine ⟨old, r0, s0, kids, subs, r, s, d1, rfl, ?_, hb, rfl, rfl⟩
      split at hk
      · simp only [Option.some.injEq] at hk; exact .inl ⟨rfl, hk.symm⟩
      · simp only [Option.some.injEq] at hk; subst hk; exact .inr rfl
      · exact absurd hk (by simp)
  | _ => simp [GF.update] at h

theorem fn_x_leafAt {x : Option CM} {kids : CML}
    (hx : (x = none ∧ kids = .nil) ∨ x = some (.node kids)) :
    (∀ a p, CM.leafAt? x (.key a :: p) = CM.leafAt? (kids.find? a) p) ∧
    CM.leafAt? x [] = none ∧ ∀ i p, CM.leafAt? x (.idx i :: p) = none := by
  rcases hx with ⟨rfl, rfl⟩ | rfl
  · exact ⟨fun a p => by simp [CM.leafAt?, CML.find?], rfl, fun _ _ => rfl⟩
  · refine ⟨fun a p => ?_, by simp [CM.leafAt?, CM.leafAt], fun i p => by simp [CM.leafAt?, CM.leafAt]⟩
    simp only [CM.leafAt?, CM.leafAt_node_key]
    cases kids.find? a <;> rfl

/-- what Vmap.update and Scan.update do lane by lane / step by step -/
def LanesUpd (g : GF) (old : TrL R) (xs : List (Option CM)) (rs : List (Upd R)) : Prop :=
  rs.length = old.toList.length ∧ xs.length = old.toList.length ∧
  ∀ (i : Nat) (ti : Tr R), old.toList[i]? = some ti →
    ∃ xi b argsi, xs[i]? = some xi ∧ rs[i]? = some b ∧ g.update P cfg ti xi argsi = some b

/-- how the per-lane constraints relate to the constraint map of a Vmap / Scan -/
def XsOf (x : Option CM) (xs : List (Option CM)) : Prop :=
  (∀ (i : Nat) p, CM.leafAt? x (.idx i :: p) = CM.leafAt? ((xs[i]?).getD none) p) ∧
  CM.leafAt? x [] = none ∧ (∀ k p, CM.leafAt? x (.key k :: p) = none) ∧
  (x = none ∨ ∃ l, x = some (.lanes l) ∧ xs = l.toList.map some)

theorem xsOf_inv {x : Option CM} {n : Nat} {xs : List (Option CM)}
    (hxs : (match x with
            | none => some (List.replicate n none)
            | some (.lanes l) => if l.toList.length = n then some (l.toList.map some) else none
            | some _ => none) = some xs) : xs.length = n ∧ XsOf x xs := by
  split at hxs
  · simp only [Option.some.injEq] at hxs
    subst hxs
    refine ⟨by simp, fun i p => ?_, rfl, fun _ _ => rfl, .inl rfl⟩
    by_cases hi : i < n <;> simp [CM.leafAt?, List.getElem?_replicate, hi]
  · rename_i l
    split at hxs
    · rename_i hl
      simp only [Option.some.injEq] at hxs
      subst hxs
      refine ⟨by simpa using hl, fun i p => ?_, by simp [CM.leafAt?, CM.leafAt],
        fun k p => by simp [CM.leafAt?, CM.leafAt], .inr ⟨l, rfl, rfl⟩⟩
      simp only [CM.leafAt?, CM.leafAt_lanes_idx, List.getElem?_map]
      cases l.toList[i]? <;> rfl
    · exact absurd hxs (by simp)
  · exact absurd hxs (by simp)

theorem lanesUpd_of_forLanes {g : GF} {old : TrL R} {xs : List (Option CM)} {rs : List (Upd R)}
    {f : Nat → List Val} (hl : xs.length = old.toList.length)
    (h : forLanes (fun i (p : Tr R × Option CM) => g.update P cfg p.1 p.2 (f i)) 0
      (old.toList.zip xs) = some rs) : LanesUpd P cfg g old xs rs := by
  refine ⟨by rw [forLanes_length _ _ _ _ h]; simp [hl], hl, ?_⟩
  intro i ti hti
  have hi : i < xs.length := by
    rw [hl]; exact (List.getElem?_eq_some_iff.mp hti).1
  have hz : (old.toList.zip xs)[i]? = some (ti, xs[i]) := by
    rw [List.getElem?_zip_eq_some]
    exact ⟨hti, by simp [hi]⟩
  obtain ⟨b, hb, hf⟩ := forLanes_get _ _ _ _ h i _ hz
  exact ⟨xs[i], b, _, by simp [hi], hb, hf⟩

theorem lanesUpd_of_forSteps {g : GF} {old : TrL R} {xs : List (Option CM)} {rs : List (Upd R)}
    {c0 c : Val} {f : Val → Nat → List Val} (hl : xs.length = old.toList.length)
    (h : forSteps (fun c i (p : Tr R × Option CM) => do
            let (t, w, d) ← g.update P cfg p.1 p.2 (f c i)
            pure ((t, w, d), t.retval.fst)) c0 0 (old.toList.zip xs) = some (rs, c)) :
    LanesUpd P cfg g old xs rs := by
  refine ⟨by rw [forSteps_length _ _ _ _ _ _ h]; simp [hl], hl, ?_⟩
  intro i ti hti
  have hi : i < xs.length := by
    rw [hl]; exact (List.getElem?_eq_some_iff.mp hti).1
  have hz : (old.toList.zip xs)[i]? = some (ti, xs[i]) := by
    rw [List.getElem?_zip_eq_some]
    exact ⟨hti, by simp [hi]⟩
  obtain ⟨b, cj, cj', hb, hf⟩ := forSteps_get _ _ _ _ _ _ h i _ hz
  simp only [Option.bind_eq_bind, Option.bind_eq_some_iff, Option.pure_def, Option.some.injEq,
    Prod.mk.injEq] at hf
  obtain ⟨⟨t1, w1, d1⟩, h1, rfl, _⟩ := hf
  exact ⟨xs[i], _, _, by simp [hi], hb, h1⟩

theorem upd_vmap_inv {g : GF} {axes : List Bool} {n : Nat} {t : Tr R} {x : Option CM}
    {args : List Val} {t' : Tr R} {w : R} {dd : Option CM}
    (h : (GF.vmap g axes n).update P cfg t x args = some (t', w, dd)) :
    ∃ old xs rs, t = .vec old ∧ XsOf x xs ∧ LanesUpd P cfg g old xs rs ∧
      t' = .vec (TrL.ofList (rs.map (·.1))) ∧ dd = lanesDiscard (rs.map (·.2.2)) := by
  cases t with
  | vec old =>
    simp only [GF.update, Option.bind_eq_bind, Option.bind_eq_some_iff, Option.pure_def,
      Option.some.injEq, Prod.mk.injEq] at h
    obtain ⟨u, hlen, xs, hxs, rs, hrs, rfl, _, rfl⟩ := h
    obtain ⟨hxl, hxo⟩ := xsOf_inv hxs
    have hl : xs.length = old.toList.length := by rw [hxl, lenIs_eq_some hlen]
    exact ⟨old, xs, rs, rfl, hxo, lanesUpd_of_forLanes P cfg hl hrs, rfl, rfl⟩
  | _ => simp [GF.update] at h

theorem upd_scan_inv {g : GF} {n : Nat} {t : Tr R} {x : Option CM}
    {args : List Val} {t' : Tr R} {w : R} {dd : Option CM}
    (h : (GF.scan g n).update P cfg t x args = some (t', w, dd)) :
    ∃ old c0 xs rs c, t = .scan old c0 ∧ XsOf x xs ∧ LanesUpd P cfg g old xs rs ∧
      t' = .scan (TrL.ofList (rs.map (·.1))) c ∧ dd = lanesDiscard (rs.map (·.2.2)) := by
  cases t with
  | scan old c0 =>
    simp only [GF.update, Option.bind_eq_bind, Option.bind_eq_some_iff, Option.pure_def,
      Option.some.injEq, Prod.mk.injEq] at h
    obtain ⟨u, hlen, xs, hxs, ⟨rs, c⟩, hrs, rfl, _, rfl⟩ := h
    obtain ⟨hxl, hxo⟩ := xsOf_inv hxs
    have hl : xs.length = old.toList.length := by rw [hxl, lenIs_eq_some hlen]
    exact ⟨old, c0, xs, rs, c, rfl, hxo, lanesUpd_of_forSteps P cfg hl hrs, rfl, rfl⟩
  | _ => simp [GF.update] at h

/-- the constraint that `Cond.update` hands to BOTH branches: the given one (code as it is), or the
    given one completed with the visible old choices (repaired code, `cfg.condUpdateFill`) -/
def CondX (x : Option CM) (vis : Option CM) (xq : Option CM) : Prop :=
  (cfg.condUpdateFill = false ∧ xq = x) ∨
  (cfg.condUpdateFill = true ∧ ∃ y, vis = some y ∧
    ((x = none ∧ xq = some y) ∨ ∃ xc, x = some xc ∧ xq = some (CM.fill y xc)))

theorem upd_cond_inv {tg fg : GF} {t : Tr R} {x : Option CM} {args : List Val}
    {t' : Tr R} {w : R} {dd : Option CM}
    (h : (GF.cond tg fg).update P cfg t x args = some (t', w, dd)) :
    ∃ cOld a b xq a' wa da b' wb db, t = .cond cOld a b ∧
      CondX cfg x (Tr.cond cOld a b).choices xq ∧
      tg.update P cfg a xq (args.drop 1) = some (a', wa, da) ∧
      fg.update P cfg b xq (args.drop 1) = some (b', wb, db) ∧
      t' = .cond (args.getD 0 .nil).truthy a' b' ∧
      ∃ x1 x2, da = some x1 ∧ db = some x2 ∧
        (if cfg.condDiscardVisible then (CM.mergeCheck cOld x1 x2).map some
         else (CM.mergeNoCheck x1 x2).map some) = some dd := by
  cases t with
  | cond cOld a b =>
    simp only [GF.update, Option.bind_eq_bind, Option.bind_eq_some_iff, Option.pure_def,
      Option.some.injEq, Prod.mk.injEq] at h
    obtain ⟨xq, hxq, ⟨a', wa, da⟩, ha, ⟨b', wb, db⟩, hb, disc, hdisc, rfl, _, rfl⟩ := h
    refine ⟨cOld, a, b, xq, a', wa, da, b', wb, db, rfl, ?_, ha, hb, rfl, ?_⟩
    · split at hxq
      · rename_i hf
        simp only [Option.map_eq_some_iff, Option.some.injEq] at hxq
        obtain ⟨vis, hvis, rfl⟩ := hxq
        refine .inr ⟨hf, vis, hvis, ?_⟩
        cases x with
        | none => exact .inl ⟨rfl, rfl⟩
        | some xc => exact .inr ⟨xc, rfl, rfl⟩
      · rename_i hf
        simp only [Option.some.injEq] at hxq
        exact .inl ⟨by simpa using hf, hxq.symm⟩
    · cases da with
      | none => simp at hdisc
      | some x1 =>
        cases db with
        | none => simp at hdisc
        | some x2 => exact ⟨x1, x2, rfl, rfl, hdisc⟩
  | _ => simp [GF.update] at h

/-- a leaf of the given constraint is a leaf of the constraint handed to the branches -/
theorem CondX.con {x vis xq : Option CM} (h : CondX cfg x vis xq) (p : Path) (v : Val)
    (hv : CM.leafAt? x p = some v) : CM.leafAt? xq p = some v := by
  rcases h with ⟨_, rfl⟩ | ⟨_, y, _, ⟨rfl, _⟩ | ⟨xc, rfl, rfl⟩⟩
  · exact hv
  · simp [CM.leafAt?] at hv
  · exact CM.fill_leafAt_some p y xc v hv

/-! ## what the Update handler does at each call site -/

/-- what the Update handler did at address `a` -/
def UpdSite (old : TrL R) (x : CML) (a : String) (g : GF) (es : List Expr) (subsF : TrL R)
    (dF : CML) : Prop :=
  ∃ sub xsub env' t1 w1 d1, old.find? a = some sub ∧
    (match x.find? a with | some c => some c | none => sub.choices) = some xsub ∧
    g.update P cfg sub (some xsub) (es.map (·.eval env')) = some (t1, w1, d1) ∧
    subsF.find? a = some t1 ∧ dF.find? a = d1

theorem Body.update_sites : ∀ (b : Body) (old : TrL R) (x : CML) (env : List Val) (subs : TrL R)
    (s w : R) (d : CML) (subsF : TrL R) (r : Val) (sF wF : R) (dF : CML),
    b.update P cfg old x env subs s w d = some (subsF, r, sF, wF, dF) →
    (∀ a, (subs.find? a).isSome → dF.find? a = d.find? a) ∧
    (∀ a, subs.find? a = none → b.site a = none → subsF.find? a = none ∧ dF.find? a = d.find? a) ∧
    (∀ a g es, subs.find? a = none → d.find? a = none → b.site a = some (g, es) →
      UpdSite P cfg old x a g es subsF dF)
  | .ret e, old, x, env, subs, s, w, d, subsF, r, sF, wF, dF, h => by
      simp only [Body.update, Option.some.injEq, Prod.mk.injEq] at h
      obtain ⟨rfl, _, _, _, rfl⟩ := h
      refine ⟨fun _ _ => rfl, fun a ha _ => ⟨ha, rfl⟩, fun a g es _ _ hs => ?_⟩
      simp [Body.site] at hs
  | .call addr g0 es0 rest, old, x, env, subs, s, w, d, subsF, r, sF, wF, dF, h => by
      simp only [Body.update] at h
      split at h
      · exact absurd h (by simp)
      rename_i hn
      have hn' : subs.find? addr = none := by simpa using hn
      split at h
      · exact absurd h (by simp)
      rename_i sub hsub
      simp only [Option.bind_eq_bind, Option.bind_eq_some_iff] at h
      obtain ⟨xsub, hxsub, ⟨t1, w1, d1⟩, h1, h2⟩ := h
      dsimp only at h2
      obtain ⟨dnew, h2, hd', hdself⟩ : ∃ dnew : CML,
          rest.update P cfg old x (env ++ [t1.retval]) (subs.snoc addr t1) (s + t1.score) (w + w1)
            dnew = some (subsF, r, sF, wF, dF) ∧
          (∀ a, a ≠ addr → dnew.find? a = d.find? a) ∧
          (d.find? addr = none → dnew.find? addr = d1) := by
        cases d1 with
        | none => exact ⟨d, h2, fun _ _ => rfl, fun h => h⟩
        | some c =>
          exact ⟨d.snoc addr c, h2, fun a hne => CML.find?_snoc_ne d addr c a hne,
            fun h => CML.find?_snoc_self d addr c h⟩
      obtain ⟨ih1, ih2, ih3⟩ := Body.update_sites rest _ _ _ _ _ _ _ _ _ _ _ _ h2
      have hself : (subs.snoc addr t1).find? addr = some t1 := TrL.find?_snoc_self hn'
      refine ⟨?_, ?_, ?_⟩
      · intro a ha
        have hne : a ≠ addr := by rintro rfl; simp [hn'] at ha
        obtain ⟨u, hu⟩ := Option.isSome_iff_exists.mp ha
        rw [ih1 a (by simp [TrL.find?_snoc_of_some hu]), hd' a hne]
      · intro a ha hs
        simp only [Body.site] at hs
        split at hs
        · simp at hs
        rename_i hne
        have := ih2 a (by rw [TrL.find?_snoc_ne _ _ _ _ hne]; exact ha) hs
        rw [hd' a hne] at this
        exact this
      · intro a g es ha hda hs
        simp only [Body.site] at hs
        split at hs
        · rename_i he
          subst he
          simp only [Option.some.injEq, Prod.mk.injEq] at hs
          obtain ⟨rfl, rfl⟩ := hs
          refine ⟨sub, xsub, env, t1, w1, d1, hsub, hxsub, h1, ?_, ?_⟩
          · exact Body.update_find P cfg rest _ _ _ _ _ _ _ _ _ _ _ _ h2 a t1 hself
          · rw [ih1 a (by simp [hself])]
            exact hdself hda
        · rename_i hne
          exact ih3 a g es (by rw [TrL.find?_snoc_ne _ _ _ _ hne]; exact ha)
            (by rw [hd' a hne]; exact hda) hs

/-- the sites of a whole Fn update (start of the handler loop) -/
theorem Body.update_sites_top {b : Body} {old : TrL R} {x : CML} {env : List Val}
    {subsF : TrL R} {r : Val} {sF wF : R} {dF : CML}
    (h : b.update P cfg old x env .nil 0 0 .nil = some (subsF, r, sF, wF, dF)) :
    (∀ a, b.site a = none → subsF.find? a = none ∧ dF.find? a = none) ∧
    (∀ a g es, b.site a = some (g, es) → UpdSite P cfg old x a g es subsF dF) := by
  obtain ⟨_, h2, h3⟩ := Body.update_sites P cfg b _ _ _ _ _ _ _ _ _ _ _ _ h
  exact ⟨fun a hs => h2 a rfl hs, fun a g es hs => h3 a g es rfl rfl hs⟩

/-! ## 1. constrained addresses hold the new values -/

/-- statement proved by induction on the program -/
def UpdConOK (g : GF) : Prop :=
  ∀ (t : Tr R) (x : Option CM) (args : List Val) (t' : Tr R) (w : R) (d : Option CM),
    g.update P cfg t x args = some (t', w, d) →
    ∀ y', t'.choices = some y' → ∀ p v, CM.leafAt? x p = some v →
      ∀ v', y'.leafAt p = some v' → v' = v

theorem updCon_lanes (g : GF) (IH : UpdConOK P cfg g) {old : TrL R} {xs : List (Option CM)}
    {rs : List (Upd R)} {x : Option CM} (hL : LanesUpd P cfg g old xs rs) (hx : XsOf x xs)
    (xl' : CML) (hxl' : (TrL.ofList (rs.map (·.1))).choices = some xl') :
    ∀ p v, CM.leafAt? x p = some v → ∀ v', (CM.lanes xl').leafAt p = some v' → v' = v := by
  intro p v hv v' hv'
  match p with
  | [] => rw [hx.2.1] at hv; cases hv
  | .key k :: p => rw [hx.2.2.1 k p] at hv; cases hv
  | .idx i :: p =>
    rw [hx.1 i p] at hv
    rw [lanes_leafAt _ xl' hxl', TrL.toList_ofList] at hv'
    cases hri : (rs.map (·.1))[i]? with
    | none => rw [hri] at hv'; simp [CM.leafAt?] at hv'
    | some ti' =>
      rw [hri] at hv'
      have hi : i < old.toList.length := by
        have := (List.getElem?_eq_some_iff.mp hri).1
        simpa [hL.1] using this
      obtain ⟨xi, b, argsi, hxi, hb, hu⟩ := hL.2.2 i old.toList[i] (by simp [hi])
      rw [List.getElem?_map, hb] at hri
      simp only [Option.map_some, Option.some.injEq] at hri
      subst hri
      rw [hxi] at hv
      simp only [Option.getD_some] at hv
      simp only [Option.bind_some] at hv'
      cases hc : b.1.choices with
      | none => rw [hc] at hv'; simp [CM.leafAt?] at hv'
      | some ci' =>
        rw [hc] at hv'
        exact IH _ _ _ b.1 b.2.1 b.2.2 hu ci' hc p v hv v' hv'

theorem updConOK_all : ∀ g, UpdConOK P cfg g := by
  refine GF.induct_sites _ ?_ ?_ ?_ ?_ ?_
  · -- dist
    intro d0 t x args t' w d h y' hy' p v hv v' hv'
    obtain ⟨vOld, sOld, vNew, sNew, rfl, rfl, rfl, hx⟩ := upd_dist_inv P cfg h
    rcases hx with ⟨rfl, _⟩ | rfl
    · simp [CM.leafAt?] at hv
    · simp only [Tr.choices, Option.some.injEq] at hy'
      subst hy'
      simp only [CM.leafAt?] at hv
      rw [hv] at hv'
      exact (Option.some.inj hv').symm
  · -- fn
    intro body ih t x args t' w d h y' hy' p v hv v' hv'
    obtain ⟨old, r0, s0, kids, subs, r, s, d', rfl, hx, hb, rfl, rfl⟩ := upd_fn_inv P cfg h
    obtain ⟨hx1, hx2, hx3⟩ := fn_x_leafAt hx
    simp only [Tr.choices, Option.map_eq_some_iff] at hy'
    obtain ⟨xl', hxl', rfl⟩ := hy'
    match p with
    | [] => rw [hx2] at hv; cases hv
    | .idx i :: p => rw [hx3] at hv; cases hv
    | .key a :: p =>
      rw [hx1] at hv
      rw [fn_leafAt subs xl' hxl'] at hv'
      obtain ⟨hs1, hs2⟩ := Body.update_sites_top P cfg hb
      cases hsite : body.site a with
      | none =>
        rw [(hs1 a hsite).1] at hv'
        simp [CM.leafAt?] at hv'
      | some ge =>
        obtain ⟨g, es⟩ := ge
        obtain ⟨sub, xsub, env', t1, w1, d1, hsub, hxsub, hu, hfF, _⟩ := hs2 a g es hsite
        rw [hfF] at hv'
        simp only [Option.bind_some] at hv'
        cases hk : kids.find? a with
        | none => rw [hk] at hv; simp [CM.leafAt?] at hv
        | some c =>
          rw [hk] at hv hxsub
          simp only [Option.some.injEq] at hxsub
          subst hxsub
          cases hc : t1.choices with
          | none => rw [hc] at hv'; simp [CM.leafAt?] at hv'
          | some c1 =>
            rw [hc] at hv'
            exact ih a g es hsite _ _ _ _ _ _ hu c1 hc p v hv v' hv'
  · -- vmap
    intro g axes n ih t x args t' w d h y' hy' p v hv v' hv'
    obtain ⟨old, xs, rs, rfl, hxo, hL, rfl, rfl⟩ := upd_vmap_inv P cfg h
    simp only [Tr.choices, Option.map_eq_some_iff] at hy'
    obtain ⟨xl', hxl', rfl⟩ := hy'
    exact updCon_lanes P cfg g ih hL hxo xl' hxl' p v hv v' hv'
  · -- scan
    intro g n ih t x args t' w d h y' hy' p v hv v' hv'
    obtain ⟨old, c0, xs, rs, c, rfl, hxo, hL, rfl, rfl⟩ := upd_scan_inv P cfg h
    simp only [Tr.choices, Option.map_eq_some_iff] at hy'
    obtain ⟨xl', hxl', rfl⟩ := hy'
    exact updCon_lanes P cfg g ih hL hxo xl' hxl' p v hv v' hv'
  · -- cond
    intro tg fg iht ihf t x args t' w d h y' hy' p v hv v' hv'
    obtain ⟨cOld, a, b, xq, a', wa, da, b', wb, db, rfl, hxq, ha, hb, rfl, _⟩ :=
      upd_cond_inv P cfg h
    have hv := hxq.con cfg p v hv
    simp only [Tr.choices, Option.bind_eq_bind, Option.bind_eq_some_iff] at hy'
    obtain ⟨ya', hya', yb', hyb', hm⟩ := hy'
    rw [CM.mergeCheck_leafAt _ _ _ _ hm p] at hv'
    have e1 := iht _ _ _ _ _ _ ha ya' hya' p v hv
    have e2 := ihf _ _ _ _ _ _ hb yb' hyb' p v hv
    cases h1 : ya'.leafAt p with
    | none =>
      rw [h1] at hv'
      simp only [mergeLeaf_none_left] at hv'
      exact e2 v' hv'
    | some u1 =>
      cases h2 : yb'.leafAt p with
      | none =>
        rw [h1, h2] at hv'
        simp only [mergeLeaf_none_right, Option.some.injEq] at hv'
        subst hv'
        exact e1 _ h1
      | some u2 =>
        rw [h1, h2] at hv'
        simp only [mergeLeaf, Option.some.injEq] at hv'
        have := e1 _ h1
        have := e2 _ h2
        subst_vars
        simp

/-- C03: after `update` with constraint `x`, every address constrained by `x` that exists in the
    new trace's choice map holds `x`'s value — every program (Cond at any depth: the constraint is
    handed to both branches, so whichever branch is visible holds it), every `cfg`. -/
theorem update_constrained_hold_new (g : GF) (t : Tr R) (x : Option CM) (args : List Val)
    (t' : Tr R) (w : R) (d : Option CM) (h : g.update P cfg t x args = some (t', w, d))
    (y' : CM) (hy' : t'.choices = some y') (p : Path) (v : Val) (hv : CM.leafAt? x p = some v)
    (v' : Val) (hv' : y'.leafAt p = some v') : v' = v :=
  updConOK_all P cfg g t x args t' w d h y' hy' p v hv v' hv'

/-! ## 1b. a constraint that `update` accepts agrees in kind with the old choice map -/

/-- statement proved by induction on the program -/
def UpdAgreeOK (g : GF) : Prop :=
  ∀ (t : Tr R) (xc : CM) (args : List Val) (t' : Tr R) (w : R) (d : Option CM),
    g.update P cfg t (some xc) args = some (t', w, d) → g.Canon t →
    ∀ y, t.choices = some y → ∀ q, AgreeAt xc y q

omit [AddCommGroup R] in
theorem TrL.choices_length (l : TrL R) (xl : CML) (h : l.choices = some xl) :
    xl.toList.length = l.toList.length := by
  have hF := TrL.choices_toList l xl h
  generalize l.toList = a at hF
  generalize xl.toList = b at hF
  induction hF with
  | nil => rfl
  | cons _ _ ih => simp [ih]

theorem updAgree_lanes (g : GF) (IH : UpdAgreeOK P cfg g) {old : TrL R} {xs : List (Option CM)}
    {rs : List (Upd R)} {l : CML} (hL : LanesUpd P cfg g old xs rs) (hxs : xs = l.toList.map some)
    (hcan : lanesCanon (fun t => g.Canon t) old) (xl : CML) (hxl : old.choices = some xl) :
    ∀ q, AgreeAt (.lanes l) (.lanes xl) q := by
  intro q kx ky h1 h2
  have hlen : l.toList.length = xl.toList.length := by
    rw [TrL.choices_length old xl hxl, ← hL.2.1, hxs]; simp
  match q with
  | [] =>
    simp only [CM.kindAt, Option.some.injEq] at h1 h2
    rw [← h1, ← h2, hlen]
  | .key k :: q => simp [CM.kindAt] at h1
  | .idx i :: q =>
    rw [CM.kindAt_lanes_idx] at h1 h2
    cases hxi : l.toList[i]? with
    | none => rw [hxi] at h1; simp at h1
    | some xv =>
      cases hyi : xl.toList[i]? with
      | none => rw [hyi] at h2; simp at h2
      | some yv =>
        rw [hxi] at h1
        rw [hyi] at h2
        simp only [Option.bind_some] at h1 h2
        rw [TrL.choices_get_eq old xl hxl i] at hyi
        cases hti : old.toList[i]? with
        | none => rw [hti] at hyi; simp at hyi
        | some ti =>
          rw [hti] at hyi
          simp only [Option.bind_some] at hyi
          obtain ⟨xi, b, argsi, hxi', hb, hu⟩ := hL.2.2 i ti hti
          rw [hxs, List.getElem?_map, hxi] at hxi'
          simp only [Option.map_some, Option.some.injEq] at hxi'
          subst hxi'
          exact IH ti xv argsi b.1 b.2.1 b.2.2 hu (lanesCanon_get _ old hcan i ti hti) yv hyi q
            kx ky h1 h2

theorem updAgreeOK_all : ∀ g, UpdAgreeOK P cfg g := by
  refine GF.induct_sites _ ?_ ?_ ?_ ?_ ?_
  · -- dist
    intro d0 t xc args t' w d h hcan y hy q kx ky h1 h2
    obtain ⟨vOld, sOld, vNew, sNew, rfl, rfl, rfl, hx⟩ := upd_dist_inv P cfg h
    rcases hx with ⟨hx, _⟩ | hx
    · cases hx
    · simp only [Option.some.injEq] at hx
      subst hx
      simp only [Tr.choices, Option.some.injEq] at hy
      subst hy
      match q with
      | [] =>
        simp only [CM.kindAt, Option.some.injEq] at h1 h2
        rw [← h1, ← h2]
      | _ :: _ => simp [CM.kindAt] at h1
  · -- fn
    intro body ih t xc args t' w d h hcan y hy q kx ky h1 h2
    obtain ⟨old, r0, s0, kids, subs, r, s, d', rfl, hx, hb, rfl, rfl⟩ := upd_fn_inv P cfg h
    rcases hx with ⟨hx, _⟩ | hx
    · cases hx
    simp only [Option.some.injEq] at hx
    subst hx
    simp only [GF.Canon] at hcan
    simp only [Tr.choices, Option.map_eq_some_iff] at hy
    obtain ⟨xl, hxl, rfl⟩ := hy
    match q with
    | [] =>
      simp only [CM.kindAt, Option.some.injEq] at h1 h2
      rw [← h1, ← h2]
    | .idx i :: q => simp [CM.kindAt] at h1
    | .key a :: q =>
      rw [CM.kindAt_node_key] at h1 h2
      cases hk : kids.find? a with
      | none => rw [hk] at h1; simp at h1
      | some xv =>
        cases hya : xl.find? a with
        | none => rw [hya] at h2; simp at h2
        | some yv =>
          rw [hk] at h1
          rw [hya] at h2
          simp only [Option.bind_some] at h1 h2
          rw [TrL.choices_find_eq old xl hxl a] at hya
          obtain ⟨_, hs2⟩ := Body.update_sites_top P cfg hb
          cases hsite : body.site a with
          | none =>
            rw [Body.canonL_site_none body old hcan a hsite] at hya
            simp at hya
          | some ge =>
            obtain ⟨g, es⟩ := ge
            obtain ⟨sub, xsub, env', t1, w1, d1, hsub, hxsub, hu, _, _⟩ := hs2 a g es hsite
            rw [hk] at hxsub
            simp only [Option.some.injEq] at hxsub
            subst hxsub
            rw [hsub] at hya
            simp only [Option.bind_some] at hya
            obtain ⟨t0, ht0, hg⟩ := Body.canonL_site_some body old hcan a g es hsite
            rw [hsub] at ht0
            cases ht0
            exact ih a g es hsite sub xv _ t1 w1 d1 hu hg yv hya q kx ky h1 h2
  · -- vmap
    intro g axes n ih t xc args t' w d h hcan y hy q
    obtain ⟨old, xs, rs, rfl, hxo, hL, rfl, rfl⟩ := upd_vmap_inv P cfg h
    rcases hxo.2.2.2 with hx | ⟨l, hx, hxs⟩
    · cases hx
    simp only [Option.some.injEq] at hx
    subst hx
    simp only [GF.Canon] at hcan
    simp only [Tr.choices, Option.map_eq_some_iff] at hy
    obtain ⟨xl, hxl, rfl⟩ := hy
    exact updAgree_lanes P cfg g ih hL hxs hcan xl hxl q
  · -- scan
    intro g n ih t xc args t' w d h hcan y hy q
    obtain ⟨old, c0, xs, rs, c, rfl, hxo, hL, rfl, rfl⟩ := upd_scan_inv P cfg h
    rcases hxo.2.2.2 with hx | ⟨l, hx, hxs⟩
    · cases hx
    simp only [Option.some.injEq] at hx
    subst hx
    simp only [GF.Canon] at hcan
    simp only [Tr.choices, Option.map_eq_some_iff] at hy
    obtain ⟨xl, hxl, rfl⟩ := hy
    exact updAgree_lanes P cfg g ih hL hxs hcan xl hxl q
  · -- cond
    intro tg fg iht ihf t xc args t' w d h hcan y hy
    obtain ⟨cOld, a, b, xq, a', wa, da, b', wb, db, rfl, hxq, ha, hb, rfl, _⟩ :=
      upd_cond_inv P cfg h
    simp only [GF.Canon] at hcan
    have hy0 := hy
    simp only [Tr.choices, Option.bind_eq_bind, Option.bind_eq_some_iff] at hy
    obtain ⟨ya, hya, yb, hyb, hm⟩ := hy
    -- agreement of the constraint handed to the branches with the merged map
    have key : ∀ (z : CM), xq = some z → ∀ q, AgreeAt z y q := by
      intro z hz q kz ky h1 h2
      subst hz
      rw [CM.mergeCheck_kindAt _ _ _ _ hm q] at h2
      cases hka : ya.kindAt q with
      | some k =>
        rw [hka] at h2
        simp only [mergeK, Option.some.injEq] at h2
        subst h2
        exact iht a z _ a' wa da ha hcan.1 ya hya q kz k h1 hka
      | none =>
        rw [hka] at h2
        simp only [mergeK] at h2
        exact ihf b z _ b' wb db hb hcan.2 yb hyb q kz ky h1 h2
    rcases hxq with ⟨_, rfl⟩ | ⟨_, y0, hvis, ⟨hx, _⟩ | ⟨xc', hx, rfl⟩⟩
    · exact key xc rfl
    · cases hx
    · simp only [Option.some.injEq] at hx
      subst hx
      rw [hy0] at hvis
      simp only [Option.some.injEq] at hvis
      subst hvis
      have hfill := key _ rfl
      intro q
      induction hn : q.length using Nat.strong_induction_on generalizing q with
      | _ n ihn =>
        intro kx ky h1 h2
        have hpre : ∀ q', q' <+: q → q' ≠ q → AgreeAt xc y q' := by
          intro q' hq' hne
          refine ihn q'.length ?_ q' rfl
          obtain ⟨r, rfl⟩ := hq'
          rw [← hn]
          cases r with
          | nil => simp at hne
          | cons _ _ => simp
        exact hfill q kx ky (CM.fill_kindAt q y xc kx hpre h1) h2

/-- a constraint map that `update` accepts has, at every path it shares with the old choice map,
    the same kind of node (leaf / dict / vectorised map of the same length) -/
theorem update_agree (g : GF) (t : Tr R) (xc : CM) (args : List Val) (t' : Tr R) (w : R)
    (d : Option CM) (h : g.update P cfg t (some xc) args = some (t', w, d)) (hcan : g.Canon t)
    (y : CM) (hy : t.choices = some y) (q : Path) : AgreeAt xc y q :=
  updAgreeOK_all P cfg g t xc args t' w d h hcan y hy q

/-! ## 2. unconstrained addresses keep the old values; the discard holds the old values -/

theorem CM.leafAt_node_nil' (p : Path) : (CM.node .nil).leafAt p = none := by
  match p with
  | [] => rfl
  | .idx _ :: _ => rfl
  | .key _ :: _ => simp [CM.leafAt, CML.leafAtKey]

theorem lanesDiscard_leafAt_idx (ds : List (Option CM)) (i : Nat) (p : Path) :
    CM.leafAt? (lanesDiscard ds) (.idx i :: p) = CM.leafAt? ((ds[i]?).getD none) p := by
  unfold lanesDiscard
  split
  · rename_i hall
    cases hi : ds[i]? with
    | none => rfl
    | some o =>
      have := List.all_eq_true.mp hall o (List.mem_of_getElem? hi)
      cases o with
      | none => rfl
      | some c => simp at this
  · simp only [CM.leafAt?, CM.leafAt_lanes_idx, CML.toList_ofList, List.getElem?_map]
    cases ds[i]? with
    | none => rfl
    | some o =>
      cases o with
      | none => simp [CM.leafAt_node_nil']
      | some c => rfl

theorem lanesDiscard_leafAt_nil (ds : List (Option CM)) :
    CM.leafAt? (lanesDiscard ds) [] = none := by
  unfold lanesDiscard
  split <;> simp [CM.leafAt?, CM.leafAt]

theorem lanesDiscard_leafAt_key (ds : List (Option CM)) (k : String) (p : Path) :
    CM.leafAt? (lanesDiscard ds) (.key k :: p) = none := by
  unfold lanesDiscard
  split <;> simp [CM.leafAt?, CM.leafAt]

/-- the three facts proved together (`can` = the old trace has canonical shape, `same` = no Cond
    switched branch) -/
structure UpdVals (can same : Prop) (xv dv yv yv' : Option Val) : Prop where
  /-- the new choice map has a leaf exactly where the old one has -/
  dom : can → yv'.isSome = yv.isSome
  /-- unconstrained addresses keep their value: when no Cond switched branch, or always for the
      repaired `Cond.update` (`condUpdateFill`) -/
  unc : xv = none → (same ∨ cfg.condUpdateFill = true) → can → yv' = yv
  /-- the discard (repaired `Cond.update`) holds the old visible value of every address -/
  dis : cfg.condDiscardVisible = true → can → dv = yv

def UpdValsOK (g : GF) : Prop :=
  ∀ (t : Tr R) (x : Option CM) (args : List Val) (t' : Tr R) (w : R) (d : Option CM),
    g.update P cfg t x args = some (t', w, d) →
    ∀ y y', t.choices = some y → t'.choices = some y' →
      ∀ p, UpdVals cfg (g.Canon t) (Tr.sameChecks t t') (CM.leafAt? x p) (CM.leafAt? d p)
        (y.leafAt p) (y'.leafAt p)

theorem updVals_lanes (g : GF) (IH : UpdValsOK P cfg g) {old : TrL R} {xs : List (Option CM)}
    {rs : List (Upd R)} {x : Option CM} (hL : LanesUpd P cfg g old xs rs) (hx : XsOf x xs)
    (xl xl' : CML) (hxl : old.choices = some xl)
    (hxl' : (TrL.ofList (rs.map (·.1))).choices = some xl') (can same : Prop)
    (hcan : can → lanesCanon (fun t => g.Canon t) old)
    (hsame : same → Tr.sameChecks.TrL.sameChecksPos old (TrL.ofList (rs.map (·.1)))) :
    ∀ p, UpdVals cfg can same (CM.leafAt? x p) (CM.leafAt? (lanesDiscard (rs.map (·.2.2))) p)
      ((CM.lanes xl).leafAt p) ((CM.lanes xl').leafAt p) := by
  intro p
  match p with
  | [] =>
    exact ⟨fun _ => rfl, fun _ _ _ => rfl, fun _ _ => lanesDiscard_leafAt_nil _⟩
  | .key k :: p =>
    exact ⟨fun _ => rfl, fun _ _ _ => rfl, fun _ _ => lanesDiscard_leafAt_key _ _ _⟩
  | .idx i :: p =>
    rw [lanes_leafAt _ xl hxl, lanes_leafAt _ xl' hxl', TrL.toList_ofList,
      lanesDiscard_leafAt_idx, hx.1 i p]
    cases hti : old.toList[i]? with
    | none =>
      have hi : old.toList.length ≤ i := List.getElem?_eq_none_iff.mp hti
      have h1 : (rs.map (·.1))[i]? = none := by
        apply List.getElem?_eq_none_iff.mpr; simp [hL.1, hi]
      have h2 : (rs.map (·.2.2))[i]? = none := by
        apply List.getElem?_eq_none_iff.mpr; simp [hL.1, hi]
      rw [h1, h2]
      exact ⟨fun _ => rfl, fun _ _ _ => rfl, fun _ _ => rfl⟩
    | some ti =>
      obtain ⟨xi, b, argsi, hxi, hb, hu⟩ := hL.2.2 i ti hti
      have h1 : (rs.map (·.1))[i]? = some b.1 := by simp [hb]
      have h2 : (rs.map (·.2.2))[i]? = some b.2.2 := by simp [hb]
      obtain ⟨ci, hci, _⟩ := TrL.choices_get_some old xl hxl i ti hti
      obtain ⟨ci', hci', _⟩ := TrL.choices_get_some _ xl' hxl' i b.1
        (by rw [TrL.toList_ofList]; exact h1)
      rw [h1, h2, hxi]
      simp only [Option.bind_some, hci, hci', Option.getD_some, CM.leafAt?]
      have ih := IH ti xi argsi b.1 b.2.1 b.2.2 hu ci ci' hci hci' p
      have hcan' : can → g.Canon ti := fun hc => lanesCanon_get _ old (hcan hc) i ti hti
      have hsame' : same → Tr.sameChecks ti b.1 := fun hs =>
        TrL.sameChecksPos_get old _ (hsame hs) i ti b.1 hti (by rw [TrL.toList_ofList]; exact h1)
      exact ⟨fun hc => ih.dom (hcan' hc),
        fun hx hs hc => ih.unc hx (hs.imp hsame' id) (hcan' hc),
        fun hd hc => by simpa only [CM.leafAt?] using ih.dis hd (hcan' hc)⟩

theorem updValsOK_all : ∀ g, UpdValsOK P cfg g := by
  refine GF.induct_sites _ ?_ ?_ ?_ ?_ ?_
  · -- dist
    intro d0 t x args t' w d h y y' hy hy' p
    obtain ⟨vOld, sOld, vNew, sNew, rfl, rfl, rfl, hx⟩ := upd_dist_inv P cfg h
    simp only [Tr.choices, Option.some.injEq] at hy hy'
    subst hy hy'
    match p with
    | [] =>
      refine ⟨fun _ => rfl, fun hxn _ _ => ?_, fun _ _ => rfl⟩
      rcases hx with ⟨rfl, rfl⟩ | rfl
      · rfl
      · simp [CM.leafAt?, CM.leafAt] at hxn
    | _ :: _ => exact ⟨fun _ => rfl, fun _ _ _ => rfl, fun _ _ => rfl⟩
  · -- fn
    intro body ih t x args t' w d h y y' hy hy' p
    obtain ⟨old, r0, s0, kids, subs, r, s, d', rfl, hx, hb, rfl, rfl⟩ := upd_fn_inv P cfg h
    obtain ⟨hx1, hx2, hx3⟩ := fn_x_leafAt hx
    simp only [Tr.choices, Option.map_eq_some_iff] at hy hy'
    obtain ⟨xl, hxl, rfl⟩ := hy
    obtain ⟨xl', hxl', rfl⟩ := hy'
    match p with
    | [] => exact ⟨fun _ => rfl, fun _ _ _ => rfl, fun _ _ => rfl⟩
    | .idx i :: p => exact ⟨fun _ => rfl, fun _ _ _ => rfl, fun _ _ => rfl⟩
    | .key a :: p =>
      have hd : CM.leafAt? (some (CM.node d')) (.key a :: p) = CM.leafAt? (d'.find? a) p := by
        simp only [CM.leafAt?, CM.leafAt_node_key]
        cases d'.find? a <;> rfl
      rw [fn_leafAt old xl hxl, fn_leafAt subs xl' hxl', hd, hx1]
      obtain ⟨hs1, hs2⟩ := Body.update_sites_top P cfg hb
      cases hsite : body.site a with
      | none =>
        obtain ⟨e1, e2⟩ := hs1 a hsite
        rw [e1, e2]
        have key : (GF.fn body).Canon (Tr.fn old r0 s0) → old.find? a = none := fun hc => by
          simp only [GF.Canon] at hc
          exact Body.canonL_site_none body old hc a hsite
        exact ⟨fun hc => by simp [key hc, CM.leafAt?], fun _ _ hc => by simp [key hc, CM.leafAt?],
          fun _ hc => by simp [key hc, CM.leafAt?]⟩
      | some ge =>
        obtain ⟨g, es⟩ := ge
        obtain ⟨sub, xsub, env', t1, w1, d1, hsub, hxsub, hu, hfF, hdF⟩ := hs2 a g es hsite
        obtain ⟨cs, hcs, _⟩ := TrL.choices_find old xl hxl a sub hsub
        obtain ⟨c1, hc1, _⟩ := TrL.choices_find subs xl' hxl' a t1 hfF
        rw [hsub, hfF, hdF]
        simp only [Option.bind_some, hcs, hc1]
        have IH := ih a g es hsite sub (some xsub) _ t1 w1 d1 hu cs c1 hcs hc1 p
        have hcan' : (GF.fn body).Canon (Tr.fn old r0 s0) → g.Canon sub := fun hc => by
          simp only [GF.Canon] at hc
          obtain ⟨t0, ht0, hg⟩ := Body.canonL_site_some body old hc a g es hsite
          rw [hsub] at ht0
          cases ht0
          exact hg
        have hsame' : Tr.sameChecks (Tr.fn old r0 s0) (Tr.fn subs r s) → Tr.sameChecks sub t1 :=
          fun hs => by
            rw [Tr.sameChecks.eq_2] at hs
            have := TrL.sameChecks_find old subs hs a sub hsub
            rw [hfF] at this
            exact this
        refine ⟨fun hc => IH.dom (hcan' hc), fun hxn hs hc => ?_, fun hdv hc => IH.dis hdv (hcan' hc)⟩
        cases hk : kids.find? a with
        | some c =>
          rw [hk] at hxsub hxn
          simp only [Option.some.injEq] at hxsub
          subst hxsub
          exact IH.unc hxn (hs.imp hsame' id) (hcan' hc)
        | none =>
          rw [hk] at hxsub
          simp only at hxsub
          rw [hcs] at hxsub
          simp only [Option.some.injEq] at hxsub
          subst hxsub
          have hdom := IH.dom (hcan' hc)
          simp only [CM.leafAt?]
          cases e1 : c1.leafAt p with
          | none =>
            cases e0 : cs.leafAt p with
            | none => rfl
            | some v0 => rw [e1, e0] at hdom; simp at hdom
          | some v1 =>
            cases e0 : cs.leafAt p with
            | none => rw [e1, e0] at hdom; simp at hdom
            | some v0 =>
              have := updConOK_all P cfg g sub (some cs) _ t1 w1 d1 hu c1 hc1 p v0
                (by simpa [CM.leafAt?] using e0) v1 e1
              rw [this]
  · -- vmap
    intro g axes n ih t x args t' w d h y y' hy hy' p
    obtain ⟨old, xs, rs, rfl, hxo, hL, rfl, rfl⟩ := upd_vmap_inv P cfg h
    simp only [Tr.choices, Option.map_eq_some_iff] at hy hy'
    obtain ⟨xl, hxl, rfl⟩ := hy
    obtain ⟨xl', hxl', rfl⟩ := hy'
    exact updVals_lanes P cfg g ih hL hxo xl xl' hxl hxl' _ _
      (fun hc => by simpa only [GF.Canon] using hc)
      (fun hs => by rw [Tr.sameChecks.eq_3] at hs; exact hs) p
  · -- scan
    intro g n ih t x args t' w d h y y' hy hy' p
    obtain ⟨old, c0, xs, rs, c, rfl, hxo, hL, rfl, rfl⟩ := upd_scan_inv P cfg h
    simp only [Tr.choices, Option.map_eq_some_iff] at hy hy'
    obtain ⟨xl, hxl, rfl⟩ := hy
    obtain ⟨xl', hxl', rfl⟩ := hy'
    exact updVals_lanes P cfg g ih hL hxo xl xl' hxl hxl' _ _
      (fun hc => by simpa only [GF.Canon] using hc)
      (fun hs => by rw [Tr.sameChecks.eq_4] at hs; exact hs) p
  · -- cond
    intro tg fg iht ihf t x args t' w d h y y' hy hy' p
    obtain ⟨cOld, a, b, xq, a', wa, da, b', wb, db, rfl, hxq, ha, hb, rfl, x1, x2, rfl, rfl,
      hdisc⟩ := upd_cond_inv P cfg h
    have hy0 := hy
    simp only [Tr.choices, Option.bind_eq_bind, Option.bind_eq_some_iff] at hy hy'
    obtain ⟨ya, hya, yb, hyb, hm⟩ := hy
    obtain ⟨ya', hya', yb', hyb', hm'⟩ := hy'
    have A := iht _ _ _ _ _ _ ha ya ya' hya hya' p
    have B := ihf _ _ _ _ _ _ hb yb yb' hyb hyb' p
    have eY := CM.mergeCheck_leafAt _ _ _ _ hm p
    have eY' := CM.mergeCheck_leafAt _ _ _ _ hm' p
    have hdom : (GF.cond tg fg).Canon (Tr.cond cOld a b) →
        (mergeLeaf (args.getD 0 .nil).truthy (ya'.leafAt p) (yb'.leafAt p)).isSome =
          (mergeLeaf cOld (ya.leafAt p) (yb.leafAt p)).isSome := fun hc => by
      simp only [GF.Canon] at hc
      rw [mergeLeaf_isSome, mergeLeaf_isSome, A.dom hc.1, B.dom hc.2]
    rw [eY, eY']
    refine ⟨hdom, fun hxn hs hc => ?_, fun hdv hc => ?_⟩
    · have hcan := hc
      simp only [GF.Canon] at hc
      cases hflag : cfg.condUpdateFill with
      | false =>
        rcases hs with hs | hs
        · rcases hxq with ⟨_, rfl⟩ | ⟨hf, _⟩
          · rw [Tr.sameChecks.eq_5] at hs
            obtain ⟨rfl, hsa, hsb⟩ := hs
            rw [A.unc hxn (.inl hsa) hc.1, B.unc hxn (.inl hsb) hc.2]
          · rw [hflag] at hf; cases hf
        · rw [hflag] at hs; cases hs
      | true =>
        rcases hxq with ⟨hf, _⟩ | ⟨_, y0, hvis, hcase⟩
        · rw [hflag] at hf; cases hf
        rw [hy0] at hvis
        simp only [Option.some.injEq] at hvis
        subst hvis
        have hd := hdom hcan
        cases hY : mergeLeaf cOld (ya.leafAt p) (yb.leafAt p) with
        | none =>
          rw [hY] at hd
          cases hY' : mergeLeaf (args.getD 0 .nil).truthy (ya'.leafAt p) (yb'.leafAt p) with
          | none => rfl
          | some v' => rw [hY'] at hd; simp at hd
        | some v =>
          rw [hY] at hd
          rw [← eY] at hY
          have hq : CM.leafAt? xq p = some v := by
            rcases hcase with ⟨_, rfl⟩ | ⟨xc, rfl, rfl⟩
            · exact hY
            · exact CM.fill_leafAt_none p y xc v
                (fun q' _ => update_agree P cfg _ _ xc _ _ _ _ h hcan y hy0 q')
                (by simpa [CM.leafAt?] using hxn) hY
          have ca := fun v' => updConOK_all P cfg tg a xq _ a' wa _ ha ya' hya' p v hq v'
          have cb := fun v' => updConOK_all P cfg fg b xq _ b' wb _ hb yb' hyb' p v hq v'
          revert hd ca cb
          cases ya'.leafAt p <;> cases yb'.leafAt p <;> intro hd ca cb
          · simp [mergeLeaf] at hd
          · simp only [mergeLeaf_none_left]; rw [cb _ rfl]
          · simp only [mergeLeaf_none_right]; rw [ca _ rfl]
          · simp only [mergeLeaf]; rw [ca _ rfl, cb _ rfl]; simp
    · simp only [GF.Canon] at hc
      simp only [hdv, if_true, Option.map_eq_some_iff] at hdisc
      obtain ⟨dm, hdm, rfl⟩ := hdisc
      have ea := A.dis hdv hc.1
      have eb := B.dis hdv hc.2
      simp only [CM.leafAt?] at ea eb ⊢
      rw [CM.mergeCheck_leafAt _ _ _ _ hdm p, ea, eb]

/-- the new choice map has leaves exactly where the old one has (old trace of canonical shape) -/
theorem update_leaf_domain (g : GF) (t : Tr R) (x : Option CM) (args : List Val)
    (t' : Tr R) (w : R) (d : Option CM) (h : g.update P cfg t x args = some (t', w, d))
    (hcan : g.Canon t) (y y' : CM) (hy : t.choices = some y) (hy' : t'.choices = some y')
    (p : Path) : (y'.leafAt p).isSome = (y.leafAt p).isSome :=
  (updValsOK_all P cfg g t x args t' w d h y y' hy hy' p).dom hcan

/-- C03: an address that the constraint does not mention keeps its value, provided no Cond
    switched branch.  `hcan`: the old trace has the shape the operations build (without it a junk
    entry of the old trace would disappear). -/
theorem update_unconstrained_keep_old (g : GF) (t : Tr R) (x : Option CM) (args : List Val)
    (t' : Tr R) (w : R) (d : Option CM) (h : g.update P cfg t x args = some (t', w, d))
    (hcan : g.Canon t) (hs : Tr.sameChecks t t')
    (y y' : CM) (hy : t.choices = some y) (hy' : t'.choices = some y')
    (p : Path) (hx : CM.leafAt? x p = none) : y'.leafAt p = y.leafAt p :=
  (updValsOK_all P cfg g t x args t' w d h y y' hy hy' p).unc hx (.inl hs) hcan

/-- C03, repaired `Cond.update` (`cfg.condUpdateFill`: the constraint is completed with the VISIBLE
    old choices before it is handed to both branches): an address that the constraint does not
    mention keeps its old visible value — ALSO when Conds switch branch (no `sameChecks`
    hypothesis). -/
theorem update_unconstrained_keep_old_fill (hf : cfg.condUpdateFill = true)
    (g : GF) (t : Tr R) (x : Option CM) (args : List Val)
    (t' : Tr R) (w : R) (d : Option CM) (h : g.update P cfg t x args = some (t', w, d))
    (hcan : g.Canon t) (y y' : CM) (hy : t.choices = some y) (hy' : t'.choices = some y')
    (p : Path) (hx : CM.leafAt? x p = none) : y'.leafAt p = y.leafAt p :=
  (updValsOK_all P cfg g t x args t' w d h y y' hy hy' p).unc hx (.inr hf) hcan

/-- C03, repaired `Cond.update` (`cfg.condUpdateFill`), the complete value-level description of
    `update`: the new choice map has the old one's addresses, and each holds the constraint's value
    if the constraint has one there and the old visible value otherwise. -/
theorem update_values_fill (hf : cfg.condUpdateFill = true)
    (g : GF) (t : Tr R) (x : Option CM) (args : List Val)
    (t' : Tr R) (w : R) (d : Option CM) (h : g.update P cfg t x args = some (t', w, d))
    (hcan : g.Canon t) (y y' : CM) (hy : t.choices = some y) (hy' : t'.choices = some y')
    (p : Path) : y'.leafAt p = (y.leafAt p).map fun v => (CM.leafAt? x p).getD v := by
  have hdom := update_leaf_domain P cfg g t x args t' w d h hcan y y' hy hy' p
  cases hx : CM.leafAt? x p with
  | none =>
    rw [update_unconstrained_keep_old_fill P cfg hf g t x args t' w d h hcan y y' hy hy' p hx]
    cases y.leafAt p <;> rfl
  | some vx =>
    cases e0 : y.leafAt p with
    | none =>
      rw [e0] at hdom
      cases e1 : y'.leafAt p with
      | none => rfl
      | some v' => rw [e1] at hdom; simp at hdom
    | some v =>
      rw [e0] at hdom
      cases e1 : y'.leafAt p with
      | none => rw [e1] at hdom; simp at hdom
      | some v' =>
        rw [update_constrained_hold_new P cfg g t x args t' w d h y' hy' p vx hx v' e1]
        rfl

/-- C03, repaired `Cond.update` (`condDiscardVisible`): the discard holds, at EVERY address of the
    old choice map, the value that was visible there (in this code base `Fn.update` re-constrains
    every call site, so every Distribution reports its old value). -/
theorem update_discard_eq_old (hdv : cfg.condDiscardVisible = true)
    (g : GF) (t : Tr R) (x : Option CM) (args : List Val)
    (t' : Tr R) (w : R) (d : Option CM) (h : g.update P cfg t x args = some (t', w, d))
    (hcan : g.Canon t) (y y' : CM) (hy : t.choices = some y) (hy' : t'.choices = some y')
    (p : Path) : CM.leafAt? d p = y.leafAt p :=
  (updValsOK_all P cfg g t x args t' w d h y y' hy hy' p).dis hdv hcan

/-- the code as it is (`cfg.condUpdateFill = false`), what holds after a branch switch of a Cond
    that receives the constraint directly: an unconstrained address shows the value STORED in the
    branch that is now taken (the non-taken branch's old value — the defect that `condUpdateFill`
    repairs), and where only the other branch has the address, that one's. -/
theorem update_cond_switch_values (hf : cfg.condUpdateFill = false)
    (tg fg : GF) (cOld : Bool) (a b : Tr R) (x : Option CM)
    (args : List Val) (t' : Tr R) (w : R) (d : Option CM)
    (h : (GF.cond tg fg).update P cfg (.cond cOld a b) x args = some (t', w, d)) :
    ∃ a' b', t' = .cond (args.getD 0 .nil).truthy a' b' ∧
      (tg.Canon a → fg.Canon b → Tr.sameChecks a a' → Tr.sameChecks b b' →
        ∀ ya yb y', a.choices = some ya → b.choices = some yb → t'.choices = some y' →
        ∀ p, CM.leafAt? x p = none →
          y'.leafAt p = mergeLeaf (args.getD 0 .nil).truthy (ya.leafAt p) (yb.leafAt p)) := by
  obtain ⟨cOld', a0, b0, xq, a', wa, da, b', wb, db, ht, hxq, ha, hb, rfl, _⟩ :=
    upd_cond_inv P cfg h
  cases ht
  have hxq' : xq = x := by
    rcases hxq with ⟨_, rfl⟩ | ⟨hf', _⟩
    · rfl
    · rw [hf] at hf'; cases hf'
  rw [hxq'] at ha hb
  refine ⟨a', b', rfl, ?_⟩
  intro hca hcb hsa hsb ya yb y' hya hyb hy' p hx
  simp only [Tr.choices, Option.bind_eq_bind, Option.bind_eq_some_iff] at hy'
  obtain ⟨ya', hya', yb', hyb', hm'⟩ := hy'
  rw [CM.mergeCheck_leafAt _ _ _ _ hm' p,
    update_unconstrained_keep_old P cfg tg a x _ a' wa da ha hca hsa ya ya' hya hya' p hx,
    update_unconstrained_keep_old P cfg fg b x _ b' wb db hb hcb hsb yb yb' hyb hyb' p hx]

/-- … whereas below a call site that the constraint does not mention at all, `Fn.update` constrains
    the callee to its own old choice map, so every address below keeps its old VISIBLE value even
    when a Cond below switches branch (no `sameChecks` hypothesis). -/
theorem update_unconstrained_site_keeps_visible (body : Body) (t : Tr R) (x : Option CM)
    (args : List Val) (t' : Tr R) (w : R) (d : Option CM)
    (h : (GF.fn body).update P cfg t x args = some (t', w, d)) (hcan : (GF.fn body).Canon t)
    (y y' : CM) (hy : t.choices = some y) (hy' : t'.choices = some y') (a : String)
    (hx : x = none ∨ ∃ kids, x = some (.node kids) ∧ kids.find? a = none) (p : Path) :
    y'.leafAt (.key a :: p) = y.leafAt (.key a :: p) := by
  obtain ⟨old, r0, s0, kids, subs, r, s, d', rfl, hxk, hb, rfl, rfl⟩ := upd_fn_inv P cfg h
  have hk : kids.find? a = none := by
    rcases hxk with ⟨_, rfl⟩ | rfl
    · rfl
    · rcases hx with hx | ⟨kids', hx, hk⟩
      · cases hx
      · cases hx; exact hk
  simp only [Tr.choices, Option.map_eq_some_iff] at hy hy'
  obtain ⟨xl, hxl, rfl⟩ := hy
  obtain ⟨xl', hxl', rfl⟩ := hy'
  rw [fn_leafAt old xl hxl, fn_leafAt subs xl' hxl']
  obtain ⟨hs1, hs2⟩ := Body.update_sites_top P cfg hb
  simp only [GF.Canon] at hcan
  cases hsite : body.site a with
  | none =>
    rw [(hs1 a hsite).1, Body.canonL_site_none body old hcan a hsite]
  | some ge =>
    obtain ⟨g, es⟩ := ge
    obtain ⟨sub, xsub, env', t1, w1, d1, hsub, hxsub, hu, hfF, hdF⟩ := hs2 a g es hsite
    obtain ⟨cs, hcs, _⟩ := TrL.choices_find old xl hxl a sub hsub
    obtain ⟨c1, hc1, _⟩ := TrL.choices_find subs xl' hxl' a t1 hfF
    rw [hk] at hxsub
    simp only at hxsub
    rw [hcs] at hxsub
    simp only [Option.some.injEq] at hxsub
    subst hxsub
    obtain ⟨t0, ht0, hg⟩ := Body.canonL_site_some body old hcan a g es hsite
    rw [hsub] at ht0
    cases ht0
    rw [hsub, hfF]
    simp only [Option.bind_some, hcs, hc1, CM.leafAt?]
    have hdom := update_leaf_domain P cfg g sub (some cs) _ t1 w1 d1 hu hg cs c1 hcs hc1 p
    cases e1 : c1.leafAt p with
    | none =>
      cases e0 : cs.leafAt p with
      | none => rfl
      | some v0 => rw [e1, e0] at hdom; simp at hdom
    | some v1 =>
      cases e0 : cs.leafAt p with
      | none => rw [e1, e0] at hdom; simp at hdom
      | some v0 =>
        rw [update_constrained_hold_new P cfg g sub (some cs) _ t1 w1 d1 hu c1 hc1 p v0
          (by simpa [CM.leafAt?] using e0) v1 e1]

end Genjax
