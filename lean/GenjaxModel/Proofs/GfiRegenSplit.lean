import GenjaxModel.Model.GfiRegenDist
import GenjaxModel.Proofs.GfiDistMonad
/-!
  `GF.assessS` (the density `assessP` split along a selection into the product of the masses of the
  SELECTED sites and the product of the masses of the unselected sites) multiplies back to `assessP`
  (`assessP_eq_assessS`), and `CM.eqOff` ("the two choice maps agree off the selection") is symmetric
  (`CM.eqOff_symm`).
-/
namespace Genjax
open Smc Smc.FinDist

section Split
variable {K : Type} [Field K] (pd : PD K)

theorem prodK_map_mul {α : Type} (f g : α → K) (l : List α) :
    prodK (l.map fun o => f o * g o) = prodK (l.map f) * prodK (l.map g) := by
  induction l with
  | nil => simp only [List.map_nil, prodK, mul_one]
  | cons a l ih =>
    simp only [List.map_cons, prodK, ih]
    ring

mutual
  theorem assessP_split_gf : (g : GF) → ∀ (x : CM) (s : Sel) (args : List Val),
      g.assessP pd x args = (g.assessS pd x s args).map fun o => (o.1.1 * o.1.2, o.2)
    | .dist d, x, s, args => by
        cases x <;> simp only [GF.assessP, GF.assessS, Option.map_some, Option.map_none]
        split <;> simp only [mul_one, one_mul]
    | .fn body, x, s, args => by
        cases x <;> simp only [GF.assessP, GF.assessS, Option.map_none]
        exact assessP_split_body body _ _ _ _
    | .vmap g axes n, x, s, args => by
        cases x <;> simp only [GF.assessP, GF.assessS, Option.map_none]
        rename_i l
        have : (fun i xi => g.assessP pd xi (laneArgs axes args i))
            = fun i xi => (g.assessS pd xi s (laneArgs axes args i)).map
                fun o => (o.1.1 * o.1.2, o.2) := by
          funext i xi; exact assessP_split_gf g _ _ _
        rw [this, forLanes_map_fd]
        cases lenIs l.toList n with
        | none => rfl
        | some u =>
          simp only [Option.bind_eq_bind, Option.bind_some]
          cases forLanes (fun i xi => g.assessS pd xi s (laneArgs axes args i)) 0 l.toList with
          | none => rfl
          | some rs =>
            simp only [Option.map_some, Option.bind_some, Option.pure_def, List.map_map,
              Option.some.injEq, Prod.mk.injEq]
            refine ⟨?_, ?_⟩
            · rw [← prodK_map_mul]; rfl
            · rfl
    | .scan g n, x, s, args => by
        cases x <;> simp only [GF.assessP, GF.assessS, Option.map_none]
        rename_i l
        have : (fun c i xi => do
              let __x ← g.assessP pd xi [c, (args.getD 1 .nil).nth i]
              pure ((__x.1, __x.2.snd), __x.2.fst))
            = fun c i xi => ((g.assessS pd xi s [c, (args.getD 1 .nil).nth i]).bind
                fun o => some ((o.1, o.2.snd), o.2.fst)).map
                fun (p : ((K × K) × Val) × Val) =>
                  ((fun (q : (K × K) × Val) => (q.1.1 * q.1.2, q.2)) p.1, p.2) := by
          funext c i xi
          rw [assessP_split_gf g _ s _]
          cases g.assessS pd xi s [c, (args.getD 1 .nil).nth i] <;> rfl
        cases hlen : lenIs l.toList n with
        | none => rfl
        | some u =>
          simp only [Option.bind_eq_bind, Option.bind_some]
          have h2 := forSteps_map_fd (fun c i xi =>
              (g.assessS pd xi s [c, (args.getD 1 .nil).nth i]).bind
                fun o => some ((o.1, o.2.snd), o.2.fst))
              (fun (q : (K × K) × Val) => (q.1.1 * q.1.2, q.2))
              l.toList (args.getD 0 .nil) 0
          simp only [Option.bind_eq_bind, Option.pure_def] at this h2 ⊢
          rw [this, h2]
          cases forSteps (fun c i xi => (g.assessS pd xi s [c, (args.getD 1 .nil).nth i]).bind
              fun o => some ((o.1, o.2.snd), o.2.fst)) (args.getD 0 .nil) 0 l.toList with
          | none => rfl
          | some rs =>
            simp only [Option.map_some, Option.bind_some, List.map_map,
              Option.some.injEq, Prod.mk.injEq]
            refine ⟨?_, ?_⟩
            · rw [← prodK_map_mul]; rfl
            · rfl
    | .cond t f, x, s, args => by
        simp only [GF.assessP, GF.assessS]
        rw [assessP_split_gf t _ s _, assessP_split_gf f _ s _]
        cases t.assessS pd x s (args.drop 1) with
        | none => rfl
        | some p =>
          cases f.assessS pd x s (args.drop 1) with
          | none => rfl
          | some q =>
            simp only [Option.map_some, Option.bind_eq_bind, Option.bind_some, Option.pure_def,
              Option.some.injEq, Prod.mk.injEq]
            split <;> simp
  theorem assessP_split_body : (b : Body) → ∀ (x : CML) (s : Sel) (env : List Val)
      (seen : List String),
      b.assessP pd x env seen = (b.assessS pd x s env seen).map fun o => (o.1.1 * o.1.2, o.2)
    | .ret ex, x, s, env, seen => by
        simp only [Body.assessP, Body.assessS, Option.map_some, mul_one]
    | .call addr g es rest, x, s, env, seen => by
        simp only [Body.assessP, Body.assessS]
        split
        · rfl
        · cases x.find? addr with
          | none => rfl
          | some sub =>
            simp only
            rw [assessP_split_gf g _ (s.matchAddr addr).2 _]
            cases g.assessS pd sub (s.matchAddr addr).2 (es.map (·.eval env)) with
            | none => rfl
            | some p =>
              simp only [Option.map_some, Option.bind_eq_bind, Option.bind_some]
              rw [assessP_split_body rest _ s _ _]
              cases rest.assessS pd x s (env ++ [p.2]) (addr :: seen) with
              | none => rfl
              | some q =>
                simp only [Option.map_some, Option.bind_some, Option.pure_def,
                  Option.some.injEq, Prod.mk.injEq, and_true]
                ring
end

/-- **`assessS` multiplies back to `assessP`**: for every selection, the product of the masses of
    the selected sites times the product of the masses of the unselected sites is the density
    `assessP` computes; `assessS` raises exactly when `assessP` raises and returns the same value. -/
theorem assessP_eq_assessS (g : GF) (x : CM) (s : Sel) (args : List Val) :
    g.assessP pd x args = (g.assessS pd x s args).map fun o => (o.1.1 * o.1.2, o.2) :=
  assessP_split_gf pd g x s args

theorem Body.assessP_eq_assessS (b : Body) (x : CML) (s : Sel) (env : List Val)
    (seen : List String) :
    b.assessP pd x env seen = (b.assessS pd x s env seen).map fun o => (o.1.1 * o.1.2, o.2) :=
  assessP_split_body pd b x s env seen

end Split

/-! ## `eqOff` is symmetric -/

mutual
  theorem CM.eqOff_symm : ∀ (s : Sel) (x y : CM), CM.eqOff s x y = CM.eqOff s y x
    | s, .leaf v, .leaf v' => by
        simp only [CM.eqOff]
        by_cases h : v = v'
        · subst h; rfl
        · have h' : ¬ v' = v := fun e => h e.symm
          simp only [h, h']
    | s, .node a, .node b => by
        simp only [CM.eqOff]; exact CML.eqOffKeys_symm s a b
    | s, .lanes a, .lanes b => by
        simp only [CM.eqOff]; exact CML.eqOffPos_symm s a b
    | s, .leaf _, .node _ => by simp only [CM.eqOff]
    | s, .leaf _, .lanes _ => by simp only [CM.eqOff]
    | s, .node _, .leaf _ => by simp only [CM.eqOff]
    | s, .node _, .lanes _ => by simp only [CM.eqOff]
    | s, .lanes _, .leaf _ => by simp only [CM.eqOff]
    | s, .lanes _, .node _ => by simp only [CM.eqOff]
  theorem CML.eqOffKeys_symm : ∀ (s : Sel) (x y : CML), CML.eqOffKeys s x y = CML.eqOffKeys s y x
    | s, .nil, .nil => rfl
    | s, .nil, .cons _ _ _ => by simp only [CML.eqOffKeys]
    | s, .cons _ _ _, .nil => by simp only [CML.eqOffKeys]
    | s, .cons k v r, .cons k' v' r' => by
        simp only [CML.eqOffKeys]
        by_cases h : k = k'
        · subst h
          rw [CM.eqOff_symm _ v v', CML.eqOffKeys_symm s r r']
        · have h' : ¬ k' = k := fun e => h e.symm
          simp only [h, h', decide_false, Bool.false_and]
  theorem CML.eqOffPos_symm : ∀ (s : Sel) (x y : CML), CML.eqOffPos s x y = CML.eqOffPos s y x
    | s, .nil, .nil => rfl
    | s, .nil, .cons _ _ _ => by simp only [CML.eqOffPos]
    | s, .cons _ _ _, .nil => by simp only [CML.eqOffPos]
    | s, .cons k v r, .cons k' v' r' => by
        simp only [CML.eqOffPos]
        rw [CM.eqOff_symm s v v', CML.eqOffPos_symm s r r']
end

end Genjax
