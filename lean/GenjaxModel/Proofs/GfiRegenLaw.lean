import GenjaxModel.Model.GfiRegenDist
import GenjaxModel.Proofs.GfiLaw
/-!
  THE LAW of `regenerate` (properties C04 + C09): under `GF.regenerateD` (every SELECTED
  Distribution site draws from its finite-support distribution, the weight carried in the linear
  domain) the probability that the new trace's choice map is `x'`, jointly with any function `Φ` of
  the return value and of the reported weight, is what the deterministic specification
  `GF.regenW` says:

      E (regenerateD g t s args) (optK (chW x' Φ)) = massOf2 (regenW g t s x' args) Φ     (`regenD_law`)

  for every Cond-free program, every old trace `t`, every selection, every `x'` of the program's
  static choice-map shape.  `massOf2 (some ((q, W), r)) Φ = q * Φ r W`: the proposal mass is `q`
  and on the event "the new choices are `x'`" the weight is `W` and the return value `r`.
-/
namespace Genjax
open Smc Smc.FinDist

section Defs
variable {K : Type} [Field K] {R : Type}

/-- value reported by the kernel specification: proposal mass times a function of (retval, weight) -/
def massOf2 (o : Option ((K × K) × Val)) (Φ : Val → K → K) : K :=
  match o with
  | none => 0
  | some p => p.1.1 * Φ p.2 p.1.2

/-- test function on the outcomes of `regenerateD`: indicator of "the new choice map is `x`" times a
    function of the return value and of the weight -/
def chW (x : CM) (Φ : Val → K → K) (r : UpdK R K) : K :=
  if r.1.choices = some x then Φ r.1.retval r.2.1 else 0

def massOfL2 (o : Option (List ((K × K) × Val))) (Ψ : List Val → K → K) : K :=
  match o with
  | none => 0
  | some rs => prodK (rs.map (·.1.1)) * Ψ (rs.map (·.2)) (prodK (rs.map (·.1.2)))

def massOfS2 (o : Option (List ((K × K) × Val) × Val)) (Ψ : List Val → Val → K → K) : K :=
  match o with
  | none => 0
  | some q => prodK (q.1.map (·.1.1)) * Ψ (q.1.map (·.2)) q.2 (prodK (q.1.map (·.1.2)))

/-- body-level test function -/
def tstB2 (X : CML) (Ψ : Val → K → K) (r : TrL R × Val × R × K × CML) : K :=
  if r.1.choices = some X then Ψ r.2.1 r.2.2.2.1 else 0

end Defs

section Loops
variable {K : Type} [Field K] {R : Type}

/-- lanes: independent product; the law lane by lane gives the law of the list (weights multiply) -/
theorem lanes_regen (f : Nat → Tr R → FinDist K (Option (UpdK R K)))
    (h : Nat → Tr R → CM → Option ((K × K) × Val)) :
    ∀ (ts : List (Tr R)) (xs : List CM), ts.length = xs.length →
    (∀ i t x, x ∈ xs → ∀ Φ, E (f i t) (optK (chW x Φ)) = massOf2 (h i t x) Φ) →
    ∀ (i : Nat) (Ψ : List Val → K → K),
      E (forLanesD f i ts)
        (optK fun rs => if rs.map (fun r => r.1.choices) = xs.map some
          then Ψ (rs.map fun r => r.1.retval) (prodK (rs.map (·.2.1))) else 0)
      = massOfL2 (forLanes (fun i (p : Tr R × CM) => h i p.1 p.2) i (ts.zip xs)) Ψ
  | [], [], _, _, i, Ψ => by
      simp only [forLanesD, E_pureO, optK_some, List.map_nil, if_true, List.zip_nil_left, forLanes,
        massOfL2, prodK, one_mul]
  | [], _ :: _, hl, _, _, _ => by simp at hl
  | _ :: _, [], hl, _, _, _ => by simp at hl
  | t :: ts, x :: xs, hl, hf, i, Ψ => by
      have ih := lanes_regen f h ts xs (by simpa using hl)
        (fun i t y hy => hf i t y (List.mem_cons_of_mem _ hy))
      simp only [forLanesD, List.zip_cons_cons]
      rw [E_bindO]
      have key : (fun b : UpdK R K => E (bindO (forLanesD f (i + 1) ts) fun bs => pureO (b :: bs))
            (optK fun rs => if rs.map (fun r => r.1.choices) = (x :: xs).map some
              then Ψ (rs.map fun r => r.1.retval) (prodK (rs.map (·.2.1))) else 0))
          = chW x (fun r w => massOfL2
              (forLanes (fun i (p : Tr R × CM) => h i p.1 p.2) (i + 1) (ts.zip xs))
              (fun rs W => Ψ (r :: rs) (w * W))) := by
        funext b
        rw [E_bindO]
        simp only [E_pureO, optK_some, List.map_cons, List.cons.injEq, chW, prodK]
        by_cases hb : b.1.choices = some x
        · simp only [hb, true_and, if_true]
          exact ih (i + 1) (fun rs W => Ψ (b.1.retval :: rs) (b.2.1 * W))
        · simp only [hb, false_and, if_false]
          exact E_optK_zero _
      rw [key, hf i t x List.mem_cons_self]
      simp only [forLanes, Option.bind_eq_bind, Option.pure_def]
      cases h i t x with
      | none => rfl
      | some b =>
        cases forLanes (fun i (p : Tr R × CM) => h i p.1 p.2) (i + 1) (ts.zip xs) with
        | none => simp [massOf2, massOfL2]
        | some bs => simp [massOf2, massOfL2, prodK, mul_assoc]

/-- steps: the carry is threaded through the return values -/
theorem steps_regen (F : Val → Nat → Tr R → FinDist K (Option (UpdK R K)))
    (H : Val → Nat → Tr R → CM → Option ((K × K) × Val)) :
    ∀ (ts : List (Tr R)) (xs : List CM), ts.length = xs.length →
    (∀ c i t x, x ∈ xs → ∀ Φ, E (F c i t) (optK (chW x Φ)) = massOf2 (H c i t x) Φ) →
    ∀ (c : Val) (i : Nat) (Ψ : List Val → Val → K → K),
      E (forStepsD (fun c i t => bindO (F c i t) fun r => pureO (r, r.1.retval.fst)) c i ts)
        (optK fun q => if q.1.map (fun r => r.1.choices) = xs.map some
          then Ψ (q.1.map fun r => r.1.retval.snd) q.2 (prodK (q.1.map (·.2.1))) else 0)
      = massOfS2 (forSteps (fun c i (p : Tr R × CM) => (H c i p.1 p.2).bind fun o =>
            some ((o.1, o.2.snd), o.2.fst)) c i (ts.zip xs)) Ψ
  | [], [], _, _, c, i, Ψ => by
      simp only [forStepsD, E_pureO, optK_some, List.map_nil, if_true, List.zip_nil_left, forSteps,
        massOfS2, prodK, one_mul]
  | [], _ :: _, hl, _, _, _, _ => by simp at hl
  | _ :: _, [], hl, _, _, _, _ => by simp at hl
  | t :: ts, x :: xs, hl, hF, c, i, Ψ => by
      have ih := steps_regen F H ts xs (by simpa using hl)
        (fun c i t y hy => hF c i t y (List.mem_cons_of_mem _ hy))
      simp only [forStepsD, List.zip_cons_cons]
      rw [E_bindO, E_bindO]
      have key : (fun b : UpdK R K => E (pureO (b, b.1.retval.fst)) (optK fun p : UpdK R K × Val =>
            E (bindO (forStepsD (fun c i t => bindO (F c i t) fun r => pureO (r, r.1.retval.fst))
                p.2 (i + 1) ts) fun q => pureO (p.1 :: q.1, q.2))
            (optK fun q => if q.1.map (fun r => r.1.choices) = (x :: xs).map some
              then Ψ (q.1.map fun r => r.1.retval.snd) q.2 (prodK (q.1.map (·.2.1))) else 0)))
          = chW x (fun r w => massOfS2 (forSteps (fun c i (p : Tr R × CM) =>
              (H c i p.1 p.2).bind fun o => some ((o.1, o.2.snd), o.2.fst))
              r.fst (i + 1) (ts.zip xs)) (fun rs c' W => Ψ (r.snd :: rs) c' (w * W))) := by
        funext b
        rw [E_pureO, optK_some, E_bindO]
        simp only [E_pureO, optK_some, List.map_cons, List.cons.injEq, chW, prodK]
        by_cases hb : b.1.choices = some x
        · simp only [hb, true_and, if_true]
          exact ih b.1.retval.fst (i + 1) (fun rs c' W => Ψ (b.1.retval.snd :: rs) c' (b.2.1 * W))
        · simp only [hb, false_and, if_false]
          exact E_optK_zero _
      rw [key, hF c i t x List.mem_cons_self]
      simp only [forSteps, Option.bind_eq_bind, Option.pure_def]
      cases H c i t x with
      | none => rfl
      | some b =>
        simp only [Option.bind_some, massOf2]
        cases forSteps (fun c i (p : Tr R × CM) => (H c i p.1 p.2).bind fun o =>
            some ((o.1, o.2.snd), o.2.fst)) b.2.fst (i + 1) (ts.zip xs) with
        | none => simp [massOfS2]
        | some bs => simp [massOfS2, prodK, mul_assoc]

end Loops

section Law
variable {K : Type} [Field K] {R : Type} [Zero R] [Add R] [Neg R]
variable (e : R → K) (pd : PD K) (P : Prims R) (cfg : Cfg)

/-- if the sub-traces built so far already disagree with `X`, the final ones do -/
theorem body_regen_strip_none : (body : Body) → ∀ (old : TrL R) (s : Sel) (env : List Val)
    (subs : TrL R) (sc : R) (w : K) (d : CML) (X : CML) (Ψ : Val → K → K), subs.strip X = none →
    E (body.regenerateD e pd P cfg old s env subs sc w d) (optK (tstB2 X Ψ)) = 0
  | .ret ex, old, s, env, subs, sc, w, d, X, Ψ, h => by
      simp only [Body.regenerateD, E_pureO, optK_some, tstB2]
      rw [if_neg]
      intro hc
      rw [(TrL.choices_iff_strip _ _).mp hc] at h
      cases h
  | .call addr g es rest, old, s, env, subs, sc, w, d, X, Ψ, h => by
      simp only [Body.regenerateD]
      split
      · exact E_failO _
      · split
        · exact E_failO _
        · rw [E_bindO]
          apply E_eq_zero_fd
          intro o
          cases o with
          | none => rfl
          | some r =>
            exact body_regen_strip_none rest _ _ _ _ _ _ _ _ _ (by rw [TrL.strip_snoc, h]; rfl)

omit [Zero R] [Add R] in
/-- the Distribution case, selected site -/
theorem regen_law_dist_sel (hpd : pd.WF) (d : Nat) (args : List Val) (vOld v0 : Val)
    (Φ : Val → K → K) :
    E ((pd.support d args).map fun v =>
        ((some (Tr.leaf v (-(P.lp d args v)), (1 : K), some (CM.leaf vOld)) : Option (UpdK R K)),
          pd.pm d args v))
      (optK (chW (.leaf v0) Φ)) = pd.pm d args v0 * Φ v0 1 := by
  simp only [E, List.map_map]
  have : ((fun x : Option (UpdK R K) × K => x.2 * optK (chW (CM.leaf v0) Φ) x.1) ∘
      fun v => (some (Tr.leaf v (-P.lp d args v), (1 : K), some (CM.leaf vOld)), pd.pm d args v))
      = fun v => pd.pm d args v * (if v = v0 then (fun v => Φ v 1) v else 0) := by
    funext v
    simp only [Function.comp, optK_some, chW, Tr.choices, Tr.retval, Option.some.injEq,
      CM.leaf.injEq]
  rw [this, sumK_indicator_fd _ (hpd.nodup d args)]
  split
  · rfl
  · rename_i h
    rw [hpd.off d args v0 h, zero_mul]

mutual
  theorem regen_law_gf (hpd : pd.WF) : (g : GF) → g.condFree = true → ∀ (t : Tr R) (s : Sel)
      (args : List Val) (x : CM) (Φ : Val → K → K), g.skel = some x.skel →
      E (g.regenerateD e pd P cfg t s args) (optK (chW x Φ))
        = massOf2 (g.regenW e pd cfg t s x args) Φ
    | .dist d, _, t, s, args, x, Φ, hs => by
        simp only [GF.skel, Option.some.injEq] at hs
        obtain ⟨v0, rfl⟩ := CM.skel_leaf hs
        cases t with
        | leaf vOld sOld =>
          simp only [GF.regenerateD, GF.regenW]
          by_cases hsl : s.leaf = true
          · simp only [hsl, if_true, massOf2]
            exact regen_law_dist_sel pd P hpd d args vOld v0 Φ
          · simp only [hsl, Bool.false_eq_true, if_false, E_pureO, optK_some, chW, Tr.choices,
              Tr.retval, Option.some.injEq, CM.leaf.injEq]
            by_cases hv : v0 = vOld
            · subst hv; simp [massOf2]
            · have hv' : ¬ vOld = v0 := fun h => hv h.symm
              simp [hv, hv', massOf2]
        | fn _ _ _ => simp only [GF.regenerateD, GF.regenW, massOf2]; exact E_failO _
        | vec _ => simp only [GF.regenerateD, GF.regenW, massOf2]; exact E_failO _
        | scan _ _ => simp only [GF.regenerateD, GF.regenW, massOf2]; exact E_failO _
        | cond _ _ _ => simp only [GF.regenerateD, GF.regenW, massOf2]; exact E_failO _
    | .fn body, hg, t, s, args, x, Φ, hs => by
        simp only [GF.condFree] at hg
        simp only [GF.skel, Option.map_eq_some_iff] at hs
        obtain ⟨sk, hbs, hs⟩ := hs
        obtain ⟨X, rfl, rfl⟩ := CM.skel_node hs
        cases t with
        | fn old r0 s0 =>
          simp only [GF.regenerateD, GF.regenW]
          rw [E_bindO]
          have : (fun r : TrL R × Val × R × K × CML =>
              E (pureO ((Tr.fn r.1 r.2.1 r.2.2.1, r.2.2.2.1, some (CM.node r.2.2.2.2)) : UpdK R K))
              (optK (chW (.node X) Φ))) = tstB2 X Φ := by
            funext r
            simp only [E_pureO, optK_some, chW, tstB2, Tr.choices, Tr.retval,
              Option.map_eq_some_iff, CM.node.injEq, exists_eq_right]
          rw [this]
          have := regen_law_body hpd body hg old s args .nil 0 1 .nil X X [] Φ
            ⟨rfl, fun a => by simp [TrL.find?], fun a _ => rfl⟩ hbs
          simpa only [one_mul] using this
        | leaf _ _ => simp only [GF.regenerateD, GF.regenW, massOf2]; exact E_failO _
        | vec _ => simp only [GF.regenerateD, GF.regenW, massOf2]; exact E_failO _
        | scan _ _ => simp only [GF.regenerateD, GF.regenW, massOf2]; exact E_failO _
        | cond _ _ _ => simp only [GF.regenerateD, GF.regenW, massOf2]; exact E_failO _
    | .vmap g axes n, hg, t, s, args, x, Φ, hs => by
        simp only [GF.condFree] at hg
        simp only [GF.skel, Option.map_eq_some_iff] at hs
        obtain ⟨sk, hls, hs⟩ := hs
        obtain ⟨l, rfl, rfl⟩ := CM.skel_lanes hs
        obtain ⟨hl1, hl2, hl3⟩ := skelLanes_eq hls
        cases t with
        | vec old =>
          simp only [GF.regenerateD, GF.regenW, lenIs]
          by_cases hn : old.toList.length = n
          · simp only [hn, hl2, if_true, Option.bind_eq_bind, Option.bind_some, Option.pure_def]
            rw [E_bindO]
            have : (fun rs : List (UpdK R K) => E (pureO ((Tr.vec (TrL.ofList (rs.map (·.1))),
                  prodK (rs.map (·.2.1)), lanesDiscard (rs.map (·.2.2))) : UpdK R K))
                (optK (chW (.lanes l) Φ)))
                = fun rs => if rs.map (fun r => r.1.choices) = l.toList.map some
                    then (fun vs W => Φ (Val.ofList vs) W) (rs.map fun r => r.1.retval)
                      (prodK (rs.map (·.2.1))) else 0 := by
              funext rs
              simp only [E_pureO, optK_some, chW, Tr.choices, Tr.retval,
                Option.map_eq_some_iff, CM.lanes.injEq, exists_eq_right, TrL.choices_ofList_iff,
                TrL.retvals_ofList, List.map_map, Function.comp_def]
              by_cases h : rs.map (fun r => r.1.choices) = l.toList.map some
              · rw [if_pos ⟨hl1, h⟩, if_pos h]
              · rw [if_neg (fun hh => h hh.2), if_neg h]
            rw [this]
            refine (lanes_regen (fun i t => g.regenerateD e pd P cfg t s (laneArgs axes args i))
              (fun i t xi => g.regenW e pd cfg t s xi (laneArgs axes args i)) old.toList l.toList
              (by rw [hn, hl2])
              (fun i t y hy Φ' => regen_law_gf hpd g hg t s _ y Φ' (hl3 y hy)) 0
              (fun vs W => Φ (Val.ofList vs) W)).trans ?_
            cases forLanes (fun i (p : Tr R × CM) => g.regenW e pd cfg p.1 s p.2
              (laneArgs axes args i)) 0 (old.toList.zip l.toList) <;> rfl
          · simp only [hn, if_false, Option.bind_eq_bind, Option.bind_none, massOf2]
            exact E_failO _
        | leaf _ _ => simp only [GF.regenerateD, GF.regenW, massOf2]; exact E_failO _
        | fn _ _ _ => simp only [GF.regenerateD, GF.regenW, massOf2]; exact E_failO _
        | scan _ _ => simp only [GF.regenerateD, GF.regenW, massOf2]; exact E_failO _
        | cond _ _ _ => simp only [GF.regenerateD, GF.regenW, massOf2]; exact E_failO _
    | .scan g n, hg, t, s, args, x, Φ, hs => by
        simp only [GF.condFree] at hg
        simp only [GF.skel, Option.map_eq_some_iff] at hs
        obtain ⟨sk, hls, hs⟩ := hs
        obtain ⟨l, rfl, rfl⟩ := CM.skel_lanes hs
        obtain ⟨hl1, hl2, hl3⟩ := skelLanes_eq hls
        cases t with
        | scan old c0 =>
          simp only [GF.regenerateD, GF.regenW, lenIs]
          by_cases hsr : cfg.scanRegenDefined = true
          · by_cases hn : old.toList.length = n
            · simp only [hsr, Bool.not_true, Bool.false_eq_true, hn, hl2, if_true, if_false,
                Option.bind_eq_bind, Option.bind_some, Option.pure_def]
              rw [E_bindO]
              have : (fun q : List (UpdK R K) × Val =>
                  E (pureO ((Tr.scan (TrL.ofList (q.1.map (·.1))) q.2,
                    prodK (q.1.map (·.2.1)), lanesDiscard (q.1.map (·.2.2))) : UpdK R K))
                  (optK (chW (.lanes l) Φ)))
                  = fun q => if q.1.map (fun r => r.1.choices) = l.toList.map some
                      then (fun vs c' W => Φ (Val.pair c' (Val.ofList vs)) W)
                        (q.1.map fun r => r.1.retval.snd) q.2 (prodK (q.1.map (·.2.1))) else 0 := by
                funext q
                simp only [E_pureO, optK_some, chW, Tr.choices, Tr.retval,
                  Option.map_eq_some_iff, CM.lanes.injEq, exists_eq_right, TrL.choices_ofList_iff,
                  TrL.outs_ofList, List.map_map, Function.comp_def]
                by_cases h : q.1.map (fun r => r.1.choices) = l.toList.map some
                · rw [if_pos ⟨hl1, h⟩, if_pos h]
                · rw [if_neg (fun hh => h hh.2), if_neg h]
              rw [this]
              refine (steps_regen
                (fun c i t => g.regenerateD e pd P cfg t s [c, (args.getD 1 .nil).nth i])
                (fun c i t xi => g.regenW e pd cfg t s xi [c, (args.getD 1 .nil).nth i])
                old.toList l.toList (by rw [hn, hl2])
                (fun c i t y hy Φ' => regen_law_gf hpd g hg t s _ y Φ' (hl3 y hy))
                (args.getD 0 .nil) 0 (fun vs c' W => Φ (Val.pair c' (Val.ofList vs)) W)).trans ?_
              cases forSteps (fun c i (p : Tr R × CM) =>
                (g.regenW e pd cfg p.1 s p.2 [c, (args.getD 1 .nil).nth i]).bind fun o =>
                  some ((o.1, o.2.snd), o.2.fst)) (args.getD 0 .nil) 0
                (old.toList.zip l.toList) <;> rfl
            · simp only [hsr, Bool.not_true, Bool.false_eq_true, hn, if_false,
                Option.bind_eq_bind, Option.bind_none, massOf2]
              exact E_failO _
          · simp only [hsr, Bool.not_false, if_true, massOf2]
            exact E_failO _
        | leaf _ _ => simp only [GF.regenerateD, GF.regenW, massOf2]; exact E_failO _
        | fn _ _ _ => simp only [GF.regenerateD, GF.regenW, massOf2]; exact E_failO _
        | vec _ => simp only [GF.regenerateD, GF.regenW, massOf2]; exact E_failO _
        | cond _ _ _ => simp only [GF.regenerateD, GF.regenW, massOf2]; exact E_failO _
    | .cond _ _, hg, _, _, _, _, _, _ => by simp [GF.condFree] at hg
  theorem regen_law_body (hpd : pd.WF) : (body : Body) → body.condFree = true → ∀ (old : TrL R)
      (s : Sel) (env : List Val) (subs : TrL R) (sc : R) (w : K) (d : CML) (X rem : CML)
      (seen : List String) (Ψ : Val → K → K),
      BodyLawInv subs seen X rem → body.skel = some rem.skel →
      E (body.regenerateD e pd P cfg old s env subs sc w d) (optK (tstB2 X Ψ))
        = massOf2 (body.regenW e pd cfg old s X env seen) (fun r W => Ψ r (w * W))
    | .ret ex, _, old, s, env, subs, sc, w, d, X, rem, seen, Ψ, hinv, hs => by
        simp only [Body.skel, Option.some.injEq] at hs
        have := CML.skel_eq_nil hs.symm
        subst this
        simp only [Body.regenerateD, E_pureO, optK_some, tstB2, Body.regenW, massOf2, one_mul,
          mul_one]
        rw [if_pos ((TrL.choices_iff_strip _ _).mpr hinv.strip)]
    | .call addr g es rest, hg, old, s, env, subs, sc, w, d, X, rem, seen, Ψ, hinv, hs => by
        simp only [Body.condFree, Bool.and_eq_true] at hg
        simp only [Body.skel, Option.bind_eq_bind, Option.pure_def, Option.bind_eq_some_iff,
          Option.some.injEq] at hs
        obtain ⟨gs, hgs, rs, hrs, hs⟩ := hs
        obtain ⟨c, rem', rfl, rfl, rfl⟩ := CML.skel_eq_cons hs.symm
        simp only [Body.regenerateD, Body.regenW]
        rw [hinv.seen_iff addr]
        cases hseen : seen.contains addr with
        | true =>
          simp only [if_true]
          exact E_failO _
        | false =>
          simp only [Bool.false_eq_true, if_false]
          cases hold : old.find? addr with
          | none => exact E_failO _
          | some sub =>
            simp only
            rw [hinv.find addr hseen]
            simp only [CML.find?, if_true]
            rw [E_bindO]
            have step : ∀ (G : FinDist K (Option (UpdK R K))) (φ ψ : UpdK R K → K), φ = ψ →
                E G (optK φ) = E G (optK ψ) := fun _ _ _ h => by rw [h]
            refine (step _ _ (chW c (fun rv W => massOf2 (rest.regenW e pd cfg old s X (env ++ [rv])
                    (addr :: seen)) (fun r' W' => Ψ r' (w * W * W')))) (funext fun r => ?_)).trans ?_
            · simp only [chW]
              by_cases ht : r.1.choices = some c
              · rw [if_pos ht]
                exact regen_law_body hpd rest hg.2 old s _ _ _ _ _ X rem' (addr :: seen) Ψ
                  (hinv.step ht) hrs
              · rw [if_neg ht]
                apply body_regen_strip_none
                rw [TrL.strip_snoc, hinv.strip]
                simp only [Option.bind_some, stepRem, true_and]
                rw [if_neg ht]
            rw [regen_law_gf hpd g hg.1 sub _ _ c _ hgs]
            cases g.regenW e pd cfg sub (s.matchAddr addr).2 c (es.map (·.eval env)) with
            | none => rfl
            | some o =>
              simp only [massOf2, Option.bind_eq_bind, Option.bind_some, Option.pure_def]
              cases rest.regenW e pd cfg old s X (env ++ [o.2]) (addr :: seen) with
              | none => simp
              | some o' => simp [mul_assoc]
end

/-- **THE LAW of `regenerate`, Cond-free programs.** For every program built from Distribution, Fn,
    Vmap, Scan at any depth, every old trace `t`, selection `s`, (new) arguments, every choice map
    `x'` of the program's static shape and every function `Φ` of (return value, weight):
    `E[ 1{new choices = x'} · Φ(retval, weight) ] = q · Φ(r, W)` where `((q, W), r) = regenW t s x'`
    (0 when `regenW` is `none`).  Only hypothesis on the primitives: `pd.WF`. -/
theorem regenD_law (hpd : pd.WF) (g : GF) (hcf : g.condFree = true) (t : Tr R) (s : Sel)
    (args : List Val) (x' : CM) (Φ : Val → K → K) (hs : g.skel = some x'.skel) :
    E (g.regenerateD e pd P cfg t s args) (optK (chW x' Φ))
      = massOf2 (g.regenW e pd cfg t s x' args) Φ :=
  regen_law_gf e pd P cfg hpd g hcf t s args x' Φ hs

end Law

end Genjax
