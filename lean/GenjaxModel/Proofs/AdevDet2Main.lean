import GenjaxModel.Proofs.AdevDet2
/-!
  C15, richer language: `call` and `fori` equations are lawful primitives; the CPS interpreter
  computes its direct-style twin; the interpreter with the correct fast-path condition is the
  reference forward mode; discrete values never carry a tangent; loops are n-fold compositions.
-/
set_option linter.unusedSectionVars false
namespace Genjax.Adev2
variable {K : Type} [Field K] [LinearOrder K] {P : Type}

/-! ### `call` and `fori` as lawful primitives -/

theorem zipWith_ofVT_p (vs : List (Val K)) (ts : List (Tan K)) (h : ts.length = vs.length) :
    (List.zipWith RD.ofVT vs ts).map RD.p = vs := by
  induction vs generalizing ts with
  | nil => simp
  | cons v vs ih =>
    cases ts with
    | nil => simp at h
    | cons t ts => simp [RD.ofVT, ih ts (by simpa using h)]

theorem zipWith_ofVT_tan (vs : List (Val K)) (ts : List (Tan K)) :
    List.zipWith RD.ofVT vs (ts.map fun t => Tan.tan t.mat) = List.zipWith RD.ofVT vs ts := by
  rw [List.zipWith_map_right]
  rfl

theorem zipWith_ofVT_zero (vs : List (Val K)) (ts : List (Tan K)) (h : ∀ t ∈ ts, Tan.mat t = 0) :
    ∀ x ∈ List.zipWith RD.ofVT vs ts, x.d = 0 := by
  intro x hx
  rw [List.mem_iff_getElem] at hx
  obtain ⟨i, hi, rfl⟩ := hx
  simp only [List.getElem_zipWith, RD.ofVT]
  exact h _ (List.getElem_mem _)

theorem zipWith_ofVT_args (args : List (RD K)) :
    List.zipWith RD.ofVT (args.map RD.p) (args.map fun a => Tan.tan a.d) = args := by
  induction args with
  | nil => rfl
  | cons a as ih => simp only [List.map_cons, List.zipWith_cons_cons, ih]; rfl

theorem tanOut_mat_zero (r : List (RD K)) (h : ∀ x ∈ r, x.d = 0) : ∀ t ∈ r.map RD.tanOut, Tan.mat t = 0 := by
  intro t ht
  simp only [List.mem_map] at ht
  obtain ⟨x, hx, rfl⟩ := ht
  unfold RD.tanOut
  split
  · rfl
  · exact h x hx

theorem tanOut_disZero (r : List (RD K)) :
    ∀ x ∈ List.zip (r.map RD.p) (r.map RD.tanOut), x.1.isDis = true → x.2 = Tan.zero := by
  intro x hx hd
  rw [List.zip_map'] at hx
  simp only [List.mem_map] at hx
  obtain ⟨y, _, rfl⟩ := hx
  simp only at hd ⊢
  simp [RD.tanOut, hd]

/-- re-packing what JAX's forward mode of a sub-jaxpr returns loses nothing, as long as its discrete
    outputs have tangent 0 -/
theorem pack_tanOut (r : List (RD K)) (h : WFJ r) :
    List.zipWith (fun v t => (⟨v, Tan.mat t⟩ : RD K)) (r.map RD.p) (r.map RD.tanOut) = r := by
  induction r with
  | nil => rfl
  | cons x r ih =>
    simp only [List.map_cons, List.zipWith_cons_cons]
    rw [ih (fun y hy => h y (by simp [hy]))]
    congr 1
    have := h x (by simp)
    cases x with
    | mk p d =>
      simp only [RD.tanOut]
      split
      · rename_i hd; simp only [Tan.mat_zero]; congr 1; exact (this hd).symm
      · rfl

theorem callPrim_lawful (sem : P → Prim K) (hl : ∀ p, (sem p).Lawful) (body : Prog P) (outs : List Nat) :
    (callPrim sem body outs).Lawful where
  primal vs ts h := by
    simp only [callPrim]
    rw [gather_map (RD.p (K := K)) rfl, evalJProg_primal sem hl, zipWith_ofVT_p vs ts h]
  len vs ts _ := by simp [callPrim, gather_length]
  zeroOk vs ts _ := by simp only [callPrim, zipWith_ofVT_tan]
  zeroLin vs ts _ hz := by
    simp only [callPrim]
    apply tanOut_mat_zero
    apply gather_all (fun x : RD K => x.d = 0) rfl
    exact evalJProg_zero sem hl body _ (zipWith_ofVT_zero vs ts hz)
  disZero vs ts h := by
    have hp : (callPrim sem body outs).val vs = ((callPrim sem body outs).jvp vs ts).1 := by
      simp only [callPrim]
      rw [gather_map (RD.p (K := K)) rfl, evalJProg_primal sem hl, zipWith_ofVT_p vs ts h]
    rw [hp]
    exact tanOut_disZero _

/-- one iteration of a loop body in the reference forward mode / in primal evaluation -/
def bodyJ (sem : P → Prim K) (body : Prog P) (outs : List Nat) (cs : List (RD K)) (c : List (RD K)) : List (RD K) :=
  gather (evalJProg sem body (cs ++ c)) outs
def bodyP (sem : P → Prim K) (body : Prog P) (outs : List Nat) (cs : List (Val K)) (c : List (Val K)) : List (Val K) :=
  gather (evalPProg sem body (cs ++ c)) outs

theorem loop_primal (sem : P → Prim K) (hl : ∀ p, (sem p).Lawful) (body : Prog P) (outs : List Nat)
    (n : Nat) (cs c : List (RD K)) :
    (iter n (bodyJ sem body outs cs) c).map RD.p = iter n (bodyP sem body outs (cs.map RD.p)) (c.map RD.p) := by
  apply iter_rel (fun (a : List (RD K)) (b : List (Val K)) => a.map RD.p = b)
  · intro a b hab
    subst hab
    simp only [bodyJ, bodyP]
    rw [gather_map (RD.p (K := K)) rfl, evalJProg_primal sem hl body, List.map_append]
  · rfl

theorem loop_inv (sem : P → Prim K) (body : Prog P) (outs : List Nat) (Q : RD K → Prop) (hd : Q default)
    (hstep : ∀ p args, (∀ a ∈ args, Q a) → ∀ o ∈ stepJ (sem p) args, Q o)
    (n : Nat) (cs c : List (RD K)) (hcs : ∀ x ∈ cs, Q x) (hc : ∀ x ∈ c, Q x) :
    ∀ x ∈ iter n (bodyJ sem body outs cs) c, Q x := by
  apply iter_inv (fun c : List (RD K) => ∀ x ∈ c, Q x)
  · intro a ha
    apply gather_all Q hd
    apply evalJProg_inv sem Q hd hstep body
    intro x hx
    rcases List.mem_append.mp hx with hx | hx
    · exact hcs x hx
    · exact ha x hx
  · exact hc

theorem loopPrim_lawful (sem : P → Prim K) (hl : ∀ p, (sem p).Lawful) (n nc : Nat) (body : Prog P)
    (outs : List Nat) : (loopPrim sem n nc body outs).Lawful := by
  have hprimal : ∀ vs ts, ts.length = vs.length →
      ((loopPrim sem n nc body outs).jvp vs ts).1 = (loopPrim sem n nc body outs).val vs := by
    intro vs ts h
    simp only [loopPrim]
    have := loop_primal sem hl body outs n ((List.zipWith RD.ofVT vs ts).take nc) ((List.zipWith RD.ofVT vs ts).drop nc)
    unfold bodyJ bodyP at this
    rw [this, List.map_take, List.map_drop, zipWith_ofVT_p vs ts h]
  exact {
    primal := hprimal
    len := by
      intro vs ts h
      rw [← hprimal vs ts h]
      simp [loopPrim]
    zeroOk := by
      intro vs ts _
      simp only [loopPrim, zipWith_ofVT_tan]
    zeroLin := by
      intro vs ts _ hz
      simp only [loopPrim]
      apply tanOut_mat_zero
      have hall := zipWith_ofVT_zero vs ts hz
      exact loop_inv sem body outs (fun x => x.d = 0) rfl (fun q args ha => stepJ_zero (sem q) (hl q) args ha) n _ _
        (fun x hx => hall x (List.mem_of_mem_take hx)) (fun x hx => hall x (List.mem_of_mem_drop hx))
    disZero := by
      intro vs ts h
      rw [← hprimal vs ts h]
      exact tanOut_disZero _ }

/-! ### continuation-passing style = direct style -/

mutual
theorem evalAProg_eq (cfg : Cfg) (sem : P → Prim K) :
    ∀ (p : Prog P) {R : Type} (kont : List (DV K) → R) (env : List (DV K)),
      evalAProg cfg sem kont p env = kont (runAProg cfg sem p env)
  | .nil, _, kont, env => by simp only [evalAProg, runAProg]
  | .cons e rest, _, kont, env => by
      rw [evalAProg, evalAEqn_eq cfg sem e, evalAProg_eq cfg sem rest, runAProg]
theorem evalAEqn_eq (cfg : Cfg) (sem : P → Prim K) :
    ∀ (e : Eqn P) {R : Type} (kont : List (DV K) → R) (env : List (DV K)),
      evalAEqn cfg sem kont e env = kont (runAEqn cfg sem e env)
  | .prim p ins, _, kont, env => by simp only [evalAEqn, runAEqn]
  | .call ins body outs, _, kont, env => by simp only [evalAEqn, runAEqn]
  | .fori n consts ins body outs, _, kont, env => by simp only [evalAEqn, runAEqn]
  | .cond c ins thn thnOut els elsOut, _, kont, env => by
      rw [evalAEqn, runAEqn]
      split
      · rw [evalAProg_eq cfg sem thn]
      · rw [evalAProg_eq cfg sem els]
end

/-! ### the interpreter is forward-mode AD -/

theorem WFJ_append {a b : List (RD K)} (ha : WFJ a) (hb : WFJ b) : WFJ (a ++ b) := by
  intro x hx
  rcases List.mem_append.mp hx with hx | hx
  · exact ha x hx
  · exact hb x hx

theorem WFJ_gather {env : List (RD K)} (h : WFJ env) (ins : List Nat) : WFJ (gather env ins) :=
  gather_all (fun x : RD K => x.p.isDis = true → x.d = 0) (fun _ => rfl) env h ins

theorem stepJ_callPrim (sem : P → Prim K) (hl : ∀ p, (sem p).Lawful) (body : Prog P) (outs : List Nat)
    (args : List (RD K)) (h : WFJ args) :
    stepJ (callPrim sem body outs) args = gather (evalJProg sem body args) outs := by
  simp only [stepJ, callPrim, zipWith_ofVT_args]
  exact pack_tanOut _ (WFJ_gather (evalJProg_wf sem hl body args h) outs)

theorem stepJ_loopPrim (sem : P → Prim K) (hl : ∀ p, (sem p).Lawful) (n : Nat) (body : Prog P) (outs : List Nat)
    (cs c : List (RD K)) (hcs : WFJ cs) (hc : WFJ c) :
    stepJ (loopPrim sem n cs.length body outs) (cs ++ c) =
      iter n (fun c => gather (evalJProg sem body (cs ++ c)) outs) c := by
  simp only [stepJ, loopPrim, zipWith_ofVT_args, List.take_left', List.drop_left']
  apply pack_tanOut
  exact loop_inv sem body outs (fun x => x.p.isDis = true → x.d = 0) (fun _ => rfl)
    (fun q args _ => stepJ_wf (sem q) (hl q) args) n cs c hcs hc

mutual
theorem runAProg_toRD (cfg : Cfg) (hc : cfg.Good) (sem : P → Prim K) (hl : ∀ p, (sem p).Lawful) :
    ∀ (p : Prog P) (env : List (DV K)), WFJ (env.map DV.toRD) →
      (runAProg cfg sem p env).map DV.toRD = evalJProg sem p (env.map DV.toRD)
  | .nil, env, _ => by simp only [runAProg, evalJProg]
  | .cons e rest, env, h => by
      rw [runAProg, evalJProg, runAProg_toRD cfg hc sem hl rest, List.map_append,
        runAEqn_toRD cfg hc sem hl e env h]
      rw [List.map_append, runAEqn_toRD cfg hc sem hl e env h]
      exact WFJ_append h (evalJEqn_wf sem hl e _ h)
theorem runAEqn_toRD (cfg : Cfg) (hc : cfg.Good) (sem : P → Prim K) (hl : ∀ p, (sem p).Lawful) :
    ∀ (e : Eqn P) (env : List (DV K)), WFJ (env.map DV.toRD) →
      (runAEqn cfg sem e env).map DV.toRD = evalJEqn sem e (env.map DV.toRD)
  | .prim p ins, env, _ => by
      rw [runAEqn, evalJEqn, stepA_toRD cfg hc _ (hl p), gather_map DV.toRD toRD_default]
  | .call ins body outs, env, h => by
      rw [runAEqn, evalJEqn, stepA_toRD cfg hc _ (callPrim_lawful sem hl body outs),
        gather_map DV.toRD toRD_default, stepJ_callPrim sem hl body outs _ (WFJ_gather h ins)]
  | .fori n consts ins body outs, env, h => by
      rw [runAEqn, evalJEqn, stepA_toRD cfg hc _ (loopPrim_lawful sem hl n _ body outs),
        gather_map DV.toRD toRD_default, gather_append]
      have := stepJ_loopPrim sem hl n body outs (gather (env.map DV.toRD) consts) (gather (env.map DV.toRD) ins)
        (WFJ_gather h consts) (WFJ_gather h ins)
      rw [gather_length] at this
      exact this
  | .cond c ins thn thnOut els elsOut, env, h => by
      rw [runAEqn, evalJEqn]
      have hp : (env.getD c default).p = ((env.map DV.toRD).getD c default).p := by
        rw [← getD_map DV.toRD toRD_default]; rfl
      rw [← hp]
      split
      · simp only [List.map_cons, List.map_nil]
        rw [getD_map DV.toRD toRD_default, runAProg_toRD cfg hc sem hl thn, gather_map DV.toRD toRD_default]
        rw [gather_map DV.toRD toRD_default]; exact WFJ_gather h ins
      · simp only [List.map_cons, List.map_nil]
        rw [getD_map DV.toRD toRD_default, runAProg_toRD cfg hc sem hl els, gather_map DV.toRD toRD_default]
        rw [gather_map DV.toRD toRD_default]; exact WFJ_gather h ins
end

/-- **ADEV = forward-mode AD** (richer language). For every program over lawful primitives, every
    configuration with the correct fast-path condition (`all` inputs symbolic zero, or no fast path),
    every environment whose discrete entries have no tangent, and every continuation: the CPS
    interpreter hands to the final continuation an environment that - reading a symbolic zero as 0 -
    is exactly the environment of the reference forward mode. -/
theorem adev2_eq_jvp_kont {R : Type} (cfg : Cfg) (hc : cfg.Good) (sem : P → Prim K) (hl : ∀ p, (sem p).Lawful)
    (kontA : List (DV K) → R) (kontJ : List (RD K) → R) (hk : ∀ env, kontA env = kontJ (env.map DV.toRD))
    (p : Prog P) (env : List (DV K)) (h : WFJ (env.map DV.toRD)) :
    evalAProg cfg sem kontA p env = kontJ (evalJProg sem p (env.map DV.toRD)) := by
  rw [evalAProg_eq, hk, runAProg_toRD cfg hc sem hl p env h]

/-- … in particular `jvp_estimate` returns the primal and the tangent of `jax.jvp` -/
theorem adev2_eq_jvp (cfg : Cfg) (hc : cfg.Good) (sem : P → Prim K) (hl : ∀ p, (sem p).Lawful)
    (p : Prog P) (out : Nat) (env : List (DV K)) (h : WFJ (env.map DV.toRD)) :
    (adevRun cfg sem p out env).toRD = jvpRun sem p out (env.map DV.toRD) := by
  unfold adevRun jvpRun
  rw [evalAProg_eq, getD_map DV.toRD toRD_default, runAProg_toRD cfg hc sem hl p env h]

/-! ### discrete values never carry a tangent -/

theorem WFA_gather {env : List (DV K)} (h : WFA env) (ins : List Nat) : WFA (gather env ins) :=
  gather_all (fun x : DV K => x.p.isDis = true → x.t = Tan.zero) (fun _ => rfl) env h ins

mutual
theorem runAProg_wf (cfg : Cfg) (sem : P → Prim K) (hl : ∀ p, (sem p).Lawful) :
    ∀ (p : Prog P) (env : List (DV K)), WFA env → WFA (runAProg cfg sem p env)
  | .nil, env, h => by simpa only [runAProg] using h
  | .cons e rest, env, h => by
      rw [runAProg]
      apply runAProg_wf cfg sem hl rest
      intro x hx
      rcases List.mem_append.mp hx with hx | hx
      · exact h x hx
      · exact runAEqn_wf cfg sem hl e env h x hx
theorem runAEqn_wf (cfg : Cfg) (sem : P → Prim K) (hl : ∀ p, (sem p).Lawful) :
    ∀ (e : Eqn P) (env : List (DV K)), WFA env → WFA (runAEqn cfg sem e env)
  | .prim p ins, env, _ => by rw [runAEqn]; exact stepA_wf cfg _ (hl p) _
  | .call ins body outs, env, _ => by rw [runAEqn]; exact stepA_wf cfg _ (callPrim_lawful sem hl body outs) _
  | .fori n consts ins body outs, env, _ => by
      rw [runAEqn]; exact stepA_wf cfg _ (loopPrim_lawful sem hl n _ body outs) _
  | .cond c ins thn thnOut els elsOut, env, h => by
      rw [runAEqn]
      split
      · intro x hx
        simp only [List.mem_singleton] at hx
        subst hx
        exact getD_all (fun x : DV K => x.p.isDis = true → x.t = Tan.zero) (fun _ => rfl) _
          (runAProg_wf cfg sem hl thn _ (WFA_gather h ins)) _
      · intro x hx
        simp only [List.mem_singleton] at hx
        subst hx
        exact getD_all (fun x : DV K => x.p.isDis = true → x.t = Tan.zero) (fun _ => rfl) _
          (runAProg_wf cfg sem hl els _ (WFA_gather h ins)) _
end

/-- in the interpreter - under ANY configuration, also the wrong ones - every discrete value of the
    final environment carries the symbolic zero (float0), and the output of `jvp_estimate` too -/
theorem discrete_outputs_have_zero_tangent (cfg : Cfg) (sem : P → Prim K) (hl : ∀ p, (sem p).Lawful)
    (p : Prog P) (out : Nat) (env : List (DV K)) (h : WFA env) :
    WFA (runAProg cfg sem p env) ∧
      ((adevRun cfg sem p out env).p.isDis = true → (adevRun cfg sem p out env).t = Tan.zero) := by
  refine ⟨runAProg_wf cfg sem hl p env h, ?_⟩
  unfold adevRun
  rw [evalAProg_eq]
  exact getD_all (fun x : DV K => x.p.isDis = true → x.t = Tan.zero) (fun _ => rfl) _
    (runAProg_wf cfg sem hl p env h) _

/-- … and in the reference forward mode a discrete value has tangent 0 -/
theorem discrete_outputs_have_zero_tangent_jvp (sem : P → Prim K) (hl : ∀ p, (sem p).Lawful)
    (p : Prog P) (out : Nat) (env : List (RD K)) (h : WFJ env) :
    WFJ (evalJProg sem p env) ∧ ((jvpRun sem p out env).p.isDis = true → (jvpRun sem p out env).d = 0) :=
  ⟨evalJProg_wf sem hl p env h,
   getD_all (fun x : RD K => x.p.isDis = true → x.d = 0) (fun _ => rfl) _ (evalJProg_wf sem hl p env h) _⟩

/-! ### loops are n-fold compositions -/

/-- reference forward mode: a `fori` equation with trip count `n` is the n-fold composition of the
    `call` of its body on `consts ++ carry` -/
theorem fori_jvp_iterate (sem : P → Prim K) (n : Nat) (consts ins : List Nat) (body : Prog P) (outs : List Nat)
    (env : List (RD K)) :
    evalJEqn sem (.fori n consts ins body outs) env =
      (fun c => gather (evalJProg sem body (gather env consts ++ c)) outs)^[n] (gather env ins) := by
  rw [evalJEqn, iter_eq_iterate]

/-- … and so is its primal evaluation -/
theorem fori_primal_iterate (sem : P → Prim K) (n : Nat) (consts ins : List Nat) (body : Prog P) (outs : List Nat)
    (env : List (Val K)) :
    evalPEqn sem (.fori n consts ins body outs) env =
      (fun c => gather (evalPProg sem body (gather env consts ++ c)) outs)^[n] (gather env ins) := by
  rw [evalPEqn, iter_eq_iterate]

/-- the interpreter: ONE `fori` equation (fast path decided once, on the loop's operands; otherwise
    JAX's scan JVP) agrees with the n-fold composition of the body's reference forward mode -/
theorem fori_adev_iterate (cfg : Cfg) (hc : cfg.Good) (sem : P → Prim K) (hl : ∀ p, (sem p).Lawful)
    (n : Nat) (consts ins : List Nat) (body : Prog P) (outs : List Nat)
    (env : List (DV K)) (h : WFJ (env.map DV.toRD)) :
    (runAEqn cfg sem (.fori n consts ins body outs) env).map DV.toRD =
      (fun c => gather (evalJProg sem body (gather (env.map DV.toRD) consts ++ c)) outs)^[n]
        (gather (env.map DV.toRD) ins) := by
  rw [runAEqn_toRD cfg hc sem hl _ env h, fori_jvp_iterate]

/-- trip counts add: `m + n` iterations = `n` iterations after `m` iterations (both semantics) -/
theorem fori_add (sem : P → Prim K) (m n : Nat) (consts ins : List Nat) (body : Prog P) (outs : List Nat)
    (env : List (RD K)) :
    evalJEqn sem (.fori (m + n) consts ins body outs) env =
      iter n (fun c => gather (evalJProg sem body (gather env consts ++ c)) outs)
        (evalJEqn sem (.fori m consts ins body outs) env) := by
  rw [evalJEqn, evalJEqn, iter_add]

end Genjax.Adev2
