import GenjaxModel.Proofs.GfiDefs
import GenjaxModel.Proofs.GfiCohInv
import GenjaxModel.Proofs.GfiWeight
/-!
  Weight identities for `generate` (C02) and `regenerate` (C04), and histories (C05).

  Proved as stated: `generate_weight`, `regenerate_weight_noswitch`, `history_coh`, `updates_telescope`.
  False as stated (original statements kept in comments, with counterexample theorems):
  * `regenerate_none` (last conjunct `t'.choices = t.choices`): see `regenerate_none_core`,
    `regenerate_none_partial` (extra hypothesis `g.Canon t`), `regenerate_none_counterexample`;
  * `regenerate_all` (when `cfg.condSwitchCorrection = true` and a Cond switches): see
    `regenerate_all_partial`, `regenerate_all_counterexample`.
-/
namespace Genjax
variable {R : Type} [AddCommGroup R]

mutual
  /-- minus the scores of the leaves of `t` whose address is present in the constraint map `x`
      (= the sum of the log densities of the constrained choices given their parents,
      for a coherent trace) -/
  def GF.cw : GF → Tr R → Option CM → R
    | .dist _, .leaf _ s, some _ => -s
    | .dist _, _, _ => 0
    | .fn body, .fn subs _ _, some (.node x) => body.cw subs x
    | .fn _, _, _ => 0
    | .vmap g _ _, .vec lanes, some (.lanes xs) => sumR ((lanes.toList.zip xs.toList).map fun p => g.cw p.1 (some p.2))
    | .vmap _ _ _, _, _ => 0
    | .scan g _, .scan steps _, some (.lanes xs) => sumR ((steps.toList.zip xs.toList).map fun p => g.cw p.1 (some p.2))
    | .scan _ _, _, _ => 0
    | .cond t f, .cond c a b, some x => if c then t.cw a (some x) else f.cw b (some x)
    | .cond _ _, _, _ => 0
  def Body.cw : Body → TrL R → CML → R
    | .ret _, _, _ => 0
    | .call addr g _ rest, subs, x =>
        (match subs.find? addr with
         | some t => g.cw t (x.find? addr)
         | none => 0) + rest.cw subs x
end

mutual
  /-- sum of the scores of the leaves of `t` selected by `s` (the remainder of the selection is
      threaded down the addresses exactly as `regenerate` does; lanes/steps share the selection) -/
  def GF.selScore : GF → Tr R → Sel → R
    | .dist _, .leaf _ sc, s => if s.leaf then sc else 0
    | .fn body, .fn subs _ _, s => body.selScore subs s
    | .vmap g _ _, .vec lanes, s => sumR (lanes.toList.map fun t => g.selScore t s)
    | .scan g _, .scan steps _, s => sumR (steps.toList.map fun t => g.selScore t s)
    | .cond t f, .cond c a b, s => if c then t.selScore a s else f.selScore b s
    | _, _, _ => 0
  def Body.selScore : Body → TrL R → Sel → R
    | .ret _, _, _ => 0
    | .call addr g _ rest, subs, s =>
        (match subs.find? addr with
         | some t => g.selScore t (s.matchAddr addr).2
         | none => 0) + rest.selScore subs s
end

variable (P : Prims R) (cfg : Cfg)

/-! ### `generate` -/

theorem GF.cw_none (g : GF) (t : Tr R) : g.cw t none = 0 := by
  cases g <;> cases t <;> simp [GF.cw]

theorem Body.generate_find : ∀ (b : Body) (x : CML) (env : List Val) (subs : TrL R) (s w : R)
    (subsF : TrL R) (r : Val) (sF wF : R),
    b.generate P cfg x env subs s w = some (subsF, r, sF, wF) →
    ∀ k t, subs.find? k = some t → subsF.find? k = some t := by
  intro b x env subs s w subsF r sF wF h
  exact (body_generate_inv P cfg b x env subs s w subsF r sF wF h).1

theorem gen_lanes_aux (g : GF) (f : Nat → CM → Option (Tr R × R))
    (hf : ∀ i xi b, f i xi = some b → b.2 = g.cw b.1 (some xi)) :
    ∀ (xs : List CM) (i : Nat) (ts : List (Tr R × R)), forLanes f i xs = some ts →
      sumR (ts.map (·.2)) = sumR (((ts.map (·.1)).zip xs).map fun p => g.cw p.1 (some p.2))
  | [], i, ts, h => by
      simp only [forLanes, Option.some.injEq] at h
      subst h; rfl
  | a :: as, i, ts, h => by
      simp only [forLanes, Option.bind_eq_bind, Option.bind_eq_some_iff, Option.pure_def, Option.some.injEq] at h
      obtain ⟨b, hb, bs, hbs, rfl⟩ := h
      have := gen_lanes_aux g f hf as (i+1) bs hbs
      simp only [List.map_cons, List.zip_cons_cons, sumR, this, hf i a b hb]

theorem gen_steps_aux (g : GF) (f : Val → Nat → CM → Option ((Tr R × R) × Val))
    (hf : ∀ c i xi b, f c i xi = some b → b.1.2 = g.cw b.1.1 (some xi)) :
    ∀ (xs : List CM) (c : Val) (i : Nat) (ts : List (Tr R × R)) (c' : Val),
      forSteps f c i xs = some (ts, c') →
      sumR (ts.map (·.2)) = sumR (((ts.map (·.1)).zip xs).map fun p => g.cw p.1 (some p.2))
  | [], c, i, ts, c', h => by
      simp only [forSteps, Option.some.injEq, Prod.mk.injEq] at h
      obtain ⟨rfl, _⟩ := h; rfl
  | a :: as, c, i, ts, c', h => by
      simp only [forSteps, Option.bind_eq_bind, Option.bind_eq_some_iff, Option.pure_def, Option.some.injEq,
        Prod.mk.injEq] at h
      obtain ⟨⟨b, c1⟩, hb, ⟨bs, c2⟩, hbs, rfl, rfl⟩ := h
      have := gen_steps_aux g f hf as c1 (i+1) bs c2 hbs
      have h2 := hf c i a _ hb
      simp only at h2
      simp only [List.map_cons, List.zip_cons_cons, sumR, this, h2]

theorem generate_weight_some (g : GF) : ∀ (x : CM) (args : List Val) (t : Tr R) (w : R),
    g.generate P cfg (some x) args = some (t, w) → w = g.cw t (some x) := by
  refine GF.rec (motive_1 := fun g => ∀ (x : CM) (args : List Val) (t : Tr R) (w : R),
      g.generate P cfg (some x) args = some (t, w) → w = g.cw t (some x))
    (motive_2 := fun b => ∀ (x : CML) (env : List Val) (subs : TrL R) (s w : R)
      (subsF : TrL R) (r : Val) (sF wF : R),
      b.generate P cfg x env subs s w = some (subsF, r, sF, wF) → wF = w + b.cw subsF x)
    ?_ ?_ ?_ ?_ ?_ ?_ ?_ g
  · -- dist
    intro d x args t w h
    cases x with
    | leaf v =>
      simp only [GF.generate, Option.some.injEq, Prod.mk.injEq] at h
      obtain ⟨rfl, rfl⟩ := h
      simp only [GF.cw, neg_neg]
    | _ => simp [GF.generate] at h
  · -- fn
    intro body ihb x args t w h
    cases x with
    | node x =>
      simp only [GF.generate, Option.bind_eq_bind, Option.bind_eq_some_iff, Option.pure_def, Option.some.injEq,
        Prod.mk.injEq] at h
      obtain ⟨⟨subs, r, s, w'⟩, hb, rfl, rfl⟩ := h
      have := ihb _ _ _ _ _ _ _ _ _ hb
      simp only [GF.cw, this, zero_add]
    | _ => simp [GF.generate] at h
  · -- vmap
    intro g axes n ih x args t w h
    cases x with
    | lanes xs =>
      simp only [GF.generate, Option.bind_eq_bind, Option.bind_eq_some_iff, Option.pure_def, Option.some.injEq,
        Prod.mk.injEq] at h
      obtain ⟨u, hlen, ts, hts, rfl, rfl⟩ := h
      simp only [GF.cw, TrL.toList_ofList]
      exact gen_lanes_aux g _ (fun i xi b hb => ih _ _ _ _ hb) _ _ _ hts
    | _ => simp [GF.generate] at h
  · -- scan
    intro g n ih x args t w h
    cases x with
    | lanes xs =>
      simp only [GF.generate, Option.bind_eq_bind, Option.bind_eq_some_iff, Option.pure_def, Option.some.injEq,
        Prod.mk.injEq] at h
      obtain ⟨u, hlen, ⟨ts, c⟩, hts, rfl, rfl⟩ := h
      simp only [GF.cw, TrL.toList_ofList]
      refine gen_steps_aux g _ ?_ _ _ _ _ _ hts
      intro c i xi b hb
      simp only [Option.bind_eq_some_iff, Option.some.injEq] at hb
      obtain ⟨⟨t1, w1⟩, h1, rfl⟩ := hb
      exact ih _ _ _ _ h1
    | _ => simp [GF.generate] at h
  · -- cond
    intro tg fg iht ihf x args t w h
    simp only [GF.generate, Option.bind_eq_bind, Option.bind_eq_some_iff, Option.pure_def, Option.some.injEq,
        Prod.mk.injEq] at h
    obtain ⟨⟨a, wa⟩, ha, ⟨b, wb⟩, hb, rfl, rfl⟩ := h
    simp only [GF.cw, iht _ _ _ _ ha, ihf _ _ _ _ hb]
  · -- ret
    intro e x env subs s w subsF r sF wF h
    simp only [Body.generate, Option.some.injEq, Prod.mk.injEq] at h
    obtain ⟨_, _, _, rfl⟩ := h
    simp only [Body.cw, add_zero]
  · -- call
    intro addr g es rest ihg ihr x env subs s w subsF r sF wF h
    simp only [Body.generate] at h
    split at h
    · exact absurd h (by simp)
    · rename_i hn
      simp only [Option.bind_eq_bind, Option.bind_eq_some_iff] at h
      obtain ⟨⟨t, wt⟩, ht, hrest⟩ := h
      have hn' : subs.find? addr = none := by simpa using hn
      have hfF : subsF.find? addr = some t :=
        Body.generate_find P cfg rest _ _ _ _ _ _ _ _ _ hrest addr t (TrL.find?_snoc_self hn')
      have e2 := ihr _ _ _ _ _ _ _ _ _ hrest
      have e1 : wt = g.cw t (x.find? addr) := by
        cases hx : x.find? addr with
        | none =>
          rw [hx] at ht
          rw [GF.cw_none]; exact generate_none_weight P cfg g _ _ _ ht
        | some c => rw [hx] at ht; exact ihg _ _ _ _ ht
      simp only [Body.cw, hfF, e2, e1]
      abel

/-- C02: the generate weight is the sum of the log densities of the constrained choices -/
theorem generate_weight (g : GF) (x : Option CM) (args : List Val) (t : Tr R) (w : R)
    (h : g.generate P cfg x args = some (t, w)) : w = g.cw t x := by
  cases x with
  | none => rw [GF.cw_none]; exact generate_none_weight P cfg g _ _ _ h
  | some x => exact generate_weight_some P cfg g x args t w h

/-! ### inversion lemmas for `regenerate` -/

/-- the per-step function of `Scan.regenerate` -/
def regenStep (g : GF) (s : Sel) (args : List Val) : Val → Nat → Tr R → Option (Upd R × Val) :=
  fun c i t => do
    let (t', w, d) ← g.regenerate P cfg t s [c, (args.getD 1 .nil).nth i]
    pure ((t', w, d), t'.retval.fst)

theorem regenStep_some {g : GF} {s : Sel} {args : List Val} {c : Val} {i : Nat} {t : Tr R}
    {b : Upd R} {c' : Val} (h : regenStep P cfg g s args c i t = some (b, c')) :
    g.regenerate P cfg t s [c, (args.getD 1 .nil).nth i] = some b ∧ c' = b.1.retval.fst := by
  simp only [regenStep, Option.bind_eq_bind, Option.bind_eq_some_iff, Option.pure_def, Option.some.injEq,
    Prod.mk.injEq] at h
  obtain ⟨⟨t1, w1, d1⟩, h1, rfl, rfl⟩ := h
  exact ⟨h1, rfl⟩

theorem regen_fn_inv {body : Body} {t : Tr R} {s : Sel} {args : List Val} {t' : Tr R} {w : R} {dd : Option CM}
    (h : (GF.fn body).regenerate P cfg t s args = some (t', w, dd)) :
    ∃ old r0 s0 subs r sc d, t = .fn old r0 s0 ∧
      body.regenerate P cfg old s args .nil 0 0 .nil = some (subs, r, sc, w, d) ∧ t' = .fn subs r sc := by
  cases t with
  | fn old r0 s0 =>
    simp only [GF.regenerate, Option.bind_eq_bind, Option.bind_eq_some_iff, Option.pure_def, Option.some.injEq,
      Prod.mk.injEq] at h
    obtain ⟨⟨subs, r, sc, w', d'⟩, hb, rfl, rfl, -⟩ := h
    exact ⟨old, r0, s0, subs, r, sc, d', rfl, hb, rfl⟩
  | _ => simp [GF.regenerate] at h

theorem regen_vmap_inv {g : GF} {axes : List Bool} {n : Nat} {t : Tr R} {s : Sel} {args : List Val}
    {t' : Tr R} {w : R} {dd : Option CM}
    (h : (GF.vmap g axes n).regenerate P cfg t s args = some (t', w, dd)) :
    ∃ old rs, t = .vec old ∧ old.toList.length = n ∧
      forLanes (fun i (t : Tr R) => g.regenerate P cfg t s (laneArgs axes args i)) 0 old.toList = some rs ∧
      t' = .vec (TrL.ofList (rs.map (·.1))) ∧ w = sumR (rs.map (·.2.1)) := by
  cases t with
  | vec old =>
    simp only [GF.regenerate, Option.bind_eq_bind, Option.bind_eq_some_iff, Option.pure_def, Option.some.injEq,
      Prod.mk.injEq] at h
    obtain ⟨u, hlen, rs, hrs, rfl, rfl, -⟩ := h
    exact ⟨old, rs, rfl, lenIs_eq_some hlen, hrs, rfl, rfl⟩
  | _ => simp [GF.regenerate] at h

theorem regen_scan_inv {g : GF} {n : Nat} {t : Tr R} {s : Sel} {args : List Val}
    {t' : Tr R} {w : R} {dd : Option CM}
    (h : (GF.scan g n).regenerate P cfg t s args = some (t', w, dd)) :
    ∃ old c0 rs c, t = .scan old c0 ∧ old.toList.length = n ∧
      forSteps (regenStep P cfg g s args) (args.getD 0 .nil) 0 old.toList = some (rs, c) ∧
      t' = .scan (TrL.ofList (rs.map (·.1))) c ∧ w = sumR (rs.map (·.2.1)) := by
  cases t with
  | scan old c0 =>
    simp only [GF.regenerate] at h
    split at h
    · exact absurd h (by simp)
    · simp only [Option.bind_eq_bind, Option.bind_eq_some_iff, Option.pure_def, Option.some.injEq,
        Prod.mk.injEq] at h
      obtain ⟨u, hlen, ⟨rs, c⟩, hrs, rfl, rfl, -⟩ := h
      exact ⟨old, c0, rs, c, rfl, lenIs_eq_some hlen, hrs, rfl, rfl⟩
  | _ => simp [GF.regenerate] at h

theorem regen_cond_inv {tg fg : GF} {t : Tr R} {s : Sel} {args : List Val}
    {t' : Tr R} {w : R} {dd : Option CM}
    (h : (GF.cond tg fg).regenerate P cfg t s args = some (t', w, dd)) :
    ∃ cOld a b a' wa da b' wb db, t = .cond cOld a b ∧
      tg.regenerate P cfg a s (args.drop 1) = some (a', wa, da) ∧
      fg.regenerate P cfg b s (args.drop 1) = some (b', wb, db) ∧
      t' = .cond (args.getD 0 .nil).truthy a' b' ∧
      w = (if cfg.condSwitchCorrection
           then (if (args.getD 0 .nil).truthy then wa else wb) +
              ((if cOld then a.score else b.score) + -(if (args.getD 0 .nil).truthy then a.score else b.score))
           else (if (args.getD 0 .nil).truthy then wa else wb)) := by
  cases t with
  | cond cOld a b =>
    simp only [GF.regenerate, Option.bind_eq_bind, Option.bind_eq_some_iff, Option.pure_def, Option.some.injEq,
      Prod.mk.injEq] at h
    obtain ⟨⟨a', wa, da⟩, ha, ⟨b', wb, db⟩, hb, disc, -, rfl, rfl, -⟩ := h
    exact ⟨cOld, a, b, a', wa, da, b', wb, db, rfl, ha, hb, rfl, rfl⟩
  | _ => simp [GF.regenerate] at h

theorem regen_call_inv {addr : String} {g : GF} {es : List Expr} {rest : Body} {old : TrL R} {s : Sel}
    {env : List Val} {subs : TrL R} {sc w : R} {d : CML} {res : TrL R × Val × R × R × CML}
    (h : (Body.call addr g es rest).regenerate P cfg old s env subs sc w d = some res) :
    subs.find? addr = none ∧ ∃ sub t w' dsub, old.find? addr = some sub ∧
      g.regenerate P cfg sub (s.matchAddr addr).2 (es.map (·.eval env)) = some (t, w', dsub) ∧
      rest.regenerate P cfg old s (env ++ [t.retval]) (subs.snoc addr t) (sc + t.score) (w + w')
        (match dsub with | some c => d.snoc addr c | none => d) = some res := by
  simp only [Body.regenerate] at h
  split at h
  · exact absurd h (by simp)
  · rename_i hn
    split at h
    · exact absurd h (by simp)
    · rename_i sub hsub
      simp only [Option.bind_eq_bind, Option.bind_eq_some_iff] at h
      obtain ⟨⟨t, wt, dsub⟩, ht, hrest⟩ := h
      exact ⟨by simpa using hn, sub, t, wt, dsub, hsub, ht, hrest⟩

theorem Body.regenerate_find {b : Body} {old : TrL R} {sel : Sel} {env : List Val} {subs : TrL R} {s w : R}
    {d : CML} {subsF : TrL R} {r : Val} {sF wF : R} {dF : CML}
    (h : b.regenerate P cfg old sel env subs s w d = some (subsF, r, sF, wF, dF)) :
    ∀ k t, subs.find? k = some t → subsF.find? k = some t :=
  (body_regenerate_inv P cfg b old sel env subs s w d subsF r sF wF dF h).1

theorem Sel.selected_matchAddr (s : Sel) (a : String) (p : List String) :
    (s.matchAddr a).2.selected p = s.selected (a :: p) := rfl


/-! ### C04, no switch -/

/-- statement proved by induction on the program -/
def RegenOK (g : GF) : Prop :=
  ∀ (args0 : List Val) (t : Tr R), g.Coh P args0 t →
    ∀ (s : Sel) (args : List Val) (t' : Tr R) (w : R) (d : Option CM),
      g.regenerate P cfg t s args = some (t', w, d) → Tr.sameChecks t t' →
      w = (t.score + -t'.score) + -(g.selScore t s + -(g.selScore t' s))

/-- invariant of the Regenerate handler loop -/
def BodyRegenOK (b : Body) : Prop :=
  ∀ (env0 : List Val) (old : TrL R), b.Coh P env0 old →
    ∀ (s : Sel) (env : List Val) (subs : TrL R) (sc w : R) (d : CML)
      (subsF : TrL R) (r : Val) (scF wF : R) (dF : CML),
      b.regenerate P cfg old s env subs sc w d = some (subsF, r, scF, wF, dF) →
      Tr.sameChecks.TrL.sameChecks old subsF →
      wF = w + sc + b.scoreOf old + b.selScore subsF s + -scF + -(b.selScore old s)

theorem regen_lanes_aux (g : GF) (axes : List Bool) (args0 args : List Val) (s : Sel)
    (IH : RegenOK P cfg g) :
    ∀ (old : TrL R) (i j : Nat) (rs : List (Upd R)),
      lanesCoh (fun a t => g.Coh P a t) axes args0 j old.toList →
      forLanes (fun i (t : Tr R) => g.regenerate P cfg t s (laneArgs axes args i)) i old.toList = some rs →
      Tr.sameChecks.TrL.sameChecksPos old (TrL.ofList (rs.map (·.1))) →
      sumR (rs.map (·.2.1)) = (old.scoreSum + -(TrL.ofList (rs.map (·.1))).scoreSum)
        + -(sumR (old.toList.map fun t => g.selScore t s)
            + -(sumR ((rs.map (·.1)).map fun t => g.selScore t s)))
  | .nil, i, j, rs, hcoh, h, hs => by
      simp only [TrL.toList, forLanes, Option.some.injEq] at h
      subst h
      simp [sumR, TrL.ofList, TrL.scoreSum, TrL.toList]
  | .cons k t rest, i, j, rs, hcoh, h, hs => by
      simp only [TrL.toList, forLanes, Option.bind_eq_bind, Option.bind_eq_some_iff,
        Option.pure_def, Option.some.injEq] at h
      obtain ⟨⟨t1, w1, d1⟩, h1, bs, h2, rfl⟩ := h
      simp only [TrL.toList, lanesCoh] at hcoh
      simp only [List.map_cons, TrL.ofList, Tr.sameChecks.TrL.sameChecksPos] at hs
      have e1 := IH _ t hcoh.1 _ _ _ _ _ h1 hs.1
      have e2 := regen_lanes_aux g axes args0 args s IH rest (i+1) (j+1) bs hcoh.2 h2 hs.2
      simp only [List.map_cons, sumR, TrL.ofList, TrL.scoreSum, TrL.toList, e1, e2]
      abel

theorem regen_steps_aux (g : GF) (xv : Val) (args : List Val) (s : Sel) (IH : RegenOK P cfg g) :
    ∀ (old : TrL R) (c : Val) (i : Nat) (c0 : Val) (j : Nat) (cF : Val) (rs : List (Upd R)) (cN : Val),
      stepsCoh (fun a t => g.Coh P a t) xv c0 j old.toList cF →
      forSteps (regenStep P cfg g s args) c i old.toList = some (rs, cN) →
      Tr.sameChecks.TrL.sameChecksPos old (TrL.ofList (rs.map (·.1))) →
      sumR (rs.map (·.2.1)) = (old.scoreSum + -(TrL.ofList (rs.map (·.1))).scoreSum)
        + -(sumR (old.toList.map fun t => g.selScore t s)
            + -(sumR ((rs.map (·.1)).map fun t => g.selScore t s)))
  | .nil, c, i, c0, j, cF, rs, cN, hcoh, h, hs => by
      simp only [TrL.toList, forSteps, Option.some.injEq, Prod.mk.injEq] at h
      obtain ⟨rfl, _⟩ := h
      simp [sumR, TrL.ofList, TrL.scoreSum, TrL.toList]
  | .cons k t rest, c, i, c0, j, cF, rs, cN, hcoh, h, hs => by
      simp only [TrL.toList, forSteps, Option.bind_eq_bind, Option.bind_eq_some_iff,
        Option.pure_def, Option.some.injEq, Prod.mk.injEq] at h
      obtain ⟨⟨b, c1⟩, hb, ⟨bs, c2⟩, h2, rfl, rfl⟩ := h
      obtain ⟨h1, rfl⟩ := regenStep_some P cfg hb
      simp only [TrL.toList, stepsCoh] at hcoh
      simp only [List.map_cons, TrL.ofList, Tr.sameChecks.TrL.sameChecksPos] at hs
      have e1 := IH _ t hcoh.1 _ _ _ _ _ h1 hs.1
      have e2 := regen_steps_aux g xv args s IH rest _ (i+1) _ (j+1) cF bs _ hcoh.2 h2 hs.2
      simp only [List.map_cons, sumR, TrL.ofList, TrL.scoreSum, TrL.toList, e1, e2]
      abel

theorem regenOK_all (g : GF) : RegenOK P cfg g := by
  refine GF.rec (motive_1 := fun g => RegenOK P cfg g) (motive_2 := fun b => BodyRegenOK P cfg b)
    ?_ ?_ ?_ ?_ ?_ ?_ ?_ g
  · -- dist
    intro d args0 t ht s args t' w dd h hs
    cases t with
    | leaf vOld sOld =>
      simp only [GF.regenerate] at h
      split at h
      · rename_i hl
        simp only [Option.some.injEq, Prod.mk.injEq] at h
        obtain ⟨rfl, rfl, _⟩ := h
        simp only [Tr.score, GF.selScore, hl, if_true]; abel
      · rename_i hl
        simp only [Option.some.injEq, Prod.mk.injEq] at h
        obtain ⟨rfl, rfl, _⟩ := h
        simp only [Tr.score, GF.selScore, hl]; simp only [Bool.false_eq_true, if_false]; abel
    | _ => simp [GF.Coh] at ht
  · -- fn
    intro body ihb args0 t ht s args t' w dd h hs
    obtain ⟨old, r0, s0, subs, r, sc, d, rfl, hb, rfl⟩ := regen_fn_inv P cfg h
    simp only [GF.Coh] at ht
    obtain ⟨hcoh, _, rfl⟩ := ht
    rw [Tr.sameChecks.eq_2] at hs
    have e := ihb _ old hcoh _ _ _ _ _ _ _ _ _ _ _ hb hs
    simp only [Tr.score, GF.selScore]
    rw [e]; abel
  · -- vmap
    intro g axes n ih args0 t ht s args t' w dd h hs
    obtain ⟨old, rs, rfl, hlen, hrs, rfl, rfl⟩ := regen_vmap_inv P cfg h
    simp only [GF.Coh] at ht
    rw [Tr.sameChecks.eq_3] at hs
    simp only [Tr.score, GF.selScore, TrL.toList_ofList]
    exact regen_lanes_aux P cfg g axes args0 args s ih old 0 0 rs ht.2 hrs hs
  · -- scan
    intro g n ih args0 t ht s args t' w dd h hs
    obtain ⟨old, c0, rs, c, rfl, hlen, hrs, rfl, rfl⟩ := regen_scan_inv P cfg h
    simp only [GF.Coh] at ht
    rw [Tr.sameChecks.eq_4] at hs
    simp only [Tr.score, GF.selScore, TrL.toList_ofList]
    exact regen_steps_aux P cfg g _ args s ih old _ 0 _ 0 _ rs c ht.2 hrs hs
  · -- cond
    intro tg fg iht ihf args0 t ht s args t' w dd h hs
    obtain ⟨cOld, a, b, a', wa, da, b', wb, db, rfl, ha, hb, rfl, rfl⟩ := regen_cond_inv P cfg h
    simp only [GF.Coh] at ht
    obtain ⟨_, hca, hcb⟩ := ht
    rw [Tr.sameChecks.eq_5] at hs
    obtain ⟨rfl, hsa, hsb⟩ := hs
    have ea := iht _ a hca _ _ _ _ _ ha hsa
    have eb := ihf _ b hcb _ _ _ _ _ hb hsb
    subst ea eb
    simp only [Tr.score, GF.selScore]
    cases cfg.condSwitchCorrection <;> cases (args.getD 0 Val.nil).truthy <;>
      simp only [Bool.false_eq_true, if_true, if_false] <;> abel
  · -- ret
    intro e env0 old _ s env subs sc w d subsF r scF wF dF h _
    simp only [Body.regenerate, Option.some.injEq, Prod.mk.injEq] at h
    obtain ⟨_, _, rfl, rfl, _⟩ := h
    simp only [Body.scoreOf, Body.selScore]; abel
  · -- call
    intro addr g es rest ihg ihr env0 old hcoh s env subs sc w d subsF r scF wF dF h hs
    simp only [Body.Coh] at hcoh
    obtain ⟨_, t0, hfind, hg, hrest⟩ := hcoh
    obtain ⟨hnone, sub, t1, w1, d1, hsub, h1, h2⟩ := regen_call_inv P cfg h
    rw [hfind] at hsub
    simp only [Option.some.injEq] at hsub
    subst hsub
    have hfF : subsF.find? addr = some t1 :=
      Body.regenerate_find P cfg h2 addr t1 (TrL.find?_snoc_self hnone)
    have hs1 : Tr.sameChecks t0 t1 := by
      have := TrL.sameChecks_find old subsF hs addr t0 hfind
      rw [hfF] at this
      exact this
    have e1 := ihg _ t0 hg _ _ _ _ _ h1 hs1
    have e2 := ihr _ old hrest _ _ _ _ _ _ _ _ _ _ _ h2 hs
    simp only [Body.scoreOf, Body.selScore, hfind, hfF]
    rw [e2, e1]; abel

/-- C04 (no Cond switches, any variant of the code): the regenerate weight is the change of the
    joint score minus the change of the score of the selected choices -/
theorem regenerate_weight_noswitch
    (g : GF) (args0 : List Val) (t : Tr R) (ht : g.Coh P args0 t)
    (s : Sel) (args : List Val) (t' : Tr R) (w : R) (d : Option CM)
    (h : g.regenerate P cfg t s args = some (t', w, d)) (hs : Tr.sameChecks t t') :
    w = (t.score + -t'.score) + -(g.selScore t s + -(g.selScore t' s)) :=
  regenOK_all P cfg g args0 t ht s args t' w d h hs

/-! ### C04, nothing selected -/

section Canon
omit [AddCommGroup R]

/-- lanes / steps in the shape the model's operations build them: keys `""`, every lane `p` -/
def lanesCanon (p : Tr R → Prop) : TrL R → Prop
  | .nil => True
  | .cons k t rest => k = "" ∧ p t ∧ lanesCanon p rest

mutual
  /-- the trace has exactly the shape the operations of the model build for the program:
      a Fn node holds one entry per call site, in program order and nothing else; lanes and steps are
      keyed `""` -/
  def GF.Canon : GF → Tr R → Prop
    | .dist _, .leaf _ _ => True
    | .fn body, .fn subs _ _ => body.CanonL subs
    | .vmap g _ _, .vec lanes => lanesCanon (fun t => g.Canon t) lanes
    | .scan g _, .scan steps _ => lanesCanon (fun t => g.Canon t) steps
    | .cond t f, .cond _ a b => t.Canon a ∧ f.Canon b
    | _, _ => False
  def Body.CanonL : Body → TrL R → Prop
    | .ret _, .nil => True
    | .call addr g _ rest, .cons k t tl => k = addr ∧ g.Canon t ∧ rest.CanonL tl
    | _, _ => False
end

def TrL.append : TrL R → TrL R → TrL R
  | .nil, b => b
  | .cons k t r, b => .cons k t (r.append b)

theorem TrL.snoc_append : ∀ (l : TrL R) (k : String) (t : Tr R) (b : TrL R),
    (l.snoc k t).append b = l.append (.cons k t b)
  | .nil, k, t, b => rfl
  | .cons k' t' r, k, t, b => by
      simp only [TrL.snoc, TrL.append, TrL.snoc_append r k t b]

theorem TrL.append_nil : ∀ (l : TrL R), l.append .nil = l
  | .nil => rfl
  | .cons k t r => by simp only [TrL.append, TrL.append_nil r]

end Canon

def NoneOK (g : GF) : Prop :=
  ∀ (args : List Val) (t : Tr R), g.Coh P args t →
    ∀ (s : Sel), (∀ p, s.selected p = false) → ∀ (t' : Tr R) (w : R) (d : Option CM),
      g.regenerate P cfg t s args = some (t', w, d) →
      w = 0 ∧ t'.score = t.score ∧ t'.retval = t.retval ∧ (g.Canon t → t' = t)

def BodyNoneOK (b : Body) : Prop :=
  ∀ (env : List Val) (old : TrL R), b.Coh P env old →
    ∀ (s : Sel), (∀ p, s.selected p = false) →
    ∀ (subs : TrL R) (sc w : R) (d : CML) (subsF : TrL R) (r : Val) (scF wF : R) (dF : CML),
      b.regenerate P cfg old s env subs sc w d = some (subsF, r, scF, wF, dF) →
      wF = w ∧ scF = sc + b.scoreOf old ∧ r = b.retOf env old ∧
      (∀ tl : TrL R, b.CanonL tl → (∀ k ∈ b.addrs, tl.find? k = old.find? k) → subsF = subs.append tl)

theorem none_lanes_aux (g : GF) (axes : List Bool) (args : List Val) (s : Sel)
    (hsel : ∀ p, s.selected p = false) (IH : NoneOK P cfg g) :
    ∀ (old : TrL R) (i : Nat) (rs : List (Upd R)),
      lanesCoh (fun a t => g.Coh P a t) axes args i old.toList →
      forLanes (fun i (t : Tr R) => g.regenerate P cfg t s (laneArgs axes args i)) i old.toList = some rs →
      sumR (rs.map (·.2.1)) = 0 ∧ (TrL.ofList (rs.map (·.1))).scoreSum = old.scoreSum ∧
      (TrL.ofList (rs.map (·.1))).retvals = old.retvals ∧
      (lanesCanon (fun t => g.Canon t) old → TrL.ofList (rs.map (·.1)) = old)
  | .nil, i, rs, hcoh, h => by
      simp only [TrL.toList, forLanes, Option.some.injEq] at h
      subst h
      simp [sumR, TrL.ofList]
  | .cons k t rest, i, rs, hcoh, h => by
      simp only [TrL.toList, forLanes, Option.bind_eq_bind, Option.bind_eq_some_iff,
        Option.pure_def, Option.some.injEq] at h
      obtain ⟨⟨t1, w1, d1⟩, h1, bs, h2, rfl⟩ := h
      simp only [TrL.toList, lanesCoh] at hcoh
      obtain ⟨e1, e2, e3, e4⟩ := IH _ t hcoh.1 s hsel _ _ _ h1
      obtain ⟨f1, f2, f3, f4⟩ := none_lanes_aux g axes args s hsel IH rest (i+1) bs hcoh.2 h2
      refine ⟨?_, ?_, ?_, ?_⟩
      · simp only [List.map_cons, sumR, e1, f1, add_zero]
      · simp only [List.map_cons, TrL.ofList, TrL.scoreSum, e2, f2]
      · simp only [List.map_cons, TrL.ofList, TrL.retvals, e3, f3]
      · intro hc
        simp only [lanesCanon] at hc
        obtain ⟨rfl, hc1, hc2⟩ := hc
        simp only [List.map_cons, TrL.ofList, e4 hc1, f4 hc2]

theorem none_steps_aux (g : GF) (args : List Val) (s : Sel)
    (hsel : ∀ p, s.selected p = false) (IH : NoneOK P cfg g) :
    ∀ (old : TrL R) (c : Val) (i : Nat) (cF : Val) (rs : List (Upd R)) (cN : Val),
      stepsCoh (fun a t => g.Coh P a t) (args.getD 1 .nil) c i old.toList cF →
      forSteps (regenStep P cfg g s args) c i old.toList = some (rs, cN) →
      cN = cF ∧ sumR (rs.map (·.2.1)) = 0 ∧ (TrL.ofList (rs.map (·.1))).scoreSum = old.scoreSum ∧
      (TrL.ofList (rs.map (·.1))).outs = old.outs ∧
      (lanesCanon (fun t => g.Canon t) old → TrL.ofList (rs.map (·.1)) = old)
  | .nil, c, i, cF, rs, cN, hcoh, h => by
      simp only [TrL.toList, forSteps, Option.some.injEq, Prod.mk.injEq] at h
      obtain ⟨rfl, rfl⟩ := h
      simp only [TrL.toList, stepsCoh] at hcoh
      simp [sumR, TrL.ofList, hcoh]
  | .cons k t rest, c, i, cF, rs, cN, hcoh, h => by
      simp only [TrL.toList, forSteps, Option.bind_eq_bind, Option.bind_eq_some_iff,
        Option.pure_def, Option.some.injEq, Prod.mk.injEq] at h
      obtain ⟨⟨⟨t1, w1, d1⟩, c1⟩, hb, ⟨bs, c2⟩, h2, rfl, rfl⟩ := h
      obtain ⟨h1, rfl⟩ := regenStep_some P cfg hb
      simp only [TrL.toList, stepsCoh] at hcoh
      obtain ⟨e1, e2, e3, e4⟩ := IH _ t hcoh.1 s hsel _ _ _ h1
      simp only at e1 e2 e3 e4 h2
      rw [e3] at h2
      obtain ⟨f0, f1, f2, f3, f4⟩ := none_steps_aux g args s hsel IH rest _ (i+1) cF bs _ hcoh.2 h2
      refine ⟨f0, ?_, ?_, ?_, ?_⟩
      · simp only [List.map_cons, sumR, e1, f1, add_zero]
      · simp only [List.map_cons, TrL.ofList, TrL.scoreSum, e2, f2]
      · simp only [List.map_cons, TrL.ofList, TrL.outs, e3, f3]
      · intro hc
        simp only [lanesCanon] at hc
        obtain ⟨rfl, hc1, hc2⟩ := hc
        simp only [List.map_cons, TrL.ofList, e4 hc1, f4 hc2]

theorem noneOK_all (g : GF) : NoneOK P cfg g := by
  refine GF.rec (motive_1 := fun g => NoneOK P cfg g) (motive_2 := fun b => BodyNoneOK P cfg b)
    ?_ ?_ ?_ ?_ ?_ ?_ ?_ g
  · -- dist
    intro d args t ht s hsel t' w dd h
    have hl : s.leaf = false := hsel []
    cases t with
    | leaf vOld sOld =>
      simp only [GF.Coh] at ht
      simp only [GF.regenerate, hl, Bool.false_eq_true, if_false, Option.some.injEq, Prod.mk.injEq] at h
      obtain ⟨rfl, rfl, _⟩ := h
      subst ht
      simp only [Tr.score, Tr.retval, add_neg_cancel, true_and]
      intro _; trivial
    | _ => simp [GF.Coh] at ht
  · -- fn
    intro body ihb args t ht s hsel t' w dd h
    obtain ⟨old, r0, s0, subs, r, sc, d, rfl, hb, rfl⟩ := regen_fn_inv P cfg h
    simp only [GF.Coh] at ht
    obtain ⟨hcoh, rfl, rfl⟩ := ht
    obtain ⟨e1, e2, e3, e4⟩ := ihb _ old hcoh s hsel _ _ _ _ _ _ _ _ _ hb
    refine ⟨e1, by simp only [Tr.score, e2, zero_add], by simp only [Tr.retval, e3], ?_⟩
    intro hc
    simp only [GF.Canon] at hc
    have := e4 old hc (fun _ _ => rfl)
    simp only [TrL.append] at this
    subst this
    simp only [e2, e3, zero_add]
  · -- vmap
    intro g axes n ih args t ht s hsel t' w dd h
    obtain ⟨old, rs, rfl, hlen, hrs, rfl, rfl⟩ := regen_vmap_inv P cfg h
    simp only [GF.Coh] at ht
    obtain ⟨f1, f2, f3, f4⟩ := none_lanes_aux P cfg g axes args s hsel ih old 0 rs ht.2 hrs
    refine ⟨f1, by simp only [Tr.score, f2], by simp only [Tr.retval, f3], ?_⟩
    intro hc
    simp only [GF.Canon] at hc
    rw [f4 hc]
  · -- scan
    intro g n ih args t ht s hsel t' w dd h
    obtain ⟨old, c0, rs, c, rfl, hlen, hrs, rfl, rfl⟩ := regen_scan_inv P cfg h
    simp only [GF.Coh] at ht
    obtain ⟨f0, f1, f2, f3, f4⟩ := none_steps_aux P cfg g args s hsel ih old _ 0 _ rs c ht.2 hrs
    subst f0
    refine ⟨f1, by simp only [Tr.score, f2], by simp only [Tr.retval, f3], ?_⟩
    intro hc
    simp only [GF.Canon] at hc
    rw [f4 hc]
  · -- cond
    intro tg fg iht ihf args t ht s hsel t' w dd h
    obtain ⟨cOld, a, b, a', wa, da, b', wb, db, rfl, ha, hb, rfl, rfl⟩ := regen_cond_inv P cfg h
    simp only [GF.Coh] at ht
    obtain ⟨rfl, hca, hcb⟩ := ht
    obtain ⟨a1, a2, a3, a4⟩ := iht _ a hca s hsel _ _ _ ha
    obtain ⟨b1, b2, b3, b4⟩ := ihf _ b hcb s hsel _ _ _ hb
    subst a1 b1
    refine ⟨?_, by simp only [Tr.score, a2, b2], by simp only [Tr.retval, a3, b3], ?_⟩
    · simp only [ite_self, add_neg_cancel, add_zero]
    · intro hc
      simp only [GF.Canon] at hc
      rw [a4 hc.1, b4 hc.2]
  · -- ret
    intro e env old _ s _ subs sc w d subsF r scF wF dF h
    simp only [Body.regenerate, Option.some.injEq, Prod.mk.injEq] at h
    obtain ⟨rfl, rfl, rfl, rfl, _⟩ := h
    refine ⟨rfl, by simp only [Body.scoreOf, add_zero], by simp only [Body.retOf], ?_⟩
    intro tl hc _
    cases tl with
    | nil => exact (TrL.append_nil _).symm
    | cons k t tl => simp [Body.CanonL] at hc
  · -- call
    intro addr g es rest ihg ihr env old hcoh s hsel subs sc w d subsF r scF wF dF h
    simp only [Body.Coh] at hcoh
    obtain ⟨hnot, t0, hfind, hg, hrest⟩ := hcoh
    obtain ⟨hnone, sub, t1, w1, d1, hsub, h1, h2⟩ := regen_call_inv P cfg h
    rw [hfind] at hsub
    simp only [Option.some.injEq] at hsub
    subst hsub
    obtain ⟨e1, e2, e3, e4⟩ := ihg _ t0 hg _ (fun p => hsel (addr :: p)) _ _ _ h1
    subst e1
    rw [e3] at h2
    obtain ⟨f1, f2, f3, f4⟩ := ihr _ old hrest s hsel _ _ _ _ _ _ _ _ _ h2
    refine ⟨by rw [f1, add_zero], ?_, ?_, ?_⟩
    · simp only [Body.scoreOf, hfind, f2, e2]; abel
    · simp only [Body.retOf, hfind, f3]
    · intro tl hc hfd
      cases tl with
      | nil => simp [Body.CanonL] at hc
      | cons k tc tl' =>
        simp only [Body.CanonL] at hc
        obtain ⟨rfl, hc1, hc2⟩ := hc
        have h0 : tc = t0 := by
          have := hfd k (by simp [Body.addrs])
          simp only [TrL.find?, if_true, hfind, Option.some.injEq] at this
          exact this
        subst h0
        have := f4 tl' hc2 (by
          intro a ha
          have hne : a ≠ k := by rintro rfl; exact hnot ha
          have := hfd a (by simp [Body.addrs, ha])
          simpa only [TrL.find?, hne, if_false] using this)
        rw [this, e4 hc1, TrL.snoc_append]

/-- C04 (part that holds as stated): with the empty selection and unchanged arguments the weight is 0
    and score and return value are unchanged -/
theorem regenerate_none_core
    (g : GF) (args : List Val) (t : Tr R) (ht : g.Coh P args t)
    (s : Sel) (hsel : ∀ p, s.selected p = false) (t' : Tr R) (w : R) (d : Option CM)
    (h : g.regenerate P cfg t s args = some (t', w, d)) :
    w = 0 ∧ t'.score = t.score ∧ t'.retval = t.retval := by
  obtain ⟨h1, h2, h3, _⟩ := noneOK_all P cfg g args t ht s hsel t' w d h
  exact ⟨h1, h2, h3⟩

/-- with the empty selection and unchanged arguments, `regenerate` returns a canonical coherent trace
    unchanged -/
theorem regenerate_none_eq
    (g : GF) (args : List Val) (t : Tr R) (ht : g.Coh P args t) (hcan : g.Canon t)
    (s : Sel) (hsel : ∀ p, s.selected p = false) (t' : Tr R) (w : R) (d : Option CM)
    (h : g.regenerate P cfg t s args = some (t', w, d)) : t' = t :=
  (noneOK_all P cfg g args t ht s hsel t' w d h).2.2.2 hcan

/-
  ORIGINAL STATEMENT -- FALSE as stated (last conjunct), kept for reference:

  theorem regenerate_none
      (g : GF) (args : List Val) (t : Tr R) (ht : g.Coh P args t)
      (s : Sel) (hsel : ∀ p, s.selected p = false) (t' : Tr R) (w : R) (d : Option CM)
      (h : g.regenerate P cfg t s args = some (t', w, d)) :
      w = 0 ∧ t'.score = t.score ∧ t'.retval = t.retval ∧ t'.choices = t.choices

  Reason: `GF.Coh` constrains only the sub-traces a Fn body looks up by address (and ignores the keys of
  lanes / steps), whereas `regenerate` rebuilds the trace in program order with keys `""` for lanes.
  A coherent trace with an unreferenced ("junk") entry, with its entries in another order than the
  program's, or with non-empty lane keys therefore changes its choice map under the empty selection:
  see `regenerate_none_counterexample`.  Cond nodes are *not* an obstacle.
  What holds: the first three conjuncts as stated (`regenerate_none_core`), and all four -- indeed
  `t' = t` (`regenerate_none_eq`) -- for traces of canonical shape `g.Canon t`, which is the shape of
  every trace the model's operations build (`simulate_canon`, `generate_canon`, `update_canon`,
  `regenerate_canon` below).
-/

/-- C04, corrected: original conclusion for traces of canonical shape -/
theorem regenerate_none_partial
    (g : GF) (args : List Val) (t : Tr R) (ht : g.Coh P args t) (hcan : g.Canon t)
    (s : Sel) (hsel : ∀ p, s.selected p = false) (t' : Tr R) (w : R) (d : Option CM)
    (h : g.regenerate P cfg t s args = some (t', w, d)) :
    w = 0 ∧ t'.score = t.score ∧ t'.retval = t.retval ∧ t'.choices = t.choices := by
  obtain ⟨h1, h2, h3, h4⟩ := noneOK_all P cfg g args t ht s hsel t' w d h
  exact ⟨h1, h2, h3, by rw [h4 hcan]⟩

theorem Sel.none_selected (p : List String) : Sel.none.selected p = false := by
  have : ∀ p : List String, Sel.none.rem p = Sel.none := by
    intro p; induction p with
    | nil => rfl
    | cons k p ih => simpa only [Sel.rem, Sel.matchAddr] using ih
  simp only [Sel.selected, this, Sel.leaf]

theorem Sel.all_selected (p : List String) : Sel.all.selected p = true := by
  have : ∀ p : List String, Sel.all.rem p = Sel.all := by
    intro p; induction p with
    | nil => rfl
    | cons k p ih => simpa only [Sel.rem, Sel.matchAddr] using ih
  simp only [Sel.selected, this, Sel.leaf]

/-- the original `regenerate_none` is false: a coherent trace with a junk entry loses it -/
theorem regenerate_none_counterexample :
    ∃ (g : GF) (args : List Val) (t : Tr R) (s : Sel) (t' : Tr R) (w : R) (d : Option CM),
      g.Coh P args t ∧ (∀ p, s.selected p = false) ∧
      g.regenerate P cfg t s args = some (t', w, d) ∧ t'.choices ≠ t.choices := by
  refine ⟨.fn (.call "a" (.dist 0) [] (.ret (.const 0))), [],
    .fn (.cons "a" (.leaf .nil (-(P.lp 0 [] .nil))) (.cons "junk" (.leaf .nil 0) .nil)) (.num 0)
      (-(P.lp 0 [] .nil) + 0), .none, _, _, _, ?_, Sel.none_selected, rfl, ?_⟩
  · simp [GF.Coh, Body.Coh, Body.retOf, Body.scoreOf, Body.addrs, TrL.find?, Expr.eval, Tr.score]
  · simp [Tr.choices, TrL.choices, TrL.snoc]

/-! ### every trace built by the model's operations has canonical shape -/

section CanonOps

omit [AddCommGroup R] in
theorem lanesCanon_ofList (p : Tr R → Prop) : ∀ (ts : List (Tr R)), (∀ t ∈ ts, p t) →
    lanesCanon p (TrL.ofList ts)
  | [], _ => trivial
  | t :: ts, h => by
      simp only [TrL.ofList, lanesCanon, true_and]
      exact ⟨h t (by simp), lanesCanon_ofList p ts (fun t' ht' => h t' (by simp [ht']))⟩

omit [AddCommGroup R] in
theorem lanesCanon_map {β : Type} (p : Tr R → Prop) (bs : List β) (proj : β → Tr R)
    (h : ∀ b ∈ bs, p (proj b)) : lanesCanon p (TrL.ofList (bs.map proj)) := by
  refine lanesCanon_ofList p _ ?_
  intro t ht
  simp only [List.mem_map] at ht
  obtain ⟨b, hb, rfl⟩ := ht
  exact h b hb

theorem forLanes_forall {α β : Type} (f : Nat → α → Option β) (Q : β → Prop)
    (hf : ∀ i a b, f i a = some b → Q b) :
    ∀ (as : List α) (i : Nat) (bs : List β), forLanes f i as = some bs → ∀ b ∈ bs, Q b
  | [], i, bs, h => by
      simp only [forLanes, Option.some.injEq] at h
      subst h; simp
  | a :: as, i, bs, h => by
      simp only [forLanes, Option.bind_eq_bind, Option.bind_eq_some_iff, Option.pure_def,
        Option.some.injEq] at h
      obtain ⟨b, hb, bs', hbs', rfl⟩ := h
      intro b' hb'
      simp only [List.mem_cons] at hb'
      rcases hb' with rfl | hb'
      · exact hf _ _ _ hb
      · exact forLanes_forall f Q hf as _ _ hbs' _ hb'

theorem forSteps_forall {α β : Type} (f : Val → Nat → α → Option (β × Val)) (Q : β → Prop)
    (hf : ∀ c i a b c', f c i a = some (b, c') → Q b) :
    ∀ (as : List α) (c : Val) (i : Nat) (bs : List β) (c' : Val),
      forSteps f c i as = some (bs, c') → ∀ b ∈ bs, Q b
  | [], c, i, bs, c', h => by
      simp only [forSteps, Option.some.injEq, Prod.mk.injEq] at h
      obtain ⟨rfl, _⟩ := h; simp
  | a :: as, c, i, bs, c', h => by
      simp only [forSteps, Option.bind_eq_bind, Option.bind_eq_some_iff, Option.pure_def,
        Option.some.injEq, Prod.mk.injEq] at h
      obtain ⟨⟨b, c1⟩, hb, ⟨bs', c2⟩, hbs', rfl, rfl⟩ := h
      intro b' hb'
      simp only [List.mem_cons] at hb'
      rcases hb' with rfl | hb'
      · exact hf _ _ _ _ _ hb
      · exact forSteps_forall f Q hf as _ _ _ _ hbs' _ hb'

/-- the handler loops append the body's call sites, in order, to the accumulated sub-traces -/
def BodyCanonInv (b : Body) (subs subsF : TrL R) : Prop :=
  ∃ tl : TrL R, b.CanonL tl ∧ subsF = subs.append tl

omit [AddCommGroup R] in
theorem BodyCanonInv.ret (e : Expr) (subs : TrL R) : BodyCanonInv (.ret e) subs subs :=
  ⟨.nil, by simp only [Body.CanonL], (TrL.append_nil subs).symm⟩

omit [AddCommGroup R] in
theorem BodyCanonInv.call {addr : String} {g : GF} {es : List Expr} {rest : Body} {subs subsF : TrL R}
    {t : Tr R} (hg : g.Canon t) (h : BodyCanonInv rest (subs.snoc addr t) subsF) :
    BodyCanonInv (.call addr g es rest) subs subsF := by
  obtain ⟨tl, hc, rfl⟩ := h
  exact ⟨.cons addr t tl, by simp only [Body.CanonL]; exact ⟨trivial, hg, hc⟩, TrL.snoc_append _ _ _ _⟩

omit [AddCommGroup R] in
theorem BodyCanonInv.final {b : Body} {subsF : TrL R} (h : BodyCanonInv b .nil subsF) : b.CanonL subsF := by
  obtain ⟨tl, hc, rfl⟩ := h
  exact hc

theorem simulate_canon (g : GF) : ∀ (args : List Val) (t : Tr R), g.simulate P args = some t → g.Canon t := by
  refine GF.rec (motive_1 := fun g => ∀ (args : List Val) (t : Tr R), g.simulate P args = some t → g.Canon t)
    (motive_2 := fun b => ∀ (env : List Val) (subs : TrL R) (s : R) (subsF : TrL R) (r : Val) (sF : R),
      b.simulate P env subs s = some (subsF, r, sF) → BodyCanonInv b subs subsF)
    ?_ ?_ ?_ ?_ ?_ ?_ ?_ g
  · intro d args t h
    simp only [GF.simulate, Option.some.injEq] at h
    subst h; simp only [GF.Canon]
  · intro body ihb args t h
    simp only [GF.simulate, Option.bind_eq_bind, Option.bind_eq_some_iff, Option.pure_def, Option.some.injEq] at h
    obtain ⟨⟨subs, r, s⟩, hb, rfl⟩ := h
    simp only [GF.Canon]
    exact (ihb _ _ _ _ _ _ hb).final
  · intro g axes n ih args t h
    simp only [GF.simulate, Option.bind_eq_bind, Option.bind_eq_some_iff, Option.pure_def, Option.some.injEq] at h
    obtain ⟨ts, hts, rfl⟩ := h
    simp only [GF.Canon]
    exact lanesCanon_ofList _ _ (forLanes_forall _ _ (fun i _ b hb => ih _ b hb) _ _ _ hts)
  · intro g n ih args t h
    simp only [GF.simulate, Option.bind_eq_bind, Option.bind_eq_some_iff, Option.pure_def, Option.some.injEq] at h
    obtain ⟨⟨ts, c⟩, hts, rfl⟩ := h
    simp only [GF.Canon]
    refine lanesCanon_ofList _ _ (forSteps_forall _ _ (fun c i _ b c' hb => ?_) _ _ _ _ _ hts)
    simp only [Option.bind_eq_some_iff, Option.some.injEq, Prod.mk.injEq] at hb
    obtain ⟨t, ht, rfl, _⟩ := hb
    exact ih _ _ ht
  · intro tg fg iht ihf args t h
    simp only [GF.simulate, Option.bind_eq_bind, Option.bind_eq_some_iff, Option.pure_def, Option.some.injEq] at h
    obtain ⟨a, ha, b, hb, rfl⟩ := h
    simp only [GF.Canon]
    exact ⟨iht _ _ ha, ihf _ _ hb⟩
  · intro e env subs s subsF r sF h
    simp only [Body.simulate, Option.some.injEq, Prod.mk.injEq] at h
    obtain ⟨rfl, _⟩ := h
    exact BodyCanonInv.ret e subs
  · intro addr g es rest ihg ihr env subs s subsF r sF h
    simp only [Body.simulate] at h
    split at h
    · exact absurd h (by simp)
    · simp only [Option.bind_eq_bind, Option.bind_eq_some_iff] at h
      obtain ⟨t, ht, hrest⟩ := h
      exact BodyCanonInv.call (ihg _ _ ht) (ihr _ _ _ _ _ _ hrest)

theorem generate_canon (g : GF) : ∀ (x : Option CM) (args : List Val) (t : Tr R) (w : R),
    g.generate P cfg x args = some (t, w) → g.Canon t := by
  refine GF.rec (motive_1 := fun g => ∀ (x : Option CM) (args : List Val) (t : Tr R) (w : R),
      g.generate P cfg x args = some (t, w) → g.Canon t)
    (motive_2 := fun b => ∀ (x : CML) (env : List Val) (subs : TrL R) (s w : R) (subsF : TrL R) (r : Val)
      (sF wF : R), b.generate P cfg x env subs s w = some (subsF, r, sF, wF) → BodyCanonInv b subs subsF)
    ?_ ?_ ?_ ?_ ?_ ?_ ?_ g
  · intro d x args t w h
    rcases x with _ | (v | kids | kids) <;>
      simp only [GF.generate, Option.some.injEq, Prod.mk.injEq, reduceCtorEq] at h
    all_goals (obtain ⟨rfl, _⟩ := h; simp only [GF.Canon])
  · intro body ihb x args t w h
    rcases x with _ | (v | kids | kids) <;>
      simp only [GF.generate, Option.bind_eq_bind, Option.bind_eq_some_iff, Option.pure_def,
        Option.some.injEq, Prod.mk.injEq, reduceCtorEq] at h
    · obtain ⟨⟨subs, r, s⟩, hb, rfl, _⟩ := h
      refine simulate_canon P (.fn body) args _ ?_
      simp only [GF.simulate, hb, Option.bind_eq_bind, Option.bind_some, Option.pure_def]
    · obtain ⟨⟨subs, r, s, w'⟩, hb, rfl, _⟩ := h
      simp only [GF.Canon]
      exact (ihb _ _ _ _ _ _ _ _ _ hb).final
  · intro g axes n ih x args t w h
    rcases x with _ | (v | kids | kids) <;>
      simp only [GF.generate, Option.bind_eq_bind, Option.bind_eq_some_iff, Option.pure_def,
        Option.some.injEq, Prod.mk.injEq, reduceCtorEq] at h
    · split at h
      · simp only [Option.bind_eq_some_iff, Option.some.injEq, Prod.mk.injEq] at h
        obtain ⟨ts, hts, rfl, _⟩ := h
        simp only [GF.Canon]
        exact lanesCanon_map _ _ _ (forLanes_forall _ (fun p : Tr R × R => g.Canon p.1)
          (fun i _ b hb => ih _ _ b.1 b.2 hb) _ _ _ hts)
      · exact absurd h (by simp)
    · obtain ⟨_, _, ts, hts, rfl, _⟩ := h
      simp only [GF.Canon]
      exact lanesCanon_map _ _ _ (forLanes_forall _ (fun p : Tr R × R => g.Canon p.1)
        (fun i _ b hb => ih _ _ b.1 b.2 hb) _ _ _ hts)
  · intro g n ih x args t w h
    have key : ∀ (xo : Option CM) (a : List Val) (b : Tr R × R) (c' : Val),
        (do let (t, w) ← g.generate P cfg xo a; pure ((t, w), t.retval.fst) :
          Option ((Tr R × R) × Val)) = some (b, c') → g.Canon b.1 := by
      intro xo a b c' hb
      simp only [Option.bind_eq_bind, Option.bind_eq_some_iff, Option.pure_def,
        Option.some.injEq, Prod.mk.injEq] at hb
      obtain ⟨⟨t, w⟩, ht, rfl, _⟩ := hb
      exact ih _ _ _ _ ht
    rcases x with _ | (v | kids | kids) <;>
      simp only [GF.generate, Option.bind_eq_bind, Option.bind_eq_some_iff, Option.pure_def,
        Option.some.injEq, Prod.mk.injEq, reduceCtorEq] at h
    · obtain ⟨⟨ts, c⟩, hts, rfl, _⟩ := h
      simp only [GF.Canon]
      exact lanesCanon_map _ _ _ (forSteps_forall _ (fun p : Tr R × R => g.Canon p.1)
        (fun c i _ b c' hb => key none _ b c' hb) _ _ _ _ _ hts)
    · obtain ⟨_, _, ⟨ts, c⟩, hts, rfl, _⟩ := h
      simp only [GF.Canon]
      exact lanesCanon_map _ _ _ (forSteps_forall _ (fun p : Tr R × R => g.Canon p.1)
        (fun c i xi b c' hb => key (some xi) _ b c' hb) _ _ _ _ _ hts)
  · intro tg fg iht ihf x args t w h
    rcases x with _ | x <;>
      simp only [GF.generate, Option.bind_eq_bind, Option.bind_eq_some_iff, Option.pure_def,
        Option.some.injEq, Prod.mk.injEq] at h
    · obtain ⟨a, ha, b, hb, rfl, _⟩ := h
      simp only [GF.Canon]
      exact ⟨simulate_canon P tg _ _ ha, simulate_canon P fg _ _ hb⟩
    · obtain ⟨⟨a, wa⟩, ha, ⟨b, wb⟩, hb, rfl, _⟩ := h
      simp only [GF.Canon]
      exact ⟨iht _ _ _ _ ha, ihf _ _ _ _ hb⟩
  · intro e x env subs s w subsF r sF wF h
    simp only [Body.generate, Option.some.injEq, Prod.mk.injEq] at h
    obtain ⟨rfl, _⟩ := h
    exact BodyCanonInv.ret e subs
  · intro addr g es rest ihg ihr x env subs s w subsF r sF wF h
    simp only [Body.generate] at h
    split at h
    · exact absurd h (by simp)
    · simp only [Option.bind_eq_bind, Option.bind_eq_some_iff] at h
      obtain ⟨⟨t, wt⟩, ht, hrest⟩ := h
      exact BodyCanonInv.call (ihg _ _ _ _ ht) (ihr _ _ _ _ _ _ _ _ _ hrest)

theorem update_canon (g : GF) : ∀ (t : Tr R) (x : Option CM) (args : List Val) (t' : Tr R) (w : R)
    (d : Option CM), g.update P cfg t x args = some (t', w, d) → g.Canon t' := by
  refine GF.rec (motive_1 := fun g => ∀ (t : Tr R) (x : Option CM) (args : List Val) (t' : Tr R) (w : R)
      (d : Option CM), g.update P cfg t x args = some (t', w, d) → g.Canon t')
    (motive_2 := fun b => ∀ (old : TrL R) (x : CML) (env : List Val) (subs : TrL R) (s w : R) (d : CML)
      (subsF : TrL R) (r : Val) (sF wF : R) (dF : CML),
      b.update P cfg old x env subs s w d = some (subsF, r, sF, wF, dF) → BodyCanonInv b subs subsF)
    ?_ ?_ ?_ ?_ ?_ ?_ ?_ g
  · intro dd t x args t' w d h
    cases t <;> simp only [GF.update, reduceCtorEq] at h
    split at h <;> simp only [Option.some.injEq, Prod.mk.injEq, reduceCtorEq] at h
    all_goals (obtain ⟨rfl, _⟩ := h; simp only [GF.Canon])
  · intro body ihb t x args t' w d h
    cases t <;> simp only [GF.update, reduceCtorEq] at h
    split at h
    · exact absurd h (by simp)
    · simp only [Option.bind_eq_bind, Option.bind_eq_some_iff, Option.pure_def,
        Option.some.injEq, Prod.mk.injEq] at h
      obtain ⟨⟨subs, r, s, w', d'⟩, hb, rfl, _⟩ := h
      simp only [GF.Canon]
      exact (ihb _ _ _ _ _ _ _ _ _ _ _ _ hb).final
  · intro g axes n ih t x args t' w d h
    cases t <;> simp only [GF.update, reduceCtorEq] at h
    simp only [Option.bind_eq_bind, Option.bind_eq_some_iff, Option.pure_def,
      Option.some.injEq, Prod.mk.injEq] at h
    obtain ⟨_, _, xs, _, rs, hrs, rfl, _⟩ := h
    simp only [GF.Canon]
    exact lanesCanon_map _ _ _ (forLanes_forall _ (fun p : Upd R => g.Canon p.1)
      (fun i a b hb => ih _ _ _ b.1 b.2.1 b.2.2 hb) _ _ _ hrs)
  · intro g n ih t x args t' w d h
    cases t <;> simp only [GF.update, reduceCtorEq] at h
    simp only [Option.bind_eq_bind, Option.bind_eq_some_iff, Option.pure_def,
      Option.some.injEq, Prod.mk.injEq] at h
    obtain ⟨_, _, xs, _, ⟨rs, c⟩, hrs, rfl, _⟩ := h
    simp only [GF.Canon]
    refine lanesCanon_map _ _ _ (forSteps_forall _ (fun p : Upd R => g.Canon p.1)
      (fun c i a b c' hb => ?_) _ _ _ _ _ hrs)
    simp only [Option.bind_eq_some_iff, Option.some.injEq, Prod.mk.injEq] at hb
    obtain ⟨⟨t, w, d⟩, ht, rfl, _⟩ := hb
    exact ih _ _ _ _ _ _ ht
  · intro tg fg iht ihf t x args t' w d h
    cases t <;> simp only [GF.update, reduceCtorEq] at h
    simp only [Option.bind_eq_bind, Option.bind_eq_some_iff, Option.pure_def,
      Option.some.injEq, Prod.mk.injEq] at h
    obtain ⟨xq, -, ⟨a', wa, da⟩, ha, ⟨b', wb, db⟩, hb, disc, _, rfl, _⟩ := h
    simp only [GF.Canon]
    exact ⟨iht _ _ _ _ _ _ ha, ihf _ _ _ _ _ _ hb⟩
  · intro e old x env subs s w d subsF r sF wF dF h
    simp only [Body.update, Option.some.injEq, Prod.mk.injEq] at h
    obtain ⟨rfl, _⟩ := h
    exact BodyCanonInv.ret e subs
  · intro addr g es rest ihg ihr old x env subs s w d subsF r sF wF dF h
    simp only [Body.update] at h
    split at h
    · exact absurd h (by simp)
    · split at h
      · exact absurd h (by simp)
      · simp only [Option.bind_eq_bind, Option.bind_eq_some_iff] at h
        obtain ⟨xsub, _, ⟨t, wt, dsub⟩, ht, hrest⟩ := h
        exact BodyCanonInv.call (ihg _ _ _ _ _ _ ht) (ihr _ _ _ _ _ _ _ _ _ _ _ _ hrest)

theorem regenerate_canon (g : GF) : ∀ (t : Tr R) (s : Sel) (args : List Val) (t' : Tr R) (w : R)
    (d : Option CM), g.regenerate P cfg t s args = some (t', w, d) → g.Canon t' := by
  refine GF.rec (motive_1 := fun g => ∀ (t : Tr R) (s : Sel) (args : List Val) (t' : Tr R) (w : R)
      (d : Option CM), g.regenerate P cfg t s args = some (t', w, d) → g.Canon t')
    (motive_2 := fun b => ∀ (old : TrL R) (sel : Sel) (env : List Val) (subs : TrL R) (s w : R) (d : CML)
      (subsF : TrL R) (r : Val) (sF wF : R) (dF : CML),
      b.regenerate P cfg old sel env subs s w d = some (subsF, r, sF, wF, dF) → BodyCanonInv b subs subsF)
    ?_ ?_ ?_ ?_ ?_ ?_ ?_ g
  · intro dd t s args t' w d h
    cases t <;> simp only [GF.regenerate, reduceCtorEq] at h
    split at h <;> simp only [Option.some.injEq, Prod.mk.injEq] at h
    all_goals (obtain ⟨rfl, _⟩ := h; simp only [GF.Canon])
  · intro body ihb t s args t' w d h
    obtain ⟨old, r0, s0, subs, r, sc, d', rfl, hb, rfl⟩ := regen_fn_inv P cfg h
    simp only [GF.Canon]
    exact (ihb _ _ _ _ _ _ _ _ _ _ _ _ hb).final
  · intro g axes n ih t s args t' w d h
    obtain ⟨old, rs, rfl, hlen, hrs, rfl, rfl⟩ := regen_vmap_inv P cfg h
    simp only [GF.Canon]
    exact lanesCanon_map _ _ _ (forLanes_forall _ (fun p : Upd R => g.Canon p.1)
      (fun i a b hb => ih _ _ _ b.1 b.2.1 b.2.2 hb) _ _ _ hrs)
  · intro g n ih t s args t' w d h
    obtain ⟨old, c0, rs, c, rfl, hlen, hrs, rfl, rfl⟩ := regen_scan_inv P cfg h
    simp only [GF.Canon]
    exact lanesCanon_map _ _ _ (forSteps_forall _ (fun p : Upd R => g.Canon p.1)
      (fun c i a b c' hb => ih _ _ _ b.1 b.2.1 b.2.2 (regenStep_some P cfg hb).1) _ _ _ _ _ hrs)
  · intro tg fg iht ihf t s args t' w d h
    obtain ⟨cOld, a, b, a', wa, da, b', wb, db, rfl, ha, hb, rfl, rfl⟩ := regen_cond_inv P cfg h
    simp only [GF.Canon]
    exact ⟨iht _ _ _ _ _ _ ha, ihf _ _ _ _ _ _ hb⟩
  · intro e old sel env subs s w d subsF r sF wF dF h
    simp only [Body.regenerate, Option.some.injEq, Prod.mk.injEq] at h
    obtain ⟨rfl, _⟩ := h
    exact BodyCanonInv.ret e subs
  · intro addr g es rest ihg ihr old sel env subs s w d subsF r sF wF dF h
    obtain ⟨_, sub, t1, w1, d1, _, h1, h2⟩ := regen_call_inv P cfg h
    exact BodyCanonInv.call (ihg _ _ _ _ _ _ h1) (ihr _ _ _ _ _ _ _ _ _ _ _ _ h2)

end CanonOps

/-! ### C04, everything selected -/

def AllOK (g : GF) : Prop :=
  ∀ (t : Tr R) (s : Sel), (∀ p, s.selected p = true) →
    ∀ (args : List Val) (t' : Tr R) (w : R) (d : Option CM),
      g.regenerate P cfg t s args = some (t', w, d) →
      (cfg.condSwitchCorrection = false ∨ Tr.sameChecks t t') → w = 0

def BodyAllOK (b : Body) : Prop :=
  ∀ (old : TrL R) (s : Sel), (∀ p, s.selected p = true) →
    ∀ (env : List Val) (subs : TrL R) (sc w : R) (d : CML)
      (subsF : TrL R) (r : Val) (scF wF : R) (dF : CML),
      b.regenerate P cfg old s env subs sc w d = some (subsF, r, scF, wF, dF) →
      (cfg.condSwitchCorrection = false ∨ Tr.sameChecks.TrL.sameChecks old subsF) → wF = w

theorem all_lanes_aux (g : GF) (f : Nat → Tr R → Option (Upd R))
    (hf : ∀ i t b, f i t = some b → (cfg.condSwitchCorrection = false ∨ Tr.sameChecks t b.1) → b.2.1 = 0) :
    ∀ (old : TrL R) (i : Nat) (rs : List (Upd R)),
      forLanes f i old.toList = some rs →
      (cfg.condSwitchCorrection = false ∨
        Tr.sameChecks.TrL.sameChecksPos old (TrL.ofList (rs.map (·.1)))) →
      sumR (rs.map (·.2.1)) = 0
  | .nil, i, rs, h, hs => by
      simp only [TrL.toList, forLanes, Option.some.injEq] at h
      subst h; rfl
  | .cons k t rest, i, rs, h, hs => by
      simp only [TrL.toList, forLanes, Option.bind_eq_bind, Option.bind_eq_some_iff,
        Option.pure_def, Option.some.injEq] at h
      obtain ⟨b, h1, bs, h2, rfl⟩ := h
      simp only [List.map_cons, TrL.ofList, Tr.sameChecks.TrL.sameChecksPos] at hs
      have e1 := hf _ _ _ h1 (hs.imp id (·.1))
      have e2 := all_lanes_aux g f hf rest (i+1) bs h2 (hs.imp id (·.2))
      simp only [List.map_cons, sumR, e1, e2, add_zero]

theorem all_steps_aux (g : GF) (f : Val → Nat → Tr R → Option (Upd R × Val))
    (hf : ∀ c i t b c', f c i t = some (b, c') →
      (cfg.condSwitchCorrection = false ∨ Tr.sameChecks t b.1) → b.2.1 = 0) :
    ∀ (old : TrL R) (c : Val) (i : Nat) (rs : List (Upd R)) (cN : Val),
      forSteps f c i old.toList = some (rs, cN) →
      (cfg.condSwitchCorrection = false ∨
        Tr.sameChecks.TrL.sameChecksPos old (TrL.ofList (rs.map (·.1)))) →
      sumR (rs.map (·.2.1)) = 0
  | .nil, c, i, rs, cN, h, hs => by
      simp only [TrL.toList, forSteps, Option.some.injEq, Prod.mk.injEq] at h
      obtain ⟨rfl, _⟩ := h; rfl
  | .cons k t rest, c, i, rs, cN, h, hs => by
      simp only [TrL.toList, forSteps, Option.bind_eq_bind, Option.bind_eq_some_iff,
        Option.pure_def, Option.some.injEq, Prod.mk.injEq] at h
      obtain ⟨⟨b, c1⟩, h1, ⟨bs, c2⟩, h2, rfl, rfl⟩ := h
      simp only [List.map_cons, TrL.ofList, Tr.sameChecks.TrL.sameChecksPos] at hs
      have e1 := hf _ _ _ _ _ h1 (hs.imp id (·.1))
      have e2 := all_steps_aux g f hf rest _ (i+1) bs _ h2 (hs.imp id (·.2))
      simp only [List.map_cons, sumR, e1, e2, add_zero]

theorem allOK_all (g : GF) : AllOK P cfg g := by
  refine GF.rec (motive_1 := fun g => AllOK P cfg g) (motive_2 := fun b => BodyAllOK P cfg b)
    ?_ ?_ ?_ ?_ ?_ ?_ ?_ g
  · -- dist
    intro d t s hsel args t' w dd h hs
    have hl : s.leaf = true := hsel []
    cases t with
    | leaf vOld sOld =>
      simp only [GF.regenerate, hl, if_true, Option.some.injEq, Prod.mk.injEq] at h
      exact h.2.1.symm
    | _ => simp [GF.regenerate] at h
  · -- fn
    intro body ihb t s hsel args t' w dd h hs
    obtain ⟨old, r0, s0, subs, r, sc, d, rfl, hb, rfl⟩ := regen_fn_inv P cfg h
    rw [Tr.sameChecks.eq_2] at hs
    exact ihb old s hsel _ _ _ _ _ _ _ _ _ _ hb hs
  · -- vmap
    intro g axes n ih t s hsel args t' w dd h hs
    obtain ⟨old, rs, rfl, hlen, hrs, rfl, rfl⟩ := regen_vmap_inv P cfg h
    rw [Tr.sameChecks.eq_3] at hs
    exact all_lanes_aux cfg g _ (fun i t b hb hsb => ih t s hsel _ _ _ _ hb hsb) old 0 rs hrs hs
  · -- scan
    intro g n ih t s hsel args t' w dd h hs
    obtain ⟨old, c0, rs, c, rfl, hlen, hrs, rfl, rfl⟩ := regen_scan_inv P cfg h
    rw [Tr.sameChecks.eq_4] at hs
    refine all_steps_aux cfg g _ (fun c i t b c' hb hsb => ?_) old _ 0 rs c hrs hs
    exact ih t s hsel _ _ _ _ (regenStep_some P cfg hb).1 hsb
  · -- cond
    intro tg fg iht ihf t s hsel args t' w dd h hs
    obtain ⟨cOld, a, b, a', wa, da, b', wb, db, rfl, ha, hb, rfl, rfl⟩ := regen_cond_inv P cfg h
    rw [Tr.sameChecks.eq_5] at hs
    have ea := iht a s hsel _ _ _ _ ha (hs.imp id (·.2.1))
    have eb := ihf b s hsel _ _ _ _ hb (hs.imp id (·.2.2))
    subst ea eb
    rcases hs with hc | ⟨rfl, _, _⟩
    · simp only [hc, Bool.false_eq_true, if_false, ite_self]
    · simp only [ite_self, add_neg_cancel, add_zero]
  · -- ret
    intro e old s _ env subs sc w d subsF r scF wF dF h _
    simp only [Body.regenerate, Option.some.injEq, Prod.mk.injEq] at h
    exact h.2.2.2.1.symm
  · -- call
    intro addr g es rest ihg ihr old s hsel env subs sc w d subsF r scF wF dF h hs
    obtain ⟨hnone, t0, t1, w1, d1, hfind, h1, h2⟩ := regen_call_inv P cfg h
    have hfF : subsF.find? addr = some t1 :=
      Body.regenerate_find P cfg h2 addr t1 (TrL.find?_snoc_self hnone)
    have hs1 : cfg.condSwitchCorrection = false ∨ Tr.sameChecks t0 t1 := by
      rcases hs with hs | hs
      · exact Or.inl hs
      · have := TrL.sameChecks_find old subsF hs addr t0 hfind
        rw [hfF] at this
        exact Or.inr this
    have e1 := ihg t0 _ (fun p => hsel (addr :: p)) _ _ _ _ h1 hs1
    have e2 := ihr old s hsel _ _ _ _ _ _ _ _ _ _ h2 hs
    rw [e2, e1, add_zero]

/-- C04 (corrected): when everything is selected the weight is 0, provided the code applies no
    Cond switch correction to `regenerate` or no Cond node switches its branch. -/
theorem regenerate_all_partial
    (g : GF) (t : Tr R)
    (s : Sel) (hsel : ∀ p, s.selected p = true) (args : List Val) (t' : Tr R) (w : R) (d : Option CM)
    (h : g.regenerate P cfg t s args = some (t', w, d))
    (hns : cfg.condSwitchCorrection = false ∨ Tr.sameChecks t t') : w = 0 :=
  allOK_all P cfg g t s hsel args t' w d h hns

/-
  ORIGINAL STATEMENT -- FALSE as stated, kept for reference:

  theorem regenerate_all
      (g : GF) (args0 : List Val) (t : Tr R)
      (s : Sel) (hsel : ∀ p, s.selected p = true) (args : List Val) (t' : Tr R) (w : R) (d : Option CM)
      (h : g.regenerate P cfg t s args = some (t', w, d)) : w = 0

  Reason: when `cfg.condSwitchCorrection = true` (the specification variant), `Cond.regenerate` adds
  `(visible old score) - (old score of the newly visible branch)` to the weight; when the check
  switches and the two old branch scores differ this is non-zero although both branch weights are 0.
  See `regenerate_all_counterexample`.  What holds: `regenerate_all_partial`, with the extra hypothesis
  `cfg.condSwitchCorrection = false ∨ Tr.sameChecks t t'`.
-/

/-- the original `regenerate_all` is false for the variant with the Cond switch correction, even for a
    coherent trace, as soon as some log density is non-zero -/
theorem regenerate_all_counterexample (x : R) (hx : x ≠ 0) :
    ∃ (P : Prims R) (cfg : Cfg) (g : GF) (args0 : List Val) (t : Tr R) (s : Sel) (args : List Val)
      (t' : Tr R) (w : R) (d : Option CM),
      g.Coh P args0 t ∧ (∀ p, s.selected p = true) ∧
      g.regenerate P cfg t s args = some (t', w, d) ∧ w ≠ 0 := by
  refine ⟨⟨fun _ _ v => if v = Val.nil then -x else 0, fun _ _ => .nil⟩, Cfg.spec,
    .cond (.dist 0) (.dist 0), [.num 1],
    .cond true (.leaf .nil x) (.leaf (.num 1) 0), .all, [.num 0], _, _, _, ?_, Sel.all_selected, rfl, ?_⟩
  · simp [GF.Coh, Val.truthy]
  · simpa [Cfg.spec, Val.truthy, Tr.score] using hx

/-- operations of a history (C05) -/
inductive Op where
  | update (x : Option CM) (args : List Val)
  | regenerate (s : Sel) (args : List Val)

/-- apply one op: new trace, its recorded arguments, weight -/
def applyOp (g : GF) (t : Tr R) : Op → Option (Tr R × List Val × R)
  | .update x args => (g.update P cfg t x args).map fun r => (r.1, args, r.2.1)
  | .regenerate s args => (g.regenerate P cfg t s args).map fun r => (r.1, args, r.2.1)

def applyOps (g : GF) : Tr R → List Val → List Op → Option (Tr R × List Val)
  | t, a, [] => some (t, a)
  | t, _, op :: ops =>
    match applyOp P cfg g t op with
    | some (t', a', _) => applyOps g t' a' ops
    | none => none

/-- C05: coherence under the recorded arguments is preserved by any finite history -/
theorem history_coh (g : GF) (t : Tr R) (a : List Val) (ht : g.Coh P a t) (ops : List Op)
    (t' : Tr R) (a' : List Val) (h : applyOps P cfg g t a ops = some (t', a')) :
    g.Coh P a' t' := by
  induction ops generalizing t a with
  | nil =>
    simp only [applyOps, Option.some.injEq, Prod.mk.injEq] at h
    obtain ⟨rfl, rfl⟩ := h; exact ht
  | cons op ops ih =>
    simp only [applyOps] at h
    split at h
    · rename_i t1 a1 w1 hop
      refine ih t1 a1 ?_ h
      cases op with
      | update x args =>
        simp only [applyOp, Option.map_eq_some_iff, Prod.mk.injEq] at hop
        obtain ⟨⟨t2, w2, d2⟩, hu, rfl, rfl, _⟩ := hop
        exact update_coh P cfg g t x _ _ _ _ hu
      | regenerate s args =>
        simp only [applyOp, Option.map_eq_some_iff, Prod.mk.injEq] at hop
        obtain ⟨⟨t2, w2, d2⟩, hu, rfl, rfl, _⟩ := hop
        exact regenerate_coh P cfg g t s _ _ _ _ hu
    · exact absurd h (by simp)


/-- fold a list of updates, summing the weights -/
def applyUpdates (g : GF) : Tr R → List (Option CM × List Val) → Option (Tr R × R)
  | t, [] => some (t, 0)
  | t, (x, args) :: rest =>
    match g.update P cfg t x args with
    | some (t', w, _) => (applyUpdates g t' rest).map fun r => (r.1, w + r.2)
    | none => none

/-- C05: the weights of consecutive updates telescope (specification variant of Cond) -/
theorem updates_telescope (hc : cfg.condSwitchCorrection = true)
    (g : GF) (a : List Val) (t : Tr R) (ht : g.Coh P a t)
    (us : List (Option CM × List Val)) (t' : Tr R) (w : R)
    (h : applyUpdates P cfg g t us = some (t', w)) : w = t.score + -t'.score := by
  induction us generalizing t a w with
  | nil =>
    simp only [applyUpdates, Option.some.injEq, Prod.mk.injEq] at h
    obtain ⟨rfl, rfl⟩ := h; abel
  | cons u us ih =>
    obtain ⟨x, args⟩ := u
    simp only [applyUpdates] at h
    split at h
    · rename_i t1 w1 d1 hu
      simp only [Option.map_eq_some_iff, Prod.mk.injEq] at h
      obtain ⟨⟨t2, w2⟩, h2, h3, rfl⟩ := h
      simp only at h3
      subst h3
      have e1 := update_weight_spec P cfg hc g a t ht x args t1 w1 d1 hu
      have e2 := ih args t1 (update_coh P cfg g t x args t1 w1 d1 hu) w2 h2
      show w1 + w2 = _
      rw [e1, e2]; abel
    · exact absurd h (by simp)


end Genjax
