import GenjaxModel.Model.Kalman
import Mathlib.Algebra.Field.Basic
import Mathlib.Tactic.Ring
import Mathlib.Tactic.FieldSimp
/-!
  C20 (Kalman, scalar case): the update step is exact Bayesian conditioning.
  For a Gaussian prior N(m, P) and likelihood y | x ~ N(c x, r) Bayes' rule
  prior(x)·lik(y|x) = marg(y)·post(x) holds for all x iff (i) the exponents agree as quadratic
  forms in x and (ii) the normalising constants agree; both are proved as identities in any field.
-/
namespace Genjax.Kalman
variable {K : Type} [Field K]

/-- helper: the normaliser identity (stated again below as `update_normaliser`) -/
private theorem update_normaliser_aux (c r y : K) (s : Gauss K) (hS : innovCov c r s ≠ 0) :
    s.P * r = innovCov c r s * (update c r y s).P := by
  obtain ⟨m, P⟩ := s
  simp only [update, innovCov] at hS ⊢
  generalize hSe : c * P * c + r = S at hS ⊢
  have hr : r = S - c * P * c := by rw [← hSe]; ring
  subst hr
  field_simp

/-- closed form of the filtered variance: P' = P r / S -/
theorem update_P_eq (c r y : K) (s : Gauss K) (hS : innovCov c r s ≠ 0) :
    (update c r y s).P = s.P * r / innovCov c r s := by
  rw [update_normaliser_aux c r y s hS, mul_div_cancel_left₀ _ hS]

/-- the filtered variance is non-zero (so the division in `update_completes_square` is genuine) -/
theorem update_P_ne_zero (c r y : K) (s : Gauss K)
    (hP : s.P ≠ 0) (hr : r ≠ 0) (hS : innovCov c r s ≠ 0) : (update c r y s).P ≠ 0 := by
  rw [update_P_eq c r y s hS]
  exact div_ne_zero (mul_ne_zero hP hr) hS

/-- (i) completing the square: for every x,
    (x−m)²/P + (y−c x)²/r = (y−c m)²/S + (x−m')²/P'  with S the innovation variance and
    (m', P') the filtered moments computed by the code -/
theorem update_completes_square (c r y x : K) (s : Gauss K)
    (hP : s.P ≠ 0) (hr : r ≠ 0) (hS : innovCov c r s ≠ 0) :
    (x - s.m) ^ 2 / s.P + (y - c * x) ^ 2 / r =
      (y - c * s.m) ^ 2 / innovCov c r s + (x - (update c r y s).m) ^ 2 / (update c r y s).P := by
  rw [update_P_eq c r y s hS]
  obtain ⟨m, P⟩ := s
  simp only [update, innovCov] at hS hP ⊢
  -- `field_simp` normalises the denominator `c * P * c + r`; give it the non-vanishing fact in
  -- every normal form it may pick
  have h1 : P * c ^ 2 + r ≠ 0 := by intro h; apply hS; rw [← h]; ring
  have h2 : r + P * c ^ 2 ≠ 0 := by intro h; apply hS; rw [← h]; ring
  have h3 : c ^ 2 * P + r ≠ 0 := by intro h; apply hS; rw [← h]; ring
  have h4 : r + c ^ 2 * P ≠ 0 := by intro h; apply hS; rw [← h]; ring
  field_simp
  ring

/-- (ii) the normalisers agree: P · r = S · P' (so sqrt(2πP)·sqrt(2πr) = sqrt(2πS)·sqrt(2πP')) -/
theorem update_normaliser (c r y : K) (s : Gauss K) (hS : innovCov c r s ≠ 0) :
    s.P * r = innovCov c r s * (update c r y s).P :=
  update_normaliser_aux c r y s hS

/-- information form of the update: posterior precision = prior precision + c²/r -/
theorem update_precision (c r y : K) (s : Gauss K)
    (hP : s.P ≠ 0) (hr : r ≠ 0) (hS : innovCov c r s ≠ 0) :
    1 / (update c r y s).P = 1 / s.P + c ^ 2 / r := by
  rw [update_P_eq c r y s hS]
  obtain ⟨m, P⟩ := s
  simp only [innovCov] at hS hP ⊢
  field_simp
  ring

/-- prediction = pushing the Gaussian through x' = a x + noise(q): mean a m, variance a² P + q -/
theorem predict_moments (a q : K) (s : Gauss K) :
    (predict a q s).m = a * s.m ∧ (predict a q s).P = a ^ 2 * s.P + q := by
  refine ⟨rfl, ?_⟩
  simp only [predict]
  ring

end Genjax.Kalman
