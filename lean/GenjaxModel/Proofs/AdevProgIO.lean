import GenjaxModel.Model.AdevProgIO
import GenjaxModel.Proofs.AdevProg
import Mathlib.Algebra.Field.Rat
import Mathlib.Tactic.Ring
/-!
  C11, the driver command `adev-prog` (Model/AdevProgIO.lean): what the numbers it prints mean.

  * `Prog.okB_sound`     the printed flag `guards T` implies the guards `Prog.OK` of the composition theorem;
  * `PAst.toSProg_toProg` a program text without `branch`, read as a straight-line program of the model
                         (`SProg`) and unfolded, is the outcome tree obtained by unfolding the text directly;
  * `canon_wsum`         merging equal duals and sorting keeps every weighted sum Σ p·g(value, tangent);
  * `PAst.report_sound`  hence, for EVERY program text and every θ with `guards T`: the printed `est` entries
                         have total probability 1 and weighted mean equal to the printed `exact` dual.
-/
namespace Genjax.Adev
open Genjax.Smc.FinDist (E mass)
open Genjax.Smc (FinDist)

/-! ### the decided guards -/

theorem Prog.okB_sound : ∀ p : Prog Rat, Prog.okB p = true → p.OK := by
  intro p
  induction p with
  | ret r => intro _; trivial
  | flip e p k ih =>
      intro h
      simp only [Prog.okB, Bool.and_eq_true, Bool.or_eq_true, bne_iff_ne, ne_eq] at h
      obtain ⟨⟨h1, hT⟩, hF⟩ := h
      refine ⟨fun he => ?_, fun b => ?_⟩
      · rcases h1 with h1 | h1
        · exact absurd he h1
        · exact h1
      · cases b
        · exact ih false hF
        · exact ih true hT
  | cat e ps k ih =>
      intro h
      simp only [Prog.okB, Bool.and_eq_true, Bool.or_eq_true, bne_iff_ne, ne_eq, beq_iff_eq,
        List.all_eq_true, List.mem_range] at h
      obtain ⟨⟨h1, h2⟩, h3⟩ := h
      refine ⟨h1, fun he q hq => ?_, fun i hi => ih i (h3 i hi)⟩
      rcases h2 with h2 | h2
      · exact absurd he h2
      · exact h2 q hq

/-! ### straight-line reading of a program text -/

section Ast
variable {K : Type} [Zero K] [One K] [Add K] [Sub K] [Mul K] [Div K] [Neg K] [NatCast K]

omit [One K] in
theorem PAst.toSProg_toProg (th : Dual K) (a : PAst K) :
    ∀ (sp : SProg K), a.toSProg th = some sp → ∀ outs, sp.toProg outs = a.toProg th outs := by
  induction a with
  | ret e =>
      intro sp h outs
      simp only [PAst.toSProg, Option.some.injEq] at h
      subst h
      rfl
  | flip est p rest ih =>
      intro sp h outs
      simp only [PAst.toSProg, Option.map_eq_some_iff] at h
      obtain ⟨r, hr, rfl⟩ := h
      simp only [SProg.toProg, PAst.toProg]
      congr 1
      funext b
      exact ih r hr _
  | cat est ws rest ih =>
      intro sp h outs
      simp only [PAst.toSProg, Option.map_eq_some_iff] at h
      obtain ⟨r, hr, rfl⟩ := h
      simp only [SProg.toProg, PAst.toProg]
      congr 1
      funext i
      exact ih r hr _
  | branch i t e _ _ =>
      intro sp h
      simp [PAst.toSProg] at h

end Ast

/-! ### canonical form keeps weighted sums -/

/-- Σ p · g(value, tangent) over a list of (value, tangent, probability) entries -/
def wsum (g : Rat → Rat → Rat) : List (Rat × Rat × Rat) → Rat
  | [] => 0
  | (v, d, p) :: tl => p * g v d + wsum g tl

theorem wsum_canonInsert (g : Rat → Rat → Rat) (v d p : Rat) (l : List (Rat × Rat × Rat)) :
    wsum g (canonInsert v d p l) = p * g v d + wsum g l := by
  induction l with
  | nil => simp [canonInsert, wsum]
  | cons hd tl ih =>
      obtain ⟨v', d', p'⟩ := hd
      unfold canonInsert
      split
      · rename_i h
        obtain ⟨rfl, rfl⟩ := h
        simp only [wsum]
        ring
      · split
        · simp only [wsum]
        · simp only [wsum, ih]
          ring

theorem foldl_add_eq (l : List Rat) (a : Rat) : l.foldl (· + ·) a = a + sumRat l := by
  induction l generalizing a with
  | nil => simp [sumRat]
  | cons x xs ih =>
      simp only [List.foldl_cons, sumRat]
      rw [ih (a + x), ih (0 + x)]
      ring

theorem sumRat_cons (x : Rat) (xs : List Rat) : sumRat (x :: xs) = x + sumRat xs := by
  simp only [sumRat, List.foldl_cons]
  rw [foldl_add_eq xs (0 + x)]
  simp [sumRat]

theorem sumRat_nil : sumRat [] = 0 := rfl

theorem canon_wsum_aux (g : Rat → Rat → Rat) (dist : FinDist Rat (Dual Rat)) (acc : List (Rat × Rat × Rat)) :
    wsum g (dist.foldl (fun acc (r, p) => canonInsert r.v r.d p acc) acc)
      = wsum g acc + sumRat (dist.map fun (r, p) => p * g r.v r.d) := by
  induction dist generalizing acc with
  | nil => simp [sumRat_nil]
  | cons hd tl ih =>
      obtain ⟨r, p⟩ := hd
      simp only [List.foldl_cons, List.map_cons, sumRat_cons]
      rw [ih, wsum_canonInsert]
      ring

theorem canon_wsum (g : Rat → Rat → Rat) (dist : FinDist Rat (Dual Rat)) :
    wsum g (canon dist) = sumRat (dist.map fun (r, p) => p * g r.v r.d) := by
  unfold canon
  rw [canon_wsum_aux]
  simp [wsum]

theorem sumRat_eq_sumK (l : List Rat) : sumRat l = Genjax.Smc.sumK l := by
  induction l with
  | nil => rfl
  | cons x xs ih => rw [sumRat_cons, ih]; rfl

theorem sumRat_map_eq_E {α : Type} (d : FinDist Rat α) (f : α → Rat) :
    sumRat (d.map fun (a, p) => p * f a) = E d f := by
  rw [sumRat_eq_sumK]
  rfl

/-! ### the report -/

theorem PAst.reportProg_eq (θ : Rat) (a : PAst Rat) : a.reportProg θ = a.toProg ⟨θ, 1⟩ [] := by
  unfold PAst.reportProg
  split
  · rename_i sp h
    exact PAst.toSProg_toProg _ a sp h []
  · rfl

theorem PAst.report_fields (θ : Rat) (a : PAst Rat) :
    (a.report θ).exact = (a.reportProg θ).exact ∧
    (a.report θ).guards = Prog.okB (a.reportProg θ) ∧
    (a.report θ).est = canon (a.reportProg θ).est ∧
    (a.report θ).mean = ⟨sumRat ((a.reportProg θ).est.map fun (r, p) => p * r.v),
                         sumRat ((a.reportProg θ).est.map fun (r, p) => p * r.d)⟩ ∧
    (a.report θ).mass = sumRat ((a.reportProg θ).est.map (·.2)) ∧
    (a.report θ).paths = (a.reportProg θ).est.length :=
  ⟨rfl, rfl, rfl, rfl, rfl, rfl⟩

/-- for every program text and every θ: if the driver answers `guards T`, then the `est` entries it
    prints (equal duals merged) have total probability 1 and their probability-weighted mean is
    the `exact` dual it prints; so are the unmerged `mean` / `mass` fields. -/
theorem PAst.report_sound (θ : Rat) (a : PAst Rat) (h : (a.report θ).guards = true) :
    wsum (fun v _ => v) (a.report θ).est = (a.report θ).exact.v ∧
    wsum (fun _ d => d) (a.report θ).est = (a.report θ).exact.d ∧
    wsum (fun _ _ => 1) (a.report θ).est = 1 ∧
    (a.report θ).mean = (a.report θ).exact ∧ (a.report θ).mass = 1 := by
  obtain ⟨hex, hg, hest, hmean, hmass, -⟩ := PAst.report_fields θ a
  rw [hg] at h
  have ok := Prog.okB_sound _ h
  have hu := Prog.est_unbiased _ ok
  have hm := Prog.mass_est _ ok
  have e1 : sumRat ((a.reportProg θ).est.map fun (r, p) => p * r.v) = (a.reportProg θ).exact.v := by
    rw [← hu.1]; exact sumRat_map_eq_E _ _
  have e2 : sumRat ((a.reportProg θ).est.map fun (r, p) => p * r.d) = (a.reportProg θ).exact.d := by
    rw [← hu.2]; exact sumRat_map_eq_E _ _
  have e3 : sumRat ((a.reportProg θ).est.map fun (r, p) => p * (1 : Rat)) = 1 := by
    rw [sumRat_map_eq_E (a.reportProg θ).est (fun _ => (1 : Rat))]; exact hm
  refine ⟨?_, ?_, ?_, ?_, ?_⟩
  · rw [hest, hex, canon_wsum]; exact e1
  · rw [hest, hex, canon_wsum]; exact e2
  · rw [hest, canon_wsum]; exact e3
  · rw [hmean, hex, e1, e2]
  · rw [hmass, ← e3]
    congr 1
    apply List.map_congr_left
    intro x _
    simp

end Genjax.Adev
