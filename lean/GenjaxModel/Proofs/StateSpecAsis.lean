import GenjaxModel.Proofs.StateSpecShape
/-!
  C19, the code BEFORE the repair (`nsAcrossScan = false`): it refines the same spec on the programs
  accepted by `SPL.asisOK` (no scan under an open namespace, no top-level name clash between a scan
  and what was saved before it) - up to the order of the entries of the flat store.
-/
namespace Genjax.State

/-! ### well-formed key lists: a later key is never a prefix of (or equal to) an earlier key -/

def WfK (ks : List Path) : Prop := ks.Pairwise (fun k1 k2 => isPrefix k2 k1 = false)

theorem WfK_setKeys (ks : List Path) (p : Path) (h : WfK ks) : WfK (setKeys ks p) := by
  simp only [WfK, setKeys, List.pairwise_append, List.pairwise_cons, List.Pairwise.nil,
    List.mem_filter, List.mem_singleton]
  refine ⟨List.Pairwise.filter _ h, ⟨by simp, trivial⟩, ?_⟩
  rintro a ⟨_, ha⟩ b rfl
  simpa using ha

theorem WfK_applyEvents (evs : List Event) (s : Store) (h : WfK (keys s)) :
    WfK (keys (applyEvents evs s)) := by
  rw [keys_applyEvents]
  generalize keys s = ks at h
  induction evs generalizing ks with
  | nil => exact h
  | cons e evs ih => exact ih _ (WfK_setKeys ks e.1 h)

theorem WfK_collectEvents (evs : List Event) : WfK (keys (collectEvents evs)) :=
  WfK_applyEvents evs [] List.Pairwise.nil

theorem WfK_nodup (ks : List Path) (h : WfK ks) : ks.Nodup := by
  refine List.Pairwise.imp ?_ h
  intro a b hab he
  rw [he, isPrefix_refl] at hab
  exact Bool.noConfusion hab

/-! ### permuted stores with distinct keys answer look-ups alike -/

theorem get_eq_some_iff (s : Store) (hn : (keys s).Nodup) (q : Path) (v : SV) :
    s.get? q = some v ↔ (q, v) ∈ s := by
  induction s with
  | nil => simp [Store.get?]
  | cons e s ih =>
    simp only [keys, List.map_cons, List.nodup_cons] at hn
    have ih := ih hn.2
    simp only [Store.get?, List.find?_cons] at ih ⊢
    by_cases h : e.1 = q
    · simp only [h, beq_self_eq_true, Option.map_some, Option.some.injEq, List.mem_cons]
      constructor
      · intro hv; left; rw [← hv, ← h]
      · rintro (h1 | h1)
        · rw [← h1]
        · exfalso; apply hn.1; rw [h]
          exact List.mem_map.mpr ⟨(q, v), h1, rfl⟩
    · have hb : (e.1 == q) = false := by simpa using h
      simp only [hb, List.mem_cons]
      rw [ih]
      constructor
      · exact Or.inr
      · rintro (h1 | h1)
        · exact absurd (by rw [← h1]) h
        · exact h1

theorem get_perm (m s : Store) (hp : m.Perm s) (hn : (keys s).Nodup) (q : Path) :
    m.get? q = s.get? q := by
  have hm : (keys m).Nodup := (List.Perm.map (fun e : Path × SV => e.1) hp).nodup_iff.mpr hn
  apply Option.ext
  intro v
  rw [get_eq_some_iff m hm, get_eq_some_iff s hn, hp.mem_iff]

theorem set_perm (m s : Store) (hp : m.Perm s) (p : Path) (v : SV) :
    (Store.set m p v).Perm (Store.set s p v) :=
  (hp.filter _).append_right _

theorem applyEvents_perm (evs : List Event) (m s : Store) (hp : m.Perm s) :
    (applyEvents evs m).Perm (applyEvents evs s) := by
  induction evs generalizing m s with
  | nil => exact hp
  | cons e evs ih => exact ih _ _ (set_perm m s hp e.1 e.2)

/-! ### stacking permuted iteration stores -/

theorem forall2_map_eq {α β γ : Type} {R : α → β → Prop} {f : α → γ} {g : β → γ}
    {l1 : List α} {l2 : List β} (h : List.Forall₂ R l1 l2) (hfg : ∀ a b, R a b → f a = g b) :
    l1.map f = l2.map g := by
  induction h with
  | nil => rfl
  | cons hab _ ih => simp [hfg _ _ hab, ih]

theorem stackStores_perm (ms ss : List Store)
    (h : List.Forall₂ (fun m s => m.Perm s ∧ (keys s).Nodup) ms ss) :
    (stackStores ms).Perm (stackStores ss) := by
  cases h with
  | nil => exact List.Perm.refl _
  | @cons m0 s0 ms' ss' h0 hrest =>
    have hall : List.Forall₂ (fun m s => m.Perm s ∧ (keys s).Nodup) (m0 :: ms') (s0 :: ss') :=
      List.Forall₂.cons h0 hrest
    have hG : ∀ q : Path,
        (m0 :: ms').map (fun s => ((s.find? fun e' => e'.1 == q).map (·.2)).getD (SV.stack []))
        = (s0 :: ss').map (fun s => ((s.find? fun e' => e'.1 == q).map (·.2)).getD (SV.stack [])) := by
      intro q
      apply forall2_map_eq hall
      intro a b hab
      have := get_perm a b hab.1 hab.2 q
      simp only [Store.get?] at this
      rw [this]
    simp only [stackStores, hG]
    exact h0.1.map _

/-! ### the old merge step, characterised -/

theorem nodup_eraseDups : ∀ (n : Nat) (l : List String), l.length ≤ n → l.eraseDups.Nodup
  | _, [], _ => by simp
  | 0, _ :: _, h => by simp at h
  | n + 1, a :: as, h => by
      rw [List.eraseDups_cons, List.nodup_cons]
      refine ⟨?_, nodup_eraseDups n _ ?_⟩
      · simp [List.mem_eraseDups]
      · have := List.length_filter_le (fun b => !b == a) as
        simp only [List.length_cons] at h
        omega

theorem filter_or_perm {α : Type} (p q : α → Bool) (h : ∀ a, p a = true → q a = true → False) :
    ∀ l : List α, (l.filter p ++ l.filter q).Perm (l.filter fun a => p a || q a)
  | [] => List.Perm.refl _
  | a :: l => by
      have ih := filter_or_perm p q h l
      cases hp : p a <;> cases hq : q a
      · simpa [List.filter_cons, hp, hq] using ih
      · simp only [List.filter_cons, hp, hq, Bool.false_or, if_true]
        exact List.perm_middle.trans (ih.cons a)
      · simp only [List.filter_cons, hp, hq, Bool.or_false, if_true, List.cons_append]
        simpa [hp, hq] using ih.cons a
      · exact absurd hq (fun hq => h a hp hq)

/-- the entries of `l` whose top-level name is `name` -/
def grp (l : Store) (name : String) : Store := l.filter fun e => e.1.head? == some name

def headIn (names : List String) (e : Event) : Bool := names.any fun a => e.1.head? == some a

theorem flatMap_grp_perm (l : Store) : ∀ names : List String, names.Nodup →
    (names.flatMap (grp l)).Perm (l.filter (headIn names))
  | [], _ => by simp [headIn]
  | a :: names, hn => by
      rw [List.nodup_cons] at hn
      have ih := flatMap_grp_perm l names hn.2
      simp only [List.flatMap_cons]
      refine ((List.Perm.refl _).append ih).trans ?_
      have hdis : ∀ e : Event, (e.1.head? == some a) = true → headIn names e = true → False := by
        intro e h1 h2
        simp only [headIn, List.any_eq_true] at h2
        obtain ⟨b, hb, hb2⟩ := h2
        have h1' : e.1.head? = some a := by simpa using h1
        have hb2' : e.1.head? = some b := by simpa using hb2
        rw [h1'] at hb2'
        exact hn.1 (by rw [Option.some.inj hb2']; exact hb)
      have := filter_or_perm (fun e : Event => e.1.head? == some a) (headIn names) hdis l
      refine this.trans ?_
      apply List.Perm.of_eq
      apply List.filter_congr
      intro e _
      simp [headIn]

theorem foldl_replaceTop (stacked : Store) : ∀ (names : List String), names.Nodup → ∀ s : Store,
    names.foldl (fun s name => s.replaceTop name (stacked.filter fun e => e.1.head? == some name)) s
      = s.filter (fun e => !(headIn names e)) ++ names.flatMap (grp stacked)
  | [], _, s => by
      simp only [headIn, List.any_nil, Bool.not_false, List.foldl_nil, List.flatMap_nil,
        List.append_nil]
      exact (List.filter_eq_self.mpr (by simp)).symm
  | a :: names, hn, s => by
      rw [List.nodup_cons] at hn
      rw [List.foldl_cons, foldl_replaceTop stacked names hn.2]
      simp only [Store.replaceTop, List.filter_append, List.filter_filter, List.flatMap_cons,
        List.append_assoc]
      congr 1
      · apply List.filter_congr
        intro e _
        simp [headIn, Bool.and_comm]
      · congr 1
        simp only [grp]
        apply List.filter_congr
        intro e _
        by_cases h1 : e.1.head? = some a
        · have h2 : headIn names e = false := by
            simp only [headIn, h1, List.any_eq_false]
            intro b hb hab
            have : a = b := by simpa using hab
            exact hn.1 (this ▸ hb)
          simp [h1, h2]
        · simp [h1]

theorem mergeScan_false_perm (st : St) (stacked : Store) (hne : ∀ e ∈ stacked, e.1 ≠ [])
    (hdis : ∀ e ∈ st.store, ∀ e' ∈ stacked, e.1.head? ≠ e'.1.head?) :
    (mergeScan ⟨false⟩ st stacked).ns = st.ns ∧
    (mergeScan ⟨false⟩ st stacked).store.Perm (st.store ++ stacked) := by
  refine ⟨by simp [mergeScan], ?_⟩
  have hn : (topNames stacked).Nodup := nodup_eraseDups _ _ (Nat.le_refl _)
  have hmem : ∀ a, a ∈ topNames stacked ↔ ∃ e ∈ stacked, e.1.head? = some a := by
    intro a
    simp [topNames, List.mem_eraseDups, List.mem_filterMap]
  have hstore : (mergeScan ⟨false⟩ st stacked).store
      = st.store.filter (fun e => !(headIn (topNames stacked) e))
        ++ (topNames stacked).flatMap (grp stacked) := by
    simp only [mergeScan, Bool.false_eq_true, if_false]
    exact foldl_replaceTop stacked _ hn st.store
  rw [hstore]
  have h1 : st.store.filter (fun e => !(headIn (topNames stacked) e)) = st.store := by
    rw [List.filter_eq_self]
    intro e he
    simp only [headIn, Bool.not_eq_true', List.any_eq_false]
    intro a ha hea
    obtain ⟨e', he', he'2⟩ := (hmem a).mp ha
    have : e.1.head? = some a := by simpa using hea
    exact hdis e he e' he' (by rw [this, he'2])
  have h2 : stacked.filter (headIn (topNames stacked)) = stacked := by
    rw [List.filter_eq_self]
    intro e he
    simp only [headIn, List.any_eq_true]
    cases hk : e.1 with
    | nil => exact absurd hk (hne e he)
    | cons a rest =>
      exact ⟨a, (hmem a).mpr ⟨e, he, by rw [hk]; rfl⟩, by simp⟩
  rw [h1]
  refine (List.Perm.refl _).append ?_
  have := flatMap_grp_perm stacked _ hn
  rwa [h2] at this

/-! ### replaying events that do not touch anything is appending them -/

theorem isPrefix_head (a : String) (p q : Path) (h : isPrefix (a :: p) q = true) :
    q.head? = some a := by
  cases q with
  | nil => simp [isPrefix] at h
  | cons b q =>
    simp only [isPrefix, Bool.and_eq_true, beq_iff_eq] at h
    simp [h.1]

theorem applyEvents_no_interaction : ∀ (l : List Event) (s : Store), WfK (keys l) →
    (∀ e ∈ s, ∀ e' ∈ l, isPrefix e'.1 e.1 = false) → applyEvents l s = s ++ l
  | [], s, _, _ => by simp [applyEvents]
  | e :: l, s, hw, hno => by
      simp only [keys, List.map_cons, WfK, List.pairwise_cons] at hw
      have hset : Store.set s e.1 e.2 = s ++ [e] := by
        simp only [Store.set]
        congr 1
        rw [List.filter_eq_self]
        intro x hx
        simp [hno x hx e (List.mem_cons_self ..)]
      show applyEvents l (Store.set s e.1 e.2) = s ++ e :: l
      rw [hset, applyEvents_no_interaction l (s ++ [e]) hw.2]
      · simp
      · intro x hx e' he'
        rcases List.mem_append.mp hx with hx | hx
        · exact hno x hx e' (List.mem_cons_of_mem _ he')
        · simp only [List.mem_singleton] at hx
          subst hx
          exact hw.1 e'.1 (List.mem_map.mpr ⟨e', he', rfl⟩)

/-! ### the refinement for the old code -/

/-- every key starts with a top-level name from `seen` (in particular no key is empty) -/
def HeadsIn (seen : List String) (ks : List Path) : Prop :=
  ∀ k ∈ ks, ∃ a rest, k = a :: rest ∧ a ∈ seen

theorem HeadsIn.mono {seen seen' : List String} {ks : List Path} (h : HeadsIn seen ks)
    (hs : ∀ a ∈ seen, a ∈ seen') : HeadsIn seen' ks := by
  intro k hk
  obtain ⟨a, rest, h1, h2⟩ := h k hk
  exact ⟨a, rest, h1, hs a h2⟩

theorem HeadsIn_applyEvents (seen : List String) (evs : List Event) (s : Store)
    (h1 : HeadsIn seen (keys s)) (h2 : HeadsIn seen (evs.map (·.1))) :
    HeadsIn seen (keys (applyEvents evs s)) := by
  intro k hk
  simp only [keys, List.mem_map] at hk
  obtain ⟨e, he, rfl⟩ := hk
  rcases mem_applyEvents evs s e he with h | h
  · exact h1 _ (List.mem_map.mpr ⟨e, h, rfl⟩)
  · exact h2 _ (List.mem_map.mpr ⟨e, h, rfl⟩)

theorem mapM_forall2 {α β γ : Type} {R : β → γ → Prop} (f : α → Option β) (g : α → Option γ) :
    ∀ l : List α, (∀ a ∈ l, ∃ b c, f a = some b ∧ g a = some c ∧ R b c) →
      ∃ bs cs, l.mapM f = some bs ∧ l.mapM g = some cs ∧ List.Forall₂ R bs cs
  | [], _ => ⟨[], [], rfl, rfl, List.Forall₂.nil⟩
  | a :: l, h => by
      obtain ⟨b, c, hb, hc, hr⟩ := h a (List.mem_cons_self ..)
      obtain ⟨bs, cs, hbs, hcs, hrs⟩ :=
        mapM_forall2 f g l (fun a' ha' => h a' (List.mem_cons_of_mem _ ha'))
      exact ⟨b :: bs, c :: cs, by simp [List.mapM_cons, hb, hbs], by simp [List.mapM_cons, hc, hcs],
        List.Forall₂.cons hr hrs⟩

theorem forall2_imp {α β : Type} {R S : α → β → Prop} {l1 : List α} {l2 : List β}
    (h : List.Forall₂ R l1 l2) (hRS : ∀ a b, R a b → S a b) : List.Forall₂ S l1 l2 := by
  induction h with
  | nil => exact List.Forall₂.nil
  | cons hab _ ih => exact List.Forall₂.cons (hRS _ _ hab) ih

theorem forall2_right {α β : Type} {R : α → β → Prop} {l1 : List α} {l2 : List β}
    (h : List.Forall₂ R l1 l2) : ∀ b ∈ l2, ∃ a ∈ l1, R a b := by
  induction h with
  | nil => intro b hb; cases hb
  | cons hab _ ih =>
    intro b hb
    rcases List.mem_cons.mp hb with rfl | hb
    · exact ⟨_, List.mem_cons_self .., hab⟩
    · obtain ⟨a, ha, hr⟩ := ih b hb
      exact ⟨a, List.mem_cons_of_mem _ ha, hr⟩

theorem keys_stackEvents_of_mem (ss : List Store) (k : Path) (hk : k ∈ keys (stackEvents ss)) :
    ∃ s0 ∈ ss, keys (stackEvents ss) = keys s0 := by
  cases ss with
  | nil => simp [stackEvents, keys] at hk
  | cons s0 rest => exact ⟨s0, List.mem_cons_self .., by simp [keys_stackEvents]⟩

theorem headD_cons (ns : List String) (name : String) :
    ∃ rest, ns ++ [name] = (ns ++ [name]).headD name :: rest := by
  cases ns with
  | nil => exact ⟨[], rfl⟩
  | cons a t => exact ⟨t ++ [name], rfl⟩

/-- the scan step of the old code, under the side conditions of `asisOK` -/
theorem scan_asis_step (seen bodySeen : List String) (hdisj : ∀ a ∈ bodySeen, a ∉ seen)
    (ms ss : List Store)
    (hR : List.Forall₂ (fun m s => m.Perm s ∧ WfK (keys s) ∧ HeadsIn bodySeen (keys s)) ms ss)
    (m s : Store) (hp : m.Perm s) (hh : HeadsIn seen (keys s)) :
    HeadsIn bodySeen (keys (stackEvents ss)) ∧
    (mergeScan ⟨false⟩ ⟨m, []⟩ (stackStores ms)).ns = [] ∧
    (mergeScan ⟨false⟩ ⟨m, []⟩ (stackStores ms)).store.Perm (applyEvents (stackEvents ss) s) := by
  have hstack : (stackStores ms).Perm (stackEvents ss) := by
    rw [stackEvents_eq_stackStores]
    apply stackStores_perm
    exact forall2_imp hR (fun _ _ h => ⟨h.1, WfK_nodup _ h.2.1⟩)
  have hkeys : HeadsIn bodySeen (keys (stackEvents ss)) ∧ WfK (keys (stackEvents ss)) := by
    by_cases hem : ∃ k, k ∈ keys (stackEvents ss)
    · obtain ⟨k, hk⟩ := hem
      obtain ⟨s0, hs0, heq⟩ := keys_stackEvents_of_mem ss k hk
      obtain ⟨m0, _, hr⟩ := forall2_right hR s0 hs0
      rw [heq]
      exact ⟨hr.2.2, hr.2.1⟩
    · have : keys (stackEvents ss) = [] := by
        cases hk : keys (stackEvents ss) with
        | nil => rfl
        | cons k _ => exact absurd ⟨k, by rw [hk]; exact List.mem_cons_self ..⟩ hem
      rw [this]
      exact ⟨fun k hk => (by cases hk), List.Pairwise.nil⟩
  -- entries of the stacked scan state: non-empty paths, top-level names in `bodySeen`
  have hst : ∀ e ∈ stackEvents ss, ∃ a rest, e.1 = a :: rest ∧ a ∈ bodySeen :=
    fun e he => hkeys.1 e.1 (List.mem_map.mpr ⟨e, he, rfl⟩)
  have hs : ∀ e ∈ s, ∃ a rest, e.1 = a :: rest ∧ a ∈ seen :=
    fun e he => hh e.1 (List.mem_map.mpr ⟨e, he, rfl⟩)
  have hmerge := mergeScan_false_perm ⟨m, []⟩ (stackStores ms)
    (by
      intro e he hnil
      obtain ⟨a, rest, h1, _⟩ := hst e (hstack.mem_iff.mp he)
      rw [hnil] at h1; cases h1)
    (by
      intro e he e' he' heq
      obtain ⟨a, rest, h1, h2⟩ := hs e (hp.mem_iff.mp he)
      obtain ⟨a', rest', h1', h2'⟩ := hst e' (hstack.mem_iff.mp he')
      rw [h1, h1'] at heq
      simp only [List.head?_cons, Option.some.injEq] at heq
      exact hdisj a' h2' (heq ▸ h2))
  refine ⟨hkeys.1, hmerge.1, hmerge.2.trans ?_⟩
  rw [applyEvents_no_interaction (stackEvents ss) s hkeys.2]
  · exact hp.append hstack
  · intro e he e' he'
    obtain ⟨a, rest, h1, h2⟩ := hs e he
    obtain ⟨a', rest', h1', h2'⟩ := hst e' he'
    cases hpre : isPrefix e'.1 e.1 with
    | false => rfl
    | true =>
      rw [h1'] at hpre
      have := isPrefix_head a' rest' e.1 hpre
      rw [h1] at this
      simp only [List.head?_cons, Option.some.injEq] at this
      exact absurd (this ▸ h2) (hdisj a' h2')

/-- what the refinement says for one equation / block of the old code -/
def AsisRefines (exec : List Nat → List Nat → St → Option St)
    (saves : List String → List String → List Nat → List Nat → Option (List Event × List String))
    (ns seen ns' seen' : List String) (idx lanes : List Nat) : Prop :=
  ∃ evs, saves [] ns idx lanes = some (evs, ns') ∧ HeadsIn seen' (evs.map (·.1)) ∧
    (∀ a ∈ seen, a ∈ seen') ∧
    ∀ (m s : Store), m.Perm s → WfK (keys s) → HeadsIn seen (keys s) →
      ∃ m', exec idx lanes ⟨m, ns⟩ = some ⟨m', ns'⟩ ∧ m'.Perm (applyEvents evs s)

theorem asisRefines_noevent (exec : List Nat → List Nat → St → Option St)
    (saves : List String → List String → List Nat → List Nat → Option (List Event × List String))
    (ns seen ns' : List String) (idx lanes : List Nat)
    (h1 : saves [] ns idx lanes = some ([], ns'))
    (h2 : ∀ m, exec idx lanes ⟨m, ns⟩ = some ⟨m, ns'⟩) :
    AsisRefines exec saves ns seen ns' seen idx lanes :=
  ⟨[], h1, fun k hk => (by cases hk), fun _ h => h, fun m s hp _ _ => ⟨m, h2 m, hp⟩⟩

mutual
  theorem SP.asis_spec : (x : SP) → ∀ (ns seen ns' seen' : List String) (idx lanes : List Nat),
      x.asisOK (ns, seen) = some (ns', seen') →
      AsisRefines (x.exec ⟨false⟩) x.saves ns seen ns' seen' idx lanes
    | .tag name id, ns, seen, ns', seen', idx, lanes, h => by
        simp only [SP.asisOK, Option.some.injEq, Prod.mk.injEq] at h
        obtain ⟨rfl, rfl⟩ := h
        refine ⟨[(ns ++ [name], batched id idx lanes)], by simp [SP.saves], ?_,
          fun a ha => List.mem_append_left _ ha, ?_⟩
        · intro k hk
          simp only [List.map_cons, List.map_nil, List.mem_singleton] at hk
          obtain ⟨rest, hr⟩ := headD_cons ns name
          subst hk
          exact ⟨(ns ++ [name]).headD name, rest, hr,
            List.mem_append_right _ (List.mem_singleton.mpr rfl)⟩
        · intro m s hp _ _
          exact ⟨Store.set m (ns ++ [name]) (batched id idx lanes), by simp [SP.exec],
            set_perm m s hp _ _⟩
    | .leafTag id, ns, seen, ns', seen', idx, lanes, h => by
        cases ns with
        | nil => simp [SP.asisOK] at h
        | cons a t =>
          simp only [SP.asisOK, Option.some.injEq, Prod.mk.injEq] at h
          obtain ⟨rfl, rfl⟩ := h
          refine ⟨[(a :: t, batched id idx lanes)], by simp [SP.saves], ?_,
            fun a ha => List.mem_append_left _ ha, ?_⟩
          · intro k hk
            simp only [List.map_cons, List.map_nil, List.mem_singleton] at hk
            exact ⟨a, t, hk, by simp⟩
          · intro m s hp _ _
            exact ⟨Store.set m (a :: t) (batched id idx lanes), by simp [SP.exec],
              set_perm m s hp _ _⟩
    | .push a, ns, seen, ns', seen', idx, lanes, h => by
        simp only [SP.asisOK, Option.some.injEq, Prod.mk.injEq] at h
        obtain ⟨rfl, rfl⟩ := h
        exact asisRefines_noevent _ _ _ _ _ _ _ (by simp [SP.saves]) (fun m => by simp [SP.exec])
    | .pop, ns, seen, ns', seen', idx, lanes, h => by
        simp only [SP.asisOK] at h
        split at h
        · cases h
        · rename_i hne
          simp only [Option.some.injEq, Prod.mk.injEq] at h
          obtain ⟨rfl, rfl⟩ := h
          exact asisRefines_noevent _ _ _ _ _ _ _ (by simp [SP.saves, hne])
            (fun m => by simp [SP.exec, hne])
    | .scan body n, ns, seen, ns', seen', idx, lanes, h => by
        simp only [SP.asisOK] at h
        split at h
        · cases h
        · rename_i hns
          have hns : ns = [] := by simpa using hns
          subst hns
          split at h
          · cases h
          · rename_i nsb bodySeen hb
            split at h
            · cases h
            · rename_i hany
              simp only [Option.some.injEq, Prod.mk.injEq] at h
              obtain ⟨rfl, rfl⟩ := h
              have hdisj : ∀ a ∈ bodySeen, a ∉ seen := by
                intro a ha hs
                apply hany
                simp only [List.any_eq_true, List.contains_iff_mem]
                exact ⟨a, ha, by simpa using hs⟩
              -- every iteration, started from the empty interpreter state
              have hiter : ∀ i ∈ List.range n, ∃ (mi si : Store),
                  (body.exec ⟨false⟩ (idx ++ [i]) lanes { store := [], ns := [] }).map (·.store)
                    = some mi ∧
                  (body.saves ([] ++ []) [] (idx ++ [i]) lanes).map (fun r => collectEvents r.1)
                    = some si ∧
                  (mi.Perm si ∧ WfK (keys si) ∧ HeadsIn bodySeen (keys si)) := by
                intro i _
                obtain ⟨evs, hsv, hhd, _, hex⟩ :=
                  SPL.asis_spec body [] [] nsb bodySeen (idx ++ [i]) lanes hb
                obtain ⟨mi, hmi, hpi⟩ := hex [] [] (List.Perm.refl _) List.Pairwise.nil
                  (fun k hk => (by cases hk))
                refine ⟨mi, collectEvents evs, by rw [hmi]; rfl, by
                  rw [List.append_nil, hsv]; rfl, hpi, WfK_collectEvents evs, ?_⟩
                exact HeadsIn_applyEvents bodySeen evs [] (fun k hk => (by cases hk)) hhd
              obtain ⟨ms, ss, hms, hss, hR⟩ := mapM_forall2 _ _ _ hiter
              refine ⟨stackEvents ss, ?_, ?_, fun a ha => List.mem_append_left _ ha, ?_⟩
              · simp only [SP.saves, hss]; rfl
              · have := (scan_asis_step seen bodySeen hdisj ms ss hR [] []
                  (List.Perm.refl _) (fun k hk => (by cases hk))).1
                exact HeadsIn.mono this (fun a ha => List.mem_append_right _ ha)
              · intro m s hp _ hh
                obtain ⟨_, h2, h3⟩ := scan_asis_step seen bodySeen hdisj ms ss hR m s hp hh
                refine ⟨(mergeScan ⟨false⟩ ⟨m, []⟩ (stackStores ms)).store, ?_, h3⟩
                simp only [SP.exec, hms, Option.bind_eq_bind, Option.bind_some, Option.pure_def,
                  Option.some.injEq]
                simp [mergeScan]
    | .vmap body n, ns, seen, ns', seen', idx, lanes, h => by
        simp only [SP.asisOK] at h
        have := SPL.asis_spec body ns seen ns' seen' idx (lanes ++ [n]) h
        simpa only [AsisRefines, SP.exec, SP.saves] using this
    | .other, ns, seen, ns', seen', idx, lanes, h => by
        simp only [SP.asisOK, Option.some.injEq, Prod.mk.injEq] at h
        obtain ⟨rfl, rfl⟩ := h
        exact asisRefines_noevent _ _ _ _ _ _ _ (by simp [SP.saves]) (fun m => by simp [SP.exec])
  theorem SPL.asis_spec : (p : SPL) → ∀ (ns seen ns' seen' : List String) (idx lanes : List Nat),
      p.asisOK (ns, seen) = some (ns', seen') →
      AsisRefines (p.exec ⟨false⟩) p.saves ns seen ns' seen' idx lanes
    | .nil, ns, seen, ns', seen', idx, lanes, h => by
        simp only [SPL.asisOK, Option.some.injEq, Prod.mk.injEq] at h
        obtain ⟨rfl, rfl⟩ := h
        exact asisRefines_noevent _ _ _ _ _ _ _ (by simp [SPL.saves]) (fun m => by simp [SPL.exec])
    | .cons x rest, ns, seen, ns', seen', idx, lanes, h => by
        simp only [SPL.asisOK] at h
        split at h
        · cases h
        · rename_i s1 hx
          obtain ⟨ns1, seen1⟩ := s1
          obtain ⟨evs1, hsv1, hhd1, hmono1, hex1⟩ := SP.asis_spec x ns seen ns1 seen1 idx lanes hx
          obtain ⟨evs2, hsv2, hhd2, hmono2, hex2⟩ :=
            SPL.asis_spec rest ns1 seen1 ns' seen' idx lanes h
          refine ⟨evs1 ++ evs2, by simp [SPL.saves, hsv1, hsv2], ?_,
            fun a ha => hmono2 a (hmono1 a ha), ?_⟩
          · intro k hk
            simp only [List.map_append, List.mem_append] at hk
            rcases hk with hk | hk
            · exact HeadsIn.mono hhd1 hmono2 k hk
            · exact hhd2 k hk
          · intro m s hp hw hh
            obtain ⟨m1, hm1, hp1⟩ := hex1 m s hp hw hh
            obtain ⟨m2, hm2, hp2⟩ := hex2 m1 (applyEvents evs1 s) hp1 (WfK_applyEvents evs1 s hw)
              (HeadsIn_applyEvents seen1 evs1 s (HeadsIn.mono hh hmono1) hhd1)
            refine ⟨m2, by simp [SPL.exec, hm1, hm2], ?_⟩
            rw [applyEvents_append]
            exact hp2
end

/-- the old code on the programs accepted by `asisOK`: same failures (none), same entries, same
    look-ups as the spec; only the ORDER of the entries of the flat store may differ -/
theorem collect_asis_refines_spec (p : SPL) (ns' seen' : List String)
    (h : p.asisOK ([], []) = some (ns', seen')) :
    ∃ m s, collect ⟨false⟩ p = some m ∧ collectSpec p = some s ∧ m.Perm s ∧
      ∀ q, m.get? q = s.get? q := by
  obtain ⟨evs, hsv, _, _, hex⟩ := SPL.asis_spec p [] [] ns' seen' [] [] h
  obtain ⟨m, hm, hp⟩ := hex [] [] (List.Perm.refl _) List.Pairwise.nil (fun k hk => (by cases hk))
  refine ⟨m, collectEvents evs, by simp [collect, hm], by simp [collectSpec, savesTop, hsv], hp, ?_⟩
  intro q
  exact get_perm m _ hp (WfK_nodup _ (WfK_collectEvents evs)) q

end Genjax.State
