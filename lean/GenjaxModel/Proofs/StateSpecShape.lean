import GenjaxModel.Proofs.StateSpec
/-!
  C19 spec sanity: WHICH paths a program saves to (and whether it raises) does not depend on the
  iteration indices / vmap sizes; hence every iteration of a scan writes the same paths and the
  `getD` default inside `stackEvents` / `stackStores` is never used.
-/
namespace Genjax.State

def keys (s : Store) : List Path := s.map (·.1)

def setKeys (ks : List Path) (p : Path) : List Path := ks.filter (fun k => !(isPrefix p k)) ++ [p]

theorem keys_set (s : Store) (p : Path) (v : SV) : keys (Store.set s p v) = setKeys (keys s) p := by
  simp [keys, Store.set, setKeys, List.filter_map, Function.comp_def]

theorem keys_applyEvents (evs : List Event) (s : Store) :
    keys (applyEvents evs s) = (evs.map (·.1)).foldl setKeys (keys s) := by
  induction evs generalizing s with
  | nil => rfl
  | cons e evs ih =>
    simp only [applyEvents, List.foldl_cons, List.map_cons] at ih ⊢
    rw [ih, keys_set]

theorem keys_collectEvents (evs : List Event) :
    keys (collectEvents evs) = (evs.map (·.1)).foldl setKeys [] := keys_applyEvents evs []

/-- paths of the events, and the namespace stack afterwards -/
def shape (r : List Event × List String) : List Path × List String := (r.1.map (·.1), r.2)

theorem keys_stackEvents (iters : List Store) :
    keys (stackEvents iters) = ((iters.map keys).head?).getD [] := by
  cases iters with
  | nil => rfl
  | cons first rest => simp [stackEvents, keys]

theorem option_map_shape_eq {x y : Option (List Event × List String)}
    (h : x.map shape = y.map shape) :
    (x = none ∧ y = none) ∨ ∃ r r', x = some r ∧ y = some r' ∧ shape r = shape r' := by
  cases x <;> cases y <;> simp_all

theorem mapM_map_congr {α β γ : Type} (F F' : α → Option β) (g : β → γ) (l : List α)
    (h : ∀ a, (F a).map g = (F' a).map g) :
    (l.mapM F).map (List.map g) = (l.mapM F').map (List.map g) := by
  rw [← mapM_option_map, ← mapM_option_map]
  simp only [h]

mutual
  theorem SP.saves_shape : (s : SP) → ∀ (outer ns : List String) (idx lanes idx' lanes' : List Nat),
      (s.saves outer ns idx lanes).map shape = (s.saves outer ns idx' lanes').map shape
    | .tag name id, outer, ns, idx, lanes, idx', lanes' => by simp [SP.saves, shape]
    | .leafTag id, outer, ns, idx, lanes, idx', lanes' => by
        simp only [SP.saves]; split <;> simp [shape]
    | .push a, outer, ns, idx, lanes, idx', lanes' => by simp [SP.saves]
    | .pop, outer, ns, idx, lanes, idx', lanes' => by simp [SP.saves]
    | .scan body n, outer, ns, idx, lanes, idx', lanes' => by
        have hk : ∀ i : Nat,
            ((body.saves (outer ++ ns) [] (idx ++ [i]) lanes).map fun r => collectEvents r.1).map keys
            = ((body.saves (outer ++ ns) [] (idx' ++ [i]) lanes').map
                fun r => collectEvents r.1).map keys := by
          intro i
          have ih := SPL.saves_shape body (outer ++ ns) [] (idx ++ [i]) lanes (idx' ++ [i]) lanes'
          have h2 := congrArg (Option.map fun sh : List Path × List String =>
            sh.1.foldl setKeys []) ih
          simpa [Option.map_map, Function.comp_def, keys_collectEvents, shape] using h2
        have hm := mapM_map_congr _ _ keys (List.range n) hk
        simp only [SP.saves]
        generalize (List.mapM (fun i => (body.saves (outer ++ ns) [] (idx ++ [i]) lanes).map
          fun r => collectEvents r.1) (List.range n)) = m at hm
        generalize (List.mapM (fun i => (body.saves (outer ++ ns) [] (idx' ++ [i]) lanes').map
          fun r => collectEvents r.1) (List.range n)) = m' at hm
        cases m <;> cases m' <;> simp at hm
        · rfl
        · rename_i a b
          simp only [Option.bind_eq_bind, Option.bind_some, Option.pure_def, Option.map_some,
            Option.some.injEq]
          have : keys (stackEvents a) = keys (stackEvents b) := by
            rw [keys_stackEvents, keys_stackEvents]
            have : a.map keys = b.map keys := by simpa using hm
            rw [this]
          simpa [shape, keys] using this
    | .vmap body n, outer, ns, idx, lanes, idx', lanes' => by
        simp only [SP.saves]
        exact SPL.saves_shape body outer ns idx (lanes ++ [n]) idx' (lanes' ++ [n])
    | .other, outer, ns, idx, lanes, idx', lanes' => by simp [SP.saves]
  theorem SPL.saves_shape : (p : SPL) → ∀ (outer ns : List String) (idx lanes idx' lanes' : List Nat),
      (p.saves outer ns idx lanes).map shape = (p.saves outer ns idx' lanes').map shape
    | .nil, outer, ns, idx, lanes, idx', lanes' => by simp [SPL.saves]
    | .cons s rest, outer, ns, idx, lanes, idx', lanes' => by
        simp only [SPL.saves]
        rcases option_map_shape_eq (SP.saves_shape s outer ns idx lanes idx' lanes') with
          ⟨h1, h2⟩ | ⟨r1, r1', h1, h2, h3⟩
        · rw [h1, h2]; rfl
        · rw [h1, h2]
          simp only [Option.bind_eq_bind, Option.bind_some]
          have hns : r1.2 = r1'.2 := by have := congrArg Prod.snd h3; exact this
          have hp : r1.1.map (·.1) = r1'.1.map (·.1) := by have := congrArg Prod.fst h3; exact this
          rw [hns]
          rcases option_map_shape_eq (SPL.saves_shape rest outer r1'.2 idx lanes idx' lanes') with
            ⟨h4, h5⟩ | ⟨r2, r2', h4, h5, h6⟩
          · rw [h4, h5]; rfl
          · rw [h4, h5]
            have hns2 : r2.2 = r2'.2 := by have := congrArg Prod.snd h6; exact this
            have hp2 : r2.1.map (·.1) = r2'.1.map (·.1) := by have := congrArg Prod.fst h6; exact this
            simp [shape, hp, hp2, hns2]
end

theorem mapM_eq_some {α β : Type} (f : α → Option β) :
    ∀ (l : List α) (r : List β), l.mapM f = some r →
      r.length = l.length ∧ ∀ i (h : i < l.length) (h' : i < r.length), f l[i] = some r[i]
  | [], r, h => by
      simp only [List.mapM_nil, Option.pure_def, Option.some.injEq] at h
      subst h
      exact ⟨rfl, fun i h => absurd h (Nat.not_lt_zero _)⟩
  | a :: l, r, h => by
      simp only [List.mapM_cons, Option.bind_eq_bind, Option.bind_eq_some_iff, Option.pure_def,
        Option.some.injEq] at h
      obtain ⟨b, hb, bs, hbs, rfl⟩ := h
      obtain ⟨hl, hi⟩ := mapM_eq_some f l bs hbs
      refine ⟨by simp [hl], ?_⟩
      intro i h h'
      cases i with
      | zero => simpa using hb
      | succ i =>
        simp only [List.getElem_cons_succ]
        exact hi i (by simpa using h) (by simpa using h')

theorem get_of_mem_keys (s : Store) (q : Path) (h : q ∈ keys s) : ∃ v, s.get? q = some v := by
  simp only [keys, List.mem_map] at h
  obtain ⟨e, he, rfl⟩ := h
  have : (s.find? fun e' => e'.1 == e.1).isSome = true := by
    rw [List.find?_isSome]
    exact ⟨e, he, by simp⟩
  obtain ⟨x, hx⟩ := Option.isSome_iff_exists.mp this
  exact ⟨x.2, by simp [Store.get?, hx]⟩

/-- **the events of a scan, spelled out** (this is the reading of `stackEvents` in which no
    default value appears): the scan leaves the namespace stack alone; every event of the scan has
    as value the stack, over ALL iterations `i < n` in order, of the value that iteration `i` of the
    body left at that path (later write wins inside the body); and the paths of the scan's events are
    exactly the paths left by any one iteration. -/
theorem scan_saves_char (body : SPL) (n : Nat) (outer ns : List String) (idx lanes : List Nat)
    (evs : List Event) (ns' : List String)
    (h : (SP.scan body n).saves outer ns idx lanes = some (evs, ns')) :
    ns' = ns ∧
    (∀ e ∈ evs, ∃ vals : List SV, e.2 = SV.stack vals ∧ vals.length = n ∧
      ∀ i (hi : i < vals.length), ∃ r, body.saves (outer ++ ns) [] (idx ++ [i]) lanes = some r ∧
        (collectEvents r.1).get? e.1 = some vals[i]) ∧
    (∀ i, i < n → ∃ r, body.saves (outer ++ ns) [] (idx ++ [i]) lanes = some r ∧
        evs.map (·.1) = keys (collectEvents r.1)) := by
  simp only [SP.saves, Option.bind_eq_bind, Option.bind_eq_some_iff, Option.pure_def,
    Option.some.injEq, Prod.mk.injEq] at h
  obtain ⟨iters, hm, rfl, rfl⟩ := h
  obtain ⟨hlen, hget⟩ := mapM_eq_some _ _ _ hm
  simp only [List.length_range] at hlen
  -- what each iteration produced
  have hiter : ∀ i (hi : i < n), ∃ r, body.saves (outer ++ ns) [] (idx ++ [i]) lanes = some r ∧
      iters[i]'(by omega) = collectEvents r.1 := by
    intro i hi
    have := hget i (by simpa using hi) (by omega)
    simp only [List.getElem_range, Option.map_eq_some_iff] at this
    obtain ⟨r, hr, hr2⟩ := this
    exact ⟨r, hr, hr2.symm⟩
  -- all iterations leave the same paths
  have hkeys : ∀ i j (hi : i < n) (hj : j < n),
      keys (iters[i]'(by omega)) = keys (iters[j]'(by omega)) := by
    intro i j hi hj
    obtain ⟨ri, hri, hi2⟩ := hiter i hi
    obtain ⟨rj, hrj, hj2⟩ := hiter j hj
    have hs := SPL.saves_shape body (outer ++ ns) [] (idx ++ [i]) lanes (idx ++ [j]) lanes
    rw [hri, hrj] at hs
    simp only [Option.map_some, Option.some.injEq, shape, Prod.mk.injEq] at hs
    rw [hi2, hj2, keys_collectEvents, keys_collectEvents, hs.1]
  refine ⟨rfl, ?_, ?_⟩
  · intro e he
    cases iters with
    | nil => simp [stackEvents] at he
    | cons first rest =>
      simp only [stackEvents, List.mem_map] at he
      obtain ⟨e0, he0, rfl⟩ := he
      refine ⟨_, rfl, by simpa using hlen, ?_⟩
      intro i hi
      have hin : i < n := by simp only [List.length_map] at hi; omega
      obtain ⟨r, hr, hr2⟩ := hiter i hin
      refine ⟨r, hr, ?_⟩
      have hk : e0.1 ∈ keys ((first :: rest)[i]'(by omega)) := by
        rw [hkeys i 0 hin (by omega)]
        simp only [List.getElem_cons_zero, keys, List.mem_map]
        exact ⟨e0, he0, rfl⟩
      obtain ⟨v, hv⟩ := get_of_mem_keys _ _ hk
      rw [← hr2, hv]
      simp only [List.getElem_map, lookup_eq_get, hv, Option.getD_some]
  · intro i hi
    obtain ⟨r, hr, hr2⟩ := hiter i hi
    refine ⟨r, hr, ?_⟩
    rw [← hr2, hkeys i 0 hi (by omega)]
    have := keys_stackEvents iters
    cases iters with
    | nil => simp at hlen; omega
    | cons first rest => simpa [keys] using this

end Genjax.State
