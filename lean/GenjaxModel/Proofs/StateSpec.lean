import GenjaxModel.Model.StateSpec
import GenjaxModel.Proofs.State
/-!
  C19: the state interpreter (`SP.exec`, repaired variant) refines the event-list specification
  `SP.saves` / `collectSpec` of `Model/StateSpec.lean`, for EVERY program.
-/
namespace Genjax.State

/-! ### prefixing paths with enclosing namespaces -/

/-- put the namespaces `o` in front of the path of an entry -/
def pre (o : List String) (e : Event) : Event := (o ++ e.1, e.2)

@[simp] theorem pre_nil (e : Event) : pre [] e = e := rfl

theorem pre_append (o o' : List String) (e : Event) : pre (o ++ o') e = pre o (pre o' e) := by
  simp [pre, List.append_assoc]

theorem map_pre_nil (l : List Event) : l.map (pre []) = l := by
  simp [show pre [] = id from funext pre_nil]

theorem isPrefix_append_left (o p q : Path) : isPrefix (o ++ p) (o ++ q) = isPrefix p q := by
  induction o with
  | nil => rfl
  | cons a o ih => simp [isPrefix, ih]

theorem set_pre (o : List String) (s : Store) (p : Path) (v : SV) :
    Store.set (s.map (pre o)) (o ++ p) v = (Store.set s p v).map (pre o) := by
  simp only [Store.set, List.map_append, List.map_cons, List.map_nil, List.filter_map, pre]
  congr 2
  apply List.filter_congr
  intro e _
  simp [pre, isPrefix_append_left]

theorem foldl_set_pre (o : List String) (evs : List Event) (s : Store) :
    (evs.map (pre o)).foldl (fun s e => Store.set s e.1 e.2) (s.map (pre o))
      = (evs.foldl (fun s e => Store.set s e.1 e.2) s).map (pre o) := by
  induction evs generalizing s with
  | nil => rfl
  | cons e evs ih =>
    simp only [List.map_cons, List.foldl_cons]
    rw [show (pre o e).1 = o ++ e.1 from rfl, show (pre o e).2 = e.2 from rfl, set_pre, ih]

theorem collectEvents_pre (o : List String) (evs : List Event) :
    collectEvents (evs.map (pre o)) = (collectEvents evs).map (pre o) := by
  have := foldl_set_pre o evs []
  simpa [collectEvents] using this

theorem lookup_pre (o : List String) (s : Store) (q : Path) :
    Store.lookup (s.map (pre o)) (o ++ q) = Store.lookup s q := by
  induction s with
  | nil => rfl
  | cons e s ih =>
    simp only [List.map_cons, Store.lookup, ih, pre]
    by_cases h : e.1 = q <;> simp [h]

theorem stackEvents_pre (o : List String) (iters : List Store) :
    stackEvents (iters.map (List.map (pre o))) = (stackEvents iters).map (pre o) := by
  cases iters with
  | nil => rfl
  | cons first rest =>
    simp only [stackEvents, List.map_cons, List.map_map]
    apply List.map_congr_left
    intro e _
    simp only [Function.comp, pre, lookup_pre]
    congr 3
    apply List.map_congr_left
    intro s _
    simp only [Function.comp_apply, lookup_pre]

/-! ### `mapM` in `Option` -/

theorem mapM_option_map {α β γ : Type} (f : α → Option β) (g : β → γ) (l : List α) :
    l.mapM (fun a => (f a).map g) = (l.mapM f).map (List.map g) := by
  induction l with
  | nil => rfl
  | cons a l ih =>
    simp only [List.mapM_cons, ih]
    cases f a <;> cases l.mapM f <;> rfl

/-! ### the events under more enclosing namespaces are the same events with longer paths -/

def preR (o : List String) (r : List Event × List String) : List Event × List String :=
  (r.1.map (pre o), r.2)

mutual
  theorem SP.saves_pre : (s : SP) → ∀ (o outer ns : List String) (idx lanes : List Nat),
      s.saves (o ++ outer) ns idx lanes = (s.saves outer ns idx lanes).map (preR o)
    | .tag name id, o, outer, ns, idx, lanes => by
        simp [SP.saves, preR, pre, List.append_assoc]
    | .leafTag id, o, outer, ns, idx, lanes => by
        simp only [SP.saves]
        split <;> simp [preR, pre, List.append_assoc]
    | .push a, o, outer, ns, idx, lanes => by simp [SP.saves, preR]
    | .pop, o, outer, ns, idx, lanes => by
        simp only [SP.saves]
        split <;> simp [preR]
    | .scan body n, o, outer, ns, idx, lanes => by
        have ih := SPL.saves_pre body o (outer ++ ns) []
        simp only [SP.saves, List.append_assoc, ih, Option.map_map]
        have hfun : ∀ i : Nat,
            Option.map ((fun r : List Event × List String => collectEvents r.1) ∘ preR o)
              (body.saves (outer ++ ns) [] (idx ++ [i]) lanes)
            = ((body.saves (outer ++ ns) [] (idx ++ [i]) lanes).map
                (fun r => collectEvents r.1)).map (List.map (pre o)) := by
          intro i
          rw [Option.map_map]
          congr 1
          funext r
          simp [preR, collectEvents_pre]
        simp only [hfun, mapM_option_map]
        generalize (List.mapM (fun a => body.saves (outer ++ ns) [] (idx ++ [a]) lanes)
          (List.range n)) = m
        cases m with
        | none => rfl
        | some l =>
          simp only [Option.map_some, Option.bind_eq_bind, Option.bind_some, Option.pure_def,
            stackEvents_pre, preR]
    | .vmap body n, o, outer, ns, idx, lanes => by
        simp only [SP.saves]
        exact SPL.saves_pre body o outer ns idx (lanes ++ [n])
    | .other, o, outer, ns, idx, lanes => by simp [SP.saves, preR]
  theorem SPL.saves_pre : (p : SPL) → ∀ (o outer ns : List String) (idx lanes : List Nat),
      p.saves (o ++ outer) ns idx lanes = (p.saves outer ns idx lanes).map (preR o)
    | .nil, o, outer, ns, idx, lanes => by simp [SPL.saves, preR]
    | .cons s rest, o, outer, ns, idx, lanes => by
        simp only [SPL.saves, SP.saves_pre s o outer ns idx lanes]
        cases s.saves outer ns idx lanes with
        | none => rfl
        | some r1 =>
          simp only [Option.map_some, Option.bind_eq_bind, Option.bind_some, preR,
            SPL.saves_pre rest o outer r1.2 idx lanes]
          cases rest.saves outer r1.2 idx lanes with
          | none => rfl
          | some r2 => simp [preR]
end

theorem SPL.saves_pre' (p : SPL) (o ns : List String) (idx lanes : List Nat) :
    p.saves o ns idx lanes = (p.saves [] ns idx lanes).map (preR o) := by
  simpa using SPL.saves_pre p o [] ns idx lanes

theorem map_collect_preR (o : List String) (x : Option (List Event × List String)) :
    (x.map (preR o)).map (fun r => collectEvents r.1)
      = (x.map (fun r => collectEvents r.1)).map (List.map (pre o)) := by
  cases x with
  | none => rfl
  | some r => simp [preR, collectEvents_pre]

/-! ### the refinement theorem -/

/-- replay events on a store, later write wins -/
def applyEvents (evs : List Event) (s : Store) : Store :=
  evs.foldl (fun s e => Store.set s e.1 e.2) s

theorem applyEvents_nil (evs : List Event) : applyEvents evs [] = collectEvents evs := rfl

theorem applyEvents_append (e1 e2 : List Event) (s : Store) :
    applyEvents (e1 ++ e2) s = applyEvents e2 (applyEvents e1 s) := by
  simp [applyEvents, List.foldl_append]

theorem lookup_eq_find (s : Store) (q : Path) :
    Store.lookup s q = (s.find? fun e' => e'.1 == q).map (·.2) := by
  induction s with
  | nil => rfl
  | cons e s ih =>
    simp only [Store.lookup, List.find?_cons, ih]
    cases e.1 == q <;> rfl

theorem lookup_eq_get (s : Store) (q : Path) : Store.lookup s q = Store.get? s q :=
  lookup_eq_find s q

/-- the spec's stacking of iteration stores is the model's -/
theorem stackEvents_eq_stackStores (iters : List Store) : stackEvents iters = stackStores iters := by
  cases iters with
  | nil => rfl
  | cons first rest => simp only [stackEvents, stackStores, lookup_eq_find]

/-- what the interpreter state becomes when the events `r.1` happen and the namespace stack ends
    as `r.2` -/
def afterEvents (st : St) (r : List Event × List String) : St :=
  { store := applyEvents r.1 st.store, ns := r.2 }

mutual
  /-- REFINEMENT, one equation, any interpreter state: the repaired interpreter does exactly
      "replay the spec's events, later write wins" -/
  theorem SP.exec_spec : (s : SP) → ∀ (idx lanes : List Nat) (st : St),
      s.exec ⟨true⟩ idx lanes st = (s.saves [] st.ns idx lanes).map (afterEvents st)
    | .tag name id, idx, lanes, st => by
        simp [SP.exec, SP.saves, afterEvents, applyEvents]
    | .leafTag id, idx, lanes, st => by
        simp only [SP.exec, SP.saves]
        split <;> simp [afterEvents, applyEvents]
    | .push a, idx, lanes, st => by simp [SP.exec, SP.saves, afterEvents, applyEvents]
    | .pop, idx, lanes, st => by
        simp only [SP.exec, SP.saves]
        split <;> simp [afterEvents, applyEvents]
    | .scan body n, idx, lanes, st => by
        have ih : ∀ i : Nat,
            (body.exec ⟨true⟩ (idx ++ [i]) lanes { store := [], ns := [] }).map (·.store)
              = (body.saves [] [] (idx ++ [i]) lanes).map (fun r => collectEvents r.1) := by
          intro i
          rw [SPL.exec_spec body (idx ++ [i]) lanes { store := [], ns := [] }, Option.map_map]
          rfl
        have hs : ∀ i : Nat,
            (body.saves st.ns [] (idx ++ [i]) lanes).map (fun r => collectEvents r.1)
              = ((body.saves [] [] (idx ++ [i]) lanes).map (fun r => collectEvents r.1)).map
                  (List.map (pre st.ns)) := by
          intro i
          rw [SPL.saves_pre' body st.ns, map_collect_preR]
        simp only [SP.exec, SP.saves, List.nil_append, ih, hs, mapM_option_map]
        generalize (List.mapM (fun a => body.saves [] [] (idx ++ [a]) lanes) (List.range n)) = m
        cases m with
        | none => rfl
        | some iters =>
          simp only [Option.map_some, Option.bind_eq_bind, Option.bind_some, Option.pure_def,
            stackEvents_pre, afterEvents, mergeScan, if_true]
          simp only [stackEvents_eq_stackStores, applyEvents, List.foldl_map, pre]
    | .vmap body n, idx, lanes, st => by
        simp only [SP.exec, SP.saves]
        exact SPL.exec_spec body idx (lanes ++ [n]) st
    | .other, idx, lanes, st => by simp [SP.exec, SP.saves, afterEvents, applyEvents]
  /-- REFINEMENT, a block -/
  theorem SPL.exec_spec : (p : SPL) → ∀ (idx lanes : List Nat) (st : St),
      p.exec ⟨true⟩ idx lanes st = (p.saves [] st.ns idx lanes).map (afterEvents st)
    | .nil, idx, lanes, st => by simp [SPL.exec, SPL.saves, afterEvents, applyEvents]
    | .cons s rest, idx, lanes, st => by
        simp only [SPL.exec, SPL.saves, SP.exec_spec s idx lanes st]
        cases s.saves [] st.ns idx lanes with
        | none => rfl
        | some r1 =>
          simp only [Option.map_some, Option.bind_eq_bind, Option.bind_some,
            SPL.exec_spec rest idx lanes (afterEvents st r1)]
          simp only [afterEvents]
          cases rest.saves [] r1.2 idx lanes with
          | none => rfl
          | some r2 => simp [afterEvents, applyEvents_append]
end

/-- **C19, all programs**: what the repaired interpreter collects is the replay of the save events
    of the program (equality of `Option Store`: same failures, same entries, same order). -/
theorem collect_refines_spec (p : SPL) : collect ⟨true⟩ p = collectSpec p := by
  simp only [collect, collectSpec, savesTop, SPL.exec_spec p [] [] { store := [], ns := [] },
    Option.map_map]
  rfl

/-! ### what the collected dictionary contains, path by path -/

/-- the value a dictionary holds at `q` after the events `evs`, read off the event list alone:
    the last save at exactly `q`, unless a later save at a path above `q` (a leaf-mode save into an
    enclosing namespace) replaced the whole sub-dictionary -/
def lastSaveFrom (init : Option SV) (evs : List Event) (q : Path) : Option SV :=
  evs.foldl (fun acc e => if e.1 == q then some e.2 else if isPrefix e.1 q then none else acc) init

def lastSave (evs : List Event) (q : Path) : Option SV := lastSaveFrom none evs q

theorem set_get_above (s : Store) (p q : Path) (v : SV) (h : isPrefix p q = true) (hne : p ≠ q) :
    (Store.set s p v).get? q = none := by
  have hf : (s.filter fun e => !(isPrefix p e.1)).find? (fun e => e.1 == q) = none := by
    rw [List.find?_eq_none]
    intro e he
    rw [List.mem_filter] at he
    intro hp
    have : e.1 = q := by simpa using hp
    rw [this, h] at he
    simp at he
  simp only [Store.get?, Store.set, List.find?_append, hf, Option.none_or]
  simp [hne]

theorem get_set (s : Store) (p q : Path) (v : SV) :
    (Store.set s p v).get? q
      = if p == q then some v else if isPrefix p q then none else s.get? q := by
  by_cases h : p = q
  · subst h; simp [set_get]
  · by_cases h2 : isPrefix p q = true
    · simp [h, h2, set_get_above s p q v h2 h]
    · have h3 : isPrefix p q = false := by simpa using h2
      simp [h, h3, set_other s p q v h3]

theorem get_applyEvents (evs : List Event) (s : Store) (q : Path) :
    (applyEvents evs s).get? q = lastSaveFrom (s.get? q) evs q := by
  induction evs generalizing s with
  | nil => rfl
  | cons e evs ih =>
    simp only [applyEvents, lastSaveFrom, List.foldl_cons] at ih ⊢
    rw [ih, get_set]

/-- the collected dictionary, read path by path, is "last save wins" on the event list -/
theorem get_collectEvents (evs : List Event) (q : Path) :
    (collectEvents evs).get? q = lastSave evs q := by
  rw [← applyEvents_nil, get_applyEvents]; rfl

theorem lastSaveFrom_of_no_prefix (init : Option SV) (post : List Event) (q : Path)
    (h : ∀ e ∈ post, isPrefix e.1 q = false) : lastSaveFrom init post q = init := by
  induction post generalizing init with
  | nil => rfl
  | cons e post ih =>
    have he : isPrefix e.1 q = false := h e (List.mem_cons_self ..)
    have hne : e.1 ≠ q := by
      intro hh; rw [hh, isPrefix_refl] at he; exact Bool.noConfusion he
    simp only [lastSaveFrom, List.foldl_cons] at ih ⊢
    rw [show (if (e.1 == q) = true then some e.2 else if isPrefix e.1 q = true then none else init)
        = init by simp [hne, he]]
    exact ih init (fun e' he' => h e' (List.mem_cons_of_mem _ he'))

/-- a save at `q` after which nothing is saved at `q` or above it is what `lastSave` returns -/
theorem lastSave_split (pre post : List Event) (q : Path) (v : SV)
    (h : ∀ e ∈ post, isPrefix e.1 q = false) : lastSave (pre ++ (q, v) :: post) q = some v := by
  simp only [lastSave, lastSaveFrom, List.foldl_append, List.foldl_cons, beq_self_eq_true, if_true]
  exact lastSaveFrom_of_no_prefix (some v) post q h

/-- nothing is invented: every entry after replaying events was there before or is an event -/
theorem mem_applyEvents (evs : List Event) (s : Store) (e : Event) (h : e ∈ applyEvents evs s) :
    e ∈ s ∨ e ∈ evs := by
  induction evs generalizing s with
  | nil => exact Or.inl h
  | cons e' evs ih =>
    simp only [applyEvents, List.foldl_cons] at ih h
    rcases ih _ h with h1 | h1
    · simp only [Store.set, List.mem_append, List.mem_filter, List.mem_singleton] at h1
      rcases h1 with h1 | h1
      · exact Or.inl h1.1
      · exact Or.inr (by rw [h1]; exact List.mem_cons_self ..)
    · exact Or.inr (List.mem_cons_of_mem _ h1)

theorem mem_collectEvents (evs : List Event) (e : Event) (h : e ∈ collectEvents evs) : e ∈ evs := by
  rcases mem_applyEvents evs [] e h with h | h
  · cases h
  · exact h

end Genjax.State
