import GenjaxModel.Model.SmcInit
import GenjaxModel.Proofs.GfiGenLawCondSum
import GenjaxModel.Proofs.ViElbo
/-!
  C10: one particle of `init` / `extend` (`Model/SmcInit.lean`) is PROPERLY WEIGHTED, stated on
  generative-function programs.

  0. merging disjoint choice maps     `CM.disjB`, `CML.mergeAgree`: a complete map agrees with the merge
                                      of two disjoint dicts iff it agrees with both
  1. finite sums                      swapping two sums, the indicator of a unique element
  2. `generateD_obs_sum`              `generate` against an observable test function as a sum over the
                                      complete choice maps of the target
  3. default proposal                 `init_default_properly_weighted`, `init_default_evidence`
  4. custom proposal                  `smcMerge_agree`, `proposalParticle_split`, `afterProposal_E`,
                                      `proposal_properly_weighted`, `proposal_evidence`,
                                      `init_proposal_weight_formula` (+ `_mean`),
                                      `init_proposal_properly_weighted`
  4b. `particleScore_eq`              the stored proposal score is `log(1 / q(z))`
  5. `extend`, pipelines              `extend_*_properly_weighted`; `GfiStage.toStep`,
                                      `gfi_pipeline_unbiased` (the abstract `smc_unbiased` instantiated
                                      with GFI kernels); `RvStage`, `rvTarget`, `pull_rvStages`,
                                      `gfi_sequence_unbiased`, `gfi_sequence_lml` (closed form)
  6. concrete instances for `Props/C10.lean`
  (`Proofs/SmcInitWeight.lean`: the weight of `generate` is a function of constraint and choice map.)
-/
namespace Genjax
open Genjax.Vi

/-! ## 0. merging disjoint choice maps: agreement with the merged map -/

mutual
  /-- the two choice maps address DISJOINT sets of Distribution sites: on an address both carry,
      both values are dicts which are again disjoint (executable) -/
  def CM.disjB : CM → CM → Bool
    | .node a, .node b => CML.disjB a b
    | _, _ => false
  def CML.disjB : CML → CML → Bool
    | .nil, _ => true
    | .cons k v rest, b =>
        (match b.find? k with
         | none => true
         | some v' => CM.disjB v v') && CML.disjB rest b
end

theorem CML.disjB_find : (a b : CML) → CML.disjB a b = true → ∀ k va vb,
    a.find? k = some va → b.find? k = some vb → CM.disjB va vb = true
  | .nil, _, _, k, va, vb, ha, _ => by simp [CML.find?] at ha
  | .cons k' v rest, b, h, k, va, vb, ha, hb => by
    simp only [CML.disjB, Bool.and_eq_true] at h
    simp only [CML.find?] at ha
    split at ha
    · rename_i hk
      subst hk
      simp only [Option.some.injEq] at ha
      subst ha
      have h1 := h.1
      rw [hb] at h1
      exact h1
    · exact CML.disjB_find rest b h.2 k va vb ha hb

theorem CM.disjB_node {va vb : CM} (h : CM.disjB va vb = true) :
    ∃ u v, va = .node u ∧ vb = .node v ∧ CML.disjB u v = true := by
  cases va with
  | node u =>
    cases vb with
    | node v => exact ⟨u, v, rfl, rfl, by simpa [CM.disjB] using h⟩
    | leaf _ => simp [CM.disjB] at h
    | lanes _ => simp [CM.disjB] at h
  | leaf _ => simp [CM.disjB] at h
  | lanes _ => simp [CM.disjB] at h

/-- a complete map agrees with the merge of two disjoint maps iff it agrees with both (whichever
    side is merged into which) -/
def MergeAgree (u : CML) : Prop :=
  ∀ (b m : CML), CML.disjB u b = true →
    (CML.mergeNoCheck u b = some m ∨ CML.mergeNoCheck b u = some m) →
    ∀ y : CML, y.agreeAllWith m = (y.agreeAllWith u && y.agreeAllWith b)

theorem CML.agreeAllWith_split : (y m a b : CML) →
    (∀ k (yv : CM), agOb (m.find? k) yv = (agOb (a.find? k) yv && agOb (b.find? k) yv)) →
    y.agreeAllWith m = (y.agreeAllWith a && y.agreeAllWith b)
  | .nil, _, _, _, _ => by simp [CML.agreeAllWith]
  | .cons k yv rest, m, a, b, h => by
    simp only [CML.agreeAllWith_cons]
    rw [h k yv, CML.agreeAllWith_split rest m a b h]
    cases agOb (a.find? k) yv <;> cases agOb (b.find? k) yv <;>
      cases rest.agreeAllWith a <;> cases rest.agreeAllWith b <;> rfl

theorem mergeAgree_step (a : CML)
    (H : ∀ k va, a.find? k = some va → ∀ u, va = .node u → MergeAgree u) : MergeAgree a := by
  intro b m hd hm y
  have hfind : ∀ k, m.find? k = mergeAt (a.find? k) (b.find? k)
      ∨ m.find? k = mergeAt (b.find? k) (a.find? k) := by
    intro k
    rcases hm with hm | hm
    · exact Or.inl (CML.find?_mergeNoCheck a b m hm k)
    · exact Or.inr (CML.find?_mergeNoCheck b a m hm k)
  apply CML.agreeAllWith_split
  intro k yv
  cases ha : a.find? k with
  | none =>
    have : m.find? k = b.find? k := by
      rcases hfind k with h | h
      · rw [h, ha, mergeAt_none_left]
      · rw [h, ha, mergeAt_none_right]
    rw [this]
    simp [agOb]
  | some va =>
    cases hb : b.find? k with
    | none =>
      have : m.find? k = some va := by
        rcases hfind k with h | h
        · rw [h, ha, hb, mergeAt_none_right]
        · rw [h, ha, hb, mergeAt_none_left]
      rw [this]
      simp [agOb]
    | some vb =>
      obtain ⟨u, v, rfl, rfl, huv⟩ := CM.disjB_node (CML.disjB_find a b hd k _ _ ha hb)
      have hmm : ∃ mm, m.find? k = some (.node mm)
          ∧ (CML.mergeNoCheck u v = some mm ∨ CML.mergeNoCheck v u = some mm) := by
        rcases hfind k with h | h
        · obtain ⟨mm, hmm⟩ := CML.mergeNoCheck_total u v
          exact ⟨mm, by rw [h, ha, hb]; simp [mergeAt, hmm], Or.inl hmm⟩
        · obtain ⟨mm, hmm⟩ := CML.mergeNoCheck_total v u
          exact ⟨mm, by rw [h, ha, hb]; simp [mergeAt, hmm], Or.inr hmm⟩
      obtain ⟨mm, hmk, hmm⟩ := hmm
      rw [hmk]
      cases yv with
      | node yy =>
        simp only [agOb, CM.agreeWith]
        exact H k (.node u) ha u rfl v mm huv hmm yy
      | leaf _ => simp [agOb, CM.agreeWith]
      | lanes _ => simp [agOb, CM.agreeWith]

mutual
  theorem CM.mergeAgree_aux : (c : CM) → ∀ u, c = .node u → MergeAgree u
    | .node u, _, rfl => mergeAgree_step u (CML.mergeAgree_find u)
    | .leaf _, _, h => by cases h
    | .lanes _, _, h => by cases h
  theorem CML.mergeAgree_find : (a : CML) → ∀ k va, a.find? k = some va →
      ∀ u, va = .node u → MergeAgree u
    | .nil, k, va, h, _, _ => by simp [CML.find?] at h
    | .cons k' v rest, k, va, h, u, hu => by
      simp only [CML.find?] at h
      split at h
      · simp only [Option.some.injEq] at h
        subst h
        exact CM.mergeAgree_aux v u hu
      · exact CML.mergeAgree_find rest k va h u hu
end

theorem CML.mergeAgree (a : CML) : MergeAgree a := mergeAgree_step a (CML.mergeAgree_find a)

end Genjax

namespace Genjax.Smc
open Genjax Smc.FinDist

/-! ## 1. finite sums -/

section Sums
variable {K : Type} [Field K]

theorem sumK_map_congr_fd {α : Type} (l : List α) (f g : α → K) (h : ∀ a ∈ l, f a = g a) :
    sumK (l.map f) = sumK (l.map g) := by
  rw [List.map_congr_left h]

theorem sumK_swap_fd {α β : Type} (l : List α) (m : List β) (f : α → β → K) :
    sumK (l.map fun a => sumK (m.map fun b => f a b))
      = sumK (m.map fun b => sumK (l.map fun a => f a b)) := by
  induction l with
  | nil =>
    simp only [List.map_nil, sumK_nil]
    exact (sumK_zeros_fd m).symm
  | cons a l ih =>
    simp only [List.map_cons, sumK_cons]
    rw [ih, ← sumK_map_add]

/-- the indicator of a predicate that exactly one element of a duplicate-free list satisfies -/
theorem sumK_indicator_unique_fd {α : Type} [DecidableEq α] (l : List α) (hnd : l.Nodup)
    (p : α → Bool) (a0 : α) (h0 : a0 ∈ l) (hp0 : p a0 = true)
    (huniq : ∀ a ∈ l, p a = true → a = a0) :
    sumK (l.map fun a => if p a then (1 : K) else 0) = 1 := by
  rw [sumK_map_congr_fd l _ (fun a => if a0 = a then (1 : K) else 0), sumK_ite_eq_fd l hnd a0 h0]
  intro a ha
  by_cases hp : p a = true
  · rw [if_pos hp, if_pos (huniq a ha hp).symm]
  · rw [if_neg hp, if_neg]
    rintro rfl
    exact hp hp0

/-- ... and of a predicate no element satisfies -/
theorem sumK_indicator_none_fd {α : Type} (l : List α) (p : α → Bool)
    (hnone : ∀ a ∈ l, p a = false) :
    sumK (l.map fun a => if p a then (1 : K) else 0) = 0 := by
  rw [sumK_map_congr_fd l _ (fun _ => (0 : K)), sumK_zeros_fd]
  intro a ha
  rw [hnone a ha]
  rfl

theorem sumK_map_mul_right_fd {α : Type} (l : List α) (c : K) (f : α → K) :
    sumK (l.map fun a => f a * c) = sumK (l.map f) * c := by
  rw [mul_comm, ← sumK_map_mul_left]
  apply sumK_map_congr_fd
  intro a _
  rw [mul_comm]

end Sums

/-! ## 2. `generate` against observable test functions, as a sum over complete choice maps -/

section Law
variable {K : Type} [Field K] {R : Type} [AddCommGroup R]
variable (pd : PD K) (P : Prims R) (cfg : Cfg)

/-- `E_{(t,w) ∼ generate(ox)}[w · F(choices t, retval t)] = Σ_{y ∈ ys} 1{y ⊇ ox} · p(y) · F(y, retval(y))`
    for any list `ys` of distinct choice maps of the program's shape containing every choice map
    `simulate` can produce -/
theorem generateD_obs_sum (hpd : pd.WF) (hnorm : pd.Normalised) (g : GF) (hc : g.condOK = true)
    (hv : g.vmapOK cfg = true) (ox : Option CM) (args : List Val) (ys : List CM) (hnd : ys.Nodup)
    (hcov : ∀ t, some t ∈ supp (g.simD pd P args) → ∃ y ∈ ys, t.choices = some y)
    (hshape : ∀ y ∈ ys, g.skel = some y.skel) (F : CM → Val → K) :
    E (g.generateD pd P cfg ox args) (optK fun tw => tw.2 * obsF F tw.1)
      = sumK (ys.map fun y => agO ox y * massOf (g.assessP pd y args) (F y)) := by
  rw [generateD_law_obs pd P cfg hpd hnorm g hc hv ox args F, E_split_choices _ _ ys hnd hcov]
  apply sumK_map_congr_fd
  intro y hy
  rw [← simD_agree_pointwise_cond pd P hpd hnorm g hc ox y args (F y) (hshape y hy)]
  congr 1
  funext o
  cases o with
  | none => rfl
  | some t =>
    simp only [optK_some, choicesAre]
    split
    · rename_i h; rw [obsF_of_choices F h]
    · rw [mul_zero]

/-! ## 3. default proposal -/

/-- **`init` with the default proposal is properly weighted**: for every function `F` of the
    observable trace (choice map and return value)
    `E[w · F(trace)] = Σ_{y ⊇ obs} p(y) · F(y, retval(y))`, the sum over the complete choice maps of
    the target that agree with the constraints, `p(y)` the joint mass `assessP` computes. -/
theorem init_default_properly_weighted (hpd : pd.WF) (hnorm : pd.Normalised) (g : GF)
    (hc : g.condOK = true) (hv : g.vmapOK cfg = true) (targs : List Val) (obs : CM) (ys : List CM)
    (hnd : ys.Nodup)
    (hcov : ∀ t, some t ∈ supp (g.simD pd P targs) → ∃ y ∈ ys, t.choices = some y)
    (hshape : ∀ y ∈ ys, g.skel = some y.skel) (F : CM → Val → K) :
    E (initParticleD pd P cfg g targs obs none) (optK fun tw => tw.2 * obsF F tw.1)
      = sumK (ys.map fun y =>
          if y.agreeWith obs then massOf (g.assessP pd y targs) (F y) else 0) := by
  simp only [initParticleD]
  rw [generateD_obs_sum pd P cfg hpd hnorm g hc hv (some obs) targs ys hnd hcov hshape F]
  apply sumK_map_congr_fd
  intro y _
  simp only [agO]
  split
  · rw [one_mul]
  · rw [zero_mul]

/-- the same against the program's own distribution (no enumeration of choice maps):
    `E[w · F(trace)] = E_{t ∼ simulate}[1{t agrees with obs} · F(t)]` -/
theorem init_default_properly_weighted_sim (hpd : pd.WF) (hnorm : pd.Normalised) (g : GF)
    (hc : g.condOK = true) (hv : g.vmapOK cfg = true) (targs : List Val) (obs : CM)
    (F : CM → Val → K) :
    E (initParticleD pd P cfg g targs obs none) (optK fun tw => tw.2 * obsF F tw.1)
      = E (g.simD pd P targs) (optK fun t => t.agS obs * obsF F t) :=
  generateD_law_obs pd P cfg hpd hnorm g hc hv (some obs) targs F

/-- **`E[w] = evidence`** of the constraints, default proposal -/
theorem init_default_evidence (hpd : pd.WF) (hnorm : pd.Normalised) (g : GF)
    (hc : g.condOK = true) (hv : g.vmapOK cfg = true) (targs : List Val) (obs : CM) (ys : List CM)
    (hnd : ys.Nodup)
    (hcov : ∀ t, some t ∈ supp (g.simD pd P targs) → ∃ y ∈ ys, t.choices = some y)
    (hshape : ∀ y ∈ ys, g.skel = some y.skel) :
    E (initParticleD pd P cfg g targs obs none) (optK fun tw => tw.2)
      = sumK (ys.map fun y => if y.agreeWith obs then pmassOf (g.assessP pd y targs) else 0) :=
  generateD_unbiased_sum_cond pd P cfg hpd hnorm g hc hv obs targs ys hnd hcov hshape

/-! ## 4. custom proposal -/

/-- the merged constraint of `init` (`cs = true`) / `extend` (`cs = false`) when the constraints and
    the proposal's choices are dicts over DISJOINT addresses: `merge` does not raise, and a complete
    choice map agrees with the merged map iff it agrees with the constraints and with the proposal's
    choices -/
theorem smcMerge_agree (cs : Bool) (xs zs : CML) (hd : CML.disjB xs zs = true) :
    ∃ m, smcMerge cs (.node xs) (.node zs) = some m ∧
      ∀ y : CM, y.agreeWith m = (y.agreeWith (.node xs) && y.agreeWith (.node zs)) := by
  cases cs with
  | true =>
    obtain ⟨mm, hmm⟩ := Vi.CML.mergeNoCheck_total zs xs
    refine ⟨.node mm, by simp [smcMerge, CM.mergeNoCheck, hmm], ?_⟩
    intro y
    cases y with
    | node yy =>
      simp only [CM.agreeWith]
      exact CML.mergeAgree xs zs mm hd (Or.inr hmm) yy
    | leaf _ => simp [CM.agreeWith]
    | lanes _ => simp [CM.agreeWith]
  | false =>
    obtain ⟨mm, hmm⟩ := Vi.CML.mergeNoCheck_total xs zs
    refine ⟨.node mm, by simp [smcMerge, CM.mergeNoCheck, hmm], ?_⟩
    intro y
    cases y with
    | node yy =>
      simp only [CM.agreeWith]
      exact CML.mergeAgree xs zs mm hd (Or.inl hmm) yy
    | leaf _ => simp [CM.agreeWith]
    | lanes _ => simp [CM.agreeWith]

/-- **the expectation over a particle with a custom proposal splits over the proposal's choice
    maps**, each weighted with the mass `q.assessP` computes (the law of `simulate`, C01) -/
theorem proposalParticle_split (hpd : pd.WF) (hnorm : pd.Normalised) (cs : Bool) (g : GF)
    (targs : List Val) (obs : CM) (q : GF) (hqc : q.condOK = true) (qargs : List Val)
    (Z : List CM) (hZnd : Z.Nodup)
    (hZcov : ∀ t, some t ∈ supp (q.simD pd P qargs) → ∃ z ∈ Z, t.choices = some z)
    (hZshape : ∀ z ∈ Z, q.skel = some z.skel) (φ : Tr R × K → K) :
    E (proposalParticleD pd P cfg cs g targs obs q qargs) (optK φ)
      = sumK (Z.map fun z => pmassOf (q.assessP pd z qargs)
          * E (afterProposalD pd P cfg cs g targs obs q qargs z) (optK φ)) := by
  unfold proposalParticleD
  rw [E_bindO, E_split_choices _ _ Z hZnd hZcov]
  apply sumK_map_congr_fd
  intro z hz
  refine (E_optK_congr _ _ (fun t => E (afterProposalD pd P cfg cs g targs obs q qargs z) (optK φ)
      * choicesAre z (fun _ => 1) t) ?_).trans ?_
  · intro t _
    simp only [choicesAre]
    split
    · rename_i h
      rw [h, mul_one]
    · rw [mul_zero]
  · rw [E_optK_mul_left, simD_law pd P hpd hnorm q hqc qargs z (fun _ => 1) (hZshape z hz),
      massOf_one, mul_comm]

/-- the continuation after the proposal produced `z` (merged constraint `m`, proposal mass `qr.1`):
    `E[(w / q(z)) · F(trace)] = (Σ_{y ⊇ m} p(y) F(y)) / q(z)` -/
theorem afterProposal_E (hpd : pd.WF) (hnorm : pd.Normalised) (cs : Bool) (g : GF)
    (hc : g.condOK = true) (hv : g.vmapOK cfg = true) (targs : List Val) (obs : CM) (q : GF)
    (qargs : List Val) (z m : CM) (qr : K × Val) (hm : smcMerge cs obs z = some m)
    (hq : q.assessP pd z qargs = some qr) (ys : List CM) (hnd : ys.Nodup)
    (hcov : ∀ t, some t ∈ supp (g.simD pd P targs) → ∃ y ∈ ys, t.choices = some y)
    (hshape : ∀ y ∈ ys, g.skel = some y.skel) (F : CM → Val → K) :
    E (afterProposalD pd P cfg cs g targs obs q qargs z) (optK fun tw => tw.2 * obsF F tw.1)
      = sumK (ys.map fun y => agO (some m) y * massOf (g.assessP pd y targs) (F y)) / qr.1 := by
  simp only [afterProposalD, hm, hq]
  rw [E_bindO]
  have h1 : E (g.generateD pd P cfg (some m) targs)
        (optK fun tw => E (pureO (tw.1, tw.2 / qr.1) : FinDist K (Option (Tr R × K)))
          (optK fun tw => tw.2 * obsF F tw.1))
      = E (g.generateD pd P cfg (some m) targs)
          (optK fun tw => (1 / qr.1) * (tw.2 * obsF F tw.1)) := by
    apply E_optK_congr
    intro tw _
    rw [E_pureO, optK_some]
    ring
  rw [h1, E_optK_mul_left,
    generateD_obs_sum pd P cfg hpd hnorm g hc hv (some m) targs ys hnd hcov hshape F]
  ring

omit [AddCommGroup R] in
theorem pmassOf_ne_zero_of_massOf {o : Option (K × Val)} {ψ : Val → K} (h : massOf o ψ ≠ 0) :
    pmassOf o ≠ 0 := by
  cases o with
  | none => exact absurd rfl h
  | some pr => exact left_ne_zero_of_mul h

/-- **A particle with a custom proposal is properly weighted** (`init`: `cs = true`, `extend`:
    `cs = false`), for a proposal covering ANY subset of the target's unobserved addresses.
    `Z` / `ys`: distinct choice maps of the proposal's / the target's static shape containing every
    choice map the respective `simulate` can produce.  Hypotheses:
    * `hmerge`  the merge does not raise and a complete map agrees with the merged constraint iff it
                agrees with the constraints and with the proposal's choices (`smcMerge_agree`:
                dicts over disjoint addresses),
    * `huniq`   a complete choice map of the target agrees with at most one choice map of the
                proposal (the proposal's addresses are addresses of the target),
    * `hdom`    DOMINATION: every completion `y` of the constraints of non-zero joint mass restricts
                to a choice map of the proposal of non-zero proposal mass.
    Then for every function `F` of the observable trace
    `E[w · F(trace)] = Σ_{y ⊇ obs} p(y) · F(y, retval(y))` — the same right-hand side as for the
    default proposal (`init_default_properly_weighted`). -/
theorem proposal_properly_weighted (hpd : pd.WF) (hnorm : pd.Normalised) (cs : Bool) (g : GF)
    (hc : g.condOK = true) (hv : g.vmapOK cfg = true) (targs : List Val) (obs : CM) (q : GF)
    (hqn : q.noCollide = true) (hqc : q.condOK = true) (qargs : List Val)
    (Z : List CM) (hZnd : Z.Nodup)
    (hZcov : ∀ t, some t ∈ supp (q.simD pd P qargs) → ∃ z ∈ Z, t.choices = some z)
    (hZshape : ∀ z ∈ Z, q.skel = some z.skel)
    (ys : List CM) (hnd : ys.Nodup)
    (hcov : ∀ t, some t ∈ supp (g.simD pd P targs) → ∃ y ∈ ys, t.choices = some y)
    (hshape : ∀ y ∈ ys, g.skel = some y.skel)
    (hmerge : ∀ z ∈ Z, ∃ m, smcMerge cs obs z = some m ∧
      ∀ y ∈ ys, y.agreeWith m = (y.agreeWith obs && y.agreeWith z))
    (huniq : ∀ y ∈ ys, ∀ z1 ∈ Z, ∀ z2 ∈ Z,
      y.agreeWith z1 = true → y.agreeWith z2 = true → z1 = z2)
    (hdom : ∀ y ∈ ys, y.agreeWith obs = true → pmassOf (g.assessP pd y targs) ≠ 0 →
      ∃ z ∈ Z, y.agreeWith z = true ∧ pmassOf (q.assessP pd z qargs) ≠ 0)
    (F : CM → Val → K) :
    E (proposalParticleD pd P cfg cs g targs obs q qargs) (optK fun tw => tw.2 * obsF F tw.1)
      = sumK (ys.map fun y =>
          if y.agreeWith obs then massOf (g.assessP pd y targs) (F y) else 0) := by
  classical
  rw [proposalParticle_split pd P cfg hpd hnorm cs g targs obs q hqc qargs Z hZnd hZcov hZshape]
  -- each summand as a sum over the complete choice maps
  have hz : ∀ z ∈ Z, pmassOf (q.assessP pd z qargs)
        * E (afterProposalD pd P cfg cs g targs obs q qargs z) (optK fun tw => tw.2 * obsF F tw.1)
      = sumK (ys.map fun y =>
          (if (decide (pmassOf (q.assessP pd z qargs) ≠ 0) && y.agreeWith z) then (1 : K) else 0)
            * (if y.agreeWith obs then massOf (g.assessP pd y targs) (F y) else 0)) := by
    intro z hzZ
    obtain ⟨m, hm, hag⟩ := hmerge z hzZ
    obtain ⟨qr, hqr⟩ := Option.isSome_iff_exists.mp
      (assessP_defined pd q hqn hqc z qargs (hZshape z hzZ))
    rw [afterProposal_E pd P cfg hpd hnorm cs g hc hv targs obs q qargs z m qr hm hqr ys hnd hcov
      hshape F, hqr]
    simp only [pmassOf]
    by_cases h0 : qr.1 = 0
    · refine (show qr.1 * _ = (0 : K) by rw [h0, zero_mul]).trans ?_
      symm
      rw [sumK_map_congr_fd ys _ (fun _ => (0 : K)), sumK_zeros_fd]
      intro y _
      simp [h0]
    · rw [mul_div_cancel₀ _ h0]
      apply sumK_map_congr_fd
      intro y hy
      simp only [agO, hag y hy, ne_eq, h0, not_false_eq_true, decide_true, Bool.true_and]
      cases y.agreeWith obs <;> cases y.agreeWith z <;> simp
  rw [sumK_map_congr_fd Z _ _ hz, sumK_swap_fd]
  apply sumK_map_congr_fd
  intro y hy
  rw [sumK_map_mul_right_fd]
  by_cases hT : (if y.agreeWith obs then massOf (g.assessP pd y targs) (F y) else 0) = 0
  · rw [hT, mul_zero]
  · have hobs : y.agreeWith obs = true := by
      by_contra hne
      exact hT (by rw [if_neg hne])
    rw [if_pos hobs] at hT
    obtain ⟨z0, hz0, hag0, hq0⟩ := hdom y hy hobs (pmassOf_ne_zero_of_massOf hT)
    rw [sumK_indicator_unique_fd Z hZnd _ z0 hz0 (by simp [hq0, hag0]), one_mul]
    intro z hzZ hp
    simp only [Bool.and_eq_true] at hp
    exact huniq y hy z hzZ z0 hz0 hp.2 hag0

/-! ### the weight formula -/

/-- proper weighting of `generate` outcome by outcome (as `C02_generate_pointwise`) -/
theorem generateD_pointwise_cond (hpd : pd.WF) (hnorm : pd.Normalised) (g : GF)
    (hc : g.condOK = true) (hv : g.vmapOK cfg = true) (ox : Option CM) (args : List Val) (y : CM)
    (hs : g.skel = some y.skel) :
    E (g.generateD pd P cfg ox args) (optK fun tw => if tw.1.choices = some y then tw.2 else 0)
      = agO ox y * pmassOf (g.assessP pd y args) := by
  have := genlaw_gf pd P cfg hpd hnorm g hc hv ox args y (fun _ => 1) hs
  rw [massOf_one] at this
  rw [← this]
  congr 2
  funext tw
  simp only [choicesAre, mul_ite, mul_one, mul_zero]

/-- the probability that `generate` under the constraint `ox` FILLS IN the unconstrained sites so
    that the choice map is `y`: for a completion `y` of `ox` the product of the prior masses of the
    sites `generate` draws -/
def fillProb (g : GF) (ox : Option CM) (args : List Val) (y : CM) : K :=
  E (g.generateD pd P cfg ox args) (optK fun tw => if tw.1.choices = some y then 1 else 0)

/-- **The weight formula of a particle with a custom proposal.**  After the proposal produced `z`
    (proposal mass `q(z) = qr.1 ≠ 0`, merged constraint `m`), for every complete choice map `y` of
    the target's shape:
    (i)  the expected total weight collected on the outcome `y` is `1{y ⊇ m} · p(y) / q(z)`;
    (ii) hence, if the total weight is the same number `W` on every run ending in `y` (it is
         `generate weight / q(z)`, a function of `m` and `y`),
         `W · q(z) · fillProb(m, y) = 1{y ⊇ m} · p(y)`, i.e.
         `W = p(y) / (q(z) · Π_{sites filled by generate} prior mass)`:
         the prior masses of the sites `generate` fills are divided out of the joint ONCE (by
         `generate` itself, which only multiplies the masses of the constrained sites), the proposal
         mass once — the joint `p(y)` divided by `q(z)` alone (`wrongParticleD`) is not that. -/
theorem init_proposal_weight_formula (hpd : pd.WF) (hnorm : pd.Normalised) (cs : Bool) (g : GF)
    (hc : g.condOK = true) (hv : g.vmapOK cfg = true) (targs : List Val) (obs : CM) (q : GF)
    (qargs : List Val) (z m : CM) (qr : K × Val) (hm : smcMerge cs obs z = some m)
    (hq : q.assessP pd z qargs = some qr) (hq0 : qr.1 ≠ 0) (y : CM)
    (hs : g.skel = some y.skel) :
    E (afterProposalD pd P cfg cs g targs obs q qargs z)
        (optK fun tw => if tw.1.choices = some y then tw.2 else 0)
      = agO (some m) y * pmassOf (g.assessP pd y targs) / qr.1 ∧
    ∀ W : K, (∀ tw, some tw ∈ supp (afterProposalD pd P cfg cs g targs obs q qargs z) →
        tw.1.choices = some y → tw.2 = W) →
      W * (qr.1 * fillProb pd P cfg g (some m) targs y)
        = agO (some m) y * pmassOf (g.assessP pd y targs) := by
  have hE : ∀ φ : Tr R × K → K,
      E (afterProposalD pd P cfg cs g targs obs q qargs z) (optK φ)
        = E (g.generateD pd P cfg (some m) targs) (optK fun tw => φ (tw.1, tw.2 / qr.1)) := by
    intro φ
    simp only [afterProposalD, hm, hq]
    rw [E_bindO]
    apply E_optK_congr
    intro tw _
    rw [E_pureO, optK_some]
  have h1 : E (afterProposalD pd P cfg cs g targs obs q qargs z)
        (optK fun tw => if tw.1.choices = some y then tw.2 else 0)
      = agO (some m) y * pmassOf (g.assessP pd y targs) / qr.1 := by
    rw [hE, ← generateD_pointwise_cond pd P cfg hpd hnorm g hc hv (some m) targs y hs,
      div_eq_mul_inv, mul_comm, ← E_optK_mul_left]
    apply E_optK_congr
    intro tw _
    split
    · rw [div_eq_mul_inv, mul_comm]
    · rw [mul_zero]
  refine ⟨h1, fun W hW => ?_⟩
  have h2 : E (afterProposalD pd P cfg cs g targs obs q qargs z)
        (optK fun tw => if tw.1.choices = some y then tw.2 else 0)
      = W * fillProb pd P cfg g (some m) targs y := by
    rw [fillProb, ← E_optK_mul_left, ← hE (fun tw => W * if tw.1.choices = some y then 1 else 0)]
    apply E_optK_congr
    intro tw htw
    split
    · rename_i hy
      rw [hW tw htw hy, mul_one]
    · rw [mul_zero]
  rw [h2] at h1
  rw [mul_left_comm, h1, mul_div_cancel₀ _ hq0]

/-- the weight formula without any assumption on the runs: the CONDITIONAL MEAN of the total weight
    given that the particle ends in the choice map `y` (a possible outcome: `fillProb ≠ 0`) is
    `1{y ⊇ m} · p(y) / (q(z) · fillProb(m, y))` -/
theorem init_proposal_weight_formula_mean (hpd : pd.WF) (hnorm : pd.Normalised) (cs : Bool)
    (g : GF) (hc : g.condOK = true) (hv : g.vmapOK cfg = true) (targs : List Val) (obs : CM)
    (q : GF) (qargs : List Val) (z m : CM) (qr : K × Val) (hm : smcMerge cs obs z = some m)
    (hq : q.assessP pd z qargs = some qr) (hq0 : qr.1 ≠ 0) (y : CM)
    (hs : g.skel = some y.skel) (_hfill : fillProb pd P cfg g (some m) targs y ≠ 0) :
    E (afterProposalD pd P cfg cs g targs obs q qargs z)
        (optK fun tw => if tw.1.choices = some y then tw.2 else 0)
      / fillProb pd P cfg g (some m) targs y
      = agO (some m) y * pmassOf (g.assessP pd y targs)
          / (qr.1 * fillProb pd P cfg g (some m) targs y) := by
  rw [(init_proposal_weight_formula pd P cfg hpd hnorm cs g hc hv targs obs q qargs z m qr hm hq
    hq0 y hs).1, div_div]

/-- every trace a particle with a custom proposal can return is a trace `generate` of the target
    can return (under some constraint) -/
theorem proposalParticle_supp (cs : Bool) (g : GF) (targs : List Val) (obs : CM) (q : GF)
    (qargs : List Val) (tw : Tr R × K)
    (h : some tw ∈ supp (proposalParticleD pd P cfg cs g targs obs q qargs)) :
    ∃ m w, some (tw.1, w) ∈ supp (g.generateD pd P cfg (some m) targs) := by
  unfold proposalParticleD at h
  obtain ⟨pt, _, h2⟩ := mem_supp_bindO h
  cases hz : pt.choices with
  | none =>
    simp only [hz] at h2
    exact absurd (mem_supp_failO h2) (by simp)
  | some z =>
    simp only [hz, afterProposalD] at h2
    cases hm : smcMerge cs obs z with
    | none =>
      simp only [hm] at h2
      exact absurd (mem_supp_failO h2) (by simp)
    | some m =>
      cases hq : q.assessP pd z qargs with
      | none =>
        simp only [hm, hq] at h2
        exact absurd (mem_supp_failO h2) (by simp)
      | some qr =>
        simp only [hm, hq] at h2
        obtain ⟨tw', h3, h4⟩ := mem_supp_bindO h2
        have h5 := mem_supp_pureO h4
        simp only [Option.some.injEq] at h5
        subst h5
        exact ⟨m, tw'.2, h3⟩

/-- the traces of a particle have a choice map (programs whose Conds are `condOK`) -/
theorem proposalParticle_obsF_one (cs : Bool) (g : GF) (hc : g.condOK = true) (targs : List Val)
    (obs : CM) (q : GF) (qargs : List Val) (tw : Tr R × K)
    (h : some tw ∈ supp (proposalParticleD pd P cfg cs g targs obs q qargs)) :
    obsF (fun _ _ => (1 : K)) tw.1 = 1 := by
  obtain ⟨m, w, hmem⟩ := proposalParticle_supp pd P cfg cs g targs obs q qargs tw h
  obtain ⟨sk, hsk⟩ := Option.isSome_iff_exists.mp (condOK_skel_gf g hc)
  have hs := generateD_choices_skel pd P cfg g (some m) targs (tw.1, w) hmem
  obtain ⟨y, hy⟩ := choices_of_skel hs (by rw [hsk]; rfl)
  exact obsF_of_choices _ hy

/-- **`E[w] = evidence`** for a particle with a custom proposal (hypotheses of
    `proposal_properly_weighted`) -/
theorem proposal_evidence (hpd : pd.WF) (hnorm : pd.Normalised) (cs : Bool) (g : GF)
    (hc : g.condOK = true) (hv : g.vmapOK cfg = true) (targs : List Val) (obs : CM) (q : GF)
    (hqn : q.noCollide = true) (hqc : q.condOK = true) (qargs : List Val)
    (Z : List CM) (hZnd : Z.Nodup)
    (hZcov : ∀ t, some t ∈ supp (q.simD pd P qargs) → ∃ z ∈ Z, t.choices = some z)
    (hZshape : ∀ z ∈ Z, q.skel = some z.skel)
    (ys : List CM) (hnd : ys.Nodup)
    (hcov : ∀ t, some t ∈ supp (g.simD pd P targs) → ∃ y ∈ ys, t.choices = some y)
    (hshape : ∀ y ∈ ys, g.skel = some y.skel)
    (hmerge : ∀ z ∈ Z, ∃ m, smcMerge cs obs z = some m ∧
      ∀ y ∈ ys, y.agreeWith m = (y.agreeWith obs && y.agreeWith z))
    (huniq : ∀ y ∈ ys, ∀ z1 ∈ Z, ∀ z2 ∈ Z,
      y.agreeWith z1 = true → y.agreeWith z2 = true → z1 = z2)
    (hdom : ∀ y ∈ ys, y.agreeWith obs = true → pmassOf (g.assessP pd y targs) ≠ 0 →
      ∃ z ∈ Z, y.agreeWith z = true ∧ pmassOf (q.assessP pd z qargs) ≠ 0) :
    E (proposalParticleD pd P cfg cs g targs obs q qargs) (optK fun tw => tw.2)
      = sumK (ys.map fun y => if y.agreeWith obs then pmassOf (g.assessP pd y targs) else 0) := by
  have h := proposal_properly_weighted pd P cfg hpd hnorm cs g hc hv targs obs q hqn hqc qargs Z
    hZnd hZcov hZshape ys hnd hcov hshape hmerge huniq hdom (fun _ _ => 1)
  simp only [massOf_one] at h
  rw [← h]
  apply E_optK_congr
  intro tw htw
  rw [proposalParticle_obsF_one pd P cfg cs g hc targs obs q qargs tw htw, mul_one]

/-- `proposal_properly_weighted` for `init` as `initParticleD` states it, with the merge hypothesis
    discharged from disjointness of the addresses (`CM.disjB obs z` for every choice map `z` of the
    proposal) -/
theorem init_proposal_properly_weighted (hpd : pd.WF) (hnorm : pd.Normalised) (g : GF)
    (hc : g.condOK = true) (hv : g.vmapOK cfg = true) (targs : List Val) (obs : CM) (q : GF)
    (hqn : q.noCollide = true) (hqc : q.condOK = true) (qargs : List Val)
    (Z : List CM) (hZnd : Z.Nodup)
    (hZcov : ∀ t, some t ∈ supp (q.simD pd P qargs) → ∃ z ∈ Z, t.choices = some z)
    (hZshape : ∀ z ∈ Z, q.skel = some z.skel)
    (ys : List CM) (hnd : ys.Nodup)
    (hcov : ∀ t, some t ∈ supp (g.simD pd P targs) → ∃ y ∈ ys, t.choices = some y)
    (hshape : ∀ y ∈ ys, g.skel = some y.skel)
    (hdisj : ∀ z ∈ Z, CM.disjB obs z = true)
    (huniq : ∀ y ∈ ys, ∀ z1 ∈ Z, ∀ z2 ∈ Z,
      y.agreeWith z1 = true → y.agreeWith z2 = true → z1 = z2)
    (hdom : ∀ y ∈ ys, y.agreeWith obs = true → pmassOf (g.assessP pd y targs) ≠ 0 →
      ∃ z ∈ Z, y.agreeWith z = true ∧ pmassOf (q.assessP pd z qargs) ≠ 0)
    (F : CM → Val → K) :
    E (initParticleD pd P cfg g targs obs (some (q, qargs))) (optK fun tw => tw.2 * obsF F tw.1)
      = sumK (ys.map fun y =>
          if y.agreeWith obs then massOf (g.assessP pd y targs) (F y) else 0) := by
  have hmerge : ∀ z ∈ Z, ∃ m, smcMerge true obs z = some m ∧
      ∀ y ∈ ys, y.agreeWith m = (y.agreeWith obs && y.agreeWith z) := by
    intro z hz
    obtain ⟨xs, zs, rfl, rfl, hxz⟩ := CM.disjB_node (hdisj z hz)
    obtain ⟨m, hm, hag⟩ := smcMerge_agree true xs zs hxz
    exact ⟨m, hm, fun y _ => hag y⟩
  exact proposal_properly_weighted pd P cfg hpd hnorm true g hc hv targs obs q hqn hqc qargs Z hZnd
    hZcov hZshape ys hnd hcov hshape hmerge huniq hdom F

/-- the merge hypothesis of `proposal_properly_weighted` from the shape of the maps: the constraints
    and every choice map of the proposal are dicts over disjoint addresses (`CM.disjB`, executable) -/
theorem hmerge_of_disjoint (cs : Bool) (obs : CM) (Z ys : List CM)
    (hd : ∀ z ∈ Z, CM.disjB obs z = true) :
    ∀ z ∈ Z, ∃ m, smcMerge cs obs z = some m ∧
      ∀ y ∈ ys, y.agreeWith m = (y.agreeWith obs && y.agreeWith z) := by
  intro z hz
  obtain ⟨xs, zs, rfl, rfl, hxz⟩ := CM.disjB_node (hd z hz)
  obtain ⟨m, hm, hag⟩ := smcMerge_agree cs xs zs hxz
  exact ⟨m, hm, fun y _ => hag y⟩

end Law

/-! ## 4b. the stored proposal score is `log(1 / q(z))` -/

section Score
variable {K : Type} [Field K] {R : Type} [AddCommGroup R]
variable (pd : PD K) (P : Prims R) (cfg : Cfg)

/-- **The code's weight `target_weight + proposal_score` is `w / q(z)`.**  The code reads the
    proposal trace's stored score (`particleScoreD`: weight `w · e(score)`); `proposalParticleD`
    divides by the mass `q.assessP` assigns to the proposal's choice map.  If the masses are the
    exponentials of the log densities (`pm = e ∘ lp`, `e 0 = 1`, `e (a + b) = e a · e b`) the two
    particles have the same expectation against every test function: every trace `simulate` returns
    is coherent, so its score is `−log q(z)` (`coh_assess`), and `e(−log q) = 1 / q(z)`. -/
theorem particleScore_eq (e : R → K) (he0 : e 0 = 1) (hadd : ∀ a b, e (a + b) = e a * e b)
    (hpm : ∀ d a v, pd.pm d a v = e (P.lp d a v)) (cs : Bool) (g : GF) (targs : List Val)
    (obs : CM) (q : GF) (qargs : List Val) (φ : Tr R × K → K) :
    E (particleScoreD pd P cfg e cs g targs obs q qargs) (optK φ)
      = E (proposalParticleD pd P cfg cs g targs obs q qargs) (optK φ) := by
  unfold particleScoreD proposalParticleD
  rw [E_bindO, E_bindO]
  apply E_optK_congr
  intro pt hpt
  have hcoh := simD_coh pd P q qargs pt hpt
  cases hz : pt.choices with
  | none => rfl
  | some z =>
    simp only [afterProposalD]
    cases hm : smcMerge cs obs z with
    | none => rfl
    | some m =>
      have hQ := assessP_eq_exp_assess e he0 hadd pd P hpm q z qargs
      rw [coh_assess P q qargs pt hcoh z hz] at hQ
      simp only [hQ, Option.map_some]
      have hinv : e pt.score * e (-pt.score) = 1 := by rw [← hadd, add_neg_cancel, he0]
      have hne : e (-pt.score) ≠ 0 := fun h0 => by
        rw [h0, mul_zero] at hinv; exact zero_ne_one hinv
      rw [E_bindO, E_bindO]
      apply E_optK_congr
      intro tw _
      rw [E_pureO, E_pureO]
      have hw : tw.2 * e pt.score = tw.2 / e (-pt.score) := by
        rw [eq_div_iff hne, mul_assoc, hinv, mul_one]
      rw [hw]

end Score

/-! ## 5. `extend`, and pipelines of GFI steps as instances of the abstract particle system -/

section Pipeline
variable {K : Type} [Field K] {R : Type} [AddCommGroup R]
variable (pd : PD K) (P : Prims R) (cfg : Cfg)

/-- **one `extend` step with the default proposal is properly weighted**: from a particle of weight
    `w₀`, the new weight `w₀ · w_incr` satisfies
    `E[w₀ · w_incr · F(new trace)] = w₀ · Σ_{y ⊇ obs} p(y) F(y, retval(y))`, `p` the joint mass of the
    extended target at the particle's arguments -/
theorem extend_default_properly_weighted (hpd : pd.WF) (hnorm : pd.Normalised) (g : GF)
    (hc : g.condOK = true) (hv : g.vmapOK cfg = true) (targs : List Val) (obs : CM) (ys : List CM)
    (hnd : ys.Nodup)
    (hcov : ∀ t, some t ∈ supp (g.simD pd P targs) → ∃ y ∈ ys, t.choices = some y)
    (hshape : ∀ y ∈ ys, g.skel = some y.skel) (w0 : K) (F : CM → Val → K) :
    E (extendParticleD pd P cfg g targs obs none) (optK fun tw => (w0 * tw.2) * obsF F tw.1)
      = w0 * sumK (ys.map fun y =>
          if y.agreeWith obs then massOf (g.assessP pd y targs) (F y) else 0) := by
  rw [← init_default_properly_weighted pd P cfg hpd hnorm g hc hv targs obs ys hnd hcov hshape F,
    ← E_optK_mul_left]
  apply E_optK_congr
  intro tw _
  rw [mul_assoc]

/-- **one `extend` step with a custom extension proposal is properly weighted** (hypotheses as in
    `proposal_properly_weighted`; in `extend` the proposal's choices are the second argument of the
    merge) -/
theorem extend_proposal_properly_weighted (hpd : pd.WF) (hnorm : pd.Normalised) (g : GF)
    (hc : g.condOK = true) (hv : g.vmapOK cfg = true) (targs : List Val) (obs : CM) (q : GF)
    (hqn : q.noCollide = true) (hqc : q.condOK = true) (qargs : List Val)
    (Z : List CM) (hZnd : Z.Nodup)
    (hZcov : ∀ t, some t ∈ supp (q.simD pd P qargs) → ∃ z ∈ Z, t.choices = some z)
    (hZshape : ∀ z ∈ Z, q.skel = some z.skel)
    (ys : List CM) (hnd : ys.Nodup)
    (hcov : ∀ t, some t ∈ supp (g.simD pd P targs) → ∃ y ∈ ys, t.choices = some y)
    (hshape : ∀ y ∈ ys, g.skel = some y.skel)
    (hmerge : ∀ z ∈ Z, ∃ m, smcMerge false obs z = some m ∧
      ∀ y ∈ ys, y.agreeWith m = (y.agreeWith obs && y.agreeWith z))
    (huniq : ∀ y ∈ ys, ∀ z1 ∈ Z, ∀ z2 ∈ Z,
      y.agreeWith z1 = true → y.agreeWith z2 = true → z1 = z2)
    (hdom : ∀ y ∈ ys, y.agreeWith obs = true → pmassOf (g.assessP pd y targs) ≠ 0 →
      ∃ z ∈ Z, y.agreeWith z = true ∧ pmassOf (q.assessP pd z qargs) ≠ 0)
    (w0 : K) (F : CM → Val → K) :
    E (extendParticleD pd P cfg g targs obs (some (q, qargs)))
        (optK fun tw => (w0 * tw.2) * obsF F tw.1)
      = w0 * sumK (ys.map fun y =>
          if y.agreeWith obs then massOf (g.assessP pd y targs) (F y) else 0) := by
  rw [← proposal_properly_weighted pd P cfg hpd hnorm false g hc hv targs obs q hqn hqc qargs Z
    hZnd hZcov hZshape ys hnd hcov hshape hmerge huniq hdom F, ← E_optK_mul_left]
  apply E_optK_congr
  intro tw _
  rw [mul_assoc]

/-! ### total mass 1 -/

theorem afterProposal_mass (hnorm : pd.Normalised) (cs : Bool) (g : GF) (targs : List Val)
    (obs : CM) (q : GF) (qargs : List Val) (z : CM) :
    mass (afterProposalD pd P cfg cs g targs obs q qargs z) = 1 := by
  unfold afterProposalD
  split
  · exact mass_bindO _ _ (generateD_mass pd P cfg hnorm g _ _) fun _ => mass_pureO _
  · exact mass_failO

theorem proposalParticle_mass (hnorm : pd.Normalised) (cs : Bool) (g : GF) (targs : List Val)
    (obs : CM) (q : GF) (qargs : List Val) :
    mass (proposalParticleD pd P cfg cs g targs obs q qargs) = 1 := by
  unfold proposalParticleD
  refine mass_bindO _ _ (simD_mass pd P hnorm q qargs) fun pt => ?_
  split
  · exact mass_failO
  · exact afterProposal_mass pd P cfg hnorm cs g targs obs q qargs _

theorem GfiStep.run_mass (hnorm : pd.Normalised) (st : GfiStep R) (prev : Option (Tr R)) :
    mass (st.run pd P cfg prev) = 1 := by
  unfold GfiStep.run
  split
  · exact generateD_mass pd P cfg hnorm _ _ _
  · exact proposalParticle_mass pd P cfg hnorm _ _ _ _ _ _

/-- the proposal kernel of a GFI step is normalised (outcomes: a weighted trace or "raised") -/
theorem GfiStep.kernel_mass (hnorm : pd.Normalised) (st : GfiStep R) (x : Part K R) :
    mass (st.kernel pd P cfg x) = 1 := by
  cases x with
  | raised => exact E_pure _ _
  | start =>
    simp only [GfiStep.kernel]
    rw [mass_map_fst]
    exact st.run_mass pd P cfg hnorm _
  | live t w =>
    simp only [GfiStep.kernel]
    rw [mass_map_fst]
    exact st.run_mass pd P cfg hnorm _

/-- the incremental kernel `ψ ↦ Σ_x' q(x'|x) G(x,x') ψ(x')` of a GFI step is the weighted expectation
    over the step's particle computation (a raised particle carries weight 0) -/
theorem GfiStep.kernel_E (st : GfiStep R) (x : Part K R) (hx : x ≠ .raised) (ψ : Part K R → K) :
    E (st.kernel pd P cfg x) (fun x' => GfiStep.incrWeight x x' * ψ x')
      = E (st.run pd P cfg x.trace?) (optK fun tw => tw.2 * ψ (.live tw.1 tw.2)) := by
  have h : st.kernel pd P cfg x
      = (st.run pd P cfg x.trace?).map fun (o, p) => (Part.ofOutcome o, p) := by
    cases x with
    | raised => exact absurd rfl hx
    | start => rfl
    | live t w => rfl
  rw [h, E_map_fst]
  congr 1
  funext o
  cases o with
  | none => simp [Part.ofOutcome, GfiStep.incrWeight, Part.incr, optK]
  | some tw => rfl

/-- one stage of a pipeline: a GFI `init`/`extend` step, the adaptive-resampling trigger, and a
    rejuvenation kernel on particle states -/
structure GfiStage (K R : Type) where
  step : GfiStep R
  trigger : List K → Bool
  k : Part K R → FinDist K (Part K R)

/-- the stage as a step of the abstract particle system (`Proofs/Smc.lean`) -/
def GfiStage.toStep (sg : GfiStage K R) : Step K (Part K R) where
  q := sg.step.kernel pd P cfg
  G := GfiStep.incrWeight
  trigger := sg.trigger
  k := sg.k

/-- **SMC over generative functions is unbiased**: `smc_unbiased` instantiated with the kernels and
    incremental weights that `init` / `extend` compute through the generative function interface
    (default or custom proposals).  The only hypotheses left are normalisation of the primitives, of
    the rejuvenation kernels, and that a resampling trigger does not fire on total weight 0. -/
theorem gfi_pipeline_unbiased (hnorm : pd.Normalised) (stages : List (GfiStage K R))
    (s : Sys K (Part K R)) (hN : (s.parts.length : K) ≠ 0)
    (hk : ∀ sg ∈ stages, ∀ x, mass (sg.k x) = 1)
    (htrig : ∀ sg ∈ stages, ∀ ws, sg.trigger ws = true → sumK ws ≠ 0) (φ : Part K R → K) :
    E (runSteps (stages.map (GfiStage.toStep pd P cfg)) s) (fun s' => s'.est φ)
      = s.est (pull (stages.map (GfiStage.toStep pd P cfg)) φ) := by
  apply smc_unbiased
  · exact hN
  · intro st hst x
    obtain ⟨sg, _, rfl⟩ := List.mem_map.mp hst
    exact sg.step.kernel_mass pd P cfg hnorm x
  · intro st hst x
    obtain ⟨sg, hsg, rfl⟩ := List.mem_map.mp hst
    exact hk sg hsg x
  · intro st hst ws h
    obtain ⟨sg, hsg, rfl⟩ := List.mem_map.mp hst
    exact htrig sg hsg ws h

/-! ### closed form for `rejuvenation_smc`-style pipelines -/

/-- what a stage may read from the particle's previous trace: its choice map and return value
    (`none` before `init`) -/
def prevInfo (t : Option (Tr R)) : Option (CM × Val) :=
  t.bind fun t => t.choices.map fun y => (y, t.retval)

/-- a stage of a `rejuvenation_smc`-style pipeline: the target's arguments (and the proposal's, if
    there is one) are functions of the OBSERVABLE previous trace - choice map and return value; the
    code feeds `particles.traces.get_retval()` to the target and `old_choices` to the proposal.
    `ys r` / `Z r` enumerate the complete choice maps of the target / the proposal at the arguments
    `r` leads to; any adaptive-resampling trigger, no rejuvenation move. -/
structure RvStage (K : Type) where
  target : GF
  argsOf : Option (CM × Val) → List Val
  obs : CM
  ys : Option (CM × Val) → List CM
  proposal : Option (GF × (Option (CM × Val) → List Val))
  Z : Option (CM × Val) → List CM
  constraintsSecond : Bool
  trigger : List K → Bool

def RvStage.toStage (rs : RvStage K) : GfiStage K R where
  step := { target := rs.target
            targs := fun prev => rs.argsOf (prevInfo prev)
            obs := rs.obs
            proposal := rs.proposal.map fun qa => (qa.1, fun prev => qa.2 (prevInfo prev))
            constraintsSecond := rs.constraintsSecond }
  trigger := rs.trigger
  k := FinDist.pure

/-- the unnormalised target the pipeline is an estimator of: nested sums over the completions of
    each stage's constraints, each stage's joint mass evaluated at the arguments the previous stage's
    outcome leads to - with `φ = 1` the MARGINAL LIKELIHOOD of the whole observation sequence.  The
    proposals do not appear in it. -/
def rvTarget : List (RvStage K) → (Option (CM × Val) → K) → Option (CM × Val) → K
  | [], φ => φ
  | rs :: rest, φ => fun r =>
      sumK ((rs.ys r).map fun y =>
        if y.agreeWith rs.obs
        then massOf (rs.target.assessP pd y (rs.argsOf r)) (fun r' => rvTarget rest φ (some (y, r')))
        else 0)

/-- a test function of the particle's last observable trace (choice map, return value), on particle
    states (a raised particle has weight 0, so its value there never matters) -/
def retvalTest (φ : Option (CM × Val) → K) (x : Part K R) : K := φ (prevInfo x.trace?)

/-- what a stage must satisfy: Conds of equal shape, Vmaps accepting the empty constraint, `ys r`
    lists (without repetition) the choice maps `simulate` can produce at the arguments `r` leads to;
    and, if the stage has a custom proposal, the hypotheses of `proposal_properly_weighted` at every
    `r` (no address traced twice, `Z r` lists the proposal's choice maps, merge / uniqueness /
    domination) -/
def RvStage.OK (rs : RvStage K) : Prop :=
  rs.target.condOK = true ∧ rs.target.vmapOK cfg = true ∧
  (∀ r, (rs.ys r).Nodup ∧
    (∀ t : Tr R, some t ∈ supp (rs.target.simD pd P (rs.argsOf r)) →
      ∃ y ∈ rs.ys r, t.choices = some y) ∧
    (∀ y ∈ rs.ys r, rs.target.skel = some y.skel)) ∧
  ∀ qa, rs.proposal = some qa →
    qa.1.noCollide = true ∧ qa.1.condOK = true ∧
    ∀ r, (rs.Z r).Nodup ∧
      (∀ t : Tr R, some t ∈ supp (qa.1.simD pd P (qa.2 r)) → ∃ z ∈ rs.Z r, t.choices = some z) ∧
      (∀ z ∈ rs.Z r, qa.1.skel = some z.skel) ∧
      (∀ z ∈ rs.Z r, ∃ m, smcMerge rs.constraintsSecond rs.obs z = some m ∧
        ∀ y ∈ rs.ys r, y.agreeWith m = (y.agreeWith rs.obs && y.agreeWith z)) ∧
      (∀ y ∈ rs.ys r, ∀ z1 ∈ rs.Z r, ∀ z2 ∈ rs.Z r,
        y.agreeWith z1 = true → y.agreeWith z2 = true → z1 = z2) ∧
      (∀ y ∈ rs.ys r, y.agreeWith rs.obs = true →
        pmassOf (rs.target.assessP pd y (rs.argsOf r)) ≠ 0 →
        ∃ z ∈ rs.Z r, y.agreeWith z = true ∧ pmassOf (qa.1.assessP pd z (qa.2 r)) ≠ 0)

/-- the weighted expectation over one stage's particle computation, default or custom proposal -/
theorem rvStage_run_E (hpd : pd.WF) (hnorm : pd.Normalised) (rs : RvStage K)
    (hok : rs.OK pd P cfg) (prev : Option (Tr R)) (F : CM → Val → K) :
    E ((rs.toStage (K := K) (R := R)).step.run pd P cfg prev) (optK fun tw => tw.2 * obsF F tw.1)
      = sumK ((rs.ys (prevInfo prev)).map fun y =>
          if y.agreeWith rs.obs
          then massOf (rs.target.assessP pd y (rs.argsOf (prevInfo prev))) (F y) else 0) := by
  obtain ⟨hc, hv, hys, hq⟩ := hok
  obtain ⟨hnd, hcov, hshape⟩ := hys (prevInfo prev)
  cases hp : rs.proposal with
  | none =>
    have h3 : (rs.toStage (K := K) (R := R)).step.run pd P cfg prev
        = rs.target.generateD pd P cfg (some rs.obs) (rs.argsOf (prevInfo prev)) := by
      simp only [GfiStep.run, RvStage.toStage, hp, Option.map_none]
    rw [h3]
    exact init_default_properly_weighted pd P cfg hpd hnorm rs.target hc hv _ rs.obs _ hnd hcov
      hshape F
  | some qa =>
    obtain ⟨hqn, hqc, hZ⟩ := hq qa hp
    obtain ⟨hZnd, hZcov, hZshape, hmerge, huniq, hdom⟩ := hZ (prevInfo prev)
    have h3 : (rs.toStage (K := K) (R := R)).step.run pd P cfg prev
        = proposalParticleD pd P cfg rs.constraintsSecond rs.target (rs.argsOf (prevInfo prev))
            rs.obs qa.1 (qa.2 (prevInfo prev)) := by
      simp only [GfiStep.run, RvStage.toStage, hp, Option.map_some]
    rw [h3]
    exact proposal_properly_weighted pd P cfg hpd hnorm rs.constraintsSecond rs.target hc hv _
      rs.obs qa.1 hqn hqc _ _ hZnd hZcov hZshape _ hnd hcov hshape hmerge huniq hdom F

/-- every trace a stage's particle computation can return has a choice map -/
theorem rvStage_run_choices (rs : RvStage K) (hc : rs.target.condOK = true)
    (prev : Option (Tr R)) (tw : Tr R × K)
    (h : some tw ∈ supp ((rs.toStage (K := K) (R := R)).step.run pd P cfg prev)) :
    ∃ y, tw.1.choices = some y := by
  obtain ⟨sk, hsk⟩ := Option.isSome_iff_exists.mp (condOK_skel_gf rs.target hc)
  have key : ∃ m w args, some (tw.1, w) ∈ supp (rs.target.generateD pd P cfg (some m) args) := by
    cases hp : rs.proposal with
    | none =>
      simp only [GfiStep.run, RvStage.toStage, hp, Option.map_none] at h
      exact ⟨_, tw.2, _, h⟩
    | some qa =>
      simp only [GfiStep.run, RvStage.toStage, hp, Option.map_some] at h
      obtain ⟨m, w, hmem⟩ := proposalParticle_supp pd P cfg _ _ _ _ _ _ tw h
      exact ⟨m, w, _, hmem⟩
  obtain ⟨m, w, args, hmem⟩ := key
  have hs := generateD_choices_skel pd P cfg rs.target (some m) args (tw.1, w) hmem
  exact choices_of_skel hs (by rw [hsk]; rfl)

/-- the pulled-back test function of the abstract theorem, computed: it is `rvTarget` -/
theorem pull_rvStages (hpd : pd.WF) (hnorm : pd.Normalised) (φ : Option (CM × Val) → K) :
    ∀ (stages : List (RvStage K)), (∀ rs ∈ stages, rs.OK pd P cfg) →
    ∀ x : Part K R, x ≠ .raised →
      pull (stages.map fun rs => (rs.toStage (R := R)).toStep pd P cfg) (retvalTest φ) x
        = rvTarget pd stages φ (prevInfo x.trace?)
  | [], _, x, _ => rfl
  | rs :: rest, hok, x, hx => by
    have hrs := hok rs List.mem_cons_self
    have ih := pull_rvStages hpd hnorm φ rest (fun rs' h => hok rs' (List.mem_cons_of_mem _ h))
    simp only [List.map_cons, pull, rvTarget]
    have h1 : ∀ x' : Part K R,
        (GfiStage.toStep pd P cfg (rs.toStage (R := R))).G x x'
          * E ((GfiStage.toStep pd P cfg (rs.toStage (R := R))).k x')
              (pull (rest.map fun rs => (rs.toStage (R := R)).toStep pd P cfg) (retvalTest φ))
        = GfiStep.incrWeight x x'
          * pull (rest.map fun rs => (rs.toStage (R := R)).toStep pd P cfg) (retvalTest φ) x' := by
      intro x'
      simp only [GfiStage.toStep, RvStage.toStage, E_pure]
    rw [show (fun x' => (GfiStage.toStep pd P cfg (rs.toStage (R := R))).G x x'
          * E ((GfiStage.toStep pd P cfg (rs.toStage (R := R))).k x')
              (pull (rest.map fun rs => (rs.toStage (R := R)).toStep pd P cfg) (retvalTest φ)))
        = fun x' => GfiStep.incrWeight x x'
          * pull (rest.map fun rs => (rs.toStage (R := R)).toStep pd P cfg) (retvalTest φ) x'
        from funext h1]
    have h2 : (GfiStage.toStep pd P cfg (rs.toStage (R := R))).q
        = (rs.toStage (R := R)).step.kernel pd P cfg := rfl
    rw [h2, GfiStep.kernel_E pd P cfg _ x hx]
    rw [E_optK_congr _ _
      (fun tw => tw.2 * obsF (fun y r' => rvTarget pd rest φ (some (y, r'))) tw.1)]
    · exact rvStage_run_E pd P cfg hpd hnorm rs hrs x.trace? _
    · intro tw htw
      obtain ⟨y, hy⟩ := rvStage_run_choices pd P cfg rs hrs.1 x.trace? tw htw
      rw [obsF_of_choices _ hy, ih (.live tw.1 tw.2) (by simp)]
      simp only [Part.trace?, prevInfo, Option.bind_some, hy, Option.map_some]

/-- the initial particle system: `N` particles before `init`, weights 1, accumulated estimate 1 -/
def startSys (N : Nat) : Sys K (Part K R) := { parts := List.replicate N (.start, 1), acc := 1 }

omit [AddCommGroup R] in
theorem startSys_est (N : Nat) (hN : (N : K) ≠ 0) (f : Part K R → K) :
    (startSys (R := R) N).est f = f .start := by
  simp only [Sys.est, startSys, List.map_replicate, List.length_replicate, one_mul]
  have : sumK (List.replicate N (f (Part.start : Part K R))) = (N : K) * f .start := by
    have h := sumK_map_const (List.replicate N ()) (f (Part.start : Part K R))
    rw [List.map_replicate, List.length_replicate] at h
    exact h
  rw [this, mul_div_cancel_left₀ _ hN]

/-- **`rejuvenation_smc`-style pipelines of GFI steps are unbiased for the sequence model** (default
    or custom proposals, stage by stage): starting from `N` fresh particles, after `init` and any
    number of `extend` steps (each followed by adaptive resampling with an arbitrary trigger), for
    every function `φ` of the particle's last observable trace (choice map, return value)
    `E[acc · (1/N) Σ_i w_i φ(choices_i, retval_i)] = rvTarget stages φ none`
    - the nested sum over the completions of every stage's constraints of the product of the stages'
    joint masses, each evaluated at the arguments the previous outcome leads to. -/
theorem gfi_sequence_unbiased (hpd : pd.WF) (hnorm : pd.Normalised)
    (stages : List (RvStage K)) (hok : ∀ rs ∈ stages, rs.OK pd P cfg) (N : Nat)
    (hN : (N : K) ≠ 0) (htrig : ∀ rs ∈ stages, ∀ ws, rs.trigger ws = true → sumK ws ≠ 0)
    (φ : Option (CM × Val) → K) :
    E (runSteps (stages.map fun rs => (rs.toStage (R := R)).toStep pd P cfg) (startSys N))
        (fun s' => s'.est (retvalTest φ))
      = rvTarget pd stages φ none := by
  have h := gfi_pipeline_unbiased pd P cfg hnorm (stages.map fun rs => rs.toStage (R := R))
    (startSys N) (by simpa [startSys] using hN)
    (by
      intro sg hsg x
      obtain ⟨rs, _, rfl⟩ := List.mem_map.mp hsg
      exact E_pure _ _)
    (by
      intro sg hsg ws hws
      obtain ⟨rs, hrs, rfl⟩ := List.mem_map.mp hsg
      exact htrig rs hrs ws hws)
    (retvalTest φ)
  rw [List.map_map] at h
  rw [show (fun rs : RvStage K => (rs.toStage (R := R)).toStep pd P cfg)
      = GfiStage.toStep pd P cfg ∘ (fun rs : RvStage K => rs.toStage (R := R)) from rfl, h,
    startSys_est N hN]
  exact pull_rvStages pd P cfg hpd hnorm φ stages hok .start (by simp)

/-- with `φ = 1`: **the evidence estimate `exp(log_marginal_likelihood())` is unbiased** for the
    marginal likelihood of the whole observation sequence -/
theorem gfi_sequence_lml (hpd : pd.WF) (hnorm : pd.Normalised)
    (stages : List (RvStage K)) (hok : ∀ rs ∈ stages, rs.OK pd P cfg) (N : Nat)
    (hN : (N : K) ≠ 0) (htrig : ∀ rs ∈ stages, ∀ ws, rs.trigger ws = true → sumK ws ≠ 0) :
    E (runSteps (stages.map fun rs => (rs.toStage (R := R)).toStep pd P cfg) (startSys N))
        (fun s' => s'.lml)
      = rvTarget pd stages (fun _ => 1) none := by
  rw [← gfi_sequence_unbiased pd P cfg hpd hnorm stages hok N hN htrig (fun _ => 1)]
  congr 1
  funext s'
  simp only [Sys.lml, Sys.est, retvalTest, mul_one]

end Pipeline

/-- executable form of "every successful outcome satisfies `p`" -/
theorem forall_supp_of_allB {K : Type} {α : Type} (d : FinDist K (Option α)) (p : α → Bool)
    (h : (d.all fun op => match op.1 with | none => true | some a => p a) = true) :
    ∀ a, some a ∈ supp d → p a = true := by
  intro a ha
  simp only [supp, List.mem_map] at ha
  obtain ⟨op, hop, hop1⟩ := ha
  have := (List.all_eq_true.mp h) op hop
  rw [hop1] at this
  exact this

/-! ## 6. concrete instances for the non-vacuity examples of `Props/C10.lean` (primitives `lawExPD`) -/

section Instances

/-- target with two latents and one observed site:
    `a ~ coin(1/3); b ~ coin(1/4 + a/2); y ~ coin(1/8 + a/2 + b/4); return a + b` (no arguments) -/
def initExTarget : GF :=
  .fn (.call "a" (.dist 0) [.const (1/3)]
      (.call "b" (.dist 0) [.add (.const (1/4)) (.mul (.var 0) (.const (1/2)))]
        (.call "y" (.dist 0)
            [.add (.const (1/8)) (.add (.mul (.var 0) (.const (1/2))) (.mul (.var 1) (.const (1/4))))]
          (.ret (.add (.var 0) (.var 1))))))

/-- the constraint `{y: 1}` -/
def initExObs : CM := .node (.cons "y" (.leaf (.num 1)) .nil)

/-- proposal for `a` only (a strict subset of the latents): `a ~ coin(3/5)` -/
def initExQa : GF := .fn (.call "a" (.dist 0) [.const (3/5)] (.ret (.var 0)))

/-- proposal for `b` only (the latent that depends on the other one): `b ~ coin(2/5)` -/
def initExQb : GF := .fn (.call "b" (.dist 0) [.const (2/5)] (.ret (.var 0)))

/-- proposal for both latents: `a ~ coin(3/5); b ~ coin(1/2 + a/4)` -/
def initExQab : GF :=
  .fn (.call "a" (.dist 0) [.const (3/5)]
      (.call "b" (.dist 0) [.add (.const (1/2)) (.mul (.var 0) (.const (1/4)))] (.ret (.var 0))))

def initExY (a b y : Rat) : CM :=
  .node (.cons "a" (.leaf (.num a)) (.cons "b" (.leaf (.num b)) (.cons "y" (.leaf (.num y)) .nil)))

/-- the eight complete choice maps of the target -/
def initExYs : List CM :=
  [initExY 0 0 0, initExY 0 0 1, initExY 0 1 0, initExY 0 1 1,
   initExY 1 0 0, initExY 1 0 1, initExY 1 1 0, initExY 1 1 1]

/-- the choice maps of the three proposals -/
def initExZa : List CM :=
  [.node (.cons "a" (.leaf (.num 0)) .nil), .node (.cons "a" (.leaf (.num 1)) .nil)]
def initExZb : List CM :=
  [.node (.cons "b" (.leaf (.num 0)) .nil), .node (.cons "b" (.leaf (.num 1)) .nil)]
def initExZab : List CM :=
  [.node (.cons "a" (.leaf (.num 0)) (.cons "b" (.leaf (.num 0)) .nil)),
   .node (.cons "a" (.leaf (.num 0)) (.cons "b" (.leaf (.num 1)) .nil)),
   .node (.cons "a" (.leaf (.num 1)) (.cons "b" (.leaf (.num 0)) .nil)),
   .node (.cons "a" (.leaf (.num 1)) (.cons "b" (.leaf (.num 1)) .nil))]

/-- a proposal that ALSO proposes the observed address `y` (overlap with the constraints) -/
def initExQay : GF :=
  .fn (.call "a" (.dist 0) [.const (3/5)] (.call "y" (.dist 0) [.const (1/2)] (.ret (.var 0))))

/-- a proposal that does NOT dominate the target: `a ~ coin(1)` never proposes `a = 0` -/
def initExQa1 : GF := .fn (.call "a" (.dist 0) [.const 1] (.ret (.var 0)))

/-- one time step of a state-space model, argument = previous state:
    `x ~ coin(1/4 + prev/2); y ~ coin(1/8 + x/2); return x` -/
def seqExStep : GF :=
  .fn (.call "x" (.dist 0) [.add (.const (1/4)) (.mul (.var 0) (.const (1/2)))]
      (.call "y" (.dist 0) [.add (.const (1/8)) (.mul (.var 1) (.const (1/2)))] (.ret (.var 1))))

def seqExY (x y : Rat) : CM :=
  .node (.cons "x" (.leaf (.num x)) (.cons "y" (.leaf (.num y)) .nil))

def seqExYs : List CM := [seqExY 0 0, seqExY 0 1, seqExY 1 0, seqExY 1 1]

/-- a stage of the sequence model observing `y = o`; resampling when the total weight is below a
    threshold that is never 0 -/
def seqExStage (o : Rat) : RvStage Rat where
  target := seqExStep
  argsOf := fun r => [(r.map (·.2)).getD (.num 0)]
  obs := .node (.cons "y" (.leaf (.num o)) .nil)
  ys := fun _ => seqExYs
  proposal := none
  Z := fun _ => []
  constraintsSecond := true
  trigger := fun ws => decide (sumK ws ≠ 0) && decide (sumK ws < 1/2)

/-- proposal of the sequence model for the latent `x`: `x ~ coin(3/5)` -/
def seqExQ : GF := .fn (.call "x" (.dist 0) [.const (3/5)] (.ret (.var 0)))

def seqExZ : List CM :=
  [.node (.cons "x" (.leaf (.num 0)) .nil), .node (.cons "x" (.leaf (.num 1)) .nil)]

/-- the stage with the custom extension proposal `seqExQ` (merge order of `extend`) -/
def seqExStageQ (o : Rat) : RvStage Rat where
  target := seqExStep
  argsOf := fun r => [(r.map (·.2)).getD (.num 0)]
  obs := .node (.cons "y" (.leaf (.num o)) .nil)
  ys := fun _ => seqExYs
  proposal := some (seqExQ, fun _ => [])
  Z := fun _ => seqExZ
  constraintsSecond := false
  trigger := fun ws => decide (sumK ws ≠ 0) && decide (sumK ws < 1/2)

end Instances

end Genjax.Smc
