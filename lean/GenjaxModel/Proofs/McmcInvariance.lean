import GenjaxModel.Proofs.Mcmc
import Mathlib.Algebra.BigOperators.Group.Finset.Basic
import Mathlib.Algebra.BigOperators.Ring.Finset
import Mathlib.Algebra.Order.BigOperators.Ring.Finset
/-!
  C09, the step from DETAILED BALANCE to INVARIANCE, with the rejection mass on the diagonal
  (finite state spaces).

  `mh` (src/genjax/inference/mcmc.py) proposes with `regenerate`, accepts with probability
  `min(1, w)` and otherwise RETURNS THE INPUT TRACE: the transition kernel is the off-diagonal
  "propose and accept" part `A x y` completed by the rejection mass `1 − Σ_{z ≠ x} A x z` at `x`.
  `withRejection S A` is that completion over a finite set of states `S`.  Proved for every finite
  `S`, every `π` and every off-diagonal part `A`:
  * rows of the completed kernel sum to 1 (`withRejection_row_sum`);
  * if `A` is in detailed balance with `π` off the diagonal, so is the completed kernel everywhere
    (`withRejection_reversible`);
  * a kernel in detailed balance with `π` whose rows sum to 1 leaves `π` invariant:
    `Σ_x π x · P x y = π y` (`invariant_of_reversible`), hence after any number of steps
    (`invariant_iterate`);
  * the Metropolis–Hastings off-diagonal part `q x y · min(1, π y q y x / (π x q x y))` is in detailed
    balance for NON-NEGATIVE (not only positive) `π`, `q` (`mhOff_reversible`), its completion is a
    stochastic matrix (`mhKernel_nonneg`, `mhKernel_row_sum`) and leaves `π` invariant
    (`mhKernel_invariant`).
-/
namespace Genjax.Mcmc
open Finset
set_option linter.unusedSectionVars false

section Generic
variable {K : Type} [Field K] {σ : Type} [DecidableEq σ]

/-- complete an off-diagonal "propose and accept" kernel with the rejection mass on the diagonal -/
def withRejection (S : Finset σ) (A : σ → σ → K) (x y : σ) : K :=
  if x = y then 1 - ∑ z ∈ S.erase x, A x z else A x y

/-- one step of a kernel applied to a (sub-)distribution over `S` -/
def pushK (S : Finset σ) (P : σ → σ → K) (μ : σ → K) (y : σ) : K := ∑ x ∈ S, μ x * P x y

theorem withRejection_off (S : Finset σ) (A : σ → σ → K) {x y : σ} (h : x ≠ y) :
    withRejection S A x y = A x y := by
  simp [withRejection, h]

theorem withRejection_row_sum (S : Finset σ) (A : σ → σ → K) (x : σ) (hx : x ∈ S) :
    ∑ y ∈ S, withRejection S A x y = 1 := by
  rw [← Finset.add_sum_erase S _ hx]
  have h : ∑ y ∈ S.erase x, withRejection S A x y = ∑ y ∈ S.erase x, A x y := by
    apply Finset.sum_congr rfl
    intro y hy
    exact withRejection_off S A (Finset.ne_of_mem_erase hy).symm
  rw [h]
  simp [withRejection]

theorem withRejection_reversible (S : Finset σ) (A : σ → σ → K) (π : σ → K)
    (hA : ∀ x ∈ S, ∀ y ∈ S, x ≠ y → π x * A x y = π y * A y x) (x y : σ) (hx : x ∈ S) (hy : y ∈ S) :
    π x * withRejection S A x y = π y * withRejection S A y x := by
  by_cases h : x = y
  · subst h; rfl
  · rw [withRejection_off S A h, withRejection_off S A (Ne.symm h)]
    exact hA x hx y hy h

/-- detailed balance + unit row sums ⇒ invariance -/
theorem invariant_of_reversible (S : Finset σ) (P : σ → σ → K) (π : σ → K)
    (hrev : ∀ x ∈ S, ∀ y ∈ S, π x * P x y = π y * P y x) (hrow : ∀ x ∈ S, ∑ y ∈ S, P x y = 1)
    (y : σ) (hy : y ∈ S) : pushK S P π y = π y := by
  unfold pushK
  calc ∑ x ∈ S, π x * P x y = ∑ x ∈ S, π y * P y x :=
        Finset.sum_congr rfl (fun x hx => hrev x hx y hy)
    _ = π y * ∑ x ∈ S, P y x := by rw [Finset.mul_sum]
    _ = π y := by rw [hrow y hy, mul_one]

/-- … hence after any number of steps (on `S`) -/
theorem invariant_iterate (S : Finset σ) (P : σ → σ → K) (π : σ → K)
    (hrev : ∀ x ∈ S, ∀ y ∈ S, π x * P x y = π y * P y x) (hrow : ∀ x ∈ S, ∑ y ∈ S, P x y = 1)
    (n : Nat) :
    ∀ y ∈ S, (pushK S P)^[n] π y = π y := by
  induction n with
  | zero => intro y _; rfl
  | succ n ih =>
    intro y hy
    rw [Function.iterate_succ_apply']
    have h : pushK S P ((pushK S P)^[n] π) y = pushK S P π y :=
      Finset.sum_congr rfl (fun x hx => by rw [ih x hx])
    rw [h]
    exact invariant_of_reversible S P π hrev hrow y hy

/-- the kernel `mh` realises: rejection-completed, reversible, invariant — from detailed balance of the
    off-diagonal part alone -/
theorem withRejection_invariant (S : Finset σ) (A : σ → σ → K) (π : σ → K)
    (hA : ∀ x ∈ S, ∀ y ∈ S, x ≠ y → π x * A x y = π y * A y x) (n : Nat) (y : σ) (hy : y ∈ S) :
    (pushK S (withRejection S A))^[n] π y = π y :=
  invariant_iterate S _ π (fun x hx y hy => withRejection_reversible S A π hA x y hx hy)
    (fun x hx => withRejection_row_sum S A x hx) n y hy

end Generic

section MH
variable {K : Type} [Field K] [LinearOrder K] [IsStrictOrderedRing K] {σ : Type} [DecidableEq σ]

/-- detailed balance of the MH acceptance probability for non-negative (possibly zero) masses;
    `x / 0 = 0` makes a zero-mass source accept with probability `min 1 0 = 0`, and the product with
    the zero mass is 0 either way -/
theorem mh_detailed_balance_nonneg (a b : K) (ha : 0 ≤ a) (hb : 0 ≤ b) :
    a * min 1 (b / a) = b * min 1 (a / b) := by
  rcases ha.eq_or_lt with ha0 | hapos
  · subst ha0; simp
  · rcases hb.eq_or_lt with hb0 | hbpos
    · subst hb0; simp
    · exact mh_detailed_balance a b hapos hbpos

/-- off-diagonal part of the Metropolis–Hastings kernel: propose `y` from `x`, accept with
    probability `min(1, π y q y x / (π x q x y))` -/
def mhOff (π : σ → K) (q : σ → σ → K) (x y : σ) : K :=
  q x y * min 1 ((π y * q y x) / (π x * q x y))

theorem mhOff_reversible (π : σ → K) (q : σ → σ → K) (hπ : ∀ x, 0 ≤ π x) (hq : ∀ x y, 0 ≤ q x y)
    (x y : σ) : π x * mhOff π q x y = π y * mhOff π q y x := by
  unfold mhOff
  have := mh_detailed_balance_nonneg (π x * q x y) (π y * q y x)
    (mul_nonneg (hπ x) (hq x y)) (mul_nonneg (hπ y) (hq y x))
  rw [← mul_assoc, ← mul_assoc]
  exact this

/-- the full MH transition kernel on the finite state set `S` -/
def mhKernel (S : Finset σ) (π : σ → K) (q : σ → σ → K) : σ → σ → K := withRejection S (mhOff π q)

theorem mhOff_nonneg (π : σ → K) (q : σ → σ → K) (hπ : ∀ x, 0 ≤ π x) (hq : ∀ x y, 0 ≤ q x y)
    (x y : σ) : 0 ≤ mhOff π q x y := by
  unfold mhOff
  apply mul_nonneg (hq x y)
  apply le_min zero_le_one
  exact div_nonneg (mul_nonneg (hπ y) (hq y x)) (mul_nonneg (hπ x) (hq x y))

theorem mhOff_le (π : σ → K) (q : σ → σ → K) (hq : ∀ x y, 0 ≤ q x y) (x y : σ) :
    mhOff π q x y ≤ q x y := by
  unfold mhOff
  calc q x y * min 1 ((π y * q y x) / (π x * q x y)) ≤ q x y * 1 :=
        mul_le_mul_of_nonneg_left (min_le_left _ _) (hq x y)
    _ = q x y := mul_one _

/-- the completed MH kernel is a stochastic matrix: every entry is non-negative when the proposal
    rows are (sub-)stochastic on `S` -/
theorem mhKernel_nonneg (S : Finset σ) (π : σ → K) (q : σ → σ → K) (hπ : ∀ x, 0 ≤ π x)
    (hq : ∀ x y, 0 ≤ q x y) (hrow : ∀ x ∈ S, ∑ y ∈ S, q x y ≤ 1) (x y : σ) (hx : x ∈ S) :
    0 ≤ mhKernel S π q x y := by
  unfold mhKernel withRejection
  split_ifs with h
  · have h1 : ∑ z ∈ S.erase x, mhOff π q x z ≤ ∑ z ∈ S.erase x, q x z :=
      Finset.sum_le_sum (fun z _ => mhOff_le π q hq x z)
    have h2 : ∑ z ∈ S.erase x, q x z ≤ ∑ z ∈ S, q x z :=
      Finset.sum_le_sum_of_subset_of_nonneg (Finset.erase_subset x S) (fun z _ _ => hq x z)
    have h3 := hrow x hx
    linarith
  · exact mhOff_nonneg π q hπ hq x y

theorem mhKernel_row_sum (S : Finset σ) (π : σ → K) (q : σ → σ → K) (x : σ) (hx : x ∈ S) :
    ∑ y ∈ S, mhKernel S π q x y = 1 := withRejection_row_sum S _ x hx

theorem mhKernel_reversible (S : Finset σ) (π : σ → K) (q : σ → σ → K) (hπ : ∀ x, 0 ≤ π x)
    (hq : ∀ x y, 0 ≤ q x y) (x y : σ) (hx : x ∈ S) (hy : y ∈ S) :
    π x * mhKernel S π q x y = π y * mhKernel S π q y x :=
  withRejection_reversible S _ π (fun x _ y _ _ => mhOff_reversible π q hπ hq x y) x y hx hy

/-- the posterior is invariant under any number of MH steps (finite state space, any proposal) -/
theorem mhKernel_invariant (S : Finset σ) (π : σ → K) (q : σ → σ → K) (hπ : ∀ x, 0 ≤ π x)
    (hq : ∀ x y, 0 ≤ q x y) (n : Nat) (y : σ) (hy : y ∈ S) :
    (pushK S (mhKernel S π q))^[n] π y = π y :=
  withRejection_invariant S _ π (fun x _ y _ _ => mhOff_reversible π q hπ hq x y) n y hy

end MH
end Genjax.Mcmc
