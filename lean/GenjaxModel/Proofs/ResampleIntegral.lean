import GenjaxModel.Proofs.Resample
import Mathlib.MeasureTheory.Integral.IntervalIntegral.Basic
/-!
  C12, the integration step: for a uniformly distributed offset `u ∈ [0,1]` the expected number of
  copies that systematic resampling gives to particle `i` is `N · w_i / Σ w`.

  * `integral_floor_sub`     : ∫₀¹ ⌊a − u⌋ du = a − 1   for every real `a`
  * `systematic_unbiased`    : ∫₀¹ copies_i(u) du = N · w_i / Σ w
  All integrability side conditions are proved (the integrands are antitone step functions).
-/

set_option linter.unusedSectionVars false
set_option linter.unusedVariables false

namespace Genjax.Resample
open MeasureTheory Set

/-- `u ↦ ⌊a − u⌋` is antitone -/
theorem antitone_floor_sub (a : ℝ) : Antitone fun u : ℝ => ((⌊a - u⌋ : ℤ) : ℝ) := by
  intro x y hxy
  exact Int.cast_le.mpr (Int.floor_le_floor (by linarith))

/-- hence interval integrable on every interval -/
theorem intervalIntegrable_floor_sub (a p q : ℝ) :
    IntervalIntegrable (fun u : ℝ => ((⌊a - u⌋ : ℤ) : ℝ)) volume p q :=
  (antitone_floor_sub a).intervalIntegrable

/-- on `(0, fract a)` the integrand is the constant `⌊a⌋` -/
theorem floor_sub_left (a u : ℝ) (h0 : 0 < u) (h1 : u < Int.fract a) : ⌊a - u⌋ = ⌊a⌋ := by
  rw [Int.floor_eq_iff]
  have := Int.self_sub_floor a
  have := Int.lt_floor_add_one a
  constructor <;> linarith

/-- on `(fract a, 1)` the integrand is the constant `⌊a⌋ − 1` -/
theorem floor_sub_right (a u : ℝ) (h0 : Int.fract a < u) (h1 : u < 1) : ⌊a - u⌋ = ⌊a⌋ - 1 := by
  rw [Int.floor_eq_iff]
  have := Int.self_sub_floor a
  have := Int.floor_le a
  push_cast
  constructor <;> linarith

/-- ∫₀¹ ⌊a − u⌋ du = a − 1 : split `[0,1]` at the fractional part of `a`. -/
theorem integral_floor_sub (a : ℝ) : ∫ u in (0:ℝ)..1, ((⌊a - u⌋ : ℤ) : ℝ) = a - 1 := by
  have hf0 : 0 ≤ Int.fract a := Int.fract_nonneg a
  have hf1 : Int.fract a ≤ 1 := (Int.fract_lt_one a).le
  rw [← intervalIntegral.integral_add_adjacent_intervals
    (intervalIntegrable_floor_sub a 0 (Int.fract a)) (intervalIntegrable_floor_sub a (Int.fract a) 1)]
  have hl : ∫ u in (0:ℝ)..Int.fract a, ((⌊a - u⌋ : ℤ) : ℝ) =
      ∫ u in (0:ℝ)..Int.fract a, ((⌊a⌋ : ℤ) : ℝ) :=
    intervalIntegral.integral_congr_Ioo_of_le hf0 fun u hu => by
      simp only [floor_sub_left a u hu.1 hu.2]
  have hr : ∫ u in Int.fract a..(1:ℝ), ((⌊a - u⌋ : ℤ) : ℝ) =
      ∫ u in Int.fract a..(1:ℝ), (((⌊a⌋ - 1 : ℤ) : ℤ) : ℝ) :=
    intervalIntegral.integral_congr_Ioo_of_le hf1 fun u hu => by
      simp only [floor_sub_right a u hu.1 hu.2]
  rw [hl, hr, intervalIntegral.integral_const, intervalIntegral.integral_const]
  have := Int.self_sub_floor a
  push_cast
  simp only [smul_eq_mul]
  nlinarith [this]

/-- on the open unit interval the copy count is a difference of two floor step functions
    (`systematic_count_formula` over ℝ, cast to ℝ) -/
theorem copies_eqOn (w : List ℝ) (n : ℕ) (hw : ∀ x ∈ w, 0 ≤ x) (hs : 0 < sum w)
    (i : ℕ) (hi : i < w.length) :
    EqOn (fun u : ℝ => (((copies (systematic w n u) i : ℕ) : ℤ) : ℝ))
      (fun u : ℝ =>
        ((⌊(n : ℝ) * ((cumsum (normalize w)).getD i 0) - u⌋ : ℤ) : ℝ) -
        ((⌊((n : ℝ) * ((cumsum (normalize w)).getD i 0) - (n : ℝ) * (w.getD i 0 / sum w)) - u⌋ : ℤ) : ℝ))
      (Ioo 0 1) := by
  intro u hu
  have := systematic_count_formula w n u hw hs hu.1 hu.2 i hi
  simp only [this, Int.cast_sub]
  rw [sub_right_comm]

/-- the copy count, as a function of the offset, is interval integrable on `[0,1]`
    (so the integral below is a genuine expectation, not the junk value `0`). -/
theorem intervalIntegrable_copies (w : List ℝ) (n : ℕ) (hw : ∀ x ∈ w, 0 ≤ x) (hs : 0 < sum w)
    (i : ℕ) (hi : i < w.length) :
    IntervalIntegrable (fun u : ℝ => (((copies (systematic w n u) i : ℕ) : ℤ) : ℝ)) volume 0 1 :=
  ((intervalIntegrable_floor_sub _ 0 1).sub (intervalIntegrable_floor_sub _ 0 1)).congr_uIoo
    (by rw [uIoo_of_le zero_le_one]; exact (copies_eqOn w n hw hs i hi).symm)

/-- for a uniform offset the expected number of copies of particle `i` under systematic
    resampling is `N · w_i / Σ w`. -/
theorem systematic_unbiased (w : List ℝ) (n : ℕ) (hw : ∀ x ∈ w, 0 ≤ x) (hs : 0 < sum w)
    (i : ℕ) (hi : i < w.length) :
    ∫ u in (0:ℝ)..1, (((copies (systematic w n u) i : ℕ) : ℤ) : ℝ) =
      (n : ℝ) * (w.getD i 0 / sum w) := by
  rw [intervalIntegral.integral_congr_Ioo_of_le zero_le_one (copies_eqOn w n hw hs i hi),
    intervalIntegral.integral_sub (intervalIntegrable_floor_sub _ 0 1)
      (intervalIntegrable_floor_sub _ 0 1), integral_floor_sub, integral_floor_sub]
  ring

end Genjax.Resample
