import GenjaxModel.Proofs.GfiGenLaw
import GenjaxModel.Proofs.GfiLawMain
/-!
  C02: the expected importance weight of `generate` as a SUM over the completions of the
  constraints:  `E[w] = Σ_{y ⊇ x} assessP y`  (`generateD_unbiased_sum`), obtained from
  `generateD_law` (proper weighting) and `simD_law_condFree` (the law of `simulate`).
-/
namespace Genjax
open Smc Smc.FinDist

section AgreeChoices
variable {K : Type} [Field K] {R : Type}

theorem ite_mul_ite_fd (a b : Bool) :
    (if a then (1 : K) else 0) * (if b then 1 else 0) = if (a && b) then 1 else 0 := by
  cases a <;> cases b <;> simp

theorem agree_find_aux (o : Option CM) (f : CM → K) (g : CM → Bool) (b : Bool)
    (h : ∀ x, f x = if g x then 1 else 0) :
    ((match o with
      | none => (1 : K)
      | some x => f x) : K) * (if b then (1 : K) else 0)
    = if ((match o with
          | none => true
          | some x => g x) && b) then (1 : K) else 0 := by
  cases o with
  | none => simp
  | some x =>
    simp only []
    rw [h x]
    exact ite_mul_ite_fd _ _

mutual
  /-- on a Cond-free trace, agreement with a constraint is a function of the trace's choice map -/
  theorem Tr.agS_of_choices : (t : Tr R) → t.condFree = true → ∀ (x y : CM),
      t.choices = some y → t.agS (K := K) x = if y.agreeWith x then 1 else 0
    | .leaf v' s, _, x, y, h => by
        simp only [Tr.choices, Option.some.injEq] at h
        subst h
        cases x <;> simp [Tr.agS, CM.agreeWith]
    | .fn subs r s, hc, x, y, h => by
        simp only [Tr.condFree] at hc
        simp only [Tr.choices, Option.map_eq_some_iff] at h
        obtain ⟨ys, hys, rfl⟩ := h
        cases x with
        | node xs =>
          simp only [Tr.agS, CM.agreeWith]
          exact TrL.agreeAll_of_choices subs hc xs ys hys
        | leaf v => simp [Tr.agS, CM.agreeWith]
        | lanes xs => simp [Tr.agS, CM.agreeWith]
    | .vec lanes, hc, x, y, h => by
        simp only [Tr.condFree] at hc
        simp only [Tr.choices, Option.map_eq_some_iff] at h
        obtain ⟨ys, hys, rfl⟩ := h
        cases x with
        | lanes xs =>
          simp only [Tr.agS, CM.agreeWith]
          exact TrL.agreePos_of_choices lanes hc xs ys hys
        | leaf v => simp [Tr.agS, CM.agreeWith]
        | node xs => simp [Tr.agS, CM.agreeWith]
    | .scan steps c, hc, x, y, h => by
        simp only [Tr.condFree] at hc
        simp only [Tr.choices, Option.map_eq_some_iff] at h
        obtain ⟨ys, hys, rfl⟩ := h
        cases x with
        | lanes xs =>
          simp only [Tr.agS, CM.agreeWith]
          exact TrL.agreePos_of_choices steps hc xs ys hys
        | leaf v => simp [Tr.agS, CM.agreeWith]
        | node xs => simp [Tr.agS, CM.agreeWith]
    | .cond c a b, hc, _, _, _ => by simp [Tr.condFree] at hc
  theorem TrL.agreeAll_of_choices : (l : TrL R) → l.condFree = true → ∀ (xs ys : CML),
      l.choices = some ys → l.agreeAll (K := K) xs = if ys.agreeAllWith xs then 1 else 0
    | .nil, _, xs, ys, h => by
        simp only [TrL.choices, Option.some.injEq] at h
        subst h
        simp [TrL.agreeAll, CML.agreeAllWith]
    | .cons k t rest, hc, xs, ys, h => by
        simp only [TrL.condFree, Bool.and_eq_true] at hc
        simp only [TrL.choices, Option.bind_eq_bind, Option.pure_def, Option.bind_eq_some_iff,
          Option.some.injEq] at h
        obtain ⟨c, hcx, r, hr, rfl⟩ := h
        simp only [TrL.agreeAll, CML.agreeAllWith]
        rw [TrL.agreeAll_of_choices rest hc.2 xs r hr]
        exact agree_find_aux (xs.find? k) (fun x => t.agS x) (fun x => c.agreeWith x) _
          (fun x => Tr.agS_of_choices t hc.1 x c hcx)
  theorem TrL.agreePos_of_choices : (l : TrL R) → l.condFree = true → ∀ (xs ys : CML),
      l.choices = some ys → l.agreePos (K := K) xs = if ys.agreePosWith xs then 1 else 0
    | .nil, _, xs, ys, h => by
        simp only [TrL.choices, Option.some.injEq] at h
        subst h
        cases xs <;> simp [TrL.agreePos, CML.agreePosWith]
    | .cons k t rest, hc, xs, ys, h => by
        simp only [TrL.condFree, Bool.and_eq_true] at hc
        simp only [TrL.choices, Option.bind_eq_bind, Option.pure_def, Option.bind_eq_some_iff,
          Option.some.injEq] at h
        obtain ⟨c, hcx, r, hr, rfl⟩ := h
        cases xs with
        | nil => simp [TrL.agreePos, CML.agreePosWith]
        | cons k' x xr =>
          simp only [TrL.agreePos, CML.agreePosWith]
          rw [Tr.agS_of_choices t hc.1 x c hcx, TrL.agreePos_of_choices rest hc.2 xr r hr]
          exact ite_mul_ite_fd _ _
end

end AgreeChoices

section CF
variable {K : Type} [Field K] {R : Type} [Zero R] [Add R] [Neg R] (pd : PD K) (P : Prims R)

mutual
  theorem simD_condFree_gf : (g : GF) → g.condFree = true → ∀ (args : List Val) (t : Tr R),
      some t ∈ supp (g.simD pd P args) → t.condFree = true
    | .dist d, _, args, t, h => by
        simp only [GF.simD, supp, List.map_map, List.mem_map, Function.comp, Option.some.injEq] at h
        obtain ⟨v, _, rfl⟩ := h
        rfl
    | .fn body, hg, args, t, h => by
        simp only [GF.condFree] at hg
        simp only [GF.simD] at h
        obtain ⟨r, hr, h⟩ := mem_supp_bindO h
        cases mem_supp_pureO h
        simp only [Tr.condFree]
        exact simD_condFree_body body hg _ _ _ r rfl hr
    | .vmap g axes n, hg, args, t, h => by
        simp only [GF.condFree] at hg
        simp only [GF.simD] at h
        obtain ⟨ts, hts, h⟩ := mem_supp_bindO h
        cases mem_supp_pureO h
        simp only [Tr.condFree]
        exact TrL.condFree_ofList _ (forLanesD_forall_fd _ (fun t => t.condFree = true)
          (fun i _ b hb => simD_condFree_gf g hg _ b hb) _ _ _ hts)
    | .scan g n, hg, args, t, h => by
        simp only [GF.condFree] at hg
        simp only [GF.simD] at h
        obtain ⟨r, hr, h⟩ := mem_supp_bindO h
        cases mem_supp_pureO h
        simp only [Tr.condFree]
        refine TrL.condFree_ofList _ (forStepsD_forall_fd _ (fun t => t.condFree = true)
          (fun c i _ p hp => ?_) _ _ _ _ hr)
        obtain ⟨t, ht, hp⟩ := mem_supp_bindO hp
        cases mem_supp_pureO hp
        exact simD_condFree_gf g hg _ _ ht
    | .cond _ _, hg, _, _, _ => by simp [GF.condFree] at hg
  theorem simD_condFree_body : (b : Body) → b.condFree = true → ∀ (env : List Val) (subs : TrL R)
      (s : R) (r : TrL R × Val × R), subs.condFree = true →
      some r ∈ supp (b.simD pd P env subs s) → r.1.condFree = true
    | .ret e, _, env, subs, s, r, hs, h => by
        simp only [Body.simD] at h
        cases mem_supp_pureO h
        exact hs
    | .call addr g es rest, hb, env, subs, s, r, hs, h => by
        simp only [Body.condFree, Bool.and_eq_true] at hb
        simp only [Body.simD] at h
        split at h
        · cases mem_supp_failO h
        · obtain ⟨t, ht, h⟩ := mem_supp_bindO h
          exact simD_condFree_body rest hb.2 _ _ _ r
            (TrL.condFree_snoc _ _ _ hs (simD_condFree_gf g hb.1 _ _ ht)) h
end

end CF

section Sum
variable {K : Type} [Field K] {R : Type}

theorem sumK_zeros_fd {α : Type} (l : List α) : sumK (l.map fun _ => (0 : K)) = 0 := by
  rw [sumK_map_const, mul_zero]

theorem sumK_ite_eq_fd {α : Type} [DecidableEq α] (ys : List α) (hnd : ys.Nodup) (c : α)
    (hc : c ∈ ys) (v : K) : sumK (ys.map fun y => if c = y then v else 0) = v := by
  induction ys with
  | nil => simp at hc
  | cons a ys ih =>
    have hnd' := List.nodup_cons.mp hnd
    simp only [List.map_cons, sumK_cons]
    by_cases h : c = a
    · subst h
      simp only [if_true]
      have hz : sumK (ys.map fun y => if c = y then v else 0) = 0 := by
        have : ys.map (fun y => if c = y then v else (0 : K)) = ys.map (fun _ => (0 : K)) := by
          apply List.map_congr_left
          intro y hy
          rw [if_neg]
          rintro rfl
          exact hnd'.1 hy
        rw [this, sumK_zeros_fd]
      rw [hz, add_zero]
    · rw [if_neg h, zero_add]
      exact ih hnd'.2 (by
        rcases List.mem_cons.mp hc with rfl | h'
        · exact absurd rfl h
        · exact h')

/-- an expectation splits over the (finitely many, distinct) choice maps the outcomes can have -/
theorem E_split_choices (d : FinDist K (Option (Tr R))) (f : Tr R → K) (ys : List CM)
    (hnd : ys.Nodup) (hcov : ∀ t, some t ∈ supp d → ∃ y ∈ ys, t.choices = some y) :
    E d (optK f)
      = sumK (ys.map fun y => E d (optK fun t => if t.choices = some y then f t else 0)) := by
  induction d with
  | nil =>
    simp only [E_nil]
    exact (sumK_zeros_fd ys).symm
  | cons op d ih =>
    obtain ⟨o, p⟩ := op
    have ih' := ih (fun t ht => hcov t (by
      simp only [supp, List.map_cons, List.mem_cons] at ht ⊢
      exact Or.inr ht))
    simp only [E_cons]
    rw [sumK_map_add, sumK_map_mul_left, ← ih']
    congr 2
    cases o with
    | none =>
      simp only [optK_none]
      exact (sumK_zeros_fd ys).symm
    | some t =>
      obtain ⟨y0, hy0, ht⟩ := hcov t (by simp [supp])
      simp only [optK_some, ht, Option.some.injEq]
      exact (sumK_ite_eq_fd ys hnd y0 hy0 (f t)).symm

end Sum

section Main
variable {K : Type} [Field K] {R : Type} [AddCommGroup R]
variable (pd : PD K) (P : Prims R) (cfg : Cfg)

/-- each complete choice map `y` contributes to the marginal likelihood of the constraints `x`
    exactly its density if it is a completion of `x`, and nothing otherwise -/
theorem simD_agree_pointwise (hpd : pd.WF) (g : GF) (hcf : g.condFree = true) (x y : CM)
    (args : List Val) (hs : g.skel = some y.skel) :
    E (g.simD pd P args) (optK fun t => if t.choices = some y then t.agS x else 0)
      = if y.agreeWith x then pmassOf (g.assessP pd y args) else 0 := by
  have h1 : E (g.simD pd P args) (optK fun t => if t.choices = some y then t.agS x else 0)
      = E (g.simD pd P args)
          (optK (choicesAre y fun _ => if y.agreeWith x then (1 : K) else 0)) := by
    apply E_optK_congr
    intro t ht
    simp only [choicesAre]
    split
    · rename_i hy
      exact Tr.agS_of_choices t (simD_condFree_gf pd P g hcf args t ht) x y hy
    · rfl
  rw [h1, simD_law_condFree pd P hpd g hcf args y _ hs]
  cases g.assessP pd y args with
  | none => simp [massOf, pmassOf]
  | some pr => by_cases h : y.agreeWith x = true <;> simp [massOf, pmassOf, h]

/-- **E[w] = Σ over the completions `y ⊇ x` of `assessP y`** (Cond-free programs): for any list `ys`
    of distinct choice maps of the program's shape that contains every choice map `simulate` can
    produce, the expected importance weight of `generate` under the constraints `x` is the sum of
    the densities of those `y ∈ ys` that are completions of `x`. -/
theorem generateD_unbiased_sum (hpd : pd.WF) (g : GF) (hcf : g.condFree = true)
    (hv : g.vmapOK cfg = true) (x : CM) (args : List Val) (ys : List CM) (hnd : ys.Nodup)
    (hcov : ∀ t, some t ∈ supp (g.simD pd P args) → ∃ y ∈ ys, t.choices = some y)
    (hshape : ∀ y ∈ ys, g.skel = some y.skel) :
    E (g.generateD pd P cfg (some x) args) (optK fun tw => tw.2)
      = sumK (ys.map fun y => if y.agreeWith x then pmassOf (g.assessP pd y args) else 0) := by
  have h1 := generateD_law pd P cfg hpd g hcf hv (some x) args (fun _ => 1)
  simp only [mul_one] at h1
  rw [h1, E_split_choices _ _ ys hnd hcov]
  congr 1
  apply List.map_congr_left
  intro y hy
  exact simD_agree_pointwise pd P hpd g hcf x y args (hshape y hy)

/-- agreement of a complete choice map with an optional constraint -/
def agO (ox : Option CM) (y : CM) : K :=
  match ox with
  | none => 1
  | some x => if y.agreeWith x then 1 else 0

/-- proper weighting, outcome by outcome: the weighted probability that `generate` produces the
    choice map `y` (and a return value weighted by `ψ`) is the density `assessP` assigns to `y` if
    `y` is a completion of the constraints, and 0 otherwise -/
theorem generateD_pointwise (hpd : pd.WF) (g : GF) (hcf : g.condFree = true)
    (hv : g.vmapOK cfg = true) (ox : Option CM) (args : List Val) (y : CM) (ψ : Val → K)
    (hs : g.skel = some y.skel) :
    E (g.generateD pd P cfg ox args) (optK fun tw => tw.2 * choicesAre y ψ tw.1)
      = agO ox y * massOf (g.assessP pd y args) ψ := by
  rw [generateD_law pd P cfg hpd g hcf hv ox args (choicesAre y ψ),
    ← simD_law_condFree pd P hpd g hcf args y ψ hs, ← E_optK_mul_left]
  apply E_optK_congr
  intro t ht
  simp only [choicesAre]
  split
  · rename_i hy
    congr 1
    cases ox with
    | none => rfl
    | some x => exact Tr.agS_of_choices t (simD_condFree_gf pd P g hcf args t ht) x y hy
  · simp only [mul_zero]

/-- executable form of the covering hypothesis of `generateD_unbiased_sum` -/
def coversB (d : FinDist K (Option (Tr R))) (ys : List CM) : Bool :=
  d.all fun op => match op.1 with
    | none => true
    | some t => ys.any fun y => decide (t.choices = some y)

omit [Field K] [AddCommGroup R] in
theorem covers_of_coversB (d : FinDist K (Option (Tr R))) (ys : List CM) (h : coversB d ys = true) :
    ∀ t, some t ∈ supp d → ∃ y ∈ ys, t.choices = some y := by
  intro t ht
  simp only [supp, List.mem_map] at ht
  obtain ⟨op, hop, hop1⟩ := ht
  simp only [coversB, List.all_eq_true] at h
  have := h op hop
  rw [hop1] at this
  simpa using this

end Main

end Genjax
