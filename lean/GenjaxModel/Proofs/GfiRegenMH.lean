import GenjaxModel.Proofs.GfiRegenLaw
import GenjaxModel.Proofs.GfiRegenLink
import GenjaxModel.Proofs.GfiRegenSplit
import GenjaxModel.Proofs.GfiRegenCoh
import GenjaxModel.Proofs.GfiRegenNonneg
import GenjaxModel.Proofs.GfiLawMain
import GenjaxModel.Proofs.GfiCohInv
import GenjaxModel.Proofs.Mcmc
import Mathlib.Tactic.LinearCombination
import Mathlib.Tactic.Ring
/-!
  `mh` on generative-function programs (C09 + C04), assembled:
    * `regenD_proposal_law`  P(regenerateD proposes x') = q(x → x')
    * `regenD_weight_law`    jointly with the weight: on {new choices = x'} the weight is
                             `unselMass x' * unselE t`
    * `regenW_mh_ratio`      weight · π(x) · q(x → x') = π(x') · q(x' → x)
    * `mh_gfi_detailed_balance`  π(x) · q(x → x') · α = π(x') · q(x' → x) · α'  in kernel form
  (Cond-free programs).
-/
namespace Genjax
open Smc Smc.FinDist

section Masses
variable {K : Type} [Field K] (pd : PD K)

/-- q-factor: the product of the masses of the SELECTED sites of `x` (0 if `assess` raises) -/
def selMass (g : GF) (x : CM) (s : Sel) (args : List Val) : K :=
  match g.assessS pd x s args with
  | none => 0
  | some o => o.1.1

/-- the product of the masses of the unselected sites of `x` (0 if `assess` raises) -/
def unselMass (g : GF) (x : CM) (s : Sel) (args : List Val) : K :=
  match g.assessS pd x s args with
  | none => 0
  | some o => o.1.2

/-- the joint density is the product of the two -/
theorem pmassOf_eq_sel_mul_unsel (g : GF) (x : CM) (s : Sel) (args : List Val) :
    pmassOf (g.assessP pd x args) = selMass pd g x s args * unselMass pd g x s args := by
  rw [assessP_eq_assessS pd g x s args]
  unfold selMass unselMass pmassOf
  cases g.assessS pd x s args <;> simp

end Masses

section Alg
variable {K : Type} [Field K] [LinearOrder K] [IsStrictOrderedRing K]

omit [IsStrictOrderedRing K] in
theorem accProb_eq_min (w : K) : accProb w = min 1 w := by
  unfold accProb
  split
  · rename_i h; rw [min_eq_right (le_of_lt h)]
  · rename_i h; rw [min_eq_left (not_lt.mp h)]

theorem accProb_zero : accProb (0 : K) = 0 := by
  unfold accProb; rw [if_pos zero_lt_one]

/-- the algebraic core of detailed balance with guarded reciprocals -/
theorem mh_core (B B' U U' : K) (hB : 0 ≤ B) (hB' : 0 ≤ B') (hU : B ≠ 0 → U * B = 1)
    (hU' : B' ≠ 0 → U' * B' = 1) : B * accProb (B' * U) = B' * accProb (B * U') := by
  by_cases h0 : B = 0
  · subst h0; simp [accProb_zero]
  by_cases h0' : B' = 0
  · subst h0'; simp [accProb_zero]
  have hBp : 0 < B := lt_of_le_of_ne hB (Ne.symm h0)
  have hBp' : 0 < B' := lt_of_le_of_ne hB' (Ne.symm h0')
  have e1 : U = 1 / B := eq_div_of_mul_eq h0 (hU h0)
  have e2 : U' = 1 / B' := eq_div_of_mul_eq h0' (hU' h0')
  rw [accProb_eq_min, accProb_eq_min, e1, e2, mul_one_div, mul_one_div]
  exact Mcmc.mh_detailed_balance B B' hBp hBp'

end Alg

section Laws
variable {K : Type} [Field K] {R : Type} [AddCommGroup R]
variable (e : R → K) (pd : PD K) (P : Prims R) (cfg : Cfg)

/-- **Joint law of the proposal and the weight**, in terms of the density (Cond-free programs): for a
    coherent old trace with choices `x`, and `x'` of the program's shape,
    `E[1{new choices = x'} Φ(retval, weight)]
       = 1{x, x' agree off the selection} · selMass(x') · Φ(r', unselMass(x') · unselE t)`. -/
theorem regenD_weight_law (hpd : pd.WF) (hsr : cfg.scanRegenDefined = true) (g : GF)
    (hcf : g.condFree = true) (t : Tr R) (a : List Val) (s : Sel) (x x' : CM) (args : List Val)
    (hc : g.Coh P a t) (hx : t.choices = some x) (hs : g.skel = some x.skel)
    (hs' : g.skel = some x'.skel) (Φ : Val → K → K) :
    E (g.regenerateD e pd P cfg t s args) (optK (chW x' Φ))
      = if CM.eqOff s x x' then
          (match g.assessS pd x' s args with
           | none => 0
           | some o => o.1.1 * Φ o.2 (o.1.2 * g.unselE e t s))
        else 0 := by
  rw [regenD_law e pd P cfg hpd g hcf t s args x' Φ hs',
    regenW_eq e pd P cfg hsr g hcf t a s x x' args hc hx hs hs']
  by_cases hE : CM.eqOff s x x' = true
  · simp only [hE, if_true]
    cases g.assessS pd x' s args <;> rfl
  · simp only [hE, Bool.false_eq_true, if_false]; rfl

/-- **The proposal law**: P(regenerate proposes `x'`) = q(x → x') = the product of the masses of the
    selected sites of `x'` (parameters computed from `x'`) if `x'` agrees with `x` off the selection,
    and 0 otherwise. -/
theorem regenD_proposal_law (hpd : pd.WF) (hsr : cfg.scanRegenDefined = true) (g : GF)
    (hcf : g.condFree = true) (t : Tr R) (a : List Val) (s : Sel) (x x' : CM) (args : List Val)
    (hc : g.Coh P a t) (hx : t.choices = some x) (hs : g.skel = some x.skel)
    (hs' : g.skel = some x'.skel) :
    E (g.regenerateD e pd P cfg t s args)
        (optK fun r => if r.1.choices = some x' then 1 else 0)
      = if CM.eqOff s x x' then selMass pd g x' s args else 0 := by
  have := regenD_weight_law e pd P cfg hpd hsr g hcf t a s x x' args hc hx hs hs' (fun _ _ => 1)
  unfold chW at this
  rw [this]
  unfold selMass
  cases g.assessS pd x' s args <;> simp

variable (hinv : ∀ d a v, pd.pm d a v ≠ 0 → e (-(P.lp d a v)) * pd.pm d a v = 1)

include hinv in
/-- **The weight is the Metropolis-Hastings ratio** (cross-multiplied, unchanged arguments): if the
    kernel specification reaches `x'` from the coherent trace `t` (choices `x`, unselected part of
    non-zero mass) with proposal mass `q` and weight `W`, then `q = q(x → x')` and
    `W · π(x) · q(x → x') = π(x') · q(x' → x)`, `π` the `assessP` mass and `q(x' → x) = selMass x`. -/
theorem regenW_mh_ratio (hsr : cfg.scanRegenDefined = true) (g : GF) (hcf : g.condFree = true)
    (t : Tr R) (s : Sel) (x x' : CM) (args : List Val)
    (hc : g.Coh P args t) (hx : t.choices = some x) (hs : g.skel = some x.skel)
    (hs' : g.skel = some x'.skel) (hne : unselMass pd g x s args ≠ 0)
    (q W : K) (r : Val) (h : g.regenW e pd cfg t s x' args = some ((q, W), r)) :
    CM.eqOff s x x' = true ∧ q = selMass pd g x' s args ∧
    W * pmassOf (g.assessP pd x args) * q
      = pmassOf (g.assessP pd x' args) * selMass pd g x s args := by
  rw [regenW_eq e pd P cfg hsr g hcf t args s x x' args hc hx hs hs'] at h
  obtain ⟨A, B, hAB, hU⟩ := coh_assessS e pd P hinv g hcf args t x s hc hx
  by_cases hE : CM.eqOff s x x' = true
  · rw [if_pos hE] at h
    rw [pmassOf_eq_sel_mul_unsel pd g x s args, pmassOf_eq_sel_mul_unsel pd g x' s args]
    unfold unselMass at hne
    unfold selMass unselMass
    rw [hAB] at hne ⊢
    cases h' : g.assessS pd x' s args with
    | none => rw [h'] at h; simp at h
    | some o =>
      rw [h'] at h
      simp only [Option.map_some, addU, Option.some.injEq, Prod.mk.injEq] at h
      obtain ⟨⟨rfl, rfl⟩, rfl⟩ := h
      refine ⟨hE, rfl, ?_⟩
      have := hU hne
      simp only
      linear_combination (o.1.2 * A * o.1.1) * this
  · rw [if_neg hE] at h; cases h

end Laws

section DB
variable {K : Type} [Field K] [LinearOrder K] [IsStrictOrderedRing K] {R : Type} [AddCommGroup R]
variable (e : R → K) (pd : PD K) (P : Prims R) (cfg : Cfg)

/-- the mass the `mh` kernel moves from the trace `t` to the choice map `x'` by an ACCEPTED
    proposal: `E[1{proposal = x'} · min(1, weight)]` -/
def mhAcc (g : GF) (t : Tr R) (s : Sel) (args : List Val) (x' : CM) : K :=
  E (g.regenerateD e pd P cfg t s args) (optK (chW x' fun _ w => accProb w))

/-- **Detailed balance of `mh` on a generative-function program** (Cond-free, unchanged arguments):
    `π(x) · K(x → x') = π(x') · K(x' → x)` with `π` the program's joint density (`assessP`) and
    `K(x → x') = E[1{regenerate proposes x'} · min(1, w)]` — i.e.
    `π(x) q(x→x') min(1, w) = π(x') q(x'→x) min(1, w')`.  No positivity assumption on `π`. -/
theorem mh_gfi_detailed_balance (hpd : pd.WF) (hpos : ∀ d a v, 0 ≤ pd.pm d a v)
    (hinv : ∀ d a v, pd.pm d a v ≠ 0 → e (-(P.lp d a v)) * pd.pm d a v = 1)
    (hsr : cfg.scanRegenDefined = true) (g : GF) (hcf : g.condFree = true) (s : Sel)
    (args : List Val) (t t' : Tr R) (x x' : CM)
    (hc : g.Coh P args t) (hc' : g.Coh P args t')
    (hx : t.choices = some x) (hx' : t'.choices = some x')
    (hs : g.skel = some x.skel) (hs' : g.skel = some x'.skel) :
    pmassOf (g.assessP pd x args) * mhAcc e pd P cfg g t s args x'
      = pmassOf (g.assessP pd x' args) * mhAcc e pd P cfg g t' s args x := by
  unfold mhAcc
  rw [regenD_weight_law e pd P cfg hpd hsr g hcf t args s x x' args hc hx hs hs',
    regenD_weight_law e pd P cfg hpd hsr g hcf t' args s x' x args hc' hx' hs' hs,
    CM.eqOff_symm s x' x]
  obtain ⟨A, B, hAB, hU⟩ := coh_assessS e pd P hinv g hcf args t x s hc hx
  obtain ⟨A', B', hAB', hU'⟩ := coh_assessS e pd P hinv g hcf args t' x' s hc' hx'
  have hn := assessS_nonneg pd hpos g x s args _ hAB
  have hn' := assessS_nonneg pd hpos g x' s args _ hAB'
  simp only at hn hn'
  rw [assessP_eq_assessS pd g x s args, assessP_eq_assessS pd g x' s args, hAB, hAB']
  by_cases hE : CM.eqOff s x x' = true
  · simp only [hE, if_true, Option.map_some, pmassOf]
    have := mh_core B B' (g.unselE e t s) (g.unselE e t' s) hn.2 hn'.2 hU hU'
    linear_combination (A * A') * this
  · simp [hE]

end DB

/-! ## concrete instances (exact rationals): all masses are powers of 1/2, scores integers -/

/-- "level" of a value: the mass is `2^(-level)` (level 0 = outside the support).  One primitive on
    `{0,1,2,3}` whose masses `1/2, 1/4, 1/8, 1/8` are REVERSED when the parameter is non-zero. -/
def mhExLvl (a : List Val) (v : Val) : Int :=
  if (a.getD 0 .nil).toRat = 0 then
    (if v = .num 0 then 1 else if v = .num 1 then 2 else if v = .num 2 then 3
     else if v = .num 3 then 3 else 0)
  else
    (if v = .num 0 then 3 else if v = .num 1 then 3 else if v = .num 2 then 2
     else if v = .num 3 then 1 else 0)

def mhExPD : PD Rat where
  support := fun _ _ => [.num 0, .num 1, .num 2, .num 3]
  pm := fun _ a v =>
    if mhExLvl a v = 1 then 1/2 else if mhExLvl a v = 2 then 1/4
    else if mhExLvl a v = 3 then 1/8 else 0

/-- log densities base 2 -/
def mhExP : Prims Int := ⟨fun _ a v => -(mhExLvl a v), fun _ _ => .num 0⟩

/-- the exponential base 2 on the scores that occur -/
def mhExE : Int → Rat := fun n => if n = 1 then 2 else if n = 2 then 4 else if n = 3 then 8 else 1

theorem mhExPD_wf : mhExPD.WF := by
  constructor
  · intro d a; simp [mhExPD]
  · intro d a v hv
    simp only [mhExPD, List.mem_cons, List.not_mem_nil, or_false, not_or] at hv
    simp [mhExPD, mhExLvl, hv.1, hv.2.1, hv.2.2.1, hv.2.2.2]

theorem mhExPD_nonneg : ∀ d a v, 0 ≤ mhExPD.pm d a v := by
  intro d a v
  simp only [mhExPD]
  split_ifs <;> norm_num

theorem mhEx_inv : ∀ d a v, mhExPD.pm d a v ≠ 0 →
    mhExE (-(mhExP.lp d a v)) * mhExPD.pm d a v = 1 := by
  intro d a v h
  simp only [mhExPD, mhExP, mhExE, neg_neg] at h ⊢
  generalize mhExLvl a v = l at h ⊢
  split_ifs at h ⊢ <;> first | (exfalso; exact h rfl) | norm_num | (exfalso; omega)

/-- two sites, the second depends on the first: `x ~ D(0); y ~ D(x); return x + y` -/
def mhExG : GF :=
  .fn (.call "x" (.dist 0) [.const 0]
      (.call "y" (.dist 0) [.var 1] (.ret (.add (.var 1) (.var 2)))))

def mhExX (x y : Rat) : CM :=
  .node (.cons "x" (.leaf (.num x)) (.cons "y" (.leaf (.num y)) .nil))

/-- a Scan whose step has two sites: `a ~ D(carry); b ~ D(a)`; the new carry is `b` -/
def mhExStep : GF :=
  .fn (.call "a" (.dist 0) [.var 0]
      (.call "b" (.dist 0) [.var 2] (.ret (.pair (.var 3) (.var 3)))))

def mhExScan : GF := .scan mhExStep 2

def mhExScanArgs : List Val := [.num 0, Val.ofList [.num 0, .num 0]]

def mhExStepX (a b : Rat) : CM :=
  .node (.cons "a" (.leaf (.num a)) (.cons "b" (.leaf (.num b)) .nil))

def mhExScanX (a b c d : Rat) : CM :=
  .lanes (.cons "" (mhExStepX a b) (.cons "" (mhExStepX c d) .nil))

/-- both sides of detailed balance, computed: the traces of `x`, `x'` are built by `generate` -/
def mhDbSides {K : Type} [Field K] [LinearOrder K] [IsStrictOrderedRing K] {R : Type}
    [AddCommGroup R] (e : R → K) (pd : PD K) (P : Prims R) (cfg : Cfg) (g : GF) (s : Sel)
    (args : List Val) (x x' : CM) : Option (K × K) := do
  let tw ← g.generate P cfg (some x) args
  let tw' ← g.generate P cfg (some x') args
  pure (pmassOf (g.assessP pd x args) * mhAcc e pd P cfg g tw.1 s args x',
        pmassOf (g.assessP pd x' args) * mhAcc e pd P cfg g tw'.1 s args x)

end Genjax
