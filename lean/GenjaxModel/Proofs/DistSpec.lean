import Mathlib.Probability.Distributions.Exponential
import Mathlib.Probability.Distributions.Gamma
import Mathlib.Probability.Distributions.Gaussian.Real
import Mathlib.Probability.Distributions.Geometric
import Mathlib.Probability.Distributions.Uniform
import Mathlib.Analysis.SpecialFunctions.Log.Basic
import Mathlib.Analysis.SpecialFunctions.Exp
/-!
  C13: the documented parameterisations of the built-in distributions, as real-valued spec
  densities / mass functions, and their normalisation.  The Python harness evaluates the SAME
  closed forms (harness/props/c13.py, table SPEC) in float64 against `dist.logpdf`.
  Naming: `<dist>Pmf` / `<dist>Pdf` take the documented parameters in the documented order.
-/
open Real MeasureTheory ProbabilityTheory

namespace Genjax.DistSpec

/-- flip(p): P(True) = p, P(False) = 1 − p -/
noncomputable def flipPmf (p : ℝ) (b : Bool) : ℝ := if b then p else 1 - p

/-- bernoulli(logits): P(1) = σ(l) = 1/(1+e^{−l}), P(0) = 1 − σ(l) -/
noncomputable def bernoulliLogitsPmf (l : ℝ) (k : Bool) : ℝ :=
  if k then 1 / (1 + Real.exp (-l)) else 1 - 1 / (1 + Real.exp (-l))

/-- categorical(logits): P(k) = e^{θ_k} / Σ_j e^{θ_j} -/
noncomputable def categoricalPmf {n : ℕ} (θ : Fin n → ℝ) (k : Fin n) : ℝ :=
  Real.exp (θ k) / ∑ j, Real.exp (θ j)

/-- geometric(probs = p): number of FAILURES before the first success, P(k) = (1−p)^k p, k = 0,1,… -/
noncomputable def geometricPmf (p : ℝ) (k : ℕ) : ℝ := (1 - p) ^ k * p

/-- poisson(rate λ): P(k) = e^{−λ} λ^k / k! -/
noncomputable def poissonPmf (r : ℝ) (k : ℕ) : ℝ := Real.exp (-r) * r ^ k / (k.factorial : ℝ)

/-- binomial(total_count n, probs p): P(k) = C(n,k) p^k (1−p)^{n−k} -/
noncomputable def binomialPmf (n : ℕ) (p : ℝ) (k : ℕ) : ℝ := (n.choose k : ℝ) * p ^ k * (1 - p) ^ (n - k)

/-- exponential(rate r): density r e^{−r x} on x ≥ 0 -/
noncomputable def exponentialPdf (r x : ℝ) : ℝ := if 0 ≤ x then r * Real.exp (-(r * x)) else 0

/-- uniform(low a, high b): density 1/(b−a) on [a,b] -/
noncomputable def uniformPdf (a b x : ℝ) : ℝ := if a ≤ x ∧ x ≤ b then 1 / (b - a) else 0

/-- normal(loc μ, scale σ) -/
noncomputable def normalPdf (μ σ x : ℝ) : ℝ :=
  (Real.sqrt (2 * π * σ ^ 2))⁻¹ * Real.exp (-(x - μ) ^ 2 / (2 * σ ^ 2))

theorem flip_normalised (p : ℝ) : flipPmf p true + flipPmf p false = 1 := by
  simp [flipPmf]

theorem bernoulliLogits_normalised (l : ℝ) :
    bernoulliLogitsPmf l true + bernoulliLogitsPmf l false = 1 := by
  simp [bernoulliLogitsPmf]

/-- logits parameterisation: odds P(1)/P(0) = e^{l} -/
theorem bernoulliLogits_odds (l : ℝ) :
    bernoulliLogitsPmf l true = Real.exp l * bernoulliLogitsPmf l false := by
  have h : (1 + Real.exp (-l)) ≠ 0 := by positivity
  have h2 : Real.exp l * Real.exp (-l) = 1 := by rw [← Real.exp_add]; simp
  simp only [bernoulliLogitsPmf, if_true, Bool.false_eq_true, if_false]
  field_simp
  linear_combination (-1 : ℝ) * h2

theorem categorical_normalised {n : ℕ} (θ : Fin n → ℝ) (hn : 0 < n) :
    ∑ k, categoricalPmf θ k = 1 := by
  have : Nonempty (Fin n) := ⟨⟨0, hn⟩⟩
  have hpos : 0 < ∑ j, Real.exp (θ j) :=
    Finset.sum_pos (fun j _ => Real.exp_pos _) Finset.univ_nonempty
  simp only [categoricalPmf]
  rw [← Finset.sum_div]
  exact div_self hpos.ne'

/-- failures-before-first-success parameterisation sums to one -/
theorem geometric_normalised (p : ℝ) (hp0 : 0 < p) (hp1 : p ≤ 1) :
    HasSum (geometricPmf p) 1 := by
  have h := (hasSum_geometric_of_lt_one (r := 1 - p) (by linarith) (by linarith)).mul_right p
  have e : (1 - (1 - p))⁻¹ * p = 1 := by
    rw [sub_sub_cancel]; exact inv_mul_cancel₀ hp0.ne'
  rw [e] at h
  exact h

theorem poisson_normalised (r : ℝ) : HasSum (poissonPmf r) 1 := by
  have h := (NormedSpace.expSeries_div_hasSum_exp (r : ℝ)).mul_left (Real.exp (-r))
  rw [← Real.exp_eq_exp_ℝ, ← Real.exp_add, neg_add_cancel, Real.exp_zero] at h
  have e : poissonPmf r = fun i : ℕ => Real.exp (-r) * (r ^ i / (i.factorial : ℝ)) := by
    funext i
    simp only [poissonPmf, mul_div_assoc]
  rw [e]
  exact h

theorem binomial_normalised (n : ℕ) (p : ℝ) :
    ∑ k ∈ Finset.range (n + 1), binomialPmf n p k = 1 := by
  have h := add_pow p (1 - p) n
  rw [add_sub_cancel, one_pow] at h
  rw [h]
  refine Finset.sum_congr rfl (fun k _ => ?_)
  simp only [binomialPmf]
  ring

/-- rate parameterisation: total mass one -/
theorem exponential_normalised (r : ℝ) (hr : 0 < r) :
    ∫⁻ x, ENNReal.ofReal (exponentialPdf r x) = 1 := by
  rw [← lintegral_exponentialPDF_eq_one hr]
  refine lintegral_congr (fun x => ?_)
  rw [exponentialPDF_eq]
  rfl

theorem uniform_normalised (a b : ℝ) (hab : a < b) :
    ∫⁻ x, ENNReal.ofReal (uniformPdf a b x) = 1 := by
  have hfun : (fun x => ENNReal.ofReal (uniformPdf a b x)) =
      (Set.Icc a b).indicator (fun _ => ENNReal.ofReal (1 / (b - a))) := by
    funext x
    by_cases hx : x ∈ Set.Icc a b
    · rw [Set.indicator_of_mem hx]
      simp only [uniformPdf, if_pos (Set.mem_Icc.mp hx)]
    · rw [Set.indicator_of_notMem hx]
      have : ¬ (a ≤ x ∧ x ≤ b) := fun h => hx (Set.mem_Icc.mpr h)
      simp only [uniformPdf, if_neg this, ENNReal.ofReal_zero]
  rw [hfun, lintegral_indicator measurableSet_Icc, setLIntegral_const, Real.volume_Icc,
    ← ENNReal.ofReal_mul (by have : 0 < b - a := sub_pos.mpr hab; positivity)]
  have : 1 / (b - a) * (b - a) = 1 := by
    have : b - a ≠ 0 := (sub_pos.mpr hab).ne'
    field_simp
  rw [this, ENNReal.ofReal_one]

theorem normal_normalised (μ σ : ℝ) (hσ : 0 < σ) :
    ∫⁻ x, ENNReal.ofReal (normalPdf μ σ x) = 1 := by
  have hv : (⟨σ ^ 2, sq_nonneg σ⟩ : NNReal) ≠ 0 := by
    intro h
    have : σ ^ 2 = 0 := congrArg NNReal.toReal h
    exact (pow_pos hσ 2).ne' this
  rw [← lintegral_gaussianPDFReal_eq_one μ hv]
  refine lintegral_congr (fun x => ?_)
  simp only [normalPdf, gaussianPDFReal]
  rfl

end Genjax.DistSpec
