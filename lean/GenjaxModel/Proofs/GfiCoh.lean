import GenjaxModel.Model.Gfi
/-!
  Structural coherence of traces (used by C01–C05).

  `GF.Coh P g args t` says: `t` is a trace of `g` on `args` whose every stored score and
  return value is the one the program determines from the trace's own choices:
  * a Distribution leaf stores `-(lp d args v)`,
  * a Fn node stores the sum of its sub-trace scores and the value of its return expression,
    every call site's sub-trace being coherent for the callee on the evaluated arguments,
  * lanes / steps are coherent per lane / per step (carry threaded),
  * a Cond trace keeps two coherent branch traces and the check computed from the arguments.
-/
namespace Genjax
variable {R : Type} [Zero R] [Add R] [Neg R]

def Body.addrs : Body → List String
  | .ret _ => []
  | .call a _ _ rest => a :: rest.addrs

/-- lanes of a Vmap trace are coherent one by one -/
def lanesCoh (coh : List Val → Tr R → Prop) (axes : List Bool) (args : List Val) :
    Nat → List (Tr R) → Prop
  | _, [] => True
  | i, t :: ts => coh (laneArgs axes args i) t ∧ lanesCoh coh axes args (i + 1) ts

/-- steps of a Scan trace are coherent with the carry threaded; final carry returned as a relation -/
def stepsCoh (coh : List Val → Tr R → Prop) (xs : Val) :
    Val → Nat → List (Tr R) → Val → Prop
  | c, _, [], c' => c' = c
  | c, i, t :: ts, c' => coh [c, xs.nth i] t ∧ stepsCoh coh xs t.retval.fst (i + 1) ts c'

mutual
  def GF.Coh (P : Prims R) : GF → List Val → Tr R → Prop
    | .dist d, args, .leaf v s => s = -(P.lp d args v)
    | .fn body, args, .fn subs r s =>
        body.Coh P args subs ∧ r = body.retOf args subs ∧ s = body.scoreOf subs
    | .vmap g axes n, args, .vec lanes =>
        lanes.toList.length = n ∧ lanesCoh (fun a t => g.Coh P a t) axes args 0 lanes.toList
    | .scan g n, args, .scan steps c =>
        steps.toList.length = n ∧
        stepsCoh (fun a t => g.Coh P a t) (args.getD 1 .nil) (args.getD 0 .nil) 0 steps.toList c
    | .cond t f, args, .cond c a b =>
        c = (args.getD 0 .nil).truthy ∧ t.Coh P (args.drop 1) a ∧ f.Coh P (args.drop 1) b
    | _, _, _ => False
  /-- every call site of the body has a coherent sub-trace in `subs` (looked up by address),
      addresses are pairwise distinct, the environment grows by the sub-trace's return value -/
  def Body.Coh (P : Prims R) : Body → List Val → TrL R → Prop
    | .ret _, _, _ => True
    | .call addr g es rest, env, subs =>
        addr ∉ rest.addrs ∧
        ∃ t, subs.find? addr = some t ∧ g.Coh P (es.map (·.eval env)) t ∧
          rest.Coh P (env ++ [t.retval]) subs
  /-- the body's return value on the sub-traces in `subs` -/
  def Body.retOf : Body → List Val → TrL R → Val
    | .ret e, env, _ => e.eval env
    | .call addr _ _ rest, env, subs =>
        match subs.find? addr with
        | some t => rest.retOf (env ++ [t.retval]) subs
        | none => .nil
  /-- sum of the scores of the body's call sites -/
  def Body.scoreOf : Body → TrL R → R
    | .ret _, _ => 0
    | .call addr _ _ rest, subs =>
        match subs.find? addr with
        | some t => t.score + rest.scoreOf subs
        | none => rest.scoreOf subs
end

end Genjax
