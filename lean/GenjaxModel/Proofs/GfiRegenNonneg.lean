import GenjaxModel.Model.GfiRegenDist
import Mathlib.Algebra.Order.Field.Basic
/-
  Non-negativity of the split assess `GF.assessS` (Model/GfiRegenDist.lean): if every primitive mass
  `pd.pm d a v` is non-negative then both components (product over the SELECTED sites, product over
  the unselected sites) of a successful `assessS` are non-negative - for ALL five GF constructors.
-/
namespace Genjax
open Smc

section Helpers

/-- every result of a successful `forLanes` satisfies `Q` when every successful `f i a` does -/
theorem forLanes_forall_of {α β : Type} (f : Nat → α → Option β) (Q : β → Prop)
    (hf : ∀ i a b, f i a = some b → Q b) :
    ∀ (as : List α) (i : Nat) (bs : List β), forLanes f i as = some bs → ∀ b ∈ bs, Q b := by
  intro as
  induction as with
  | nil => intro i bs h; simp [forLanes] at h; subst h; simp
  | cons a as ih =>
    intro i bs h
    simp only [forLanes, Option.bind_eq_bind, Option.bind_eq_some_iff, Option.pure_def,
      Option.some.injEq] at h
    obtain ⟨b, hb, bs', hbs', rfl⟩ := h
    intro b' hb'
    simp only [List.mem_cons] at hb'
    rcases hb' with rfl | hb'
    · exact hf _ _ _ hb
    · exact ih _ _ hbs' _ hb'

/-- every per-step result of a successful `forSteps` satisfies `Q` when every successful step does -/
theorem forSteps_forall_of {α β : Type} (f : Val → Nat → α → Option (β × Val)) (Q : β → Prop)
    (hf : ∀ c i a b c', f c i a = some (b, c') → Q b) :
    ∀ (as : List α) (c : Val) (i : Nat) (bs : List β) (c' : Val),
      forSteps f c i as = some (bs, c') → ∀ b ∈ bs, Q b := by
  intro as
  induction as with
  | nil => intro c i bs c' h; simp [forSteps] at h; obtain ⟨rfl, _⟩ := h; simp
  | cons a as ih =>
    intro c i bs c' h
    simp only [forSteps, Option.bind_eq_bind, Option.bind_eq_some_iff, Option.pure_def,
      Option.some.injEq, Prod.mk.injEq] at h
    obtain ⟨⟨b, c1⟩, hb, ⟨bs', c2⟩, hbs', rfl, rfl⟩ := h
    intro b' hb'
    simp only [List.mem_cons] at hb'
    rcases hb' with rfl | hb'
    · exact hf _ _ _ _ _ hb
    · exact ih _ _ _ _ hbs' _ hb'

variable {K : Type} [Field K] [LinearOrder K] [IsStrictOrderedRing K]

/-- a product of non-negative factors is non-negative -/
theorem prodK_nonneg : ∀ (l : List K), (∀ x ∈ l, 0 ≤ x) → 0 ≤ prodK l
  | [], _ => by simp only [prodK]; exact zero_le_one
  | x :: xs, h => by
      simp only [prodK]
      exact mul_nonneg (h x (List.mem_cons_self ..))
        (prodK_nonneg xs fun y hy => h y (List.mem_cons_of_mem _ hy))

theorem prodK_map_nonneg {β : Type} (f : β → K) (l : List β) (h : ∀ b ∈ l, 0 ≤ f b) :
    0 ≤ prodK (l.map f) := by
  apply prodK_nonneg
  intro x hx
  simp only [List.mem_map] at hx
  obtain ⟨b, hb, rfl⟩ := hx
  exact h b hb

end Helpers

section Nonneg
variable {K : Type} [Field K] [LinearOrder K] [IsStrictOrderedRing K]
variable (pd : PD K) (hpos : ∀ d a v, 0 ≤ pd.pm d a v)

set_option linter.unusedSectionVars false in
include hpos in
mutual
  theorem assessS_nonneg_gf : (g : GF) → ∀ (x : CM) (s : Sel) (args : List Val)
      (o : (K × K) × Val), g.assessS pd x s args = some o → 0 ≤ o.1.1 ∧ 0 ≤ o.1.2
    | .dist d, x, s, args, o, h => by
        cases x <;> simp only [GF.assessS, Option.some.injEq, reduceCtorEq] at h
        subst h
        split
        · exact ⟨hpos _ _ _, zero_le_one⟩
        · exact ⟨zero_le_one, hpos _ _ _⟩
    | .fn body, x, s, args, o, h => by
        cases x <;> simp only [GF.assessS, reduceCtorEq] at h
        exact assessS_nonneg_body body _ _ _ _ _ h
    | .vmap g axes n, x, s, args, o, h => by
        cases x <;> simp only [GF.assessS, reduceCtorEq] at h
        simp only [Option.bind_eq_bind, Option.bind_eq_some_iff, Option.pure_def,
          Option.some.injEq] at h
        obtain ⟨_, _, rs, hrs, rfl⟩ := h
        have hall := forLanes_forall_of _ (fun b : (K × K) × Val => 0 ≤ b.1.1 ∧ 0 ≤ b.1.2)
          (fun i xi b hb => assessS_nonneg_gf g xi s (laneArgs axes args i) b hb) _ _ _ hrs
        exact ⟨prodK_map_nonneg _ _ fun b hb => (hall b hb).1,
          prodK_map_nonneg _ _ fun b hb => (hall b hb).2⟩
    | .scan g n, x, s, args, o, h => by
        cases x <;> simp only [GF.assessS, reduceCtorEq] at h
        simp only [Option.bind_eq_bind, Option.bind_eq_some_iff, Option.pure_def,
          Option.some.injEq] at h
        obtain ⟨_, _, ⟨rs, c⟩, hrs, rfl⟩ := h
        have hall := forSteps_forall_of _ (fun b : (K × K) × Val => 0 ≤ b.1.1 ∧ 0 ≤ b.1.2)
          (fun c i xi b c' hb => by
            simp only [Option.bind_eq_some_iff, Option.some.injEq, Prod.mk.injEq] at hb
            obtain ⟨o, ho, rfl, _⟩ := hb
            exact assessS_nonneg_gf g xi s _ o ho) _ _ _ _ _ hrs
        exact ⟨prodK_map_nonneg _ _ fun b hb => (hall b hb).1,
          prodK_map_nonneg _ _ fun b hb => (hall b hb).2⟩
    | .cond t f, x, s, args, o, h => by
        simp only [GF.assessS, Option.bind_eq_bind, Option.bind_eq_some_iff, Option.pure_def,
          Option.some.injEq] at h
        obtain ⟨o1, h1, o2, h2, rfl⟩ := h
        split
        · exact assessS_nonneg_gf t _ _ _ _ h1
        · exact assessS_nonneg_gf f _ _ _ _ h2
  theorem assessS_nonneg_body : (b : Body) → ∀ (x : CML) (s : Sel) (env : List Val)
      (seen : List String) (o : (K × K) × Val),
      b.assessS pd x s env seen = some o → 0 ≤ o.1.1 ∧ 0 ≤ o.1.2
    | .ret ex, x, s, env, seen, o, h => by
        simp only [Body.assessS, Option.some.injEq] at h
        subst h
        exact ⟨zero_le_one, zero_le_one⟩
    | .call addr g es rest, x, s, env, seen, o, h => by
        simp only [Body.assessS] at h
        split at h
        · simp at h
        · split at h
          · simp at h
          · simp only [Option.bind_eq_bind, Option.bind_eq_some_iff, Option.pure_def,
              Option.some.injEq] at h
            obtain ⟨o1, h1, o2, h2, rfl⟩ := h
            have a1 := assessS_nonneg_gf g _ _ _ _ h1
            have a2 := assessS_nonneg_body rest _ _ _ _ _ h2
            exact ⟨mul_nonneg a1.1 a2.1, mul_nonneg a1.2 a2.2⟩
end

include hpos in
/-- **Non-negativity of the split assess**: with non-negative primitive masses both products
    (selected sites / unselected sites) returned by `GF.assessS` are non-negative. -/
theorem assessS_nonneg (g : GF) (x : CM) (s : Sel) (args : List Val) (o : (K × K) × Val)
    (h : g.assessS pd x s args = some o) : 0 ≤ o.1.1 ∧ 0 ≤ o.1.2 :=
  assessS_nonneg_gf pd hpos g x s args o h

end Nonneg

end Genjax
