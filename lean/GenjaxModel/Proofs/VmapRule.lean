import GenjaxModel.Model.VmapRule
import GenjaxModel.Proofs.SeedVec
/-!
  Proofs about the value-level model of the sample batching rule (`Model/VmapRule.lean`), C08.
-/
namespace Genjax.VmapRule

/-! ### list lemmas -/

theorem drop_insertIdx_self {γ : Type} (x : γ) : ∀ (k : Nat) (p : List γ), k ≤ p.length →
    (p.insertIdx k x).drop k = x :: p.drop k
  | 0, p, _ => by simp
  | k + 1, [], h => by simp at h
  | k + 1, a :: p, h => by
      simp only [List.insertIdx_succ_cons, List.drop_succ_cons]
      exact drop_insertIdx_self x k p (by simpa using h)

theorem insertIdx_inj {γ : Type} {k : Nat} {p p' : List γ} {x x' : γ} (hk : k ≤ p.length)
    (hk' : k ≤ p'.length) (h : p.insertIdx k x = p'.insertIdx k x') : x = x' ∧ p = p' := by
  constructor
  · have h1 : (p.insertIdx k x)[k]? = (p'.insertIdx k x')[k]? := by rw [h]
    rw [List.getElem?_insertIdx_self, List.getElem?_insertIdx_self] at h1
    simpa [hk, hk'] using h1
  · have h2 := congrArg (fun l => l.eraseIdx k) h
    simpa [List.eraseIdx_insertIdx_self] using h2

theorem insertIdx_append_length {γ : Type} (x : γ) : ∀ (l₁ l₂ : List γ),
    (l₁ ++ l₂).insertIdx l₁.length x = l₁ ++ x :: l₂
  | [], l₂ => by simp
  | a :: l₁, l₂ => by
      simp only [List.cons_append, List.length_cons, List.insertIdx_succ_cons]
      rw [insertIdx_append_length x l₁ l₂]

/-! ### broadcasting -/

theorem bcPadded_length : ∀ (a b c : List Nat), bcPadded a b = some c → c.length = b.length ∧ a.length = b.length
  | [], [], c, h => by simp [bcPadded] at h; simp [← h]
  | [], _ :: _, c, h => by simp [bcPadded] at h
  | _ :: _, [], c, h => by simp [bcPadded] at h
  | x :: xs, y :: ys, c, h => by
      unfold bcPadded at h
      split at h
      · rename_i z zs hz hzs
        have := bcPadded_length xs ys zs hzs
        simp at h; subst h; simp [this]
      · simp at h

theorem bcAll_length (rows : List (List Nat)) : ∀ (init B : List Nat), bcAll rows init = some B →
    B.length = init.length := by
  induction rows with
  | nil => intro init B h; simp [bcAll] at h; simp [h]
  | cons s rows ih =>
      intro init B h
      simp only [bcAll, List.foldr_cons] at h
      cases hacc : List.foldr (fun s acc => acc.bind (bcPadded s)) (some init) rows with
      | none => simp [hacc] at h
      | some acc =>
          rw [hacc] at h
          simp only [Option.bind_some] at h
          have h1 := (bcPadded_length s acc B h).1
          have h2 := ih init acc (by simpa [bcAll] using hacc)
          omega

/-- fold of the leading dimensions -/
def headFold (hs : List Nat) (h0 : Nat) : Option Nat :=
  hs.foldr (fun h acc => acc.bind (bc1 h)) (some h0)

theorem bcAll_cons (zs : List (Nat × List Nat)) (h0 : Nat) (init : List Nat) :
    bcAll (zs.map fun z => z.1 :: z.2) (h0 :: init) =
      match headFold (zs.map (·.1)) h0, bcAll (zs.map (·.2)) init with
      | some h, some t => some (h :: t)
      | _, _ => none := by
  induction zs with
  | nil => simp [bcAll, headFold]
  | cons z zs ih =>
      simp only [bcAll, List.map_cons, List.foldr_cons, headFold] at ih ⊢
      rw [ih]
      cases h1 : List.foldr (fun h acc => acc.bind (bc1 h)) (some h0) (zs.map (·.1)) with
      | none => simp
      | some h =>
          cases h2 : List.foldr (fun s acc => acc.bind (bcPadded s)) (some init) (zs.map (·.2)) with
          | none =>
              simp only [Option.bind_some]
              cases bc1 z.1 h <;> simp
          | some t =>
              simp only [Option.bind_some, bcPadded]
              cases bc1 z.1 h <;> cases bcPadded z.2 t <;> simp

theorem headFold_lanes (n : Nat) (hs : List Nat) (h : ∀ x ∈ hs, x = n ∨ x = 1) :
    headFold hs 1 = some (if n ∈ hs then n else 1) := by
  induction hs with
  | nil => simp [headFold]
  | cons x hs ih =>
      have ih' := ih (fun y hy => h y (List.mem_cons_of_mem _ hy))
      simp only [headFold, List.foldr_cons] at ih' ⊢
      rw [ih']
      simp only [Option.bind_some, List.mem_cons]
      rcases h x (by simp) with hx | hx
      · subst hx
        by_cases hm : x ∈ hs <;> (simp [hm, bc1]; try omega)
      · subst hx
        by_cases hm : n ∈ hs
        · by_cases h1 : 1 = n <;> simp [hm, bc1, h1]
        · by_cases h1 : n = 1
          · subst h1; simp [bc1]
          · simp [hm, bc1, h1]

theorem maxRank_le {shapes : List (List Nat)} {r : Nat} (h : ∀ s ∈ shapes, s.length ≤ r) :
    maxRank shapes ≤ r := by
  induction shapes with
  | nil => simp [maxRank]
  | cons s shapes ih =>
      have := ih (fun t ht => h t (List.mem_cons_of_mem _ ht))
      have hs := h s (by simp)
      simp only [maxRank, List.foldr_cons] at this ⊢
      omega

theorem le_maxRank {shapes : List (List Nat)} {s : List Nat} (h : s ∈ shapes) :
    s.length ≤ maxRank shapes := by
  induction shapes with
  | nil => simp at h
  | cons t shapes ih =>
      simp only [maxRank, List.foldr_cons] at ih ⊢
      rcases List.mem_cons.1 h with rfl | h
      · omega
      · have := ih h; omega

theorem maxRank_eq {shapes : List (List Nat)} {r : Nat} (h : ∀ s ∈ shapes, s.length ≤ r)
    (hex : ∃ s ∈ shapes, s.length = r) : maxRank shapes = r := by
  obtain ⟨s, hs, rfl⟩ := hex
  exact Nat.le_antisymm (maxRank_le h) (le_maxRank hs)

/-- shape of an argument after the rule moved its mapped axis to the front: the lanes `n` in front
    of the per-lane shape -/
def movedShape (n : Nat) (x : Bool × List Nat) : List Nat := if x.1 then n :: x.2 else x.2

/-- the key broadcasting fact: when all mapped parameters have per-lane rank r and no un-mapped
    one has a higher rank, the moved shapes broadcast to `n :: B` where B is the broadcast of the
    per-lane shapes -/
theorem bshape_moved (n r : Nat) (xs : List (Bool × List Nat)) (B : List Nat)
    (hal : ∀ x ∈ xs, (x.1 = true → x.2.length = r) ∧ x.2.length ≤ r)
    (hex : ∃ x ∈ xs, x.1 = true)
    (hB : bshape (xs.map (·.2)) = some B) :
    bshape (xs.map (movedShape n)) = some (n :: B) ∧ B.length = r := by
  have hr : maxRank (xs.map (·.2)) = r := by
    apply maxRank_eq
    · intro s hs
      obtain ⟨x, hx, rfl⟩ := List.mem_map.1 hs
      exact (hal x hx).2
    · obtain ⟨x, hx, hb⟩ := hex
      exact ⟨x.2, List.mem_map.2 ⟨x, hx, rfl⟩, (hal x hx).1 hb⟩
  have hr' : maxRank (xs.map (movedShape n)) = r + 1 := by
    apply maxRank_eq
    · intro s hs
      obtain ⟨x, hx, rfl⟩ := List.mem_map.1 hs
      have := hal x hx
      unfold movedShape
      split
      · rename_i hb; simp [this.1 hb]
      · omega
    · obtain ⟨x, hx, hb⟩ := hex
      exact ⟨movedShape n x, List.mem_map.2 ⟨x, hx, rfl⟩, by simp [movedShape, hb, (hal x hx).1 hb]⟩
  unfold bshape at hB ⊢
  rw [hr] at hB
  rw [hr']
  have hlen : B.length = r := by simpa using bcAll_length _ _ _ hB
  refine ⟨?_, hlen⟩
  have hpad : (xs.map (movedShape n)).map (pad (r + 1)) =
      (xs.map fun x => ((if x.1 then n else 1), pad r x.2)).map fun z => z.1 :: z.2 := by
    simp only [List.map_map]
    apply List.map_congr_left
    intro x hx
    have := hal x hx
    simp only [Function.comp, movedShape, pad]
    by_cases hb : x.1 = true
    · simp [hb, this.1 hb]
    · have hle := this.2
      simp only [hb, if_false, Bool.false_eq_true]
      have : r + 1 - x.2.length = (r - x.2.length) + 1 := by omega
      rw [this, List.replicate_succ]; rfl
  rw [hpad, show List.replicate (r + 1) 1 = 1 :: List.replicate r 1 from List.replicate_succ, bcAll_cons]
  have htl : ((xs.map fun x => ((if x.1 then n else 1), pad r x.2)).map (·.2)) = (xs.map (·.2)).map (pad r) := by
    simp [List.map_map, Function.comp]
  rw [htl, hB, headFold_lanes n]
  · have : n ∈ List.map (fun z => z.1) (xs.map fun x => ((if x.1 = true then n else 1), pad r x.2)) := by
      obtain ⟨x, hx, hb⟩ := hex
      simp only [List.map_map, List.mem_map, Function.comp]
      exact ⟨x, hx, by simp [hb]⟩
    rw [if_pos this]
  · intro y hy
    simp only [List.map_map, List.mem_map, Function.comp] at hy
    obtain ⟨x, _, rfl⟩ := hy
    by_cases hb : x.1 = true <;> simp [hb]

/-! ### binding -/

section Bind
variable {ν γ δ : Type} [DecidableEq ν]

theorem lookup_map_snd (f : γ → δ) (nm : ν) (kws : List (ν × γ)) :
    (kws.map fun kw => (kw.1, f kw.2)).lookup nm = (kws.lookup nm).map f := by
  induction kws with
  | nil => simp
  | cons kw kws ih =>
      obtain ⟨k, v⟩ := kw
      simp only [List.map_cons, List.lookup_cons]
      cases nm == k <;> simp [ih]

/-- binding commutes with any per-argument transformation (moving an axis, slicing a lane) -/
theorem bindArgs_map (f : γ → δ) (sig : List ν) (pos : List γ) (kws : List (ν × γ)) :
    bindArgs sig (pos.map f) (kws.map fun kw => (kw.1, f kw.2)) =
      (bindArgs sig pos kws).map (List.map (Option.map f)) := by
  unfold bindArgs
  simp only [List.length_map, List.all_map, Function.comp_def]
  split
  · simp [lookup_map_snd, Function.comp_def]
  · simp

theorem lookup_mem (nm : ν) (kws : List (ν × γ)) (a : γ) (h : kws.lookup nm = some a) :
    a ∈ kws.map (·.2) := by
  induction kws with
  | nil => simp at h
  | cons kw kws ih =>
      obtain ⟨k, v⟩ := kw
      simp only [List.lookup_cons] at h
      cases hk : nm == k
      · rw [hk] at h; simp [ih h]
      · rw [hk] at h; simp at h; simp [h]

theorem lookup_of_mem (kws : List (ν × γ)) (hnd : (kws.map (·.1)).Nodup) (kw : ν × γ)
    (h : kw ∈ kws) : kws.lookup kw.1 = some kw.2 := by
  induction kws with
  | nil => simp at h
  | cons kw' kws ih =>
      obtain ⟨k, v⟩ := kw'
      simp only [List.map_cons, List.nodup_cons] at hnd
      rcases List.mem_cons.1 h with rfl | h'
      · simp
      · have hne : (kw.1 == k) = false := by
          simp only [beq_eq_false_iff_ne, ne_eq]
          intro hk
          exact hnd.1 (List.mem_map.2 ⟨kw, h', hk⟩)
        simp [List.lookup_cons, hne, ih hnd.2 h']

theorem bindArgs_mem {sig : List ν} {pos : List γ} {kws : List (ν × γ)} {ps : List (Option γ)}
    (h : bindArgs sig pos kws = some ps) {a : γ} (ha : some a ∈ ps) :
    a ∈ pos ++ kws.map (·.2) := by
  unfold bindArgs at h
  split at h
  · simp only [Option.some.injEq] at h
    subst h
    rcases List.mem_append.1 ha with ha | ha
    · simp only [List.mem_map, Option.some.injEq] at ha
      obtain ⟨b, hb, rfl⟩ := ha
      exact List.mem_append_left _ hb
    · obtain ⟨nm, _, hnm⟩ := List.mem_map.1 ha
      exact List.mem_append_right _ (lookup_mem nm kws a hnm)
  · simp at h

theorem mem_bindArgs {sig : List ν} {pos : List γ} {kws : List (ν × γ)} {ps : List (Option γ)}
    (h : bindArgs sig pos kws = some ps) (hnd : (kws.map (·.1)).Nodup) {a : γ}
    (ha : a ∈ pos ++ kws.map (·.2)) : some a ∈ ps := by
  unfold bindArgs at h
  split at h
  · rename_i hc
    simp only [Option.some.injEq] at h
    subst h
    rcases List.mem_append.1 ha with ha | ha
    · exact List.mem_append_left _ (List.mem_map.2 ⟨a, ha, rfl⟩)
    · obtain ⟨kw, hkw, rfl⟩ := List.mem_map.1 ha
      have hin := (List.all_eq_true.1 hc.2) kw hkw
      simp only [List.contains_iff_mem] at hin
      exact List.mem_append_right _ (List.mem_map.2 ⟨kw.1, hin, lookup_of_mem kws hnd kw hkw⟩)
  · simp at h

end Bind

/-! ### one argument: the moved array read at (lane, b) = the lane's slice read at b -/

section Args
variable {α : Type}

theorem sliceArg_shape (i : Nat) (a : BArg α) : (sliceArg i a).shape = laneShape a := by
  unfold sliceArg laneShape; cases a.bdim <;> rfl

theorem bidx_full (sh b : List Nat) (h : b.length = sh.length) :
    bidx sh b = List.zipWith (fun n i => if n = 1 then 0 else i) sh b := by
  simp [bidx, h]

theorem moveArg_get (a : BArg α) (n r i : Nat) (b : List Nat) (hi : i < n)
    (hv : ∀ d, a.bdim = some d → a.arr.shape[d]? = some n)
    (hr : (a.bdim.isSome → (laneShape a).length = r) ∧ (laneShape a).length ≤ r)
    (hb : b.length = r) :
    (moveArg Cfg.spec a).get (bidx (moveArg Cfg.spec a).shape (i :: b)) =
      (sliceArg i a).get (bidx (sliceArg i a).shape b) := by
  obtain ⟨arr, bdim⟩ := a
  cases bdim with
  | none =>
      simp only [moveArg, sliceArg, bidx, List.length_cons]
      simp only [laneShape] at hr
      have : b.length + 1 - arr.shape.length = (b.length - arr.shape.length) + 1 := by omega
      rw [this, List.drop_succ_cons]
  | some d =>
      have hd := hv d rfl
      simp only [laneShape, Option.isSome_some, forall_const] at hr
      have hsh : (arr.moveFront d).shape = n :: arr.shape.eraseIdx d := by
        simp only [Arr.moveFront, List.getD_eq_getElem?_getD, hd, Option.getD_some]
      simp only [moveArg, Cfg.spec, if_true, sliceArg]
      rw [hsh, bidx_full _ (i :: b) (by simp [hb, hr.1])]
      rw [show (arr.take d i).shape = arr.shape.eraseIdx d from rfl, bidx_full _ b (by omega)]
      simp only [List.zipWith_cons_cons, Arr.moveFront, Arr.take]
      have : (if n = 1 then 0 else i) = i := by split <;> omega
      rw [this]

theorem paramsAt_moved (ps : List (Option (BArg α))) (n r i : Nat) (b : List Nat) (hi : i < n)
    (hv : ∀ a, some a ∈ ps → ∀ d, a.bdim = some d → a.arr.shape[d]? = some n)
    (hr : ∀ a, some a ∈ ps → (a.bdim.isSome → (laneShape a).length = r) ∧ (laneShape a).length ≤ r)
    (hb : b.length = r) :
    paramsAt (ps.map (Option.map (moveArg Cfg.spec))) (i :: b) =
      paramsAt (ps.map (Option.map (sliceArg i))) b := by
  unfold paramsAt
  simp only [List.map_map]
  apply List.map_congr_left
  intro p hp
  cases p with
  | none => rfl
  | some a =>
      simp only [Function.comp, Option.map_some, Option.some.injEq]
      exact moveArg_get a n r i b hi (hv a hp) (hr a hp) hb

end Args

/-! ### the rule -/

section Main
variable {ν α β κ : Type} [DecidableEq ν]

theorem spec_kw : Cfg.spec.kwargsAsKeywords = true := rfl
theorem spec_ax : Cfg.spec.axisAfterSampleShape = true := rfl
theorem spec_mv : Cfg.spec.moveMappedAxes = true := rfl

theorem draw_map (site : κ → List Nat → List (Option α) → β) (sig : List ν) (key : κ)
    (f : BArg α → Arr α) (pos : List (BArg α)) (kws : List (ν × BArg α)) (ss : List Nat)
    (ps : List (Option (BArg α))) (B : List Nat) (hps : bindArgs sig pos kws = some ps)
    (hB : bshape (ps.filterMap fun p => p.map fun a => (f a).shape) = some B) :
    draw site sig key (pos.map f) (kws.map fun kw => (kw.1, f kw.2)) ss =
      some ⟨ss ++ B, fun p => site key p (paramsAt (ps.map (Option.map f)) (p.drop ss.length))⟩ := by
  unfold draw
  rw [bindArgs_map, hps]
  simp only [Option.map_some]
  have : (List.filterMap (fun p => Option.map (fun x => x.shape) p) (List.map (Option.map f) ps)) =
      ps.filterMap fun p => p.map fun a => (f a).shape := by
    rw [List.filterMap_map]
    congr 1
    funext p
    cases p <;> rfl
  rw [this, hB]

theorem staticDimLength_none {args : List (BArg α)} (h : staticDimLength args = none) :
    ∀ a ∈ args, a.bdim = none := by
  intro a ha
  have := (List.findSome?_eq_none_iff.1 h) a ha
  cases hb : a.bdim with
  | none => rfl
  | some d => simp [hb] at this

theorem staticDimLength_some {args : List (BArg α)} {m : Nat} (h : staticDimLength args = some m) :
    ∃ a ∈ args, a.bdim.isSome := by
  obtain ⟨a, ha, hm⟩ := List.exists_of_findSome?_eq_some h
  refine ⟨a, ha, ?_⟩
  cases hb : a.bdim with
  | none => simp [hb] at hm
  | some d => rfl

theorem forall₂_insertIdx {R : Nat → Nat → Prop} {x y : Nat} (hxy : R x y) :
    ∀ (k : Nat) {p sh : List Nat}, List.Forall₂ R p sh → List.Forall₂ R (p.insertIdx k x) (sh.insertIdx k y)
  | 0, _, _, h => by simpa using List.Forall₂.cons hxy h
  | k + 1, _, _, .nil => by simp
  | k + 1, _, _, .cons hab h => by
      simp only [List.insertIdx_succ_cons]
      exact List.Forall₂.cons hab (forall₂_insertIdx hxy k h)

/-- **the rule is lane-wise.**  For every sampler signature, positional / keyword mix, `in_axes`
    (any mapped axis position per argument, or none), `sample_shape` and axis size: if the mapped
    arguments all have the maximal per-lane rank (`LaneAligned`) and the un-mapped site is defined
    on a lane (`laneBatchShape s = some B`), then the vectorised site (current code, `Cfg.spec`)
    returns an array of shape `n :: sample_shape ++ B` whose lane i is exactly what the un-mapped
    site draws from lane i's parameter slices, at the positions `p.insertIdx (laneAxis s) i` of the
    ONE sampler call. -/
theorem rule_lanewise_full (site : κ → List Nat → List (Option α) → β) (key : κ) (s : Site ν α)
    (n : Nat) (B : List Nat) (hv : s.Valid n) (hal : s.LaneAligned)
    (hB : laneBatchShape s = some B) :
    (n ≠ 0 → ∃ res, rule Cfg.spec site key s n = some (res, some (laneAxis s)) ∧
      res.shape = (s.sampleShape ++ B).insertIdx (laneAxis s) n) ∧
    ∃ R, vmapSite Cfg.spec site key s n = some R ∧ R.shape = n :: (s.sampleShape ++ B) ∧
      ∀ i, i < n → ∃ L,
        laneDraw (fun k p v => site k (p.insertIdx (laneAxis s) i) v) key s i = some L ∧
        L.shape = s.sampleShape ++ B ∧
        ∀ p, p.length = (s.sampleShape ++ B).length → R.get (i :: p) = L.get p := by
  obtain ⟨ps, hps, hBs⟩ : ∃ ps, bindArgs s.sig s.pos s.kws = some ps ∧
      bshape (ps.filterMap fun p => p.map laneShape) = some B := by
    unfold laneBatchShape at hB
    cases h : bindArgs s.sig s.pos s.kws with
    | none => simp [h] at hB
    | some ps => exact ⟨ps, rfl, by simpa [h] using hB⟩
  have hmem : ∀ a, some a ∈ ps → a ∈ s.flat := fun a ha => bindArgs_mem hps ha
  -- the lane draw, for any lane and any site function
  have hlane : ∀ (site' : κ → List Nat → List (Option α) → β) (i : Nat),
      laneDraw site' key s i = some ⟨s.sampleShape ++ B, fun p => site' key p
        (paramsAt (ps.map (Option.map (sliceArg i))) (p.drop s.sampleShape.length))⟩ := by
    intro site' i
    unfold laneDraw
    apply draw_map _ _ _ (sliceArg i) _ _ _ ps B hps
    simpa only [sliceArg_shape] using hBs
  cases hn : staticDimLength s.flat with
  | none =>
      -- nothing is mapped: sample_shape is extended in front
      have hnone := staticDimLength_none hn
      have hmv : ps.map (Option.map (moveArg Cfg.spec)) = ps.map (Option.map (sliceArg 0)) := by
        apply List.map_congr_left
        intro p hp
        cases p with
        | none => rfl
        | some a => simp [moveArg, sliceArg, hnone a (hmem a hp)]
      have hsl : ∀ i, ps.map (Option.map (sliceArg i)) = ps.map (Option.map (sliceArg 0)) := by
        intro i
        apply List.map_congr_left
        intro p hp
        cases p with
        | none => rfl
        | some a => simp [sliceArg, hnone a (hmem a hp)]
      have hBm : bshape (ps.filterMap fun p => p.map fun a => (moveArg Cfg.spec a).shape) = some B := by
        rw [← hBs]
        congr 1
        apply List.filterMap_congr
        intro p hp
        cases p with
        | none => rfl
        | some a => simp [moveArg, laneShape, hnone a (hmem a hp)]
      have hax : laneAxis s = 0 := by simp [laneAxis, hn]
      by_cases hn0 : n = 0
      · subst hn0
        have hR : vmapSite Cfg.spec site key s 0 = some ⟨0 :: (s.sampleShape ++ B), fun ix =>
            site key ix.tail (paramsAt (ps.map (Option.map (moveArg Cfg.spec)))
              (ix.tail.drop s.sampleShape.length))⟩ := by
          simp only [vmapSite, rule, spec_kw, if_true, newSampleShape, outAxis, hn, ne_eq,
            not_true_eq_false, if_false]
          rw [draw_map site s.sig key (moveArg Cfg.spec) s.pos s.kws _ ps B hps hBm]
          rfl
        refine ⟨fun h => absurd rfl h, _, hR, rfl, ?_⟩
        intro i hi
        exact absurd hi (Nat.not_lt_zero i)
      · have hR : vmapSite Cfg.spec site key s n = some (Arr.moveFront ⟨(n :: s.sampleShape) ++ B,
            fun p => site key p (paramsAt (ps.map (Option.map (moveArg Cfg.spec)))
              (p.drop (n :: s.sampleShape).length))⟩ 0) := by
          simp only [vmapSite, rule, spec_kw, if_true, newSampleShape, outAxis, hn, ne_eq, hn0,
            not_false_eq_true]
          rw [draw_map site s.sig key (moveArg Cfg.spec) s.pos s.kws _ ps B hps hBm]
          simp only [Option.map_some, Option.bind_some, vmapOut, List.cons_append,
            List.length_cons, Nat.zero_lt_succ, if_true]
        have hRule : rule Cfg.spec site key s n = some (⟨(n :: s.sampleShape) ++ B,
            fun p => site key p (paramsAt (ps.map (Option.map (moveArg Cfg.spec)))
              (p.drop (n :: s.sampleShape).length))⟩, some (laneAxis s)) := by
          simp only [rule, spec_kw, if_true, newSampleShape, outAxis, hn, ne_eq, hn0,
            not_false_eq_true, hax]
          rw [draw_map site s.sig key (moveArg Cfg.spec) s.pos s.kws _ ps B hps hBm]
          rfl
        refine ⟨fun _ => ⟨_, hRule, ?_⟩, _, hR, ?_, ?_⟩
        · simp [hax]
        · simp [Arr.moveFront]
        · intro i _
          refine ⟨_, hlane _ i, rfl, ?_⟩
          intro p _
          simp only [Arr.moveFront, List.insertIdx_zero, List.length_cons, List.drop_succ_cons, hax]
          rw [hmv, hsl i]
  | some m =>
      obtain ⟨a0, ha0, hb0⟩ := staticDimLength_some hn
      have hr : ∀ a ∈ s.flat, (a.bdim.isSome → (laneShape a).length = (laneShape a0).length) ∧
          (laneShape a).length ≤ (laneShape a0).length := by
        intro a ha
        exact ⟨fun hb => Nat.le_antisymm (hal a0 ha0 hb0 a ha) (hal a ha hb a0 ha0), hal a0 ha0 hb0 a ha⟩
      have hax : laneAxis s = s.sampleShape.length := by simp [laneAxis, hn]
      -- broadcast of the moved shapes
      have hBm : bshape (ps.filterMap fun p => p.map fun a => (moveArg Cfg.spec a).shape) = some (n :: B) ∧
          B.length = (laneShape a0).length := by
        have hxs := bshape_moved n (laneShape a0).length
          (ps.filterMap fun p => p.map fun a => (a.bdim.isSome, laneShape a)) B ?_ ?_ ?_
        · refine ⟨?_, hxs.2⟩
          rw [← hxs.1, List.map_filterMap]
          congr 1
          apply List.filterMap_congr
          intro p hp
          cases p with
          | none => rfl
          | some a =>
              simp only [Option.map_some, Option.some.injEq, movedShape]
              cases hb : a.bdim with
              | none => simp [moveArg, laneShape, hb]
              | some d =>
                  have := hv.1 a (hmem a hp) d hb
                  simp [moveArg, laneShape, hb, Cfg.spec, Arr.moveFront, List.getD_eq_getElem?_getD, this]
        · intro x hx
          obtain ⟨p, hp, hpx⟩ := List.mem_filterMap.1 hx
          cases p with
          | none => simp at hpx
          | some a =>
              simp only [Option.map_some, Option.some.injEq] at hpx
              subst hpx
              exact hr a (hmem a hp)
        · refine ⟨(a0.bdim.isSome, laneShape a0), ?_, hb0⟩
          exact List.mem_filterMap.2 ⟨some a0, mem_bindArgs hps hv.2 ha0, rfl⟩
        · rw [← hBs, List.map_filterMap]
          congr 1
          apply List.filterMap_congr
          intro p _
          cases p <;> rfl
      have hR : vmapSite Cfg.spec site key s n = some (Arr.moveFront ⟨s.sampleShape ++ n :: B,
          fun p => site key p (paramsAt (ps.map (Option.map (moveArg Cfg.spec)))
            (p.drop s.sampleShape.length))⟩ s.sampleShape.length) := by
        simp only [vmapSite, rule, spec_kw, spec_ax, if_true, newSampleShape, outAxis, hn]
        rw [draw_map site s.sig key (moveArg Cfg.spec) s.pos s.kws _ ps (n :: B) hps hBm.1]
        simp only [Option.map_some, Option.bind_some, vmapOut]
        rw [if_pos (by simp)]
      have hRule : rule Cfg.spec site key s n = some (⟨s.sampleShape ++ n :: B,
          fun p => site key p (paramsAt (ps.map (Option.map (moveArg Cfg.spec)))
            (p.drop s.sampleShape.length))⟩, some (laneAxis s)) := by
        simp only [rule, spec_kw, spec_ax, if_true, newSampleShape, outAxis, hn, hax]
        rw [draw_map site s.sig key (moveArg Cfg.spec) s.pos s.kws _ ps (n :: B) hps hBm.1]
        rfl
      refine ⟨fun _ => ⟨_, hRule, ?_⟩, _, hR, ?_, ?_⟩
      · simp [hax, insertIdx_append_length]
      · simp [Arr.moveFront, List.getD_eq_getElem?_getD, List.eraseIdx_append_of_length_le]
      · intro i hi
        refine ⟨_, hlane _ i, rfl, ?_⟩
        intro p hp
        simp only [Arr.moveFront, hax]
        rw [drop_insertIdx_self i _ p (by simp at hp; omega)]
        rw [paramsAt_moved ps n (laneShape a0).length i _ hi
          (fun a ha => hv.1 a (hmem a ha)) (fun a ha => hr a (hmem a ha))
          (by simp at hp ⊢; omega)]

/-- **the rule is lane-wise.**  For every sampler signature, positional / keyword mix, `in_axes`
    (any mapped axis position per argument, or none), `sample_shape` and axis size: if the mapped
    arguments all have the maximal per-lane rank (`LaneAligned`) and the un-mapped site is defined
    on a lane (`laneBatchShape s = some B`), then the vectorised site (current code, `Cfg.spec`)
    returns an array of shape `n :: sample_shape ++ B` whose lane i is exactly what the un-mapped
    site draws from lane i's parameter slices, at the positions `p.insertIdx (laneAxis s) i` of the
    ONE sampler call. -/
theorem rule_lanewise (site : κ → List Nat → List (Option α) → β) (key : κ) (s : Site ν α)
    (n : Nat) (B : List Nat) (hv : s.Valid n) (hal : s.LaneAligned)
    (hB : laneBatchShape s = some B) :
    ∃ R, vmapSite Cfg.spec site key s n = some R ∧ R.shape = n :: (s.sampleShape ++ B) ∧
      ∀ i, i < n → ∃ L,
        laneDraw (fun k p v => site k (p.insertIdx (laneAxis s) i) v) key s i = some L ∧
        L.shape = s.sampleShape ++ B ∧
        ∀ p, p.length = (s.sampleShape ++ B).length → R.get (i :: p) = L.get p :=
  (rule_lanewise_full site key s n B hv hal hB).2

/-- the sampler is called ONCE; the array it returns has the lanes at axis `laneAxis s`, which is
    the axis the rule declares -/
theorem rule_one_call (site : κ → List Nat → List (Option α) → β) (key : κ) (s : Site ν α)
    (n : Nat) (B : List Nat) (hv : s.Valid n) (hal : s.LaneAligned)
    (hB : laneBatchShape s = some B) (hn : n ≠ 0) :
    ∃ res, rule Cfg.spec site key s n = some (res, some (laneAxis s)) ∧
      res.shape = (s.sampleShape ++ B).insertIdx (laneAxis s) n :=
  (rule_lanewise_full site key s n B hv hal hB).1 hn

omit [DecidableEq ν] in
theorem laneAxis_le (s : Site ν α) : laneAxis s ≤ s.sampleShape.length := by
  unfold laneAxis; split <;> simp

omit [DecidableEq ν] in
/-- the positions `(lane i, position p inside the lane)` ↦ `p.insertIdx (laneAxis s) i` are
    pairwise distinct entries of the array returned by the one call: with
    `C07_vectorised_draws_distinct` (all entries of all calls of a run have distinct
    (key, position) coordinates) every (lane, s, b) reads its own randomness -/
theorem rule_positions (s : Site ν α) (n : Nat) (B : List Nat) :
    (∀ i p, i < n → p ∈ Seed.indices (s.sampleShape ++ B) →
      p.insertIdx (laneAxis s) i ∈ Seed.indices ((s.sampleShape ++ B).insertIdx (laneAxis s) n)) ∧
    (∀ i i' p p', p ∈ Seed.indices (s.sampleShape ++ B) → p' ∈ Seed.indices (s.sampleShape ++ B) →
      p.insertIdx (laneAxis s) i = p'.insertIdx (laneAxis s) i' → i = i' ∧ p = p') := by
  constructor
  · intro i p hi hp
    rw [Seed.mem_indices] at hp ⊢
    exact forall₂_insertIdx hi _ hp
  · intro i i' p p' hp hp' h
    rw [Seed.mem_indices] at hp hp'
    have hl := hp.length_eq
    have hl' := hp'.length_eq
    have := laneAxis_le s
    simp only [List.length_append] at hl hl'
    exact insertIdx_inj (by omega) (by omega) h

omit [DecidableEq ν] in
/-- for a site without parameter batch shape the position is the one the C07 model
    (`Seed.lanePos`, one level) assigns to lane i -/
theorem lanePos_one_level (n i : Nat) (batched : Bool) (o : List Nat) :
    Seed.lanePos [(n, batched)] [i] o = o.insertIdx (if batched then o.length else 0) i := by
  cases batched <;> simp [Seed.lanePos, Seed.unbIdx, Seed.batIdx, List.insertIdx_length_self]

end Main

section Bools
variable {ν α : Type} [DecidableEq ν]

omit [DecidableEq ν] in
theorem alignedB_iff (s : Site ν α) : s.alignedB = true ↔ s.LaneAligned := by
  simp only [Site.alignedB, Site.LaneAligned, List.all_eq_true, Bool.or_eq_true, Bool.not_eq_true',
    decide_eq_true_eq]
  constructor
  · intro h a ha hb c hc
    rcases h a ha with h1 | h1
    · simp [h1] at hb
    · exact h1 c hc
  · intro h a ha
    cases hb : a.bdim.isSome
    · exact Or.inl rfl
    · exact Or.inr (h a ha hb)

theorem validB_iff (s : Site ν α) (n : Nat) : s.validB n = true ↔ s.Valid n := by
  simp only [Site.validB, Site.Valid, Bool.and_eq_true, List.all_eq_true, decide_eq_true_eq]
  constructor
  · rintro ⟨h, hnd⟩
    refine ⟨fun a ha d hd => ?_, hnd⟩
    have := h a ha
    simpa [hd] using this
  · rintro ⟨h, hnd⟩
    refine ⟨fun a ha => ?_, hnd⟩
    cases hd : a.bdim with
    | none => rfl
    | some d => simpa using h a ha d hd

end Bools

/-! ### concrete instances (non-vacuity and the proved counterexamples) -/
namespace Ex

def v2 : Arr Nat := Arr.ofFlat [2] [1, 2] 0
def v3 : Arr Nat := Arr.ofFlat [3] [1, 2, 3] 0
def m22 : Arr Nat := Arr.ofFlat [2, 2] [11, 12, 21, 22] 0
def w22 : Arr Nat := Arr.ofFlat [2, 2] [51, 52, 61, 62] 0
def m23 : Arr Nat := Arr.ofFlat [2, 3] [11, 12, 13, 21, 22, 23] 0
def m32 : Arr Nat := Arr.ofFlat [3, 2] [11, 12, 21, 22, 31, 32] 0
def m33 : Arr Nat := Arr.ofFlat [3, 3] [11, 12, 13, 21, 22, 23, 31, 32, 33] 0

/-- a site inside the region of `rule_lanewise`: signature (0, 1, 2), own `sample_shape=(2,)`, one
    positional parameter mapped along axis 1 (`in_axes=1`, per-lane shape (2,)), parameter 2 given
    BY KEYWORD and mapped along axis 0 (per-lane shape (2,)), a constant keyword parameter 1; 3 lanes -/
def mixed : Site Nat Nat :=
  ⟨[0, 1, 2], [2], [⟨m23, some 1⟩], [(1, ⟨Arr.ofFlat [] [7] 0, none⟩), (2, ⟨m32, some 0⟩)]⟩

/-- `bernoulli(probs=p)`: signature (logits = 0, probs = 1), only `probs` given, by keyword -/
def kwOnly : Site Nat Nat := ⟨[0, 1], [], [], [(1, ⟨v2, some 0⟩)]⟩

/-- two vector-per-lane parameters, the first mapped with `in_axes=1`, the second with `in_axes=0` -/
def axis1 : Site Nat Nat := ⟨[0, 1], [], [⟨m22, some 1⟩, ⟨w22, some 0⟩], []⟩

/-- the open finding: per lane a scalar `loc` and a vector `scale` of length 3; 3 lanes -/
def rank33 : Site Nat Nat := ⟨[0, 1], [], [⟨v3, some 0⟩, ⟨m33, some 0⟩], []⟩
/-- … and a vector `scale` of length 2; 3 lanes -/
def rank32 : Site Nat Nat := ⟨[0, 1], [], [⟨v3, some 0⟩, ⟨m32, some 0⟩], []⟩

theorem mixed_hyps : mixed.Valid 3 ∧ mixed.LaneAligned ∧ laneBatchShape mixed = some [2] :=
  ⟨(validB_iff _ _).1 (by decide), (alignedB_iff _).1 (by decide), by decide⟩

theorem axis1_hyps : axis1.Valid 2 ∧ axis1.LaneAligned ∧ laneBatchShape axis1 = some [2] :=
  ⟨(validB_iff _ _).1 (by decide), (alignedB_iff _).1 (by decide), by decide⟩

theorem kwOnly_hyps : kwOnly.Valid 2 ∧ kwOnly.LaneAligned ∧ laneBatchShape kwOnly = some [] :=
  ⟨(validB_iff _ _).1 (by decide), (alignedB_iff _).1 (by decide), by decide⟩

end Ex

end Genjax.VmapRule
