import GenjaxModel.Model.GfiRegenDist
import GenjaxModel.Proofs.GfiLaw
import GenjaxModel.Proofs.GfiAssess
/-!
  The kernel specification `GF.regenW` in terms of the program's DENSITY (Cond-free programs):
  for a coherent old trace `t` with choice map `x` and a new choice map `x'` (both of the program's
  static shape)

      regenW t s x' args' = if x, x' agree off the selection
                            then ((selected mass of x', unselected mass of x' · unselE t), retval)
                            else none                                            (`regenW_eq`)

  where the masses are those of `GF.assessS` (the split of `assessP` along the selection).
-/
namespace Genjax

section Lists
variable {K : Type} [Field K] {R : Type}

/-- positional agreement off the selection of two lists of choice maps -/
def listEqOff (s : Sel) : List CM → List CM → Bool
  | [], [] => true
  | x :: xs, y :: ys => CM.eqOff s x y && listEqOff s xs ys
  | _, _ => false

theorem CML.eqOffPos_toList (s : Sel) : ∀ (a b : CML),
    CML.eqOffPos s a b = listEqOff s a.toList b.toList
  | .nil, .nil => rfl
  | .nil, .cons _ _ _ => rfl
  | .cons _ _ _, .nil => rfl
  | .cons _ v r, .cons _ v' r' => by
      simp only [CML.eqOffPos, CML.toList, listEqOff, CML.eqOffPos_toList s r r']

/-- the summary of a list of lane results: (product of the first masses, product of the second),
    return values -/
def finL (rs : List ((K × K) × Val)) : (K × K) × List Val :=
  ((prodK (rs.map (·.1.1)), prodK (rs.map (·.1.2))), rs.map (·.2))

theorem lanes_regenW (s : Sel) (F : Nat → Tr R → CM → Option ((K × K) × Val))
    (H : Nat → CM → Option ((K × K) × Val)) (u : Tr R → K) :
    ∀ (ts : List (Tr R)) (cs cs' : List CM) (i : Nat),
      List.Forall₂ (fun t c => t.choices = some c) ts cs → cs.length = cs'.length →
      (∀ t ∈ ts, ∀ c ∈ cs, ∀ c' ∈ cs', ∀ i, t.choices = some c →
        F i t c' = if CM.eqOff s c c'
          then (H i c').map (fun o => ((o.1.1, o.1.2 * u t), o.2)) else none) →
      (forLanes (fun i (p : Tr R × CM) => F i p.1 p.2) i (ts.zip cs')).map finL
        = if listEqOff s cs cs'
          then ((forLanes H i cs').map finL).map
            (fun r => ((r.1.1, r.1.2 * prodK (ts.map u)), r.2))
          else none
  | [], _, cs', i, h, hl, _ => by
      cases h
      cases cs' with
      | nil => simp [forLanes, finL, listEqOff, prodK]
      | cons _ _ => simp at hl
  | t :: ts, _, cs', i, h, hl, hF => by
      cases h with
      | @cons _ c _ cs h1 h2 =>
        cases cs' with
        | nil => simp at hl
        | cons c' cs' =>
          have ih := lanes_regenW s F H u ts cs cs' (i + 1) h2 (by simpa using hl)
            (fun t ht c hc c' hc' => hF t (List.mem_cons_of_mem _ ht) c (List.mem_cons_of_mem _ hc)
              c' (List.mem_cons_of_mem _ hc'))
          have h0 := hF t List.mem_cons_self c List.mem_cons_self c' List.mem_cons_self i h1
          simp only [List.zip_cons_cons, forLanes, listEqOff, Option.bind_eq_bind, Option.pure_def,
            h0]
          by_cases hE1 : CM.eqOff s c c' = true
          case neg => simp [hE1]
          case pos =>
            simp only [hE1, if_true, Bool.true_and]
            cases hH : H i c' with
            | none => simp
            | some o =>
              simp only [Option.map_some, Option.bind_some]
              cases hT : forLanes (fun i (p : Tr R × CM) => F i p.1 p.2) (i + 1) (ts.zip cs') with
              | none =>
                rw [hT] at ih
                simp only [Option.map_none, Option.bind_none]
                by_cases hE2 : listEqOff s cs cs' = true
                case neg => simp [hE2]
                case pos =>
                  rw [if_pos hE2] at ih
                  simp only [hE2, if_true] at ih ⊢
                  cases hT2 : forLanes H (i + 1) cs' with
                  | none => simp
                  | some bs => rw [hT2] at ih; simp at ih
              | some as =>
                rw [hT] at ih
                by_cases hE2 : listEqOff s cs cs' = true
                case neg => rw [if_neg hE2] at ih; simp at ih
                case pos =>
                  rw [if_pos hE2] at ih
                  simp only [hE2, if_true] at ih ⊢
                  cases hT2 : forLanes H (i + 1) cs' with
                  | none => rw [hT2] at ih; simp at ih
                  | some bs =>
                    rw [hT2] at ih
                    simp only [Option.map_some, Option.some.injEq, finL, Prod.mk.injEq] at ih
                    obtain ⟨⟨ih1, ih2⟩, ih3⟩ := ih
                    simp only [Option.map_some, Option.bind_some, finL, List.map_cons, prodK,
                      ih1, ih2, ih3, Option.some.injEq, Prod.mk.injEq, and_true, true_and]
                    ring

/-- the summary of a run of step results -/
def finS (q : List ((K × K) × Val) × Val) : ((K × K) × List Val) × Val := (finL q.1, q.2)

theorem steps_regenW (s : Sel) (F : Val → Nat → Tr R → CM → Option ((K × K) × Val))
    (H : Val → Nat → CM → Option ((K × K) × Val)) (u : Tr R → K) :
    ∀ (ts : List (Tr R)) (cs cs' : List CM) (cr : Val) (i : Nat),
      List.Forall₂ (fun t c => t.choices = some c) ts cs → cs.length = cs'.length →
      (∀ t ∈ ts, ∀ c ∈ cs, ∀ c' ∈ cs', ∀ cr i, t.choices = some c →
        F cr i t c' = if CM.eqOff s c c'
          then (H cr i c').map (fun o => ((o.1.1, o.1.2 * u t), o.2)) else none) →
      (forSteps (fun cr i (p : Tr R × CM) => (F cr i p.1 p.2).bind fun o =>
          some ((o.1, o.2.snd), o.2.fst)) cr i (ts.zip cs')).map finS
        = if listEqOff s cs cs'
          then ((forSteps (fun cr i c' => (H cr i c').bind fun o =>
              some ((o.1, o.2.snd), o.2.fst)) cr i cs').map finS).map
            (fun r => (((r.1.1.1, r.1.1.2 * prodK (ts.map u)), r.1.2), r.2))
          else none
  | [], _, cs', cr, i, h, hl, _ => by
      cases h
      cases cs' with
      | nil => simp [forSteps, finS, finL, listEqOff, prodK]
      | cons _ _ => simp at hl
  | t :: ts, _, cs', cr, i, h, hl, hF => by
      cases h with
      | @cons _ c _ cs h1 h2 =>
        cases cs' with
        | nil => simp at hl
        | cons c' cs' =>
          have ih := fun cr => steps_regenW s F H u ts cs cs' cr (i + 1) h2 (by simpa using hl)
            (fun t ht c hc c' hc' => hF t (List.mem_cons_of_mem _ ht) c (List.mem_cons_of_mem _ hc)
              c' (List.mem_cons_of_mem _ hc'))
          have h0 := hF t List.mem_cons_self c List.mem_cons_self c' List.mem_cons_self cr i h1
          simp only [List.zip_cons_cons, forSteps, listEqOff, Option.bind_eq_bind, Option.pure_def,
            h0]
          by_cases hE1 : CM.eqOff s c c' = true
          case neg => simp [hE1]
          case pos =>
            simp only [hE1, if_true, Bool.true_and]
            cases hH : H cr i c' with
            | none => simp
            | some o =>
              simp only [Option.map_some, Option.bind_some]
              have ih := ih o.2.fst
              cases hT : forSteps (fun cr i (p : Tr R × CM) => (F cr i p.1 p.2).bind fun o =>
                  some ((o.1, o.2.snd), o.2.fst)) o.2.fst (i + 1) (ts.zip cs') with
              | none =>
                rw [hT] at ih
                simp only [Option.map_none, Option.bind_none]
                by_cases hE2 : listEqOff s cs cs' = true
                case neg => simp [hE2]
                case pos =>
                  rw [if_pos hE2] at ih
                  simp only [hE2, if_true] at ih ⊢
                  cases hT2 : forSteps (fun cr i c' => (H cr i c').bind fun o =>
                      some ((o.1, o.2.snd), o.2.fst)) o.2.fst (i + 1) cs' with
                  | none => simp
                  | some bs => rw [hT2] at ih; simp at ih
              | some as =>
                rw [hT] at ih
                by_cases hE2 : listEqOff s cs cs' = true
                case neg => rw [if_neg hE2] at ih; simp at ih
                case pos =>
                  rw [if_pos hE2] at ih
                  simp only [hE2, if_true] at ih ⊢
                  cases hT2 : forSteps (fun cr i c' => (H cr i c').bind fun o =>
                      some ((o.1, o.2.snd), o.2.fst)) o.2.fst (i + 1) cs' with
                  | none => rw [hT2] at ih; simp at ih
                  | some bs =>
                    rw [hT2] at ih
                    simp only [Option.map_some, Option.some.injEq, finS, finL, Prod.mk.injEq] at ih
                    obtain ⟨⟨⟨ih1, ih2⟩, ih3⟩, ih4⟩ := ih
                    simp only [Option.map_some, Option.bind_some, finS, finL, List.map_cons, prodK,
                      ih1, ih2, ih3, ih4, Option.some.injEq, Prod.mk.injEq, and_true, true_and]
                    ring

theorem lanesCoh_mem {coh : List Val → Tr R → Prop} {axes : List Bool} {args : List Val} :
    ∀ (ts : List (Tr R)) (i : Nat), lanesCoh coh axes args i ts → ∀ t ∈ ts, ∃ a, coh a t
  | [], _, _, t, ht => by cases ht
  | t0 :: ts, i, h, t, ht => by
      simp only [lanesCoh] at h
      rcases List.mem_cons.mp ht with rfl | ht
      · exact ⟨_, h.1⟩
      · exact lanesCoh_mem ts (i + 1) h.2 t ht

theorem stepsCoh_mem {coh : List Val → Tr R → Prop} {xsv : Val} :
    ∀ (ts : List (Tr R)) (c : Val) (i : Nat) (c' : Val), stepsCoh coh xsv c i ts c' →
      ∀ t ∈ ts, ∃ a, coh a t
  | [], _, _, _, _, t, ht => by cases ht
  | t0 :: ts, c, i, c', h, t, ht => by
      simp only [stepsCoh] at h
      rcases List.mem_cons.mp ht with rfl | ht
      · exact ⟨_, h.1⟩
      · exact stepsCoh_mem ts _ (i + 1) c' h.2 t ht

end Lists

section Main
variable {K : Type} [Field K] {R : Type} [Zero R] [Add R] [Neg R]
variable (e : R → K) (pd : PD K) (P : Prims R) (cfg : Cfg)

/-- multiply the weight component by the old trace's `unselE` -/
def addU (u : K) (o : (K × K) × Val) : (K × K) × Val := ((o.1.1, o.1.2 * u), o.2)

mutual
  theorem regenW_eq_gf (hsr : cfg.scanRegenDefined = true) : (g : GF) → g.condFree = true →
      ∀ (t : Tr R) (a : List Val) (s : Sel) (x x' : CM) (a' : List Val),
      g.Coh P a t → t.choices = some x → g.skel = some x.skel → g.skel = some x'.skel →
      g.regenW e pd cfg t s x' a'
        = if CM.eqOff s x x' then (g.assessS pd x' s a').map (addU (g.unselE e t s)) else none
    | .dist d, _, t, a, s, x, x', a', h, hx, _, hs' => by
        cases t <;> simp only [GF.Coh] at h
        rename_i vOld sOld
        simp only [Tr.choices, Option.some.injEq] at hx
        subst hx
        simp only [GF.skel, Option.some.injEq] at hs'
        obtain ⟨v', rfl⟩ := CM.skel_leaf hs'
        simp only [GF.regenW, GF.assessS, GF.unselE, CM.eqOff]
        by_cases hsl : s.leaf = true
        · simp [hsl, addU]
        · by_cases hv : v' = vOld
          · subst hv; simp [hsl, addU]
          · have hv' : ¬ vOld = v' := fun h => hv h.symm
            simp [hsl, hv, hv', addU]
    | .fn body, hg, t, a, s, x, x', a', h, hx, hs, hs' => by
        cases t <;> simp only [GF.Coh] at h
        rename_i subs r sc
        simp only [GF.condFree] at hg
        simp only [Tr.choices, Option.map_eq_some_iff] at hx
        obtain ⟨X, hX, rfl⟩ := hx
        simp only [GF.skel, Option.map_eq_some_iff] at hs hs'
        obtain ⟨sk, hbs, hsk⟩ := hs
        obtain ⟨sk', hbs', hsk'⟩ := hs'
        obtain ⟨X', rfl, rfl⟩ := CM.skel_node hsk'
        simp only [CM.skel, CM.node.injEq] at hsk
        subst hsk
        simp only [GF.regenW, GF.assessS, GF.unselE, CM.eqOff]
        exact regenW_eq_body hsr body hg subs a s X X' X X' a' [] h.1 hX (fun _ _ => rfl)
          (fun _ _ => rfl) hbs hbs' (by simp)
    | .vmap g axes n, hg, t, a, s, x, x', a', h, hx, hs, hs' => by
        cases t <;> simp only [GF.Coh] at h
        rename_i old
        obtain ⟨hlen, hl⟩ := h
        simp only [GF.condFree] at hg
        simp only [Tr.choices, Option.map_eq_some_iff] at hx
        obtain ⟨lx, hlx, rfl⟩ := hx
        simp only [GF.skel, Option.map_eq_some_iff] at hs hs'
        obtain ⟨sk, hls, hsk⟩ := hs
        obtain ⟨sk', hls', hsk'⟩ := hs'
        obtain ⟨l', rfl, rfl⟩ := CM.skel_lanes hsk'
        simp only [CM.skel, CM.lanes.injEq] at hsk
        subst hsk
        obtain ⟨_, h2, h3⟩ := skelLanes_eq hls
        obtain ⟨_, h2', h3'⟩ := skelLanes_eq hls'
        have hF := TrL.choices_toList old lx hlx
        have key := lanes_regenW s
          (fun i t c' => g.regenW e pd cfg t s c' (laneArgs axes a' i))
          (fun i c' => g.assessS pd c' s (laneArgs axes a' i)) (fun t => g.unselE e t s)
          old.toList lx.toList l'.toList 0 hF (by rw [h2, h2'])
          (fun t ht c hc c' hc' i htc => by
            obtain ⟨a0, hcoh⟩ := lanesCoh_mem _ _ hl t ht
            exact regenW_eq_gf hsr g hg t a0 s c c' _ hcoh htc (h3 c hc) (h3' c' hc'))
        simp only [GF.regenW, GF.assessS, GF.unselE, CM.eqOff, lenIs, hlen, h2', if_true,
          Option.bind_eq_bind, Option.bind_some, Option.pure_def, CML.eqOffPos_toList]
        have br : ∀ X : Option (List ((K × K) × Val)),
            (X.bind fun rs => some ((prodK (rs.map (·.1.1)), prodK (rs.map (·.1.2))),
              Val.ofList (rs.map (·.2))))
            = (X.map finL).map (fun r => (r.1, Val.ofList r.2)) := by
          intro X; cases X <;> rfl
        rw [br, br, key]
        by_cases hE : listEqOff s lx.toList l'.toList = true
        · simp only [hE, if_true]
          cases forLanes (fun i c' => g.assessS pd c' s (laneArgs axes a' i)) 0 l'.toList <;> rfl
        · simp [hE]
    | .scan g n, hg, t, a, s, x, x', a', h, hx, hs, hs' => by
        cases t <;> simp only [GF.Coh] at h
        rename_i old c0
        obtain ⟨hlen, hl⟩ := h
        simp only [GF.condFree] at hg
        simp only [Tr.choices, Option.map_eq_some_iff] at hx
        obtain ⟨lx, hlx, rfl⟩ := hx
        simp only [GF.skel, Option.map_eq_some_iff] at hs hs'
        obtain ⟨sk, hls, hsk⟩ := hs
        obtain ⟨sk', hls', hsk'⟩ := hs'
        obtain ⟨l', rfl, rfl⟩ := CM.skel_lanes hsk'
        simp only [CM.skel, CM.lanes.injEq] at hsk
        subst hsk
        obtain ⟨_, h2, h3⟩ := skelLanes_eq hls
        obtain ⟨_, h2', h3'⟩ := skelLanes_eq hls'
        have hF := TrL.choices_toList old lx hlx
        have key := steps_regenW s
          (fun cr i t c' => g.regenW e pd cfg t s c' [cr, (a'.getD 1 .nil).nth i])
          (fun cr i c' => g.assessS pd c' s [cr, (a'.getD 1 .nil).nth i]) (fun t => g.unselE e t s)
          old.toList lx.toList l'.toList (a'.getD 0 .nil) 0 hF (by rw [h2, h2'])
          (fun t ht c hc c' hc' cr i htc => by
            obtain ⟨a0, hcoh⟩ := stepsCoh_mem _ _ _ _ hl t ht
            exact regenW_eq_gf hsr g hg t a0 s c c' _ hcoh htc (h3 c hc) (h3' c' hc'))
        simp only [GF.regenW, GF.assessS, GF.unselE, CM.eqOff, lenIs, hlen, h2', if_true, hsr,
          Bool.not_true, Bool.false_eq_true, if_false,
          Option.bind_eq_bind, Option.bind_some, Option.pure_def, CML.eqOffPos_toList]
        have br : ∀ X : Option (List ((K × K) × Val) × Val),
            (X.bind fun q => some ((prodK (q.1.map (·.1.1)), prodK (q.1.map (·.1.2))),
              Val.pair q.2 (Val.ofList (q.1.map (·.2)))))
            = (X.map finS).map (fun r => (r.1.1, Val.pair r.2 (Val.ofList r.1.2))) := by
          intro X; cases X <;> rfl
        rw [br, br, key]
        by_cases hE : listEqOff s lx.toList l'.toList = true
        · simp only [hE, if_true]
          cases forSteps (fun cr i c' => (g.assessS pd c' s [cr, (a'.getD 1 .nil).nth i]).bind
            fun o => some ((o.1, o.2.snd), o.2.fst)) (a'.getD 0 .nil) 0 l'.toList <;> rfl
        · simp [hE]
    | .cond _ _, hg, _, _, _, _, _, _, _, _, _, _ => by simp [GF.condFree] at hg
  theorem regenW_eq_body (hsr : cfg.scanRegenDefined = true) : (b : Body) → b.condFree = true →
      ∀ (subs : TrL R) (env : List Val) (s : Sel) (X X' rem rem' : CML) (env' : List Val)
      (seen : List String),
      b.Coh P env subs → subs.choices = some X →
      (∀ a, seen.contains a = false → X.find? a = rem.find? a) →
      (∀ a, seen.contains a = false → X'.find? a = rem'.find? a) →
      b.skel = some rem.skel → b.skel = some rem'.skel → (∀ a ∈ b.addrs, a ∉ seen) →
      b.regenW e pd cfg subs s X' env' seen
        = if CML.eqOffKeys s rem rem'
          then (b.assessS pd X' s env' seen).map (addU (b.unselE e subs s)) else none
    | .ret ex, _, subs, env, s, X, X', rem, rem', env', seen, _, _, _, _, hs, hs', _ => by
        simp only [Body.skel, Option.some.injEq] at hs hs'
        have := CML.skel_eq_nil hs.symm
        subst this
        have := CML.skel_eq_nil hs'.symm
        subst this
        simp [Body.regenW, Body.assessS, Body.unselE, CML.eqOffKeys, addU]
    | .call addr g es rest, hb, subs, env, s, X, X', rem, rem', env', seen, h, hX, hf, hf', hs, hs',
        hseen => by
        simp only [Body.Coh] at h
        obtain ⟨hnot, t, hft, hgc, hrc⟩ := h
        simp only [Body.condFree, Bool.and_eq_true] at hb
        simp only [Body.skel, Option.bind_eq_bind, Option.pure_def, Option.bind_eq_some_iff,
          Option.some.injEq] at hs hs'
        obtain ⟨gs, hgs, rs, hrs, hs⟩ := hs
        obtain ⟨gs', hgs', rs', hrs', hs'⟩ := hs'
        obtain ⟨c, rem1, rfl, rfl, rfl⟩ := CML.skel_eq_cons hs.symm
        obtain ⟨c', rem1', rfl, hcs', hrs1'⟩ := CML.skel_eq_cons hs'.symm
        have h3 : seen.contains addr = false := by
          simpa using hseen addr (by simp [Body.addrs])
        obtain ⟨c0, hc0, hfc0⟩ := TrL.choices_find subs X hX addr t hft
        have hXa : X.find? addr = some c := by rw [hf addr h3]; simp [CML.find?]
        have hX'a : X'.find? addr = some c' := by rw [hf' addr h3]; simp [CML.find?]
        have hcc : c0 = c := by rw [hfc0] at hXa; exact Option.some.inj hXa
        subst hcc
        have hseen' : ∀ a ∈ rest.addrs, a ∉ addr :: seen := by
          intro a ha
          simp only [List.mem_cons, not_or]
          refine ⟨?_, hseen a (by simp [Body.addrs, ha])⟩
          rintro rfl; exact hnot ha
        have hfind : ∀ (Y r1 : CML) (cc : CM), (∀ a, seen.contains a = false →
            Y.find? a = (CML.cons addr cc r1).find? a) →
            ∀ a, (addr :: seen).contains a = false → Y.find? a = r1.find? a := by
          intro Y r1 cc hY a ha
          simp only [List.contains_cons, Bool.or_eq_false_iff, beq_eq_false_iff_ne, ne_eq] at ha
          rw [hY a ha.2]
          simp only [CML.find?, if_neg ha.1]
        have ihg := regenW_eq_gf hsr g hb.1 t _ (s.matchAddr addr).2 c0 c' (es.map (·.eval env'))
          hgc hc0 hgs (by rw [hgs', hcs'])
        have ihr := fun env'' => regenW_eq_body hsr rest hb.2 subs (env ++ [t.retval]) s X X' rem1
          rem1' env'' (addr :: seen) hrc hX (hfind X rem1 c0 hf) (hfind X' rem1' c' hf') hrs
          (by rw [hrs', hrs1']) hseen'
        simp only [Body.regenW, Body.assessS, Body.unselE, CML.eqOffKeys, h3, hft, hX'a, ihg,
          Bool.false_eq_true, if_false, decide_true, Bool.true_and, Option.bind_eq_bind,
          Option.pure_def]
        by_cases hE1 : CM.eqOff (s.matchAddr addr).2 c0 c' = true
        · simp only [hE1, if_true, Bool.true_and]
          cases g.assessS pd c' (s.matchAddr addr).2 (es.map (·.eval env')) with
          | none => simp
          | some o =>
            simp only [Option.map_some, Option.bind_some, addU, ihr]
            by_cases hE2 : CML.eqOffKeys s rem1 rem1' = true
            · simp only [hE2, if_true]
              cases rest.assessS pd X' s (env' ++ [o.2]) (addr :: seen) with
              | none => simp
              | some o' =>
                simp only [Option.map_some, Option.bind_some, addU, Option.some.injEq,
                  Prod.mk.injEq, and_true, true_and]
                ring
            · simp [hE2]
        · simp [hE1]
end

/-- **The regenerate kernel in terms of the density** (Cond-free programs, repaired Scan): for a
    coherent old trace with choice map `x` and a new choice map `x'`, both of the program's static
    shape: `x'` is reachable iff it agrees with `x` off the selection, the proposal mass is the
    product of the masses of the SELECTED sites of `x'`, the weight is the product of the masses of
    the unselected sites of `x'` times `unselE t` (the reciprocal of that product for `x`). -/
theorem regenW_eq (hsr : cfg.scanRegenDefined = true) (g : GF) (hcf : g.condFree = true)
    (t : Tr R) (a : List Val) (s : Sel) (x x' : CM) (a' : List Val)
    (hc : g.Coh P a t) (hx : t.choices = some x) (hs : g.skel = some x.skel)
    (hs' : g.skel = some x'.skel) :
    g.regenW e pd cfg t s x' a'
      = if CM.eqOff s x x' then (g.assessS pd x' s a').map (addU (g.unselE e t s)) else none :=
  regenW_eq_gf e pd P cfg hsr g hcf t a s x x' a' hc hx hs hs'

end Main

end Genjax
