import GenjaxModel.Model.Chain
import Mathlib.Tactic.Ring
import Mathlib.Tactic.Linarith
/-!
  C18: `chain` returns exactly the burnt-in, thinned kernel iterates and their accept flags.
-/
namespace Genjax.Chain
variable {σ : Type} [Inhabited σ]

omit [Inhabited σ] in
theorem run_getD_aux (step : Nat → σ → σ × Bool) (init : σ) (d : σ × Bool) :
    ∀ (n j i : Nat), i < n →
    (run step n j (iter step j init)).getD i d
      = (iter step (j + i + 1) init, accepted step (j + i) init) := by
  intro n
  induction n with
  | zero => intro j i hi; omega
  | succ n ih =>
    intro j i hi
    cases i with
    | zero => simp [run, iter, accepted]
    | succ i =>
      have := ih (j + 1) i (by omega)
      simp only [run, List.getD_cons_succ]
      have e : (step j (iter step j init)).1 = iter step (j + 1) init := rfl
      rw [e, this]
      have : j + 1 + i = j + (i + 1) := by omega
      rw [this]

omit [Inhabited σ] in
theorem run_length (step : Nat → σ → σ × Bool) : ∀ (n j : Nat) (s : σ), (run step n j s).length = n := by
  intro n
  induction n with
  | zero => intro j s; rfl
  | succ n ih => intro j s; simp [run, ih]

theorem arangeFuel_length (stop k : Nat) (hk : 0 < k) :
    ∀ (fuel i : Nat), stop - i ≤ fuel → (arangeFuel stop k fuel i).length = (stop - i + k - 1) / k := by
  intro fuel
  induction fuel with
  | zero =>
    intro i h
    have : stop - i + k - 1 < k := by omega
    simp [arangeFuel, Nat.div_eq_of_lt this]
  | succ fuel ih =>
    intro i h
    simp only [arangeFuel]
    split
    · rename_i hlt
      rw [List.length_cons, ih (i + k) (by omega)]
      by_cases hc : k ≤ stop - i
      · have : stop - i + k - 1 = (stop - (i + k) + k - 1) + k := by omega
        rw [this, Nat.add_div_right _ hk]
      · have h1 : stop - (i + k) + k - 1 < k := by omega
        rw [Nat.div_eq_of_lt h1]
        have h2 : stop - i + k - 1 = (stop - i - 1) + k := by omega
        rw [h2, Nat.add_div_right _ hk, Nat.div_eq_of_lt (by omega)]
    · rename_i hge
      have : stop - i + k - 1 < k := by omega
      simp [Nat.div_eq_of_lt this]

theorem arangeFuel_getD (stop k : Nat) (d : Nat) :
    ∀ (fuel i j : Nat), j < (arangeFuel stop k fuel i).length →
      (arangeFuel stop k fuel i).getD j d = i + j * k ∧ i + j * k < stop := by
  intro fuel
  induction fuel with
  | zero => intro i j h; simp [arangeFuel] at h
  | succ fuel ih =>
    intro i j h
    simp only [arangeFuel] at h ⊢
    split at h
    · rename_i hlt
      rw [if_pos hlt]
      cases j with
      | zero => simp [hlt]
      | succ j =>
        simp only [List.length_cons, Nat.add_lt_add_iff_right] at h
        have := ih (i + k) j h
        simp only [List.getD_cons_succ]
        rw [this.1]
        constructor
        · ring
        · have e : i + (j + 1) * k = i + k + j * k := by ring
          rw [e]; exact this.2
    · simp at h

theorem getD_eq_getElem' {α : Type} (l : List α) (d : α) {i : Nat} (h : i < l.length) :
    l.getD i d = l[i] := by
  simp [List.getD_eq_getElem?_getD, List.getElem?_eq_getElem h]

theorem arange_length (b n k : Nat) (hk : 0 < k) : (arange b n k).length = (n - b + k - 1) / k :=
  arangeFuel_length n k hk n b (by omega)

theorem arange_getElem (b n k : Nat) (i : Nat) (hi : i < (arange b n k).length) :
    (arange b n k)[i] = b + i * k ∧ b + i * k < n := by
  have := arangeFuel_getD n k 0 n b i hi
  rw [← getD_eq_getElem' _ 0 hi]
  exact this

/-- the un-thinned run: element j is the state after j+1 applications, with its accept flag -/
theorem run_getD (step : Nat → σ → σ × Bool) (n : Nat) (init : σ) (j : Nat) (hj : j < n) :
    (run step n 0 init).getD j (default, false) = (iter step (j + 1) init, accepted step j init) := by
  have := run_getD_aux step init (default, false) n 0 j hj
  simpa [iter] using this

/-- retained count = ⌈(n − b)/k⌉ -/
theorem chain_count (step : Nat → σ → σ × Bool) (init : σ) (n b k : Nat) (hk : 0 < k) :
    (chain step init n b k).nSteps = (n - b + k - 1) / k ∧
    (chain step init n b k).states.length = (n - b + k - 1) / k ∧
    (chain step init n b k).accepts.length = (n - b + k - 1) / k := by
  simp only [chain, List.length_map, arange_length b n k hk, and_self]

/-- the i-th retained state is the state visited after step number b + i·k (i.e. after
    b + i·k + 1 kernel applications), and the i-th accept flag belongs to that very step -/
theorem chain_slice (step : Nat → σ → σ × Bool) (init : σ) (n b k : Nat) (hk : 0 < k)
    (i : Nat) (hi : i < (chain step init n b k).nSteps) :
    (chain step init n b k).states.getD i default = iter step (b + i * k + 1) init ∧
    (chain step init n b k).accepts.getD i false = accepted step (b + i * k) init := by
  have _ := hk
  have hi' : i < (arange b n k).length := hi
  obtain ⟨he, hlt⟩ := arange_getElem b n k i hi'
  have hr := run_getD step n init (b + i * k) hlt
  simp only [chain]
  rw [getD_eq_getElem' _ _ (by simpa using hi'), getD_eq_getElem' _ _ (by simpa using hi')]
  simp only [List.getElem_map, he, hr, and_self]

/-- with the same kernel randomness the thinned result is the slice of the un-thinned run -/
theorem chain_is_slice_of_full (step : Nat → σ → σ × Bool) (init : σ) (n b k : Nat) (hk : 0 < k)
    (i : Nat) (hi : i < (chain step init n b k).nSteps) :
    (chain step init n b k).states.getD i default =
      (chain step init n 0 1).states.getD (b + i * k) default ∧
    (chain step init n b k).accepts.getD i false =
      (chain step init n 0 1).accepts.getD (b + i * k) false := by
  have hi' : i < (arange b n k).length := hi
  obtain ⟨_, hlt⟩ := arange_getElem b n k i hi'
  have h1 := chain_slice step init n b k hk i hi
  have hfull : b + i * k < (chain step init n 0 1).nSteps := by
    rw [(chain_count step init n 0 1 Nat.one_pos).1]
    simpa using hlt
  have h2 := chain_slice step init n 0 1 Nat.one_pos (b + i * k) hfull
  simp only [Nat.zero_add, Nat.mul_one] at h2
  rw [h1.1, h1.2, h2.1, h2.2]
  exact ⟨rfl, rfl⟩

/-- acceptance_rate is the mean of the retained accept flags -/
theorem chain_accept_count (step : Nat → σ → σ × Bool) (init : σ) (n b k : Nat) :
    (chain step init n b k).acceptCount = ((chain step init n b k).accepts.filter id).length := by
  simp only [chain, List.filter_map, List.length_map]
  rfl

end Genjax.Chain

