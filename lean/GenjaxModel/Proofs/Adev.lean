import GenjaxModel.Model.Adev
import GenjaxModel.Model.AdevDet
import GenjaxModel.Model.Vi
import Mathlib.Algebra.Field.Basic
import Mathlib.Algebra.Order.Field.Basic
import Mathlib.Tactic.Ring
import Mathlib.Tactic.FieldSimp
import Mathlib.Tactic.Linarith
import Mathlib.Algebra.BigOperators.Field
import Mathlib.Analysis.SpecialFunctions.Log.Basic
/-!
  C11 (ADEV estimators), C15 (deterministic code = forward-mode AD), C17 (ELBO / optimiser).
-/
namespace Genjax.Adev

section Field
variable {K : Type} [Field K]

/-- flip_enum is exact: its value is E[k(b)] and its tangent is the derivative of
    p·k_T + (1−p)·k_F by the product rule (zero variance: no outcome is sampled) -/
theorem flipEnum_exact (p kT kF : Dual K) :
    (flipEnum p kT kF).v = Eflip p.v kT.v kF.v ∧
    (flipEnum p kT kF).d = p.d * (kT.v - kF.v) + p.v * kT.d + (1 - p.v) * kF.d := by
  constructor
  · simp only [flipEnum, Eflip, Dual.add, Dual.mul, Dual.sub, Dual.const]
  · simp only [flipEnum, Dual.add, Dual.mul, Dual.sub, Dual.const]
    ring

/-- REINFORCE on a flip is unbiased: averaging the estimate over the two outcomes gives exactly the
    value and tangent of flip_enum (requires 0 < p < 1, i.e. both outcome probabilities non-zero) -/
theorem reinforce_flip_unbiased (p kT kF : Dual K) (h1 : p.v ≠ 0) (h2 : 1 - p.v ≠ 0) :
    Eflip p.v (reinforce (flipProb p true) kT).v (reinforce (flipProb p false) kF).v = (flipEnum p kT kF).v ∧
    Eflip p.v (reinforce (flipProb p true) kT).d (reinforce (flipProb p false) kF).d = (flipEnum p kT kF).d := by
  constructor
  · simp only [flipEnum, Eflip, Dual.add, Dual.mul, Dual.sub, Dual.const, reinforce]
  · simp only [flipEnum, Eflip, Dual.add, Dual.mul, Dual.sub, Dual.const, reinforce, flipProb, if_true,
      Bool.false_eq_true, if_false]
    field_simp
    ring

/-- the measure-valued flip estimator is unbiased (for every p, also at the boundary) -/
theorem mvd_flip_unbiased (p kT kF : Dual K) :
    Eflip p.v (mvd true p kT kF).v (mvd false p kT kF).v = (flipEnum p kT kF).v ∧
    Eflip p.v (mvd true p kT kF).d (mvd false p kT kF).d = (flipEnum p kT kF).d := by
  constructor
  · simp only [flipEnum, Eflip, Dual.add, Dual.mul, Dual.sub, Dual.const, mvd, if_true,
      Bool.false_eq_true, if_false]
  · simp only [flipEnum, Eflip, Dual.add, Dual.mul, Dual.sub, Dual.const, mvd, if_true,
      Bool.false_eq_true, if_false]
    ring

/-- REINFORCE over any finite distribution: Σ_i p_i·(k_i' + k_i·p_i'/p_i) = (Σ_i p_i k_i)' -/
theorem reinforce_finite_unbiased (ps ks : List (Dual K)) (hl : ps.length = ks.length)
    (hp : ∀ p ∈ ps, p.v ≠ 0) :
    reinforceExpectedTangent ps ks = (enumAll ps ks).d := by
  induction ps generalizing ks with
  | nil => simp [reinforceExpectedTangent, enumAll, sumK, sumD]
  | cons p ps ih =>
    cases ks with
    | nil => simp at hl
    | cons k ks =>
      have hp0 : p.v ≠ 0 := hp p (by simp)
      have ih' := ih ks (by simpa using hl) (fun q hq => hp q (by simp [hq]))
      simp only [reinforceExpectedTangent, enumAll] at ih' ⊢
      simp only [List.zipWith_cons_cons, sumK, sumD, Dual.add, ih']
      simp only [reinforce, Dual.mul]
      field_simp
      ring

/-- every estimator is affine in the continuation's Dual, so an unbiased inner estimate may be
    replaced by its expectation (tower property; this is what makes compositions of different
    primitives unbiased): REINFORCE and MVD commute with averaging two continuation estimates -/
theorem reinforce_affine (pb k1 k2 : Dual K) (w : K) :
    (reinforce pb ⟨w * k1.v + (1 - w) * k2.v, w * k1.d + (1 - w) * k2.d⟩).d =
      w * (reinforce pb k1).d + (1 - w) * (reinforce pb k2).d := by
  simp only [reinforce]
  ring

theorem mvd_affine (b : Bool) (p kT1 kT2 kF1 kF2 : Dual K) (w : K) :
    (mvd b p ⟨w * kT1.v + (1 - w) * kT2.v, w * kT1.d + (1 - w) * kT2.d⟩
             ⟨w * kF1.v + (1 - w) * kF2.v, w * kF1.d + (1 - w) * kF2.d⟩).d =
      w * (mvd b p kT1 kF1).d + (1 - w) * (mvd b p kT2 kF2).d := by
  cases b <;> simp only [mvd, if_true, Bool.false_eq_true, if_false] <;> ring

/-- two composed sites with DIFFERENT estimators (outer REINFORCE flip with parameter p, inner MVD
    flip with parameter q, arbitrary continuation values k b1 b2): the estimate averaged over all
    four outcomes is the exact derivative of Σ_{b1,b2} P(b1)P(b2) k(b1,b2), cross terms included -/
theorem compose_reinforce_mvd_unbiased (p q : Dual K) (k : Bool → Bool → Dual K)
    (h1 : p.v ≠ 0) (h2 : 1 - p.v ≠ 0) :
    let inner := fun b1 b2 => mvd b2 q (k b1 true) (k b1 false)
    let outer := fun b1 b2 => reinforce (flipProb p b1) (inner b1 b2)
    Eflip p.v (Eflip q.v (outer true true).d (outer true false).d)
              (Eflip q.v (outer false true).d (outer false false).d)
      = (flipEnum p (flipEnum q (k true true) (k true false))
                    (flipEnum q (k false true) (k false false))).d := by
  simp only [flipEnum, Eflip, Dual.add, Dual.mul, Dual.sub, Dual.const, reinforce, flipProb, mvd, if_true,
    Bool.false_eq_true, if_false]
  field_simp
  ring

end Field

section Det
variable {K : Type} [Field K] [LinearOrder K]

theorem adev_det_kont_aux (kont : Dual K → Dual K) (es : List (Eqn K)) (env : List (Dual K)) :
    adevEval kont es env = kont (jvpEval es env) := by
  induction es generalizing env with
  | nil => simp only [adevEval, jvpEval]
  | cons e es ih => simp only [adevEval, jvpEval, ih]

/-- C15: on code without random choices the ADEV interpreter with the identity continuation is
    ordinary forward-mode AD, for every program and every environment of input duals -/
theorem adev_det_eq_jvp (es : List (Eqn K)) (env : List (Dual K)) :
    adevEval id es env = jvpEval es env := by
  exact adev_det_kont_aux id es env

/-- … and with an arbitrary final continuation it is that continuation applied to the JVP result -/
theorem adev_det_kont (kont : Dual K → Dual K) (es : List (Eqn K)) (env : List (Dual K)) :
    adevEval kont es env = kont (jvpEval es env) := by
  exact adev_det_kont_aux kont es env

/-- the Dual arithmetic implements the sum and product rules -/
theorem dual_rules (a b : Dual K) :
    (Dual.add a b).d = a.d + b.d ∧ (Dual.mul a b).d = a.d * b.v + a.v * b.d ∧ (Dual.neg a).d = -a.d := by
  exact ⟨rfl, rfl, rfl⟩

end Det

end Genjax.Adev

namespace Genjax.Vi
variable {K : Type} [Field K]

theorem optimize_length (grad : Nat → K → K) (lr : K) (n i : Nat) (p : K) :
    (optimize grad lr n i p).length = n := by
  induction n generalizing i p with
  | zero => simp only [optimize, List.length_nil]
  | succ n ih => simp only [optimize, List.length_cons, ih]

/-- peel the FIRST step off `iter` (which is defined by peeling the last one) -/
theorem iter_succ_front (g : Nat → K → K) (lr : K) (j : Nat) (p : K) :
    iter g lr (j + 1) p = iter (fun k => g (k + 1)) lr j (p + lr * g 0 p) := by
  induction j with
  | zero => simp only [iter]
  | succ j ih =>
    have : iter g lr (j + 1 + 1) p = iter g lr (j + 1) p + lr * g (j + 1) (iter g lr (j + 1) p) := rfl
    rw [this, ih]
    rfl

theorem optimize_getD (grad : Nat → K → K) (lr : K) (d : K) (n i : Nat) (p : K) (j : Nat) (hj : j < n) :
    (optimize grad lr n i p).getD j d = iter (fun k => grad (i + k)) lr (j + 1) p := by
  induction n generalizing i p j with
  | zero => omega
  | succ n ih =>
    cases j with
    | zero => simp only [optimize, List.getD_cons_zero, iter, Nat.add_zero]
    | succ j =>
      simp only [optimize, List.getD_cons_succ]
      rw [ih (i + 1) _ j (by omega), iter_succ_front (fun k => grad (i + k)) lr (j + 1) p]
      have : (fun k => grad (i + 1 + k)) = (fun k => grad (i + (k + 1))) := by
        funext k; congr 1; omega
      rw [this]
      rfl

/-- the optimiser returns every iterate: `n` of them, the i-th being params after i+1 ascent steps -/
theorem optimize_history (grad : Nat → K → K) (lr : K) (n : Nat) (p0 : K) :
    (optimize grad lr n 0 p0).length = n ∧
    ∀ i, i < n → (optimize grad lr n 0 p0).getD i p0 = iter grad lr (i + 1) p0 := by
  refine ⟨optimize_length grad lr n 0 p0, fun i hi => ?_⟩
  have h := optimize_getD grad lr p0 n 0 p0 i hi
  simpa only [Nat.zero_add] using h

/-- each step applies params + learning_rate · gradient -/
theorem iter_step (grad : Nat → K → K) (lr : K) (n : Nat) (p0 : K) :
    iter grad lr (n + 1) p0 = iter grad lr n p0 + lr * grad n (iter grad lr n p0) := by
  rfl

/-- ELBO is tight at the exact posterior (linear domain): if q(z) = p(x,z)/p(x) then the importance
    ratio p(x,z)/q(z) equals p(x) for every z in the support, i.e. log p(x,z) − log q(z) = log p(x) -/
theorem elbo_tight (pxz px : K) (hz : pxz ≠ 0) (hx : px ≠ 0) : pxz / (pxz / px) = px := by
  field_simp

/-- ELBO ≤ log evidence (Gibbs' inequality, log domain over ℝ): for a variational family q on a finite
    support `s` (q_i > 0, Σ q_i = 1) and unnormalised joint weights p_i = p(x, z_i) > 0,
    E_q[log p(x,z) − log q(z)] = Σ_i q_i · log (p_i / q_i) ≤ log Σ_i p_i = log p(x).
    Proof: log t ≤ t − 1 at t = p_i / (Z q_i). -/
theorem elbo_le_evidence {ι : Type*} (s : Finset ι) (q p : ι → ℝ)
    (hq : ∀ i ∈ s, 0 < q i) (hp : ∀ i ∈ s, 0 < p i) (hsum : ∑ i ∈ s, q i = 1) :
    ∑ i ∈ s, q i * Real.log (p i / q i) ≤ Real.log (∑ i ∈ s, p i) := by
  have hne : s.Nonempty := by
    rcases s.eq_empty_or_nonempty with h | h
    · subst h; simp at hsum
    · exact h
  have hZ : 0 < ∑ i ∈ s, p i := Finset.sum_pos hp hne
  set Z := ∑ i ∈ s, p i with hZdef
  have hterm : ∀ i ∈ s, q i * Real.log (p i / q i) ≤ (p i / Z - q i) + q i * Real.log Z := by
    intro i hi
    have hqi := hq i hi
    have hpi := hp i hi
    have hpos : 0 < p i / (Z * q i) := div_pos hpi (mul_pos hZ hqi)
    have h1 := Real.log_le_sub_one_of_pos hpos
    have h2 : Real.log (p i / q i) = Real.log (p i / (Z * q i)) + Real.log Z := by
      rw [← Real.log_mul hpos.ne' hZ.ne']
      congr 1
      field_simp
    rw [h2, mul_add]
    have h3 : q i * Real.log (p i / (Z * q i)) ≤ q i * (p i / (Z * q i) - 1) :=
      mul_le_mul_of_nonneg_left h1 hqi.le
    have h4 : q i * (p i / (Z * q i) - 1) = p i / Z - q i := by
      field_simp
    linarith
  calc ∑ i ∈ s, q i * Real.log (p i / q i)
      ≤ ∑ i ∈ s, ((p i / Z - q i) + q i * Real.log Z) := Finset.sum_le_sum hterm
    _ = (∑ i ∈ s, p i) / Z - ∑ i ∈ s, q i + (∑ i ∈ s, q i) * Real.log Z := by
        rw [Finset.sum_add_distrib, Finset.sum_sub_distrib, ← Finset.sum_div, ← Finset.sum_mul]
    _ = Real.log Z := by
        rw [hsum, ← hZdef, div_self hZ.ne']; ring
end Genjax.Vi
