import GenjaxModel.Model.Adev
import GenjaxModel.Model.AdevDet
import GenjaxModel.Model.Vi
import Mathlib.Algebra.Field.Basic
import Mathlib.Algebra.Order.Field.Basic
import Mathlib.Tactic.Ring
import Mathlib.Tactic.FieldSimp
import Mathlib.Tactic.Linarith
/-!
  C11 (ADEV estimators), C15 (deterministic code = forward-mode AD), C17 (ELBO / optimiser).
-/
namespace Genjax.Adev

section Field
variable {K : Type} [Field K]

/-- flip_enum is exact: its value is E[k(b)] and its tangent is the derivative of
    p·k_T + (1−p)·k_F by the product rule (zero variance: no outcome is sampled) -/
theorem flipEnum_exact (p kT kF : Dual K) :
    (flipEnum p kT kF).v = Eflip p.v kT.v kF.v ∧
    (flipEnum p kT kF).d = p.d * (kT.v - kF.v) + p.v * kT.d + (1 - p.v) * kF.d := by
  sorry

/-- REINFORCE on a flip is unbiased: averaging the estimate over the two outcomes gives exactly the
    value and tangent of flip_enum (requires 0 < p < 1, i.e. both outcome probabilities non-zero) -/
theorem reinforce_flip_unbiased (p kT kF : Dual K) (h1 : p.v ≠ 0) (h2 : 1 - p.v ≠ 0) :
    Eflip p.v (reinforce (flipProb p true) kT).v (reinforce (flipProb p false) kF).v = (flipEnum p kT kF).v ∧
    Eflip p.v (reinforce (flipProb p true) kT).d (reinforce (flipProb p false) kF).d = (flipEnum p kT kF).d := by
  sorry

/-- the measure-valued flip estimator is unbiased (for every p, also at the boundary) -/
theorem mvd_flip_unbiased (p kT kF : Dual K) :
    Eflip p.v (mvd true p kT kF).v (mvd false p kT kF).v = (flipEnum p kT kF).v ∧
    Eflip p.v (mvd true p kT kF).d (mvd false p kT kF).d = (flipEnum p kT kF).d := by
  sorry

/-- REINFORCE over any finite distribution: Σ_i p_i·(k_i' + k_i·p_i'/p_i) = (Σ_i p_i k_i)' -/
theorem reinforce_finite_unbiased (ps ks : List (Dual K)) (hl : ps.length = ks.length)
    (hp : ∀ p ∈ ps, p.v ≠ 0) :
    reinforceExpectedTangent ps ks = (enumAll ps ks).d := by
  sorry

/-- every estimator is affine in the continuation's Dual, so an unbiased inner estimate may be
    replaced by its expectation (tower property; this is what makes compositions of different
    primitives unbiased): REINFORCE and MVD commute with averaging two continuation estimates -/
theorem reinforce_affine (pb k1 k2 : Dual K) (w : K) :
    (reinforce pb ⟨w * k1.v + (1 - w) * k2.v, w * k1.d + (1 - w) * k2.d⟩).d =
      w * (reinforce pb k1).d + (1 - w) * (reinforce pb k2).d := by
  sorry

theorem mvd_affine (b : Bool) (p kT1 kT2 kF1 kF2 : Dual K) (w : K) :
    (mvd b p ⟨w * kT1.v + (1 - w) * kT2.v, w * kT1.d + (1 - w) * kT2.d⟩
             ⟨w * kF1.v + (1 - w) * kF2.v, w * kF1.d + (1 - w) * kF2.d⟩).d =
      w * (mvd b p kT1 kF1).d + (1 - w) * (mvd b p kT2 kF2).d := by
  sorry

/-- two composed sites with DIFFERENT estimators (outer REINFORCE flip with parameter p, inner MVD
    flip with parameter q, arbitrary continuation values k b1 b2): the estimate averaged over all
    four outcomes is the exact derivative of Σ_{b1,b2} P(b1)P(b2) k(b1,b2), cross terms included -/
theorem compose_reinforce_mvd_unbiased (p q : Dual K) (k : Bool → Bool → Dual K)
    (h1 : p.v ≠ 0) (h2 : 1 - p.v ≠ 0) :
    let inner := fun b1 b2 => mvd b2 q (k b1 true) (k b1 false)
    let outer := fun b1 b2 => reinforce (flipProb p b1) (inner b1 b2)
    Eflip p.v (Eflip q.v (outer true true).d (outer true false).d)
              (Eflip q.v (outer false true).d (outer false false).d)
      = (flipEnum p (flipEnum q (k true true) (k true false))
                    (flipEnum q (k false true) (k false false))).d := by
  sorry

end Field

section Det
variable {K : Type} [Field K] [LinearOrder K]

/-- C15: on code without random choices the ADEV interpreter with the identity continuation is
    ordinary forward-mode AD, for every program and every environment of input duals -/
theorem adev_det_eq_jvp (es : List (Eqn K)) (env : List (Dual K)) :
    adevEval id es env = jvpEval es env := by
  sorry

/-- … and with an arbitrary final continuation it is that continuation applied to the JVP result -/
theorem adev_det_kont (kont : Dual K → Dual K) (es : List (Eqn K)) (env : List (Dual K)) :
    adevEval kont es env = kont (jvpEval es env) := by
  sorry

/-- the Dual arithmetic implements the sum and product rules -/
theorem dual_rules (a b : Dual K) :
    (Dual.add a b).d = a.d + b.d ∧ (Dual.mul a b).d = a.d * b.v + a.v * b.d ∧ (Dual.neg a).d = -a.d := by
  sorry

end Det

end Genjax.Adev

namespace Genjax.Vi
variable {K : Type} [Field K]

/-- the optimiser returns every iterate: `n` of them, the i-th being params after i+1 ascent steps -/
theorem optimize_history (grad : Nat → K → K) (lr : K) (n : Nat) (p0 : K) :
    (optimize grad lr n 0 p0).length = n ∧
    ∀ i, i < n → (optimize grad lr n 0 p0).getD i p0 = iter grad lr (i + 1) p0 := by
  sorry

/-- each step applies params + learning_rate · gradient -/
theorem iter_step (grad : Nat → K → K) (lr : K) (n : Nat) (p0 : K) :
    iter grad lr (n + 1) p0 = iter grad lr n p0 + lr * grad n (iter grad lr n p0) := by
  sorry

/-- ELBO is tight at the exact posterior (linear domain): if q(z) = p(x,z)/p(x) then the importance
    ratio p(x,z)/q(z) equals p(x) for every z in the support, i.e. log p(x,z) − log q(z) = log p(x) -/
theorem elbo_tight (pxz px : K) (hz : pxz ≠ 0) (hx : px ≠ 0) : pxz / (pxz / px) = px := by
  sorry

end Genjax.Vi
