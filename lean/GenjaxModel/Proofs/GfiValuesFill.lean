import GenjaxModel.Proofs.GfiValuesBase
/-!
  The repaired `Cond.update` (`cfg.condUpdateFill`) completes the constraint with the VISIBLE old
  choices (`CM.fill vis x`: the constraint wins, recursive on dicts, lane-wise on vectorised maps).
  Path-level facts about `CM.fill`:

  * a leaf of the constraint is a leaf of the completed constraint (`CM.fill_leafAt_some`),
  * where the constraint has no leaf, the completed constraint shows the old visible value —
    provided constraint and old map have the same kind of node (leaf / dict / vectorised of the same
    length) at every common prefix of the path (`CM.fill_leafAt_none`); a constraint that `update`
    accepts has that property (`update_agree` in GfiValuesUpdate.lean).
-/
namespace Genjax

/-- the kind of a choice-map node -/
inductive Kind where
  | leaf
  | node
  | lanes (n : Nat)
  deriving DecidableEq, Repr

def CM.kind : CM → Kind
  | .leaf _ => .leaf
  | .node _ => .node
  | .lanes l => .lanes l.toList.length

mutual
  /-- the kind of the sub-map at a path (`none` = the path leaves the map) -/
  def CM.kindAt : CM → Path → Option Kind
    | .leaf _, [] => some .leaf
    | .leaf _, _ :: _ => none
    | .node _, [] => some .node
    | .node kids, .key k :: p => kids.kindAtKey k p
    | .node _, .idx _ :: _ => none
    | .lanes kids, [] => some (.lanes kids.toList.length)
    | .lanes kids, .idx i :: p => kids.kindAtIdx i p
    | .lanes _, .key _ :: _ => none
  def CML.kindAtKey : CML → String → Path → Option Kind
    | .nil, _, _ => none
    | .cons k v rest, a, p => if a = k then v.kindAt p else rest.kindAtKey a p
  def CML.kindAtIdx : CML → Nat → Path → Option Kind
    | .nil, _, _ => none
    | .cons _ v _, 0, p => v.kindAt p
    | .cons _ _ rest, i + 1, p => rest.kindAtIdx i p
end

theorem CM.kindAt_nil (x : CM) : x.kindAt [] = some x.kind := by
  cases x <;> simp [CM.kindAt, CM.kind]

theorem CML.kindAtKey_eq : (l : CML) → (k : String) → (p : Path) →
    l.kindAtKey k p = (l.find? k).bind (·.kindAt p)
  | .nil, k, p => by simp [CML.kindAtKey, CML.find?]
  | .cons k' v rest, k, p => by
      simp only [CML.kindAtKey, CML.find?]
      split
      · simp
      · exact CML.kindAtKey_eq rest k p

theorem CML.kindAtIdx_eq : (l : CML) → (i : Nat) → (p : Path) →
    l.kindAtIdx i p = (l.toList[i]?).bind (·.kindAt p)
  | .nil, i, p => by simp [CML.kindAtIdx, CML.toList]
  | .cons k' v rest, 0, p => by simp [CML.kindAtIdx, CML.toList]
  | .cons k' v rest, i + 1, p => by
      simp only [CML.kindAtIdx, CML.toList, List.getElem?_cons_succ]
      exact CML.kindAtIdx_eq rest i p

theorem CM.kindAt_node_key (l : CML) (k : String) (p : Path) :
    (CM.node l).kindAt (.key k :: p) = (l.find? k).bind (·.kindAt p) := by
  simp only [CM.kindAt, CML.kindAtKey_eq]

theorem CM.kindAt_lanes_idx (l : CML) (i : Nat) (p : Path) :
    (CM.lanes l).kindAt (.idx i :: p) = (l.toList[i]?).bind (·.kindAt p) := by
  simp only [CM.kindAt, CML.kindAtIdx_eq]

/-- `x` and `y` have the same kind of node at `q` (where both reach `q`) -/
def AgreeAt (x y : CM) (q : Path) : Prop :=
  ∀ kx ky, x.kindAt q = some kx → y.kindAt q = some ky → kx = ky

/-! ## the merge of a Cond trace's branch maps: kinds -/

def mergeK : Option Kind → Option Kind → Option Kind
  | some k, _ => some k
  | none, o => o

theorem CML.mergeLanes_length (c : Bool) : (a b m : CML) → CML.mergeLanes c a b = some m →
    m.toList.length = a.toList.length ∧ m.toList.length = b.toList.length
  | .nil, b, m, h => by
      cases b <;> simp only [CML.mergeLanes, Option.some.injEq, reduceCtorEq] at h
      subst h; simp [CML.toList]
  | .cons k v rest, b, m, h => by
      cases b with
      | nil => simp [CML.mergeLanes] at h
      | cons k' v' rest' =>
        simp only [CML.mergeLanes, Option.bind_eq_bind, Option.bind_eq_some_iff, Option.pure_def,
          Option.some.injEq] at h
        obtain ⟨mv, _, r, hr, rfl⟩ := h
        have := CML.mergeLanes_length c rest rest' r hr
        simp [CML.toList, this.1, ← this.2]

mutual
  /-- the merged map reaches a path iff one of the branch maps does, with the kind of the first
      that does -/
  theorem CM.mergeCheck_kindAt (c : Bool) : (a b m : CM) → CM.mergeCheck c a b = some m →
      ∀ q, m.kindAt q = mergeK (a.kindAt q) (b.kindAt q)
    | .leaf va, b, m, h, q => by
        cases b <;> simp only [CM.mergeCheck, Option.some.injEq, reduceCtorEq] at h
        subst h
        cases q <;> simp [CM.kindAt, mergeK]
    | .node a, b, m, h, q => by
        cases b <;> simp only [CM.mergeCheck, Option.map_eq_some_iff, reduceCtorEq] at h
        obtain ⟨m', hm', rfl⟩ := h
        rename_i b
        match q with
        | [] => simp [CM.kindAt, mergeK]
        | .idx i :: q => simp [CM.kindAt, mergeK]
        | .key k :: q =>
          simp only [CM.kindAt]
          exact CML.mergeCheck_kindAt c a b m' hm' k q
    | .lanes a, b, m, h, q => by
        cases b <;> simp only [CM.mergeCheck, Option.map_eq_some_iff, reduceCtorEq] at h
        obtain ⟨m', hm', rfl⟩ := h
        rename_i b
        match q with
        | [] => simp [CM.kindAt, mergeK, (CML.mergeLanes_length c a b m' hm').1]
        | .key k :: q => simp [CM.kindAt, mergeK]
        | .idx i :: q =>
          simp only [CM.kindAt]
          exact CML.mergeLanes_kindAt c a b m' hm' i q
  theorem CML.mergeCheck_kindAt (c : Bool) : (a b m : CML) → CML.mergeCheck c a b = some m →
      ∀ k q, m.kindAtKey k q = mergeK (a.kindAtKey k q) (b.kindAtKey k q)
    | .nil, b, m, h, k, q => by
        simp only [CML.mergeCheck, Option.some.injEq] at h
        subst h
        simp [CML.kindAtKey, mergeK]
    | .cons k0 v rest, b, m, h, k, q => by
        simp only [CML.mergeCheck] at h
        split at h
        · rename_i v' hv'
          simp only [Option.bind_eq_bind, Option.bind_eq_some_iff, Option.pure_def,
            Option.some.injEq] at h
          obtain ⟨mv, hmv, r, hr, rfl⟩ := h
          have ihv := CM.mergeCheck_kindAt c v v' mv hmv q
          have ihr := CML.mergeCheck_kindAt c rest (b.erase k0) r hr k q
          simp only [CML.kindAtKey]
          split
          · rename_i hk
            subst hk
            rw [ihv, CML.kindAtKey_eq b k q, hv']
            rfl
          · rename_i hk
            rw [ihr, CML.kindAtKey_eq (b.erase k0) k q, CML.find?_erase_ne b k0 k hk,
              ← CML.kindAtKey_eq b k q]
        · rename_i hv'
          simp only [Option.bind_eq_bind, Option.bind_eq_some_iff, Option.pure_def,
            Option.some.injEq] at h
          obtain ⟨r, hr, rfl⟩ := h
          have ihr := CML.mergeCheck_kindAt c rest b r hr k q
          simp only [CML.kindAtKey]
          split
          · rename_i hk
            subst hk
            rw [CML.kindAtKey_eq b k q, hv']
            cases v.kindAt q <;> rfl
          · exact ihr
  theorem CML.mergeLanes_kindAt (c : Bool) : (a b m : CML) → CML.mergeLanes c a b = some m →
      ∀ i q, m.kindAtIdx i q = mergeK (a.kindAtIdx i q) (b.kindAtIdx i q)
    | .nil, b, m, h, i, q => by
        cases b <;> simp only [CML.mergeLanes, Option.some.injEq, reduceCtorEq] at h
        subst h
        simp [CML.kindAtIdx, mergeK]
    | .cons k0 v rest, b, m, h, i, q => by
        cases b with
        | nil => simp [CML.mergeLanes] at h
        | cons k' v' rest' =>
          simp only [CML.mergeLanes, Option.bind_eq_bind, Option.bind_eq_some_iff, Option.pure_def,
            Option.some.injEq] at h
          obtain ⟨mv, hmv, r, hr, rfl⟩ := h
          cases i with
          | zero =>
            simp only [CML.kindAtIdx]
            exact CM.mergeCheck_kindAt c v v' mv hmv q
          | succ i =>
            simp only [CML.kindAtIdx]
            exact CML.mergeLanes_kindAt c rest rest' r hr i q
end

/-! ## `fill`, one level -/

theorem CML.fill_find : (ys xs : CML) → (k : String) →
    (CML.fill ys xs).find? k =
      match ys.find? k, xs.find? k with
      | some yv, some xv => some (CM.fill yv xv)
      | some yv, none => some yv
      | none, o => o
  | .nil, xs, k => by
      simp only [CML.fill, CML.find?]
  | .cons k0 v rest, xs, k => by
      simp only [CML.fill]
      cases hx : xs.find? k0 with
      | some xv =>
        simp only [CML.find?]
        split
        · rename_i hk
          subst hk
          rw [hx]
        · rename_i hk
          rw [CML.fill_find rest (xs.erase k0) k, CML.find?_erase_ne xs k0 k hk]
      | none =>
        simp only [CML.find?]
        split
        · rename_i hk
          subst hk
          rw [hx]
        · exact CML.fill_find rest xs k

theorem CML.fillLanes_get : (ys xs : CML) → (i : Nat) →
    (CML.fillLanes ys xs).toList[i]? =
      match ys.toList[i]?, xs.toList[i]? with
      | some yv, some xv => some (CM.fill yv xv)
      | _, o => o
  | .nil, xs, i => by
      simp only [CML.fillLanes, CML.toList, List.getElem?_nil]
  | .cons k v rest, .nil, i => by
      simp only [CML.fillLanes, CML.toList, List.getElem?_nil]
      split
      · rename_i h; cases h
      · rfl
  | .cons k v rest, .cons k' xv xrest, i => by
      simp only [CML.fillLanes, CML.toList]
      cases i with
      | zero => simp
      | succ i =>
        simp only [List.getElem?_cons_succ]
        exact CML.fillLanes_get rest xrest i

theorem CML.fillLanes_length : (ys xs : CML) → (CML.fillLanes ys xs).toList.length = xs.toList.length
  | .nil, xs => by simp only [CML.fillLanes]
  | .cons k v rest, .nil => by simp only [CML.fillLanes]
  | .cons k v rest, .cons k' xv xrest => by
      simp only [CML.fillLanes, CML.toList, List.length_cons, CML.fillLanes_length rest xrest]

theorem CM.fill_kind (y x : CM) : (CM.fill y x).kind = x.kind := by
  cases y <;> cases x <;> simp [CM.fill, CM.kind, CML.fillLanes_length]

/-! ## `fill`, along a path -/

/-- a leaf of the constraint is a leaf of the completed constraint -/
theorem CM.fill_leafAt_some : ∀ (p : Path) (y x : CM) (v : Val), x.leafAt p = some v →
    (CM.fill y x).leafAt p = some v
  | [], y, x, v, h => by
      cases x <;> simp only [CM.leafAt, reduceCtorEq, Option.some.injEq] at h
      subst h
      cases y <;> simp [CM.fill, CM.leafAt]
  | .key k :: p, y, x, v, h => by
      cases x <;> simp only [CM.leafAt, reduceCtorEq] at h
      rename_i xs
      rw [CML.leafAtKey_eq] at h
      cases hx : xs.find? k with
      | none => rw [hx] at h; simp at h
      | some xv =>
        rw [hx] at h
        simp only [Option.bind_some] at h
        cases y with
        | node ys =>
          simp only [CM.fill, CM.leafAt_node_key, CML.fill_find, hx]
          cases ys.find? k with
          | none => simpa using h
          | some yv => simpa using CM.fill_leafAt_some p yv xv v h
        | _ => simp only [CM.fill, CM.leafAt_node_key, hx]; simpa using h
  | .idx i :: p, y, x, v, h => by
      cases x <;> simp only [CM.leafAt, reduceCtorEq] at h
      rename_i xs
      rw [CML.leafAtIdx_eq] at h
      cases hx : xs.toList[i]? with
      | none => rw [hx] at h; simp at h
      | some xv =>
        rw [hx] at h
        simp only [Option.bind_some] at h
        cases y with
        | lanes ys =>
          simp only [CM.fill, CM.leafAt_lanes_idx, CML.fillLanes_get, hx]
          cases ys.toList[i]? with
          | none => simpa using h
          | some yv => simpa using CM.fill_leafAt_some p yv xv v h
        | _ => simp only [CM.fill, CM.leafAt_lanes_idx, hx]; simpa using h

/-- the completed constraint has the constraint's kind wherever the constraint reaches, provided
    constraint and old map agree in kind at every proper prefix -/
theorem CM.fill_kindAt : ∀ (q : Path) (y x : CM) (kx : Kind),
    (∀ q', q' <+: q → q' ≠ q → AgreeAt x y q') → x.kindAt q = some kx →
    (CM.fill y x).kindAt q = some kx
  | [], y, x, kx, _, h => by
      rw [CM.kindAt_nil] at h ⊢
      rw [CM.fill_kind]; exact h
  | .key k :: q, y, x, kx, hpre, h => by
      have h0 := hpre [] (List.nil_prefix) (by simp) x.kind y.kind (CM.kindAt_nil x) (CM.kindAt_nil y)
      cases x <;> simp only [CM.kindAt, reduceCtorEq] at h
      rename_i xs
      cases y <;> simp only [CM.kind, reduceCtorEq] at h0
      rename_i ys
      rw [CML.kindAtKey_eq] at h
      cases hx : xs.find? k with
      | none => rw [hx] at h; simp at h
      | some xv =>
        rw [hx] at h
        simp only [Option.bind_some] at h
        simp only [CM.fill, CM.kindAt_node_key, CML.fill_find, hx]
        cases hy : ys.find? k with
        | none => simpa using h
        | some yv =>
          simp only [Option.bind_some]
          refine CM.fill_kindAt q yv xv kx ?_ h
          intro q' hq' hne k1 k2 h1 h2
          refine hpre (.key k :: q') (by simpa using hq') (by simpa using hne) k1 k2 ?_ ?_
          · simp [CM.kindAt_node_key, hx, h1]
          · simp [CM.kindAt_node_key, hy, h2]
  | .idx i :: q, y, x, kx, hpre, h => by
      have h0 := hpre [] (List.nil_prefix) (by simp) x.kind y.kind (CM.kindAt_nil x) (CM.kindAt_nil y)
      cases x <;> simp only [CM.kindAt, reduceCtorEq] at h
      rename_i xs
      cases y <;> simp only [CM.kind, reduceCtorEq, Kind.lanes.injEq] at h0
      rename_i ys
      rw [CML.kindAtIdx_eq] at h
      cases hx : xs.toList[i]? with
      | none => rw [hx] at h; simp at h
      | some xv =>
        rw [hx] at h
        simp only [Option.bind_some] at h
        simp only [CM.fill, CM.kindAt_lanes_idx, CML.fillLanes_get, hx]
        cases hy : ys.toList[i]? with
        | none => simpa using h
        | some yv =>
          simp only [Option.bind_some]
          refine CM.fill_kindAt q yv xv kx ?_ h
          intro q' hq' hne k1 k2 h1 h2
          refine hpre (.idx i :: q') (by simpa using hq') (by simpa using hne) k1 k2 ?_ ?_
          · simp [CM.kindAt_lanes_idx, hx, h1]
          · simp [CM.kindAt_lanes_idx, hy, h2]

/-- where the constraint has no leaf the completed constraint shows the old map's value, provided
    constraint and old map agree in kind at every prefix of the path -/
theorem CM.fill_leafAt_none : ∀ (p : Path) (y x : CM) (v : Val),
    (∀ q', q' <+: p → AgreeAt x y q') → x.leafAt p = none → y.leafAt p = some v →
    (CM.fill y x).leafAt p = some v
  | [], y, x, v, hpre, hx, hy => by
      have h0 := hpre [] (List.prefix_refl _) x.kind y.kind (CM.kindAt_nil x) (CM.kindAt_nil y)
      cases y <;> simp only [CM.leafAt, reduceCtorEq] at hy
      cases x <;> simp only [CM.kind, reduceCtorEq] at h0
      simp [CM.leafAt] at hx
  | .key k :: p, y, x, v, hpre, hx, hy => by
      have h0 := hpre [] (List.nil_prefix) x.kind y.kind (CM.kindAt_nil x) (CM.kindAt_nil y)
      cases y <;> simp only [CM.leafAt, reduceCtorEq] at hy
      rename_i ys
      cases x <;> simp only [CM.kind, reduceCtorEq] at h0
      rename_i xs
      rw [CML.leafAtKey_eq] at hy
      cases hyk : ys.find? k with
      | none => rw [hyk] at hy; simp at hy
      | some yv =>
        rw [hyk] at hy
        simp only [Option.bind_some] at hy
        simp only [CM.fill, CM.leafAt_node_key, CML.fill_find, hyk]
        cases hxk : xs.find? k with
        | none => simpa using hy
        | some xv =>
          simp only [Option.bind_some]
          refine CM.fill_leafAt_none p yv xv v ?_ ?_ hy
          · intro q' hq' k1 k2 h1 h2
            refine hpre (.key k :: q') (by simpa using hq') k1 k2 ?_ ?_
            · simp [CM.kindAt_node_key, hxk, h1]
            · simp [CM.kindAt_node_key, hyk, h2]
          · simpa [CM.leafAt_node_key, hxk] using hx
  | .idx i :: p, y, x, v, hpre, hx, hy => by
      have h0 := hpre [] (List.nil_prefix) x.kind y.kind (CM.kindAt_nil x) (CM.kindAt_nil y)
      cases y <;> simp only [CM.leafAt, reduceCtorEq] at hy
      rename_i ys
      cases x <;> simp only [CM.kind, reduceCtorEq, Kind.lanes.injEq] at h0
      rename_i xs
      rw [CML.leafAtIdx_eq] at hy
      cases hyk : ys.toList[i]? with
      | none => rw [hyk] at hy; simp at hy
      | some yv =>
        rw [hyk] at hy
        simp only [Option.bind_some] at hy
        have hi : i < xs.toList.length := by
          rw [h0]; exact (List.getElem?_eq_some_iff.mp hyk).1
        have hxk : xs.toList[i]? = some xs.toList[i] := by simp [hi]
        simp only [CM.fill, CM.leafAt_lanes_idx, CML.fillLanes_get, hyk, hxk, Option.bind_some]
        refine CM.fill_leafAt_none p yv _ v ?_ ?_ hy
        · intro q' hq' k1 k2 h1 h2
          refine hpre (.idx i :: q') (by simpa using hq') k1 k2 ?_ ?_
          · simp [CM.kindAt_lanes_idx, hxk, h1]
          · simp [CM.kindAt_lanes_idx, hyk, h2]
        · simpa [CM.leafAt_lanes_idx, hxk] using hx

end Genjax
