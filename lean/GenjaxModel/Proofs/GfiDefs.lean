import GenjaxModel.Proofs.GfiCoh
import Mathlib.Algebra.Group.Defs
import Mathlib.Tactic.Abel
/-!
  Shared definitions for the GFI theorems (C01–C05). Weights live in an arbitrary additive
  commutative group.
-/
namespace Genjax
variable {R : Type} [AddCommGroup R]

/-- corresponding Cond nodes of two traces took the same branch (no branch switch) -/
def Tr.sameChecks : Tr R → Tr R → Prop
  | .leaf _ _, .leaf _ _ => True
  | .fn a _ _, .fn b _ _ => TrL.sameChecks a b
  | .vec a, .vec b => TrL.sameChecksPos a b
  | .scan a _, .scan b _ => TrL.sameChecksPos a b
  | .cond c a a', .cond d b b' => c = d ∧ Tr.sameChecks a b ∧ Tr.sameChecks a' b'
  | _, _ => False
where
  /-- by address (the first trace's entries are looked up in the second) -/
  TrL.sameChecks : TrL R → TrL R → Prop
    | .nil, _ => True
    | .cons k t rest, b =>
      (match b.find? k with | some t' => Tr.sameChecks t t' | none => True) ∧ TrL.sameChecks rest b
  /-- by position -/
  TrL.sameChecksPos : TrL R → TrL R → Prop
    | .nil, .nil => True
    | .cons _ t rest, .cons _ t' rest' => Tr.sameChecks t t' ∧ TrL.sameChecksPos rest rest'
    | _, _ => False


mutual
  /-- programs without Cond -/
  def GF.condFree : GF → Bool
    | .dist _ => true
    | .fn body => body.condFree
    | .vmap g _ _ => g.condFree
    | .scan g _ => g.condFree
    | .cond _ _ => false
  def Body.condFree : Body → Bool
    | .ret _ => true
    | .call _ g _ rest => g.condFree && rest.condFree
end

end Genjax
