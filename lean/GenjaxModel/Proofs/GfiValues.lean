import GenjaxModel.Proofs.GfiValuesGenerate
import GenjaxModel.Proofs.GfiValuesRegen
import GenjaxModel.Proofs.GfiValuesRoundtrip
import GenjaxModel.Proofs.GfiValuesWeight
import GenjaxModel.Proofs.GfiValuesDraws
/-!
  Value-level theorems for generate / update / regenerate (C02, C03, C04): umbrella file.

  * `Model/GfiPaths.lean`        — addresses as paths, `CM.leafAt`, `Sel.selectedPath`
  * `Proofs/GfiValuesBase.lean`  — `CM.mergeCheck_leafAt`, pointwise loops, call sites
  * `Proofs/GfiValuesUpdate.lean`, `…Generate.lean`, `…Regen.lean`, `…Roundtrip.lean`

  Here: an executable form of `Tr.sameChecks` and executable scenarios on the concrete Cond / Scan /
  Vmap program `condExDeep`, used by the non-vacuity examples in Props/C02, C03, C04.
-/
namespace Genjax

section SameB
variable {R : Type}

mutual
  /-- executable form of `Tr.sameChecks` -/
  def Tr.sameChecksB : Tr R → Tr R → Bool
    | .leaf _ _, .leaf _ _ => true
    | .fn a _ _, .fn b _ _ => TrL.sameChecksB a b
    | .vec a, .vec b => TrL.sameChecksPosB a b
    | .scan a _, .scan b _ => TrL.sameChecksPosB a b
    | .cond c a a', .cond d b b' => c == d && Tr.sameChecksB a b && Tr.sameChecksB a' b'
    | _, _ => false
  def TrL.sameChecksB : TrL R → TrL R → Bool
    | .nil, _ => true
    | .cons k t rest, b =>
      (match b.find? k with | some t' => Tr.sameChecksB t t' | none => true) && TrL.sameChecksB rest b
  def TrL.sameChecksPosB : TrL R → TrL R → Bool
    | .nil, .nil => true
    | .cons _ t rest, .cons _ t' rest' => Tr.sameChecksB t t' && TrL.sameChecksPosB rest rest'
    | _, _ => false
end

mutual
  theorem Tr.sameChecks_of_B : (t t' : Tr R) → Tr.sameChecksB t t' = true → Tr.sameChecks t t'
    | .leaf _ _, t', h => by
        cases t' <;> simp only [Tr.sameChecksB, Bool.false_eq_true] at h
        simp only [Tr.sameChecks]
    | .fn a _ _, t', h => by
        cases t' <;> simp only [Tr.sameChecksB, Bool.false_eq_true] at h
        rw [Tr.sameChecks.eq_2]
        exact TrL.sameChecks_of_B a _ h
    | .vec a, t', h => by
        cases t' <;> simp only [Tr.sameChecksB, Bool.false_eq_true] at h
        rw [Tr.sameChecks.eq_3]
        exact TrL.sameChecksPos_of_B a _ h
    | .scan a _, t', h => by
        cases t' <;> simp only [Tr.sameChecksB, Bool.false_eq_true] at h
        rw [Tr.sameChecks.eq_4]
        exact TrL.sameChecksPos_of_B a _ h
    | .cond c a a', t', h => by
        cases t' <;>
          simp only [Tr.sameChecksB, Bool.false_eq_true, Bool.and_eq_true, beq_iff_eq] at h
        rw [Tr.sameChecks.eq_5]
        exact ⟨h.1.1, Tr.sameChecks_of_B a _ h.1.2, Tr.sameChecks_of_B a' _ h.2⟩
  theorem TrL.sameChecks_of_B : (a b : TrL R) → TrL.sameChecksB a b = true →
      Tr.sameChecks.TrL.sameChecks a b
    | .nil, b, _ => by rw [Tr.sameChecks.TrL.sameChecks.eq_1]; trivial
    | .cons k t rest, b, h => by
        simp only [TrL.sameChecksB, Bool.and_eq_true] at h
        rw [Tr.sameChecks.TrL.sameChecks.eq_2]
        refine ⟨?_, TrL.sameChecks_of_B rest b h.2⟩
        cases hb : b.find? k with
        | none => trivial
        | some t' =>
          have := h.1
          rw [hb] at this
          exact Tr.sameChecks_of_B t t' this
  theorem TrL.sameChecksPos_of_B : (a b : TrL R) → TrL.sameChecksPosB a b = true →
      Tr.sameChecks.TrL.sameChecksPos a b
    | .nil, b, h => by
        cases b <;> simp only [TrL.sameChecksPosB, Bool.false_eq_true] at h
        rw [Tr.sameChecks.TrL.sameChecksPos.eq_1]; trivial
    | .cons k t rest, b, h => by
        cases b <;> simp only [TrL.sameChecksPosB, Bool.false_eq_true, Bool.and_eq_true] at h
        rw [Tr.sameChecks.TrL.sameChecksPos.eq_2]
        exact ⟨Tr.sameChecks_of_B t _ h.1, TrL.sameChecksPos_of_B rest _ h.2⟩
end

end SameB

-- (DecidableEq for CM, CML is derived in Model/GfiPaths.lean)

/-! ## executable scenarios (integer weights) -/

/-- simulate, then update: old trace, new trace, weight, discard, old and new choice map -/
structure UpdScen where
  t : Tr ℤ
  t' : Tr ℤ
  w : ℤ
  d : Option CM
  y : CM
  y' : CM

def updScen (P : Prims ℤ) (cfg : Cfg) (g : GF) (args0 : List Val) (x : Option CM)
    (args : List Val) : Option UpdScen := do
  let t ← g.simulate P args0
  let r ← g.update P cfg t x args
  let y ← t.choices
  let y' ← r.1.choices
  pure ⟨t, r.1, r.2.1, r.2.2, y, y'⟩

theorem updScen_spec {P : Prims ℤ} {cfg : Cfg} {g : GF} {args0 : List Val} {x : Option CM}
    {args : List Val} {s : UpdScen} (h : updScen P cfg g args0 x args = some s) :
    g.simulate P args0 = some s.t ∧ g.Canon s.t ∧ g.Coh P args0 s.t ∧
    g.update P cfg s.t x args = some (s.t', s.w, s.d) ∧
    s.t.choices = some s.y ∧ s.t'.choices = some s.y' := by
  simp only [updScen, Option.bind_eq_bind, Option.bind_eq_some_iff, Option.pure_def,
    Option.some.injEq] at h
  obtain ⟨t, ht, ⟨t', w, d⟩, hu, y, hy, y', hy', rfl⟩ := h
  exact ⟨ht, simulate_canon P g _ _ ht, simulate_coh P g _ _ ht, hu, hy, hy'⟩

/-- simulate, update, update back with the discard and the old arguments -/
structure RoundScen extends UpdScen where
  t'' : Tr ℤ
  w2 : ℤ
  d2 : Option CM

def roundScen (P : Prims ℤ) (cfg : Cfg) (g : GF) (args0 : List Val) (x : Option CM)
    (args : List Val) : Option RoundScen := do
  let s ← updScen P cfg g args0 x args
  let r ← g.update P cfg s.t' s.d args0
  pure ⟨s, r.1, r.2.1, r.2.2⟩

theorem roundScen_spec {P : Prims ℤ} {cfg : Cfg} {g : GF} {args0 : List Val} {x : Option CM}
    {args : List Val} {s : RoundScen} (h : roundScen P cfg g args0 x args = some s) :
    updScen P cfg g args0 x args = some s.toUpdScen ∧
    g.update P cfg s.t' s.d args0 = some (s.t'', s.w2, s.d2) := by
  simp only [roundScen, Option.bind_eq_bind, Option.bind_eq_some_iff, Option.pure_def,
    Option.some.injEq] at h
  obtain ⟨s0, hs0, ⟨t'', w2, d2⟩, hu, rfl⟩ := h
  exact ⟨hs0, hu⟩

/-- simulate, then regenerate -/
def regenScen (P : Prims ℤ) (cfg : Cfg) (g : GF) (args0 : List Val) (sel : Sel)
    (args : List Val) : Option UpdScen := do
  let t ← g.simulate P args0
  let r ← g.regenerate P cfg t sel args
  let y ← t.choices
  let y' ← r.1.choices
  pure ⟨t, r.1, r.2.1, r.2.2, y, y'⟩

theorem regenScen_spec {P : Prims ℤ} {cfg : Cfg} {g : GF} {args0 : List Val} {sel : Sel}
    {args : List Val} {s : UpdScen} (h : regenScen P cfg g args0 sel args = some s) :
    g.simulate P args0 = some s.t ∧ g.Canon s.t ∧ g.Coh P args0 s.t ∧
    g.regenerate P cfg s.t sel args = some (s.t', s.w, s.d) ∧
    s.t.choices = some s.y ∧ s.t'.choices = some s.y' := by
  simp only [regenScen, Option.bind_eq_bind, Option.bind_eq_some_iff, Option.pure_def,
    Option.some.injEq] at h
  obtain ⟨t, ht, ⟨t', w, d⟩, hu, y, hy, y', hy', rfl⟩ := h
  exact ⟨ht, simulate_canon P g _ _ ht, simulate_coh P g _ _ ht, hu, hy, hy'⟩

/-- generate: trace, weight, choice map -/
def genScen (P : Prims ℤ) (cfg : Cfg) (g : GF) (x : Option CM) (args : List Val) :
    Option (Tr ℤ × ℤ × CM) := do
  let r ← g.generate P cfg x args
  let y ← r.1.choices
  pure (r.1, r.2, y)

theorem genScen_spec {P : Prims ℤ} {cfg : Cfg} {g : GF} {x : Option CM} {args : List Val}
    {s : Tr ℤ × ℤ × CM} (h : genScen P cfg g x args = some s) :
    g.generate P cfg x args = some (s.1, s.2.1) ∧ s.1.choices = some s.2.2 := by
  simp only [genScen, Option.bind_eq_bind, Option.bind_eq_some_iff, Option.pure_def,
    Option.some.injEq] at h
  obtain ⟨⟨t, w⟩, hg, y, hy, rfl⟩ := h
  exact ⟨hg, hy⟩

/-- a constraint map for `condExDeep`: step 1 of the Scan (a Cond) and lane 0 of the Vmap (a Cond of
    a Cond) get their `"x"` constrained -/
def valExX : CM :=
  .node (.cons "s" (.lanes (.cons "" (.node .nil)
            (.cons "" (.node (.cons "x" (.leaf (.num 10)) .nil)) (.cons "" (.node .nil) .nil))))
        (.cons "v" (.lanes (.cons "" (.node (.cons "x" (.leaf (.num 20)) .nil))
            (.cons "" (.node .nil) .nil))) .nil))

/-- new arguments for `condExDeep` under which Conds switch branch (the lane checks are swapped) -/
def valExArgs : List Val := [Val.ofList [.num 1, .num 2, .num 3], Val.ofList [.num 1, .num 0]]

/-- constrained address inside the Scan of a Cond -/
def valExPc : Path := [.key "s", .idx 1, .key "x"]
/-- constrained address inside the Vmap of a Cond of a Cond -/
def valExPc' : Path := [.key "v", .idx 0, .key "x"]
/-- unconstrained addresses -/
def valExPu : Path := [.key "s", .idx 2, .key "y"]
def valExPu' : Path := [.key "v", .idx 1, .key "x"]

/-- the specification variant without the completion of the constraint in `Cond.update`
    (`condUpdateFill`), to exhibit what that repair changes -/
def valExCfgNoFill : Cfg := { Cfg.spec with condUpdateFill := false }

/-- primitives whose sampler depends on the arguments (so that resampling under new arguments
    changes the values) -/
def valExP : Prims ℤ where
  lp := fun d _ v => (d : ℤ) + 2 * v.toRat.num
  draw := fun d a => .num ((d + 3 : Nat) + (a.map Val.sum).sum)

/-- selects `"x"` below `"s"` (every step of the Scan) and `"y"` below `"v"` (every lane) -/
def valExSel : Sel := .union (.tup ["s", "x"]) (.tup ["v", "y"])

/-- new arguments for `condExDeep` that keep every Cond check -/
def valExArgs3 : List Val := [Val.ofList [.num 1, .num 2, .num 3], Val.ofList [.num 0, .num 1]]

/-- the choice map of a simulated trace of `condExDeep`: a constraint that covers every address -/
def fullExX : Option CM := (condExDeep.simulate condExP condExDeepArgs).bind Tr.choices

end Genjax
