import GenjaxModel.Model.GfiPaths
import GenjaxModel.Proofs.GfiAssessCond
/-!
  Value-level facts about choice maps (C02, C03, C04): basic lemmas.

  * `CM.leafAt` through `find?` / positional look-up,
  * the leafwise `where`-merge of a Cond trace seen from a path (`CM.mergeCheck_leafAt`),
  * choice maps of trace lists, pointwise,
  * pointwise inversion of `forLanes` / `forSteps`,
  * call sites of a body (`Body.site`) and an induction principle over programs that hands the
    Fn case the property for every call site's callee.
-/
namespace Genjax

/-! ## `leafAt` -/

theorem CML.leafAtKey_eq : (l : CML) → (k : String) → (p : Path) →
    l.leafAtKey k p = (l.find? k).bind (·.leafAt p)
  | .nil, k, p => by simp [CML.leafAtKey, CML.find?]
  | .cons k' v rest, k, p => by
      simp only [CML.leafAtKey, CML.find?]
      split
      · simp
      · exact CML.leafAtKey_eq rest k p

theorem CML.leafAtIdx_eq : (l : CML) → (i : Nat) → (p : Path) →
    l.leafAtIdx i p = (l.toList[i]?).bind (·.leafAt p)
  | .nil, i, p => by simp [CML.leafAtIdx, CML.toList]
  | .cons k' v rest, 0, p => by simp [CML.leafAtIdx, CML.toList]
  | .cons k' v rest, i + 1, p => by
      simp only [CML.leafAtIdx, CML.toList, List.getElem?_cons_succ]
      exact CML.leafAtIdx_eq rest i p

theorem CM.leafAt_node_key (l : CML) (k : String) (p : Path) :
    (CM.node l).leafAt (.key k :: p) = (l.find? k).bind (·.leafAt p) := by
  simp only [CM.leafAt, CML.leafAtKey_eq]

theorem CM.leafAt_lanes_idx (l : CML) (i : Nat) (p : Path) :
    (CM.lanes l).leafAt (.idx i :: p) = (l.toList[i]?).bind (·.leafAt p) := by
  simp only [CM.leafAt, CML.leafAtIdx_eq]

theorem CM.leafAt_node_nil (l : CML) : (CM.node l).leafAt [] = none := by
  simp only [CM.leafAt]

theorem CM.leafAt_node_idx (l : CML) (i : Nat) (p : Path) :
    (CM.node l).leafAt (.idx i :: p) = none := by
  simp only [CM.leafAt]

theorem CM.leafAt_lanes_nil (l : CML) : (CM.lanes l).leafAt [] = none := by
  simp only [CM.leafAt]

theorem CM.leafAt_lanes_key (l : CML) (k : String) (p : Path) :
    (CM.lanes l).leafAt (.key k :: p) = none := by
  simp only [CM.leafAt]

theorem CM.leafAt_leaf_nil (v : Val) : (CM.leaf v).leafAt [] = some v := by
  simp only [CM.leafAt]

theorem CM.leafAt_leaf_cons (v : Val) (s : Seg) (p : Path) : (CM.leaf v).leafAt (s :: p) = none := by
  simp only [CM.leafAt]

theorem CML.toList_ofList (l : List CM) : (CML.ofList l).toList = l := by
  induction l with
  | nil => rfl
  | cons a l ih => simp [CML.ofList, CML.toList, ih]

/-! ## the merge of a Cond trace's two branch maps, seen from a path -/

/-- leafwise `where` with one-sided entries kept -/
def mergeLeaf (c : Bool) : Option Val → Option Val → Option Val
  | some a, some b => some (if c then a else b)
  | some a, none => some a
  | none, o => o

@[simp] theorem mergeLeaf_none_left (c : Bool) (o : Option Val) : mergeLeaf c none o = o := by
  cases o <;> rfl

@[simp] theorem mergeLeaf_none_right (c : Bool) (o : Option Val) : mergeLeaf c o none = o := by
  cases o <;> rfl

theorem mergeLeaf_isSome (c : Bool) (a b : Option Val) :
    (mergeLeaf c a b).isSome = (a.isSome || b.isSome) := by
  cases a <;> cases b <;> rfl

theorem mergeLeaf_self (c : Bool) (a : Option Val) : mergeLeaf c a a = a := by
  cases a <;> simp [mergeLeaf]

mutual
  /-- The choice map of a Cond trace at a path: where both branch maps have a leaf the check
      selects, where only one has it that one is visible. -/
  theorem CM.mergeCheck_leafAt (c : Bool) : (a b m : CM) → CM.mergeCheck c a b = some m →
      ∀ p, m.leafAt p = mergeLeaf c (a.leafAt p) (b.leafAt p)
    | .leaf va, b, m, h, p => by
        cases b <;> simp only [CM.mergeCheck, Option.some.injEq, reduceCtorEq] at h
        subst h
        cases p <;> simp [CM.leafAt, mergeLeaf]
    | .node a, b, m, h, p => by
        cases b <;> simp only [CM.mergeCheck, Option.map_eq_some_iff, reduceCtorEq] at h
        obtain ⟨m', hm', rfl⟩ := h
        rename_i b
        match p with
        | [] => simp [CM.leafAt, mergeLeaf]
        | .idx i :: p => simp [CM.leafAt, mergeLeaf]
        | .key k :: p =>
          simp only [CM.leafAt]
          exact CML.mergeCheck_leafAt c a b m' hm' k p
    | .lanes a, b, m, h, p => by
        cases b <;> simp only [CM.mergeCheck, Option.map_eq_some_iff, reduceCtorEq] at h
        obtain ⟨m', hm', rfl⟩ := h
        rename_i b
        match p with
        | [] => simp [CM.leafAt, mergeLeaf]
        | .key k :: p => simp [CM.leafAt, mergeLeaf]
        | .idx i :: p =>
          simp only [CM.leafAt]
          exact CML.mergeLanes_leafAt c a b m' hm' i p
  theorem CML.mergeCheck_leafAt (c : Bool) : (a b m : CML) → CML.mergeCheck c a b = some m →
      ∀ k p, m.leafAtKey k p = mergeLeaf c (a.leafAtKey k p) (b.leafAtKey k p)
    | .nil, b, m, h, k, p => by
        simp only [CML.mergeCheck, Option.some.injEq] at h
        subst h
        simp [CML.leafAtKey]
    | .cons k0 v rest, b, m, h, k, p => by
        simp only [CML.mergeCheck] at h
        split at h
        · rename_i v' hv'
          simp only [Option.bind_eq_bind, Option.bind_eq_some_iff, Option.pure_def,
            Option.some.injEq] at h
          obtain ⟨mv, hmv, r, hr, rfl⟩ := h
          have ihv := CM.mergeCheck_leafAt c v v' mv hmv p
          have ihr := CML.mergeCheck_leafAt c rest (b.erase k0) r hr k p
          simp only [CML.leafAtKey]
          split
          · rename_i hk
            subst hk
            rw [ihv, CML.leafAtKey_eq b k p, hv']
            rfl
          · rename_i hk
            rw [ihr, CML.leafAtKey_eq (b.erase k0) k p, CML.find?_erase_ne b k0 k hk,
              ← CML.leafAtKey_eq b k p]
        · rename_i hv'
          simp only [Option.bind_eq_bind, Option.bind_eq_some_iff, Option.pure_def,
            Option.some.injEq] at h
          obtain ⟨r, hr, rfl⟩ := h
          have ihr := CML.mergeCheck_leafAt c rest b r hr k p
          simp only [CML.leafAtKey]
          split
          · rename_i hk
            subst hk
            rw [CML.leafAtKey_eq b k p, hv']
            simp
          · exact ihr
  theorem CML.mergeLanes_leafAt (c : Bool) : (a b m : CML) → CML.mergeLanes c a b = some m →
      ∀ i p, m.leafAtIdx i p = mergeLeaf c (a.leafAtIdx i p) (b.leafAtIdx i p)
    | .nil, b, m, h, i, p => by
        cases b <;> simp only [CML.mergeLanes, Option.some.injEq, reduceCtorEq] at h
        subst h
        simp [CML.leafAtIdx]
    | .cons k0 v rest, b, m, h, i, p => by
        cases b with
        | nil => simp [CML.mergeLanes] at h
        | cons k' v' rest' =>
          simp only [CML.mergeLanes, Option.bind_eq_bind, Option.bind_eq_some_iff, Option.pure_def,
            Option.some.injEq] at h
          obtain ⟨mv, hmv, r, hr, rfl⟩ := h
          cases i with
          | zero =>
            simp only [CML.leafAtIdx]
            exact CM.mergeCheck_leafAt c v v' mv hmv p
          | succ i =>
            simp only [CML.leafAtIdx]
            exact CML.mergeLanes_leafAt c rest rest' r hr i p
end

/-! ## choice maps of trace lists, pointwise -/

section Choices
variable {R : Type}

theorem TrL.choices_find_eq : (l : TrL R) → (xl : CML) → l.choices = some xl →
    ∀ a, xl.find? a = (l.find? a).bind Tr.choices
  | .nil, xl, h, a => by
      simp only [TrL.choices, Option.some.injEq] at h
      subst h
      simp [CML.find?, TrL.find?]
  | .cons k t rest, xl, h, a => by
      simp only [TrL.choices, Option.bind_eq_bind, Option.bind_eq_some_iff, Option.pure_def,
        Option.some.injEq] at h
      obtain ⟨c, hc, r, hr, rfl⟩ := h
      simp only [CML.find?, TrL.find?]
      split
      · simp [hc]
      · exact TrL.choices_find_eq rest r hr a

theorem TrL.choices_get_eq : (l : TrL R) → (xl : CML) → l.choices = some xl →
    ∀ i : Nat, xl.toList[i]? = (l.toList[i]?).bind Tr.choices
  | .nil, xl, h, i => by
      simp only [TrL.choices, Option.some.injEq] at h
      subst h
      simp [CML.toList, TrL.toList]
  | .cons k t rest, xl, h, i => by
      simp only [TrL.choices, Option.bind_eq_bind, Option.bind_eq_some_iff, Option.pure_def,
        Option.some.injEq] at h
      obtain ⟨c, hc, r, hr, rfl⟩ := h
      cases i with
      | zero => simp [CML.toList, TrL.toList, hc]
      | succ i =>
        simp only [CML.toList, TrL.toList, List.getElem?_cons_succ]
        exact TrL.choices_get_eq rest r hr i

/-- every element of a trace list with a choice map has a choice map -/
theorem TrL.choices_get_some (l : TrL R) (xl : CML) (h : l.choices = some xl) (i : Nat) (t : Tr R)
    (ht : l.toList[i]? = some t) : ∃ c, t.choices = some c ∧ xl.toList[i]? = some c := by
  have hF := TrL.choices_toList l xl h
  generalize l.toList = ls at hF ht
  generalize xl.toList = xs at hF
  induction hF generalizing i with
  | nil => simp at ht
  | cons h1 _ ih =>
    cases i with
    | zero =>
      simp only [List.getElem?_cons_zero, Option.some.injEq] at ht
      subst ht
      exact ⟨_, h1, by simp⟩
    | succ i =>
      simp only [List.getElem?_cons_succ] at ht ⊢
      exact ih i ht

/-- the value at `key a :: p` of a Fn trace's choice map -/
theorem fn_leafAt (subs : TrL R) (xl : CML) (h : subs.choices = some xl) (a : String) (p : Path) :
    (CM.node xl).leafAt (.key a :: p) = CM.leafAt? ((subs.find? a).bind Tr.choices) p := by
  rw [CM.leafAt_node_key, TrL.choices_find_eq subs xl h a]
  cases (subs.find? a).bind Tr.choices <;> rfl

/-- the value at `idx i :: p` of a Vmap / Scan trace's choice map -/
theorem lanes_leafAt (l : TrL R) (xl : CML) (h : l.choices = some xl) (i : Nat) (p : Path) :
    (CM.lanes xl).leafAt (.idx i :: p) = CM.leafAt? ((l.toList[i]?).bind Tr.choices) p := by
  rw [CM.leafAt_lanes_idx, TrL.choices_get_eq l xl h i]
  cases (l.toList[i]?).bind Tr.choices <;> rfl

end Choices

/-! ## pointwise inversion of `forLanes` / `forSteps` -/

section Loops
variable {α β : Type}

theorem forLanes_length (f : Nat → α → Option β) :
    ∀ (l : List α) (i : Nat) (bs : List β), forLanes f i l = some bs → bs.length = l.length
  | [], i, bs, h => by
      simp only [forLanes, Option.some.injEq] at h
      subst h; rfl
  | a :: as, i, bs, h => by
      simp only [forLanes, Option.bind_eq_bind, Option.bind_eq_some_iff, Option.pure_def,
        Option.some.injEq] at h
      obtain ⟨b, _, bs', hbs', rfl⟩ := h
      simp [forLanes_length f as _ _ hbs']

theorem forLanes_get (f : Nat → α → Option β) :
    ∀ (l : List α) (i : Nat) (bs : List β), forLanes f i l = some bs →
      ∀ j a, l[j]? = some a → ∃ b, bs[j]? = some b ∧ f (i + j) a = some b
  | [], i, bs, h, j, a, ha => by simp at ha
  | a0 :: as, i, bs, h, j, a, ha => by
      simp only [forLanes, Option.bind_eq_bind, Option.bind_eq_some_iff, Option.pure_def,
        Option.some.injEq] at h
      obtain ⟨b, hb, bs', hbs', rfl⟩ := h
      cases j with
      | zero =>
        simp only [List.getElem?_cons_zero, Option.some.injEq] at ha
        subst ha
        exact ⟨b, by simp, by simpa using hb⟩
      | succ j =>
        simp only [List.getElem?_cons_succ] at ha
        obtain ⟨b', hb', hf⟩ := forLanes_get f as (i + 1) bs' hbs' j a ha
        refine ⟨b', by simpa using hb', ?_⟩
        rw [← hf]; congr 1; omega

theorem forSteps_length (f : Val → Nat → α → Option (β × Val)) :
    ∀ (l : List α) (c : Val) (i : Nat) (bs : List β) (c' : Val),
      forSteps f c i l = some (bs, c') → bs.length = l.length
  | [], c, i, bs, c', h => by
      simp only [forSteps, Option.some.injEq, Prod.mk.injEq] at h
      obtain ⟨rfl, _⟩ := h; rfl
  | a :: as, c, i, bs, c', h => by
      simp only [forSteps, Option.bind_eq_bind, Option.bind_eq_some_iff, Option.pure_def,
        Option.some.injEq, Prod.mk.injEq] at h
      obtain ⟨⟨b, c1⟩, _, ⟨bs', c2⟩, hbs', rfl, rfl⟩ := h
      simp [forSteps_length f as _ _ _ _ hbs']

theorem forSteps_get (f : Val → Nat → α → Option (β × Val)) :
    ∀ (l : List α) (c : Val) (i : Nat) (bs : List β) (c' : Val),
      forSteps f c i l = some (bs, c') →
      ∀ j a, l[j]? = some a → ∃ b cj cj', bs[j]? = some b ∧ f cj (i + j) a = some (b, cj')
  | [], c, i, bs, c', h, j, a, ha => by simp at ha
  | a0 :: as, c, i, bs, c', h, j, a, ha => by
      simp only [forSteps, Option.bind_eq_bind, Option.bind_eq_some_iff, Option.pure_def,
        Option.some.injEq, Prod.mk.injEq] at h
      obtain ⟨⟨b, c1⟩, hb, ⟨bs', c2⟩, hbs', rfl, rfl⟩ := h
      cases j with
      | zero =>
        simp only [List.getElem?_cons_zero, Option.some.injEq] at ha
        subst ha
        exact ⟨b, c, c1, by simp, by simpa using hb⟩
      | succ j =>
        simp only [List.getElem?_cons_succ] at ha
        obtain ⟨b', cj, cj', hb', hf⟩ := forSteps_get f as c1 (i + 1) bs' c2 hbs' j a ha
        refine ⟨b', cj, cj', by simpa using hb', ?_⟩
        rw [← hf]; congr 1; omega

/-- the carry entering step `j`, computed from the per-step results `bs` (`nxt` = the carry a step
    hands on) -/
def carryG (nxt : β → Val) (c : Val) : List β → Nat → Val
  | _, 0 => c
  | [], _ + 1 => c
  | b :: bs, j + 1 => carryG nxt (nxt b) bs j

/-- `forSteps_get` with the carry that enters step `j` made explicit -/
theorem forSteps_get_carry (f : Val → Nat → α → Option (β × Val)) (nxt : β → Val)
    (hf : ∀ c i a b c', f c i a = some (b, c') → c' = nxt b) :
    ∀ (l : List α) (c : Val) (i : Nat) (bs : List β) (c' : Val),
      forSteps f c i l = some (bs, c') →
      ∀ j a, l[j]? = some a → ∃ b cj', bs[j]? = some b ∧ f (carryG nxt c bs j) (i + j) a = some (b, cj')
  | [], c, i, bs, c', h, j, a, ha => by simp at ha
  | a0 :: as, c, i, bs, c', h, j, a, ha => by
      simp only [forSteps, Option.bind_eq_bind, Option.bind_eq_some_iff, Option.pure_def,
        Option.some.injEq, Prod.mk.injEq] at h
      obtain ⟨⟨b, c1⟩, hb, ⟨bs', c2⟩, hbs', rfl, rfl⟩ := h
      cases j with
      | zero =>
        simp only [List.getElem?_cons_zero, Option.some.injEq] at ha
        subst ha
        exact ⟨b, c1, by simp, by simpa [carryG] using hb⟩
      | succ j =>
        simp only [List.getElem?_cons_succ] at ha
        obtain ⟨b', cj', hb', hf'⟩ := forSteps_get_carry f nxt hf as c1 (i + 1) bs' c2 hbs' j a ha
        refine ⟨b', cj', by simpa using hb', ?_⟩
        have : c1 = nxt b := hf _ _ _ _ _ hb
        simp only [carryG]
        rw [← this, ← hf']; congr 1; omega

end Loops

section Carry
variable {R : Type} [Zero R] [Add R]

/-- the carry entering step `j` of a Scan trace with steps `ts` and initial carry `c`
    (as `stepsCoh` threads it: each step hands on the first component of its return value) -/
def carryAt (c : Val) : List (Tr R) → Nat → Val
  | _, 0 => c
  | [], _ + 1 => c
  | t :: ts, j + 1 => carryAt t.retval.fst ts j

theorem carryG_eq_carryAt {β : Type} (proj : β → Tr R) : ∀ (bs : List β) (c : Val) (j : Nat),
    carryG (fun b => (proj b).retval.fst) c bs j = carryAt c (bs.map proj) j
  | _, c, 0 => by cases ‹List β› <;> rfl
  | [], c, j + 1 => rfl
  | b :: bs, c, j + 1 => by
      simp only [carryG, List.map_cons, carryAt]
      exact carryG_eq_carryAt proj bs _ j

end Carry

/-! ## call sites of a body -/

/-- the call site of a body at address `a` (the first one; a body that runs has no second) -/
def Body.site : Body → String → Option (GF × List Expr)
  | .ret _, _ => none
  | .call addr g es rest, a => if a = addr then some (g, es) else rest.site a

/-- the environment in which the arguments of the call site at `a` are evaluated, computed from the
    sub-traces in `subs` (return values of the preceding call sites, as `Body.Coh` threads them) -/
def Body.envAt {R : Type} [Zero R] [Add R] : Body → List Val → TrL R → String → List Val
  | .ret _, env, _, _ => env
  | .call addr _ _ rest, env, subs, a =>
    if a = addr then env else
    match subs.find? addr with
    | some t => rest.envAt (env ++ [t.retval]) subs a
    | none => env

/-- induction over programs where the Fn case receives the property for the callee of every call
    site of the body -/
theorem GF.induct_sites (Q : GF → Prop)
    (dist : ∀ d, Q (.dist d))
    (fn : ∀ body, (∀ a g es, body.site a = some (g, es) → Q g) → Q (.fn body))
    (vmap : ∀ g axes n, Q g → Q (.vmap g axes n))
    (scan : ∀ g n, Q g → Q (.scan g n))
    (cond : ∀ t f, Q t → Q f → Q (.cond t f)) : ∀ g, Q g := by
  intro g
  refine GF.rec (motive_1 := Q)
    (motive_2 := fun b => ∀ a g es, b.site a = some (g, es) → Q g)
    dist fn vmap scan cond ?_ ?_ g
  · intro e a g es h
    simp [Body.site] at h
  · intro addr g es rest ihg ihr a g' es' h
    simp only [Body.site] at h
    split at h
    · simp only [Option.some.injEq, Prod.mk.injEq] at h
      obtain ⟨rfl, _⟩ := h
      exact ihg
    · exact ihr a g' es' h

section Canon
variable {R : Type}

theorem Body.canonL_site_none : (b : Body) → (tl : TrL R) → b.CanonL tl →
    ∀ a, b.site a = none → tl.find? a = none
  | .ret e, tl, hc, a, _ => by
      cases tl <;> simp only [Body.CanonL] at hc
      rfl
  | .call addr g es rest, tl, hc, a, h => by
      cases tl <;> simp only [Body.CanonL] at hc
      rename_i k t tl'
      obtain ⟨rfl, _, hrc⟩ := hc
      simp only [Body.site] at h
      split at h
      · simp at h
      · rename_i hne
        simp only [TrL.find?, hne, if_false]
        exact Body.canonL_site_none rest tl' hrc a h

theorem Body.canonL_site_some : (b : Body) → (tl : TrL R) → b.CanonL tl →
    ∀ a g es, b.site a = some (g, es) → ∃ t, tl.find? a = some t ∧ g.Canon t
  | .ret e, tl, hc, a, g, es, h => by simp [Body.site] at h
  | .call addr g0 es0 rest, tl, hc, a, g, es, h => by
      cases tl <;> simp only [Body.CanonL] at hc
      rename_i k t tl'
      obtain ⟨rfl, hgc, hrc⟩ := hc
      simp only [Body.site] at h
      split at h
      · rename_i he
        simp only [Option.some.injEq, Prod.mk.injEq] at h
        obtain ⟨rfl, _⟩ := h
        exact ⟨t, by simp [TrL.find?, he], hgc⟩
      · rename_i hne
        simp only [TrL.find?, hne, if_false]
        exact Body.canonL_site_some rest tl' hrc a g es h

theorem lanesCanon_get (p : Tr R → Prop) : (l : TrL R) → lanesCanon p l →
    ∀ (i : Nat) (t : Tr R), l.toList[i]? = some t → p t
  | .nil, _, i, t, h => by simp [TrL.toList] at h
  | .cons k t0 rest, hc, i, t, h => by
      simp only [lanesCanon] at hc
      cases i with
      | zero =>
        simp only [TrL.toList, List.getElem?_cons_zero, Option.some.injEq] at h
        subst h; exact hc.2.1
      | succ i =>
        simp only [TrL.toList, List.getElem?_cons_succ] at h
        exact lanesCanon_get p rest hc.2.2 i t h

end Canon

section Same
variable {R : Type} [AddCommGroup R]

theorem TrL.sameChecksPos_get : (a b : TrL R) → Tr.sameChecks.TrL.sameChecksPos a b →
    ∀ (i : Nat) (t t' : Tr R), a.toList[i]? = some t → b.toList[i]? = some t' → Tr.sameChecks t t'
  | .nil, b, h, i, t, t', ha, _ => by simp [TrL.toList] at ha
  | .cons k t0 rest, .nil, h, i, t, t', _, hb => by simp [TrL.toList] at hb
  | .cons k t0 rest, .cons k' t0' rest', h, i, t, t', ha, hb => by
      rw [Tr.sameChecks.TrL.sameChecksPos.eq_2] at h
      cases i with
      | zero =>
        simp only [TrL.toList, List.getElem?_cons_zero, Option.some.injEq] at ha hb
        subst ha hb; exact h.1
      | succ i =>
        simp only [TrL.toList, List.getElem?_cons_succ] at ha hb
        exact TrL.sameChecksPos_get rest rest' h.2 i t t' ha hb

end Same

end Genjax
