import GenjaxModel.Proofs.DistSpec
import Mathlib.Probability.Distributions.Beta
import Mathlib.Probability.Distributions.Cauchy
import Mathlib.MeasureTheory.Function.JacobianOneDim
import Mathlib.MeasureTheory.Measure.Lebesgue.Integral
import Mathlib.Analysis.SpecialFunctions.ImproperIntegrals
/-!
  C13, part 2: documented closed-form densities of further built-in continuous distributions
  (gamma, chi2, beta, cauchy, laplace, log_normal, half_normal, inverse_gamma, weibull, student_t) and their
  normalisation, plus parameter-mapping lemmas pinning the documented parameterisation
  (rate vs scale etc.).  Same conventions as `DistSpec.lean`.
-/
open Real MeasureTheory ProbabilityTheory

namespace Genjax.DistSpec


/-- gamma(concentration α, rate β) -/
noncomputable def gammaPdf (a r x : ℝ) : ℝ :=
  if 0 < x then r ^ a / Real.Gamma a * x ^ (a - 1) * Real.exp (-(r * x)) else 0

theorem lintegral_congr_ne {f g : ℝ → ENNReal} (c : ℝ) (h : ∀ x, x ≠ c → f x = g x) :
    ∫⁻ x, f x = ∫⁻ x, g x := by
  refine lintegral_congr_ae ?_
  have : ∀ᵐ x : ℝ, x ≠ c := compl_mem_ae_iff.mpr (measure_singleton c)
  filter_upwards [this] with x hx using h x hx

theorem gamma_normalised (a r : ℝ) (ha : 0 < a) (hr : 0 < r) :
    ∫⁻ x, ENNReal.ofReal (gammaPdf a r x) = 1 := by
  rw [← lintegral_gammaPDF_eq_one ha hr]
  refine lintegral_congr_ne 0 (fun x hx => ?_)
  rw [gammaPDF_eq]
  simp only [gammaPdf]
  by_cases h : 0 < x
  · rw [if_pos h, if_pos h.le]
  · rw [if_neg h, if_neg (fun h' => h (lt_of_le_of_ne h' (Ne.symm hx)))]

theorem gamma_rate_scaling (a r x : ℝ) (hr : 0 < r) :
    gammaPdf a r x = r * gammaPdf a 1 (r * x) := by
  simp only [gammaPdf]
  by_cases h : 0 < x
  · have h' : 0 < r * x := mul_pos hr h
    rw [if_pos h, if_pos h', Real.mul_rpow hr.le h.le, Real.one_rpow, one_mul]
    rw [Real.rpow_sub_one hr.ne' a]
    field_simp
  · have h' : ¬ 0 < r * x := fun h' => h ((mul_pos_iff_of_pos_left hr).mp h')
    rw [if_neg h, if_neg h', mul_zero]

/-- chi2(df k) -/
noncomputable def chi2Pdf (k x : ℝ) : ℝ :=
  if 0 < x then 1 / (2 ^ (k / 2) * Real.Gamma (k / 2)) * x ^ (k / 2 - 1) * Real.exp (-(x / 2)) else 0

theorem chi2_eq_gamma (k x : ℝ) : chi2Pdf k x = gammaPdf (k / 2) (1 / 2) x := by
  simp only [chi2Pdf, gammaPdf]
  by_cases h : 0 < x
  · rw [if_pos h, if_pos h, Real.div_rpow (by norm_num) (by norm_num), Real.one_rpow]
    have : (1:ℝ) / 2 * x = x / 2 := by ring
    rw [this, div_div]
  · rw [if_neg h, if_neg h]

theorem chi2_normalised (k : ℝ) (hk : 0 < k) : ∫⁻ x, ENNReal.ofReal (chi2Pdf k x) = 1 := by
  simp only [chi2_eq_gamma]
  exact gamma_normalised _ _ (by positivity) (by norm_num)

/-- beta(concentration1 α, concentration0 β) -/
noncomputable def betaPdf (a b x : ℝ) : ℝ :=
  if 0 < x ∧ x < 1 then
    Real.Gamma (a + b) / (Real.Gamma a * Real.Gamma b) * x ^ (a - 1) * (1 - x) ^ (b - 1) else 0

theorem beta_normalised (a b : ℝ) (ha : 0 < a) (hb : 0 < b) :
    ∫⁻ x, ENNReal.ofReal (betaPdf a b x) = 1 := by
  rw [← lintegral_betaPDF_eq_one ha hb]
  refine lintegral_congr (fun x => ?_)
  rw [betaPDF_eq]
  simp only [betaPdf, ProbabilityTheory.beta, one_div, inv_div]

/-- cauchy(loc x₀, scale γ) -/
noncomputable def cauchyPdf (x₀ γ x : ℝ) : ℝ := 1 / (π * γ * (1 + ((x - x₀) / γ) ^ 2))

theorem cauchy_normalised (x₀ γ : ℝ) (hγ : 0 < γ) :
    ∫⁻ x, ENNReal.ofReal (cauchyPdf x₀ γ x) = 1 := by
  have hγ' : γ.toNNReal ≠ 0 := by
    simpa using hγ
  rw [← lintegral_cauchyPDF_eq_one x₀ hγ']
  refine lintegral_congr (fun x => ?_)
  rw [cauchyPDF_def, cauchyPDFReal_def']
  simp only [cauchyPdf, NNReal.coe_inv, Real.coe_toNNReal γ hγ.le, one_div, mul_inv]



/-- location-scale change of variables -/
theorem lintegral_affine (g : ℝ → ENNReal) (μ σ : ℝ) (hσ : 0 < σ) :
    ∫⁻ x, ENNReal.ofReal (1 / σ) * g ((x - μ) / σ) = ∫⁻ x, g x := by
  have hd : ∀ x ∈ (Set.univ : Set ℝ), HasDerivWithinAt (fun y : ℝ => σ * y + μ) σ Set.univ x := by
    intro x _
    have : HasDerivAt (fun y : ℝ => σ * y + μ) σ x := by
      simpa using ((hasDerivAt_id x).const_mul σ).add_const μ
    exact this.hasDerivWithinAt
  have hinj : Set.InjOn (fun y : ℝ => σ * y + μ) Set.univ := by
    intro x _ y _ h
    have : σ * x = σ * y := by simpa using h
    exact mul_left_cancel₀ hσ.ne' this
  have himg : (fun y : ℝ => σ * y + μ) '' Set.univ = Set.univ := by
    apply Set.image_univ_of_surjective
    intro z
    exact ⟨(z - μ) / σ, by simp only []; field_simp; ring⟩
  have h := lintegral_image_eq_lintegral_abs_deriv_mul MeasurableSet.univ hd hinj
    (fun x => ENNReal.ofReal (1 / σ) * g ((x - μ) / σ))
  rw [himg, Measure.restrict_univ] at h
  rw [h]
  refine lintegral_congr (fun y => ?_)
  rw [← mul_assoc, ← ENNReal.ofReal_mul (abs_nonneg _), abs_of_pos hσ]
  have e1 : σ * (1 / σ) = 1 := by field_simp
  have e2 : (σ * y + μ - μ) / σ = y := by field_simp; ring
  rw [e1, ENNReal.ofReal_one, one_mul, e2]

/-- laplace(loc μ, scale b) -/
noncomputable def laplacePdf (μ b x : ℝ) : ℝ := 1 / (2 * b) * Real.exp (-|x - μ| / b)

theorem integral_std_laplace : ∫ x : ℝ, (1 / 2 : ℝ) * Real.exp (-|x|) = 1 := by
  rw [integral_const_mul, integral_comp_abs (f := fun x => Real.exp (-x)), integral_exp_neg_Ioi_zero]
  norm_num

theorem laplace_normalised (μ b : ℝ) (hb : 0 < b) :
    ∫⁻ x, ENNReal.ofReal (laplacePdf μ b x) = 1 := by
  have hint : Integrable (fun x : ℝ => (1 / 2 : ℝ) * Real.exp (-|x|)) := by
    apply Integrable.of_integral_ne_zero
    rw [integral_std_laplace]; exact one_ne_zero
  have hstd : ∫⁻ x : ℝ, ENNReal.ofReal ((1 / 2 : ℝ) * Real.exp (-|x|)) = 1 := by
    rw [← ofReal_integral_eq_lintegral_ofReal hint (ae_of_all _ (fun x => by positivity)),
      integral_std_laplace, ENNReal.ofReal_one]
  have haff := lintegral_affine (fun y : ℝ => ENNReal.ofReal ((1 / 2 : ℝ) * Real.exp (-|y|))) μ b hb
  rw [hstd] at haff
  rw [← haff]
  refine lintegral_congr (fun x => ?_)
  rw [← ENNReal.ofReal_mul (by positivity)]
  congr 1
  simp only [laplacePdf]
  rw [abs_div, abs_of_pos hb, neg_div]
  field_simp

/-- log_normal(loc μ, scale σ) -/
noncomputable def logNormalPdf (μ σ x : ℝ) : ℝ :=
  if 0 < x then 1 / (x * σ * Real.sqrt (2 * π)) * Real.exp (-(Real.log x - μ) ^ 2 / (2 * σ ^ 2)) else 0

theorem logNormal_eq_normal_log (μ σ x : ℝ) (hσ : 0 < σ) (hx : 0 < x) :
    logNormalPdf μ σ x = normalPdf μ σ (Real.log x) / x := by
  simp only [logNormalPdf, normalPdf, if_pos hx]
  rw [Real.sqrt_mul' _ (sq_nonneg σ), Real.sqrt_sq hσ.le]
  have : Real.sqrt (2 * π) ≠ 0 := by positivity
  field_simp

theorem lintegral_Ioi_eq_lintegral_comp_exp (G : ℝ → ENNReal) :
    ∫⁻ x in Set.Ioi 0, G x = ∫⁻ y, ENNReal.ofReal (Real.exp y) * G (Real.exp y) := by
  have h := lintegral_image_eq_lintegral_abs_deriv_mul (s := Set.univ) (f := Real.exp) (f' := Real.exp)
    MeasurableSet.univ (fun x _ => (Real.hasDerivAt_exp x).hasDerivWithinAt)
    Real.exp_injective.injOn G
  rw [Set.image_univ, Real.range_exp, Measure.restrict_univ] at h
  rw [h]
  refine lintegral_congr (fun y => ?_)
  rw [abs_of_pos (Real.exp_pos y)]

theorem lintegral_eq_Ioi_of_support {F : ℝ → ENNReal} (h : ∀ x, x ≤ 0 → F x = 0) :
    ∫⁻ x, F x = ∫⁻ x in Set.Ioi 0, F x := by
  rw [← lintegral_indicator measurableSet_Ioi]
  refine lintegral_congr (fun x => ?_)
  by_cases hx : x ∈ Set.Ioi (0:ℝ)
  · rw [Set.indicator_of_mem hx]
  · rw [Set.indicator_of_notMem hx]; exact h x (not_lt.mp hx)

theorem logNormal_normalised (μ σ : ℝ) (hσ : 0 < σ) :
    ∫⁻ x, ENNReal.ofReal (logNormalPdf μ σ x) = 1 := by
  rw [lintegral_eq_Ioi_of_support (fun x hx => by simp [logNormalPdf, not_lt.mpr hx]),
    lintegral_Ioi_eq_lintegral_comp_exp, ← normal_normalised μ σ hσ]
  refine lintegral_congr (fun y => ?_)
  rw [logNormal_eq_normal_log μ σ _ hσ (Real.exp_pos y), Real.log_exp,
    ← ENNReal.ofReal_mul (Real.exp_pos y).le]
  congr 1
  field_simp


/-- half_normal(scale σ) -/
noncomputable def halfNormalPdf (σ x : ℝ) : ℝ :=
  if 0 ≤ x then Real.sqrt 2 / (σ * Real.sqrt π) * Real.exp (-x ^ 2 / (2 * σ ^ 2)) else 0

theorem halfNormal_eq_two_mul_normal (σ x : ℝ) (hσ : 0 < σ) (hx : 0 ≤ x) :
    halfNormalPdf σ x = 2 * normalPdf 0 σ x := by
  simp only [halfNormalPdf, normalPdf, if_pos hx, sub_zero]
  rw [Real.sqrt_mul' _ (sq_nonneg σ), Real.sqrt_sq hσ.le, Real.sqrt_mul (by norm_num : (0:ℝ) ≤ 2)]
  have h2 : Real.sqrt 2 * Real.sqrt 2 = 2 := Real.mul_self_sqrt (by norm_num)
  have hπ : Real.sqrt π ≠ 0 := by positivity
  have h2' : Real.sqrt 2 ≠ 0 := by positivity
  field_simp
  linear_combination h2

theorem normalPdf_integral (μ σ : ℝ) (hσ : 0 < σ) : ∫ x, normalPdf μ σ x = 1 := by
  have hv : (⟨σ ^ 2, sq_nonneg σ⟩ : NNReal) ≠ 0 := by
    intro h
    have : σ ^ 2 = 0 := congrArg NNReal.toReal h
    exact (pow_pos hσ 2).ne' this
  rw [← integral_gaussianPDFReal_eq_one μ hv]
  refine integral_congr_ae (ae_of_all _ (fun x => ?_))
  simp only [normalPdf, gaussianPDFReal]
  rfl

theorem halfNormal_normalised (σ : ℝ) (hσ : 0 < σ) :
    ∫⁻ x, ENNReal.ofReal (halfNormalPdf σ x) = 1 := by
  have hI : ∫ x, normalPdf 0 σ x = 1 := normalPdf_integral 0 σ hσ
  have hint : Integrable (normalPdf 0 σ) := by
    apply Integrable.of_integral_ne_zero
    rw [hI]; exact one_ne_zero
  have habs : ∫ x, normalPdf 0 σ |x| = 1 := by
    rw [← hI]
    refine integral_congr_ae (ae_of_all _ (fun x => ?_))
    simp only [normalPdf, sub_zero, sq_abs]
  rw [integral_comp_abs (f := normalPdf 0 σ)] at habs
  have hhalf : ∫ x in Set.Ioi 0, 2 * normalPdf 0 σ x = 1 := by
    rw [integral_const_mul]; exact habs
  have h1 : ∫⁻ x, ENNReal.ofReal (halfNormalPdf σ x) =
      ∫⁻ x in Set.Ioi 0, ENNReal.ofReal (2 * normalPdf 0 σ x) := by
    rw [← lintegral_indicator measurableSet_Ioi]
    refine lintegral_congr_ne 0 (fun x hx => ?_)
    by_cases h : 0 < x
    · rw [Set.indicator_of_mem (Set.mem_Ioi.mpr h), halfNormal_eq_two_mul_normal σ x hσ h.le]
    · rw [Set.indicator_of_notMem (fun h' => h (Set.mem_Ioi.mp h'))]
      have : ¬ 0 ≤ x := fun h' => h (lt_of_le_of_ne h' (Ne.symm hx))
      simp only [halfNormalPdf, if_neg this, ENNReal.ofReal_zero]
  rw [h1, ← ofReal_integral_eq_lintegral_ofReal (hint.const_mul 2).integrableOn
    (ae_of_all _ (fun x => by simp only [normalPdf]; positivity)), hhalf, ENNReal.ofReal_one]

/-- inverse_gamma(concentration α, scale β) -/
noncomputable def inverseGammaPdf (a b x : ℝ) : ℝ :=
  if 0 < x then b ^ a / Real.Gamma a * x ^ (-a - 1) * Real.exp (-(b / x)) else 0

theorem inverseGamma_eq_gamma_inv (a b x : ℝ) (hx : 0 < x) :
    inverseGammaPdf a b x = gammaPdf a b (1 / x) / x ^ 2 := by
  have hx' : 0 < 1 / x := by positivity
  simp only [inverseGammaPdf, gammaPdf, if_pos hx, if_pos hx']
  have e1 : (1 / x) ^ (a - 1) / x ^ 2 = x ^ (-a - 1) := by
    rw [one_div, Real.inv_rpow hx.le, ← Real.rpow_neg hx.le, ← Real.rpow_natCast x 2,
      ← Real.rpow_sub hx]
    congr 1; push_cast; ring
  have e2 : b * (1 / x) = b / x := by ring
  rw [e2, ← e1]; ring

theorem lintegral_Ioi_eq_lintegral_comp_inv (G : ℝ → ENNReal) :
    ∫⁻ x in Set.Ioi 0, G x = ∫⁻ y in Set.Ioi 0, ENNReal.ofReal (1 / y ^ 2) * G (1 / y) := by
  have hd : ∀ x ∈ Set.Ioi (0:ℝ), HasDerivWithinAt (fun y : ℝ => 1 / y) (-(x ^ 2)⁻¹) (Set.Ioi 0) x := by
    intro x hx
    have : HasDerivAt (fun y : ℝ => 1 / y) (-(x ^ 2)⁻¹) x := by
      simpa using hasDerivAt_inv (ne_of_gt hx)
    exact this.hasDerivWithinAt
  have hinj : Set.InjOn (fun y : ℝ => 1 / y) (Set.Ioi 0) := by
    intro x _ y _ h
    simpa using h
  have himg : (fun y : ℝ => 1 / y) '' Set.Ioi 0 = Set.Ioi 0 := by
    ext z
    constructor
    · rintro ⟨y, hy, rfl⟩; exact Set.mem_Ioi.mpr (one_div_pos.mpr (Set.mem_Ioi.mp hy))
    · intro hz; exact ⟨1 / z, Set.mem_Ioi.mpr (one_div_pos.mpr (Set.mem_Ioi.mp hz)), by simp⟩
  have h := lintegral_image_eq_lintegral_abs_deriv_mul measurableSet_Ioi hd hinj G
  rw [himg] at h
  rw [h]
  refine setLIntegral_congr_fun measurableSet_Ioi (fun y hy => ?_)
  simp only [abs_neg, abs_inv, abs_pow, sq_abs, one_div]

theorem inverseGamma_normalised (a b : ℝ) (ha : 0 < a) (hb : 0 < b) :
    ∫⁻ x, ENNReal.ofReal (inverseGammaPdf a b x) = 1 := by
  rw [lintegral_eq_Ioi_of_support (fun x hx => by simp [inverseGammaPdf, not_lt.mpr hx]),
    lintegral_Ioi_eq_lintegral_comp_inv, ← gamma_normalised a b ha hb,
    lintegral_eq_Ioi_of_support (F := fun x => ENNReal.ofReal (gammaPdf a b x))
      (fun x hx => by simp [gammaPdf, not_lt.mpr hx])]
  refine setLIntegral_congr_fun measurableSet_Ioi (fun y hy => ?_)
  have hy : 0 < y := hy
  rw [inverseGamma_eq_gamma_inv a b _ (by positivity), ← ENNReal.ofReal_mul (by positivity)]
  congr 1
  rw [one_div_one_div]
  field_simp

/-- weibull(concentration k, scale λ) -/
noncomputable def weibullPdf (k l x : ℝ) : ℝ :=
  if 0 ≤ x then k / l * (x / l) ^ (k - 1) * Real.exp (-(x / l) ^ k) else 0

theorem weibull_one_eq_exponential (l x : ℝ) :
    weibullPdf 1 l x = exponentialPdf (1 / l) x := by
  simp only [weibullPdf, exponentialPdf, sub_self, Real.rpow_zero, Real.rpow_one]
  by_cases h : 0 ≤ x
  · rw [if_pos h, if_pos h]; ring_nf
  · rw [if_neg h, if_neg h]

theorem lintegral_Ioi_eq_lintegral_comp_rpow (G : ℝ → ENNReal) (k l : ℝ) (hk : 0 < k) (hl : 0 < l) :
    ∫⁻ u in Set.Ioi 0, G u =
      ∫⁻ x in Set.Ioi 0, ENNReal.ofReal (k / l * (x / l) ^ (k - 1)) * G ((x / l) ^ k) := by
  have hd : ∀ x ∈ Set.Ioi (0:ℝ),
      HasDerivWithinAt (fun y : ℝ => (y / l) ^ k) (k / l * (x / l) ^ (k - 1)) (Set.Ioi 0) x := by
    intro x hx
    have hx : 0 < x := hx
    have h1 : HasDerivAt (fun y : ℝ => y / l) (1 / l) x := by
      simpa using (hasDerivAt_id x).div_const l
    have h2 := h1.rpow_const (p := k) (Or.inl (by positivity : x / l ≠ 0))
    have : HasDerivAt (fun y : ℝ => (y / l) ^ k) (k / l * (x / l) ^ (k - 1)) x := by
      convert h2 using 1; ring
    exact this.hasDerivWithinAt
  have hinj : Set.InjOn (fun y : ℝ => (y / l) ^ k) (Set.Ioi 0) := by
    intro x hx y hy h
    have hx : 0 < x := hx
    have hy : 0 < y := hy
    have h' : (x / l) ^ k = (y / l) ^ k := h
    have := (Real.rpow_left_injOn hk.ne') (show x / l ∈ {y : ℝ | 0 ≤ y} from (by positivity : (0:ℝ) ≤ x / l))
      (show y / l ∈ {y : ℝ | 0 ≤ y} from (by positivity : (0:ℝ) ≤ y / l)) h'
    field_simp at this
    exact this
  have himg : (fun y : ℝ => (y / l) ^ k) '' Set.Ioi 0 = Set.Ioi 0 := by
    ext z
    constructor
    · rintro ⟨y, hy, rfl⟩
      have hy : 0 < y := hy
      exact Set.mem_Ioi.mpr (by positivity)
    · intro hz
      have hz : 0 < z := hz
      refine ⟨l * z ^ (1 / k), Set.mem_Ioi.mpr (by positivity), ?_⟩
      simp only []
      rw [mul_div_cancel_left₀ _ hl.ne', ← Real.rpow_mul hz.le, one_div, inv_mul_cancel₀ hk.ne',
        Real.rpow_one]
  have h := lintegral_image_eq_lintegral_abs_deriv_mul measurableSet_Ioi hd hinj G
  rw [himg] at h
  rw [h]
  refine setLIntegral_congr_fun measurableSet_Ioi (fun y hy => ?_)
  have hy : 0 < y := hy
  rw [abs_of_nonneg (by positivity)]

theorem weibull_normalised (k l : ℝ) (hk : 0 < k) (hl : 0 < l) :
    ∫⁻ x, ENNReal.ofReal (weibullPdf k l x) = 1 := by
  have hexp : ∫⁻ u in Set.Ioi 0, ENNReal.ofReal (Real.exp (-u)) = 1 := by
    rw [← exponential_normalised 1 one_pos, ← lintegral_indicator measurableSet_Ioi]
    refine lintegral_congr_ne 0 (fun x hx => ?_)
    by_cases h : 0 < x
    · rw [Set.indicator_of_mem (Set.mem_Ioi.mpr h)]
      simp only [exponentialPdf, if_pos h.le, one_mul]
    · rw [Set.indicator_of_notMem (fun h' => h (Set.mem_Ioi.mp h'))]
      have : ¬ 0 ≤ x := fun h' => h (lt_of_le_of_ne h' (Ne.symm hx))
      simp only [exponentialPdf, if_neg this, ENNReal.ofReal_zero]
  rw [← hexp, lintegral_Ioi_eq_lintegral_comp_rpow _ k l hk hl,
    ← lintegral_indicator measurableSet_Ioi]
  refine lintegral_congr_ne 0 (fun x hx => ?_)
  by_cases h : 0 < x
  · rw [Set.indicator_of_mem (Set.mem_Ioi.mpr h), ← ENNReal.ofReal_mul (by positivity)]
    simp only [weibullPdf, if_pos h.le]
  · rw [Set.indicator_of_notMem (fun h' => h (Set.mem_Ioi.mp h'))]
    have : ¬ 0 ≤ x := fun h' => h (lt_of_le_of_ne h' (Ne.symm hx))
    simp only [weibullPdf, if_neg this, ENNReal.ofReal_zero]



/-- standard Student t density with ν degrees of freedom -/
noncomputable def studentTStd (ν x : ℝ) : ℝ :=
  Real.Gamma ((ν + 1) / 2) / (Real.Gamma (ν / 2) * Real.sqrt (ν * π)) * (1 + x ^ 2 / ν) ^ (-(ν + 1) / 2)

theorem studentT_subst (ν x : ℝ) (hν : 0 < ν) (hx : 0 < x) :
    (2 * x * ν / (ν + x ^ 2) ^ 2) *
      (1 / ProbabilityTheory.beta (1 / 2) (ν / 2) * (x ^ 2 / (ν + x ^ 2)) ^ ((1 / 2 : ℝ) - 1) *
        (1 - x ^ 2 / (ν + x ^ 2)) ^ (ν / 2 - 1)) = 2 * studentTStd ν x := by
  have hc : 0 < ν + x ^ 2 := by positivity
  set c := ν + x ^ 2 with hcdef
  have h1 : 1 - x ^ 2 / c = ν / c := by
    rw [hcdef]; field_simp; ring
  have h2 : (x ^ 2 / c) ^ ((1 / 2 : ℝ) - 1) = Real.sqrt c / x := by
    have : ((1 / 2 : ℝ) - 1) = -(1 / 2) := by norm_num
    rw [this, Real.rpow_neg (by positivity), ← Real.sqrt_eq_rpow, Real.sqrt_div (sq_nonneg x),
      Real.sqrt_sq hx.le, inv_div]
  have h3 : (ν / c) ^ (ν / 2 - 1) = ν ^ (ν / 2) / ν / (c ^ (ν / 2) / c) := by
    rw [Real.div_rpow hν.le hc.le, Real.rpow_sub_one hν.ne', Real.rpow_sub_one hc.ne']
  have h4 : (1 + x ^ 2 / ν) ^ (-(ν + 1) / 2) =
      (ν ^ (ν / 2) * Real.sqrt ν) / (c ^ (ν / 2) * Real.sqrt c) := by
    have e : 1 + x ^ 2 / ν = c / ν := by rw [hcdef]; field_simp
    have e2 : -(ν + 1) / 2 = -(ν / 2 + 1 / 2) := by ring
    rw [e, e2, Real.rpow_neg (by positivity), Real.div_rpow hc.le hν.le, inv_div,
      Real.rpow_add hν, Real.rpow_add hc, ← Real.sqrt_eq_rpow, ← Real.sqrt_eq_rpow]
  have h5 : ProbabilityTheory.beta (1 / 2) (ν / 2) =
      Real.sqrt π * Real.Gamma (ν / 2) / Real.Gamma ((ν + 1) / 2) := by
    have : (1 / 2 : ℝ) + ν / 2 = (ν + 1) / 2 := by ring
    rw [ProbabilityTheory.beta, Real.Gamma_one_half_eq, this]
  have h6 : Real.sqrt (ν * π) = Real.sqrt ν * Real.sqrt π := Real.sqrt_mul hν.le π
  have hsc : Real.sqrt c * Real.sqrt c = c := Real.mul_self_sqrt hc.le
  have hsν : Real.sqrt ν * Real.sqrt ν = ν := Real.mul_self_sqrt hν.le
  have hG1 : 0 < Real.Gamma ((ν + 1) / 2) := Real.Gamma_pos_of_pos (by positivity)
  have hG2 : 0 < Real.Gamma (ν / 2) := Real.Gamma_pos_of_pos (by positivity)
  have hA : 0 < c ^ (ν / 2) := Real.rpow_pos_of_pos hc _
  have hN : 0 < ν ^ (ν / 2) := Real.rpow_pos_of_pos hν _
  have hsc' : 0 < Real.sqrt c := Real.sqrt_pos.mpr hc
  have hsν' : 0 < Real.sqrt ν := Real.sqrt_pos.mpr hν
  have hsπ : 0 < Real.sqrt π := Real.sqrt_pos.mpr Real.pi_pos
  simp only [studentTStd]
  rw [h1, h2, h3, h4, h5, h6]
  generalize Real.sqrt c = sc at *
  generalize Real.sqrt ν = sn at *
  generalize Real.sqrt π = sp at *
  generalize c ^ (ν / 2) = A at *
  generalize ν ^ (ν / 2) = N at *
  generalize Real.Gamma ((ν + 1) / 2) = G1 at *
  generalize Real.Gamma (ν / 2) = G2 at *
  field_simp
  linear_combination hsc


/-- an even function integrates to twice its integral over the positive half line -/
theorem lintegral_even (G : ℝ → ENNReal) (hG : ∀ x, G (-x) = G x) :
    ∫⁻ x, G x = 2 * ∫⁻ x in Set.Ioi 0, G x := by
  have hneg : ∫⁻ x in Set.Iio 0, G x = ∫⁻ x in Set.Ioi 0, G x := by
    have hd : ∀ x ∈ Set.Ioi (0:ℝ), HasDerivWithinAt (fun y : ℝ => -y) (-1) (Set.Ioi 0) x :=
      fun x _ => (hasDerivAt_neg x).hasDerivWithinAt
    have hinj : Set.InjOn (fun y : ℝ => -y) (Set.Ioi 0) := neg_injective.injOn
    have himg : (fun y : ℝ => -y) '' Set.Ioi 0 = Set.Iio 0 := by
      simp
    have h := lintegral_image_eq_lintegral_abs_deriv_mul (f' := fun _ => (-1 : ℝ))
      measurableSet_Ioi hd hinj G
    rw [himg] at h
    rw [h]
    refine setLIntegral_congr_fun measurableSet_Ioi (fun y _ => ?_)
    simp [hG]
  have hsplit : ∫⁻ x, G x = (∫⁻ x in Set.Iic 0, G x) + ∫⁻ x in Set.Ioi 0, G x := by
    have h := lintegral_add_compl (μ := volume) G (measurableSet_Iic (a := (0:ℝ)))
    rw [Set.compl_Iic] at h
    exact h.symm
  have hIic : ∫⁻ x in Set.Iic 0, G x = ∫⁻ x in Set.Iio 0, G x :=
    setLIntegral_congr Iio_ae_eq_Iic.symm
  rw [hsplit, hIic, hneg, two_mul]

theorem studentTStd_nonneg (ν x : ℝ) (hν : 0 < ν) : 0 ≤ studentTStd ν x := by
  have hG1 : 0 < Real.Gamma ((ν + 1) / 2) := Real.Gamma_pos_of_pos (by positivity)
  have hG2 : 0 < Real.Gamma (ν / 2) := Real.Gamma_pos_of_pos (by positivity)
  simp only [studentTStd]
  positivity

theorem studentTStd_half (ν : ℝ) (hν : 0 < ν) :
    ∫⁻ x in Set.Ioi 0, ENNReal.ofReal (2 * studentTStd ν x) = 1 := by
  have hd : ∀ x ∈ Set.Ioi (0:ℝ), HasDerivWithinAt (fun y : ℝ => y ^ 2 / (ν + y ^ 2))
      (2 * x * ν / (ν + x ^ 2) ^ 2) (Set.Ioi 0) x := by
    intro x _
    have hne : ν + x ^ 2 ≠ 0 := by positivity
    have h1 : HasDerivAt (fun y : ℝ => y ^ 2) (2 * x) x := by
      simpa using hasDerivAt_pow 2 x
    have h2 : HasDerivAt (fun y : ℝ => ν + y ^ 2) (2 * x) x := by
      simpa using h1.const_add ν
    have h3 := h1.div h2 hne
    have : HasDerivAt (fun y : ℝ => y ^ 2 / (ν + y ^ 2)) (2 * x * ν / (ν + x ^ 2) ^ 2) x :=
      h3.congr_deriv (by ring)
    exact this.hasDerivWithinAt
  have hinj : Set.InjOn (fun y : ℝ => y ^ 2 / (ν + y ^ 2)) (Set.Ioi 0) := by
    intro x hx y hy h
    have hx : 0 < x := hx
    have hy : 0 < y := hy
    have h' : x ^ 2 / (ν + x ^ 2) = y ^ 2 / (ν + y ^ 2) := h
    rw [div_eq_div_iff (by positivity) (by positivity)] at h'
    have : x ^ 2 = y ^ 2 := by
      have : ν * x ^ 2 = ν * y ^ 2 := by linear_combination h'
      exact mul_left_cancel₀ hν.ne' this
    exact (pow_left_inj₀ hx.le hy.le (by norm_num)).mp this
  have himg : (fun y : ℝ => y ^ 2 / (ν + y ^ 2)) '' Set.Ioi 0 = Set.Ioo 0 1 := by
    ext t
    constructor
    · rintro ⟨y, hy, rfl⟩
      have hy : 0 < y := hy
      refine ⟨by positivity, ?_⟩
      rw [div_lt_one (by positivity)]
      linarith
    · rintro ⟨ht0, ht1⟩
      have h1t : 0 < 1 - t := by linarith
      refine ⟨Real.sqrt (ν * t / (1 - t)), Set.mem_Ioi.mpr (Real.sqrt_pos.mpr (by positivity)), ?_⟩
      simp only []
      rw [Real.sq_sqrt (by positivity)]
      field_simp
      ring
  have hbeta := lintegral_betaPDF_eq_one (α := 1 / 2) (β := ν / 2) (by norm_num) (by positivity)
  have hsupp : ∫⁻ t, betaPDF (1 / 2) (ν / 2) t = ∫⁻ t in Set.Ioo 0 1, betaPDF (1 / 2) (ν / 2) t := by
    rw [← lintegral_indicator measurableSet_Ioo]
    refine lintegral_congr (fun t => ?_)
    by_cases ht : t ∈ Set.Ioo (0:ℝ) 1
    · rw [Set.indicator_of_mem ht]
    · rw [Set.indicator_of_notMem ht, betaPDF_eq, if_neg (show ¬ (0 < t ∧ t < 1) from fun h => ht h), ENNReal.ofReal_zero]
  rw [hsupp, ← himg, lintegral_image_eq_lintegral_abs_deriv_mul measurableSet_Ioi hd hinj] at hbeta
  rw [← hbeta]
  refine setLIntegral_congr_fun measurableSet_Ioi (fun x hx => ?_)
  have hx : 0 < x := hx
  have hmem : 0 < x ^ 2 / (ν + x ^ 2) ∧ x ^ 2 / (ν + x ^ 2) < 1 := by
    refine ⟨by positivity, ?_⟩
    rw [div_lt_one (by positivity)]
    linarith
  rw [betaPDF_eq, if_pos hmem, ← ENNReal.ofReal_mul (abs_nonneg _), abs_of_nonneg (by positivity),
    studentT_subst ν x hν hx]

theorem studentTStd_normalised (ν : ℝ) (hν : 0 < ν) :
    ∫⁻ x, ENNReal.ofReal (studentTStd ν x) = 1 := by
  rw [lintegral_even _ (fun x => by simp only [studentTStd, neg_sq]), ← studentTStd_half ν hν,
    ← lintegral_const_mul' _ _ (by norm_num)]
  refine lintegral_congr (fun x => ?_)
  rw [ENNReal.ofReal_mul (by norm_num)]
  simp

/-- student_t(df ν, loc μ, scale σ) -/
noncomputable def studentTPdf (ν μ σ x : ℝ) : ℝ :=
  Real.Gamma ((ν + 1) / 2) / (Real.Gamma (ν / 2) * Real.sqrt (ν * π) * σ) *
    (1 + ((x - μ) / σ) ^ 2 / ν) ^ (-(ν + 1) / 2)

theorem studentT_eq_std (ν μ σ x : ℝ) :
    studentTPdf ν μ σ x = 1 / σ * studentTStd ν ((x - μ) / σ) := by
  simp only [studentTPdf, studentTStd]
  ring

theorem studentT_normalised (ν μ σ : ℝ) (hν : 0 < ν) (hσ : 0 < σ) :
    ∫⁻ x, ENNReal.ofReal (studentTPdf ν μ σ x) = 1 := by
  have haff := lintegral_affine (fun y : ℝ => ENNReal.ofReal (studentTStd ν y)) μ σ hσ
  rw [studentTStd_normalised ν hν] at haff
  rw [← haff]
  refine lintegral_congr (fun x => ?_)
  rw [← ENNReal.ofReal_mul (by positivity), studentT_eq_std]

/-- ν = 1 is the Cauchy distribution -/
theorem studentT_one_eq_cauchy (μ σ x : ℝ) : studentTPdf 1 μ σ x = cauchyPdf μ σ x := by
  simp only [studentTPdf, cauchyPdf]
  have e1 : ((1:ℝ) + 1) / 2 = 1 := by norm_num
  have e2 : -((1:ℝ) + 1) / 2 = -1 := by norm_num
  rw [e1, e2, Real.Gamma_one, Real.Gamma_one_half_eq, one_mul, Real.rpow_neg_one, div_one,
    ← sq, Real.sq_sqrt Real.pi_pos.le]
  simp only [one_div, mul_inv]


/-! Non-negativity: the `ENNReal.ofReal` in the normalisation statements clips nothing. -/

theorem gammaPdf_nonneg (a r x : ℝ) (ha : 0 < a) (hr : 0 < r) : 0 ≤ gammaPdf a r x := by
  have hG : 0 < Real.Gamma a := Real.Gamma_pos_of_pos ha
  simp only [gammaPdf]
  split_ifs with h
  · have := Real.rpow_pos_of_pos hr a
    have := Real.rpow_pos_of_pos h (a - 1)
    positivity
  · exact le_rfl

theorem chi2Pdf_nonneg (k x : ℝ) (hk : 0 < k) : 0 ≤ chi2Pdf k x := by
  rw [chi2_eq_gamma]; exact gammaPdf_nonneg _ _ _ (by positivity) (by norm_num)

theorem betaPdf_nonneg (a b x : ℝ) (ha : 0 < a) (hb : 0 < b) : 0 ≤ betaPdf a b x := by
  have hG1 : 0 < Real.Gamma a := Real.Gamma_pos_of_pos ha
  have hG2 : 0 < Real.Gamma b := Real.Gamma_pos_of_pos hb
  have hG3 : 0 < Real.Gamma (a + b) := Real.Gamma_pos_of_pos (by positivity)
  simp only [betaPdf]
  split_ifs with h
  · have := Real.rpow_pos_of_pos h.1 (a - 1)
    have := Real.rpow_pos_of_pos (sub_pos.mpr h.2) (b - 1)
    positivity
  · exact le_rfl

theorem cauchyPdf_nonneg (x₀ γ x : ℝ) (hγ : 0 < γ) : 0 ≤ cauchyPdf x₀ γ x := by
  simp only [cauchyPdf]; positivity

theorem laplacePdf_nonneg (μ b x : ℝ) (hb : 0 < b) : 0 ≤ laplacePdf μ b x := by
  simp only [laplacePdf]; positivity

theorem logNormalPdf_nonneg (μ σ x : ℝ) (hσ : 0 < σ) : 0 ≤ logNormalPdf μ σ x := by
  simp only [logNormalPdf]
  split_ifs with h
  · positivity
  · exact le_rfl

theorem halfNormalPdf_nonneg (σ x : ℝ) (hσ : 0 < σ) : 0 ≤ halfNormalPdf σ x := by
  simp only [halfNormalPdf]
  split_ifs with h
  · positivity
  · exact le_rfl

theorem inverseGammaPdf_nonneg (a b x : ℝ) (ha : 0 < a) (hb : 0 < b) : 0 ≤ inverseGammaPdf a b x := by
  have hG : 0 < Real.Gamma a := Real.Gamma_pos_of_pos ha
  simp only [inverseGammaPdf]
  split_ifs with h
  · have := Real.rpow_pos_of_pos hb a
    have := Real.rpow_pos_of_pos h (-a - 1)
    positivity
  · exact le_rfl

theorem weibullPdf_nonneg (k l x : ℝ) (hk : 0 < k) (hl : 0 < l) : 0 ≤ weibullPdf k l x := by
  simp only [weibullPdf]
  split_ifs with h
  · have := Real.rpow_nonneg (div_nonneg h hl.le) (k - 1)
    positivity
  · exact le_rfl

theorem studentTPdf_nonneg (ν μ σ x : ℝ) (hν : 0 < ν) (hσ : 0 < σ) : 0 ≤ studentTPdf ν μ σ x := by
  rw [studentT_eq_std]
  have := studentTStd_nonneg ν ((x - μ) / σ) hν
  positivity


/-- the first parameter (concentration1) is the exponent of `x`, the second of `1 − x` -/
theorem beta_swap (a b x : ℝ) : betaPdf a b x = betaPdf b a (1 - x) := by
  simp only [betaPdf]
  by_cases h : 0 < x ∧ x < 1
  · have h' : 0 < 1 - x ∧ 1 - x < 1 := ⟨by linarith [h.2], by linarith [h.1]⟩
    rw [if_pos h, if_pos h', sub_sub_cancel, add_comm b a, mul_comm (Real.Gamma b)]
    ring
  · have h' : ¬ (0 < 1 - x ∧ 1 - x < 1) := fun h' => h ⟨by linarith [h'.2], by linarith [h'.1]⟩
    rw [if_neg h, if_neg h']

/-- laplace takes a scale (not a rate) -/
theorem laplace_loc_scale (μ b x : ℝ) (hb : 0 < b) :
    laplacePdf μ b x = 1 / b * laplacePdf 0 1 ((x - μ) / b) := by
  simp only [laplacePdf, sub_zero, div_one, mul_one]
  rw [abs_div, abs_of_pos hb, neg_div]
  field_simp

/-- cauchy takes a scale -/
theorem cauchy_loc_scale (x₀ γ x : ℝ) :
    cauchyPdf x₀ γ x = 1 / γ * cauchyPdf 0 1 ((x - x₀) / γ) := by
  simp only [cauchyPdf, sub_zero, div_one, mul_one]
  simp only [one_div, mul_inv]
  ring

/-- normal takes a standard deviation -/
theorem normal_loc_scale (μ σ x : ℝ) (hσ : 0 < σ) :
    normalPdf μ σ x = 1 / σ * normalPdf 0 1 ((x - μ) / σ) := by
  simp only [normalPdf, sub_zero, one_pow, mul_one]
  rw [Real.sqrt_mul' _ (sq_nonneg σ), Real.sqrt_sq hσ.le]
  have : Real.sqrt (2 * π) ≠ 0 := by positivity
  have e : -(x - μ) ^ 2 / (2 * σ ^ 2) = -((x - μ) / σ) ^ 2 / 2 := by field_simp
  rw [e]
  field_simp


end Genjax.DistSpec
