import GenjaxModel.Model.Sel
/-! Helper lemmas for C16 (selection algebra, filter). Core Lean only. -/
namespace Genjax
open Sel

@[simp] theorem matchAddr_union (s t : Sel) (k : String) :
    (Sel.union s t).matchAddr k =
      ((s.matchAddr k).1 || (t.matchAddr k).1, .union (s.matchAddr k).2 (t.matchAddr k).2) := by
  simp [Sel.matchAddr]

@[simp] theorem matchAddr_inter (s t : Sel) (k : String) :
    (Sel.inter s t).matchAddr k =
      ((s.matchAddr k).1 && (t.matchAddr k).1, .inter (s.matchAddr k).2 (t.matchAddr k).2) := by
  simp [Sel.matchAddr]

@[simp] theorem matchAddr_compl (s : Sel) (k : String) :
    (Sel.compl s).matchAddr k = (!(s.matchAddr k).1, .compl (s.matchAddr k).2) := by
  simp [Sel.matchAddr]

theorem rem_union (s t : Sel) (p : List String) :
    (Sel.union s t).rem p = .union (s.rem p) (t.rem p) := by
  induction p generalizing s t with
  | nil => rfl
  | cons k p ih => simp [Sel.rem, ih]

theorem rem_inter (s t : Sel) (p : List String) :
    (Sel.inter s t).rem p = .inter (s.rem p) (t.rem p) := by
  induction p generalizing s t with
  | nil => rfl
  | cons k p ih => simp [Sel.rem, ih]

theorem rem_compl (s : Sel) (p : List String) :
    (Sel.compl s).rem p = .compl (s.rem p) := by
  induction p generalizing s with
  | nil => rfl
  | cons k p ih => simp [Sel.rem, ih]

theorem rem_all (p : List String) : Sel.all.rem p = .all := by
  induction p with
  | nil => rfl
  | cons k p ih => simpa [Sel.rem, Sel.matchAddr] using ih

theorem rem_none (p : List String) : Sel.none.rem p = .none := by
  induction p with
  | nil => rfl
  | cons k p ih => simpa [Sel.rem, Sel.matchAddr] using ih

end Genjax

namespace Genjax

theorem selected_str (a : String) (p : List String) :
    (Sel.str a).selected p = match p with | [] => false | k :: _ => decide (k = a) := by
  cases p with
  | nil => rfl
  | cons k p =>
    by_cases h : k = a
    · simp [Sel.selected, Sel.rem, Sel.matchAddr, h, rem_all, Sel.leaf]
    · simp [Sel.selected, Sel.rem, Sel.matchAddr, h, rem_none, Sel.leaf]

theorem selected_tup (q p : List String) :
    (Sel.tup q).selected p = (!q.isEmpty && q.isPrefixOf p) := by
  induction q generalizing p with
  | nil =>
    cases p with
    | nil => rfl
    | cons k p => simp [Sel.selected, Sel.rem, Sel.matchAddr, rem_none, Sel.leaf]
  | cons x q ih =>
    cases p with
    | nil => simp [Sel.selected, Sel.rem, Sel.leaf, List.isPrefixOf]
    | cons k p =>
      cases q with
      | nil =>
        by_cases h : k = x
        · simp [Sel.selected, Sel.rem, Sel.matchAddr, h, rem_all, Sel.leaf, List.isPrefixOf]
        · have h' : ¬ x = k := fun e => h e.symm
          simp [Sel.selected, Sel.rem, Sel.matchAddr, h, h', rem_none, Sel.leaf, List.isPrefixOf]
      | cons y r =>
        by_cases h : k = x
        · have := ih p
          simp [Sel.selected] at this
          simp [Sel.selected, Sel.rem, Sel.matchAddr, h, List.isPrefixOf, this]
        · have h' : ¬ x = k := fun e => h e.symm
          simp [Sel.selected, Sel.rem, Sel.matchAddr, h, h', rem_none, Sel.leaf, List.isPrefixOf]

end Genjax

namespace Genjax

def pfx (k : String) (e : List String × Int) : List String × Int := (k :: e.1, e.2)

theorem ChmL.leaves_cons (k : String) (v : Chm) (rest : ChmL) :
    (ChmL.cons k v rest).leaves = v.leaves.map (pfx k) ++ rest.leaves := by
  simp [ChmL.leaves, pfx]

theorem leaves_optcons (k : String) (ks rs : ChmL) :
    (ChmL.optCons k ks rs).leaves = ks.leaves.map (pfx k) ++ rs.leaves := by
  cases ks with
  | nil => simp [ChmL.optCons, ChmL.leaves]
  | cons a b c => simp [ChmL.optCons, ChmL.leaves_cons, Chm.leaves]

theorem selected_cons (s : Sel) (k : String) (p : List String) :
    s.selected (k :: p) = (s.matchAddr k).2.selected p := rfl

theorem filter_map_pfx (s : Sel) (k : String) (l : List (List String × Int)) (neg : Bool) :
    (l.map (pfx k)).filter (fun e => (s.selected e.1) != neg)
      = (l.filter (fun e => ((s.matchAddr k).2.selected e.1) != neg)).map (pfx k) := by
  induction l with
  | nil => rfl
  | cons e l ih =>
    simp only [List.map_cons, List.filter_cons, pfx, selected_cons]
    split <;> simp_all [pfx]

theorem filterSpec_leaves (x : ChmL) (s : Sel) :
    (x.filterSpec s).1.leaves = x.leaves.filter (fun e => (s.selected e.1) != false) ∧
    (x.filterSpec s).2.leaves = x.leaves.filter (fun e => (s.selected e.1) != true) := by
  fun_induction ChmL.filterSpec x s with
  | case1 s => simp [ChmL.leaves]
  | case2 k rest s r rs ru hrec x hleaf ih =>
    rw [hrec] at ih
    have hl : (s.matchAddr k).2.selected [] = true := hleaf
    simp only [ChmL.leaves_cons, Chm.leaves, List.map_cons, List.map_nil, List.filter_append,
      List.filter_cons, List.filter_nil, pfx, selected_cons]
    simp [hl, ih.1, ih.2]
  | case3 k rest s r rs ru hrec x hleaf ih =>
    rw [hrec] at ih
    have hl : (s.matchAddr k).2.selected [] = false := by
      simpa [Sel.selected, Sel.rem] using hleaf
    simp only [ChmL.leaves_cons, Chm.leaves, List.map_cons, List.map_nil, List.filter_append,
      List.filter_cons, List.filter_nil, pfx, selected_cons]
    simp [hl, ih.1, ih.2]
  | case4 k rest s r rs ru hrec kids ks ku hk ih2 ih1 =>
    rw [hrec] at ih2
    rw [hk] at ih1
    simp only [leaves_optcons, ChmL.leaves_cons, Chm.leaves, List.filter_append, filter_map_pfx]
    simp [ih1.1, ih1.2, ih2.1, ih2.2, r]

end Genjax

namespace Genjax

theorem filter_all_false {α} (l : List α) (f : α → Bool) (h : l.all (fun e => !f e) = true) :
    l.filter (fun e => f e != false) = [] ∧ l.filter (fun e => f e != true) = l := by
  have h' : ∀ a ∈ l, f a = false := by simpa using h
  constructor
  · rw [List.filter_eq_nil_iff]; intro a ha; simp [h' a ha]
  · rw [List.filter_eq_self]; intro a ha; simp [h' a ha]

theorem all_leaves_cons (k : String) (v : Chm) (rest : ChmL) (s : Sel) :
    ((ChmL.cons k v rest).leaves.all fun e => !s.selected e.1) =
      ((v.leaves.all fun e => !(s.matchAddr k).2.selected e.1) &&
       (rest.leaves.all fun e => !s.selected e.1)) := by
  simp [ChmL.leaves_cons, List.all_append, List.all_map, pfx, selected_cons, Function.comp_def]

theorem noEmpty_node (kids : ChmL) (h : (Chm.node kids).noEmpty = true) :
    kids.noEmpty = true ∧ kids ≠ .nil := by
  cases kids with
  | nil => simp [Chm.noEmpty] at h
  | cons k v r => simpa [Chm.noEmpty] using h

theorem filterSpec_none (x : ChmL) (s : Sel) (hne : x.noEmpty = true)
    (h : x.leaves.all (fun e => !s.selected e.1) = true) :
    x.filterSpec s = (.nil, x) := by
  fun_induction ChmL.filterSpec x s with
  | case1 => rfl
  | case2 k rest s r ks ku hrec x hl ih =>
    rw [all_leaves_cons] at h
    have : (s.matchAddr k).2.selected [] = true := hl
    simp [Chm.leaves, this] at h
  | case3 k rest s r ks ku hrec x hl ih =>
    rw [all_leaves_cons] at h
    simp only [ChmL.noEmpty, Bool.and_eq_true] at hne
    simp only [Bool.and_eq_true] at h
    have := ih hne.2 h.2
    rw [hrec] at this
    simp_all
  | case4 k rest s r ks1 ku1 hrec kids ks ku hk ih2 ih1 =>
    rw [all_leaves_cons] at h
    simp only [ChmL.noEmpty, Bool.and_eq_true] at hne
    simp only [Bool.and_eq_true, Chm.leaves] at h
    have hn := noEmpty_node kids hne.1
    have h2 := ih2 hne.2 h.2
    have h1 := ih1 hn.1 h.1
    rw [hrec] at h2
    rw [hk] at h1
    cases kids with
    | nil => exact absurd rfl hn.2
    | cons a b c =>
      simp_all [ChmL.optCons]
/-- under `flagSound` (and no empty sub-dicts) the code's filter = the specification filter -/
theorem filterAsis_eq_filterSpec (x : ChmL) (s : Sel) (hne : x.noEmpty = true)
    (h : x.flagSound s = true) :
    x.filterAsis s = x.filterSpec s := by
  fun_induction ChmL.filterAsis x s with
  | case1 s => simp [ChmL.filterSpec]
  | case2 k rest s r ks ku hrec xv hm ih =>
    simp only [ChmL.flagSound, hm, Bool.and_eq_true, beq_iff_eq] at h
    simp only [ChmL.noEmpty, Bool.and_eq_true] at hne
    have := ih hne.2 h.1
    rw [hrec] at this
    simp [ChmL.filterSpec, hm, ← this, ← h.2]
  | case3 k rest s r ks1 ku1 hrec kids ks ku hk hm ih2 ih1 =>
    simp only [ChmL.flagSound, hm, Bool.and_eq_true, if_true] at h
    simp only [ChmL.noEmpty, Bool.and_eq_true] at hne
    have hn := noEmpty_node kids hne.1
    have h2 := ih2 hne.2 h.1
    have h1 := ih1 hn.1 h.2
    rw [hrec] at h2
    rw [hk] at h1
    simp [ChmL.filterSpec, hm, ← h1, ← h2]
  | case4 k v rest s c r hm ks ku hrec hc ih =>
    have hc' : c = false := by simpa using hc
    subst hc'
    simp only [ChmL.noEmpty, Bool.and_eq_true] at hne
    cases v with
    | leaf xv =>
      simp only [ChmL.flagSound, hm, Bool.and_eq_true, beq_iff_eq] at h
      have := ih hne.2 h.1
      rw [hrec] at this
      simp [ChmL.filterSpec, hm, ← this, ← h.2]
    | node kids =>
      simp only [ChmL.flagSound, hm, Bool.and_eq_true] at h
      have hn := noEmpty_node kids hne.1
      have := ih hne.2 h.1
      rw [hrec] at this
      have hs := filterSpec_none kids r hn.1 (by simpa using h.2)
      cases kids with
      | nil => exact absurd rfl hn.2
      | cons a b c => simp [ChmL.filterSpec, hm, ← this, hs, ChmL.optCons]
theorem selected_none' (p) : Sel.none.selected p = false := by simp [Sel.selected, rem_none, Sel.leaf]
theorem selected_inter' (s t p) : (Sel.inter s t).selected p = (s.selected p && t.selected p) := by
  simp [Sel.selected, rem_inter, Sel.leaf]
theorem selected_union' (s t p) : (Sel.union s t).selected p = (s.selected p || t.selected p) := by
  simp [Sel.selected, rem_union, Sel.leaf]

theorem lookup_complFree (d : DSel) (k : String) (h : d.complFree = true) :
    (d.lookup k).2.complFree = true ∧
    ((d.lookup k).1 = false → ∀ p, (d.lookup k).2.selected p = false) := by
  induction d, k using DSel.lookup.induct with
  | case1 k => simp [DSel.lookup, Sel.complFree, selected_none']
  | case2 v rest k =>
    simp only [DSel.complFree, Bool.and_eq_true] at h
    simp [DSel.lookup, h.1]
  | case3 a v rest k hk ih =>
    simp only [DSel.complFree, Bool.and_eq_true] at h
    simpa [DSel.lookup, hk] using ih h.2

/-- for complement-free selections a miss of the hit flag really means
    "nothing below is selected" -- the fact `Fn.filter` relies on. -/
theorem complFree_miss (s : Sel) (k : String) (h : s.complFree = true) :
    (s.matchAddr k).2.complFree = true ∧
    ((s.matchAddr k).1 = false → ∀ p, (s.matchAddr k).2.selected p = false) := by
  induction s, k using Sel.matchAddr.induct with
  | case10 d k => simpa [Sel.matchAddr] using lookup_complFree d k (by simpa [Sel.complFree] using h)
  | case11 s k c r hm ih => simp [Sel.complFree] at h
  | case12 s t k c1 r1 h1 c2 r2 h2 ih1 ih2 =>
    simp only [Sel.complFree, Bool.and_eq_true] at h
    have a := ih1 h.1
    have b := ih2 h.2
    refine ⟨by simp [Sel.complFree, a.1, b.1], ?_⟩
    intro hf p
    simp only [matchAddr_inter, Bool.and_eq_false_iff] at hf
    rw [matchAddr_inter, selected_inter']
    cases hf with
    | inl h' => simp [a.2 h' p]
    | inr h' => simp [b.2 h' p]
  | case13 s t k c1 r1 h1 c2 r2 h2 ih1 ih2 =>
    simp only [Sel.complFree, Bool.and_eq_true] at h
    have a := ih1 h.1
    have b := ih2 h.2
    refine ⟨by simp [Sel.complFree, a.1, b.1], ?_⟩
    intro hf p
    simp only [matchAddr_union, Bool.or_eq_false_iff] at hf
    rw [matchAddr_union, selected_union']
    simp [a.2 hf.1 p, b.2 hf.2 p]
  | _ => simp_all [Sel.matchAddr, Sel.complFree, selected_none']
end Genjax
