import GenjaxModel.Model.VmapRuleNest
import GenjaxModel.Proofs.VmapRule
/-!
  The nest model (`Model/VmapRuleNest.lean`) with ONE level is the one-level model of
  `Model/VmapRule.lean` (for which `rule_lanewise` is proved), for every `Cfg`.
-/
namespace Genjax.VmapRule

section OneLevel
variable {ν α β κ : Type} [DecidableEq ν]

/-- a one-level argument as an argument of the nest model -/
def BArg.toN (a : BArg α) : NArg α := ⟨a.arr, [a.bdim]⟩

/-- a one-level site as a site of the nest model -/
def Site.toN (s : Site ν α) : NSite ν α :=
  ⟨s.sig, s.sampleShape, s.pos.map BArg.toN, s.kws.map fun kw => (kw.1, kw.2.toN)⟩

omit [DecidableEq ν] in
theorem toN_flat (s : Site ν α) : s.toN.flat = s.flat.map BArg.toN := by
  simp [NSite.flat, Site.flat, Site.toN, List.map_map, Function.comp_def]

theorem moveInner_toN (cfg : Cfg) (a : BArg α) : (moveInner cfg [] a.toN).arr = moveArg cfg a := by
  obtain ⟨arr, bd⟩ := a
  cases bd with
  | none => simp [moveInner, BArg.toN, moveArg]
  | some d =>
      cases h : cfg.moveMappedAxes <;> simp [moveInner, BArg.toN, moveArg, h, liftOuter]

omit [DecidableEq ν] in
theorem mapped_iff (s : Site ν α) :
    (s.toN.flat.any fun a => a.inner.isSome) = (staticDimLength s.flat).isSome := by
  rw [toN_flat]
  rw [Bool.eq_iff_iff]
  simp only [List.any_map, List.any_eq_true, Function.comp, staticDimLength,
    List.findSome?_isSome_iff]
  constructor
  · rintro ⟨a, ha, h⟩
    refine ⟨a, ha, ?_⟩
    cases hb : a.bdim <;> simp_all [NArg.inner, BArg.toN]
  · rintro ⟨a, ha, h⟩
    refine ⟨a, ha, ?_⟩
    cases hb : a.bdim <;> simp_all [NArg.inner, BArg.toN]


omit [DecidableEq ν] in
theorem static_eq_of_valid {s : Site ν α} {n m : Nat} (hv : s.Valid n)
    (h : staticDimLength s.flat = some m) : m = n := by
  obtain ⟨a, ha, hm⟩ := List.exists_of_findSome?_eq_some h
  cases hb : a.bdim with
  | none => simp [hb] at hm
  | some d =>
      have := hv.1 a ha d hb
      simp [hb, List.getD_eq_getElem?_getD, this] at hm
      exact hm.symm

omit [DecidableEq ν] in
theorem rebindInner_ax (cfg : Cfg) (s : Site ν α) (n : Nat) (hv : s.Valid n) :
    (rebindInner cfg s.toN n []).2 = outAxis cfg s n := by
  simp only [rebindInner, mapped_iff, outAxis]
  cases h : staticDimLength s.flat with
  | none => simp
  | some m =>
      have := static_eq_of_valid hv h
      subst this
      simp [Site.toN]

/-- the one call of the nest model (one level) is the one call of `rule` -/
theorem nestCall_one (cfg : Cfg) (site : κ → List Nat → List (Option α) → β) (key : κ)
    (s : Site ν α) (n : Nat) (hv : s.Valid n) :
    nestCall cfg site key [n] s.toN = (rule cfg site key s n).map fun r => (r.1, [r.2]) := by
  have hax := rebindInner_ax cfg s n hv
  simp only [nestCall, rebindNest, rule, Option.map_map]
  rw [hax]
  have hss : (rebindInner cfg s.toN n []).1.sampleShape = newSampleShape s n := by
    simp only [rebindInner, mapped_iff, newSampleShape]
    cases h : staticDimLength s.flat <;> cases cfg.kwargsAsKeywords <;> simp [Site.toN]
  have hsig : (rebindInner cfg s.toN n []).1.sig = s.sig := by
    simp only [rebindInner, Site.toN]; cases cfg.kwargsAsKeywords <;> simp
  cases hk : cfg.kwargsAsKeywords with
  | true =>
      have hpos : (rebindInner cfg s.toN n []).1.pos.map (·.arr) = s.pos.map (moveArg cfg) := by
        simp [rebindInner, Site.toN, hk, List.map_map, Function.comp_def, moveInner_toN]
      have hkws : ((rebindInner cfg s.toN n []).1.kws.map fun kw => (kw.1, kw.2.arr)) =
          s.kws.map fun kw => (kw.1, moveArg cfg kw.2) := by
        simp [rebindInner, Site.toN, hk, List.map_map, Function.comp_def, moveInner_toN]
      rw [hpos, hkws, hss, hsig]
      simp [Function.comp_def]
  | false =>
      have hpos : (rebindInner cfg s.toN n []).1.pos.map (·.arr) =
          s.pos.map (moveArg cfg) ++ (s.kws.map fun kw => (kw.1, moveArg cfg kw.2)).map (·.2) := by
        simp [rebindInner, Site.toN, hk, List.map_map, Function.comp_def, moveInner_toN]
      have hkws : ((rebindInner cfg s.toN n []).1.kws.map fun kw => (kw.1, kw.2.arr)) = [] := by
        simp [rebindInner, Site.toN, hk]
      rw [hpos, hkws, hss, hsig]
      simp [Function.comp_def]


omit [DecidableEq ν] in
theorem laneShape1_toN (a : BArg α) : a.toN.laneShape1 = laneShape a := by
  obtain ⟨arr, bd⟩ := a
  cases bd <;> rfl

theorem abstractShape_toN (s : Site ν α) :
    s.toN.abstractShape = (laneBatchShape s).map (s.sampleShape ++ ·) := by
  unfold NSite.abstractShape laneBatchShape
  have hpos : s.toN.pos.map (·.laneShape1) = s.pos.map laneShape := by
    simp [Site.toN, List.map_map, Function.comp_def, laneShape1_toN]
  have hkws : (s.toN.kws.map fun kw => (kw.1, kw.2.laneShape1)) = s.kws.map fun kw => (kw.1, laneShape kw.2) := by
    simp [Site.toN, List.map_map, Function.comp_def, laneShape1_toN]
  rw [hpos, hkws, bindArgs_map]
  have hsig : s.toN.sig = s.sig := rfl
  have hss : s.toN.sampleShape = s.sampleShape := rfl
  rw [hsig, hss]
  cases bindArgs s.sig s.pos s.kws with
  | none => rfl
  | some ps =>
      simp only [Option.map_some, Option.bind_some]
      have : (List.map (Option.map laneShape) ps).filterMap id = ps.filterMap fun p => p.map laneShape := by
        rw [List.filterMap_map]; rfl
      rw [this]

/-- two arrays agree: same shape, same entry at every non-empty index -/
def Arr.Same (a b : Arr β) : Prop := a.shape = b.shape ∧ ∀ i r, a.get (i :: r) = b.get (i :: r)

/-- **the nest model with one level is the one-level model**, for every `Cfg` (current code and
    both pre-fix variants): same result (or both raise) whenever `jax.vmap`'s guarantees hold
    (`Valid`) and the site is defined on its lanes (staging succeeds). -/
theorem nest_one_level (cfg : Cfg) (site : κ → List Nat → List (Option α) → β) (key : κ)
    (s : Site ν α) (n : Nat) (B : List Nat) (hv : s.Valid n) (hB : laneBatchShape s = some B) :
    match vmapSite cfg site key s n, vmapNest cfg site key [n] s.toN with
    | some R, some R' => R'.Same R
    | none, none => True
    | _, _ => False := by
  have hnc := nestCall_one cfg site key s n hv
  have habs : (beforeOutermost cfg [n] s.toN).abstractShape = some (s.sampleShape ++ B) := by
    simp [beforeOutermost, abstractShape_toN, hB]
  have hbind : (bindArgs (rebindNest cfg [n] s.toN).1.sig ((rebindNest cfg [n] s.toN).1.pos.map (·.arr))
      ((rebindNest cfg [n] s.toN).1.kws.map fun kw => (kw.1, kw.2.arr))).isNone = true →
      nestCall cfg site key [n] s.toN = none := by
    intro h
    simp only [Option.isNone_iff_eq_none] at h
    simp only [nestCall, draw, h, Option.map_none]
  cases hr : rule cfg site key s n with
  | none =>
      rw [hr] at hnc
      simp only [Option.map_none] at hnc
      cases hc : (bindArgs (rebindNest cfg [n] s.toN).1.sig ((rebindNest cfg [n] s.toN).1.pos.map (·.arr))
          ((rebindNest cfg [n] s.toN).1.kws.map fun kw => (kw.1, kw.2.arr))).isNone <;>
        simp [vmapSite, hr, vmapNest, vmapNestE, habs, hnc, hc]
  | some r =>
      obtain ⟨res, ax⟩ := r
      rw [hr] at hnc
      simp only [Option.map_some] at hnc
      have hb : (bindArgs (rebindNest cfg [n] s.toN).1.sig ((rebindNest cfg [n] s.toN).1.pos.map (·.arr))
          ((rebindNest cfg [n] s.toN).1.kws.map fun kw => (kw.1, kw.2.arr))).isNone = false := by
        cases hh : (bindArgs (rebindNest cfg [n] s.toN).1.sig ((rebindNest cfg [n] s.toN).1.pos.map (·.arr))
          ((rebindNest cfg [n] s.toN).1.kws.map fun kw => (kw.1, kw.2.arr))).isNone
        · rfl
        · rw [hbind hh] at hnc; simp at hnc
      simp only [vmapSite, hr, Option.bind_some, vmapNest, vmapNestE, habs, hnc, hb]
      cases ax with
      | none =>
          simp [stagedTranspose, vmapOut, unwindOk, unwind, Arr.Same, Arr.stack]
      | some ax =>
          by_cases hlt : ax < res.shape.length
          · simp [stagedTranspose, vmapOut, unwindOk, unwind, Arr.Same, Arr.stack, hlt, Arr.moveFront, Arr.take]
          · simp [stagedTranspose, vmapOut, unwindOk, hlt]

end OneLevel

/-! ### concrete nests -/
namespace Ex

def w2 : Arr Nat := Arr.ofFlat [2] [7, 8] 0
def w3 : Arr Nat := Arr.ofFlat [3] [7, 8, 9] 0
def c5 : Arr Nat := Arr.ofFlat [] [5] 0

/-- `modular_vmap(lambda a: modular_vmap(lambda: site(a, 5), axis_size=2)() , in_axes=0)(v3)`:
    a repeat inside a map — inside the lane-wise region -/
def nestedRepeat : NSite Nat Nat := ⟨[0, 1], [], [⟨v3, [none, some 0]⟩, ⟨c5, [none, none]⟩], []⟩

/-- `modular_vmap(lambda a, w: modular_vmap(lambda ww: site(a, ww))(w), in_axes=(0, None))(v3, w)`:
    a lane-wise scalar next to an inner-mapped vector — the second form of the open finding -/
def nestedBatched (w : Arr Nat) : NSite Nat Nat := ⟨[0, 1], [], [⟨v3, [none, some 0]⟩, ⟨w, [some 0, none]⟩], []⟩

/-- both parameters mapped at both levels (outer `in_axes=1`, inner `in_axes=0`), own
    `sample_shape=(2,)` — inside the lane-wise region -/
def nestedBoth : NSite Nat Nat := ⟨[0, 1], [2], [⟨m23, [some 0, some 1]⟩], [(1, ⟨m32, [some 0, some 0]⟩)]⟩

end Ex

end Genjax.VmapRule
