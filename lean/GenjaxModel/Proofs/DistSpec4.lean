import GenjaxModel.Proofs.DistSpec2
import Mathlib.Analysis.Matrix.Order
import Mathlib.MeasureTheory.Integral.Pi
import Mathlib.MeasureTheory.Function.Jacobian
/-!
  C13, part 4: multivariate_normal(loc, covariance_matrix) on ℝ^k: documented density, total mass
  one for every positive definite covariance (whitening change of variables x = μ + Bᵀ z with
  Σ = Bᵀ B, then Fubini on the standard Gaussian), and the lemma pinning that the matrix argument
  is a covariance (diagonal case = independent normals with standard deviations σ_i).
-/
open Real MeasureTheory ProbabilityTheory Matrix
open scoped MatrixOrder

namespace Genjax.DistSpec


theorem posDef_exists_factor {k : ℕ} (S : Matrix (Fin k) (Fin k) ℝ) (hS : S.PosDef) :
    ∃ B : Matrix (Fin k) (Fin k) ℝ, S = Bᵀ * B := by
  obtain ⟨B, hB⟩ := CStarAlgebra.nonneg_iff_eq_star_mul_self.mp hS.posSemidef.nonneg
  exact ⟨B, by simpa [star_eq_conjTranspose, conjTranspose_eq_transpose_of_trivial] using hB⟩

theorem stdMvn_integral (k : ℕ) : ∫ z : Fin k → ℝ, ∏ i, normalPdf 0 1 (z i) = 1 := by
  rw [integral_fintype_prod_volume_eq_prod (fun _ : Fin k => normalPdf 0 1)]
  simp [normalPdf_integral 0 1 one_pos]

theorem stdMvn_lintegral (k : ℕ) :
    ∫⁻ z : Fin k → ℝ, ENNReal.ofReal (∏ i, normalPdf 0 1 (z i)) = 1 := by
  have hint : Integrable (fun z : Fin k → ℝ => ∏ i, normalPdf 0 1 (z i)) := by
    apply Integrable.of_integral_ne_zero
    rw [stdMvn_integral]; exact one_ne_zero
  rw [← ofReal_integral_eq_lintegral_ofReal hint
    (ae_of_all _ (fun z => Finset.prod_nonneg (fun i _ => by simp only [normalPdf]; positivity))),
    stdMvn_integral, ENNReal.ofReal_one]

theorem prod_normalPdf_std {k : ℕ} (z : Fin k → ℝ) :
    ∏ i, normalPdf 0 1 (z i) = (2 * π) ^ (-(k : ℝ) / 2) * Real.exp (-(1 / 2) * (z ⬝ᵥ z)) := by
  simp only [normalPdf, sub_zero, one_pow, mul_one]
  rw [Finset.prod_mul_distrib, Finset.prod_const, Finset.card_univ, Fintype.card_fin,
    ← Real.exp_sum]
  congr 1
  · rw [Real.sqrt_eq_rpow, ← Real.rpow_neg (by positivity), ← Real.rpow_natCast,
      ← Real.rpow_mul (by positivity)]
    congr 1; ring
  · congr 1
    simp only [dotProduct, Finset.mul_sum]
    refine Finset.sum_congr rfl (fun i _ => ?_)
    ring


/-- multivariate_normal(loc μ, covariance_matrix Σ) on ℝ^k -/
noncomputable def multivariateNormalPdf {k : ℕ} (μ : Fin k → ℝ) (S : Matrix (Fin k) (Fin k) ℝ)
    (x : Fin k → ℝ) : ℝ :=
  (2 * π) ^ (-(k : ℝ) / 2) * |S.det| ^ (-(1 / 2 : ℝ)) *
    Real.exp (-(1 / 2) * ((x - μ) ⬝ᵥ (S⁻¹ *ᵥ (x - μ))))

/-- the quadratic form in whitened coordinates -/
theorem mvn_quadform {k : ℕ} (B : Matrix (Fin k) (Fin k) ℝ) (hB : B.det ≠ 0) (z : Fin k → ℝ) :
    (Bᵀ *ᵥ z) ⬝ᵥ ((Bᵀ * B)⁻¹ *ᵥ (Bᵀ *ᵥ z)) = z ⬝ᵥ z := by
  have hBu : IsUnit B.det := isUnit_iff_ne_zero.mpr hB
  have hBtu : IsUnit Bᵀ.det := by rw [det_transpose]; exact hBu
  have e1 : (Bᵀ * B)⁻¹ * Bᵀ = B⁻¹ := by
    rw [Matrix.mul_inv_rev, Matrix.mul_assoc, Matrix.nonsing_inv_mul _ hBtu, Matrix.mul_one]
  rw [mulVec_mulVec, e1, mulVec_transpose, ← dotProduct_mulVec, mulVec_mulVec,
    Matrix.mul_nonsing_inv _ hBu, one_mulVec]

theorem lintegral_linear_change {k : ℕ} (A : Matrix (Fin k) (Fin k) ℝ) (hA : A.det ≠ 0)
    (μ : Fin k → ℝ) (G : (Fin k → ℝ) → ENNReal) :
    ∫⁻ x, G x = ∫⁻ z, ENNReal.ofReal |A.det| * G (μ + A *ᵥ z) := by
  let L : (Fin k → ℝ) →L[ℝ] (Fin k → ℝ) := LinearMap.toContinuousLinearMap (Matrix.toLin' A)
  have hL : ∀ z, L z = A *ᵥ z := fun z => by simp [L]
  have hd : ∀ z ∈ (Set.univ : Set (Fin k → ℝ)),
      HasFDerivWithinAt (fun z => μ + A *ᵥ z) L Set.univ z := by
    intro z _
    have h1 : HasFDerivAt (fun z => L z) L z := L.hasFDerivAt
    have h2 : HasFDerivAt (fun z => μ + L z) L z := h1.const_add μ
    simp only [hL] at h2
    exact h2.hasFDerivWithinAt
  have hAu : IsUnit A.det := isUnit_iff_ne_zero.mpr hA
  have hinj : Set.InjOn (fun z => μ + A *ᵥ z) Set.univ := by
    intro x _ y _ h
    have h' : A *ᵥ x = A *ᵥ y := add_left_cancel h
    have := congrArg (fun v => A⁻¹ *ᵥ v) h'
    simpa [mulVec_mulVec, Matrix.nonsing_inv_mul _ hAu] using this
  have himg : (fun z => μ + A *ᵥ z) '' Set.univ = Set.univ := by
    apply Set.image_univ_of_surjective
    intro x
    refine ⟨A⁻¹ *ᵥ (x - μ), ?_⟩
    simp [mulVec_mulVec, Matrix.mul_nonsing_inv _ hAu]
  have h := lintegral_image_eq_lintegral_abs_det_fderiv_mul volume MeasurableSet.univ hd hinj G
  rw [himg, Measure.restrict_univ] at h
  rw [h]
  refine lintegral_congr (fun z => ?_)
  simp [L, LinearMap.det_toLin']

theorem multivariateNormal_normalised {k : ℕ} (μ : Fin k → ℝ) (S : Matrix (Fin k) (Fin k) ℝ)
    (hS : S.PosDef) : ∫⁻ x, ENNReal.ofReal (multivariateNormalPdf μ S x) = 1 := by
  obtain ⟨B, rfl⟩ := posDef_exists_factor S hS
  have hdet : (Bᵀ * B).det = B.det ^ 2 := by rw [det_mul, det_transpose, sq]
  have hB : B.det ≠ 0 := by
    intro h0
    have := hS.det_pos
    rw [hdet, h0] at this
    simp at this
  have hBt : Bᵀ.det ≠ 0 := by rwa [det_transpose]
  rw [lintegral_linear_change Bᵀ hBt μ, ← stdMvn_lintegral k]
  refine lintegral_congr (fun z => ?_)
  rw [← ENNReal.ofReal_mul (abs_nonneg _), prod_normalPdf_std]
  congr 1
  simp only [multivariateNormalPdf, add_sub_cancel_left]
  rw [mvn_quadform B hB z, hdet, det_transpose, abs_pow, ← Real.rpow_natCast,
    ← Real.rpow_mul (abs_nonneg _)]
  have : ((2 : ℕ) : ℝ) * (-(1 / 2 : ℝ)) = -1 := by norm_num
  rw [this, Real.rpow_neg_one]
  have habs : |B.det| ≠ 0 := abs_ne_zero.mpr hB
  field_simp



/-- the matrix argument is a COVARIANCE: a diagonal covariance `diag(σ_i²)` gives independent
normal(μ_i, σ_i) coordinates -/
theorem multivariateNormal_diagonal {k : ℕ} (μ σ : Fin k → ℝ) (hσ : ∀ i, 0 < σ i) (x : Fin k → ℝ) :
    multivariateNormalPdf μ (diagonal fun i => σ i ^ 2) x = ∏ i, normalPdf (μ i) (σ i) (x i) := by
  have hinv : (diagonal fun i => σ i ^ 2)⁻¹ = diagonal fun i => (σ i ^ 2)⁻¹ := by
    apply Matrix.inv_eq_right_inv
    rw [diagonal_mul_diagonal, ← diagonal_one]
    congr 1
    funext i
    exact mul_inv_cancel₀ (pow_pos (hσ i) 2).ne'
  simp only [multivariateNormalPdf, normalPdf, hinv, det_diagonal]
  rw [Finset.prod_mul_distrib, ← Real.exp_sum]
  congr 1
  · have h1 : ∀ i, (Real.sqrt (2 * π * σ i ^ 2))⁻¹ = (Real.sqrt (2 * π))⁻¹ * (σ i)⁻¹ := by
      intro i
      rw [Real.sqrt_mul' _ (sq_nonneg _), Real.sqrt_sq (hσ i).le, mul_inv]
    simp_rw [h1]
    rw [Finset.prod_mul_distrib, Finset.prod_const, Finset.card_univ, Fintype.card_fin]
    congr 1
    · rw [Real.sqrt_eq_rpow, ← Real.rpow_neg (by positivity), ← Real.rpow_natCast,
        ← Real.rpow_mul (by positivity)]
      congr 1; ring
    · rw [abs_of_nonneg (Finset.prod_nonneg (fun i _ => sq_nonneg _)),
        ← Real.finsetProd_rpow _ _ (fun i _ => sq_nonneg _)]
      refine Finset.prod_congr rfl (fun i _ => ?_)
      rw [← Real.rpow_natCast, ← Real.rpow_mul (hσ i).le]
      have : ((2 : ℕ) : ℝ) * (-(1 / 2 : ℝ)) = -1 := by norm_num
      rw [this, Real.rpow_neg_one]
  · congr 1
    simp only [dotProduct, mulVec_diagonal, Finset.mul_sum, Pi.sub_apply]
    refine Finset.sum_congr rfl (fun i _ => ?_)
    have := (hσ i).ne'
    field_simp


theorem multivariateNormalPdf_nonneg {k : ℕ} (μ : Fin k → ℝ) (S : Matrix (Fin k) (Fin k) ℝ)
    (x : Fin k → ℝ) : 0 ≤ multivariateNormalPdf μ S x := by
  simp only [multivariateNormalPdf]
  positivity

end Genjax.DistSpec
