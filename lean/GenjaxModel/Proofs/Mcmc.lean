import GenjaxModel.Model.Mcmc
import Mathlib.Algebra.Order.Field.Basic
import Mathlib.Tactic.Ring
import Mathlib.Tactic.Linarith
import Mathlib.Tactic.FieldSimp
/-!
  C09: the Metropolis-Hastings rule satisfies detailed balance; the leapfrog integrator followed
  by a momentum flip is an involution for an arbitrary force field (the reversibility HMC needs);
  a rejected move returns the input.
-/
namespace Genjax.Mcmc

set_option linter.unusedSectionVars false

section Field
variable {K : Type} [Field K] [LinearOrder K] [IsStrictOrderedRing K]

/-- detailed balance of the MH rule in ratio form: with a = π(x)q(x→x') > 0 and b = π(x')q(x'→x) > 0,
    a·min(1, b/a) = b·min(1, a/b) -/
theorem mh_detailed_balance (a b : K) (ha : 0 < a) (hb : 0 < b) :
    a * min 1 (b / a) = b * min 1 (a / b) := by
  rcases le_total a b with h | h
  · have h1 : (1 : K) ≤ b / a := (one_le_div ha).mpr h
    have h2 : a / b ≤ 1 := (div_le_one hb).mpr h
    rw [min_eq_left h1, min_eq_right h2]
    field_simp
  · have h1 : b / a ≤ 1 := (div_le_one ha).mpr h
    have h2 : (1 : K) ≤ a / b := (one_le_div hb).mpr h
    rw [min_eq_right h1, min_eq_left h2]
    field_simp

/-- the code's test `log u < min(0, w)` accepts with probability min(1, e^w): in the log domain,
    for every threshold, accept ⇔ (logU < logW ∧ logU < 0) -/
theorem accept_iff (logU logW : K) :
    accept logU logW = true ↔ (logU < logW ∧ logU < 0) := by
  unfold accept
  rw [decide_eq_true_iff]
  split_ifs with h
  · constructor
    · intro hu
      exact ⟨hu, lt_trans hu h⟩
    · intro hu
      exact hu.1
  · have h' : (0 : K) ≤ logW := not_lt.mp h
    constructor
    · intro hu
      exact ⟨lt_of_lt_of_le hu h', hu⟩
    · intro hu
      exact hu.2

end Field

section Ring
variable {K : Type} [Field K] [LinearOrder K] [IsStrictOrderedRing K]

/-- a rejected move returns the input state unchanged; an accepted one the proposal -/
theorem select_reject {σ : Type} (p c : σ) : select false p c = c ∧ select true p c = p := by
  constructor <;> simp [select]

/-! ### vector algebra on lists of equal length -/

@[simp] theorem length_vadd (a b : List K) : (vadd a b).length = min a.length b.length := by
  simp [vadd]

@[simp] theorem length_smul (c : K) (a : List K) : (smul c a).length = a.length := by
  simp [smul]

@[simp] theorem length_vneg (a : List K) : (vneg a).length = a.length := by
  simp [vneg]

theorem vneg_vneg (a : List K) : vneg (vneg a) = a := by
  apply List.ext_getElem
  · simp
  · intro i h1 h2
    simp [vneg]

/-- `-(a + k) + k = -a` -/
theorem vadd_vneg_vadd_cancel (a k : List K) (h : a.length = k.length) :
    vadd (vneg (vadd a k)) k = vneg a := by
  apply List.ext_getElem
  · simp [h]
  · intro i h1 h2
    simp [vadd, vneg]

/-- `(x + e q) + e (-q) = x` -/
theorem vadd_smul_vneg_cancel (e : K) (x q : List K) (h : x.length = q.length) :
    vadd (vadd x (smul e q)) (smul e (vneg q)) = x := by
  apply List.ext_getElem
  · simp [h]
  · intro i h1 h2
    simp [vadd, vneg, smul]

/-- well-shaped phase-space point: position and momentum have the same length -/
def WS (s : List K × List K) : Prop := s.1.length = s.2.length

theorem WS_flip {s : List K × List K} (h : WS s) : WS (flip s) := by
  simpa [WS, flip] using h

theorem flip_flip (s : List K × List K) : flip (flip s) = s := by
  simp [flip, vneg_vneg]

theorem WS_leapfrog (g : List K → List K) (hg : ∀ x, (g x).length = x.length) (eps : K)
    {s : List K × List K} (h : WS s) : WS (leapfrog g eps s) := by
  obtain ⟨x, p⟩ := s
  simp only [WS] at h
  simp [WS, leapfrog, hg, h]

theorem WS_leapfrogN (g : List K → List K) (hg : ∀ x, (g x).length = x.length) (eps : K)
    (n : Nat) {s : List K × List K} (h : WS s) : WS (leapfrogN g eps n s) := by
  induction n generalizing s with
  | zero => simpa [leapfrogN] using h
  | succ n ih =>
    simp only [leapfrogN]
    exact ih (WS_leapfrog g hg eps h)

/-- flip ∘ leapfrog ∘ flip inverts leapfrog on well-shaped states -/
theorem leapfrog_flip_leapfrog (g : List K → List K) (hg : ∀ x, (g x).length = x.length)
    (eps : K) {s : List K × List K} (h : WS s) :
    leapfrog g eps (flip (leapfrog g eps s)) = flip s := by
  obtain ⟨x, p⟩ := s
  simp only [WS] at h
  simp only [leapfrog, flip]
  -- first half kick of the backward step: -p2 + c g(x1) = -p1
  rw [vadd_vneg_vadd_cancel _ _ (by simp [hg, h])]
  -- drift: x1 + eps (-p1) = x
  rw [vadd_smul_vneg_cancel _ _ _ (by simp [hg, h])]
  -- second half kick: -p1 + c g(x) = -p
  rw [vadd_vneg_vadd_cancel _ _ (by simp [hg, h])]

/-- one leapfrog step, then flip, is an involution on states whose position/momentum/force
    vectors have equal lengths (force field `g` arbitrary but length-preserving) -/
theorem leapfrog_flip_involutive (g : List K → List K) (hg : ∀ x, (g x).length = x.length)
    (eps : K) (x p : List K) (hl : x.length = p.length) :
    flip (leapfrog g eps (flip (leapfrog g eps (x, p)))) = (x, p) := by
  rw [leapfrog_flip_leapfrog g hg eps (s := (x, p)) hl, flip_flip]

theorem leapfrogN_succ' (g : List K → List K) (eps : K) (n : Nat) (s : List K × List K) :
    leapfrogN g eps (n + 1) s = leapfrog g eps (leapfrogN g eps n s) := by
  induction n generalizing s with
  | zero => simp [leapfrogN]
  | succ n ih =>
    rw [leapfrogN, ih (leapfrog g eps s)]
    rfl

theorem leapfrogN_flip_leapfrogN (g : List K → List K) (hg : ∀ x, (g x).length = x.length)
    (eps : K) (n : Nat) {s : List K × List K} (h : WS s) :
    leapfrogN g eps n (flip (leapfrogN g eps n s)) = flip s := by
  induction n generalizing s with
  | zero => simp [leapfrogN]
  | succ n ih =>
    rw [leapfrogN_succ']
    simp only [leapfrogN]
    rw [ih (WS_leapfrog g hg eps h)]
    exact leapfrog_flip_leapfrog g hg eps h

/-- n leapfrog steps followed by a momentum flip is an involution, for every n, step size and
    force field: the proposal of HMC is reversible -/
theorem leapfrogN_flip_involutive (g : List K → List K) (hg : ∀ x, (g x).length = x.length)
    (eps : K) (n : Nat) (x p : List K) (hl : x.length = p.length) :
    flip (leapfrogN g eps n (flip (leapfrogN g eps n (x, p)))) = (x, p) := by
  rw [leapfrogN_flip_leapfrogN g hg eps n (s := (x, p)) hl, flip_flip]

end Ring

end Genjax.Mcmc
